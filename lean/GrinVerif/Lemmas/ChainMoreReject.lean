import GrinVerif.Lemmas.ChainMorePath
import GrinVerif.Lemmas.ChainBisim
import GrinVerif.Lemmas.ChainValue
/-! Refusals at the level of whole deliveries (`deliverBlock`, i.e. `Chain::process_block`): the exact
list of fault classes that make `validateBody` / `stateChecks` / the header gate fail, the fact
that each of them makes the delivery return an error with the best-chain observation unchanged, and
the path-level facts that say when an output is (not) unspent in the state a block is validated
against (spent earlier on the same path, created only on another fork, re-created, un-spent by a
reorganisation). Used by C01, C02, C06. -/
namespace GV.Chain

/-- the delivery was refused and the best-chain observation (head, stored blocks, reported unspent
set) is what it was; block and output definitions never change -/
def Refused (p : Params) (n : Node) (b : Blk) : Prop :=
  ∃ e, (deliverBlock p n b).2 = .err e ∧ (deliverBlock p n b).1.head = n.head ∧
    (deliverBlock p n b).1.stored = n.stored ∧
    (deliverBlock p n b).1.reportedUtxo p = n.reportedUtxo p

theorem deliverBlock_of_err (p : Params) (n : Node) (b : Blk) (e : Err)
    (h : (processBlockSingle p n b).2 = .err e) :
    deliverBlock p n b = ((processBlockSingle p n b).1, .err e) := by
  unfold deliverBlock
  cases hr : processBlockSingle p n b with
  | mk n1 r =>
    rw [hr] at h
    simp only at h
    subst h
    rfl

theorem deliverBlock_err_inv (p : Params) (n : Node) (b : Blk) (e : Err)
    (h : (deliverBlock p n b).2 = .err e) : (processBlockSingle p n b).2 = .err e := by
  unfold deliverBlock at h
  cases hr : processBlockSingle p n b with
  | mk n1 r =>
    rw [hr] at h
    cases r with
    | err e' => simpa using h
    | okHead => simp at h
    | okFork => simp at h

/-- a delivery that returns an error leaves the best-chain observation unchanged -/
theorem refused_of_err (p : Params) (n : Node) (b : Blk) (e : Err)
    (h : (deliverBlock p n b).2 = .err e) : Refused p n b := by
  have h1 := deliverBlock_err_inv p n b e h
  have hd := deliverBlock_of_err p n b e h1
  have hdefs := processBlockSingle_defs p n b
  rcases processBlockSingle_core p n b with ⟨hh, hs, _⟩ | ⟨par, s', _, _, _, _, _, hc⟩
  · refine ⟨e, h, by rw [hd]; exact hh, by rw [hd]; exact hs, ?_⟩
    rw [hd]
    exact reportedUtxo_congr hdefs.1 hh p
  · rcases hc with ⟨_, _, hr⟩ | ⟨_, _, hr⟩ <;> rw [hr] at h1 <;> cases h1

/-- a block that cannot pass `checkBlock` against its parent is refused -/
theorem refused_of_check_fails (p : Params) (n : Node) (b : Blk)
    (hfail : ∀ par s', b.parent = some par → checkBlock p n b par ≠ .ok s') : Refused p n b := by
  rcases processBlockSingle_core p n b with ⟨_, _, e, he⟩ | ⟨par, s', hpar, _, _, hc, _⟩
  · exact refused_of_err p n b e (by rw [deliverBlock_of_err p n b e he])
  · exact absurd hc (hfail par s' hpar)

/-! ### the fault classes of `validateBody` and `stateChecks`, exactly -/

theorem validateBody_none_iff (p : Params) (outs : List OutDef) (b : Blk) (iv : Nat) :
    validateBody p outs b iv = none ↔
      (hasTag b "body:" = none ∧ dupInBody b = false ∧ cutThroughViolation b = false ∧
       lockViolation b = false ∧ nrdEraViolation b = false ∧ coinbaseMismatch p outs b = false ∧
       valueMismatch p outs b iv = false ∧ hasTag b "ksum:" = none) := by
  unfold validateBody
  cases hasTag b "body:" <;> cases dupInBody b <;> cases cutThroughViolation b <;>
    cases lockViolation b <;> cases nrdEraViolation b <;> cases coinbaseMismatch p outs b <;>
    cases valueMismatch p outs b iv <;> simp

theorem stateChecks_none_iff (p : Params) (s : UState) (b : Blk) :
    stateChecks p s b = none ↔
      (b.ins.all s.has = true ∧ immature p s b = false ∧ dupOutput s b = false ∧
       hasTag b "sums:" = none ∧ nrdBad s b = false ∧ hasTag b "late:" = none) := by
  unfold stateChecks
  cases b.ins.all s.has <;> cases immature p s b <;> cases dupOutput s b <;>
    cases hasTag b "sums:" <;> cases nrdBad s b <;> simp

/-- **body faults**: a signature / range-proof / sorting fault (`body:` tag), a commitment twice
among the inputs or outputs, cut-through, a lock height above the block, an NRD kernel before its
era, a wrong coinbase claim, an unbalanced body, or a blinding-level sum fault (`ksum:` tag) -/
theorem refused_of_body_fault (p : Params) (n : Node) (b : Blk)
    (h : validateBody p n.outs b (sumVals n.outs b.ins) ≠ none) : Refused p n b := by
  apply refused_of_check_fails
  intro par s' _ hc
  obtain ⟨_, _, hv, _⟩ := checkBlock_ok p n b par s' hc
  exact h hv

/-- **state faults**: against the replayed state of the block's own parent — an input that is not
unspent there, an immature coinbase spend, a duplicate of an unspent commitment, a block-sums fault
(`sums:` tag), an NRD kernel too close, or a root / size mismatch found after the block was applied
to the working state (`late:` tag) -/
theorem refused_of_state_fault (p : Params) (n : Node) (b : Blk)
    (h : ∀ par sPar, b.parent = some par → n.stateAt p par = .ok sPar →
      stateChecks p sPar b ≠ none) : Refused p n b := by
  apply refused_of_check_fails
  intro par s' hpar hc
  obtain ⟨sPar, hst, _, hab⟩ := checkBlock_ok p n b par s' hc
  apply h par sPar hpar hst
  unfold applyBlock at hab
  cases hs : stateChecks p sPar b with
  | none => rfl
  | some e => rw [hs] at hab; cases hab

/-- **parent state missing**: the parent has no replayable path -/
theorem refused_of_parent_state (p : Params) (n : Node) (b : Blk)
    (h : ∀ par, b.parent = some par → ∃ e, n.stateAt p par = .error e) : Refused p n b := by
  apply refused_of_check_fails
  intro par s' hpar hc
  obtain ⟨sPar, hst, _, _⟩ := checkBlock_ok p n b par s' hc
  obtain ⟨e, he⟩ := h par hpar
  rw [he] at hst; cases hst

/-- **header faults** (height, version, timestamp, `hdr:` tag: PoW / difficulty / root faults, or an
unknown parent header): on a node satisfying the store invariant, a block that is not already known
and whose header does not validate is refused and the node is left *entirely* unchanged -/
theorem refused_of_header_fault (p : Params) (n : Node) (b : Blk) (hb : n.blk b.id = some b)
    (hi : StoreInv p n) (hk : ¬ KnownFull n b) (h : validateHeader p n b ≠ none) :
    Refused p n b ∧ (deliverBlock p n b).1 = n := by
  have herr : ∃ e, processHeader p n b = .error e := by
    cases hp : processHeader p n b with
    | error e => exact ⟨e, rfl⟩
    | ok n1 =>
      exfalso
      rcases processHeader_ok_cases p n n1 b hp with ⟨_, hk' | ⟨hm, par, hpar, hpm⟩⟩ | ⟨_, hv, _⟩
      · exact hk hk'
      · rcases hi.hdr.valid b.id hm with h0 | ⟨b', par', hb', hv, hp', hpm'⟩
        · exact hk (Or.inr (Or.inr (h0 ▸ hi.closed.zero)))
        · rw [hb] at hb'
          cases hb'
          exact h ((validateHeader_none_iff p n b).mpr ⟨hv, par', hp', hpm'⟩)
      · exact h hv
  obtain ⟨e, he⟩ := herr
  have hs : processBlockSingle p n b = (n, .err e) := by simp [processBlockSingle, he]
  have hd := deliverBlock_of_err p n b e (by rw [hs])
  refine ⟨refused_of_err p n b e (by rw [hd]), ?_⟩
  rw [hd, hs]

/-! ### when is an output unspent on a path -/

/-- never created on the path (and not present at its start): not unspent at its end -/
theorem replay_has_of_never_created (p : Params) (bs : List Blk) : ∀ (s s' : UState) (o : Nat),
    replay p s bs = .ok s' → s.has o = false → (∀ b ∈ bs, o ∉ b.outs.map (·.1)) →
    s'.has o = false := by
  induction bs with
  | nil =>
    intro s s' o h h0 _
    simp only [replay] at h
    injection h with h
    subst h; exact h0
  | cons b bs ih =>
    intro s s' o h h0 hn
    simp only [replay] at h
    cases h1 : applyBlock p s b with
    | error e => rw [h1] at h; cases h
    | ok s1 =>
      rw [h1] at h
      have he := (applyBlock_ok p s s1 b h1).2.2.2.2
      apply ih s1 s' o h _ (fun b' hb' => hn b' (List.mem_cons_of_mem _ hb'))
      rw [he, effects_has, h0]
      have hno := hn b (List.mem_cons_self ..)
      have : b.outs.any (·.1 == o) = false := by
        apply Bool.eq_false_iff.mpr
        intro ht
        obtain ⟨x, hx, hxo⟩ := List.any_eq_true.mp ht
        exact hno (List.mem_map.mpr ⟨x, hx, by simpa using hxo⟩)
      simp [this]

/-- spent by a block of the path and not re-created after it: not unspent at the end
(*a spent output never reappears*) -/
theorem replay_has_of_spent (p : Params) (pre post : List Blk) (a : Blk) (s s' : UState) (o : Nat)
    (h : replay p s (pre ++ a :: post) = .ok s') (ha : o ∈ a.ins)
    (hct : cutThroughViolation a = false) (hn : ∀ b ∈ post, o ∉ b.outs.map (·.1)) :
    s'.has o = false := by
  rw [replay_append] at h
  cases h1 : replay p s pre with
  | error e => rw [h1] at h; cases h
  | ok s1 =>
    rw [h1] at h
    simp only [replay] at h
    cases h2 : applyBlock p s1 a with
    | error e => rw [h2] at h; cases h
    | ok s2 =>
      rw [h2] at h
      have he := (applyBlock_ok p s1 s2 a h2).2.2.2.2
      apply replay_has_of_never_created p post s2 s' o h _ hn
      rw [he, effects_has]
      have h3 : a.outs.any (·.1 == o) = false := by
        apply Bool.eq_false_iff.mpr
        intro ht
        obtain ⟨x, hx, hxo⟩ := List.any_eq_true.mp ht
        have hcut : (a.ins.any fun i => a.outs.any (·.1 == i)) = true :=
          List.any_eq_true.mpr ⟨o, ha, List.any_eq_true.mpr ⟨x, hx, hxo⟩⟩
        unfold cutThroughViolation at hct
        rw [hcut] at hct; cases hct
      have h4 : a.ins.contains o = true := by simpa using ha
      rw [h3, h4]
      simp

/-- created by a block of the path (or present at its start) and not spent after it: unspent at the
end (*an unspent output never vanishes*), whatever blocks outside the path do -/
theorem replay_has_of_unspent_since (p : Params) (bs : List Blk) : ∀ (s s' : UState) (o : Nat),
    replay p s bs = .ok s' → s.has o = true → (∀ b ∈ bs, o ∉ b.ins) → s'.has o = true := by
  induction bs with
  | nil =>
    intro s s' o h h0 _
    simp only [replay] at h
    injection h with h
    subst h; exact h0
  | cons b bs ih =>
    intro s s' o h h0 hn
    simp only [replay] at h
    cases h1 : applyBlock p s b with
    | error e => rw [h1] at h; cases h
    | ok s1 =>
      rw [h1] at h
      have he := (applyBlock_ok p s s1 b h1).2.2.2.2
      apply ih s1 s' o h _ (fun b' hb' => hn b' (List.mem_cons_of_mem _ hb'))
      rw [he, effects_has, h0]
      have h4 : b.ins.contains o = false := by
        have := hn b (List.mem_cons_self ..)
        simpa using this
      rw [h4]
      simp

theorem replay_has_of_created (p : Params) (pre post : List Blk) (c : Blk) (s s' : UState) (o : Nat)
    (h : replay p s (pre ++ c :: post) = .ok s') (hc : o ∈ c.outs.map (·.1))
    (hn : ∀ b ∈ post, o ∉ b.ins) : s'.has o = true := by
  rw [replay_append] at h
  cases h1 : replay p s pre with
  | error e => rw [h1] at h; cases h
  | ok s1 =>
    rw [h1] at h
    simp only [replay] at h
    cases h2 : applyBlock p s1 c with
    | error e => rw [h2] at h; cases h
    | ok s2 =>
      rw [h2] at h
      have he := (applyBlock_ok p s1 s2 c h2).2.2.2.2
      apply replay_has_of_unspent_since p post s2 s' o h _ hn
      rw [he, effects_has]
      obtain ⟨x, hx, hxo⟩ := List.mem_map.mp hc
      have h4 : c.outs.any (·.1 == o) = true := List.any_eq_true.mpr ⟨x, hx, by simp [hxo]⟩
      rw [h4]
      simp

theorem genesisState_has_iff (g : Blk) (o : Nat) :
    (genesisState g).has o = true ↔ o ∈ g.outs.map (·.1) := by
  rw [has_iff_mem]
  simp [genesisState, List.map_map]

end GV.Chain
