import GrinVerif.Lemmas.ChainBisim
import GrinVerif.Lemmas.ChainOrphan
/-! The C06 bisimulation: nodes with the same best-chain core that differ only in remembered
headers / pooled orphans of blocks that can never be stored behave alike along every history. -/
namespace GV.Chain

theorem pbs_headers_sub (p : Params) (n : Node) (b : Blk) (h : Nat)
    (hm : h ∈ (processBlockSingle p n b).1.headers) : h ∈ n.headers ∨ h = b.id := by
  have key : ∀ n1, processHeader p n b = .ok n1 → h ∈ n1.headers → h ∈ n.headers ∨ h = b.id := by
    intro n1 h1 hm1
    rcases processHeader_ok_cases p n n1 b h1 with ⟨e, _⟩ | ⟨_, _, e⟩
    · rw [e] at hm1; exact Or.inl hm1
    · rw [e] at hm1; exact (hdrUpdate_headers_mem n b h).mp hm1
  rcases processBlockSingle_spec p n b with ⟨e, _, hr⟩ | ⟨n1, h1, hr⟩
  · rw [hr] at hm; exact Or.inl hm
  · rcases hr with ⟨e, _, hr⟩ | ⟨_, hr⟩ | ⟨par, _, ⟨e, _, hr⟩ | ⟨s', _, hr⟩⟩
    · rw [hr] at hm; exact key n1 h1 hm
    · rw [hr] at hm; exact key n1 h1 hm
    · rw [hr] at hm; exact key n1 h1 hm
    · rw [hr] at hm
      have e : (storeBlock n1 b).1.headers = n1.headers := by unfold storeBlock; split <;> rfl
      rw [e] at hm; exact key n1 h1 hm

theorem pbs_orphans_eq (p : Params) (n : Node) (b : Blk) :
    (processBlockSingle p n b).1.orphans = n.orphans ∨
    (processBlockSingle p n b).1.orphans = (addOrphan n b).orphans := by
  rcases processBlockSingle_spec p n b with ⟨e, _, hr⟩ | ⟨n1, h1, hr⟩
  · rw [hr]; exact Or.inl rfl
  · have hf := processHeader_frame p n n1 b h1
    rcases hr with ⟨e, _, hr⟩ | ⟨_, hr⟩ | ⟨par, _, ⟨e, _, hr⟩ | ⟨s', _, hr⟩⟩
    · rw [hr]; exact Or.inl hf.2.2.2.1
    · rw [hr]; right; unfold addOrphan; simp only [hf.2.2.2.1]
    · rw [hr]; exact Or.inl hf.2.2.2.1
    · rw [hr]
      have e : (storeBlock n1 b).1.orphans = n1.orphans := by unfold storeBlock; split <;> rfl
      rw [e]; exact Or.inl hf.2.2.2.1

theorem addOrphan_filter_dead (live : Nat → Bool) (n : Node) (b : Blk) (hd : live b.id = false) :
    (addOrphan n b).orphans.filter live = n.orphans.filter live := by
  unfold addOrphan
  simp only
  split
  · rfl
  · simp [List.filter_append, hd]

theorem addOrphan_filter_live (live : Nat → Bool) (a c : Node) (b : Blk) (hl : live b.id = true)
    (h : a.orphans.filter live = c.orphans.filter live) :
    (addOrphan a b).orphans.filter live = (addOrphan c b).orphans.filter live := by
  have hmem : b.id ∈ a.orphans ↔ b.id ∈ c.orphans := by
    have ha : b.id ∈ a.orphans ↔ b.id ∈ a.orphans.filter live := by simp [List.mem_filter, hl]
    have hc : b.id ∈ c.orphans ↔ b.id ∈ c.orphans.filter live := by simp [List.mem_filter, hl]
    rw [ha, hc, h]
  unfold addOrphan
  simp only [List.contains_eq_mem]
  by_cases hm : b.id ∈ a.orphans
  · simp only [hm, hmem.mp hm, decide_true, if_true]; exact h
  · have hm' : b.id ∉ c.orphans := fun x => hm (hmem.mpr x)
    simp only [hm, hm', decide_false]
    simp [List.filter_append, h]


theorem knownFull_stored {n : Node} {b : Blk} (hc : StoredClosed n) (hk : KnownFull n b) :
    b.id ∈ n.stored := by
  rcases hk with h | h | h
  · exact h ▸ hc.head
  · unfold Node.parentOf at h
    cases hh : n.blk n.head with
    | none => rw [hh] at h; cases h
    | some hb =>
      rw [hh] at h
      exact hc.parent n.head hc.head hb b.id hh h.symm
  · exact h

/-- the node after the header gate, and the rest of the step, in terms of the node before -/
theorem pbs_headers_iff (p : Params) (n : Node) (b : Blk) (hb : n.blk b.id = some b)
    (hi : StoreInv p n) (h : Nat) :
    h ∈ (processBlockSingle p n b).1.headers ↔ h ∈ n.headers ∨ (h = b.id ∧ gateErr p n b = none) := by
  cases hg : gateErr p n b with
  | some e =>
    have h1 := (processHeader_gateErr p n b hb hi).1 e hg
    simp only [processBlockSingle, h1]
    simp
  | none =>
    obtain ⟨n1, h1⟩ := (processHeader_gateErr p n b hb hi).2 hg
    have hn1 : h ∈ n1.headers ↔ h ∈ n.headers ∨ h = b.id := by
      rcases processHeader_ok_cases p n n1 b h1 with ⟨e, hk⟩ | ⟨_, _, e⟩
      · have hbm : b.id ∈ n.headers := by
          rcases hk with hk | ⟨hk, _⟩
          · exact hi.hdr.stored _ (knownFull_stored hi.closed hk)
          · exact hk
        rw [e]
        constructor
        · exact Or.inl
        · rintro (h2 | h2)
          · exact h2
          · exact h2 ▸ hbm
      · rw [e]; exact hdrUpdate_headers_mem n b h
    have hfin : (processBlockSingle p n b).1.headers = n1.headers := by
      rcases processBlockSingle_spec p n b with ⟨e, he, _⟩ | ⟨n1', h1', hr⟩
      · rw [h1] at he; cases he
      · rw [h1] at h1'; cases h1'
        rcases hr with ⟨e, _, hr⟩ | ⟨_, hr⟩ | ⟨par, _, ⟨e, _, hr⟩ | ⟨s', _, hr⟩⟩
        · rw [hr]
        · rw [hr]; rfl
        · rw [hr]
        · rw [hr]; unfold storeBlock; split <;> rfl
    rw [hfin, hn1]
    simp

theorem pbs_orphans_iff (p : Params) (n : Node) (b : Blk) (hb : n.blk b.id = some b)
    (hi : StoreInv p n) :
    (processBlockSingle p n b).1.orphans =
      if gateErr p n b = none ∧ precheck n b = .orphan then (addOrphan n b).orphans else n.orphans := by
  cases hg : gateErr p n b with
  | some e =>
    have h1 := (processHeader_gateErr p n b hb hi).1 e hg
    simp only [processBlockSingle, h1]
    simp
  | none =>
    obtain ⟨n1, h1⟩ := (processHeader_gateErr p n b hb hi).2 hg
    have hc1 : CoreEq n1 n := CoreEq.of_header h1
    have hf := processHeader_frame p n n1 b h1
    rw [processBlockSingle_header_ok h1, precheck_congr hc1 b]
    cases hpre : precheck n b with
    | reject e => simp [hf.2.2.2.1]
    | orphan => simp [addOrphan, hf.2.2.2.1]
    | go par =>
      simp only [true_and]
      cases checkBlock p n1 b par with
      | error e => simp [hf.2.2.2.1]
      | ok s' =>
        have e : (storeBlock n1 b).1.orphans = n1.orphans := by unfold storeBlock; split <;> rfl
        simp [e, hf.2.2.2.1]

/-- what the liveness classifier must satisfy: the genesis has no parent, the parent of a live
block is live, dead blocks are not valid on their path (so they can never be stored) -/
structure LiveOK (p : Params) (N : Node) (live : Nat → Bool) : Prop where
  parent : ∀ b par, N.blk b.id = some b → b.parent = some par → live b.id = true → live par = true
  dead : ∀ z, live z = false → ¬ VOP p N z

/-- the simulation relation of C06: same best-chain core; remembered headers and pooled orphans
may differ, but only in blocks that can never be stored (`live = false`) -/
structure Sim (p : Params) (N : Node) (live : Nat → Bool) (a c : Node) : Prop where
  blks : a.blks = N.blks
  outs : a.outs = N.outs
  core : CoreEq a c
  inva : Inv p a
  invc : Inv p c
  hdrs : ∀ h, live h = true → (h ∈ a.headers ↔ h ∈ c.headers)
  pool : a.orphans.filter live = c.orphans.filter live

theorem Sim.symm {p : Params} {N : Node} {live : Nat → Bool} {a c : Node} (h : Sim p N live a c) :
    Sim p N live c a :=
  ⟨h.core.blks.symm.trans h.blks, h.core.outs.symm.trans h.outs, h.core.symm, h.invc, h.inva,
   fun x hx => (h.hdrs x hx).symm, h.pool.symm⟩

/-- a dead block processed by one side only: nothing observable changes -/
theorem Sim.dead_left {p : Params} {N : Node} {live : Nat → Bool} {a c : Node} (hl : LiveOK p N live)
    (h : Sim p N live a c) (b : Blk) (hb : a.blk b.id = some b) (hd : live b.id = false) :
    Sim p N live (processBlockSingle p a b).1 c ∧ ∃ e, (processBlockSingle p a b).2 = .err e := by
  have hdf := processBlockSingle_defs p a b
  have hi' := (preserved_inv p).single a b hb h.inva
  have hcore : (processBlockSingle p a b).1.head = a.head ∧
      (processBlockSingle p a b).1.stored = a.stored ∧ ∃ e, (processBlockSingle p a b).2 = .err e := by
    rcases processBlockSingle_core p a b with hc | ⟨_, _, _, _, _, _, hst, _⟩
    · exact hc
    · exfalso
      have hm : b.id ∈ (processBlockSingle p a b).1.stored := by rw [hst]; simp
      have hv := hi'.2.valid b.id hm
      exact hl.dead b.id hd ((VOP_congr (hdf.2.trans h.outs) (hdf.1.trans h.blks) p b.id).mp hv)
  refine ⟨⟨hdf.1.trans h.blks, hdf.2.trans h.outs, ?_, hi', h.invc, ?_, ?_⟩, hcore.2.2⟩
  · exact ⟨hdf.2.trans h.core.outs, hdf.1.trans h.core.blks, hcore.1.trans h.core.head,
      hcore.2.1.trans h.core.stored⟩
  · intro x hx
    rw [← h.hdrs x hx]
    constructor
    · intro hm
      rcases pbs_headers_sub p a b x hm with h1 | h1
      · exact h1
      · rw [h1, hd] at hx; cases hx
    · exact pbs_headers_mono p a b x
  · rw [← h.pool]
    rcases pbs_orphans_eq p a b with h1 | h1
    · rw [h1]
    · rw [h1, addOrphan_filter_dead live a b hd]

/-- a live block processed by both sides: same result, still similar -/
theorem Sim.live_both {p : Params} {N : Node} {live : Nat → Bool} {a c : Node} (hl : LiveOK p N live)
    (h : Sim p N live a c) (b : Blk) (hb : a.blk b.id = some b) (hlv : live b.id = true) :
    Sim p N live (processBlockSingle p a b).1 (processBlockSingle p c b).1 ∧
    (processBlockSingle p a b).2 = (processBlockSingle p c b).2 := by
  have hbc : c.blk b.id = some b := by rw [← blk_congr h.core.blks]; exact hb
  have hbN : N.blk b.id = some b := by rw [← blk_congr h.blks]; exact hb
  have hp : ∀ par, b.parent = some par → (par ∈ a.headers ↔ par ∈ c.headers) :=
    fun par hpar => h.hdrs par (hl.parent b par hbN hpar hlv)
  obtain ⟨hce, hres⟩ := processBlockSingle_coreEq p a c b h.core hb h.inva.2 h.invc.2 hp
  have hg := gateErr_congr p h.core b hp
  have hdf := processBlockSingle_defs p a b
  refine ⟨⟨hdf.1.trans h.blks, hdf.2.trans h.outs, hce, (preserved_inv p).single a b hb h.inva,
    (preserved_inv p).single c b hbc h.invc, ?_, ?_⟩, hres⟩
  · intro x hx
    rw [pbs_headers_iff p a b hb h.inva.2, pbs_headers_iff p c b hbc h.invc.2, hg, h.hdrs x hx]
  · rw [pbs_orphans_iff p a b hb h.inva.2, pbs_orphans_iff p c b hbc h.invc.2, hg,
      precheck_congr h.core b]
    split
    · exact addOrphan_filter_live live a c b hlv h.pool
    · exact h.pool


theorem orphanStep_dead_left {p : Params} {N : Node} {live : Nat → Bool} {x : Node}
    (hl : LiveOK p N live) (acc : Node × Option Nat) (o : Nat) (hd : live o = false)
    (h : Sim p N live acc.1 x) :
    Sim p N live (orphanStep p acc o).1 x ∧ (orphanStep p acc o).2 = acc.2 := by
  cases hbo : acc.1.blk o with
  | none => rw [orphanStep_none hbo]; exact ⟨h, rfl⟩
  | some b =>
    have hid := blk_id hbo
    rw [orphanStep_some hbo]
    obtain ⟨hs, e, he⟩ := h.dead_left hl b (hid ▸ hbo) (hid ▸ hd)
    exact ⟨hs, by simp only [he]⟩

theorem fold_dead_left {p : Params} {N : Node} {live : Nat → Bool} {x : Node}
    (hl : LiveOK p N live) (l : List Nat) : ∀ (acc : Node × Option Nat),
    (∀ o ∈ l, live o = false) → Sim p N live acc.1 x →
    Sim p N live (l.foldl (orphanStep p) acc).1 x ∧ (l.foldl (orphanStep p) acc).2 = acc.2 := by
  induction l with
  | nil => intro acc _ h; exact ⟨h, rfl⟩
  | cons o l ih =>
    intro acc hd h
    obtain ⟨h1, e1⟩ := orphanStep_dead_left hl acc o (hd o (List.mem_cons_self ..)) h
    obtain ⟨h2, e2⟩ := ih _ (fun o' ho' => hd o' (List.mem_cons_of_mem _ ho')) h1
    exact ⟨h2, e2.trans e1⟩

theorem orphanStep_live_both {p : Params} {N : Node} {live : Nat → Bool} (hl : LiveOK p N live)
    (acca accc : Node × Option Nat) (o : Nat) (hlv : live o = true)
    (h : Sim p N live acca.1 accc.1) (h2 : acca.2 = accc.2) :
    Sim p N live (orphanStep p acca o).1 (orphanStep p accc o).1 ∧
    (orphanStep p acca o).2 = (orphanStep p accc o).2 := by
  have hbe : acca.1.blk o = accc.1.blk o := blk_congr h.core.blks o
  cases hbo : acca.1.blk o with
  | none =>
    rw [orphanStep_none hbo, orphanStep_none (hbe ▸ hbo)]; exact ⟨h, h2⟩
  | some b =>
    have hid := blk_id hbo
    rw [orphanStep_some hbo, orphanStep_some (hbe ▸ hbo)]
    obtain ⟨hs, hr⟩ := h.live_both hl b (hid ▸ hbo) (hid ▸ hlv)
    exact ⟨hs, by simp only [hr, h2]⟩

/-- the loop over the orphans of one height, on two similar nodes whose lists agree on the live
entries -/
theorem fold_sim {p : Params} {N : Node} {live : Nat → Bool} (hl : LiveOK p N live)
    (la : List Nat) : ∀ (lc : List Nat) (acca accc : Node × Option Nat),
    la.filter live = lc.filter live → Sim p N live acca.1 accc.1 → acca.2 = accc.2 →
    Sim p N live (la.foldl (orphanStep p) acca).1 (lc.foldl (orphanStep p) accc).1 ∧
    (la.foldl (orphanStep p) acca).2 = (lc.foldl (orphanStep p) accc).2 := by
  induction la with
  | nil =>
    intro lc acca accc hf h h2
    have hdead : ∀ o ∈ lc, live o = false := by
      have := List.filter_eq_nil_iff.mp hf.symm
      intro o ho
      have := this o ho
      simpa using this
    obtain ⟨h1, e1⟩ := fold_dead_left hl lc accc hdead h.symm
    exact ⟨h1.symm, h2.trans e1.symm⟩
  | cons a0 la ih =>
    intro lc acca accc hf h h2
    by_cases hlv : live a0 = true
    · rw [List.filter_cons_of_pos hlv] at hf
      obtain ⟨l1, l2, hlc, hd1, _, hf2⟩ := List.filter_eq_cons_iff.mp hf.symm
      subst hlc
      rw [List.foldl_append]
      simp only [List.foldl_cons]
      obtain ⟨h1, e1⟩ := fold_dead_left hl l1 accc (fun o ho => by simpa using hd1 o ho) h.symm
      obtain ⟨h3, e3⟩ := orphanStep_live_both hl acca _ a0 hlv h1.symm (h2.trans e1.symm)
      exact ih l2 _ _ hf2.symm h3 e3
    · have hd : live a0 = false := by simpa using hlv
      rw [List.filter_cons_of_neg hlv] at hf
      simp only [List.foldl_cons]
      obtain ⟨h1, e1⟩ := orphanStep_dead_left hl acca a0 hd h
      exact ih lc _ accc hf h1 (e1.trans h2)

theorem filter_not_of_isEmpty {α : Type} (q : α → Bool) (l : List α) (h : (l.filter q).isEmpty) :
    l.filter (fun x => !q x) = l := by
  apply List.filter_eq_self.mpr
  intro x hx
  have := List.filter_eq_nil_iff.mp (List.isEmpty_iff.mp h) x hx
  simpa using this

/-- the start of a round on two similar nodes -/
theorem orphanRound_sim {p : Params} {N : Node} {live : Nat → Bool} {a c : Node}
    (hl : LiveOK p N live) (h : Sim p N live a c) (height : Nat) :
    Sim p N live (orphanRound p a height).1 (orphanRound p c height).1 ∧
    (orphanRound p a height).2 = (orphanRound p c height).2 := by
  unfold orphanRound
  have hh : ∀ o, c.heightOf o = a.heightOf o := fun o => (heightOf_congr h.core.blks o).symm
  apply fold_sim hl
  · simp only [hh, List.filter_filter]
    have : ∀ (l : List Nat), l.filter (fun x => live x && (a.heightOf x == height)) =
        (l.filter live).filter (fun x => a.heightOf x == height) := by
      intro l; rw [List.filter_filter]; congr 1; funext x; rw [Bool.and_comm]
    rw [this, this, h.pool]
  · refine ⟨h.blks, h.outs, ⟨h.core.outs, h.core.blks, h.core.head, h.core.stored⟩,
      (preserved_inv p).orphans a _ h.inva, (preserved_inv p).orphans c _ h.invc, h.hdrs, ?_⟩
    show (a.orphans.filter _).filter live = (c.orphans.filter _).filter live
    simp only [hh, List.filter_filter]
    have : ∀ (l : List Nat), l.filter (fun x => live x && !(a.heightOf x == height)) =
        (l.filter live).filter (fun x => !(a.heightOf x == height)) := by
      intro l; rw [List.filter_filter]; congr 1; funext x; rw [Bool.and_comm]
    rw [this, this, h.pool]
  · rfl

/-- when no pooled block sits at the height, the round is the identity -/
theorem orphanRound_empty {p : Params} {n : Node} {height : Nat}
    (h : (n.orphans.filter (fun o => n.heightOf o == height)).isEmpty) :
    orphanRound p n height = (n, none) := by
  unfold orphanRound
  rw [List.isEmpty_iff.mp h, filter_not_of_isEmpty _ _ h]
  rfl

theorem checkOrphans_round' (p : Params) (fuel : Nat) (n : Node) (height : Nat) :
    checkOrphans p (fuel + 1) n height =
      match (orphanRound p n height).2 with
      | some hAcc => checkOrphans p fuel (orphanRound p n height).1 (hAcc + 1)
      | none => (orphanRound p n height).1 := by
  rw [checkOrphans_round]
  split
  · rename_i hemp
    rw [orphanRound_empty hemp]
  · rfl

theorem checkOrphans_sim {p : Params} {N : Node} {live : Nat → Bool} (hl : LiveOK p N live)
    (fuel : Nat) : ∀ (a c : Node) (height : Nat), Sim p N live a c →
    Sim p N live (checkOrphans p fuel a height) (checkOrphans p fuel c height) := by
  induction fuel with
  | zero => intro a c _ h; exact h
  | succ k ih =>
    intro a c height h
    rw [checkOrphans_round', checkOrphans_round']
    obtain ⟨h1, e1⟩ := orphanRound_sim hl h height
    rw [e1]
    cases (orphanRound p c height).2 with
    | none => exact h1
    | some hAcc => exact ih _ _ _ h1


theorem processHeader_headers_iff {p : Params} {n n1 : Node} {b : Blk} (hi : StoreInv p n)
    (h1 : processHeader p n b = .ok n1) (h : Nat) :
    h ∈ n1.headers ↔ h ∈ n.headers ∨ h = b.id := by
  rcases processHeader_ok_cases p n n1 b h1 with ⟨e, hk⟩ | ⟨_, _, e⟩
  · have hbm : b.id ∈ n.headers := by
      rcases hk with hk | ⟨hk, _⟩
      · exact hi.hdr.stored _ (knownFull_stored hi.closed hk)
      · exact hk
    rw [e]
    constructor
    · exact Or.inl
    · rintro (h2 | h2)
      · exact h2
      · exact h2 ▸ hbm
  · rw [e]; exact hdrUpdate_headers_mem n b h

theorem deliverBlock_sim {p : Params} {N : Node} {live : Nat → Bool} {a c : Node}
    (hl : LiveOK p N live) (h : Sim p N live a c) (b : Blk) (hb : a.blk b.id = some b) :
    Sim p N live (deliverBlock p a b).1 (deliverBlock p c b).1 ∧
    (live b.id = true → (deliverBlock p a b).2 = (deliverBlock p c b).2) := by
  have hbc : c.blk b.id = some b := by rw [← blk_congr h.core.blks]; exact hb
  by_cases hlv : live b.id = true
  · obtain ⟨hs, hr⟩ := h.live_both hl b hb hlv
    unfold deliverBlock
    cases ha : processBlockSingle p a b with
    | mk a1 ra =>
      cases hc : processBlockSingle p c b with
      | mk c1 rc =>
        rw [ha, hc] at hs hr
        simp only at hs hr
        subst hr
        have hbl : a1.blks.length = c1.blks.length := by rw [hs.core.blks]
        cases ra with
        | err e => exact ⟨hs, fun _ => rfl⟩
        | okHead => simp only [hbl]; exact ⟨checkOrphans_sim hl _ _ _ _ hs, fun _ => trivial⟩
        | okFork => simp only [hbl]; exact ⟨checkOrphans_sim hl _ _ _ _ hs, fun _ => trivial⟩
  · have hd : live b.id = false := by simpa using hlv
    obtain ⟨hs1, e1, he1⟩ := h.dead_left hl b hb hd
    obtain ⟨hs2, e2, he2⟩ := hs1.symm.dead_left hl b hbc hd
    refine ⟨?_, fun x => absurd x hlv⟩
    unfold deliverBlock
    cases ha : processBlockSingle p a b with
    | mk a1 ra =>
      cases hc : processBlockSingle p c b with
      | mk c1 rc =>
        rw [ha] at he1 hs2
        rw [hc] at he2 hs2
        simp only at he1 he2 hs2
        subst he1 he2
        exact hs2.symm

theorem deliverHeader_sim {p : Params} {N : Node} {live : Nat → Bool} {a c : Node}
    (hl : LiveOK p N live) (h : Sim p N live a c) (b : Blk) (hb : a.blk b.id = some b) :
    Sim p N live (deliverHeader p a b).1 (deliverHeader p c b).1 := by
  have hbc : c.blk b.id = some b := by rw [← blk_congr h.core.blks]; exact hb
  have hbN : N.blk b.id = some b := by rw [← blk_congr h.blks]; exact hb
  -- one side alone
  have one : ∀ {x y : Node}, Sim p N live x y → x.blk b.id = some b →
      ∀ x1, processHeader p x b = .ok x1 →
      (live b.id = false ∨ ∃ y1, processHeader p y b = .ok y1) →
      Sim p N live x1 (match processHeader p y b with | .ok y1 => y1 | .error _ => y) := by
    intro x y hxy hbx x1 hx1 hcase
    have hfx := processHeader_frame p x x1 b hx1
    have hix1 := (preserved_inv p).header x b x1 hbx hx1 hxy.inva
    have hby : y.blk b.id = some b := by rw [← blk_congr hxy.core.blks]; exact hbx
    cases hy : processHeader p y b with
    | error e =>
      simp only
      rcases hcase with hd | ⟨y1, hy1⟩
      · refine ⟨hfx.2.2.1.trans hxy.blks, hfx.2.2.2.2.trans hxy.outs,
          (CoreEq.of_header hx1).trans hxy.core, hix1, hxy.invc, ?_, by rw [hfx.2.2.2.1]; exact hxy.pool⟩
        intro z hz
        rw [processHeader_headers_iff hxy.inva.2 hx1 z, ← hxy.hdrs z hz]
        constructor
        · rintro (h1 | h1)
          · exact h1
          · rw [h1, hd] at hz; cases hz
        · exact Or.inl
      · rw [hy] at hy1; cases hy1
    | ok y1 =>
      simp only
      have hfy := processHeader_frame p y y1 b hy
      refine ⟨hfx.2.2.1.trans hxy.blks, hfx.2.2.2.2.trans hxy.outs,
        (CoreEq.of_header hx1).trans (hxy.core.trans (CoreEq.of_header hy).symm), hix1,
        (preserved_inv p).header y b y1 hby hy hxy.invc, ?_,
        by rw [hfx.2.2.2.1, hfy.2.2.2.1]; exact hxy.pool⟩
      intro z hz
      rw [processHeader_headers_iff hxy.inva.2 hx1 z, processHeader_headers_iff hxy.invc.2 hy z,
        hxy.hdrs z hz]
  unfold deliverHeader
  by_cases hlv : live b.id = true
  · -- live: the gate decides alike
    have hp : ∀ par, b.parent = some par → (par ∈ a.headers ↔ par ∈ c.headers) :=
      fun par hpar => h.hdrs par (hl.parent b par hbN hpar hlv)
    have hg := gateErr_congr p h.core b hp
    cases hga : gateErr p a b with
    | some e =>
      rw [(processHeader_gateErr p a b hb h.inva.2).1 e hga,
        (processHeader_gateErr p c b hbc h.invc.2).1 e (hg ▸ hga)]
      exact h
    | none =>
      obtain ⟨a1, ha1⟩ := (processHeader_gateErr p a b hb h.inva.2).2 hga
      obtain ⟨c1, hc1⟩ := (processHeader_gateErr p c b hbc h.invc.2).2 (hg ▸ hga)
      have := one h hb a1 ha1 (Or.inr ⟨c1, hc1⟩)
      rw [hc1] at this
      rw [ha1, hc1]
      exact this
  · have hd : live b.id = false := by simpa using hlv
    cases ha : processHeader p a b with
    | error e =>
      cases hc : processHeader p c b with
      | error e' => exact h
      | ok c1 =>
        have := one h.symm hbc c1 hc (Or.inl hd)
        rw [ha] at this
        exact this.symm
    | ok a1 =>
      have := one h hb a1 ha (Or.inl hd)
      cases hc : processHeader p c b with
      | error e' => rw [hc] at this; exact this
      | ok c1 =>
        -- both remembered the dead header: step the left first, then the right
        have h1 : Sim p N live a1 c := by
          have hfx := processHeader_frame p a a1 b ha
          refine ⟨hfx.2.2.1.trans h.blks, hfx.2.2.2.2.trans h.outs, (CoreEq.of_header ha).trans h.core,
            (preserved_inv p).header a b a1 hb ha h.inva, h.invc, ?_, by rw [hfx.2.2.2.1]; exact h.pool⟩
          intro z hz
          rw [processHeader_headers_iff h.inva.2 ha z, ← h.hdrs z hz]
          constructor
          · rintro (h1 | h1)
            · exact h1
            · rw [h1, hd] at hz; cases hz
          · exact Or.inl
        have hfy := processHeader_frame p c c1 b hc
        refine ⟨h1.blks, h1.outs, h1.core.trans (CoreEq.of_header hc).symm, h1.inva,
          (preserved_inv p).header c b c1 hbc hc h.invc, ?_, by rw [hfy.2.2.2.1]; exact h1.pool⟩
        intro z hz
        rw [processHeader_headers_iff h.invc.2 hc z, h1.hdrs z hz]
        constructor
        · exact Or.inl
        · rintro (h2 | h2)
          · exact h2
          · rw [h2, hd] at hz; cases hz

theorem step_sim {p : Params} {N : Node} {live : Nat → Bool} {a c : Node}
    (hl : LiveOK p N live) (h : Sim p N live a c) (e : Event) (hb : a.blk e.blk.id = some e.blk) :
    Sim p N live (step p a e) (step p c e) := by
  cases e with
  | block b => exact (deliverBlock_sim hl h b hb).1
  | header b => exact deliverHeader_sim hl h b hb

/-- **similar nodes stay similar along any history** -/
theorem run_sim {p : Params} {N : Node} {live : Nat → Bool} (hl : LiveOK p N live)
    (es : List Event) : ∀ (a c : Node), Sim p N live a c → Registered a es →
    Sim p N live (run p a es) (run p c es) := by
  induction es with
  | nil => intro a c h _; exact h
  | cons e es ih =>
    intro a c h hreg
    rw [run_cons, run_cons]
    exact ih _ _ (step_sim hl h e (hreg e (List.mem_cons_self ..))) (hreg.tail p)


open Classical in
/-- the canonical liveness classifier: valid on its own path -/
noncomputable def liveVOP (p : Params) (N : Node) : Nat → Bool := fun z => decide (VOP p N z)

theorem liveVOP_ok (p : Params) (N : Node) (hg : ∀ g, N.blk 0 = some g → g.parent = none) :
    LiveOK p N (liveVOP p N) where
  parent := by
    intro b par hb hpar hl
    have hv : VOP p N b.id := by simpa [liveVOP] using hl
    have h0 : b.id ≠ 0 := by
      intro h0
      rw [h0] at hb
      rw [hg b hb] at hpar; cases hpar
    obtain ⟨par', _, hp', hvp, _, _⟩ := hv.inv hb h0
    rw [hpar] at hp'; cases hp'
    simpa [liveVOP] using hvp
  dead := by
    intro z hz
    simpa [liveVOP] using hz

/-- **a node that saw a rejected block is similar to the node before** — provided the rejection
was a validation failure or an unknown parent header, not a parked orphan: the block's parent is
stored, or its header is not known -/
theorem reject_sim (p : Params) (n : Node) (r : Blk) (e : Err) (hi : Inv p n)
    (hr : n.blk r.id = some r)
    (hrej : (processBlockSingle p n r).2 = .err e)
    (hpar : ∀ par, r.parent = some par → par ∈ n.stored ∨ par ∉ n.headers) :
    Sim p n (liveVOP p n) (processBlockSingle p n r).1 n := by
  have hdf := processBlockSingle_defs p n r
  have hcore : (processBlockSingle p n r).1.head = n.head ∧ (processBlockSingle p n r).1.stored = n.stored := by
    rcases processBlockSingle_core p n r with ⟨a, b, _⟩ | ⟨_, _, _, _, _, _, _, hd⟩
    · exact ⟨a, b⟩
    · rcases hd with ⟨_, _, h⟩ | ⟨_, _, h⟩ <;> rw [h] at hrej <;> cases hrej
  refine ⟨hdf.1, hdf.2, ⟨hdf.2, hdf.1, hcore.1, hcore.2⟩, (preserved_inv p).single n r hr hi, hi, ?_, ?_⟩
  · intro h hl
    constructor
    · intro hm
      rcases pbs_headers_sub p n r h hm with h1 | h1
      · exact h1
      · subst h1
        -- a valid-on-path block whose header was not known cannot have been rejected
        by_cases hin : r.id ∈ n.headers
        · exact hin
        · exfalso
          have hv : VOP p n r.id := by simpa [liveVOP] using hl
          have hns : r.id ∉ n.stored := fun x => hin (hi.2.hdr.stored _ x)
          have h0 : r.id ≠ 0 := fun x => hns (x ▸ hi.2.closed.zero)
          obtain ⟨par, s', hp, _, hok, hc⟩ := hv.inv hr h0
          rcases hpar par hp with hps | hph
          · obtain ⟨n1, _, hst⟩ := processBlockSingle_stores p n r par s'
              (not_knownFull n r hi.2.closed hns) hp hps (hi.2.hdr.stored par hps) hok hc
            rw [hst] at hrej
            exact storeBlock_ok n1 r e hrej
          · -- unknown parent header: the gate fails and nothing changes
            have hge : gateErr p n r = some "StoreErr" := by
              unfold gateErr
              rw [if_neg (not_knownFull n r hi.2.closed hns)]
              simp only [hp, hph, if_false]
            have := (processHeader_gateErr p n r hr hi.2).1 _ hge
            have hsame : (processBlockSingle p n r).1 = n := by
              simp only [processBlockSingle, this]
            rw [hsame] at hm
            exact hin hm
    · exact pbs_headers_mono p n r h
  · rw [pbs_orphans_iff p n r hr hi.2]
    split
    · rename_i hc
      exfalso
      obtain ⟨par, hp, _, hps⟩ := precheck_orphan n r hc.2
      rcases hpar par hp with h1 | h1
      · exact hps h1
      · by_cases hk : KnownFull n r
        · exact hps (hi.2.closed.parent r.id (knownFull_stored hi.2.closed hk) r par hr hp)
        · have hge : gateErr p n r = some "StoreErr" := by
            unfold gateErr
            rw [if_neg hk]
            simp only [hp, h1, if_false]
          rw [hge] at hc
          cases hc.1
    · rfl

/-- **C06 bisimulation**: after a rejected block, the node's best-chain observation — head, stored
blocks, reported unspent set — stays equal to that of the twin that never saw the block, along
every further history -/
theorem reject_bisim (p : Params) (n : Node) (r : Blk) (e : Err) (hi : Inv p n)
    (hg : ∀ g, n.blk 0 = some g → g.parent = none) (hr : n.blk r.id = some r)
    (hrej : (processBlockSingle p n r).2 = .err e)
    (hpar : ∀ par, r.parent = some par → par ∈ n.stored ∨ par ∉ n.headers)
    (es : List Event) (hreg : Registered n es) :
    obsBest p (run p (processBlockSingle p n r).1 es) = obsBest p (run p n es) := by
  have hs := reject_sim p n r e hi hr hrej hpar
  have hreg' : Registered (processBlockSingle p n r).1 es := by
    intro ev hev
    rw [blk_congr (processBlockSingle_defs p n r).1]
    exact hreg ev hev
  exact (run_sim (liveVOP_ok p n hg) es _ _ hs hreg').core.obsBest p


end GV.Chain
