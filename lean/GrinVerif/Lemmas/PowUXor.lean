import GrinVerif.Lemmas.PowUComplete
/-! The early xor test of the undirected engine never rejects a real cycle: the `2L` slots pair up
by vertex, and the two node values of a pair are equal (Cuckaroo, Cuckarooz) or differ in the
lowest bit (Cuckatoo). -/
set_option linter.unusedSectionVars false
namespace GV.Pow

theorem xorAll_append (a b : List Nat) : xorAll (a ++ b) = xorAll a ^^^ xorAll b := by
  induction a with
  | nil => simp [xorAll]
  | cons x a ih => simp only [List.cons_append, xorAll_cons, ih, Nat.xor_assoc]

/-- xor over a set closed under a fixed-point-free involution `π` with `val (π x) = val x ^ δ` -/
theorem xorAll_pairs (val π : Nat → Nat) (δ : Nat) : ∀ n (l : List Nat), l.length = n → l.Nodup →
    (∀ x ∈ l, π x ∈ l ∧ π x ≠ x ∧ π (π x) = x ∧ val (π x) = val x ^^^ δ) →
    xorAll (l.map val) = if (n / 2) % 2 = 1 then δ else 0 := by
  intro n
  induction n using Nat.strongRecOn with
  | _ n ih =>
    intro l hl hnd hπ
    cases l with
    | nil => simp at hl; subst hl; simp [xorAll]
    | cons x l' =>
      obtain ⟨h1, h2, h3, h4⟩ := hπ x (by simp)
      have hxl : x ∉ l' := (List.nodup_cons.mp hnd).1
      have hnd' : l'.Nodup := (List.nodup_cons.mp hnd).2
      have hpx : π x ∈ l' := by
        rcases List.mem_cons.mp h1 with h | h
        · exact absurd h h2
        · exact h
      have hperm : l'.Perm (π x :: l'.erase (π x)) := List.perm_cons_erase hpx
      have hlen2 : (l'.erase (π x)).length = n - 2 := by
        rw [List.length_erase_of_mem hpx]; simp at hl; omega
      have hn2 : 2 ≤ n := by
        have := List.length_pos_of_mem hpx; simp at hl; omega
      have hrec := ih (n - 2) (by omega) (l'.erase (π x)) hlen2 (hnd'.erase _) (by
        intro y hy
        have hy' : y ∈ l' := List.mem_of_mem_erase hy
        have hyne : y ≠ π x := fun h => by
          rw [h] at hy
          exact (List.Nodup.mem_erase_iff hnd').mp hy |>.1 rfl
        obtain ⟨g1, g2, g3, g4⟩ := hπ y (by simp [hy'])
        refine ⟨?_, g2, g3, g4⟩
        have hne1 : π y ≠ x := by
          intro h
          apply hyne
          rw [← g3, h]
        have hne2 : π y ≠ π x := by
          intro h
          have : y = x := by rw [← g3, h, h3]
          exact hxl (this ▸ hy')
        have : π y ∈ l' := by
          rcases List.mem_cons.mp g1 with h | h
          · exact absurd h hne1
          · exact h
        exact (List.Nodup.mem_erase_iff hnd').mpr ⟨hne2, this⟩)
      rw [List.map_cons, xorAll_cons, xorAll_perm (hperm.map val), List.map_cons, xorAll_cons, hrec, h4]
      have hdiv : n / 2 = (n - 2) / 2 + 1 := by omega
      rw [← Nat.xor_assoc, ← Nat.xor_assoc, Nat.xor_self, Nat.zero_xor]
      by_cases hp : ((n - 2) / 2) % 2 = 1
      · have : ¬ ((n / 2) % 2 = 1) := by omega
        rw [if_pos hp, if_neg this, Nat.xor_self]
      · have : (n / 2) % 2 = 1 := by omega
        rw [if_neg hp, if_pos this, Nat.xor_zero]


section
variable {C : UCfg} (E : MtEquiv C) {key uv : Nat → Nat} {L : Nat} {c : List Nat}
  (hG : IsCycle L (adjG C key uv) (sameVG C key uv) c) (hL : 0 < L)
include E hG hL

/-- every slot has a partner -/
theorem gcyc_has_partner (s : Nat) (hs : s < 2 * L) : ∃ j, Partner C key uv (2 * L) s j := by
  obtain ⟨a, ha, h⟩ := gcyc_cover E hG hL s hs
  rcases h with rfl | rfl
  · exact ⟨_, gcyc_partner E hG hL a ha⟩
  · have hp : (a + L - 1) % L < L := Nat.mod_lt _ hL
    have := gcyc_partner E hG hL _ hp
    rw [pred_succ_mod a L hL ha] at this
    exact ⟨_, partner_symm E (gcyc_lt E hG hL _ hp) this⟩

/-- the partner map as a function with its properties -/
theorem gcyc_pi : ∃ π : Nat → Nat, ∀ s, s < 2 * L →
    Partner C key uv (2 * L) s (π s) ∧ π (π s) = s := by
  refine ⟨fun s => if h : s < 2 * L then Classical.choose (gcyc_has_partner E hG hL s h) else s, ?_⟩
  intro s hs
  have h1 : Partner C key uv (2 * L) s (Classical.choose (gcyc_has_partner E hG hL s hs)) :=
    Classical.choose_spec (gcyc_has_partner E hG hL s hs)
  simp only [hs, dif_pos]
  refine ⟨h1, ?_⟩
  have hj := h1.1.1
  simp only [hj, dif_pos]
  have h2 := Classical.choose_spec (gcyc_has_partner E hG hL _ hj)
  exact partner_fun h2 (partner_symm E hs h1)

/-- xor of the node values over all slots of one side (`side = 0`: all `u`, `1`: all `v`) -/
theorem gcyc_xor_side (side : Nat) (hside : side < 2)
    (hpar : ∀ a b, key a = key b → a % 2 = b % 2) (δ : Nat)
    (hδ : ∀ a b, Partner C key uv (2 * L) a b → uv b = uv a ^^^ δ) :
    xorAll (((List.range L).map (fun e => 2 * e + side)).map uv) =
      if (L / 2) % 2 = 1 then δ else 0 := by
  obtain ⟨π, hπ⟩ := gcyc_pi E hG hL
  apply xorAll_pairs uv π δ L
  · simp
  · rw [List.Nodup, List.pairwise_map, List.pairwise_iff_getElem]
    intro a b ha hb hab
    simp only [List.getElem_range]
    omega
  · intro x hx
    obtain ⟨e, he, rfl⟩ := List.mem_map.mp hx
    have he' := List.mem_range.mp he
    obtain ⟨hp, hinv⟩ := hπ (2 * e + side) (by omega)
    refine ⟨?_, hp.1.2.1, hinv, hδ _ _ hp⟩
    have h1 := hpar _ _ hp.1.2.2
    have h2 := hp.1.1
    apply List.mem_map.mpr
    exact ⟨π (2 * e + side) / 2, List.mem_range.mpr (by omega), by omega⟩

/-- xor of the node values over all `2L` slots, when partners have equal node values -/
theorem gcyc_xor_all (hδ : ∀ a b, Partner C key uv (2 * L) a b → uv b = uv a) :
    xorAll ((List.range (2 * L)).map uv) = 0 := by
  obtain ⟨π, hπ⟩ := gcyc_pi E hG hL
  have := xorAll_pairs uv π 0 (2 * L) (List.range (2 * L)) (by simp) List.nodup_range (by
    intro x hx
    have hx' := List.mem_range.mp hx
    obtain ⟨hp, hinv⟩ := hπ x hx'
    exact ⟨List.mem_range.mpr hp.1.1, hp.1.2.1, hinv, by rw [hδ _ _ hp, Nat.xor_zero]⟩)
  rw [this]; split <;> rfl

end

/-- the `u` (resp. `v`) values of the proof's edges, as values at the even (odd) slots -/
theorem us_eq (ep : Nat → Nat × Nat) (ns : List Nat) :
    ns.map (fun x => (ep x).1) = ((List.range ns.length).map (fun e => 2 * e + 0)).map (uvF ep ns) := by
  rw [← map_range_getD (fun x => (ep x).1) ns, List.map_map]
  apply List.map_congr_left
  intro e he
  simp only [Function.comp, Nat.add_zero]
  rw [uvF_even ep ns e (List.mem_range.mp he)]

theorem vs_eq (ep : Nat → Nat × Nat) (ns : List Nat) :
    ns.map (fun x => (ep x).2) = ((List.range ns.length).map (fun e => 2 * e + 1)).map (uvF ep ns) := by
  rw [← map_range_getD (fun x => (ep x).2) ns, List.map_map]
  apply List.map_congr_left
  intro e he
  simp only [Function.comp]
  rw [uvF_odd ep ns e (List.mem_range.mp he)]

theorem evens_odds_perm (L : Nat) :
    ((List.range L).map (fun e => 2 * e + 0) ++ (List.range L).map (fun e => 2 * e + 1)).Perm
      (List.range (2 * L)) := by
  apply perm_range_of_nodup
  · rw [List.nodup_append]
    refine ⟨?_, ?_, ?_⟩
    · rw [List.Nodup, List.pairwise_map, List.pairwise_iff_getElem]
      intro a b ha hb hab; simp only [List.getElem_range]; omega
    · rw [List.Nodup, List.pairwise_map, List.pairwise_iff_getElem]
      intro a b ha hb hab; simp only [List.getElem_range]; omega
    · intro x hx y hy
      obtain ⟨a, _, rfl⟩ := List.mem_map.mp hx
      obtain ⟨b, _, rfl⟩ := List.mem_map.mp hy
      omega
  · intro x hx
    rcases List.mem_append.mp hx with h | h
    · obtain ⟨a, ha, rfl⟩ := List.mem_map.mp h
      have := List.mem_range.mp ha; omega
    · obtain ⟨a, ha, rfl⟩ := List.mem_map.mp h
      have := List.mem_range.mp ha; omega
  · simp; omega


/-- completeness for the bipartite configurations (separate `xor0`, `xor1`) -/
theorem verifyU_complete_bip (C : UCfg) (E : MtEquiv C) (P : Params) (ep : Nat → Nat × Nat)
    (ns : List Nat) (hps : 0 < P.proofsize) (hlen : ns.length = P.proofsize) (hasc : Ascending ns)
    (hmask : ∀ x ∈ ns, x ≤ P.edgeMask)
    (hj : C.jointXor = false) (hctx : C.useCtxSize = false)
    (hpar : ∀ a b, keyF C P ep ns a = keyF C P ep ns b → a % 2 = b % 2) (δ : Nat)
    (hδ : ∀ a b, Partner C (keyF C P ep ns) (uvF ep ns) (2 * ns.length) a b →
      uvF ep ns b = uvF ep ns a ^^^ δ)
    (hinit : C.xinit ns.length ^^^ (if (ns.length / 2) % 2 = 1 then δ else 0) = 0)
    (c : List Nat)
    (hG : IsCycle ns.length (adjG C (keyF C P ep ns) (uvF ep ns)) (sameVG C (keyF C P ep ns) (uvF ep ns)) c) :
    verifyU C P ep ns = .ok () := by
  have hL : 0 < ns.length := by omega
  apply verifyU_complete_of_xor C E P ep ns hps hlen hasc hmask (by simp [hctx]) c hG
  intro s hb
  obtain ⟨s', hb', h0, h1⟩ := uBuild_complete C P ep ns 0 none (USt.init C ns.length) hmask
    (ascChain_of_pairwise ns none hasc (fun y hy => by cases hy))
  rw [hb] at hb'
  injection hb' with hb'
  subst hb'
  have e0 := gcyc_xor_side E hG hL 0 (by omega) hpar δ hδ
  have e1 := gcyc_xor_side E hG hL 1 (by omega) hpar δ hδ
  rw [← us_eq] at e0
  rw [← vs_eq] at e1
  have z0 : s.x0 = 0 := by rw [h0, e0]; exact hinit
  have z1 : s.x1 = 0 := by rw [h1, e1]; exact hinit
  simp [hj, z0, z1]

/-- completeness for the one-node-space configuration (one accumulator `xoruv`) -/
theorem verifyU_complete_joint (C : UCfg) (E : MtEquiv C) (P : Params) (ep : Nat → Nat × Nat)
    (ns : List Nat) (hps : 0 < P.proofsize) (hlen : ns.length = P.proofsize) (hasc : Ascending ns)
    (hmask : ∀ x ∈ ns, x ≤ P.edgeMask)
    (hj : C.jointXor = true) (hctx : C.useCtxSize = true → P.ctxProofSize = P.proofsize)
    (hδ : ∀ a b, Partner C (keyF C P ep ns) (uvF ep ns) (2 * ns.length) a b →
      uvF ep ns b = uvF ep ns a)
    (hinit : C.xinit ns.length = 0)
    (c : List Nat)
    (hG : IsCycle ns.length (adjG C (keyF C P ep ns) (uvF ep ns)) (sameVG C (keyF C P ep ns) (uvF ep ns)) c) :
    verifyU C P ep ns = .ok () := by
  have hL : 0 < ns.length := by omega
  apply verifyU_complete_of_xor C E P ep ns hps hlen hasc hmask hctx c hG
  intro s hb
  obtain ⟨s', hb', h0, h1⟩ := uBuild_complete C P ep ns 0 none (USt.init C ns.length) hmask
    (ascChain_of_pairwise ns none hasc (fun y hy => by cases hy))
  rw [hb] at hb'
  injection hb' with hb'
  subst hb'
  have hall := gcyc_xor_all E hG hL hδ
  rw [← xorAll_perm ((evens_odds_perm ns.length).map (uvF ep ns)), List.map_append, xorAll_append,
    ← us_eq, ← vs_eq] at hall
  simp only [hj, if_true]
  rw [h0, h1]
  have hi0 : (USt.init C ns.length).x0 = 0 := hinit
  have hi1 : (USt.init C ns.length).x1 = 0 := hinit
  rw [hi0, hi1, Nat.zero_xor, Nat.zero_xor]
  exact hall

end GV.Pow
