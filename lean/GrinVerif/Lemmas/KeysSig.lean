import GrinVerif.Model.KeysSig
/-! Helper lemmas for `Props/C20Sig.lean`: sums of partial signatures modulo the group order. -/
namespace GV.Props.C20
open GV GV.Keys List

theorem Npos : 0 < N := by decide

theorem sum_partials (e : Nat) : ∀ (signers : List (Nat × Nat)),
    (partialSigs e signers).sum % N = ((signers.map (·.2)).sum + e * (signers.map (·.1)).sum) % N
  | [] => by simp [partialSigs]
  | s :: t => by
    have ih := sum_partials e t
    simp only [partialSigs, map_cons, sum_cons] at ih ⊢
    generalize (map (fun s => partialSig e s.1 s.2) t).sum = S at ih ⊢
    generalize (map (fun x : Nat × Nat => x.2) t).sum = K at ih ⊢
    generalize (map (fun x : Nat × Nat => x.1) t).sum = X at ih ⊢
    unfold partialSig
    rw [Nat.mod_add_mod, Nat.add_mod, ih, ← Nat.add_mod, Nat.mul_add]
    congr 1
    omega

theorem add_mod_ne {p S : Nat} (h0 : 0 < p) (hp : p < N) : (p + S) % N ≠ S % N := by
  have hr : S % N < N := Nat.mod_lt _ Npos
  rw [Nat.add_mod, Nat.mod_eq_of_lt hp]
  by_cases c : p + S % N < N
  · rw [Nat.mod_eq_of_lt c]; omega
  · rw [Nat.mod_eq_sub_mod (by omega), Nat.mod_eq_of_lt (by omega)]; omega


end GV.Props.C20
