import GrinVerif.Model.Ser
/-! Round-trip lemmas of the primitive `Ser` layer, in the composable form
`read (write x ++ rest) = .ok (x, rest)`, plus the facts about `readMulti`, `readEmpty`,
`verifySortedUnique` and `sortByKey` that the codec theorems are assembled from. -/
namespace GV.Ser
open GV

/-! ## integers -/

theorem readU8_write (n : Nat) (rest : Bytes) : readU8 (writeU8 n ++ rest) = .ok (n, rest) := rfl

theorem readU16_write (n : Nat) (h : n < 2^16) (rest : Bytes) :
    readU16 (writeU16 n ++ rest) = .ok (n, rest) := by
  simp only [writeU16, List.cons_append, List.nil_append, readU16]
  congr 2
  omega

theorem readU32_write (n : Nat) (h : n < 2^32) (rest : Bytes) :
    readU32 (writeU32 n ++ rest) = .ok (n, rest) := by
  simp only [writeU32, List.cons_append, List.nil_append, readU32]
  congr 2
  omega

theorem readU64_write (n : Nat) (h : n < 2^64) (rest : Bytes) :
    readU64 (writeU64 n ++ rest) = .ok (n, rest) := by
  simp only [writeU64, List.cons_append, List.nil_append, readU64]
  congr 2
  omega

theorem toI64_ofI64 (z : Int) (h1 : -(2^63) ≤ z) (h2 : z < 2^63) :
    toI64 (z % 2^64).toNat = z := by
  unfold toI64
  split <;> omega

theorem readI64_write (z : Int) (h1 : -(2^63) ≤ z) (h2 : z < 2^63) (rest : Bytes) :
    readI64 (writeI64 z ++ rest) = .ok (z, rest) := by
  have hlt : (z % 2^64).toNat < 2^64 := by omega
  simp only [readI64, writeI64, readU64_write _ hlt, toI64_ofI64 z h1 h2]

/-- every byte a writer produces for an integer is a byte -/
theorem writeU64_bytes (n : Nat) : ∀ b ∈ writeU64 n, b < 256 := by
  intro b hb
  simp only [writeU64, List.mem_cons, List.not_mem_nil, or_false] at hb
  omega

theorem writeU64_length (n : Nat) : (writeU64 n).length = 8 := rfl
theorem writeU32_length (n : Nat) : (writeU32 n).length = 4 := rfl
theorem writeU16_length (n : Nat) : (writeU16 n).length = 2 := rfl

/-! ## fixed-length byte strings -/

theorem splitExact_append (xs rest : Bytes) : splitExact xs.length (xs ++ rest) = some (xs, rest) := by
  induction xs with
  | nil => simp [splitExact]
  | cons x xs ih => simp [splitExact, ih]

theorem splitExact_some {n : Nat} {bs x r : Bytes} (h : splitExact n bs = some (x, r)) :
    bs = x ++ r ∧ x.length = n := by
  induction n generalizing bs x r with
  | zero => simp [splitExact] at h; obtain ⟨rfl, rfl⟩ := h; simp
  | succ n ih =>
    cases bs with
    | nil => simp [splitExact] at h
    | cons b bs =>
      simp only [splitExact] at h
      split at h
      · rename_i x' y' heq
        simp only [Option.some.injEq, Prod.mk.injEq] at h
        obtain ⟨rfl, rfl⟩ := h
        obtain ⟨h1, h2⟩ := ih heq
        subst h1
        simp [h2]
      · simp at h

theorem splitExact_none {n : Nat} {bs : Bytes} (h : splitExact n bs = none) : bs.length < n := by
  induction n generalizing bs with
  | zero => simp [splitExact] at h
  | succ n ih =>
    cases bs with
    | nil => simp
    | cons b bs =>
      simp only [splitExact] at h
      split at h
      · simp at h
      · rename_i heq
        have := ih heq
        simp only [List.length_cons]; omega

theorem readFixed_write (xs : Bytes) (n : Nat) (hn : xs.length = n) (hcap : n ≤ MAX_FIXED_READ)
    (rest : Bytes) : readFixed n (writeFixed xs ++ rest) = .ok (xs, rest) := by
  subst hn
  have : ¬ xs.length > MAX_FIXED_READ := by omega
  simp [readFixed, writeFixed, this, splitExact_append]

/-- the cap of `read_fixed_bytes` -/
theorem readFixed_tooLarge (n : Nat) (h : n > MAX_FIXED_READ) (bs : Bytes) :
    readFixed n bs = .error .tooLarge := by
  simp [readFixed, h]

/-- a successful `read_fixed_bytes` returned exactly the next `n` bytes -/
theorem readFixed_ok {n : Nat} {bs x r : Bytes} (h : readFixed n bs = .ok (x, r)) :
    bs = x ++ r ∧ x.length = n := by
  unfold readFixed at h
  split at h
  · simp at h
  · split at h
    · rename_i x' r' heq
      simp only [Except.ok.injEq, Prod.mk.injEq] at h
      obtain ⟨rfl, rfl⟩ := h
      exact splitExact_some heq
    · simp at h

theorem readBytesLenPrefix_write (xs : Bytes) (hcap : xs.length ≤ MAX_FIXED_READ) (rest : Bytes) :
    readBytesLenPrefix (writeBytes xs ++ rest) = .ok (xs, rest) := by
  have h64 : xs.length < 2^64 := by unfold MAX_FIXED_READ at hcap; omega
  simp only [readBytesLenPrefix, writeBytes, List.append_assoc, readU64_write _ h64]
  exact readFixed_write xs xs.length rfl hcap rest

/-- the cap of `read_bytes_len_prefix` -/
theorem readBytesLenPrefix_tooLarge (len : Nat) (h64 : len < 2^64) (h : len > MAX_FIXED_READ) (r : Bytes) :
    readBytesLenPrefix (writeU64 len ++ r) = .error .tooLarge := by
  simp only [readBytesLenPrefix, readU64_write _ h64]
  exact readFixed_tooLarge len h r

/-! ## `expect_u8`, empty bytes -/

theorem expectU8_write (v : Nat) (rest : Bytes) : expectU8 v (writeU8 v ++ rest) = .ok (v, rest) := by
  simp [expectU8, writeU8, readU8]

theorem expectU8_other (v b : Nat) (h : b ≠ v) (r : Bytes) : expectU8 v (b :: r) = .error .unexpectedData := by
  simp [expectU8, readU8, h]

theorem readEmpty_write (n : Nat) (rest : Bytes) : readEmpty n (writeEmpty n ++ rest) = .ok ((), rest) := by
  induction n with
  | zero => simp [readEmpty, writeEmpty]
  | succ n ih =>
    simp only [writeEmpty, List.replicate_succ, List.cons_append, readEmpty, readU8] at ih ⊢
    simpa using ih

/-- reserved ("empty") bytes are checked, not skipped: if the first `n` bytes are not all zero the
read fails with `CorruptedData` -/
theorem readEmpty_nonzero (n : Nat) (pre : Bytes) (b : Nat) (post : Bytes)
    (hpre : ∀ x ∈ pre, x = 0) (hlen : pre.length < n) (hb : b ≠ 0) :
    readEmpty n (pre ++ b :: post) = .error .corrupted := by
  induction pre generalizing n with
  | nil =>
    cases n with
    | zero => simp at hlen
    | succ n => simp [readEmpty, readU8, hb]
  | cons x pre ih =>
    cases n with
    | zero => simp at hlen
    | succ n =>
      have hx : x = 0 := hpre x (by simp)
      subst hx
      simp only [List.cons_append, readEmpty, readU8]
      simp only [ne_eq, not_true_eq_false, ↓reduceIte]
      exact ih n (fun y hy => hpre y (by simp [hy])) (by simpa using hlen)

/-! ## `read_multi` -/

/-- if every item of `l` round-trips through `p`/`w`, so does the whole run -/
theorem readMultiLoop_write {α : Type} (p : Parser α) (w : α → Bytes) (l : List α)
    (hrt : ∀ x ∈ l, ∀ rest, p (w x ++ rest) = .ok (x, rest)) (rest : Bytes) :
    readMultiLoop p l.length (writeMulti w l ++ rest) = (l, rest) := by
  induction l with
  | nil => simp [readMultiLoop, writeMulti]
  | cons x l ih =>
    have hx := hrt x (by simp) (writeMulti w l ++ rest)
    have ih' := ih (fun y hy => hrt y (by simp [hy]))
    have e : writeMulti w (x :: l) ++ rest = w x ++ (writeMulti w l ++ rest) := by
      simp [writeMulti]
    rw [e]
    simp only [List.length_cons, readMultiLoop, hx, ih']

theorem readMulti_write {α : Type} (p : Parser α) (w : α → Bytes) (l : List α)
    (hcap : l.length ≤ MAX_MULTI_COUNT)
    (hrt : ∀ x ∈ l, ∀ rest, p (w x ++ rest) = .ok (x, rest)) (rest : Bytes) :
    readMulti p l.length (writeMulti w l ++ rest) = .ok (l, rest) := by
  have : ¬ l.length > MAX_MULTI_COUNT := by omega
  simp [readMulti, this, readMultiLoop_write p w l hrt rest]

/-- the cap of `read_multi` -/
theorem readMulti_tooLarge {α : Type} (p : Parser α) (n : Nat) (h : n > MAX_MULTI_COUNT) (bs : Bytes) :
    readMulti p n bs = .error .tooLarge := by
  simp [readMulti, h]

theorem readMultiLoop_length_le {α : Type} (p : Parser α) (n : Nat) (bs : Bytes) :
    (readMultiLoop p n bs).1.length ≤ n := by
  induction n generalizing bs with
  | zero => simp [readMultiLoop]
  | succ n ih =>
    simp only [readMultiLoop]
    split
    · rename_i x r _
      have := ih r
      simp only [List.length_cons]; omega
    · simp

/-- a count that the content does not back is refused (`CountError`), never padded or cut:
on success exactly `count` items were read -/
theorem readMulti_ok_length {α : Type} {p : Parser α} {n : Nat} {bs : Bytes} {l : List α} {r : Bytes}
    (h : readMulti p n bs = .ok (l, r)) : l.length = n := by
  unfold readMulti at h
  split at h
  · simp at h
  · simp only at h
    split at h
    · simp at h
    · rename_i hne
      simp only [Except.ok.injEq] at h
      rw [h] at hne
      simpa using hne

/-! ## sortedness -/

theorem verifySortedUnique_iff (ks : List Nat) :
    verifySortedUnique ks = .ok () ↔ ks.Pairwise (· < ·) := by
  induction ks with
  | nil => simp [verifySortedUnique]
  | cons a r ih =>
    cases r with
    | nil => simp [verifySortedUnique]
    | cons b r =>
      simp only [verifySortedUnique]
      by_cases hgt : a > b
      · simp only [hgt, ↓reduceIte, reduceCtorEq, false_iff]
        intro hp
        have := (List.pairwise_cons.mp hp).1 b (by simp)
        omega
      · by_cases heq : a = b
        · subst heq
          simp only [hgt, ↓reduceIte, reduceCtorEq, false_iff]
          intro hp
          have := (List.pairwise_cons.mp hp).1 a (by simp)
          omega
        · simp only [hgt, ↓reduceIte, heq]
          rw [ih]
          constructor
          · intro hp
            refine List.pairwise_cons.mpr ⟨?_, hp⟩
            intro c hc
            rcases List.mem_cons.mp hc with rfl | hc
            · omega
            · have := (List.pairwise_cons.mp hp).1 c hc
              omega
          · intro hp
            exact (List.pairwise_cons.mp hp).2

/-- an out-of-order neighbouring pair is refused with `SortError` … -/
theorem verifySortedUnique_unsorted (pre : List Nat) (a b : Nat) (post : List Nat) (h : a > b)
    (hpre : (pre ++ [a]).Pairwise (· < ·)) :
    verifySortedUnique (pre ++ a :: b :: post) = .error .sort := by
  induction pre with
  | nil => simp [verifySortedUnique, h]
  | cons x pre ih =>
    have hp := List.pairwise_cons.mp hpre
    cases pre with
    | nil =>
      have hxa : x < a := hp.1 a (by simp)
      have h1 : ¬ x > a := by omega
      have h2 : ¬ x = a := by omega
      simp [verifySortedUnique, h1, h2, h]
    | cons y pre =>
      have hxy : x < y := hp.1 y (by simp)
      have h1 : ¬ x > y := by omega
      have h2 : ¬ x = y := by omega
      have := ih hp.2
      simp only [List.cons_append] at this ⊢
      simp only [verifySortedUnique, h1, h2, ↓reduceIte]
      exact this

/-- … and an equal neighbouring pair with `DuplicateError` -/
theorem verifySortedUnique_duplicate (pre : List Nat) (a : Nat) (post : List Nat)
    (hpre : (pre ++ [a]).Pairwise (· < ·)) :
    verifySortedUnique (pre ++ a :: a :: post) = .error .dup := by
  induction pre with
  | nil => simp [verifySortedUnique]
  | cons x pre ih =>
    have hp := List.pairwise_cons.mp hpre
    cases pre with
    | nil =>
      have hxa : x < a := hp.1 a (by simp)
      have h1 : ¬ x > a := by omega
      have h2 : ¬ x = a := by omega
      simp [verifySortedUnique, h1, h2]
    | cons y pre =>
      have hxy : x < y := hp.1 y (by simp)
      have h1 : ¬ x > y := by omega
      have h2 : ¬ x = y := by omega
      have := ih hp.2
      simp only [List.cons_append] at this ⊢
      simp only [verifySortedUnique, h1, h2, ↓reduceIte]
      exact this

/-- in any case: a list whose keys are not strictly increasing is not accepted -/
theorem verifySortedUnique_refuses (ks : List Nat) (h : ¬ ks.Pairwise (· < ·)) :
    verifySortedUnique ks ≠ .ok () := fun hok => h ((verifySortedUnique_iff ks).mp hok)

/-! ## `sortByKey` -/

theorem insertByKey_perm {α : Type} (key : α → Nat) (x : α) (l : List α) :
    (insertByKey key x l).Perm (x :: l) := by
  induction l with
  | nil => simp [insertByKey]
  | cons y r ih =>
    simp only [insertByKey]
    split
    · exact List.Perm.refl _
    · exact (List.Perm.cons y ih).trans (List.Perm.swap x y r)

theorem sortByKey_perm {α : Type} (key : α → Nat) (l : List α) : (sortByKey key l).Perm l := by
  induction l with
  | nil => simp [sortByKey]
  | cons x r ih =>
    simp only [sortByKey]
    exact (insertByKey_perm key x _).trans (List.Perm.cons x ih)

theorem insertByKey_sorted {α : Type} (key : α → Nat) (x : α) (l : List α)
    (h : l.Pairwise (fun a b => key a ≤ key b)) :
    (insertByKey key x l).Pairwise (fun a b => key a ≤ key b) := by
  induction l with
  | nil => simp [insertByKey]
  | cons y r ih =>
    have hp := List.pairwise_cons.mp h
    simp only [insertByKey]
    split
    · rename_i hlt
      refine List.pairwise_cons.mpr ⟨?_, h⟩
      intro z hz
      rcases List.mem_cons.mp hz with rfl | hz
      · omega
      · have := hp.1 z hz; omega
    · rename_i hge
      refine List.pairwise_cons.mpr ⟨?_, ih hp.2⟩
      intro z hz
      have hz' := (insertByKey_perm key x r).subset hz
      rcases List.mem_cons.mp hz' with rfl | hz'
      · omega
      · exact hp.1 z hz'

theorem sortByKey_sorted {α : Type} (key : α → Nat) (l : List α) :
    (sortByKey key l).Pairwise (fun a b => key a ≤ key b) := by
  induction l with
  | nil => simp [sortByKey]
  | cons x r ih => exact insertByKey_sorted key x _ ih

/-- sorting a list whose keys are pairwise different gives strictly increasing keys -/
theorem sortByKey_strict {α : Type} (key : α → Nat) (l : List α)
    (hnd : (l.map key).Nodup) : ((sortByKey key l).map key).Pairwise (· < ·) := by
  have hs := sortByKey_sorted key l
  have hp := sortByKey_perm key l
  have hnd' : ((sortByKey key l).map key).Nodup := (hp.map key).nodup_iff.mpr hnd
  generalize sortByKey key l = s at hs hnd'
  induction s with
  | nil => simp
  | cons a r ih =>
    have hs' := List.pairwise_cons.mp hs
    simp only [List.map_cons, List.nodup_cons] at hnd'
    simp only [List.map_cons]
    refine List.pairwise_cons.mpr ⟨?_, ih hs'.2 hnd'.2⟩
    intro k hk
    obtain ⟨b, hb, rfl⟩ := List.mem_map.mp hk
    have hle := hs'.1 b hb
    have hne : key a ≠ key b := fun e => hnd'.1 (e ▸ List.mem_map.mpr ⟨b, hb, rfl⟩)
    omega

/-- already strictly sorted input is left alone -/
theorem sortByKey_of_sorted {α : Type} (key : α → Nat) (l : List α)
    (h : (l.map key).Pairwise (· < ·)) : sortByKey key l = l := by
  induction l with
  | nil => simp [sortByKey]
  | cons x r ih =>
    simp only [List.map_cons] at h
    have hp := List.pairwise_cons.mp h
    simp only [sortByKey, ih hp.2]
    cases r with
    | nil => simp [insertByKey]
    | cons y r =>
      have : key x < key y := hp.1 (key y) (by simp)
      simp [insertByKey, this]

end GV.Ser
