import GrinVerif.Lemmas.SerTxRt
/-! Round-trip lemmas for `Inputs`, `TransactionBody`, `Transaction`. -/
namespace GV.Ser
open GV

theorem writeMulti_nil {α : Type} (w : α → Bytes) : writeMulti w [] = [] := rfl

theorem readMulti_zero {α : Type} (p : Parser α) (bs : Bytes) : readMulti p 0 bs = .ok ([], bs) := by
  simp [readMulti, readMultiLoop, MAX_MULTI_COUNT]

/-- full-mode `Inputs::write` without the `is_empty` shortcut -/
theorem encInputs_full (key : Bytes → Nat) (ver : Nat) (ins : Inputs) :
    encInputs key ver .full ins =
      match ins with
      | .commitOnly l => if ver ≤ 2 then (if l = [] then .ok [] else .error .unsupportedVersion)
                         else .ok (writeMulti encCommitWrapper l)
      | .featuresAndCommit l =>
        if ver ≤ 2 then .ok (writeMulti encInput l)
        else .ok (writeMulti encCommitWrapper (ins.toCommits key)) := by
  cases ins with
  | commitOnly l =>
    cases l with
    | nil => simp [encInputs, Inputs.len, writeMulti]
    | cons x l => simp [encInputs, Inputs.len]
  | featuresAndCommit l =>
    cases l with
    | nil => simp [encInputs, Inputs.len, writeMulti, Inputs.toCommits, sortByKey]
    | cons x l => simp [encInputs, Inputs.len]

theorem toCommits_length (key : Bytes → Nat) (ins : Inputs) : (ins.toCommits key).length = ins.len := by
  cases ins with
  | commitOnly l => rfl
  | featuresAndCommit l =>
    simp only [Inputs.toCommits, Inputs.len]
    rw [(sortByKey_perm _ _).length_eq, List.length_map]

/-- decoding the inputs section written by `Inputs::write` -/
theorem decInputs_enc (key : Bytes → Nat) (ver : Nat) (ins : Inputs) (bs : Bytes)
    (henc : encInputs key ver .full ins = .ok bs) (hwf : ins.WF key ver)
    (hcap : ins.len ≤ MAX_MULTI_COUNT) (rest : Bytes) :
    decInputs ver ins.len (bs ++ rest) = .ok (ins.norm key ver, rest) := by
  rw [encInputs_full] at henc
  cases ins with
  | commitOnly l =>
    simp only [Inputs.WF] at hwf
    by_cases hv : ver ≤ 2
    · simp only [hv, ↓reduceIte] at hwf henc
      subst hwf
      simp only [↓reduceIte, Except.ok.injEq] at henc
      subst henc
      simp only [decInputs, hv, ↓reduceIte, Inputs.len, List.length_nil, List.nil_append,
        readMulti_zero, andThen_ok, Inputs.norm]
    · simp only [hv, ↓reduceIte, Except.ok.injEq] at hwf henc
      subst henc
      simp only [Inputs.len] at hcap
      have hrt := readMulti_write decCommitWrapper encCommitWrapper l hcap
        (fun x hx rest => decCommitWrapper_enc x (hwf.1 x hx) rest) rest
      simp only [decInputs, hv, ↓reduceIte, Inputs.len, hrt, andThen_ok, Inputs.norm, Inputs.toCommits]
  | featuresAndCommit l =>
    simp only [Inputs.WF] at hwf
    simp only [Inputs.len] at hcap
    by_cases hv : ver ≤ 2
    · simp only [hv, ↓reduceIte, Except.ok.injEq] at hwf henc
      subst henc
      have hrt := readMulti_write decInput encInput l hcap
        (fun x hx rest => decInput_enc x (hwf.1 x hx) rest) rest
      simp only [decInputs, hv, ↓reduceIte, Inputs.len, hrt, andThen_ok, Inputs.norm]
    · simp only [hv, ↓reduceIte, Except.ok.injEq] at hwf henc
      subst henc
      have hlen := toCommits_length key (.featuresAndCommit l)
      simp only [Inputs.len] at hlen
      have hmem : ∀ x ∈ (Inputs.featuresAndCommit l).toCommits key, x.length = COMMIT_SIZE := by
        intro x hx
        simp only [Inputs.toCommits] at hx
        have hx' := (sortByKey_perm _ _).subset hx
        obtain ⟨i, hi, rfl⟩ := List.mem_map.mp hx'
        exact hwf.1 i hi
      have hrt := readMulti_write decCommitWrapper encCommitWrapper
        ((Inputs.featuresAndCommit l).toCommits key) (by rw [hlen]; exact hcap)
        (fun x hx rest => decCommitWrapper_enc x (hmem x hx) rest) rest
      rw [hlen] at hrt
      simp only [decInputs, hv, ↓reduceIte, Inputs.len, hrt, andThen_ok, Inputs.norm]

/-- the decoded inputs pass `verify_sorted_and_unique` -/
theorem inputs_norm_sorted (key : Bytes → Nat) (ver : Nat) (ins : Inputs) (hwf : ins.WF key ver) :
    ((ins.norm key ver).keys key).Pairwise (· < ·) := by
  cases ins with
  | commitOnly l =>
    simp only [Inputs.WF] at hwf
    by_cases hv : ver ≤ 2
    · simp only [hv, ↓reduceIte] at hwf
      subst hwf
      simp [Inputs.norm, hv, Inputs.keys]
    · simp only [hv, ↓reduceIte] at hwf
      have h2 : (l.map fun cm => key (encCommitWrapper cm)).Pairwise (· < ·) := hwf.2
      simpa [Inputs.norm, hv, Inputs.keys, Inputs.toCommits] using h2
  | featuresAndCommit l =>
    simp only [Inputs.WF] at hwf
    by_cases hv : ver ≤ 2
    · simp only [hv, ↓reduceIte] at hwf
      simpa [Inputs.norm, hv, Inputs.keys] using hwf.2
    · simp only [hv, ↓reduceIte] at hwf
      simp only [Inputs.norm, hv, ↓reduceIte, Inputs.keys, Inputs.toCommits]
      apply sortByKey_strict
      simpa [List.map_map, commitKey, Function.comp_def] using hwf.2

/-- re-encoding the decoded inputs gives the identical bytes -/
theorem encInputs_norm (key : Bytes → Nat) (ver : Nat) (ins : Inputs) (hwf : ins.WF key ver) :
    encInputs key ver .full (ins.norm key ver) = encInputs key ver .full ins := by
  rw [encInputs_full, encInputs_full]
  cases ins with
  | commitOnly l =>
    by_cases hv : ver ≤ 2
    · simp only [Inputs.WF, hv, ↓reduceIte] at hwf
      subst hwf
      simp [Inputs.norm, hv, writeMulti]
    · simp [Inputs.norm, hv, Inputs.toCommits]
  | featuresAndCommit l =>
    by_cases hv : ver ≤ 2
    · simp [Inputs.norm, hv]
    · simp [Inputs.norm, hv, Inputs.toCommits]

theorem inputs_norm_len (key : Bytes → Nat) (ver : Nat) (ins : Inputs) (hwf : ins.WF key ver) :
    (ins.norm key ver).len = ins.len := by
  cases ins with
  | commitOnly l =>
    by_cases hv : ver ≤ 2
    · simp only [Inputs.WF, hv, ↓reduceIte] at hwf
      subst hwf
      simp [Inputs.norm, hv, Inputs.len]
    · simp [Inputs.norm, hv, Inputs.toCommits, Inputs.len]
  | featuresAndCommit l =>
    by_cases hv : ver ≤ 2
    · simp [Inputs.norm, hv, Inputs.len]
    · simp only [Inputs.norm, hv, ↓reduceIte]
      exact toCommits_length key _

/-! ## TransactionBody -/

theorem weight_counts_lt (ni no nk : Nat) (h1 : ni ≤ MAX_MULTI_COUNT) (h2 : no ≤ MAX_MULTI_COUNT)
    (h3 : nk ≤ MAX_MULTI_COUNT) : ni < 2^64 ∧ no < 2^64 ∧ nk < 2^64 := by
  unfold MAX_MULTI_COUNT at *
  omega

theorem decTxBody_enc (c : Cfg) (b : TxBody) (bs : Bytes)
    (henc : encTxBody c.key c.ver .full b = .ok bs) (hwf : b.WF c) (rest : Bytes) :
    decTxBody c (bs ++ rest) = .ok (b.norm c, rest) := by
  obtain ⟨hin, hout, houts, hker, hkers, hci, hco, hck, hw⟩ := hwf
  unfold encTxBody at henc
  cases hib : encInputs c.key c.ver .full b.inputs with
  | error e => rw [hib] at henc; simp at henc
  | ok ib =>
    rw [hib] at henc
    simp only [Except.ok.injEq] at henc
    subst henc
    obtain ⟨l1, l2, l3⟩ := weight_counts_lt _ _ _ hci hco hck
    have hins := decInputs_enc c.key c.ver b.inputs ib hib hin hci
      (writeMulti encOutput b.outputs ++ (writeMulti (encTxKernel c.ver .full) b.kernels ++ rest))
    have houtrt := readMulti_write decOutput encOutput b.outputs hco
      (fun x hx rest => decOutput_enc x (hout x hx) rest)
      (writeMulti (encTxKernel c.ver .full) b.kernels ++ rest)
    have hkerrt := readMulti_write (decTxKernel c) (encTxKernel c.ver .full) b.kernels hck
      (fun x hx rest => decTxKernel_enc c x (hker x hx) rest) rest
    have hwt : ¬ weightByIok b.inputs.len b.outputs.length b.kernels.length > c.maxWeight := by
      unfold TxBody.weight at hw; omega
    have hsorted : TxBody.verifySorted c.key
        { inputs := b.inputs.norm c.key c.ver, outputs := b.outputs, kernels := b.kernels } = .ok () := by
      have h1 := (verifySortedUnique_iff _).mpr (inputs_norm_sorted c.key c.ver b.inputs hin)
      have h2 := (verifySortedUnique_iff _).mpr houts
      have h3 := (verifySortedUnique_iff _).mpr hkers
      simp only [TxBody.verifySorted, h1, h2, h3]
    rw [decTxBody]
    simp only [List.append_assoc]
    rw [readU64_write _ l1, andThen_ok, readU64_write _ l2, andThen_ok, readU64_write _ l3, andThen_ok,
      if_neg hwt, hins, andThen_ok, houtrt, andThen_ok, hkerrt, andThen_ok]
    simp only [hsorted, TxBody.norm]

theorem encTxBody_norm (c : Cfg) (b : TxBody) (hwf : b.WF c) :
    encTxBody c.key c.ver .full (b.norm c) = encTxBody c.key c.ver .full b := by
  simp only [encTxBody, TxBody.norm, encInputs_norm c.key c.ver b.inputs hwf.1,
    inputs_norm_len c.key c.ver b.inputs hwf.1]

/-! ## Transaction -/

theorem decTransaction_enc (c : Cfg) (t : Transaction) (bs : Bytes)
    (henc : encTransaction c.key c.ver .full t = .ok bs) (hwf : t.WF c) (rest : Bytes) :
    decTransaction c (bs ++ rest) = .ok (t.norm c, rest) := by
  obtain ⟨hoff, hbody, hval, hfeat⟩ := hwf
  unfold encTransaction at henc
  cases hbb : encTxBody c.key c.ver .full t.body with
  | error e => rw [hbb] at henc; simp at henc
  | ok bb =>
    rw [hbb] at henc
    simp only [Except.ok.injEq] at henc
    subst henc
    have hb := decTxBody_enc c t.body bb hbb hbody rest
    have hfeat' : (t.body.norm c).verifyFeatures = true := by
      simpa [TxBody.verifyFeatures, TxBody.norm] using hfeat
    rw [decTransaction, List.append_assoc, decBlind_write _ hoff, andThen_ok, hb, andThen_ok]
    simp only [hval, hfeat', Bool.and_self, ↓reduceIte, Transaction.norm]

theorem encTransaction_norm (c : Cfg) (t : Transaction) (hwf : t.WF c) :
    encTransaction c.key c.ver .full (t.norm c) = encTransaction c.key c.ver .full t := by
  simp only [encTransaction, Transaction.norm, encTxBody_norm c t.body hwf.2.1]

end GV.Ser
