import GrinVerif.Lemmas.PmmrCoord
/-! The peaks of an MMR with `N` leaves in `(n, h)` coordinates (C07): `forest N` lists the perfect
trees of the binary decomposition of `N`, largest first, each as (its last leaf, its height);
`peaks (mmr N)` is the list of their positions.  `stackOf` is the same list built from the low end
(the order of the spec's stack).  Core Lean only. -/
namespace GV.Pmmr.Co
open GV GV.Pmmr

/-- trees of heights `< k` holding the `m < 2^k` leaves that follow the first `base` leaves -/
def forestFrom : Nat → Nat → Nat → List (Nat × Nat)
  | 0, _, _ => []
  | k+1, base, m =>
    if 2^k ≤ m then (base + 2^k - 1, k) :: forestFrom k (base + 2^k) (m - 2^k)
    else forestFrom k base m

/-- the peaks of the MMR with `N` leaves, left to right, as (last leaf, height); `N < 2^N` so `N`
levels are enough -/
def forest (N : Nat) : List (Nat × Nat) := forestFrom N 0 N

/-- position of a node given by its coordinates -/
def cpos (c : Nat × Nat) : Nat := mmr c.1 + c.2

theorem forestFrom_fuel_add (d : Nat) : ∀ k base m, m < 2^k →
    forestFrom (k + d) base m = forestFrom k base m := by
  induction d with
  | zero => intros; rfl
  | succ d ih =>
    intro k base m hm
    have : k + (d+1) = (k + d) + 1 := by omega
    rw [this, forestFrom]
    have h1 : 2^k ≤ 2^(k+d) := Nat.pow_le_pow_right (by omega) (by omega)
    rw [if_neg (by omega), ih k base m hm]

theorem forestFrom_fuel {k k' base m : Nat} (hm : m < 2^k) (hm' : m < 2^k') :
    forestFrom k base m = forestFrom k' base m := by
  by_cases hle : k ≤ k'
  · obtain ⟨d, rfl⟩ := Nat.exists_eq_add_of_le hle
    exact (forestFrom_fuel_add d k base m hm).symm
  · obtain ⟨d, rfl⟩ := Nat.exists_eq_add_of_le (show k' ≤ k by omega)
    exact forestFrom_fuel_add d k' base m hm'

theorem forest_eq {k N : Nat} (h : N < 2^k) : forest N = forestFrom k 0 N :=
  forestFrom_fuel Nat.lt_two_pow_self h

/-! ### `peak_sizes_height` and `peaks` -/

theorem mmr_le_two_mul (m : Nat) : mmr m ≤ 2 * m := by unfold mmr; omega

theorem greedySizes_spec (k : Nat) : ∀ m base, m < 2^k →
    greedySizes k (mmr m) = ((forestFrom k base m).map (fun c => 2 * 2^c.2 - 1), 0) := by
  induction k with
  | zero =>
    intro m base hm
    have : m = 0 := by simpa using hm
    subst this; simp [greedySizes, forestFrom, mmr_zero]
  | succ k ih =>
    intro m base hm
    have hp := two_pow_succ k
    have hpos := two_pow_pos k
    rw [greedySizes, forestFrom]
    by_cases hb : 2^k ≤ m
    · obtain ⟨m', rfl⟩ : ∃ m', m = 2^k + m' := ⟨m - 2^k, by omega⟩
      have hm' : m' < 2^k := by omega
      rw [mmr_add_pow k m' hm', if_pos (by omega), if_pos hb]
      have e : 2 ^ (k + 1) - 1 + mmr m' - (2 ^ (k + 1) - 1) = mmr m' := by omega
      have e2 : 2^k + m' - 2^k = m' := by omega
      simp only [e, e2, ih m' (base + 2^k) hm', List.map_cons]
      rw [hp]
    · have hm' : m < 2^k := by omega
      have := mmr_le_two_mul m
      rw [if_neg (by omega), if_neg hb]
      exact ih m base hm'

theorem greedySizes_snd (k : Nat) : ∀ s pm, (greedySizes k s).2 = (greedy k s pm).2 := by
  induction k with
  | zero => intro s pm; rfl
  | succ k ih =>
    intro s pm
    rw [greedySizes, greedy]
    split
    · exact ih _ _
    · exact ih _ _

theorem scanPeaks_forest (k : Nat) : ∀ a m, m < 2^k →
    scanPeaks (mmr (a * 2^k)) ((forestFrom k (a * 2^k) m).map (fun c => 2 * 2^c.2 - 1))
      = (forestFrom k (a * 2^k) m).map cpos := by
  induction k with
  | zero => intro a m _; simp [forestFrom, scanPeaks]
  | succ k ih =>
    intro a m hm
    have hp := two_pow_succ k
    have hpos := two_pow_pos k
    have hA : a * 2^(k+1) = (2*a) * 2^k := by rw [hp]; ac_rfl
    rw [forestFrom]
    by_cases hb : 2^k ≤ m
    · rw [if_pos hb]
      simp only [List.map_cons, scanPeaks]
      have m1 := mmr_of_form (2*a) k
      have m2 := mmr_mul_pow (2*a) k
      have m3 := mmr_mul_pow (2*a+1) k
      rw [popcount_two_mul] at m1 m2
      rw [popcount_two_mul_add_one] at m3
      have e3 : (2*a+1) * 2^k = (2*a) * 2^k + 2^k := by rw [Nat.add_mul]; omega
      have hpc := popcount_le a
      have hle : a ≤ (2*a) * 2^k := by
        have : (2*a) * 1 ≤ (2*a) * 2^k := Nat.mul_le_mul_left _ hpos
        omega
      have eN : a * 2^(k+1) + 2^k - 1 = (2*a) * 2^k + (2^k - 1) := by omega
      have hhead : mmr (a * 2^(k+1)) + (2 * 2^k - 1) - 1 = cpos (a * 2^(k+1) + 2^k - 1, k) := by
        simp only [cpos, eN]; rw [hA]; omega
      have hacc : mmr (a * 2^(k+1)) + (2 * 2^k - 1) = mmr ((2*a+1) * 2^k) := by
        rw [hA]; omega
      have hbase : a * 2^(k+1) + 2^k = (2*a+1) * 2^k := by omega
      rw [hhead, hacc, hbase, ih (2*a+1) (m - 2^k) (by omega)]
    · rw [if_neg hb, hA]
      exact ih (2*a) m (by omega)

/-- `peaks` of a valid size: the positions of the forest's trees -/
theorem peaks_forest (N : Nat) : peaks (mmr N) = (forest N).map cpos := by
  unfold peaks peakSizesHeight
  by_cases hz : mmr N = 0
  · have : N = 0 := by have := le_mmr N; omega
    subst this
    simp [mmr_zero, scanPeaks, forest, forestFrom]
  · rw [if_neg hz]
    have hlt : N < 2^(bitLen (mmr N)) := by
      have := lt_two_pow_bitLen (mmr N)
      have := le_mmr N
      omega
    rw [greedySizes_spec _ N 0 hlt, forest_eq hlt]
    simp only [if_true]
    have := scanPeaks_forest (bitLen (mmr N)) 0 N hlt
    simpa [mmr_zero] using this

/-- `peaks` of a size that stops inside a subtree is empty -/
theorem peaks_invalid (n h : Nat) (hh : h ≤ trailingOnes n) (hpos : 0 < h) : peaks (mmr n + h) = [] := by
  unfold peaks peakSizesHeight
  have hz : mmr n + h ≠ 0 := by omega
  rw [if_neg hz]
  have h1 := greedySizes_snd (bitLen (mmr n + h)) (mmr n + h) 0
  have h2 := peakMapHeight_co n h hh
  unfold peakMapHeight at h2
  rw [if_neg hz] at h2
  rw [h2] at h1
  simp only [h1]
  rw [if_neg (by omega)]

/-! ### Shape of the forest -/

/-- every tree `(P, k)` of the forest is a peak: it is a left child (`k = trailingOnes P`) whose
right sibling would need leaves the MMR does not have -/
theorem forestFrom_mem (k : Nat) : ∀ a m, m < 2^k → ∀ c ∈ forestFrom k (a * 2^k) m,
    c.2 = trailingOnes c.1 ∧ a * 2^k + 2^c.2 ≤ c.1 + 1 ∧ c.1 < a * 2^k + m ∧ a * 2^k + m ≤ c.1 + 2^c.2 := by
  induction k with
  | zero => intro a m _ c hc; simp [forestFrom] at hc
  | succ k ih =>
    intro a m hm c hc
    have hp := two_pow_succ k
    have hpos := two_pow_pos k
    have hA : a * 2^(k+1) = (2*a) * 2^k := by rw [hp]; ac_rfl
    rw [forestFrom] at hc
    by_cases hb : 2^k ≤ m
    · rw [if_pos hb] at hc
      rcases List.mem_cons.1 hc with rfl | hc'
      · have eN : a * 2^(k+1) + 2^k - 1 = (2*a) * 2^k + (2^k - 1) := by omega
        have hle : k ≤ trailingOnes ((2*a) * 2^k + (2^k - 1)) := (le_trailingOnes_iff k _).2 ⟨2*a, rfl⟩
        have hnot : ¬ k < trailingOnes ((2*a) * 2^k + (2^k - 1)) := by
          intro hc; have := (lt_trailingOnes_of_form (2*a) k).1 hc; omega
        simp only [eN]
        refine ⟨by omega, by omega, by omega, by omega⟩
      · have hbase : a * 2^(k+1) + 2^k = (2*a+1) * 2^k := by rw [Nat.add_mul]; omega
        rw [hbase] at hc'
        have := ih (2*a+1) (m - 2^k) (by omega) c hc'
        omega
    · rw [if_neg hb, hA] at hc
      have := ih (2*a) m (by omega) c hc
      omega

theorem forestFrom_pairwise (k : Nat) : ∀ a m, m < 2^k →
    (forestFrom k (a * 2^k) m).Pairwise (fun c d => c.1 < d.1) := by
  induction k with
  | zero => intro a m _; simp [forestFrom]
  | succ k ih =>
    intro a m hm
    have hp := two_pow_succ k
    have hpos := two_pow_pos k
    have hA : a * 2^(k+1) = (2*a) * 2^k := by rw [hp]; ac_rfl
    rw [forestFrom]
    by_cases hb : 2^k ≤ m
    · rw [if_pos hb]
      have hbase : a * 2^(k+1) + 2^k = (2*a+1) * 2^k := by rw [Nat.add_mul]; omega
      rw [hbase]
      refine List.Pairwise.cons ?_ (ih (2*a+1) (m - 2^k) (by omega))
      intro d hd
      have := forestFrom_mem k (2*a+1) (m - 2^k) (by omega) d hd
      have : 0 < 2^d.2 := two_pow_pos _
      simp only; omega
    · rw [if_neg hb, hA]
      exact ih (2*a) m (by omega)

/-- every leaf lies under exactly one peak, and that peak is one of the leaf's ancestors `up i h` -/
theorem forestFrom_cover (k : Nat) : ∀ a m i, m < 2^k → a * 2^k ≤ i → i < a * 2^k + m →
    ∃ h, (up i h, h) ∈ forestFrom k (a * 2^k) m := by
  induction k with
  | zero => intro a m i hm _ _; have : m = 0 := by simpa using hm
            omega
  | succ k ih =>
    intro a m i hm hlo hhi
    have hp := two_pow_succ k
    have hpos := two_pow_pos k
    have hA : a * 2^(k+1) = (2*a) * 2^k := by rw [hp]; ac_rfl
    rw [forestFrom]
    by_cases hb : 2^k ≤ m
    · rw [if_pos hb]
      have hbase : a * 2^(k+1) + 2^k = (2*a+1) * 2^k := by rw [Nat.add_mul]; omega
      by_cases hi : i < a * 2^(k+1) + 2^k
      · refine ⟨k, List.mem_cons.2 (Or.inl ?_)⟩
        have hdiv : i / 2^k = 2*a := by
          have e : i = (i - (2*a) * 2^k) + (2*a) * 2^k := by omega
          rw [e, Nat.add_mul_div_right _ _ hpos, Nat.div_eq_of_lt (by omega)]; omega
        simp only [up, hdiv]
        congr 1; omega
      · obtain ⟨h, hh⟩ := ih (2*a+1) (m - 2^k) i (by omega) (by omega) (by omega)
        exact ⟨h, List.mem_cons.2 (Or.inr (by rw [hbase]; exact hh))⟩
    · rw [if_neg hb, hA]
      exact ih (2*a) m i (by omega) (by omega) (by omega)

theorem forest_mem {N : Nat} {c : Nat × Nat} (hc : c ∈ forest N) :
    c.2 = trailingOnes c.1 ∧ c.1 < N ∧ N ≤ c.1 + 2^c.2 := by
  have := forestFrom_mem N 0 N Nat.lt_two_pow_self c (by simpa [forest] using hc)
  omega

theorem forest_pairwise (N : Nat) : (forest N).Pairwise (fun c d => c.1 < d.1) := by
  have := forestFrom_pairwise N 0 N Nat.lt_two_pow_self
  simpa [forest] using this

theorem forest_cover {N i : Nat} (hi : i < N) : ∃ h, (up i h, h) ∈ forest N := by
  have := forestFrom_cover N 0 N i Nat.lt_two_pow_self (by omega) (by omega)
  simpa [forest] using this

theorem cpos_lt_of_fst_lt {c d : Nat × Nat} (hc : c.2 ≤ trailingOnes c.1) (h : c.1 < d.1) :
    cpos c < cpos d := by
  have h1 := coord_lt_mmr_succ hc
  have h2 := mmr_le_mmr (show c.1 + 1 ≤ d.1 from h)
  unfold cpos; omega

/-- peak positions are strictly increasing -/
theorem forest_pos_pairwise (N : Nat) : ((forest N).map cpos).Pairwise (· < ·) := by
  rw [List.pairwise_map]
  have hp := forest_pairwise N
  have hm : ∀ c ∈ forest N, c.2 ≤ trailingOnes c.1 := fun c hc => by have := forest_mem hc; omega
  revert hp hm
  generalize forest N = l
  intro hp hm
  induction hp with
  | nil => exact List.Pairwise.nil
  | @cons c l' hhead _ ih =>
    refine List.Pairwise.cons ?_ (ih (fun d hd => hm d (List.mem_cons_of_mem _ hd)))
    intro d hd
    exact cpos_lt_of_fst_lt (hm c (List.mem_cons_self ..)) (hhead d hd)

theorem forest_zero : forest 0 = [] := rfl

theorem forest_ne_nil {N : Nat} (h : 0 < N) : forest N ≠ [] := by
  obtain ⟨k, hk⟩ := forest_cover (show 0 < N from h)
  intro hc; rw [hc] at hk; simp at hk

/-! ### The forest in bit form -/

theorem bitSet_top {k m : Nat} (hm : m < 2^(k+1)) : bitSet m k = decide (2^k ≤ m) := by
  have hp := two_pow_succ k
  have hpos := two_pow_pos k
  have hlt : m / 2^k < 2 := (Nat.div_lt_iff_lt_mul hpos).2 (by omega)
  by_cases h : 2^k ≤ m
  · have : 0 < m / 2^k := Nat.div_pos h hpos
    simp [bitSet, h]; omega
  · have : m / 2^k = 0 := Nat.div_eq_of_lt (by omega)
    simp [bitSet, h, this]

theorem div_add_pow {k h m' : Nat} (hh : h ≤ k) : (2^k + m') / 2^h = 2^(k-h) + m' / 2^h := by
  have hpos := two_pow_pos h
  have e : 2^k = 2^(k-h) * 2^h := by rw [← Nat.pow_add]; congr 1; omega
  rw [e, Nat.add_comm, Nat.add_mul_div_right _ _ hpos, Nat.add_comm]

theorem bitSet_add_pow {k h m' : Nat} (hh : h < k) : bitSet (2^k + m') h = bitSet m' h := by
  have e : 2^(k-h) = 2 * 2^(k-h-1) := by
    rw [← two_pow_succ]; congr 1; omega
  simp only [bitSet, div_add_pow (Nat.le_of_lt hh), e]
  congr 1; omega

/-- the forest in bit form: one tree per set bit of the leaf count, highest bit first; the tree for
bit `h` ends at the last leaf of the leaves counted by the bits `≥ h` -/
theorem forestFrom_bits (k : Nat) : ∀ a m, m < 2^k →
    forestFrom k (a * 2^k) m
      = ((List.range k).reverse.filter (bitSet m)).map
          (fun h => (a * 2^k + m / 2^(h+1) * 2^(h+1) + 2^h - 1, h)) := by
  induction k with
  | zero => intro a m _; simp [forestFrom]
  | succ k ih =>
    intro a m hm
    have hp := two_pow_succ k
    have hpos := two_pow_pos k
    have hA : a * 2^(k+1) = (2*a) * 2^k := by rw [hp]; ac_rfl
    rw [forestFrom, List.range_succ, List.reverse_append, List.reverse_singleton, List.singleton_append,
      List.filter_cons, bitSet_top hm]
    by_cases hb : 2^k ≤ m
    · simp only [hb, decide_true, if_true, List.map_cons]
      have hdiv0 : m / 2^(k+1) = 0 := Nat.div_eq_of_lt hm
      have hbase : a * 2^(k+1) + 2^k = (2*a+1) * 2^k := by rw [Nat.add_mul]; omega
      rw [hdiv0, hbase, ih (2*a+1) (m - 2^k) (by omega)]
      obtain ⟨m', rfl⟩ : ∃ m', m = 2^k + m' := ⟨m - 2^k, by omega⟩
      have e2 : 2^k + m' - 2^k = m' := by omega
      rw [e2]
      congr 1
      · simp only [Nat.zero_mul, Nat.add_zero]; congr 1; omega
      · have hfil : (List.range k).reverse.filter (bitSet (2^k + m')) = (List.range k).reverse.filter (bitSet m') := by
          apply List.filter_congr
          intro h hh
          have : h < k := by simpa using hh
          exact bitSet_add_pow this
        rw [hfil]
        apply List.map_congr_left
        intro h hh
        have hk : h < k := by
          have := (List.mem_filter.1 hh).1
          simpa using this
        have e3 : (2^k + m') / 2^(h+1) = 2^(k-(h+1)) + m' / 2^(h+1) := div_add_pow hk
        have e4 : 2^(k-(h+1)) * 2^(h+1) = 2^k := by rw [← Nat.pow_add]; congr 1; omega
        have e5 : (2^(k-(h+1)) + m' / 2^(h+1)) * 2^(h+1) = 2^k + m' / 2^(h+1) * 2^(h+1) := by
          rw [Nat.add_mul, e4]
        rw [e3, e5]
        congr 1; omega
    · simp only [hb, decide_false, Bool.false_eq_true, if_false]
      rw [hA]
      exact ih (2*a) m (by omega)

theorem forest_bits (n : Nat) :
    forest n = ((List.range n).reverse.filter (bitSet n)).map
      (fun h => (n / 2^(h+1) * 2^(h+1) + 2^h - 1, h)) := by
  have := forestFrom_bits n 0 n Nat.lt_two_pow_self
  simpa [forest] using this

/-! ### The same list from the low end (stack order) -/

/-- peaks for the bits of `m`, where bit 0 of `m` stands for height `j` -/
def stackOf : Nat → Nat → List (Nat × Nat)
  | 0, _ => []
  | m+1, j =>
    if (m+1) % 2 = 1 then ((m+1) * 2^j - 1, j) :: stackOf ((m+1)/2) (j+1)
    else stackOf ((m+1)/2) (j+1)
decreasing_by all_goals omega

theorem stackOf_zero (j : Nat) : stackOf 0 j = [] := by rw [stackOf]

theorem stackOf_odd (a j : Nat) : stackOf (2*a+1) j = ((2*a+1) * 2^j - 1, j) :: stackOf a (j+1) := by
  rw [stackOf]
  have h1 : (2*a+1) % 2 = 1 := by omega
  have h2 : (2*a+1) / 2 = a := by omega
  rw [if_pos h1, h2]

theorem stackOf_even (a j : Nat) : stackOf (2*a) j = stackOf a (j+1) := by
  cases a with
  | zero => simp [stackOf_zero]
  | succ a =>
    have e : 2*(a+1) = (2*a+1)+1 := by omega
    rw [e, stackOf, ← e]
    have h1 : ¬ 2*(a+1) % 2 = 1 := by omega
    have h2 : 2*(a+1) / 2 = a+1 := by omega
    rw [if_neg h1, h2]

/-- the forest, reversed, is the low part of the stack -/
theorem forestFrom_reverse (k : Nat) : ∀ a m, m < 2^k →
    (forestFrom k (a * 2^k) m).reverse ++ stackOf a k = stackOf (a * 2^k + m) 0 := by
  induction k with
  | zero =>
    intro a m hm
    have : m = 0 := by simpa using hm
    subst this; simp [forestFrom]
  | succ k ih =>
    intro a m hm
    have hp := two_pow_succ k
    have hpos := two_pow_pos k
    have hA : a * 2^(k+1) = (2*a) * 2^k := by rw [hp]; ac_rfl
    rw [forestFrom]
    by_cases hb : 2^k ≤ m
    · rw [if_pos hb]
      have hbase : a * 2^(k+1) + 2^k = (2*a+1) * 2^k := by rw [Nat.add_mul]; omega
      have hhead : a * 2^(k+1) + 2^k - 1 = (2*a+1) * 2^k - 1 := by omega
      rw [List.reverse_cons, List.append_assoc, List.singleton_append, hhead, ← stackOf_odd, hbase,
        ih (2*a+1) (m - 2^k) (by omega)]
      congr 1; omega
    · rw [if_neg hb, hA, ← stackOf_even]
      exact ih (2*a) m (by omega)

theorem forest_reverse (N : Nat) : (forest N).reverse = stackOf N 0 := by
  have := forestFrom_reverse N 0 N Nat.lt_two_pow_self
  simpa [forest, stackOf_zero] using this

theorem stackOf_mul_pow (t : Nat) : ∀ c j, stackOf (c * 2^t) j = stackOf c (j + t) := by
  induction t with
  | zero => intro c j; simp
  | succ t ih =>
    intro c j
    have hp := two_pow_succ t
    have e : c * 2^(t+1) = 2 * (c * 2^t) := by rw [hp]; ac_rfl
    rw [e, stackOf_even, ih]
    congr 1; omega

theorem stackOf_height_ge : ∀ m j, ∀ c ∈ stackOf m j, j ≤ c.2 := by
  intro m
  induction m using Nat.strongRecOn with
  | _ m ih =>
    intro j c hc
    rcases Nat.mod_two_eq_zero_or_one m with h0 | h1
    · have e : m = 2 * (m/2) := by omega
      by_cases hz : m = 0
      · subst hz; rw [stackOf_zero] at hc; simp at hc
      · rw [e, stackOf_even] at hc
        have := ih (m/2) (by omega) (j+1) c hc
        omega
    · have e : m = 2 * (m/2) + 1 := by omega
      rw [e, stackOf_odd] at hc
      rcases List.mem_cons.1 hc with rfl | hc'
      · exact Nat.le_refl _
      · have := ih (m/2) (by omega) (j+1) c hc'
        omega

/-- what the insertion of leaf `N` finds on the stack when it has merged up to height `j` -/
theorem stackOf_div_step {N j : Nat} (hj : j < trailingOnes N) :
    stackOf (N / 2^j) j = (N - 2^j, j) :: stackOf (N / 2^(j+1)) (j+1) := by
  obtain ⟨a, rfl⟩ := coord_form (Nat.le_of_lt hj)
  have hodd := (lt_trailingOnes_of_form a j).1 hj
  have hp := two_pow_succ j
  have hpos := two_pow_pos j
  have hdiv1 := div_pow_of_form a j
  have hdiv2 : (a * 2^j + (2^j - 1)) / 2^(j+1) = a / 2 := by
    rw [hp, Nat.mul_comm 2 (2^j), ← Nat.div_div_eq_div_mul, hdiv1]
  rw [hdiv1, hdiv2]
  have ea : a = 2 * (a/2) + 1 := by omega
  conv => lhs; rw [ea, stackOf_odd, ← ea]
  congr 2
  have : a * 2^j = (a - 1) * 2^j + 2^j := by
    conv => lhs; rw [show a = (a - 1) + 1 by omega, Nat.add_mul]
    omega
  omega

/-- … and what it leaves behind -/
theorem stackOf_succ {N t : Nat} (ht : t = trailingOnes N) :
    stackOf (N + 1) 0 = (N, t) :: stackOf (N / 2^(t + 1)) (t + 1)
    ∧ stackOf (N / 2^t) t = stackOf (N / 2^(t + 1)) (t + 1) := by
  obtain ⟨a, ha⟩ := coord_form (Nat.le_of_eq ht)
  have hev : ¬ a % 2 = 1 := by
    intro hc
    have := (lt_trailingOnes_of_form a t).2 hc
    rw [← ha] at this
    omega
  have hp := two_pow_succ t
  have hpos := two_pow_pos t
  have hdiv1 : N / 2^t = a := by rw [ha]; exact div_pow_of_form a t
  have hdiv2 : N / 2^(t+1) = a / 2 := by
    rw [hp, Nat.mul_comm 2 (2^t), ← Nat.div_div_eq_div_mul, hdiv1]
  have ea : a = 2 * (a/2) := by omega
  have eN : N + 1 = (a + 1) * 2^t := by rw [ha, Nat.add_mul]; omega
  rw [hdiv1, hdiv2]
  constructor
  · rw [eN, stackOf_mul_pow, Nat.zero_add]
    have : a + 1 = 2 * (a/2) + 1 := by omega
    conv => lhs; rw [this, stackOf_odd, ← this]
    congr 2
    omega
  · conv => lhs; rw [ea, stackOf_even]

end GV.Pmmr.Co
