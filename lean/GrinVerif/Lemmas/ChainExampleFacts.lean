import GrinVerif.Lemmas.ChainExamples
import GrinVerif.Lemmas.ChainOrphan
/-! Facts about the example tree of `Lemmas/ChainExamples.lean` used by the non-vacuity examples. -/
namespace GV.Chain.Ex
open GV GV.Chain

theorem ex_fresh : Fresh N := ⟨rfl, rfl, rfl, rfl, fun g hg => by
  have h : N.blk 0 = some G := rfl
  rw [h] at hg
  rw [← Option.some.inj hg]; rfl⟩

theorem ex_vop1 : VOP P N 1 := .child B1 0 _ rfl rfl .genesis ⟨0, G, rfl, rfl, rfl, rfl, by decide, rfl⟩ rfl

theorem ex_vop3 : VOP P N 3 := .child B3 1 _ rfl rfl ex_vop1 ⟨1, B1, rfl, rfl, rfl, rfl, by decide, rfl⟩ rfl

/-- parents first, with an invalid block and a duplicate in between -/
def ex_es₁ : List Event := [.block B2, .block B1, .block B9, .block B3, .block B1]

theorem ex_reg₁ : Registered N ex_es₁ := by
  intro e he
  simp only [ex_es₁, List.mem_cons, List.not_mem_nil, or_false] at he
  rcases he with rfl | rfl | rfl | rfl | rfl <;> rfl

theorem ex_pf₁ : ParentsFirst [] ex_es₁ := by
  simp [ex_es₁, ParentsFirst, B1, B2, B3, B9]

/-- children before parents: 3 arrives first and waits in the orphan pool -/
def ex_es₂ : List Event := [.block B3, .block B2, .block B1]

def ex_N₂ : Node := run P N [.header B1, .header B3, .header B2]

theorem ex_headersOnly : HeadersOnly P ex_N₂ :=
  HeadersOnly.after_headers P N [B1, B3, B2] ex_fresh (by
    intro e he
    simp only [List.map_cons, List.map_nil, List.mem_cons, List.not_mem_nil, or_false] at he
    rcases he with rfl | rfl | rfl <;> rfl)

theorem ex_reg₂ : Registered ex_N₂ ex_es₂ := by
  intro e he
  simp only [ex_es₂, List.mem_cons, List.not_mem_nil, or_false] at he
  rcases he with rfl | rfl | rfl <;> rfl

theorem ex_reach3 : Reach P ex_N₂ (blockIds ex_es₂) 3 :=
  .child B3 1 ⟨rfl, rfl, ⟨1, B1, rfl, rfl, rfl, rfl, by decide, rfl⟩, _, rfl⟩
    (.child B1 0 ⟨rfl, rfl, ⟨0, G, rfl, rfl, rfl, rfl, by decide, rfl⟩, _, rfl⟩ .genesis (by decide))
    (by decide)

end GV.Chain.Ex
