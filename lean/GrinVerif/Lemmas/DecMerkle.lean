import GrinVerif.Lemmas.DecBound
/-! `MerkleProof::read` / `from_hex`, `util::from_hex`, and the `Segment` readers: bounds that hold,
and kernel-checked witnesses for the ones that do not (C11). -/
namespace GV.Dec
open GV GV.Ser

/-! ### `MerkleProof::read` -/

/-- `MerkleProof::read` (repaired): the pre-allocation is at most 64 hashes = 2048 bytes -/
theorem bnd_merkleProof (rd : Rdr) : Bnd 1 2048 32 (merkleProof rd) :=
  (Bnd.bind (bnd_rU64 1) fun mmrSize =>
    Bnd.bind (bnd_rU64 1) fun pathLen =>
    Bnd.withCapacity (A := 2048)
      (Bnd.bind (Bnd.readN (bnd_rHash rd) pathLen) fun path => Bnd.pure 1 (MerkleProof.mk mmrSize path))
      (min pathLen MERKLE_PREALLOC) 32
      (by have : MERKLE_PREALLOC = 64 := rfl
          omega)).mono (Nat.le_refl 1) (by decide) (by decide)

theorem noPanic_merkleProof (rd : Rdr) : NoPanic (merkleProof rd) :=
  NoPanic.bind noPanic_rU64 fun mmrSize =>
    NoPanic.bind noPanic_rU64 fun pathLen =>
    NoPanic.withCapacity
      (NoPanic.bind (NoPanic.readN (noPanic_rHash rd) pathLen) fun path => NoPanic.pure (MerkleProof.mk mmrSize path))
      (min pathLen MERKLE_PREALLOC) 32
      (by have : MERKLE_PREALLOC = 64 := rfl
          have : ISIZE_MAX = 9223372036854775807 := by decide
          omega)

/-- the 16-byte input `mmr_size = 0, path_len = n` -/
def mpWitness (n : Nat) : Bytes := writeU64 0 ++ writeU64 n

theorem mpWitness_length (n : Nat) : (mpWitness n).length = 16 := by
  simp [mpWitness, writeU64_length]

theorem rU64_write (n : Nat) (h : n < 2^64) (rest : Bytes) : rU64 (writeU64 n ++ rest) = .ok n rest 0 := by
  simp [rU64, readU64_write n h, lift]

theorem readN_hash_nil (rd : Rdr) (n : Nat) (hn : 0 < n) :
    readN (rHash rd) n [] = .err .ioEof (match rd with | .bin => 32 | .buf => 0) := by
  cases n with
  | zero => omega
  | succ n =>
    cases rd <;> simp [readN, rHash, rFixed, MAX_FIXED_READ, splitExact, GV.Dec.bind]

theorem rU64_write_nil (n : Nat) (h : n < 2^64) : rU64 (writeU64 n) = .ok n [] 0 := by
  have := rU64_write n h []
  rwa [List.append_nil] at this

/-- what the *unrepaired* `MerkleProof::read` did on `mpWitness n`, for every `0 < n < 2^64` -/
theorem merkleProof_on_witness (rd : Rdr) (n : Nat) (h0 : 0 < n) (h : n < 2^64) :
    merkleProofUnrepaired rd (mpWitness n) =
      if n * 32 > ISIZE_MAX then .panic .capacityOverflow 0
      else .err .ioEof (n * 32 + (match rd with | .bin => 32 | .buf => 0)) := by
  have e1 : rU64 (mpWitness n) = .ok 0 (writeU64 n) 0 := rU64_write 0 (Nat.pow_pos (by omega)) _
  have e2 := rU64_write_nil n h
  have e3 := readN_hash_nil rd n h0
  unfold merkleProofUnrepaired
  rw [e1, bind_ok, e2, bind_ok, e3]
  unfold withCapacity
  split <;> simp [Outcome.addAlloc, GV.Dec.bind]

/-- the unrepaired reader panicked (capacity overflow) on a 16-byte input, with either reader -/
theorem merkleProofUnrepaired_panics (rd : Rdr) :
    merkleProofUnrepaired rd (mpWitness (2^58)) = .panic .capacityOverflow 0 := by
  rw [merkleProof_on_witness rd (2^58) (by decide) (by decide)]
  rw [if_pos (by decide)]

/-- the unrepaired reader: 16 bytes in, at least 128 GiB requested -/
theorem merkleProofUnrepaired_alloc_witness (rd : Rdr) :
    (mpWitness (2^32)).length = 16 ∧ (merkleProofUnrepaired rd (mpWitness (2^32))).alloc ≥ 2^37 := by
  refine ⟨mpWitness_length _, ?_⟩
  rw [merkleProof_on_witness rd (2^32) (by decide) (by decide), if_neg (by decide)]
  simp only [Outcome.alloc]; omega

/-- the repaired reader on the same witnesses: an `IOErr` with at most 2 KiB + one hash requested -/
theorem merkleProof_on_old_witness (rd : Rdr) (n : Nat) (h0 : 0 < n) (h : n < 2^64) :
    merkleProof rd (mpWitness n) =
      .err .ioEof (min n MERKLE_PREALLOC * 32 + (match rd with | .bin => 32 | .buf => 0)) := by
  have e1 : rU64 (mpWitness n) = .ok 0 (writeU64 n) 0 := rU64_write 0 (Nat.pow_pos (by omega)) _
  have e2 := rU64_write_nil n h
  have e3 := readN_hash_nil rd n h0
  unfold merkleProof
  rw [e1, bind_ok, e2, bind_ok, e3]
  unfold withCapacity
  have : MERKLE_PREALLOC = 64 := rfl
  have : ISIZE_MAX = 9223372036854775807 := by decide
  rw [if_neg (by omega)]
  simp [Outcome.addAlloc, GV.Dec.bind]

/-! ### `util::from_hex` -/

/-- `"€a"` (the old char-boundary panic), `"zz"`, `"0"`: plain errors now -/
theorem utilFromHex_old_witness : utilFromHex [0xE2, 0x82, 0xAC, 0x61] = .err := by decide

theorem merkleProofFromHex_old_witnesses :
    (merkleProofFromHex [0x7a, 0x7a]).isPanic = false ∧ (merkleProofFromHex [0x30]).isPanic = false ∧
    (merkleProofFromHex [0xE2, 0x82, 0xAC, 0x61]).isPanic = false := by decide

/-- the loop itself still slices by byte offsets: without the `is_ascii` guard it panics -/
theorem hexLoop_needs_guard : hexLoop [0xE2, 0x82, 0xAC, 0x61] = .panic .charBoundary := by decide

theorem hexLoop_ascii_noPanic : ∀ (n : Nat) (s : Bytes), s.length = 2 * n → (∀ b ∈ s, b < 128) →
    ∀ st, hexLoop s ≠ .panic st := by
  intro n
  induction n with
  | zero =>
    intro s hl _ st
    have : s = [] := List.eq_nil_of_length_eq_zero (by omega)
    subst this; simp [hexLoop]
  | succ n ih =>
    intro s hl hb st
    match s, hl, hb with
    | a :: b :: r, hl, hb =>
      have ha : a < 128 := hb a (by simp)
      have hca : isCont a = false := by simp [isCont]; omega
      have hr : r.length = 2 * n := by simp at hl; omega
      have hbr : ∀ x ∈ r, x < 128 := fun x hx => hb x (by simp [hx])
      cases r with
      | nil =>
        simp only [hexLoop, hca]
        cases fromStrRadix16 a b <;> simp
      | cons c t =>
        have hc : c < 128 := hbr c (by simp)
        have hcc : isCont c = false := by simp [isCont]; omega
        simp only [hexLoop, hca, hcc]
        cases fromStrRadix16 a b with
        | none => simp
        | some v =>
          have := ih (c :: t) hr hbr
          cases hh : hexLoop (c :: t) with
          | ok vs => simp
          | err => simp
          | panic s' => exact absurd hh (this s')

theorem mem_trimStartFuel (f : Nat) (s : Bytes) : ∀ b ∈ trimStartFuel f s, b ∈ s := by
  induction f generalizing s with
  | zero => intro b hb; exact hb
  | succ f ih =>
    intro b hb
    unfold trimStartFuel at hb
    split at hb
    · exact hb
    · exact List.mem_of_mem_drop (ih _ b hb)

theorem mem_trimEndRevFuel (f : Nat) (s : Bytes) : ∀ b ∈ trimEndRevFuel f s, b ∈ s := by
  induction f generalizing s with
  | zero => intro b hb; exact hb
  | succ f ih =>
    intro b hb
    unfold trimEndRevFuel at hb
    split at hb
    · exact hb
    · exact List.mem_of_mem_drop (ih _ b hb)

theorem mem_strTrim (s : Bytes) : ∀ b ∈ strTrim s, b ∈ s := by
  intro b hb
  unfold strTrim at hb
  simp only [List.mem_reverse] at hb
  have := mem_trimEndRevFuel _ _ b hb
  simp only [List.mem_reverse] at this
  exact mem_trimStartFuel _ _ b this

theorem mem_trim0x : ∀ (s : Bytes), ∀ b ∈ trim0x s, b ∈ s := by
  intro s
  fun_induction trim0x s with
  | case1 r ih => intro b hb; simp [ih b hb]
  | case2 s _ => intro b hb; exact hb

/-- **`util::from_hex` never panics**, on any string: non-ASCII input is refused before the slicing loop -/
theorem utilFromHex_noPanic (s : Bytes) : ∀ st, utilFromHex s ≠ .panic st := by
  intro st
  unfold utilFromHex
  simp only
  split
  · simp
  · rename_i hc
    simp only [not_or, Bool.not_eq_false] at hc
    obtain ⟨hl, ha⟩ := hc
    have hl' : (trim0x (strTrim s)).length % 2 = 0 := by omega
    have : (trim0x (strTrim s)).length = 2 * ((trim0x (strTrim s)).length / 2) := by omega
    have hall : ∀ b ∈ trim0x (strTrim s), b < 128 := by
      intro b hb
      have := List.all_eq_true.mp ha b hb
      exact of_decide_eq_true this
    exact hexLoop_ascii_noPanic _ _ this hall st

/-- **`MerkleProof::from_hex` never panics** -/
theorem merkleProofFromHex_noPanic (s : Bytes) : (merkleProofFromHex s).isPanic = false := by
  unfold merkleProofFromHex
  cases h : utilFromHex s with
  | ok bytes =>
    have := noPanic_merkleProof .bin bytes
    simp only
    cases hm : merkleProof .bin bytes <;> simp_all [Outcome.addAlloc, Outcome.isPanic]
  | err => rfl
  | panic st => exact absurd h (utilFromHex_noPanic s st)

/-- bytes produced never exceed half the input; the error copy never exceeds the input -/
theorem hexLoop_length : ∀ (n : Nat) (s : Bytes), s.length ≤ n → ∀ bs, hexLoop s = .ok bs → 2 * bs.length ≤ s.length := by
  intro n
  induction n with
  | zero =>
    intro s hl bs h
    have : s = [] := List.eq_nil_of_length_eq_zero (by omega)
    subst this; simp [hexLoop] at h; subst h; simp
  | succ n ih =>
    intro s hl bs h
    match s, hl, h with
    | [], _, h => simp [hexLoop] at h; subst h; simp
    | [_], _, h => simp [hexLoop] at h
    | a :: b :: [], _, h =>
      simp only [hexLoop] at h
      split at h
      · simp at h
      · cases hv : fromStrRadix16 a b with
        | none => simp [hv] at h
        | some v => simp [hv] at h; simp [← h]
    | a :: b :: c :: t, hl, h =>
      simp only [hexLoop] at h
      split at h
      · simp at h
      · split at h
        · simp at h
        · cases hv : fromStrRadix16 a b with
          | none => simp [hv] at h
          | some v =>
            simp only [hv] at h
            cases hh : hexLoop (c :: t) with
            | ok vs =>
              simp only [hh, HexRes.ok.injEq] at h
              have := ih (c :: t) (by simp at hl ⊢; omega) vs hh
              rw [← h]; simp at this ⊢; omega
            | err => simp [hh] at h
            | panic s' => simp [hh] at h

/-- allocation of `MerkleProof::from_hex`: at most the (trimmed) string length plus the capped
pre-allocation of `MerkleProof::read` -/
theorem merkleProofFromHex_alloc (s : Bytes) :
    (merkleProofFromHex s).alloc ≤ (trim0x (strTrim s)).length + 2080 := by
  unfold merkleProofFromHex
  cases h : utilFromHex s with
  | ok bytes =>
    have hb := (bnd_merkleProof .bin).alloc_le bytes
    have hl : 2 * bytes.length ≤ (trim0x (strTrim s)).length := by
      unfold utilFromHex at h
      simp only at h
      split at h
      · simp at h
      · exact hexLoop_length _ _ (Nat.le_refl _) bytes h
    simp only
    cases hm : merkleProof .bin bytes <;> simp only [hm, Outcome.alloc, Outcome.addAlloc] at hb ⊢ <;> omega
  | err => simp only [Outcome.alloc]; omega
  | panic st => simp [Outcome.alloc]

/-! ### `Segment` / `SegmentProof` readers -/

theorem bnd_segItemCount (c : Nat) : Bnd c 0 0 segItemCount :=
  Bnd.bind (bnd_rU64 c) fun count =>
    Bnd.ite (count > GV.Gen.MAX_SEGMENT_READ_ITEMS) (Bnd.fail c .tooLarge) (Bnd.pure c count)

theorem noPanic_segItemCount : NoPanic segItemCount :=
  NoPanic.bind noPanic_rU64 fun count =>
    NoPanic.ite (count > GV.Gen.MAX_SEGMENT_READ_ITEMS) (NoPanic.fail .tooLarge) (NoPanic.pure count)

theorem bnd_segPositionsLoop (c n last : Nat) : Bnd c 0 0 (segPositionsLoop n last) := by
  induction n generalizing last with
  | zero => intro bs; simp [segPositionsLoop]
  | succ n ih =>
    have h := Bnd.bind (bnd_rU64 c) fun pos =>
      Bnd.ite (pos ≤ last) (Bnd.fail c .sort)
        (Bnd.bind (ih pos) fun ps => Bnd.pure c ((pos - 1) :: ps))
    intro bs
    have := h bs
    simpa [segPositionsLoop] using this

theorem noPanic_segPositionsLoop (n last : Nat) : NoPanic (segPositionsLoop n last) := by
  induction n generalizing last with
  | zero => intro bs; rfl
  | succ n ih =>
    have h := NoPanic.bind noPanic_rU64 fun pos =>
      NoPanic.ite (pos ≤ last) (NoPanic.fail .sort)
        (NoPanic.bind (ih pos) fun ps => NoPanic.pure ((pos - 1) :: ps))
    intro bs
    simpa [segPositionsLoop] using h bs

theorem prealloc_le (count sz : Nat) : min count GV.Gen.SEGMENT_READ_PREALLOC_ITEMS * sz ≤ 1024 * sz := by
  apply Nat.mul_le_mul_right
  have : GV.Gen.SEGMENT_READ_PREALLOC_ITEMS = 1024 := by decide
  omega

/-- `read_segment_positions`: at most 1024 `u64` pre-allocated, whatever the count -/
theorem bnd_segPositions (c count : Nat) : Bnd c 8192 0 (segPositions count) := by
  have h := Bnd.withCapacity (A := 8192) (bnd_segPositionsLoop c count 0)
    (min count GV.Gen.SEGMENT_READ_PREALLOC_ITEMS) 8 (prealloc_le count 8)
  exact h

theorem noPanic_segPositions (count : Nat) : NoPanic (segPositions count) :=
  NoPanic.withCapacity (noPanic_segPositionsLoop count 0) _ 8
    (by have := prealloc_le count 8
        have : ISIZE_MAX = 9223372036854775807 := by decide
        omega)

/-- `read_segment_items`: at most 1024 items pre-allocated -/
theorem bnd_segItems {α : Type} {c e : Nat} {p : Dec α} (hp : Bnd c 0 e p) (sz count : Nat) :
    Bnd c (1024 * sz) e (segItems p sz count) := by
  have h := Bnd.withCapacity (A := 1024 * sz) (Bnd.readN hp count)
    (min count GV.Gen.SEGMENT_READ_PREALLOC_ITEMS) sz (prealloc_le count sz)
  exact h

theorem noPanic_segItems {α : Type} {p : Dec α} (hp : NoPanic p) (sz count : Nat) (hsz : 1024 * sz ≤ ISIZE_MAX) :
    NoPanic (segItems p sz count) :=
  NoPanic.withCapacity (NoPanic.readN hp count) _ sz (by have := prealloc_le count sz; omega)

theorem bnd_segmentProof (rd : Rdr) : Bnd 1 32768 32 (segmentProof rd) :=
  Bnd.bind (bnd_segItemCount 1) fun n => bnd_segItems (bnd_rHash rd) 32 n

theorem noPanic_segmentProof (rd : Rdr) : NoPanic (segmentProof rd) :=
  NoPanic.bind noPanic_segItemCount fun n => noPanic_segItems (noPanic_rHash rd) 32 n (by decide)

theorem bnd_segmentId' : Bnd 1 0 0 segmentId :=
  Bnd.bind (bnd_rU8 1) fun h => Bnd.bind (bnd_rU64 1) fun i => Bnd.pure 1 (SegmentId.mk h i)

theorem noPanic_segmentId' : NoPanic segmentId :=
  NoPanic.bind noPanic_rU8 fun h => NoPanic.bind noPanic_rU64 fun i => NoPanic.pure (SegmentId.mk h i)

/-- `Segment<T>::read` for a leaf reader that allocates proportionally (`Bnd 1 0 e`) with in-memory
leaf size `sz`: pre-allocation ≤ 2·8 KiB positions + 2·32 KiB hashes + 1024 leaves -/
theorem bnd_segment {α : Type} (rd : Rdr) {p : Dec α} {e : Nat} (hp : Bnd 1 0 e p) (sz : Nat) :
    Bnd 1 (81920 + 1024 * sz) (max 32 e) (segment rd p sz) :=
  (Bnd.bind bnd_segmentId' fun id =>
    Bnd.bind (bnd_segItemCount 1) fun nh =>
    Bnd.bind (bnd_segPositions 1 nh) fun hashPos =>
    Bnd.bind (bnd_segItems (bnd_rHash rd) 32 nh) fun hashes =>
    Bnd.bind (bnd_segItemCount 1) fun nl =>
    Bnd.bind (bnd_segPositions 1 nl) fun leafPos =>
    Bnd.bind (bnd_segItems hp sz nl) fun leafData =>
    Bnd.bind (bnd_segmentProof rd) fun proof =>
      Bnd.pure 1 (Segment.mk id hashPos hashes leafPos leafData proof)).mono
    (Nat.le_refl 1) (by omega) (by omega)

theorem noPanic_segment {α : Type} (rd : Rdr) {p : Dec α} (hp : NoPanic p) (sz : Nat) (hsz : 1024 * sz ≤ ISIZE_MAX) :
    NoPanic (segment rd p sz) :=
  NoPanic.bind noPanic_segmentId' fun id =>
    NoPanic.bind noPanic_segItemCount fun nh =>
    NoPanic.bind (noPanic_segPositions nh) fun hashPos =>
    NoPanic.bind (noPanic_segItems (noPanic_rHash rd) 32 nh (by decide)) fun hashes =>
    NoPanic.bind noPanic_segItemCount fun nl =>
    NoPanic.bind (noPanic_segPositions nl) fun leafPos =>
    NoPanic.bind (noPanic_segItems hp sz nl hsz) fun leafData =>
    NoPanic.bind (noPanic_segmentProof rd) fun proof =>
      NoPanic.pure (Segment.mk id hashPos hashes leafPos leafData proof)

end GV.Dec
