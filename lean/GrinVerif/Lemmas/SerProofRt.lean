import GrinVerif.Lemmas.SerBits
import GrinVerif.Lemmas.SerBlockRt
/-! The packed proof-of-work nonces (`pack_bits` / `read_number` of `core/src/pow/types.rs`):
bridge to `Nat` ("the packed bytes are the little-endian bytes of `Σ nᵢ·2^(i·w)`"), bit-window
reads as division / remainder, and the `Proof` round trip (DESIGN Appendix A.4). -/
namespace GV.Ser
open GV

/-- the number whose little-endian bit string is the packed nonces: nonce `i` at bits `i*w ..` -/
def packNat (w : Nat) : List Nat → Nat
  | [] => 0
  | n :: r => n + 2^w * packNat w r

/-- value of a `pack_bits` state: chunks copied so far, then the mini buffer -/
def stVal (mini : Nat) (acc : Bytes) : Nat := ofLE acc + 256^acc.length * mini

theorem lor_disjoint (k a b : Nat) (hb : b < 2^k) : b ||| 2^k * a = 2^k * a + b := by
  rw [Nat.or_comm]; exact (Nat.two_pow_add_eq_or_of_lt hb a).symm

theorem packLoop_spec (w : Nat) (hw : w ≤ 63) :
    ∀ (ns : List Nat) (mini rem : Nat) (acc : Bytes),
    (∀ n ∈ ns, n < 2^w) → 1 ≤ rem → rem ≤ 64 → mini < 2^(64 - rem) → AllBytes acc →
    stVal (packLoop w ns mini rem acc).1 (packLoop w ns mini rem acc).2
        = stVal mini acc + 256^acc.length * (2^(64 - rem) * packNat w ns)
    ∧ (packLoop w ns mini rem acc).2.length = acc.length + 8 * ((64 - rem + w * ns.length) / 64)
    ∧ (packLoop w ns mini rem acc).1 < 2^((64 - rem + w * ns.length) % 64)
    ∧ AllBytes (packLoop w ns mini rem acc).2 := by
  intro ns
  induction ns with
  | nil =>
    intro mini rem acc _ h1 h2 hm hacc
    have : (64 - rem) % 64 = 64 - rem := by omega
    simp [packLoop, packNat, this, hm, hacc]
    omega
  | cons el r ih =>
    intro mini rem acc hns h1 h2 hm hacc
    have hel : el < 2^w := hns el (by simp)
    have hr : ∀ n ∈ r, n < 2^w := fun n hn => hns n (by simp [hn])
    simp only [packLoop]
    by_cases hlt : w < rem
    · -- stays in the mini buffer
      simp only [hlt, ↓reduceIte]
      have hpow : 2^(64 - rem) * 2^w = 2^(64 - (rem - w)) := by
        rw [← Nat.pow_add]; congr 1; omega
      have hnowrap : el * 2^(64 - rem) < 2^64 := by
        have : el * 2^(64 - rem) < 2^w * 2^(64 - rem) := Nat.mul_lt_mul_of_pos_right hel (Nat.pow_pos (by omega))
        have h64 : 2^w * 2^(64 - rem) ≤ 2^64 := by
          rw [← Nat.pow_add]; exact Nat.pow_le_pow_right (by omega) (by omega)
        omega
      rw [Nat.mod_eq_of_lt hnowrap, Nat.mul_comm el, lor_disjoint _ _ _ hm]
      have hm' : 2^(64 - rem) * el + mini < 2^(64 - (rem - w)) := by
        rw [← hpow]
        have : 2^(64 - rem) * el + mini < 2^(64 - rem) * (el + 1) := by rw [Nat.mul_add]; omega
        exact Nat.lt_of_lt_of_le this (Nat.mul_le_mul_left _ hel)
      obtain ⟨i1, i2, i3, i4⟩ := ih (2^(64 - rem) * el + mini) (rem - w) acc hr (by omega) (by omega) hm' hacc
      refine ⟨?_, ?_, ?_, i4⟩
      · rw [i1, ← hpow]; simp only [stVal, packNat]; grind
      · rw [i2]; simp only [List.length_cons, Nat.mul_succ]; congr 3; omega
      · have e : (64 - (rem - w) + w * r.length) % 64 = (64 - rem + w * (r.length + 1)) % 64 := by
          rw [Nat.mul_succ]; congr 1; omega
        simpa [e] using i3
    · -- a 64-bit chunk is complete
      simp only [hlt, ↓reduceIte]
      have hge : rem ≤ w := by omega
      have h64 : (2:Nat)^64 = 2^(64 - rem) * 2^rem := by rw [← Nat.pow_add]; congr 1; omega
      have hwsplit : (2:Nat)^w = 2^rem * 2^(w - rem) := by rw [← Nat.pow_add]; congr 1; omega
      have hmod : (el * 2^(64 - rem)) % 2^64 = 2^(64 - rem) * (el % 2^rem) := by
        rw [h64, Nat.mul_comm el, Nat.mul_mod_mul_left]
      rw [hmod, lor_disjoint _ _ _ hm]
      have hlo : el % 2^rem < 2^rem := Nat.mod_lt _ (Nat.pow_pos (by omega))
      have hmini' : 2^(64 - rem) * (el % 2^rem) + mini < 2^64 := by
        rw [h64]
        have : 2^(64 - rem) * (el % 2^rem) + mini < 2^(64 - rem) * (el % 2^rem + 1) := by rw [Nat.mul_add]; omega
        exact Nat.lt_of_lt_of_le this (Nat.mul_le_mul_left _ hlo)
      have hhi : el / 2^rem < 2^(64 - (64 + rem - w)) := by
        have e : 64 - (64 + rem - w) = w - rem := by omega
        rw [e, Nat.div_lt_iff_lt_mul (Nat.pow_pos (by omega)), Nat.mul_comm, ← hwsplit]
        exact hel
      have hacc' : AllBytes (acc ++ leBytes 8 (2^(64 - rem) * (el % 2^rem) + mini)) := by
        intro b hb
        rcases List.mem_append.mp hb with hb | hb
        · exact hacc b hb
        · exact leBytes_allBytes _ _ b hb
      obtain ⟨i1, i2, i3, i4⟩ := ih (el / 2^rem) (64 + rem - w)
        (acc ++ leBytes 8 (2^(64 - rem) * (el % 2^rem) + mini)) hr (by omega) (by omega) hhi hacc'
      refine ⟨?_, ?_, ?_, i4⟩
      · rw [i1]
        have e : 64 - (64 + rem - w) = w - rem := by omega
        have hdm := Nat.div_add_mod el (2^rem)
        have h256 : (256:Nat)^8 = 2^64 := by rfl
        simp only [stVal, packNat, ofLE_append, List.length_append, leBytes_length, ofLE_leBytes,
          Nat.pow_add, h256, Nat.mod_eq_of_lt hmini', e]
        generalize (256:Nat)^acc.length = A at *
        generalize el / 2^rem = hi at *
        generalize el % 2^rem = lo at *
        generalize packNat w r = R at *
        subst hdm
        rw [h64, hwsplit]
        generalize (2:Nat)^(64 - rem) = K at *
        generalize (2:Nat)^rem = Q at *
        generalize (2:Nat)^(w - rem) = W at *
        grind
      · rw [i2]
        simp only [List.length_append, leBytes_length, List.length_cons, Nat.mul_succ]
        generalize w * r.length = m
        omega
      · have e : (64 - (64 + rem - w) + w * r.length) % 64 = (64 - rem + w * (r.length + 1)) % 64 := by
          rw [Nat.mul_succ]
          generalize w * r.length = m
          omega
        simpa [e] using i3

theorem packNat_lt (w : Nat) (ns : List Nat) (h : ∀ n ∈ ns, n < 2^w) :
    packNat w ns < 2^(w * ns.length) := by
  induction ns with
  | nil => simp [packNat]
  | cons n r ih =>
    have hn : n < 2^w := h n (by simp)
    have hr := ih (fun m hm => h m (by simp [hm]))
    simp only [packNat, List.length_cons, Nat.mul_succ, Nat.pow_add]
    have : n + 2^w * packNat w r < 2^w * (packNat w r + 1) := by rw [Nat.mul_add]; omega
    calc n + 2^w * packNat w r < 2^w * (packNat w r + 1) := this
      _ ≤ 2^w * 2^(w * r.length) := Nat.mul_le_mul_left _ hr
      _ = 2^(w * r.length) * 2^w := Nat.mul_comm _ _

theorem packBits_eq (w P : Nat) (hw : w ≤ 63) (ns : List Nat) (hlen : ns.length = P)
    (h : ∀ n ∈ ns, n < 2^w) :
    packBits w ns (packLen P w) = leBytes (packLen P w) (packNat w ns) := by
  obtain ⟨i1, i2, i3, i4⟩ := packLoop_spec w hw ns 0 64 [] h (by omega) (by omega) (by simp)
    (by intro b hb; simp at hb)
  unfold packBits
  cases hres : packLoop w ns 0 64 [] with
  | mk mini acc =>
    rw [hres] at i1 i2 i3 i4
    simp only [stVal, ofLE_nil, List.length_nil, Nat.pow_zero, Nat.sub_self, Nat.mul_zero, Nat.add_zero,
      Nat.one_mul, Nat.zero_add, hlen] at i1 i2 i3
    simp only
    -- the target as a byte list
    have hN : packNat w ns = ofLE acc + 256^acc.length * mini := i1.symm
    generalize hB : w * P = B at i2 i3
    have hpl : packLen P w = (B + 7) / 8 := by unfold packLen; rw [hB]
    rw [hpl]
    have havail8 : (B + 7) / 8 - acc.length ≤ 8 := by rw [i2]; omega
    have hminilt : mini < 256^((B + 7) / 8 - acc.length) := by
      rw [two56]
      refine Nat.lt_of_lt_of_le i3 (Nat.pow_le_pow_right (by omega) ?_)
      rw [i2]; omega
    have hlen' : (B + 7) / 8 = acc.length + ((B + 7) / 8 - acc.length) := by rw [i2]; omega
    have htarget : leBytes ((B + 7) / 8) (packNat w ns) = acc ++ leBytes ((B + 7) / 8 - acc.length) mini := by
      have hT : AllBytes (acc ++ leBytes ((B + 7) / 8 - acc.length) mini) := by
        intro b hb
        rcases List.mem_append.mp hb with hb | hb
        · exact i4 b hb
        · exact leBytes_allBytes _ _ b hb
      have := leBytes_ofLE _ hT
      rw [List.length_append, leBytes_length, ← hlen', ofLE_append, ofLE_leBytes,
        Nat.mod_eq_of_lt hminilt, ← hN] at this
      exact this
    rw [htarget]
    congr 1
    by_cases hm : mini > 0
    · simp only [hm, ↓reduceIte]
      have hpos : 0 < (B + 7) / 8 - acc.length := by
        rcases Nat.eq_zero_or_pos ((B + 7) / 8 - acc.length) with h0 | h0
        · rw [h0] at hminilt; simp at hminilt; omega
        · exact h0
      have hrem : (if ((B + 7) / 8 - acc.length) % 8 = 0 then 8 else ((B + 7) / 8 - acc.length) % 8)
          = (B + 7) / 8 - acc.length := by
        split <;> omega
      rw [hrem, take_leBytes _ _ _ havail8]
    · have : mini = 0 := by omega
      subst this
      simp [leBytes_of_zero]


theorem allBytes_take (bs : Bytes) (h : AllBytes bs) (n : Nat) : AllBytes (bs.take n) :=
  fun b hb => h b (List.mem_of_mem_take hb)
theorem allBytes_drop (bs : Bytes) (h : AllBytes bs) (n : Nat) : AllBytes (bs.drop n) :=
  fun b hb => h b (List.mem_of_mem_drop hb)

/-- dropping whole bytes = dividing -/
theorem ofLE_drop (bs : Bytes) (h : AllBytes bs) (n : Nat) (hn : n ≤ bs.length) :
    ofLE (bs.drop n) = ofLE bs / 256^n := by
  have hsplit := ofLE_append (bs.take n) (bs.drop n)
  rw [List.take_append_drop, List.length_take, Nat.min_eq_left hn] at hsplit
  have hlt := ofLE_lt _ (allBytes_take bs h n)
  rw [List.length_take, Nat.min_eq_left hn] at hlt
  rw [hsplit, Nat.add_mul_div_left _ _ (Nat.pow_pos (by omega)), Nat.div_eq_of_lt hlt, Nat.zero_add]

theorem ofLE_take (bs : Bytes) (h : AllBytes bs) (n : Nat) (hn : n ≤ bs.length) :
    ofLE (bs.take n) = ofLE bs % 256^n := by
  have hsplit := ofLE_append (bs.take n) (bs.drop n)
  rw [List.take_append_drop, List.length_take, Nat.min_eq_left hn] at hsplit
  have hlt := ofLE_lt _ (allBytes_take bs h n)
  rw [List.length_take, Nat.min_eq_left hn] at hlt
  rw [hsplit, Nat.add_mul_mod_self_left, Nat.mod_eq_of_lt hlt]

/-- `u64::from_le_bytes(bits[rf..rf+8])` as arithmetic on the whole little-endian number -/
theorem leU64At_eq (bits : Bytes) (h : AllBytes bits) (rf : Nat) (hrf : rf + 8 ≤ bits.length) :
    leU64At bits rf = ofLE bits / 2^(8 * rf) % 2^64 := by
  unfold leU64At
  rw [ofLE_take _ (allBytes_drop bits h rf) 8 (by rw [List.length_drop]; omega),
    ofLE_drop bits h rf (by omega), two56]

/-- a window of at most 64 bits starting inside the 8 bytes at `rf` -/
theorem extractBits_eq (bits : Bytes) (h : AllBytes bits) (s c rf : Nat) (hrf : rf + 8 ≤ bits.length)
    (h1 : 8 * rf ≤ s) (h2 : s + c ≤ 8 * rf + 64) (hc : c ≤ 63) :
    extractBits bits s c rf = ofLE bits / 2^s % 2^c := by
  unfold extractBits
  have hne : ¬ c = 64 := by omega
  simp only [hne, ↓reduceIte]
  rw [leU64At_eq bits h rf hrf, Nat.mul_comm rf 8]
  generalize ofLE bits = X
  -- (X / 2^(8rf) % 2^64) / 2^k % 2^c  with k = s - 8rf, k + c ≤ 64
  have hk : s = 8 * rf + (s - 8 * rf) := by omega
  generalize s - 8 * rf = k at hk
  subst hk
  have h64 : (2:Nat)^64 = 2^k * 2^(64 - k) := by rw [← Nat.pow_add]; congr 1; omega
  rw [h64, Nat.mod_mul_right_div_self, Nat.pow_add, Nat.div_div_eq_div_mul]
  apply Nat.mod_mod_of_dvd
  exact Nat.pow_dvd_pow 2 (by omega)

/-- `read_number` reads `c` bits at bit offset `s` of the little-endian number -/
theorem readNumber_eq (bits : Bytes) (h : AllBytes bits) (s c : Nat) (hL : 8 ≤ bits.length)
    (hend : s + c ≤ 8 * bits.length) (hc : c ≤ 63) :
    readNumber bits s c = ofLE bits / 2^s % 2^c := by
  unfold readNumber
  by_cases hc0 : c = 0
  · simp [hc0, Nat.mod_one]
  simp only [hc0, ↓reduceIte]
  by_cases hback : s / 8 + 8 > bits.length
  · -- window moved back to the last 8 bytes
    simp only [hback, ↓reduceIte]
    have hfit : s + c ≤ (bits.length - 8 + 8) * 8 := by omega
    simp only [hfit, ↓reduceIte]
    exact extractBits_eq bits h s c (bits.length - 8) (by omega) (by omega) (by omega) hc
  · simp only [hback, ↓reduceIte]
    by_cases hfit : s + c ≤ (s / 8 + 8) * 8
    · simp only [hfit, ↓reduceIte]
      exact extractBits_eq bits h s c (s / 8) (by omega) (by omega) (by omega) hc
    · -- 9-byte straddle: low 8 bits, then the rest from the next byte
      simp only [hfit, ↓reduceIte]
      rw [extractBits_eq bits h s 8 (s / 8) (by omega) (by omega) (by omega) (by omega),
        extractBits_eq bits h (s + 8) (c - 8) (s / 8 + 1) (by omega) (by omega) (by omega) (by omega)]
      generalize ofLE bits = X
      have hc8 : c = 8 + (c - 8) := by omega
      have e : X / 2^(s + 8) = X / 2^s / 2^8 := by rw [Nat.pow_add, Nat.div_div_eq_div_mul]
      rw [e]
      generalize X / 2^s = Y
      have hsplit : Y % 2^c = Y % 2^8 + 2^8 * (Y / 2^8 % 2^(c - 8)) := by
        conv => lhs; rw [hc8, Nat.pow_add]
        exact Nat.mod_mul
      have hlt : Y % 2^c < 2^64 := by
        have : Y % 2^c < 2^c := Nat.mod_lt _ (Nat.pow_pos (by omega))
        exact Nat.lt_of_lt_of_le this (Nat.pow_le_pow_right (by omega) (by omega))
      rw [hsplit] at hlt ⊢
      rw [Nat.mul_comm (Y / 2^8 % 2^(c - 8)), Nat.add_comm, Nat.mod_eq_of_lt hlt]


theorem packNat_extract (w : Nat) (ns : List Nat) (h : ∀ n ∈ ns, n < 2^w) :
    (List.range ns.length).map (fun i => packNat w ns / 2^(i * w) % 2^w) = ns := by
  induction ns with
  | nil => simp
  | cons n r ih =>
    have hn : n < 2^w := h n (by simp)
    have hr := ih (fun m hm => h m (by simp [hm]))
    rw [List.length_cons, List.range_succ_eq_map, List.map_cons, List.map_map]
    congr 1
    · simp only [packNat, Nat.zero_mul, Nat.pow_zero, Nat.div_one, Nat.add_mul_mod_self_left]
      exact Nat.mod_eq_of_lt hn
    · conv => rhs; rw [← hr]
      apply List.map_congr_left
      intro i _
      simp only [Function.comp, Nat.succ_eq_add_one, packNat]
      have e : (i + 1) * w = w + i * w := by rw [Nat.add_mul, Nat.one_mul, Nat.add_comm]
      rw [e, Nat.pow_add, ← Nat.div_div_eq_div_mul,
        Nat.add_mul_div_left _ _ (Nat.pow_pos (by omega)), Nat.div_eq_of_lt hn, Nat.zero_add]

theorem decProof_enc (c : Cfg) (p : Proof) (h : p.WF c.proofSize) (rest : Bytes) :
    decProof c (encProof c.proofSize .full p ++ rest) = .ok (p, rest) := by
  obtain ⟨w, ns⟩ := p
  obtain ⟨hw1, hw, hlen, hns, hpl8, hcap⟩ := h
  simp only at hw1 hw hlen hns hpl8 hcap
  have hpk := packBits_eq w c.proofSize hw ns hlen hns
  have hNlt := packNat_lt w ns hns
  rw [hlen] at hNlt
  generalize hN : packNat w ns = N at hpk hNlt
  generalize hL : packLen c.proofSize w = L at hpk hpl8 hcap
  have hLdef : L = (w * c.proofSize + 7) / 8 := by rw [← hL]; rfl
  have hbits8 : w * c.proofSize ≤ 8 * L := by omega
  have hNlt' : N < 256^L := by
    rw [two56]; exact Nat.lt_of_lt_of_le hNlt (Nat.pow_le_pow_right (by omega) hbits8)
  have hof : ofLE (leBytes L N) = N := by rw [ofLE_leBytes, Nat.mod_eq_of_lt hNlt']
  have hall := leBytes_allBytes L N
  have hrf := readFixed_write (leBytes L N) L (leBytes_length L N) hcap rest
  simp only [writeFixed] at hrf
  have hnonces : (List.range c.proofSize).map (fun n => readNumber (leBytes L N) (n * w) w) = ns := by
    have hx := packNat_extract w ns hns
    rw [hlen, hN] at hx
    rw [← hx]
    apply List.map_congr_left
    intro i hi
    have hi' : i < c.proofSize := List.mem_range.mp hi
    have hle : i * w + w ≤ w * c.proofSize := by
      have : (i + 1) * w ≤ c.proofSize * w := Nat.mul_le_mul_right w hi'
      rw [Nat.add_mul, Nat.one_mul, Nat.mul_comm c.proofSize] at this
      exact this
    rw [readNumber_eq _ hall (i * w) w (by rw [leBytes_length]; exact hpl8)
      (by rw [leBytes_length]; omega) hw, hof]
  have hpad : readNumber (leBytes L N) (c.proofSize * w) (L * 8 - c.proofSize * w) = 0 := by
    rw [readNumber_eq _ hall _ _ (by rw [leBytes_length]; exact hpl8)
      (by rw [leBytes_length, Nat.mul_comm c.proofSize w]; omega)
      (by rw [Nat.mul_comm c.proofSize w]; omega), hof, Nat.mul_comm c.proofSize w,
      Nat.div_eq_of_lt hNlt, Nat.zero_mod]
  have h1 : ¬ (w = 0 ∨ w > 63) := by omega
  have h2 : ¬ L < 8 := by omega
  rw [decProof, encProof]
  simp only [reduceCtorEq, ↓reduceIte, Proof.packNonces, writeU8, List.cons_append, List.nil_append,
    readU8, andThen_ok, h1, hL, h2, hpk, hrf, hnonces, hpad, ne_eq, not_true_eq_false]

end GV.Ser
