import GrinVerif.Model.KvResize
import GrinVerif.Lemmas.KvProg
/-! Invariant of the resize protocol with its guard flags (`Model/KvResize.lean`): the guard and
the `resizing` flag are held exactly while a waiter thread is pending, and a pending waiter is
going to enlarge the map. -/
namespace GV.Kv

/-- when `needs_resize` fires the new size is strictly larger (first half of
`GV.Props.C18.needs_resize_grows`, needed here for the invariant) -/
theorem needsResize_lt (mapSize used chunk : Nat) (hc : 0 < chunk)
    (h : (needsResize mapSize used chunk).1 = true) : mapSize < (needsResize mapSize used chunk).2 := by
  unfold needsResize at h ⊢
  simp only at h ⊢
  by_cases hr : (decide (used * 10 > 9 * mapSize) || decide (mapSize < chunk)) = true
  · simp only [hr, Bool.not_true, Bool.false_eq_true, if_false] at h ⊢
    by_cases hm : mapSize < chunk
    · simp only [hm, if_true]
    · simp only [hm, if_false]
      have hu : used * 10 > 9 * mapSize := by
        simp only [Bool.or_eq_true, decide_eq_true_eq] at hr
        rcases hr with hr | hr
        · exact hr
        · exact absurd hr hm
      have hmod1 := Nat.mod_lt mapSize hc
      have hmod2 := Nat.mod_le mapSize chunk
      generalize mapSize % chunk = r at *
      have hfuel : used * 2 + 1 = (used * 2) + 1 := rfl
      rw [hfuel]
      simp only [growLoop]
      have hgt : used * 100 > 65 * (mapSize - r) := by omega
      simp only [hgt, if_true]
      have := growLoop_ge used chunk (used * 2) (mapSize - r + chunk)
      omega
  · simp [hr] at h

structure RInv (e : REnv) : Prop where
  chunk : 0 < e.chunk
  guard : e.checking = e.pending.isSome
  flag : e.resizing = e.pending.isSome
  grows : ∀ n, e.pending = some n → e.mapSize < n

theorem rinv_init (mapSize chunk : Nat) (hc : 0 < chunk) : RInv (rinit mapSize chunk) :=
  ⟨hc, rfl, rfl, fun _ h => by simp [rinit] at h⟩

theorem rinv_maybeResize (e : REnv) (used : Nat) (inv : RInv e) : RInv (maybeResize e used).1 := by
  unfold maybeResize
  by_cases hck : e.checking = true
  · simp only [hck, if_true]; exact inv
  · have hck' : e.checking = false := by simpa using hck
    have hp : e.pending = none := by
      have := inv.guard; rw [hck'] at this
      cases hpe : e.pending with
      | none => rfl
      | some n => rw [hpe] at this; simp at this
    have hrz : e.resizing = false := by rw [inv.flag, hp]; rfl
    simp only [hck', Bool.false_eq_true, if_false]
    by_cases hr : (needsResize e.mapSize used e.chunk).1 = true
    · simp only [hr, Bool.not_true, Bool.false_eq_true, if_false]
      by_cases ho : e.openTxs ≠ 0
      · simp only [ho, ne_eq, not_false_eq_true, if_true]
        refine ⟨inv.chunk, rfl, rfl, ?_⟩
        intro n hn
        simp only [Option.some.injEq] at hn
        rw [← hn]
        exact needsResize_lt _ _ _ inv.chunk hr
      · simp only [ho, if_false]
        exact ⟨inv.chunk, by simp [hp], by simp [hp], fun n h => by simp [hp] at h⟩
    · have hr' : (needsResize e.mapSize used e.chunk).1 = false := by simpa using hr
      simp only [hr', Bool.not_false, if_true]
      exact ⟨inv.chunk, by simp [hp], by simp [hp, hrz], fun n h => by simp [hp] at h⟩

theorem rinv_waiter (e : REnv) (inv : RInv e) : RInv (waiterStep e) := by
  unfold waiterStep
  cases hp : e.pending with
  | none => simp only; exact inv
  | some n =>
    simp only
    by_cases ho : e.openTxs = 0
    · simp only [ho, if_true]
      exact ⟨inv.chunk, rfl, rfl, fun m h => by simp at h⟩
    · simp only [ho, if_false]; exact inv

theorem rinv_step (e : REnv) (a : RAct) (inv : RInv e) : RInv (rstep e a) := by
  cases a with
  | openTx => exact ⟨inv.chunk, inv.guard, inv.flag, inv.grows⟩
  | closeTx => exact ⟨inv.chunk, inv.guard, inv.flag, inv.grows⟩
  | call used => exact rinv_maybeResize e used inv
  | waiter => exact rinv_waiter e inv

theorem rinv_run : ∀ (as : List RAct) (e : REnv), RInv e → RInv (rrun e as)
  | [], _, inv => inv
  | a :: r, e, inv => rinv_run r (rstep e a) (rinv_step e a inv)

theorem rinv_openTxs (e : REnv) (k : Nat) (inv : RInv e) : RInv { e with openTxs := k } :=
  ⟨inv.chunk, inv.guard, inv.flag, inv.grows⟩

/-- the four ways a call of `maybe_resize` can go, with the state each leaves -/
theorem maybeResize_cases (e : REnv) (used : Nat) :
    (e.checking = true ∧ maybeResize e used = (e, .guardBusy)) ∨
    (e.checking = false ∧ (needsResize e.mapSize used e.chunk).1 = false ∧
      maybeResize e used = ({ e with checking := false }, .notNeeded)) ∨
    (e.checking = false ∧ (needsResize e.mapSize used e.chunk).1 = true ∧ e.openTxs ≠ 0 ∧
      maybeResize e used = ({ e with checking := true, resizing := true, pending := some (needsResize e.mapSize used e.chunk).2 },
        .deferred (needsResize e.mapSize used e.chunk).2)) ∨
    (e.checking = false ∧ (needsResize e.mapSize used e.chunk).1 = true ∧ e.openTxs = 0 ∧
      maybeResize e used = ({ e with mapSize := (needsResize e.mapSize used e.chunk).2, resizing := false, checking := false },
        .immediate (needsResize e.mapSize used e.chunk).2)) := by
  by_cases hck : e.checking = true
  · exact Or.inl ⟨hck, by simp [maybeResize, hck]⟩
  · have hck' : e.checking = false := by simpa using hck
    by_cases hr : (needsResize e.mapSize used e.chunk).1 = true
    · by_cases ho : e.openTxs = 0
      · exact Or.inr (Or.inr (Or.inr ⟨hck', hr, ho, by simp [maybeResize, hck', hr, ho]⟩))
      · exact Or.inr (Or.inr (Or.inl ⟨hck', hr, ho, by simp [maybeResize, hck', hr, ho]⟩))
    · have hr' : (needsResize e.mapSize used e.chunk).1 = false := by simpa using hr
      exact Or.inr (Or.inl ⟨hck', hr', by simp [maybeResize, hck', hr']⟩)

theorem pending_none_of_unchecked (e : REnv) (inv : RInv e) (h : e.checking = false) :
    e.pending = none ∧ e.resizing = false := by
  have hg := inv.guard
  rw [h] at hg
  cases hp : e.pending with
  | none => exact ⟨rfl, by rw [inv.flag, hp]; rfl⟩
  | some n => rw [hp] at hg; simp at hg

theorem growLoop_mod (used chunk : Nat) : ∀ (fuel tot : Nat), tot % chunk = 0 →
    growLoop used chunk fuel tot % chunk = 0 := by
  intro fuel
  induction fuel with
  | zero => intro tot h; simpa [growLoop] using h
  | succ n ih =>
    intro tot h
    simp only [growLoop]
    split
    · exact ih (tot + chunk) (by rw [Nat.add_mod, h]; simp)
    · exact h

/-- whenever `needs_resize` fires, the size it returns is a whole number of allocation chunks -/
theorem needsResize_mod (mapSize used chunk : Nat) (h : (needsResize mapSize used chunk).1 = true) :
    (needsResize mapSize used chunk).2 % chunk = 0 := by
  unfold needsResize at h ⊢
  simp only at h ⊢
  by_cases hr : (decide (used * 10 > 9 * mapSize) || decide (mapSize < chunk)) = true
  · simp only [hr, Bool.not_true, Bool.false_eq_true, if_false] at h ⊢
    by_cases hm : mapSize < chunk
    · simp [hm]
    · simp only [hm, if_false]
      apply growLoop_mod
      have h1 := Nat.div_add_mod mapSize chunk
      have : mapSize - mapSize % chunk = chunk * (mapSize / chunk) := by omega
      rw [this, Nat.mul_mod_right]
  · simp [hr] at h

/-- when it does not fire, the usage is at most 90 % of the (unchanged) map -/
theorem needsResize_false (mapSize used chunk : Nat) (h : (needsResize mapSize used chunk).1 = false) :
    (needsResize mapSize used chunk).2 = mapSize ∧ used * 10 ≤ 9 * mapSize := by
  unfold needsResize at h ⊢
  simp only at h ⊢
  by_cases hr : (decide (used * 10 > 9 * mapSize) || decide (mapSize < chunk)) = true
  · simp only [hr, Bool.not_true, Bool.false_eq_true, if_false] at h
    by_cases hm : mapSize < chunk <;> simp [hm] at h
  · simp only [hr, Bool.not_false, if_true]
    simp only [Bool.or_eq_true, decide_eq_true_eq, not_or, Nat.not_lt] at hr
    exact ⟨trivial, by omega⟩

end GV.Kv
