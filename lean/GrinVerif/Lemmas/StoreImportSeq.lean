import GrinVerif.Lemmas.StoreImportLoop
/-! Whole import sequences (state sync / PIBD fills a backend through `push_pruned_subtree`,
`push` and `remove_from_leaf_set`, in position order): the in-unit reference invariant is
preserved by every step, so `sync` leaves a backend satisfying the reference invariant `Synced` –
the start of `history_from_synced_state`.  Core Lean only. -/
namespace GV.Store
open GV GV.Pmmr GV.Pmmr.Co

variable {H : Type}

/-- one step of an import -/
inductive IOp
  /-- `push_pruned_subtree(ref hash, pos0)` for the root at coordinates `(n, h)`, `pos0 = mmr n + h` -/
  | subtree (n h : Nat)
  /-- `push` of the next leaf of the history -/
  | leaf
  /-- `remove_from_leaf_set(pos0)`: the leaf arrived with its data but is spent -/
  | spend (pos0 : Nat)
deriving Repr, DecidableEq

/-- state of an import: the handle and the number of leaves the MMR stands for so far -/
def istep (hf : HashFn Bytes H) (f : Nat → Bytes) (s : PM H × Nat) : IOp → PM H × Nat
  | .subtree n h => ((PM.pushPrunedSubtree hf s.1 (refHash hf f (mmr n + h)) (mmr n + h)).1, n + 1)
  | .leaf => ((PM.push hf s.1 (f s.2)).getD s.1, s.2 + 1)
  | .spend pos0 => ({ s.1 with b := s.1.b.removeFromLeafSet pos0 }, s.2)

/-- what the importer has to respect: a subtree root has height `>= 1`, its leaves are the next
`2^h` leaves of the history, its sibling is not pruned (roots are neither siblings nor nested - the
sender's prune list is rolled up), sizes stay below `2^64 - 64` -/
def IOp.ok (s : PM H × Nat) : IOp → Prop
  | .subtree n h => 1 ≤ h ∧ h ≤ trailingOnes n ∧ s.2 + 2 ^ h = n + 1 ∧
      s.1.b.pruneList.isPruned (family (mmr n + h)).2 = false ∧ mmr (n + 1) + 64 < 2 ^ 64
  | .leaf => mmr (s.2 + 1) + 64 < 2 ^ 64
  | .spend _ => True

def IValid (hf : HashFn Bytes H) (f : Nat → Bytes) : PM H × Nat → List IOp → Prop
  | _, [] => True
  | s, op :: ops => op.ok s ∧ IValid hf f (istep hf f s op) ops

/-- `push` does not look at the prune-list file -/
theorem PM.push_fixPF (hf : HashFn Bytes H) (b : Backend H) (size : Nat) (e : Bytes) :
    PM.push hf { b := b.fixPF, size := size } e =
      (PM.push hf { b := b, size := size } e).map fun p => { p with b := p.b.fixPF } := by
  obtain ⟨hF, dF, lS, pL, pF⟩ := b
  unfold PM.push
  have hpk : (Backend.fixPF { hashFile := hF, dataFile := dF, leafSet := lS, pruneList := pL, pruneFile := pF } : Backend H).getPeakFromFile = ({ hashFile := hF, dataFile := dF, leafSet := lS, pruneList := pL, pruneFile := pF } : Backend H).getPeakFromFile := rfl
  simp only [hpk]
  generalize pushHashes hf ({ hashFile := hF, dataFile := dF, leafSet := lS, pruneList := pL, pruneFile := pF } : Backend H).getPeakFromFile size e = ph
  cases ph with
  | none => rfl
  | some hashes =>
    simp only [Backend.append, Backend.fixPF]
    cases dF.append e with
    | none => rfl
    | some r => rfl

/-- **every import step preserves the in-unit reference invariant** -/
theorem import_step_live (hf : HashFn Bytes H) (f : Nat → Bytes) (s : PM H × Nat) (df : AOF Bytes)
    (hl : Live s.1.b.fixPF s.2 (refHash hf f) (refData f) df) (hsz : s.1.size = mmr s.2)
    (op : IOp) (hok : op.ok s) :
    ∃ df', Live (istep hf f s op).1.b.fixPF (istep hf f s op).2 (refHash hf f) (refData f) df' ∧
      (istep hf f s op).1.size = mmr (istep hf f s op).2 := by
  obtain ⟨p, N⟩ := s
  simp only at hl hsz
  cases op with
  | subtree n h =>
    obtain ⟨h1, hh, hN, hsib, hbd⟩ := hok
    -- the whole step of `Lemmas/StoreImportLoop.lean`
    have ht : trailingOnes n < 65 := by
      have h2 := two_pow_le_of_le_trailingOnes (Nat.le_refl (trailingOnes n))
      have h3 := le_mmr (n + 1)
      have h4 : 2 ^ trailingOnes n < 2 ^ 64 := by omega
      have := (Nat.pow_lt_pow_iff_right (a := 2) (by omega)).1 h4
      omega
    have hst0 : ImpSt hf f p.b (mmr n + h) 0
        (p.b.appendPrunedSubtree (refHash hf f (mmr n + h)) (mmr n + h)) :=
      ⟨rfl, rfl, rfl, rfl, rfl, rfl, rfl, by simp [Backend.appendPrunedSubtree, AOF.append]⟩
    obtain ⟨b', hloop, hst⟩ := pushPrunedLoop_spec hf f hl hh h1 hN hsib (trailingOnes n - h) 0 65 _
      (by omega) (by omega) hst0
    rw [Nat.add_zero] at hloop
    have hheight : height (mmr n + h) = h := height_co n h hh
    have hlc := leftmost_coord hh
    have hlm : bintreeLeftmost (mmr n + h) = mmr N := by
      unfold bintreeLeftmost
      rw [hheight]
      have : n + 1 - 2 ^ h = N := by omega
      rw [this] at hlc
      omega
    have hsz' : mmr (n + 1) = mmr n + h + 1 + (trailingOnes n - h) := by rw [mmr_succ]; omega
    have hnl : ∀ q, mmr n + h ≤ q → q < mmr (n + 1) → isLeaf q = false := by
      intro q a b
      obtain ⟨g, hg⟩ : ∃ g, q = mmr n + g := ⟨q - mmr n, by omega⟩
      have hgt : g ≤ trailingOnes n := by rw [mmr_succ] at b; omega
      unfold isLeaf
      rw [hg, height_co n g hgt]
      simp; omega
    have hround : roundUpToLeafPos (mmr n + trailingOnes n) = mmr (n + 1) := by
      unfold roundUpToLeafPos
      rw [peakMapHeight_co n _ (Nat.le_refl _)]
      have : ¬ trailingOnes n = 0 := by omega
      simp only [this, if_false]
      rfl
    have hl' := Live.import_step hl hlm hsz' hsib hnl hbd hst.df hst.ls hst.pl hst.disk hst.bsp hst.bak hst.buf
    have hres : PM.pushPrunedSubtree hf p (refHash hf f (mmr n + h)) (mmr n + h) =
        ({ b := b', size := mmr (n + 1) }, true) := by
      unfold PM.pushPrunedSubtree
      simp only [peakMapHeight_co n h hh, hloop, hround]
    refine ⟨df, ?_, ?_⟩
    · simp only [istep, hres]; exact hl'
    · simp only [istep, hres]
  | leaf =>
    have hb : mmr (N + 1) + 64 < 2 ^ 64 := hok
    obtain ⟨b', hp1, _, hp3, _, _⟩ := hl.push hb
    have hp : p = { b := p.b, size := mmr N } := by cases p; simp only at hsz; rw [hsz]
    have e1 := PM.push_fixPF hf p.b (mmr N) (f N)
    rw [hp1] at e1
    cases hq : PM.push hf { b := p.b, size := mmr N } (f N) with
    | none => rw [hq] at e1; exact absurd e1 (by simp)
    | some q =>
      rw [hq] at e1
      simp only [Option.map_some, Option.some.injEq] at e1
      have hstep : istep hf f (p, N) .leaf = (q, N + 1) := by
        simp only [istep]
        rw [hp, hq]; rfl
      rw [hstep]
      have hb' : b' = q.b.fixPF := congrArg PM.b e1
      have hqs : q.size = mmr (N + 1) := (congrArg PM.size e1).symm
      exact ⟨_, by rw [← hb']; exact hp3, hqs⟩
  | spend pos0 =>
    exact ⟨df, hl.remove pos0, hsz⟩

/-- **a whole import sequence preserves the in-unit reference invariant** -/
theorem import_run_live (hf : HashFn Bytes H) (f : Nat → Bytes) : ∀ (ops : List IOp) (s : PM H × Nat)
    (df : AOF Bytes), Live s.1.b.fixPF s.2 (refHash hf f) (refData f) df → s.1.size = mmr s.2 →
    IValid hf f s ops →
    ∃ df', Live (ops.foldl (istep hf f) s).1.b.fixPF (ops.foldl (istep hf f) s).2 (refHash hf f)
        (refData f) df' ∧ (ops.foldl (istep hf f) s).1.size = mmr (ops.foldl (istep hf f) s).2 := by
  intro ops
  induction ops with
  | nil => intro s df hl hsz _; exact ⟨df, hl, hsz⟩
  | cons op ops ih =>
    intro s df hl hsz hv
    obtain ⟨df', hl', hsz'⟩ := import_step_live hf f s df hl hsz op hv.1
    exact ih _ df' hl' hsz' hv.2

end GV.Store
