import GrinVerif.Lemmas.SegHonest
/-! `SegmentProof::generate` followed by `SegmentProof::reconstruct_root`: the proof a node
generates re-bags the segment root (or the first unpruned parent) to the MMR root.  Generic part:
any view that holds the sibling hashes of the family branch and the peak hashes.  Core Lean only. -/
namespace GV.Seg
open GV GV.Pmmr

variable {α H : Type}

theorem bagLeft_map (hf : HashFn α H) (S : Nat) (hp : Nat → H) : ∀ (ps : List Nat) (root : H)
    (rest : List H),
    bagLeft hf S root (ps.map hp ++ rest) ps
      = .ok (ps.foldl (fun acc p => hf.node S (hp p) acc) root, rest) := by
  intro ps
  induction ps with
  | nil => intro root rest; simp [bagLeft]
  | cons p ps ih =>
    intro root rest
    simp only [List.map_cons, List.cons_append, bagLeft, List.foldl_cons]
    exact ih _ rest

theorem filterMap_eq_map (get : Nat → Option H) (g : Nat → H) : ∀ (ps : List Nat),
    (∀ p ∈ ps, get p = some (g p)) → ps.filterMap get = ps.map g := by
  intro ps
  induction ps with
  | nil => intro _; rfl
  | cons p ps ih =>
    intro h
    simp only [List.filterMap_cons, h p (List.mem_cons_self ..), List.map_cons,
      ih (fun q hq => h q (List.mem_cons_of_mem _ hq))]

/-- **generate then reconstruct.**  `upos` is the unpruned position the segment root belongs to
(`1 + last` for a segment with a root of its own, `start_pos` for a completely pruned one). -/
theorem generate_reconstruct (hf : HashFn α H) (v : View α H) (S first0 last0 upos : Nat)
    (startPos : Option Nat) (segRoot pkHash : H) (hp : Nat → H) (sibs : List H)
    (hsize : v.size = S)
    (hst : (match startPos with
        | some s => (familyBranch last0 S).filter (fun x => decide (x.1 ≥ s))
        | none => familyBranch last0 S) = branchFrom last0 S upos)
    (hsib : collectHashes v.hash ((branchFrom last0 S upos).map (·.2)) = .ok sibs)
    (hclimb : ∀ rest, climb hf segRoot (sibs ++ rest) (branchFrom last0 S upos) = .ok (pkHash, rest))
    (hR : ∀ p ∈ (peaks S).filter (· > branchPeak last0 S), v.fromFile p = some (hp p))
    (hL : ∀ p ∈ (peaks S).filter (· < first0), v.hash p = some (hp p)) :
    ∃ proof, generate hf v (1 + first0) (1 + last0) startPos = .ok proof ∧
      reconstructRoot hf proof S first0 last0 segRoot upos =
        .ok ((((peaks S).filter (· < first0)).map hp).foldr (fun x acc => hf.node S x acc)
          (bagOnto hf S pkHash (bag hf S (((peaks S).filter (· > branchPeak last0 S)).map hp))), []) := by
  have hleft : (peaks S).filter (fun x => decide (1 + x < 1 + first0)) = (peaks S).filter (· < first0) := by
    apply List.filter_congr
    intro x _
    simp only [decide_eq_decide]
    omega
  have hcl : collectHashes v.hash ((peaks S).filter (· < first0)).reverse
      = .ok (((peaks S).filter (· < first0)).reverse.map hp) :=
    collectHashes_map v.hash hp _ (fun p hpm => hL p (List.mem_reverse.1 hpm))
  have hrhs : bagTheRhs hf v (branchPeak last0 S)
      = bag hf S (((peaks S).filter (· > branchPeak last0 S)).map hp) := by
    unfold bagTheRhs
    rw [hsize, filterMap_eq_map v.fromFile hp _ hR]
  have e1 : 1 + last0 - 1 = last0 := by omega
  unfold generate reconstructRoot
  cases startPos
  all_goals
    simp only [] at hst
    simp only [filter_const_true, hsize, e1, hst, hsib, hrhs, hleft, hcl]
    cases hRp : (peaks S).filter (· > branchPeak last0 S) with
    | nil =>
      simp only [List.map_nil, bag, List.head?_nil, bagOnto_none]
      refine ⟨_, rfl, ?_⟩
      rw [hclimb]
      simp only
      have := bagLeft_map hf S hp ((peaks S).filter (· < first0)).reverse pkHash []
      rw [List.append_nil] at this
      rw [this, List.foldl_reverse, List.foldr_map]
    | cons r0 Rp =>
      simp only [List.map_cons, bag_cons_match, List.head?_cons, bagOnto_some]
      refine ⟨_, rfl, ?_⟩
      rw [List.append_assoc, hclimb]
      simp only [List.singleton_append]
      have := bagLeft_map hf S hp ((peaks S).filter (· < first0)).reverse
        (hf.node S pkHash (bagOnto hf S (hp r0) (bag hf S (Rp.map hp)))) []
      rw [List.append_nil] at this
      rw [this, List.foldl_reverse, List.foldr_map]

end GV.Seg
