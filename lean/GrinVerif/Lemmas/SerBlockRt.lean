import GrinVerif.Lemmas.SerBodyRt
/-! Round-trip lemmas for `ProofOfWork`, `BlockHeader`, `Block`, `CompactBlock`, `Tip`, relative to
the round trip of the packed `Proof` (hypothesis `ProofRT`, discharged in `Lemmas/SerProofRt.lean`). -/
namespace GV.Ser
open GV

/-- the packed-proof round trip for one proof value -/
def ProofRT (c : Cfg) (p : Proof) : Prop :=
  ∀ rest, decProof c (encProof c.proofSize .full p ++ rest) = .ok (p, rest)

theorem decProofOfWork_enc (c : Cfg) (p : ProofOfWork) (h : p.WF c.proofSize) (hp : ProofRT c p.proof)
    (rest : Bytes) :
    decProofOfWork c (encProofOfWork c.proofSize .full p ++ rest) = .ok (p, rest) := by
  obtain ⟨h1, h2, h3, _⟩ := h
  rw [decProofOfWork, encProofOfWork]
  simp only [reduceCtorEq, ↓reduceIte, List.append_assoc]
  rw [readU64_write _ h1, andThen_ok, readU32_write _ h2, andThen_ok, readU64_write _ h3, andThen_ok,
    hp rest, andThen_ok]

theorem ts_bounds : -(2^63 : Int) ≤ TS_MIN ∧ TS_MAX < (2^63 : Int) := by
  unfold TS_MIN TS_MAX; omega

theorem decBlockHeader_enc (c : Cfg) (h : BlockHeader) (hwf : h.WF c.proofSize) (hp : ProofRT c h.pow.proof)
    (rest : Bytes) :
    decBlockHeader c (encBlockHeader c.proofSize .full h ++ rest) = .ok (h, rest) := by
  obtain ⟨hv, hh, ht1, ht2, l1, l2, l3, l4, l5, l6, ho, hk, hpow⟩ := hwf
  have hts := ts_bounds
  have hpw := decProofOfWork_enc c h.pow hpow hp rest
  have hti : ¬ (h.timestamp > TS_MAX ∨ h.timestamp < TS_MIN) := by omega
  rw [decBlockHeader, encBlockHeader]
  simp only [reduceCtorEq, ↓reduceIte, encHeaderPrePow, List.append_assoc]
  rw [readU16_write _ hv, andThen_ok, readU64_write _ hh, andThen_ok,
    readI64_write _ (by omega) (by omega), andThen_ok,
    decHash_write _ l1, andThen_ok, decHash_write _ l2, andThen_ok, decHash_write _ l3, andThen_ok,
    decHash_write _ l4, andThen_ok, decHash_write _ l5, andThen_ok, decBlind_write _ l6, andThen_ok,
    readU64_write _ ho, andThen_ok, readU64_write _ hk, andThen_ok, hpw, andThen_ok, if_neg hti]

/-- a timestamp outside chrono's date range is refused even though everything else is valid -/
theorem decBlockHeader_timestamp_range (c : Cfg) (h : BlockHeader)
    (hv : h.version < 2^16) (hh : h.height < 2^64)
    (hi1 : -(2^63 : Int) ≤ h.timestamp) (hi2 : h.timestamp < (2^63 : Int))
    (hbad : h.timestamp > TS_MAX ∨ h.timestamp < TS_MIN)
    (l1 : h.prevHash.length = HASH_SIZE) (l2 : h.prevRoot.length = HASH_SIZE)
    (l3 : h.outputRoot.length = HASH_SIZE) (l4 : h.rangeProofRoot.length = HASH_SIZE)
    (l5 : h.kernelRoot.length = HASH_SIZE) (l6 : h.totalKernelOffset.length = BLIND_SIZE)
    (ho : h.outputMmrSize < 2^64) (hk : h.kernelMmrSize < 2^64)
    (hpow : h.pow.WF c.proofSize) (hp : ProofRT c h.pow.proof) (rest : Bytes) :
    decBlockHeader c (encBlockHeader c.proofSize .full h ++ rest) = .error .corrupted := by
  have hpw := decProofOfWork_enc c h.pow hpow hp rest
  rw [decBlockHeader, encBlockHeader]
  simp only [reduceCtorEq, ↓reduceIte, encHeaderPrePow, List.append_assoc]
  rw [readU16_write _ hv, andThen_ok, readU64_write _ hh, andThen_ok,
    readI64_write _ hi1 hi2, andThen_ok,
    decHash_write _ l1, andThen_ok, decHash_write _ l2, andThen_ok, decHash_write _ l3, andThen_ok,
    decHash_write _ l4, andThen_ok, decHash_write _ l5, andThen_ok, decBlind_write _ l6, andThen_ok,
    readU64_write _ ho, andThen_ok, readU64_write _ hk, andThen_ok, hpw, andThen_ok, if_pos hbad]

theorem decBlock_enc (c : Cfg) (b : Block) (bs : Bytes)
    (henc : encBlock c.key c.proofSize c.ver .full b = .ok bs) (hwf : b.WF c)
    (hp : ProofRT c b.header.pow.proof) (rest : Bytes) :
    decBlock c (bs ++ rest) = .ok (b.norm c, rest) := by
  obtain ⟨hh, hb⟩ := hwf
  unfold encBlock at henc
  simp only [reduceCtorEq, ↓reduceIte] at henc
  cases hbb : encTxBody c.key c.ver .full b.body with
  | error e => rw [hbb] at henc; simp at henc
  | ok bb =>
    rw [hbb] at henc
    simp only [Except.ok.injEq] at henc
    subst henc
    rw [decBlock, List.append_assoc, decBlockHeader_enc c b.header hh hp, andThen_ok,
      decTxBody_enc c b.body bb hbb hb rest, andThen_ok]
    rfl

theorem encBlock_norm (c : Cfg) (b : Block) (hwf : b.WF c) :
    encBlock c.key c.proofSize c.ver .full (b.norm c) = encBlock c.key c.proofSize c.ver .full b := by
  simp only [encBlock, Block.norm, encTxBody_norm c b.body hwf.2]

theorem shortIdCap : SHORT_ID_SIZE ≤ MAX_FIXED_READ := by decide

theorem decShortId_enc (s : Bytes) (h : s.length = SHORT_ID_SIZE) (rest : Bytes) :
    decShortId (encShortId s ++ rest) = .ok (s, rest) := readFixed_write s _ h shortIdCap rest

theorem decCompactBody_enc (c : Cfg) (b : CompactBlockBody) (hwf : b.WF c) (rest : Bytes) :
    decCompactBody c (encCompactBody c.ver .full b ++ rest) = .ok (b, rest) := by
  obtain ⟨hout, houts, hker, hkers, hid, hids, hco, hck, hci⟩ := hwf
  obtain ⟨l1, l2, l3⟩ := weight_counts_lt _ _ _ hco hck hci
  have houtrt := readMulti_write decOutput encOutput b.outFull hco
    (fun x hx rest => decOutput_enc x (hout x hx) rest)
    (writeMulti (encTxKernel c.ver .full) b.kernFull ++ (writeMulti encShortId b.kernIds ++ rest))
  have hkerrt := readMulti_write (decTxKernel c) (encTxKernel c.ver .full) b.kernFull hck
    (fun x hx rest => decTxKernel_enc c x (hker x hx) rest) (writeMulti encShortId b.kernIds ++ rest)
  have hidrt := readMulti_write decShortId encShortId b.kernIds hci
    (fun x hx rest => decShortId_enc x (hid x hx) rest) rest
  have hsorted : CompactBlockBody.verifySorted c.key b = .ok () := by
    have h1 := (verifySortedUnique_iff _).mpr houts
    have h2 := (verifySortedUnique_iff _).mpr hkers
    have h3 := (verifySortedUnique_iff _).mpr hids
    simp only [CompactBlockBody.verifySorted, h1, h2, h3]
  rw [decCompactBody, encCompactBody]
  simp only [List.append_assoc]
  rw [readU64_write _ l1, andThen_ok, readU64_write _ l2, andThen_ok, readU64_write _ l3, andThen_ok,
    houtrt, andThen_ok, hkerrt, andThen_ok, hidrt, andThen_ok]
  simp only [hsorted]

theorem decCompactBlock_enc (c : Cfg) (b : CompactBlock) (hwf : b.WF c)
    (hp : ProofRT c b.header.pow.proof) (rest : Bytes) :
    decCompactBlock c (encCompactBlock c.proofSize c.ver .full b ++ rest) = .ok (b, rest) := by
  obtain ⟨hh, hn, hb⟩ := hwf
  rw [decCompactBlock, encCompactBlock]
  simp only [reduceCtorEq, ↓reduceIte, List.append_assoc]
  rw [decBlockHeader_enc c b.header hh hp, andThen_ok, readU64_write _ hn, andThen_ok,
    decCompactBody_enc c b.body hb rest, andThen_ok]

theorem decTip_enc (t : Tip) (hwf : t.WF) (rest : Bytes) : decTip (encTip t ++ rest) = .ok (t, rest) := by
  obtain ⟨h1, h2, h3, h4⟩ := hwf
  rw [decTip, encTip]
  simp only [List.append_assoc]
  rw [readU64_write _ h1, andThen_ok, decHash_write _ h2, andThen_ok, decHash_write _ h3, andThen_ok,
    readU64_write _ h4, andThen_ok]

end GV.Ser
