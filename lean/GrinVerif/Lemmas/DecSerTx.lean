import GrinVerif.Lemmas.DecSer
/-! Bounds, panic-freedom and progress of the instrumented decoders of the transaction objects
(`Model/DecSer.lean`: secp payloads, `KernelFeatures`, `TxKernel`, `Input`, `Output`, `RangeProof`,
`Inputs`, `TransactionBody`, `Transaction`) and of the read-time checks on the decoded value. -/
namespace GV.DecSer
open GV GV.Ser GV.Dec GV.Msg

/-! ### primitives -/

theorem readEmpty_len (n : Nat) : ∀ (bs r : Bytes), readEmpty n bs = .ok ((), r) → r.length + n = bs.length := by
  induction n with
  | zero => intro bs r h; simp only [readEmpty, Except.ok.injEq, Prod.mk.injEq, true_and] at h; rw [h]; rfl
  | succ n ih =>
    intro bs r h
    cases bs with
    | nil => simp [readEmpty, readU8] at h
    | cons b t =>
      simp only [readEmpty, readU8] at h
      split at h
      · simp at h
      · have := ih t r h; simp only [List.length_cons]; omega

theorem bnd_rEmpty (c n : Nat) : Bnd c 0 0 (rEmpty n) :=
  Bnd.lift (fun bs _ r h => by have := readEmpty_len n bs r h; omega) c
theorem noPanic_rEmpty (n : Nat) : NoPanic (rEmpty n) := NoPanic.lift _
theorem progW_rEmpty (n : Nat) : ProgW n (rEmpty n) := progW_lift (fun bs _ r h => readEmpty_len n bs r h)

theorem readI64_len {bs : Bytes} {a : Int} {r : Bytes} (h : readI64 bs = .ok (a, r)) : r.length + 8 = bs.length := by
  unfold readI64 at h
  cases h1 : readU64 bs with
  | error e => simp [h1] at h
  | ok p =>
    obtain ⟨u, r'⟩ := p
    simp only [h1, Except.ok.injEq, Prod.mk.injEq] at h
    have := readU64_len h1; rw [← h.2]; exact this

theorem bnd_rI64 (c : Nat) : Bnd c 0 0 rI64 := Bnd.lift (fun _ _ _ h => by have := readI64_len h; omega) c
theorem noPanic_rI64 : NoPanic rI64 := NoPanic.lift _

/-- `read_fixed_bytes(n)` into a `[u8; n]`: the slice / length-mismatch panic is unreachable -/
theorem bnd_rFixedArr (rd : Rdr) (n : Nat) : Bnd 1 0 (min n MAX_FIXED_READ) (rFixedArr rd n) :=
  (Bnd.bind (bnd_rFixed rd n) fun a =>
    Bnd.ite (a.length ≠ n) (Bnd.panic0 1 .index) (Bnd.pure 1 a)).mono (Nat.le_refl 1) (Nat.le_refl _) (by omega)

theorem noPanic_rFixedArr (rd : Rdr) (n : Nat) : NoPanic (rFixedArr rd n) :=
  NoPanic.bindQ (Q := fun a => a.length = n) (noPanic_rFixed rd n) (fun _ _ _ _ h => rFixed_ok_length h)
    (fun a ha => NoPanic.iteH (a.length ≠ n) (fun hne => absurd ha hne) (fun _ => NoPanic.pure a))

theorem progW_rFixedArr (rd : Rdr) (n : Nat) : ProgW n (rFixedArr rd n) :=
  (ProgW.bind (progW_rFixed rd n) fun a =>
    ProgW.ite (a.length ≠ n) (ProgW.panic 0 .index) (ProgW.pure a)).mono (by omega)

theorem rFixedArr_ok_length {rd : Rdr} {n : Nat} {bs a r : Bytes} {m : Nat}
    (h : rFixedArr rd n bs = .ok a r m) : a.length = n := by
  unfold rFixedArr at h
  obtain ⟨a', r1, n1, n2, h1, h2, _⟩ := bind_ok_inv h
  have := rFixed_ok_length h1
  split at h2
  · simp at h2
  · simp only [Outcome.ok.injEq] at h2; rw [← h2.1]; exact this

theorem bnd_rCommit (rd : Rdr) : Bnd 1 0 33 (rCommit rd) :=
  (bnd_rFixedArr rd COMMIT_SIZE).mono (Nat.le_refl 1) (Nat.le_refl _) (by decide)
theorem noPanic_rCommit (rd : Rdr) : NoPanic (rCommit rd) := noPanic_rFixedArr rd COMMIT_SIZE
theorem progW_rCommit (rd : Rdr) : ProgW 33 (rCommit rd) := progW_rFixedArr rd COMMIT_SIZE

theorem bnd_rSig (rd : Rdr) : Bnd 1 0 64 (rSig rd) :=
  (bnd_rFixedArr rd SIG_SIZE).mono (Nat.le_refl 1) (Nat.le_refl _) (by decide)
theorem noPanic_rSig (rd : Rdr) : NoPanic (rSig rd) := noPanic_rFixedArr rd SIG_SIZE
theorem progW_rSig (rd : Rdr) : ProgW 64 (rSig rd) := progW_rFixedArr rd SIG_SIZE

theorem bnd_rBlind (rd : Rdr) : Bnd 1 0 32 (rBlind rd) :=
  (bnd_rFixed rd BLIND_SIZE).mono (Nat.le_refl 1) (Nat.le_refl _) (by decide)
theorem noPanic_rBlind (rd : Rdr) : NoPanic (rBlind rd) := noPanic_rFixed rd BLIND_SIZE

theorem bnd_rShortId (rd : Rdr) : Bnd 1 0 6 (rShortId rd) :=
  (bnd_rFixedArr rd SHORT_ID_SIZE).mono (Nat.le_refl 1) (Nat.le_refl _) (by decide)
theorem noPanic_rShortId (rd : Rdr) : NoPanic (rShortId rd) := noPanic_rFixedArr rd SHORT_ID_SIZE
theorem progW_rShortId (rd : Rdr) : ProgW 6 (rShortId rd) := progW_rFixedArr rd SHORT_ID_SIZE

/-! ### `KernelFeatures`, `TxKernel` -/

theorem bnd_rNrdHeight (c : Nat) : Bnd c 0 0 rNrdHeight :=
  Bnd.bind (bnd_rU16 c) fun x =>
    Bnd.ite (NRD_MAX > 65535) (Bnd.panic0 c .unwrapErr)
      (Bnd.ite (x = 0 ∨ x > NRD_MAX) (Bnd.fail c .corrupted) (Bnd.pure c x))

/-- `WEEK_HEIGHT` fits in a `u16`: the `expect` cannot fail -/
theorem noPanic_rNrdHeight : NoPanic rNrdHeight :=
  NoPanic.bind noPanic_rU16 fun x =>
    NoPanic.iteH (NRD_MAX > 65535) (fun h => absurd h (by decide))
      (fun _ => NoPanic.ite (x = 0 ∨ x > NRD_MAX) (NoPanic.fail .corrupted) (NoPanic.pure x))

theorem bnd_rKernelFeaturesV1 (c : Nat) (nrd : Bool) : Bnd c 0 0 (rKernelFeaturesV1 nrd) :=
  Bnd.bind (bnd_rU8 c) fun fb =>
    Bnd.ite (fb = 0)
      (Bnd.bind (bnd_rU64 c) fun fee => Bnd.bind (bnd_rEmpty c 8) fun _ => Bnd.pure c (KernelFeatures.plain fee))
    (Bnd.ite (fb = 1) (Bnd.bind (bnd_rEmpty c 16) fun _ => Bnd.pure c KernelFeatures.coinbase)
    (Bnd.ite (fb = 2)
      (Bnd.bind (bnd_rU64 c) fun fee => Bnd.bind (bnd_rU64 c) fun lock =>
        Bnd.pure c (KernelFeatures.heightLocked fee lock))
    (Bnd.ite (fb = 3)
      (Bnd.ite (nrd = false) (Bnd.fail c .corrupted)
        (Bnd.bind (bnd_rU64 c) fun fee => Bnd.bind (bnd_rEmpty c 6) fun _ => Bnd.bind (bnd_rNrdHeight c) fun rel =>
          Bnd.pure c (KernelFeatures.noRecentDuplicate fee rel)))
      (Bnd.fail c .corrupted))))

theorem noPanic_rKernelFeaturesV1 (nrd : Bool) : NoPanic (rKernelFeaturesV1 nrd) :=
  NoPanic.bind noPanic_rU8 fun fb =>
    NoPanic.ite (fb = 0)
      (NoPanic.bind noPanic_rU64 fun fee => NoPanic.bind (noPanic_rEmpty 8) fun _ => NoPanic.pure (KernelFeatures.plain fee))
    (NoPanic.ite (fb = 1) (NoPanic.bind (noPanic_rEmpty 16) fun _ => NoPanic.pure KernelFeatures.coinbase)
    (NoPanic.ite (fb = 2)
      (NoPanic.bind noPanic_rU64 fun fee => NoPanic.bind noPanic_rU64 fun lock =>
        NoPanic.pure (KernelFeatures.heightLocked fee lock))
    (NoPanic.ite (fb = 3)
      (NoPanic.ite (nrd = false) (NoPanic.fail .corrupted)
        (NoPanic.bind noPanic_rU64 fun fee => NoPanic.bind (noPanic_rEmpty 6) fun _ => NoPanic.bind noPanic_rNrdHeight fun rel =>
          NoPanic.pure (KernelFeatures.noRecentDuplicate fee rel)))
      (NoPanic.fail .corrupted))))

theorem bnd_rKernelFeaturesV2 (c : Nat) (nrd : Bool) : Bnd c 0 0 (rKernelFeaturesV2 nrd) :=
  Bnd.bind (bnd_rU8 c) fun fb =>
    Bnd.ite (fb = 0) (Bnd.bind (bnd_rU64 c) fun fee => Bnd.pure c (KernelFeatures.plain fee))
    (Bnd.ite (fb = 1) (Bnd.pure c KernelFeatures.coinbase)
    (Bnd.ite (fb = 2)
      (Bnd.bind (bnd_rU64 c) fun fee => Bnd.bind (bnd_rU64 c) fun lock =>
        Bnd.pure c (KernelFeatures.heightLocked fee lock))
    (Bnd.ite (fb = 3)
      (Bnd.ite (nrd = false) (Bnd.fail c .corrupted)
        (Bnd.bind (bnd_rU64 c) fun fee => Bnd.bind (bnd_rNrdHeight c) fun rel =>
          Bnd.pure c (KernelFeatures.noRecentDuplicate fee rel)))
      (Bnd.fail c .corrupted))))

theorem noPanic_rKernelFeaturesV2 (nrd : Bool) : NoPanic (rKernelFeaturesV2 nrd) :=
  NoPanic.bind noPanic_rU8 fun fb =>
    NoPanic.ite (fb = 0) (NoPanic.bind noPanic_rU64 fun fee => NoPanic.pure (KernelFeatures.plain fee))
    (NoPanic.ite (fb = 1) (NoPanic.pure KernelFeatures.coinbase)
    (NoPanic.ite (fb = 2)
      (NoPanic.bind noPanic_rU64 fun fee => NoPanic.bind noPanic_rU64 fun lock =>
        NoPanic.pure (KernelFeatures.heightLocked fee lock))
    (NoPanic.ite (fb = 3)
      (NoPanic.ite (nrd = false) (NoPanic.fail .corrupted)
        (NoPanic.bind noPanic_rU64 fun fee => NoPanic.bind noPanic_rNrdHeight fun rel =>
          NoPanic.pure (KernelFeatures.noRecentDuplicate fee rel)))
      (NoPanic.fail .corrupted))))

theorem bnd_rKernelFeatures (c0 : Nat) (c : Cfg) : Bnd c0 0 0 (rKernelFeatures c) := by
  unfold rKernelFeatures
  split
  · exact bnd_rKernelFeaturesV1 c0 c.nrd
  · exact bnd_rKernelFeaturesV2 c0 c.nrd

theorem noPanic_rKernelFeatures (c : Cfg) : NoPanic (rKernelFeatures c) := by
  unfold rKernelFeatures
  split
  · exact noPanic_rKernelFeaturesV1 c.nrd
  · exact noPanic_rKernelFeaturesV2 c.nrd

theorem bnd_rTxKernel (rd : Rdr) (c : Cfg) : Bnd 1 0 64 (rTxKernel rd c) :=
  (Bnd.bind (bnd_rKernelFeatures 1 c) fun f =>
    Bnd.bind (bnd_rCommit rd) fun ex =>
    Bnd.bind (bnd_rSig rd) fun sg => Bnd.pure 1 (TxKernel.mk f ex sg)).mono (Nat.le_refl 1) (by decide) (by decide)

theorem noPanic_rTxKernel (rd : Rdr) (c : Cfg) : NoPanic (rTxKernel rd c) :=
  NoPanic.bind (noPanic_rKernelFeatures c) fun f =>
    NoPanic.bind (noPanic_rCommit rd) fun ex =>
    NoPanic.bind (noPanic_rSig rd) fun sg => NoPanic.pure (TxKernel.mk f ex sg)

/-- a kernel takes at least 97 bytes (excess and signature), whatever the feature encoding -/
theorem progW_rTxKernel (rd : Rdr) (c : Cfg) : ProgW 97 (rTxKernel rd c) :=
  (ProgW.bind (Bnd.progW0 (bnd_rKernelFeatures 1 c)) fun f =>
    ProgW.bind (progW_rCommit rd) fun ex =>
    ProgW.bind (progW_rSig rd) fun sg => ProgW.pure (TxKernel.mk f ex sg)).mono (by omega)

/-! ### `OutputFeatures`, `Input`, `OutputIdentifier`, `RangeProof`, `Output` -/

theorem bnd_rOutputFeatures (c : Nat) : Bnd c 0 0 rOutputFeatures :=
  Bnd.bind (bnd_rU8 c) fun b =>
    Bnd.ite (b = 0) (Bnd.pure c OutputFeatures.plain)
      (Bnd.ite (b = 1) (Bnd.pure c OutputFeatures.coinbase) (Bnd.fail c .corrupted))

theorem noPanic_rOutputFeatures : NoPanic rOutputFeatures :=
  NoPanic.bind noPanic_rU8 fun b =>
    NoPanic.ite (b = 0) (NoPanic.pure OutputFeatures.plain)
      (NoPanic.ite (b = 1) (NoPanic.pure OutputFeatures.coinbase) (NoPanic.fail .corrupted))

theorem progW_rOutputFeatures : ProgW 1 rOutputFeatures :=
  ProgW.bind progW_rU8 fun b =>
    ProgW.ite (b = 0) (ProgW.pure OutputFeatures.plain)
      (ProgW.ite (b = 1) (ProgW.pure OutputFeatures.coinbase) (ProgW.fail 0 .corrupted))

theorem bnd_rInput (rd : Rdr) : Bnd 1 0 33 (rInput rd) :=
  (Bnd.bind (bnd_rOutputFeatures 1) fun f => Bnd.bind (bnd_rCommit rd) fun cm => Bnd.pure 1 (Input.mk f cm)).mono
    (Nat.le_refl 1) (by decide) (by decide)
theorem noPanic_rInput (rd : Rdr) : NoPanic (rInput rd) :=
  NoPanic.bind noPanic_rOutputFeatures fun f => NoPanic.bind (noPanic_rCommit rd) fun cm => NoPanic.pure (Input.mk f cm)
theorem progW_rInput (rd : Rdr) : ProgW 34 (rInput rd) :=
  (ProgW.bind progW_rOutputFeatures fun f => ProgW.bind (progW_rCommit rd) fun cm => ProgW.pure (Input.mk f cm)).mono
    (by omega)

theorem bnd_rOutputId (rd : Rdr) : Bnd 1 0 33 (rOutputId rd) :=
  (Bnd.bind (bnd_rOutputFeatures 1) fun f => Bnd.bind (bnd_rCommit rd) fun cm => Bnd.pure 1 (OutputId.mk f cm)).mono
    (Nat.le_refl 1) (by decide) (by decide)
theorem noPanic_rOutputId (rd : Rdr) : NoPanic (rOutputId rd) :=
  NoPanic.bind noPanic_rOutputFeatures fun f => NoPanic.bind (noPanic_rCommit rd) fun cm => NoPanic.pure (OutputId.mk f cm)
theorem progW_rOutputId (rd : Rdr) : ProgW 34 (rOutputId rd) :=
  (ProgW.bind progW_rOutputFeatures fun f => ProgW.bind (progW_rCommit rd) fun cm => ProgW.pure (OutputId.mk f cm)).mono
    (by omega)

/-- `RangeProof::read`: at most 675 bytes are requested whatever length is announced -/
theorem bnd_rRangeProof (rd : Rdr) : Bnd 1 0 675 (rRangeProof rd) :=
  (Bnd.bind (bnd_rU64 1) fun len =>
    (Bnd.bind (bnd_rFixed rd (min len MAX_PROOF_SIZE)) fun p =>
      Bnd.ite (p.length > MAX_PROOF_SIZE) (Bnd.panic0 1 .index)
        (Bnd.pure 1 (RangeProof.mk MAX_PROOF_SIZE (p ++ List.replicate (MAX_PROOF_SIZE - p.length) 0)))).mono
      (c' := 1) (k' := 0) (e' := 675) (Nat.le_refl 1) (by omega)
      (by have : MAX_PROOF_SIZE = 675 := rfl
          omega)).mono (Nat.le_refl 1) (by omega) (by omega)

/-- the copy into `[0; 675]` cannot overrun: `read_fixed_bytes(min(len, 675))` returns exactly that many bytes -/
theorem noPanic_rRangeProof (rd : Rdr) : NoPanic (rRangeProof rd) :=
  NoPanic.bind noPanic_rU64 fun len =>
    NoPanic.bindQ (Q := fun p : Bytes => p.length = min len MAX_PROOF_SIZE) (noPanic_rFixed rd _)
      (fun _ _ _ _ h => rFixed_ok_length h)
      (fun p hp => NoPanic.iteH (p.length > MAX_PROOF_SIZE) (fun h => by omega)
        (fun _ => NoPanic.pure (RangeProof.mk MAX_PROOF_SIZE (p ++ List.replicate (MAX_PROOF_SIZE - p.length) 0))))

theorem progW_rRangeProof (rd : Rdr) : ProgW 8 (rRangeProof rd) :=
  (ProgW.bind progW_rU64 fun len =>
    (ProgW.bind (progW_rFixed rd (min len MAX_PROOF_SIZE)) fun p =>
      ProgW.ite (p.length > MAX_PROOF_SIZE) (ProgW.panic 0 .index)
        (ProgW.pure (RangeProof.mk MAX_PROOF_SIZE (p ++ List.replicate (MAX_PROOF_SIZE - p.length) 0)))).mono
      (w' := 0) (by omega)).mono (by omega)

theorem bnd_rOutput (rd : Rdr) : Bnd 1 0 675 (rOutput rd) :=
  (Bnd.bind (bnd_rOutputId rd) fun i => Bnd.bind (bnd_rRangeProof rd) fun p => Bnd.pure 1 (Output.mk i p)).mono
    (Nat.le_refl 1) (by decide) (by decide)
theorem noPanic_rOutput (rd : Rdr) : NoPanic (rOutput rd) :=
  NoPanic.bind (noPanic_rOutputId rd) fun i => NoPanic.bind (noPanic_rRangeProof rd) fun p => NoPanic.pure (Output.mk i p)
/-- an output takes at least 42 bytes on the wire (features, commitment, proof length) — and 728 in memory -/
theorem progW_rOutput (rd : Rdr) : ProgW 42 (rOutput rd) :=
  (ProgW.bind (progW_rOutputId rd) fun i => ProgW.bind (progW_rRangeProof rd) fun p => ProgW.pure (Output.mk i p)).mono
    (by omega)

/-! ### `verify_sorted_and_unique`, `verify_cut_through`: the window indexing never panics -/

theorem sortedLoop_windows2_noPanic : ∀ (l : List Nat) (s : Site), sortedLoop (windows2 l) ≠ .panic s := by
  intro l
  induction l with
  | nil => intro s; simp [windows2, sortedLoop]
  | cons a t ih =>
    intro s
    cases t with
    | nil => simp [windows2, sortedLoop]
    | cons b r =>
      simp only [windows2, sortedLoop, List.getElem?_cons_zero, List.getElem?_cons_succ]
      split
      · simp
      · split
        · simp
        · exact ih s

theorem verifySortedP_noPanic (l : List Nat) (s : Site) : verifySortedP l ≠ .panic s :=
  sortedLoop_windows2_noPanic l s

theorem Chk.andThen_noPanic {a b : Chk} (ha : ∀ s, a ≠ .panic s) (hb : ∀ s, b ≠ .panic s) :
    ∀ s, a.andThen b ≠ .panic s := by
  intro s
  cases a with
  | ok => exact hb s
  | err e => simp [Chk.andThen]
  | panic s' => exact absurd rfl (ha s')

theorem bodyVerifySortedP_noPanic (key : Bytes → Nat) (b : TxBody) (s : Site) : bodyVerifySortedP key b ≠ .panic s :=
  Chk.andThen_noPanic (verifySortedP_noPanic _)
    (Chk.andThen_noPanic (verifySortedP_noPanic _) (verifySortedP_noPanic _)) s

theorem cutThroughLoop_windows2_noPanic : ∀ (l : List Bytes) (s : Site), cutThroughLoop (windows2 l) ≠ .panic s := by
  intro l
  induction l with
  | nil => intro s; simp [windows2, cutThroughLoop]
  | cons a t ih =>
    intro s
    cases t with
    | nil => simp [windows2, cutThroughLoop]
    | cons b r =>
      simp only [windows2, cutThroughLoop, List.getElem?_cons_zero, List.getElem?_cons_succ]
      split
      · simp
      · exact ih s

theorem BndS.corrupt {c k e : Nat} {μ : α → Nat} {p : Dec α} (ch : Chk) (hp : BndS c k e μ p) :
    BndS c k e μ (fun bs => ch.corrupt (p bs)) := by
  intro bs
  have := hp bs
  show OBndS _ _ _ _ _ (ch.corrupt (p bs))
  cases ch <;> simp [Chk.corrupt] <;> exact this

theorem BndS.pass {c k e : Nat} {μ : α → Nat} {p : Dec α} (ch : Chk) (hp : BndS c k e μ p) :
    BndS c k e μ (fun bs => ch.pass (p bs)) := by
  intro bs
  have := hp bs
  show OBndS _ _ _ _ _ (ch.pass (p bs))
  cases ch <;> simp [Chk.pass] <;> exact this

theorem NoPanic.corrupt {p : Dec α} (ch : Chk) (hc : ∀ s, ch ≠ .panic s) (hp : NoPanic p) :
    NoPanic (fun bs => ch.corrupt (p bs)) := by
  intro bs
  show (ch.corrupt (p bs)).isPanic = false
  cases ch with
  | ok => exact hp bs
  | err e => rfl
  | panic s => exact absurd rfl (hc s)

theorem NoPanic.pass {p : Dec α} (ch : Chk) (hc : ∀ s, ch ≠ .panic s) (hp : NoPanic p) :
    NoPanic (fun bs => ch.pass (p bs)) := by
  intro bs
  show (ch.pass (p bs)).isPanic = false
  cases ch with
  | ok => exact hp bs
  | err e => rfl
  | panic s => exact absurd rfl (hc s)

/-! ### `Inputs`, `TransactionBody`, `validate_read`, `Transaction` -/

/-- the coefficient of the body decoders: 1 (bytes read) + 92, where 92 · 42 ≥ 4 · 728 + 728 + 200
pays, per 42-byte output, for the pushed `Vec<Output>`, its `to_vec()` copy and the cut-through
temporaries -/
def CB : Nat := 93

/-- the credit a decoded body carries for `validate_read` -/
def νBody (b : TxBody) : Nat :=
  CUT_THROUGH_MEM * b.inputs.len + CUT_THROUGH_MEM * b.outputs.length + GROW * COMMIT_MEM * b.kernels.length

theorem bndS_rInputs (rd : Rdr) (ver ni : Nat) :
    BndS CB 0 33 (fun ins : Inputs => CUT_THROUGH_MEM * ins.len) (rInputs rd ver ni) :=
  BndS.ite (ver ≤ 2)
    ((BndS.bind (k2 := 0) (e2 := 0) (ν := fun ins : Inputs => CUT_THROUGH_MEM * ins.len)
      (bndS_readMulti (c0 := 1) (c1 := 92) (w := 34) (d := 234) (bnd_rInput rd) (progW_rInput rd) (by decide) ni)
      (fun l => (BndS.charge (BndS.pure CB (fun ins : Inputs => CUT_THROUGH_MEM * ins.len) (Inputs.featuresAndCommit l))
          (l.length * INPUT_MEM)).mono (Nat.le_refl _)
          (by simp only [Inputs.len, INPUT_MEM, CUT_THROUGH_MEM]; omega) (Nat.le_refl _) (fun _ => Nat.le_refl _))).mono
      (Nat.le_refl _) (Nat.le_refl _) (by decide) (fun _ => Nat.le_refl _))
    ((BndS.bind (k2 := 0) (e2 := 0) (ν := fun ins : Inputs => CUT_THROUGH_MEM * ins.len)
      (bndS_readMulti (c0 := 1) (c1 := 92) (w := 33) (d := 233) (bnd_rCommit rd) (progW_rCommit rd) (by decide) ni)
      (fun l => (BndS.charge (BndS.pure CB (fun ins : Inputs => CUT_THROUGH_MEM * ins.len) (Inputs.commitOnly l))
          (l.length * COMMIT_MEM)).mono (Nat.le_refl _)
          (by simp only [Inputs.len, COMMIT_MEM, CUT_THROUGH_MEM]; omega) (Nat.le_refl _) (fun _ => Nat.le_refl _))).mono
      (Nat.le_refl _) (Nat.le_refl _) (by decide) (fun _ => Nat.le_refl _))

theorem noPanic_rInputs (rd : Rdr) (ver ni : Nat) : NoPanic (rInputs rd ver ni) :=
  NoPanic.ite (ver ≤ 2)
    (NoPanic.bind (noPanic_readMulti (noPanic_rInput rd) INPUT_MEM ni) fun l =>
      NoPanic.charge (NoPanic.pure (Inputs.featuresAndCommit l)) _)
    (NoPanic.bind (noPanic_readMulti (noPanic_rCommit rd) COMMIT_MEM ni) fun l =>
      NoPanic.charge (NoPanic.pure (Inputs.commitOnly l)) _)

/-- `TransactionBody::read`: allocation ≤ 93 · consumed, plus one failed `read_fixed_bytes` (≤ 675);
the decoded body still carries the credit that `validate_read` spends -/
theorem bndS_rTxBody (rd : Rdr) (c : Cfg) : BndS CB 0 675 νBody (rTxBody rd c) :=
  (BndS.bind (k2 := 0) (Bnd.toBndS (bnd_rU64 CB)) fun ni =>
   BndS.bind (k2 := 0) (Bnd.toBndS (bnd_rU64 CB)) fun no =>
   BndS.bind (k2 := 0) (Bnd.toBndS (bnd_rU64 CB)) fun nk =>
   BndS.ite (weightByIok ni no nk > c.maxWeight)
     ((BndS.fail CB νBody .tooLarge).mono (Nat.le_refl _) (Nat.le_refl _) (Nat.zero_le 675) (fun _ => Nat.le_refl _))
     ((BndS.bind (k2 := 0) (bndS_rInputs rd c.ver ni) fun ins =>
       (BndS.bind (k2 := CUT_THROUGH_MEM * ins.len)
         (bndS_readMulti (c0 := 1) (c1 := 92) (w := 42) (d := 928) (bnd_rOutput rd) (progW_rOutput rd) (by decide) no)
         fun outs =>
         (BndS.bind (k2 := CUT_THROUGH_MEM * ins.len + 928 * outs.length)
           (bndS_readMulti (c0 := 1) (c1 := 92) (w := 97) (d := 260) (bnd_rTxKernel rd c) (progW_rTxKernel rd c)
             (by decide) nk)
           fun kers =>
           (BndS.charge (BndS.corrupt (bodyVerifySortedP c.key (TxBody.mk ins outs kers))
               (BndS.pure CB νBody (TxBody.mk ins outs kers)))
             (outs.length * OUTPUT_MEM + kers.length * KERNEL_MEM)).mono (Nat.le_refl _)
             (by simp only [νBody, OUTPUT_MEM, KERNEL_MEM, CUT_THROUGH_MEM, GROW, COMMIT_MEM]; omega)
             (Nat.le_refl _) (fun _ => Nat.le_refl _)).mono
           (e' := 675) (Nat.le_refl _) (by omega) (by decide) (fun _ => Nat.le_refl _)).mono
         (e' := 675) (Nat.le_refl _) (by omega) (by decide) (fun _ => Nat.le_refl _)).mono
       (e' := 675) (Nat.le_refl _) (Nat.le_refl _) (by decide) (fun _ => Nat.le_refl _))).mono
    (Nat.le_refl _) (by decide) (by decide) (fun _ => Nat.le_refl _)

theorem noPanic_rTxBody (rd : Rdr) (c : Cfg) : NoPanic (rTxBody rd c) :=
  NoPanic.bind noPanic_rU64 fun ni =>
  NoPanic.bind noPanic_rU64 fun no =>
  NoPanic.bind noPanic_rU64 fun nk =>
  NoPanic.ite (weightByIok ni no nk > c.maxWeight) (NoPanic.fail .tooLarge)
    (NoPanic.bind (noPanic_rInputs rd c.ver ni) fun ins =>
     NoPanic.bind (noPanic_readMulti (noPanic_rOutput rd) OUTPUT_MEM no) fun outs =>
     NoPanic.bind (noPanic_readMulti (noPanic_rTxKernel rd c) KERNEL_MEM nk) fun kers =>
       NoPanic.charge (NoPanic.corrupt _ (bodyVerifySortedP_noPanic c.key _)
         (NoPanic.pure (TxBody.mk ins outs kers))) _)

theorem filter_map_length_le {γ δ : Type} (l : List γ) (f : γ → Bool) (g : γ → δ) :
    ((l.filter f).map g).length ≤ l.length := by
  rw [List.length_map]; exact List.length_filter_le f l

/-- `validate_read` spends at most the credit of the body, and nothing else -/
theorem bndS_validateReadBody (c : Cfg) (maxW : Nat) (b : TxBody) :
    BndS CB (0 + νBody b) 0 (fun _ : Unit => 0) (validateReadBody c maxW b) := by
  have hn := filter_map_length_le b.kernels (·.features.isNrd) (·.excess)
  refine BndS.ite (b.weight > maxW)
    ((BndS.fail CB _ .corrupted).mono (Nat.le_refl _) (Nat.zero_le _) (Nat.le_refl _) (fun _ => Nat.le_refl _)) ?_
  refine (BndS.charge (k := CUT_THROUGH_MEM * (b.inputs.len + b.outputs.length)) (e := 0)
    (μ := fun _ : Unit => 0) ?_ _).mono (Nat.le_refl _) ?_ (Nat.le_refl _) (fun _ => Nat.le_refl _)
  · refine BndS.ite _
      ((BndS.fail CB _ .corrupted).mono (Nat.le_refl _) (Nat.zero_le _) (Nat.le_refl _) (fun _ => Nat.le_refl _)) ?_
    refine BndS.corrupt _ ?_
    have h := BndS.charge (BndS.corrupt
      (cutThroughLoop (windows2 (sortBytes (b.inputs.commits ++ b.outputs.map (·.id.commit)))))
      (BndS.pure CB (fun _ : Unit => 0) ())) (CUT_THROUGH_MEM * (b.inputs.len + b.outputs.length))
    exact h
  · simp only [νBody, GROW, COMMIT_MEM, CUT_THROUGH_MEM] at hn ⊢
    split <;> omega

theorem noPanic_validateReadBody (c : Cfg) (maxW : Nat) (b : TxBody) : NoPanic (validateReadBody c maxW b) :=
  NoPanic.ite (b.weight > maxW) (NoPanic.fail .corrupted)
    (NoPanic.charge
      (NoPanic.ite _ (NoPanic.fail .corrupted)
        (NoPanic.corrupt _ (bodyVerifySortedP_noPanic c.key b)
          (NoPanic.charge (NoPanic.corrupt _ (cutThroughLoop_windows2_noPanic _) (NoPanic.pure ())) _))) _)

theorem alloc_corrupt_le {β : Type} (ch : Chk) (k : Outcome β) : (ch.corrupt k).alloc ≤ k.alloc := by
  cases ch <;> simp [Chk.corrupt, Outcome.alloc]

theorem alloc_charge {β : Type} (n : Nat) (k : Outcome β) : (charge n k).alloc = n + k.alloc := by
  cases k <;> rfl

/-- `validate_read` requests at most the credit of the body, on every path -/
theorem validateReadBody_alloc (c : Cfg) (maxW : Nat) (b : TxBody) (rest : Bytes) :
    (validateReadBody c maxW b rest).alloc ≤ νBody b := by
  have hn := filter_map_length_le b.kernels (·.features.isNrd) (·.excess)
  unfold validateReadBody
  split
  · simp [Outcome.alloc]
  · simp only [alloc_charge]
    have h2 : ∀ (o : Outcome Unit), o.alloc ≤ CUT_THROUGH_MEM * (b.inputs.len + b.outputs.length) →
        (if c.nrd then GROW * COMMIT_MEM * ((b.kernels.filter (·.features.isNrd)).map (·.excess)).length else 0) + o.alloc
          ≤ νBody b := by
      intro o ho
      simp only [νBody, GROW, COMMIT_MEM, CUT_THROUGH_MEM] at hn ho ⊢
      split <;> omega
    apply h2
    split
    · simp [Outcome.alloc]
    · refine Nat.le_trans (alloc_corrupt_le _ _) ?_
      rw [alloc_charge]
      have := alloc_corrupt_le (cutThroughLoop (windows2 (sortBytes (b.inputs.commits ++ b.outputs.map (·.id.commit)))))
        (Outcome.ok () rest 0)
      simp only [Outcome.alloc] at this ⊢
      omega

theorem validateReadBody_rest (c : Cfg) (maxW : Nat) (b : TxBody) : ProgW 0 (validateReadBody c maxW b) :=
  Bnd.progW0 (bndS_validateReadBody c maxW b).toBnd

/-- `Transaction::read` -/
theorem bnd_rTransaction (rd : Rdr) (c : Cfg) : Bnd CB 0 675 (rTransaction rd c) :=
  ((BndS.bind (k2 := 0) (Bnd.toBndS ((bnd_rBlind rd).mono (by decide : 1 ≤ CB) (Nat.le_refl _) (Nat.le_refl _))) fun off =>
    BndS.bind (k2 := 0) (bndS_rTxBody rd c) fun body =>
    BndS.bind (k2 := 0) (bndS_validateReadBody c (maxTxWeight c.maxWeight) body) fun _ =>
      BndS.ite (body.verifyFeatures = true) (BndS.pure CB (fun _ : Transaction => 0) (Transaction.mk off body))
        (BndS.fail CB _ .corrupted)).mono
    (Nat.le_refl _) (by decide) (by decide) (fun _ => Nat.le_refl _)).toBnd

theorem noPanic_rTransaction (rd : Rdr) (c : Cfg) : NoPanic (rTransaction rd c) :=
  NoPanic.bind (noPanic_rBlind rd) fun off =>
    NoPanic.bind (noPanic_rTxBody rd c) fun body =>
    NoPanic.bind (noPanic_validateReadBody c (maxTxWeight c.maxWeight) body) fun _ =>
      NoPanic.ite (body.verifyFeatures = true) (NoPanic.pure (Transaction.mk off body)) (NoPanic.fail .corrupted)

end GV.DecSer
