import GrinVerif.Lemmas.SegTree
import GrinVerif.Lemmas.SegNoPanic
/-! Segments that carry no leaves, validated without a bitmap (`bitmap = None`: the kernel MMR and
the bitmap MMR are not prunable): the first position of the range is a leaf, its data is required
(`bitmap.map(..).unwrap_or(true)`), the shared leaf iterator is empty — `Segment::root` answers
`MissingLeaf(first)` before it looks at any hash or at the proof, and so do
`first_unpruned_parent`, `validate` and `validate_with`.  Core Lean only. -/
namespace GV.Seg
open GV GV.Pmmr

variable {α H : Type}

theorem zip_nil_of_no_leaves (s : Segment α H) (h : s.leafPos = [] ∨ s.leafData = []) :
    s.leafPos.zip s.leafData = [] := by
  rcases h with h | h <;> simp [h]

/-- the loop of `root` stops at a leading leaf position when there is no leaf to find -/
theorem rootLoop_leafless (hf : HashFn α H) (s : Segment α H) (size p : Nat) (ps : List Nat)
    (stk : List (Option H)) (hp : height p = 0) :
    rootLoop hf s none size (stk, []) (p :: ps) = .err (.missingLeaf p) := by
  simp [rootLoop, rootStep, hp, required, iterFind]

theorem rootWith_leafless (hf : HashFn α H) (s : Segment α H) (size p : Nat) (ps : List Nat)
    (full : Bool) (pks : List Nat) (hno : s.leafPos = [] ∨ s.leafData = []) (hp : height p = 0) :
    rootWith hf s size none (p :: ps) full pks = .err (.missingLeaf p) := by
  unfold rootWith
  rw [zip_nil_of_no_leaves s hno, rootLoop_leafless hf s size p ps [] hp]

/-- an empty position range: `root` answers `NonExistent` (full or not, bitmap or not) -/
theorem rootWith_empty_range (hf : HashFn α H) (s : Segment α H) (size : Nat)
    (bm : Option (Nat → Bool)) (full : Bool) :
    rootWith hf s size bm [] full [] = .err .nonExistent := by
  cases full <;> simp [rootWith, rootLoop, rootFinish, bagPeaks]

theorem peaksIn_of_empty_range (id : Ident) (size : Nat) (h : id.positions size = []) :
    id.peaksIn size = [] := by
  unfold Ident.positions at h
  unfold Ident.peaksIn
  have hlen : (id.posRange size).2 + 1 - (id.posRange size).1 = 0 := by
    have := congrArg List.length h
    simpa using this
  rw [List.reverse_eq_nil_iff, List.filter_eq_nil_iff]
  intro p _
  simp only [Bool.and_eq_true, decide_eq_true_eq, not_and]
  omega

/-- all four calls on a segment without leaves, no bitmap, range starting with a leaf position -/
theorem leafless_no_bitmap (hf : HashFn α H) [DecidableEq H] (s : Segment α H) (size : Nat)
    (mmrRoot : H) (hlp : Nat) (other : H) (left : Bool) (p : Nat) (ps : List Nat)
    (hno : s.leafPos = [] ∨ s.leafData = []) (hex : s.id.unprunedSize size ≠ 0)
    (hpos : s.id.positions size = p :: ps) (hp : height p = 0) :
    s.root hf size none = .err (.missingLeaf p) ∧
    s.firstUnprunedParent hf size none = .err (.missingLeaf p) ∧
    s.validate hf size none mmrRoot = .err (.missingLeaf p) ∧
    s.validateWith hf size none mmrRoot hlp other left = .err (.missingLeaf p) := by
  have hr : s.root hf size none = .err (.missingLeaf p) := by
    rw [root_of_nonempty hf s size none hex, hpos]
    exact rootWith_leafless hf s size p ps _ _ hno hp
  have hf' : s.firstUnprunedParent hf size none = .err (.missingLeaf p) := by
    unfold Segment.firstUnprunedParent
    rw [hr]; rfl
  refine ⟨hr, hf', ?_, ?_⟩
  · unfold Segment.validate; rw [hf']; rfl
  · unfold Segment.validateWith; rw [hf']; rfl

/-- the range of a full segment starts at the leaf position `mmr (idx · 2^height)` -/
theorem full_positions_head (id : Ident) (size : Nat) (v : FullId id size) :
    ∃ ps, id.positions size = mmr (id.idx * 2 ^ id.height) :: ps ∧
      height (mmr (id.idx * 2 ^ id.height)) = 0 := by
  obtain ⟨_, _, _, hr⟩ := full_arith id size v
  have hlen : (id.positions size).length = 2 ^ (id.height + 1) - 1 := by
    rw [full_positions id size v]; simp [treeRange]
  have hpow : 0 < 2 ^ id.height := Nat.pow_pos (by omega)
  have h2 : 2 ^ (id.height + 1) = 2 * 2 ^ id.height := by rw [Nat.pow_succ]; omega
  have hpos : id.positions size =
      List.range' (mmr (id.idx * 2 ^ id.height)) (lastOf id + 1 - mmr (id.idx * 2 ^ id.height)) := by
    unfold Ident.positions; rw [hr]
  rw [hpos, List.length_range'] at hlen
  have hne : lastOf id + 1 - mmr (id.idx * 2 ^ id.height) =
      (lastOf id + 1 - mmr (id.idx * 2 ^ id.height) - 1) + 1 := by omega
  refine ⟨List.range' (mmr (id.idx * 2 ^ id.height) + 1)
    (lastOf id + 1 - mmr (id.idx * 2 ^ id.height) - 1), ?_, ?_⟩
  · rw [hpos]
    conv => lhs; rw [hne]
    rw [List.range'_succ]
  · have := GV.Props.C07.height_coord (id.idx * 2 ^ id.height) 0 (Nat.zero_le _)
    simpa using this

end GV.Seg
