import GrinVerif.Lemmas.ChainOrder
/-! Nodes that agree on the best-chain core (definitions, head, block store) behave alike
(C06): the header gate, one processing step. -/
namespace GV.Chain

/-- agreement on definitions, head and block store -/
structure CoreEq (a b : Node) : Prop where
  outs : a.outs = b.outs
  blks : a.blks = b.blks
  head : a.head = b.head
  stored : a.stored = b.stored

theorem CoreEq.refl (a : Node) : CoreEq a a := ⟨rfl, rfl, rfl, rfl⟩
theorem CoreEq.symm {a b : Node} (h : CoreEq a b) : CoreEq b a :=
  ⟨h.outs.symm, h.blks.symm, h.head.symm, h.stored.symm⟩
theorem CoreEq.trans {a b c : Node} (h : CoreEq a b) (g : CoreEq b c) : CoreEq a c :=
  ⟨h.outs.trans g.outs, h.blks.trans g.blks, h.head.trans g.head, h.stored.trans g.stored⟩

theorem CoreEq.of_header {p : Params} {n n1 : Node} {b : Blk} (h : processHeader p n b = .ok n1) :
    CoreEq n1 n := by
  have hf := processHeader_frame p n n1 b h
  exact ⟨hf.2.2.2.2, hf.2.2.1, hf.1, hf.2.1⟩

/-- the best-chain observation: head, stored blocks, reported unspent set -/
def obsBest (p : Params) (n : Node) : Nat × List Nat × List Nat := (n.head, n.stored, n.reportedUtxo p)

theorem CoreEq.obsBest {a b : Node} (h : CoreEq a b) (p : Params) : obsBest p a = obsBest p b := by
  simp [GV.Chain.obsBest, h.head, h.stored, reportedUtxo_congr h.blks h.head p]

theorem precheck_congr {a b : Node} (h : CoreEq a b) (blk : Blk) : precheck a blk = precheck b blk := by
  simp [precheck, h.head, h.stored, workOf_congr h.blks, parentOf_congr h.blks, heightOf_congr h.blks]

theorem storeBlock_congr {a b : Node} (h : CoreEq a b) (blk : Blk) :
    CoreEq (storeBlock a blk).1 (storeBlock b blk).1 ∧ (storeBlock a blk).2 = (storeBlock b blk).2 := by
  have e : a.workOf a.head = b.workOf b.head := by rw [workOf_congr h.blks, h.head]
  have hs : a.stored ++ [blk.id] = b.stored ++ [blk.id] := by rw [h.stored]
  unfold storeBlock
  rw [e]
  split
  · exact ⟨⟨h.outs, h.blks, rfl, hs⟩, rfl⟩
  · exact ⟨⟨h.outs, h.blks, h.head, hs⟩, rfl⟩

theorem validateHeader_congr {a b : Node} (p : Params) (hb : a.blks = b.blks) (blk : Blk)
    (hp : ∀ par, blk.parent = some par → (par ∈ a.headers ↔ par ∈ b.headers)) :
    validateHeader p a blk = validateHeader p b blk := by
  unfold validateHeader
  cases hpar : blk.parent with
  | none => rfl
  | some par =>
    have := hp par hpar
    simp only [List.contains_eq_mem, this, heightOf_congr hb, blk_congr hb]

/-- the error of the header gate as a function: `none` = the gate lets the block through -/
def gateErr (p : Params) (n : Node) (b : Blk) : Option Err :=
  if KnownFull n b then none else
  match b.parent with
  | none => some "StoreErr"
  | some par => if par ∈ n.headers then validateHeader p n b else some "StoreErr"

theorem gateErr_congr {a b : Node} (p : Params) (h : CoreEq a b) (blk : Blk)
    (hp : ∀ par, blk.parent = some par → (par ∈ a.headers ↔ par ∈ b.headers)) :
    gateErr p a blk = gateErr p b blk := by
  unfold gateErr
  rw [validateHeader_congr p h.blks blk hp]
  have hk : KnownFull a blk ↔ KnownFull b blk := KnownFull_congr h.blks h.head h.stored blk
  by_cases hka : KnownFull a blk
  · rw [if_pos hka, if_pos (hk.mp hka)]
  · rw [if_neg hka, if_neg (fun x => hka (hk.mpr x))]
    cases hpar : blk.parent with
    | none => rfl
    | some par => simp only [hp par hpar]

/-- under the store invariant the header gate is exactly `gateErr` -/
theorem processHeader_gateErr (p : Params) (n : Node) (b : Blk) (hb : n.blk b.id = some b)
    (hi : StoreInv p n) :
    (∀ e, gateErr p n b = some e → processHeader p n b = .error e) ∧
    (gateErr p n b = none → ∃ n1, processHeader p n b = .ok n1) := by
  unfold gateErr
  by_cases hk : KnownFull n b
  · rw [if_pos hk]
    exact ⟨fun e h => (by cases h), fun _ => ⟨n, processHeader_known p n b hk⟩⟩
  · rw [if_neg hk]
    have hkb : ¬ ((b.id == n.head) = true ∨ (some b.id == n.parentOf n.head) = true ∨
        n.stored.contains b.id = true) := by
      unfold KnownFull at hk; simpa using hk
    cases hpar : b.parent with
    | none =>
      refine ⟨fun e h => ?_, fun h => by cases h⟩
      cases h
      unfold processHeader
      rw [if_neg hkb]
      simp only [hpar]
    | some par =>
      by_cases hm : par ∈ n.headers
      · simp only [hm, if_true]
        refine ⟨fun e h => ?_, fun h => ?_⟩
        · -- the header is invalid: it cannot be a known header (those are valid)
          have hnk : b.id ∉ n.headers := by
            intro hin
            rcases hi.hdr.valid b.id hin with h0 | ⟨b', par', hb', hv', hp', hm'⟩
            · exact hk (Or.inr (Or.inr (h0 ▸ hi.closed.zero)))
            · rw [hb] at hb'; cases hb'
              have := (validateHeader_none_iff p n b).mpr ⟨hv', par', hp', hm'⟩
              rw [this] at h; cases h
          unfold processHeader
          rw [if_neg hkb]
          simp only [hpar]
          rw [if_neg (by simpa using hm)]
          rw [if_neg (by
            intro hc
            exact hnk (by simpa using hc.1))]
          simp only [h]
        · rcases processHeader_valid p n b hk par hpar hm h with h | h
          · exact ⟨_, h⟩
          · exact ⟨_, h⟩
      · simp only [hm, if_false]
        refine ⟨fun e h => ?_, fun h => by cases h⟩
        cases h
        unfold processHeader
        rw [if_neg hkb]
        simp only [hpar]
        rw [if_pos (by simpa using hm)]

/-- **one step on two nodes with the same core**: same result, same core afterwards.
Both nodes must satisfy the store invariant (known headers are valid ones — true along every run
from a fresh node) and agree on whether the block's parent header is known. -/
theorem processBlockSingle_coreEq (p : Params) (a c : Node) (b : Blk) (h : CoreEq a c)
    (hb : a.blk b.id = some b) (hia : StoreInv p a) (hic : StoreInv p c)
    (hp : ∀ par, b.parent = some par → (par ∈ a.headers ↔ par ∈ c.headers)) :
    CoreEq (processBlockSingle p a b).1 (processBlockSingle p c b).1 ∧
    (processBlockSingle p a b).2 = (processBlockSingle p c b).2 := by
  have hbc : c.blk b.id = some b := by rw [← blk_congr h.blks]; exact hb
  have hg := gateErr_congr p h b hp
  cases hga : gateErr p a b with
  | some e =>
    have h1 := (processHeader_gateErr p a b hb hia).1 e hga
    have h2 := (processHeader_gateErr p c b hbc hic).1 e (hg ▸ hga)
    simp only [processBlockSingle, h1, h2]
    exact ⟨h, trivial⟩
  | none =>
    obtain ⟨a1, h1⟩ := (processHeader_gateErr p a b hb hia).2 hga
    obtain ⟨c1, h2⟩ := (processHeader_gateErr p c b hbc hic).2 (hg ▸ hga)
    have hc1 : CoreEq a1 c1 := (CoreEq.of_header h1).trans (h.trans (CoreEq.of_header h2).symm)
    rw [processBlockSingle_header_ok h1, processBlockSingle_header_ok h2, precheck_congr hc1 b]
    cases hpre : precheck c1 b with
    | reject e => exact ⟨hc1, rfl⟩
    | orphan => exact ⟨⟨hc1.outs, hc1.blks, hc1.head, hc1.stored⟩, rfl⟩
    | go par =>
      simp only
      rw [checkBlock_congr hc1.outs hc1.blks p b par]
      cases checkBlock p c1 b par with
      | error e => exact ⟨hc1, rfl⟩
      | ok s' => exact storeBlock_congr hc1 b

end GV.Chain
