import GrinVerif.Lemmas.DecBound
import GrinVerif.Model.Msg
/-! Allocation bounds, panic-freedom and progress of the p2p message decoders (`Model/Msg.lean`),
assembled with the calculus of `Lemmas/DecBound.lean`. -/
namespace GV.Msg
open GV GV.Ser GV.Dec GV.Gen.Msg

/-! ### `MsgHeaderWrapper::read` -/

theorem bnd_decHeader (c : NetCfg) : Bnd 1 0 0 (decHeader c) :=
  Bnd.bind (bnd_rExpectU8 1 c.magic.1) fun _ =>
    Bnd.bind (bnd_rExpectU8 1 c.magic.2) fun _ =>
    Bnd.bind (bnd_rU8 1) fun t =>
    Bnd.bind (bnd_rU64 1) fun len =>
      Bnd.ite (len > maxLen c t) (Bnd.fail 1 .tooLarge)
        (Bnd.ite (isKnownType t = true) (Bnd.pure 1 (HdrW.known t len)) (Bnd.pure 1 (HdrW.unknown len t)))

theorem noPanic_decHeader (c : NetCfg) : NoPanic (decHeader c) :=
  NoPanic.bind (noPanic_rExpectU8 c.magic.1) fun _ =>
    NoPanic.bind (noPanic_rExpectU8 c.magic.2) fun _ =>
    NoPanic.bind noPanic_rU8 fun t =>
    NoPanic.bind noPanic_rU64 fun len =>
      NoPanic.ite (len > maxLen c t) (NoPanic.fail .tooLarge)
        (NoPanic.ite (isKnownType t = true) (NoPanic.pure (HdrW.known t len)) (NoPanic.pure (HdrW.unknown len t)))

/-! ### `PeerAddr` -/

theorem rFixed_ok_length {rd : Rdr} {len : Nat} {bs x r : Bytes} {n : Nat}
    (h : rFixed rd len bs = .ok x r n) : x.length = len := by
  unfold rFixed at h
  split at h
  · simp at h
  · cases hs : splitExact len bs with
    | none => simp [hs] at h
    | some p =>
      obtain ⟨x', r'⟩ := p
      simp only [hs, Outcome.ok.injEq] at h
      rw [← h.1]; exact (splitExact_len hs).1

/-- the tail of the V4 branch, as a `Dec` in the rest after the 4 octets -/
def v4Tail (ip : Bytes) : Dec PeerAddr := fun r =>
  bind (rU16 r) fun port r => if ip.length ≠ 4 then .panic .index 0 else .ok (.v4 ip port) r 0

def v6Tail (segs : List Nat) : Dec PeerAddr := fun r =>
  if segs.length ≠ 8 then .panic .index 0 else
  bind (rU16 r) fun port r => .ok (v6Result segs port) r 0

theorem decPeerAddr_eq (rd : Rdr) : decPeerAddr rd = fun bs =>
    bind (rU8 bs) fun tag r =>
      if tag = 0 then bind (rFixed rd 4 r) v4Tail
      else if tag = 1 then bind (readN rU16 8 r) v6Tail else .err .corrupted 0 := rfl

theorem bnd_v4Tail (ip : Bytes) : Bnd 1 0 0 (v4Tail ip) :=
  Bnd.bind (bnd_rU16 1) fun port =>
    Bnd.ite (ip.length ≠ 4) (Bnd.panic0 1 .index) (Bnd.pure 1 (PeerAddr.v4 ip port))

theorem bnd_v6Tail (segs : List Nat) : Bnd 1 0 0 (v6Tail segs) :=
  Bnd.ite (segs.length ≠ 8) (Bnd.panic0 1 .index)
    (Bnd.bind (bnd_rU16 1) fun port => Bnd.pure 1 (v6Result segs port))

theorem bnd_decPeerAddr (rd : Rdr) : Bnd 1 0 4 (decPeerAddr rd) := by
  rw [decPeerAddr_eq]
  have h := Bnd.bind (bnd_rU8 1) fun tag =>
    Bnd.ite (tag = 0)
      ((Bnd.bind (bnd_rFixed rd 4) bnd_v4Tail).mono (Nat.le_refl 1) (Nat.le_refl _) (Nat.le_refl _))
      (Bnd.ite (tag = 1)
        ((Bnd.bind (Bnd.readN (bnd_rU16 1) 8) bnd_v6Tail).mono (Nat.le_refl 1) (Nat.le_refl _)
          (by decide : max 0 0 ≤ max (min 4 MAX_FIXED_READ) 0))
        ((Bnd.fail 1 .corrupted).mono (Nat.le_refl 1) (Nat.le_refl _) (Nat.zero_le _)))
  exact h

/-- in the V4 branch the index panic is unreachable: `read_fixed_bytes(4)` returns 4 bytes -/
theorem noPanic_decPeerAddr (rd : Rdr) : NoPanic (decPeerAddr rd) := by
  intro bs
  rw [decPeerAddr_eq]
  show (bind (rU8 bs) _).isPanic = false
  cases h0 : rU8 bs with
  | err e n => rfl
  | panic s n => have := noPanic_rU8 bs; simp [h0, Outcome.isPanic] at this
  | ok tag r n =>
    simp only [GV.Dec.bind]
    by_cases ht : tag = 0
    · rw [if_pos ht]
      cases h1 : rFixed rd 4 r with
      | err e m => rfl
      | panic s m => have := noPanic_rFixed rd 4 r; simp [h1, Outcome.isPanic] at this
      | ok ip r1 m =>
        have hl := rFixed_ok_length h1
        simp only [GV.Dec.bind, v4Tail]
        cases h2 : rU16 r1 with
        | err e k => rfl
        | panic s k => have := noPanic_rU16 r1; simp [h2, Outcome.isPanic] at this
        | ok port r2 k => simp [hl, Outcome.addAlloc, Outcome.isPanic]
    · rw [if_neg ht]
      by_cases ht1 : tag = 1
      · rw [if_pos ht1]
        cases h1 : readN rU16 8 r with
        | err e m => rfl
        | panic s m => have := NoPanic.readN noPanic_rU16 8 r; simp [h1, Outcome.isPanic] at this
        | ok segs r1 m =>
          have hl := readN_length 8 r segs r1 m h1
          simp only [GV.Dec.bind, v6Tail, hl]
          cases h2 : rU16 r1 with
          | err e k => rfl
          | panic s k => have := noPanic_rU16 r1; simp [h2, Outcome.isPanic] at this
          | ok port r2 k =>
            simp [Outcome.addAlloc, Outcome.isPanic]
      · rw [if_neg ht1]; rfl

theorem prog_decPeerAddr (rd : Rdr) : Prog (decPeerAddr rd) := by
  rw [decPeerAddr_eq]
  refine Prog.bind prog_rU8 ?_
  intro tag bs b r n h
  by_cases ht : tag = 0
  · rw [if_pos ht] at h
    exact (Bnd.bind (bnd_rFixed rd 4) bnd_v4Tail).rest_le h
  · rw [if_neg ht] at h
    by_cases ht1 : tag = 1
    · rw [if_pos ht1] at h
      exact (Bnd.bind (Bnd.readN (bnd_rU16 1) 8) bnd_v6Tail).rest_le h
    · rw [if_neg ht1] at h; simp at h

/-! ### strings, `Hand`, `Shake` -/

theorem bnd_decString (rd : Rdr) : Bnd 1 0 MAX_FIXED_READ (decString rd) :=
  Bnd.bind (bnd_rBytesLenPrefix rd) fun ua =>
    Bnd.ite (validUtf8 ua = true) (Bnd.pure 1 ua) (Bnd.fail 1 .corrupted)

theorem noPanic_decString (rd : Rdr) : NoPanic (decString rd) :=
  NoPanic.bind (noPanic_rBytesLenPrefix rd) fun ua =>
    NoPanic.ite (validUtf8 ua = true) (NoPanic.pure ua) (NoPanic.fail .corrupted)

theorem bnd_decHand (rd : Rdr) : Bnd 1 0 MAX_FIXED_READ (decHand rd) :=
  (Bnd.bind (bnd_rU32 1) fun version =>
    Bnd.bind (bnd_rU32 1) fun capab =>
    Bnd.bind (bnd_rU64 1) fun nonce =>
    Bnd.bind (bnd_rU64 1) fun td =>
    Bnd.bind (bnd_decPeerAddr rd) fun sender =>
    Bnd.bind (bnd_decPeerAddr rd) fun receiver =>
    Bnd.bind (bnd_decString rd) fun ua =>
    Bnd.bind (bnd_rHash rd) fun genesis =>
      Bnd.pure 1 (Hand.mk version (capsTruncate capab) nonce genesis td sender receiver ua)).mono
    (Nat.le_refl 1) (by decide) (by decide)

theorem noPanic_decHand (rd : Rdr) : NoPanic (decHand rd) :=
  NoPanic.bind noPanic_rU32 fun version =>
    NoPanic.bind noPanic_rU32 fun capab =>
    NoPanic.bind noPanic_rU64 fun nonce =>
    NoPanic.bind noPanic_rU64 fun td =>
    NoPanic.bind (noPanic_decPeerAddr rd) fun sender =>
    NoPanic.bind (noPanic_decPeerAddr rd) fun receiver =>
    NoPanic.bind (noPanic_decString rd) fun ua =>
    NoPanic.bind (noPanic_rHash rd) fun genesis =>
      NoPanic.pure (Hand.mk version (capsTruncate capab) nonce genesis td sender receiver ua)

theorem bnd_decShake (rd : Rdr) : Bnd 1 0 MAX_FIXED_READ (decShake rd) :=
  (Bnd.bind (bnd_rU32 1) fun version =>
    Bnd.bind (bnd_rU32 1) fun capab =>
    Bnd.bind (bnd_rU64 1) fun td =>
    Bnd.bind (bnd_decString rd) fun ua =>
    Bnd.bind (bnd_rHash rd) fun genesis =>
      Bnd.pure 1 (Shake.mk version (capsTruncate capab) genesis td ua)).mono
    (Nat.le_refl 1) (by decide) (by decide)

theorem noPanic_decShake (rd : Rdr) : NoPanic (decShake rd) :=
  NoPanic.bind noPanic_rU32 fun version =>
    NoPanic.bind noPanic_rU32 fun capab =>
    NoPanic.bind noPanic_rU64 fun td =>
    NoPanic.bind (noPanic_decString rd) fun ua =>
    NoPanic.bind (noPanic_rHash rd) fun genesis =>
      NoPanic.pure (Shake.mk version (capsTruncate capab) genesis td ua)

theorem bnd_decPeerError (rd : Rdr) : Bnd 1 0 MAX_FIXED_READ (decPeerError rd) :=
  (Bnd.bind (bnd_rU32 1) fun code => Bnd.bind (bnd_decString rd) fun m => Bnd.pure 1 (code, m)).mono
    (Nat.le_refl 1) (by decide) (by decide)

theorem noPanic_decPeerError (rd : Rdr) : NoPanic (decPeerError rd) :=
  NoPanic.bind noPanic_rU32 fun code => NoPanic.bind (noPanic_decString rd) fun m => NoPanic.pure (code, m)

/-! ### the bodies `decode_message` dispatches -/

variable {P : Type}

theorem bnd_decPingPong : Bnd 1 0 0 (decPingPong (P := P)) :=
  Bnd.bind (bnd_rU64 1) fun td => Bnd.bind (bnd_rU64 1) fun h => Bnd.pure 1 (Body.pingPong td h)

theorem noPanic_decPingPong : NoPanic (decPingPong (P := P)) :=
  NoPanic.bind noPanic_rU64 fun td => NoPanic.bind noPanic_rU64 fun h => NoPanic.pure (Body.pingPong td h)

theorem bnd_decBanReason (rd : Rdr) : Bnd 1 0 0 (decBanReason (P := P) rd) := by
  intro bs
  unfold decBanReason
  cases h : readU32 bs with
  | error e => simp only; split <;> cases rd <;> simp
  | ok p =>
    obtain ⟨u, r⟩ := p
    have := readU32_len h
    simp only; split
    · simp only [OBnd_ok]; omega
    · simp

theorem noPanic_decBanReason (rd : Rdr) : NoPanic (decBanReason (P := P) rd) := by
  intro bs
  unfold decBanReason
  simp only []
  repeat' split
  all_goals rfl

theorem bnd_decHashBody (rd : Rdr) : Bnd 1 0 32 (decHashBody (P := P) rd) :=
  Bnd.bind (bnd_rHash rd) fun h => Bnd.pure 1 (Body.hash h)

theorem noPanic_decHashBody (rd : Rdr) : NoPanic (decHashBody (P := P) rd) :=
  NoPanic.bind (noPanic_rHash rd) fun h => NoPanic.pure (Body.hash h)

/-- `Locator`: the pre-allocation is at most `MAX_LOCATORS` hashes = 640 bytes -/
theorem bnd_decLocator (rd : Rdr) : Bnd 1 640 32 (decLocator (P := P) rd) :=
  (Bnd.bind (bnd_rU8 1) fun len =>
    Bnd.iteH (len > GV.Gen.MAX_LOCATORS % 256)
      (fun _ => (Bnd.fail 1 .tooLarge).mono (Nat.le_refl 1) (Nat.zero_le 640) (Nat.zero_le 32))
      (fun hl => (Bnd.withCapacity (A := 640)
            (Bnd.bind (Bnd.readN (bnd_rHash rd) len) fun hs => Bnd.pure 1 (Body.locator hs)) len 32
            (by have : GV.Gen.MAX_LOCATORS % 256 = 20 := by decide
                omega)).mono (Nat.le_refl 1) (by decide) (by decide))).mono
    (Nat.le_refl 1) (by decide) (by decide)

theorem noPanic_decLocator (rd : Rdr) : NoPanic (decLocator (P := P) rd) :=
  NoPanic.bind noPanic_rU8 fun len =>
    NoPanic.iteH (len > GV.Gen.MAX_LOCATORS % 256) (fun _ => NoPanic.fail .tooLarge)
      (fun hl => NoPanic.withCapacity
        (NoPanic.bind (NoPanic.readN (noPanic_rHash rd) len) fun hs => NoPanic.pure (Body.locator hs)) len 32
        (by have : GV.Gen.MAX_LOCATORS % 256 = 20 := by decide
            have : ISIZE_MAX = 9223372036854775807 := by decide
            omega))

theorem bnd_decGetPeerAddrs : Bnd 1 0 0 (decGetPeerAddrs (P := P)) :=
  Bnd.bind (bnd_rU32 1) fun capab => Bnd.pure 1 (Body.getPeerAddrs (capsTruncate capab))

theorem noPanic_decGetPeerAddrs : NoPanic (decGetPeerAddrs (P := P)) :=
  NoPanic.bind noPanic_rU32 fun capab => NoPanic.pure (Body.getPeerAddrs (capsTruncate capab))

/-- `PeerAddrs`: the pre-allocation is at most `MAX_PEER_ADDRS` socket addresses = 8192 bytes -/
theorem bnd_decPeerAddrs (rd : Rdr) : Bnd 1 8192 4 (decPeerAddrs (P := P) rd) :=
  (Bnd.bind (bnd_rU32 1) fun count =>
    Bnd.iteH (count > GV.Gen.MAX_PEER_ADDRS)
      (fun _ => (Bnd.fail 1 .tooLarge).mono (Nat.le_refl 1) (Nat.zero_le 8192) (Nat.zero_le 4))
      (fun hl => Bnd.ite (count = 0)
        ((Bnd.pure 1 (Body.peerAddrs [])).mono (Nat.le_refl 1) (Nat.zero_le 8192) (Nat.zero_le 4))
        ((Bnd.withCapacity (A := 8192)
            (Bnd.bind (Bnd.readN (bnd_decPeerAddr rd) count) fun ps => Bnd.pure 1 (Body.peerAddrs ps)) count PEER_ADDR_MEM
            (by have : GV.Gen.MAX_PEER_ADDRS = 256 := by decide
                rw [show PEER_ADDR_MEM = 32 from rfl]
                omega)).mono (Nat.le_refl 1) (by decide) (by decide)))).mono
    (Nat.le_refl 1) (by decide) (by decide)

theorem noPanic_decPeerAddrs (rd : Rdr) : NoPanic (decPeerAddrs (P := P) rd) :=
  NoPanic.bind noPanic_rU32 fun count =>
    NoPanic.iteH (count > GV.Gen.MAX_PEER_ADDRS) (fun _ => NoPanic.fail .tooLarge)
      (fun hl => NoPanic.ite (count = 0) (NoPanic.pure (Body.peerAddrs []))
        (NoPanic.withCapacity
          (NoPanic.bind (NoPanic.readN (noPanic_decPeerAddr rd) count) fun ps => NoPanic.pure (Body.peerAddrs ps))
          count PEER_ADDR_MEM
          (by have : GV.Gen.MAX_PEER_ADDRS = 256 := by decide
              have : ISIZE_MAX = 9223372036854775807 := by decide
              rw [show PEER_ADDR_MEM = 32 from rfl]
              omega)))

theorem bnd_decTxHashSetRequest (rd : Rdr) : Bnd 1 0 32 (decTxHashSetRequest (P := P) rd) :=
  Bnd.bind (bnd_rHash rd) fun h => Bnd.bind (bnd_rU64 1) fun height => Bnd.pure 1 (Body.txHashSetRequest h height)

theorem noPanic_decTxHashSetRequest (rd : Rdr) : NoPanic (decTxHashSetRequest (P := P) rd) :=
  NoPanic.bind (noPanic_rHash rd) fun h => NoPanic.bind noPanic_rU64 fun height =>
    NoPanic.pure (Body.txHashSetRequest h height)

theorem bnd_decTxHashSetArchive (rd : Rdr) : Bnd 1 0 32 (decTxHashSetArchive (P := P) rd) :=
  Bnd.bind (bnd_rHash rd) fun h => Bnd.bind (bnd_rU64 1) fun height => Bnd.bind (bnd_rU64 1) fun bytes =>
    Bnd.pure 1 (Body.txHashSetArchive h height bytes)

theorem noPanic_decTxHashSetArchive (rd : Rdr) : NoPanic (decTxHashSetArchive (P := P) rd) :=
  NoPanic.bind (noPanic_rHash rd) fun h => NoPanic.bind noPanic_rU64 fun height =>
    NoPanic.bind noPanic_rU64 fun bytes => NoPanic.pure (Body.txHashSetArchive h height bytes)

theorem bnd_segmentId : Bnd 1 0 0 segmentId :=
  Bnd.bind (bnd_rU8 1) fun h => Bnd.bind (bnd_rU64 1) fun i => Bnd.pure 1 ({ height := h, idx := i } : SegmentId)

theorem noPanic_segmentId : NoPanic segmentId :=
  NoPanic.bind noPanic_rU8 fun h => NoPanic.bind noPanic_rU64 fun i =>
    NoPanic.pure ({ height := h, idx := i } : SegmentId)

theorem bnd_decSegmentRequest (rd : Rdr) : Bnd 1 0 32 (decSegmentRequest (P := P) rd) :=
  Bnd.bind (bnd_rHash rd) fun h => Bnd.bind bnd_segmentId fun id => Bnd.pure 1 (Body.segmentRequest h id)

theorem noPanic_decSegmentRequest (rd : Rdr) : NoPanic (decSegmentRequest (P := P) rd) :=
  NoPanic.bind (noPanic_rHash rd) fun h => NoPanic.bind noPanic_segmentId fun id =>
    NoPanic.pure (Body.segmentRequest h id)

/-- every arm of `decode_message`, given the same facts about the payload decoders of the other
domains (`c ≥ 1`, constants at least those of the native bodies) -/
theorem bnd_decBody (pl : Payload P) (rd : Rdr) (k e : Nat) (hk : 8192 ≤ k) (he : 32 ≤ e)
    (hpl : ∀ t, Bnd 1 k e (pl t)) (t : Nat) : Bnd 1 k e (decBody pl rd t) := by
  unfold decBody
  split
  · exact bnd_decPingPong.mono (Nat.le_refl 1) (Nat.zero_le _) (Nat.zero_le _)
  split
  · exact (bnd_decBanReason rd).mono (Nat.le_refl 1) (Nat.zero_le _) (Nat.zero_le _)
  split
  · exact (bnd_decHashBody rd).mono (Nat.le_refl 1) (Nat.zero_le _) he
  split
  · exact (bnd_decLocator rd).mono (Nat.le_refl 1) (by omega) he
  split
  · exact bnd_decGetPeerAddrs.mono (Nat.le_refl 1) (Nat.zero_le _) (Nat.zero_le _)
  split
  · exact (bnd_decPeerAddrs rd).mono (Nat.le_refl 1) hk (by omega)
  split
  · exact (bnd_decTxHashSetRequest rd).mono (Nat.le_refl 1) (Nat.zero_le _) he
  split
  · exact (bnd_decTxHashSetArchive rd).mono (Nat.le_refl 1) (Nat.zero_le _) he
  split
  · exact (bnd_decSegmentRequest rd).mono (Nat.le_refl 1) (Nat.zero_le _) he
  · exact Bnd.map (hpl t) Body.payload

theorem noPanic_decBody (pl : Payload P) (rd : Rdr) (hpl : ∀ t, NoPanic (pl t)) (t : Nat) :
    NoPanic (decBody pl rd t) := by
  unfold decBody
  split
  · exact noPanic_decPingPong
  split
  · exact noPanic_decBanReason rd
  split
  · exact noPanic_decHashBody rd
  split
  · exact noPanic_decLocator rd
  split
  · exact noPanic_decGetPeerAddrs
  split
  · exact noPanic_decPeerAddrs rd
  split
  · exact noPanic_decTxHashSetRequest rd
  split
  · exact noPanic_decTxHashSetArchive rd
  split
  · exact noPanic_decSegmentRequest rd
  · exact NoPanic.map (hpl t) Body.payload

end GV.Msg
