import GrinVerif.Model.KeysBuild
import GrinVerif.Lemmas.KeysArith
/-! Lemmas about the builder fold with `initial_tx` (C20): what the three key lists of the
`BlindSum` and the body look like after the fold. -/
namespace GV.Keys
open List

/-- **`initial_tx` keeps the sum**: the key lists after the fold are the initial ones followed by
the contributions of the plain combinators, in order — `initial_tx` contributes nothing and
removes nothing, wherever it stands -/
theorem runX_keys (st : BuildSt) (elems : List XStep) :
    (runX st elems).negK = st.negK ++ blinds (inputsOf (baseOf elems)) ∧
    (runX st elems).posK = st.posK ++ blinds (outputsOf (baseOf elems)) ∧
    (runX st elems).posB = st.posB ++ excessesOf (baseOf elems) := by
  induction elems generalizing st with
  | nil => simp [runX, baseOf, inputsOf, outputsOf, excessesOf, blinds]
  | cons e r ih =>
    have := ih (xstep st e)
    simp only [runX, foldl_cons] at this ⊢
    cases e with
    | base s => cases s <;> simp_all [xstep, step, baseOf, inputsOf, outputsOf, excessesOf, blinds]
    | initialTx i o => simp_all [xstep, baseOf]

/-- the body after the fold does not depend on the key lists of the state it started from -/
theorem runX_body_indep (elems : List XStep) : ∀ (st st' : BuildSt), st.ins = st'.ins → st.outs = st'.outs →
    (runX st elems).ins = (runX st' elems).ins ∧ (runX st elems).outs = (runX st' elems).outs := by
  induction elems with
  | nil => intro st st' h1 h2; exact ⟨h1, h2⟩
  | cons e r ih =>
    intro st st' h1 h2
    simp only [runX, foldl_cons]
    apply ih
    · cases e with
      | base s => cases s <;> simp [xstep, step, h1]
      | initialTx i o => simp [xstep]
    · cases e with
      | base s => cases s <;> simp [xstep, step, h2]
      | initialTx i o => simp [xstep]

/-- without `initial_tx` the fold is the plain fold -/
theorem runX_base (st : BuildSt) (l : List Step) : runX st (l.map XStep.base) = runSteps st l := by
  induction l generalizing st with
  | nil => rfl
  | cons a t ih => simp only [map_cons, runX, foldl_cons, xstep, runSteps] at ih ⊢; exact ih _

theorem inputsOf_perm {a b : List Step} (p : a ~ b) : inputsOf a ~ inputsOf b := by
  induction p with
  | nil => exact Perm.refl _
  | cons x _ ih => cases x <;> simp [inputsOf, ih]
  | swap x y l => cases x <;> cases y <;> simp [inputsOf, Perm.swap]
  | trans _ _ ih1 ih2 => exact ih1.trans ih2

theorem outputsOf_perm {a b : List Step} (p : a ~ b) : outputsOf a ~ outputsOf b := by
  induction p with
  | nil => exact Perm.refl _
  | cons x _ ih => cases x <;> simp [outputsOf, ih]
  | swap x y l => cases x <;> cases y <;> simp [outputsOf, Perm.swap]
  | trans _ _ ih1 ih2 => exact ih1.trans ih2

theorem excessesOf_perm {a b : List Step} (p : a ~ b) : excessesOf a ~ excessesOf b := by
  induction p with
  | nil => exact Perm.refl _
  | cons x _ ih => cases x <;> simp [excessesOf, ih]
  | swap x y l => cases x <;> cases y <;> simp [excessesOf, Perm.swap]
  | trans _ _ ih1 ih2 => exact ih1.trans ih2

theorem baseOf_perm {a b : List XStep} (p : a ~ b) : baseOf a ~ baseOf b := by
  induction p with
  | nil => exact Perm.refl _
  | cons x _ ih => cases x <;> simp [baseOf, ih]
  | swap x y l => cases x <;> cases y <;> simp [baseOf, Perm.swap]
  | trans _ _ ih1 ih2 => exact ih1.trans ih2

theorem baseOf_append (a b : List XStep) : baseOf (a ++ b) = baseOf a ++ baseOf b := by
  induction a with
  | nil => rfl
  | cons x t ih => cases x <;> simp [baseOf, ih]

theorem baseOf_map_base (l : List Step) : baseOf (l.map XStep.base) = l := by
  induction l with
  | nil => rfl
  | cons a t ih => simp [baseOf, ih]

/-- `with_excess` elements -/
def isExcess : XStep → Bool
  | .base (.withExcess _) => true
  | _ => false

/-- **the body never sees a `with_excess`**: dropping every `with_excess` element from the list —
wherever it stands — leaves the inputs and outputs of the fold unchanged -/
theorem runX_body_drop_excess (elems : List XStep) : ∀ (st : BuildSt),
    (runX st elems).ins = (runX st (elems.filter (fun e => !isExcess e))).ins ∧
    (runX st elems).outs = (runX st (elems.filter (fun e => !isExcess e))).outs := by
  induction elems with
  | nil => intro st; exact ⟨rfl, rfl⟩
  | cons e r ih =>
    intro st
    by_cases h : isExcess e = true
    · have hf : (e :: r).filter (fun e => !isExcess e) = r.filter (fun e => !isExcess e) := by
        simp [h]
      rw [hf]
      have hb : (xstep st e).ins = st.ins ∧ (xstep st e).outs = st.outs := by
        cases e with
        | base s => cases s <;> simp_all [isExcess, xstep, step]
        | initialTx i o => simp [isExcess] at h
      have h1 := runX_body_indep r (xstep st e) st hb.1 hb.2
      have h2 := ih st
      simp only [runX, foldl_cons] at h1 h2 ⊢
      exact ⟨h1.1.trans h2.1, h1.2.trans h2.2⟩
    · have hf : (e :: r).filter (fun e => !isExcess e) = e :: r.filter (fun e => !isExcess e) := by
        simp [h]
      rw [hf]
      have h2 := ih (xstep st e)
      simp only [runX, foldl_cons] at h2 ⊢
      exact h2

/-- the three key lists after the fold do not depend on the body the fold started from -/
theorem runX_keys_indep_body (elems : List XStep) (st st' : BuildSt)
    (hn : st.negK = st'.negK) (hp : st.posK = st'.posK) (hb : st.posB = st'.posB) :
    (runX st elems).negK = (runX st' elems).negK ∧ (runX st elems).posK = (runX st' elems).posK ∧
    (runX st elems).posB = (runX st' elems).posB := by
  obtain ⟨a1, a2, a3⟩ := runX_keys st elems
  obtain ⟨b1, b2, b3⟩ := runX_keys st' elems
  rw [a1, a2, a3, b1, b2, b3, hn, hp, hb]
  exact ⟨rfl, rfl, rfl⟩

end GV.Keys
