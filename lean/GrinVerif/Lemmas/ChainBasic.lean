import GrinVerif.Model.Chain
/-! Step lemmas for the chain model (`Model/Chain.lean`). -/
namespace GV.Chain

/-- header processing never touches head, stored blocks, definitions or the orphan pool -/
theorem processHeader_frame (p : Params) (n n' : Node) (b : Blk) (h : processHeader p n b = .ok n') :
    n'.head = n.head ∧ n'.stored = n.stored ∧ n'.blks = n.blks ∧ n'.orphans = n.orphans ∧ n'.outs = n.outs := by
  unfold processHeader at h
  repeat' split at h
  all_goals first | (cases h; simp) | (simp at h)

theorem storeBlock_head (n1 : Node) (b : Blk) :
    ((storeBlock n1 b).1.head = n1.head ∧ (storeBlock n1 b).2 = .okFork ∧ ¬ b.work > n1.workOf n1.head) ∨
    ((storeBlock n1 b).1.head = b.id ∧ (storeBlock n1 b).2 = .okHead ∧ b.work > n1.workOf n1.head) := by
  unfold storeBlock
  split
  · right; simp_all
  · left; simp_all

theorem storeBlock_stored (n1 : Node) (b : Blk) : (storeBlock n1 b).1.stored = n1.stored ++ [b.id] := by
  unfold storeBlock; split <;> rfl

theorem storeBlock_ok (n1 : Node) (b : Blk) : ∀ e, (storeBlock n1 b).2 ≠ .err e := by
  intro e; unfold storeBlock; split <;> simp

/-- the shape of one processing step: either nothing relevant changed (an error was returned),
or the block passed every check against its parent's replayed state and was stored -/
theorem processBlockSingle_cases (p : Params) (n : Node) (b : Blk) :
    (∃ e, (processBlockSingle p n b).2 = .err e ∧ (processBlockSingle p n b).1.head = n.head ∧
          (processBlockSingle p n b).1.stored = n.stored) ∨
    (∃ n1 par s', processHeader p n b = .ok n1 ∧ precheck n1 b = .go par ∧
          checkBlock p n1 b par = .ok s' ∧ processBlockSingle p n b = storeBlock n1 b) := by
  unfold processBlockSingle
  split
  · left; exact ⟨_, rfl, rfl, rfl⟩
  · rename_i n1 hh
    have hp := processHeader_frame p n n1 b hh
    split
    · left; exact ⟨_, rfl, hp.1, hp.2.1⟩
    · left; exact ⟨_, rfl, by simp [addOrphan, hp.1], by simp [addOrphan, hp.2.1]⟩
    · rename_i par hpre
      split
      · left; exact ⟨_, rfl, hp.1, hp.2.1⟩
      · rename_i s' hc
        right; exact ⟨n1, par, s', hh, hpre, hc, rfl⟩

/-! ## Definitions never change; everything derived from them is a function of `outs`/`blks` -/

theorem blk_congr {n m : Node} (h : n.blks = m.blks) (id : Nat) : n.blk id = m.blk id := by
  simp [Node.blk, h]

theorem blk_id {n : Node} {id : Nat} {b : Blk} (h : n.blk id = some b) : b.id = id := by
  unfold Node.blk at h
  have := List.find?_some h
  simpa using this

theorem blk_mem {n : Node} {id : Nat} {b : Blk} (h : n.blk id = some b) : b ∈ n.blks := by
  unfold Node.blk at h
  exact List.mem_of_find?_eq_some h

theorem workOf_congr {n m : Node} (h : n.blks = m.blks) (id : Nat) : n.workOf id = m.workOf id := by
  simp [Node.workOf, blk_congr h]

theorem heightOf_congr {n m : Node} (h : n.blks = m.blks) (id : Nat) : n.heightOf id = m.heightOf id := by
  simp [Node.heightOf, blk_congr h]

theorem parentOf_congr {n m : Node} (h : n.blks = m.blks) (id : Nat) : n.parentOf id = m.parentOf id := by
  simp [Node.parentOf, blk_congr h]

theorem pathTo_congr {n m : Node} (h : n.blks = m.blks) :
    ∀ (fuel id : Nat) (acc : List Blk), pathTo n fuel id acc = pathTo m fuel id acc := by
  intro fuel
  induction fuel with
  | zero => intros; rfl
  | succ k ih =>
    intro id acc
    simp only [pathTo, blk_congr h]
    split
    · rfl
    · split
      · rfl
      · exact ih _ _

theorem path_congr {n m : Node} (h : n.blks = m.blks) (id : Nat) : n.path id = m.path id := by
  simp [Node.path, pathTo_congr h, h]

theorem stateAt_congr {n m : Node} (h : n.blks = m.blks) (p : Params) (id : Nat) :
    n.stateAt p id = m.stateAt p id := by
  simp [Node.stateAt, path_congr h]

/-- validity is path-determined: `checkBlock` reads only the output and block definitions -/
theorem checkBlock_congr {n m : Node} (ho : n.outs = m.outs) (h : n.blks = m.blks) (p : Params)
    (b : Blk) (par : Nat) : checkBlock p n b par = checkBlock p m b par := by
  simp [checkBlock, stateAt_congr h, ho]

theorem reportedUtxo_congr {n m : Node} (h : n.blks = m.blks) (hh : n.head = m.head) (p : Params) :
    n.reportedUtxo p = m.reportedUtxo p := by
  simp [Node.reportedUtxo, stateAt_congr h, hh]


end GV.Chain
