import GrinVerif.Model.Chain
/-! Step lemmas for the chain model (`Model/Chain.lean`). -/
namespace GV.Chain

/-- header processing never touches head, stored blocks, definitions or the orphan pool -/
theorem processHeader_frame (p : Params) (n n' : Node) (b : Blk) (h : processHeader p n b = .ok n') :
    n'.head = n.head ∧ n'.stored = n.stored ∧ n'.blks = n.blks ∧ n'.orphans = n.orphans ∧ n'.outs = n.outs := by
  unfold processHeader at h
  repeat' split at h
  all_goals first | (cases h; simp) | (simp at h)

theorem storeBlock_head (n1 : Node) (b : Blk) :
    ((storeBlock n1 b).1.head = n1.head ∧ (storeBlock n1 b).2 = .okFork ∧ ¬ b.work > n1.workOf n1.head) ∨
    ((storeBlock n1 b).1.head = b.id ∧ (storeBlock n1 b).2 = .okHead ∧ b.work > n1.workOf n1.head) := by
  unfold storeBlock
  split
  · right; simp_all
  · left; simp_all

theorem storeBlock_stored (n1 : Node) (b : Blk) : (storeBlock n1 b).1.stored = n1.stored ++ [b.id] := by
  unfold storeBlock; split <;> rfl

theorem storeBlock_ok (n1 : Node) (b : Blk) : ∀ e, (storeBlock n1 b).2 ≠ .err e := by
  intro e; unfold storeBlock; split <;> simp

/-- the shape of one processing step: either nothing relevant changed (an error was returned),
or the block passed every check against its parent's replayed state and was stored -/
theorem processBlockSingle_cases (p : Params) (n : Node) (b : Blk) :
    (∃ e, (processBlockSingle p n b).2 = .err e ∧ (processBlockSingle p n b).1.head = n.head ∧
          (processBlockSingle p n b).1.stored = n.stored) ∨
    (∃ n1 par s', processHeader p n b = .ok n1 ∧ precheck n1 b = .go par ∧
          checkBlock p n1 b par = .ok s' ∧ processBlockSingle p n b = storeBlock n1 b) := by
  unfold processBlockSingle
  split
  · left; exact ⟨_, rfl, rfl, rfl⟩
  · rename_i n1 hh
    have hp := processHeader_frame p n n1 b hh
    split
    · left; exact ⟨_, rfl, hp.1, hp.2.1⟩
    · left; exact ⟨_, rfl, by simp [addOrphan, hp.1], by simp [addOrphan, hp.2.1]⟩
    · rename_i par hpre
      split
      · left; exact ⟨_, rfl, hp.1, hp.2.1⟩
      · rename_i s' hc
        right; exact ⟨n1, par, s', hh, hpre, hc, rfl⟩

end GV.Chain
