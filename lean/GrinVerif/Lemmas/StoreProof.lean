import GrinVerif.Lemmas.StoreHistory
/-! `merkle_proof` over a prunable backend against the unpruned reference (C08): every hash
`merkle_proof` reads for an unspent leaf (path siblings, peaks) is a position the invariant
keeps, so the whole proof value equals the one the Vec-backed reference produces.
Core Lean only. -/
namespace GV.Store
open GV GV.Pmmr GV.Pmmr.Co

/-- the ancestors of leaf `n` contain it -/
theorem sub_up (n : Nat) : ∀ j, Sub (cpos (up n j, j)) (mmr n) := by
  intro j
  induction j with
  | zero =>
    have : cpos (up n 0, 0) = mmr n := by simp [cpos, up_zero]
    rw [this]; exact sub_refl _
  | succ j ih =>
    have hf := family_up n j
    have := (sub_family (cpos (up n j, j)) (mmr n)).2 (Or.inr (Or.inl ih))
    rw [hf] at this
    exact this

theorem mem_takeWhile_prop {α : Type} (p : α → Bool) : ∀ (l : List α) (x : α),
    x ∈ l.takeWhile p → p x = true ∧ x ∈ l := by
  intro l
  induction l with
  | nil => intro x hx; simp at hx
  | cons a t ih =>
    intro x hx
    rw [List.takeWhile_cons] at hx
    split at hx
    · rename_i ha
      rcases List.mem_cons.1 hx with rfl | hx
      · exact ⟨ha, by simp⟩
      · exact ⟨(ih x hx).1, by simp [(ih x hx).2]⟩
    · simp at hx

/-- every sibling on the `family_branch` of a leaf lies inside the MMR and its parent is an
ancestor of the leaf -/
theorem familyBranch_sib (n size : Nat) :
    ∀ x ∈ familyBranch (mmr n) size, Sub (family x.2).1 (mmr n) ∧ x.2 < size := by
  intro x hx
  unfold familyBranch at hx
  rw [peakMapHeight_leaf] at hx
  simp only at hx
  have e : mmr n = cpos (up n 0, 0) := by simp [cpos, up_zero]
  rw [e, familyBranchLoop_general] at hx
  obtain ⟨hmem, hin⟩ := mem_takeWhile_prop _ _ _ hx
  obtain ⟨j, _, rfl⟩ := List.mem_map.1 hin
  simp only [decide_eq_true_eq] at hmem
  have hf := family_up n j
  obtain ⟨_, hsf, _⟩ := family_sibling (cpos (up n j, j))
  rw [hf] at hsf
  simp only at hsf
  unfold ancestorStep at hmem ⊢
  simp only at hmem ⊢
  rw [hsf]
  simp only
  refine ⟨sub_up n (j + 1), ?_⟩
  have := family_parent_gt' (cpos (sibCo n j))
  rw [hsf] at this
  simp only at this
  omega

theorem filterMap_filter_congr {α β : Type} (f g : α → Option β) (c : α → Bool) (l : List α)
    (hfg : ∀ x ∈ l, f x = g x) : (l.filter c).filterMap f = (l.filter c).filterMap g :=
  Synced.filterMap_congr_mem f g _ (fun x hx => hfg x (List.mem_filter.1 hx).1)

/-- `merkle_proof` over accessor functions that agree with a hash vector on everything it reads
is `merkle_proof` over that vector -/
theorem merkleProofG_eq {H : Type} (hf : HashFn Bytes H) (getHash getFromFile getPeak : Nat → Option H)
    (rh : List H) (q : Nat) (v : H)
    (h1 : getHash q = some v) (h1' : rh[q]? = some v)
    (h2 : ∀ x ∈ familyBranch q rh.length, getFromFile x.2 = rh[x.2]?)
    (h3 : ∀ pk ∈ peaks rh.length, getPeak pk = rh[pk]? ∧ getFromFile pk = rh[pk]?) :
    merkleProofG hf rh.length getHash getFromFile getPeak q = Pmmr.merkleProof hf rh q := by
  unfold merkleProofG Pmmr.merkleProof
  simp only
  split
  · rfl
  · rw [h1, h1']
    simp only
    have hpath : (familyBranch q rh.length).filterMap (fun x => getFromFile x.2) =
        (familyBranch q rh.length).filterMap (fun x => rh[x.2]?) :=
      Synced.filterMap_congr_mem _ _ _ h2
    have hpp : ∀ pp, peakPathG hf rh.length getFromFile getPeak pp = peakPath hf rh pp := by
      intro pp
      unfold peakPathG peakPath bagTheRhsG bagTheRhs
      simp only
      rw [filterMap_filter_congr getPeak (fun p => rh[p]?) _ _ (fun pk hpk => (h3 pk hpk).1),
        filterMap_filter_congr getFromFile (fun p => rh[p]?) _ _ (fun pk hpk => (h3 pk hpk).2)]
      rfl
    rw [hpath, hpp]
    rfl

/-- **Merkle proofs of unspent leaves equal those of the unpruned reference** -/
theorem hinv_merkleProof {H : Type} (hf : HashFn Bytes H) {p : PM H} {r : RefSt} (h : HInv hf p r)
    (q : Nat) (hq : q ∈ r.cur.U) :
    PM.merkleProof hf p q =
      Pmmr.merkleProof hf (allHashes hf (leafFn r.cur.es) r.cur.es.length) q := by
  obtain ⟨⟨df, hc⟩, _⟩ := h
  have hl := hc.live
  have hm := (hc.unspent q).2 hq
  obtain ⟨_, h2, h3⟩ := hl.lsLeaf (q + 1) hm
  rw [Nat.add_sub_cancel] at h3
  obtain ⟨n, rfl⟩ := leaf_coord h3
  have hlen := allHashes_length hf (leafFn r.cur.es) r.cur.es.length
  have hrh : ∀ s, s < mmr r.cur.es.length →
      (allHashes hf (leafFn r.cur.es) r.cur.es.length)[s]? = some (refHash hf (leafFn r.cur.es) s) := by
    intro s hs
    rw [allHashes_eq_ref, List.getElem?_map, List.getElem?_range hs]; rfl
  have hlf : isLeaf (mmr n) = true := (isLeaf_iff _).2 h3
  unfold PM.merkleProof
  rw [hc.size, ← hlen]
  apply merkleProofG_eq hf _ _ _ _ (mmr n) (refHash hf (leafFn r.cur.es) (mmr n))
  · unfold PM.getHash
    rw [hc.size, if_neg (by omega), if_pos hlf]
    exact (hl.read_unspent (fun _ => none) (mmr n) hm).1
  · exact hrh _ (by omega)
  · intro x hx
    rw [hlen] at hx
    obtain ⟨s1, s2⟩ := familyBranch_sib n _ x hx
    unfold PM.getFromFile guard
    rw [hc.size, if_neg (by omega), hrh _ s2]
    exact hl.read_path (mmr n) hm x.2 s1 s2
  · intro pk hpk
    rw [hlen] at hpk
    have hlt := peaks_lt_size hpk
    have hnc := peak_not_compacted hl.roots hl.inv.pos pk hpk
    obtain ⟨r1, r2⟩ := hl.read_hash pk hlt hnc
    rw [hrh _ hlt]
    constructor
    · unfold PM.getPeak guard
      rw [hc.size, if_neg (by omega)]; exact r1
    · unfold PM.getFromFile guard
      rw [hc.size, if_neg (by omega)]; exact r2

end GV.Store
