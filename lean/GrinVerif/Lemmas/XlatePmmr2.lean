import GrinVerif.Model.Pmmr
import GrinVerif.Gen.FnsPmmr
import GrinVerif.Lemmas.XlatePmmr
/-! Helper lemmas for `Props/XlatePmmr2.lean` (`peaks`, `bintree_leaf_pos_iter`, `bintree_pos_iter`):
facts about the list of peak sizes (`greedySizes`: every entry `≥ 1`, sum `≤ size`), the
`Iterator::scan` of `peaks` without wrap, and the bound `leaf index ≤ 2^63` for every u64 position. -/

namespace GV.Xlate2
open GV GV.Pmmr GV.Pmmr.Co GV.Xlate
open GV.Gen

/-! ### the peak sizes -/

/-- peak sizes plus the remainder add up to the size the greedy subtraction started from -/
theorem greedySizes_sum (k : Nat) : ∀ (s : Nat), (greedySizes k s).1.sum + (greedySizes k s).2 = s := by
  induction k with
  | zero => intro s; simp [greedySizes]
  | succ k ih =>
    intro s
    simp only [greedySizes]
    split
    · have := ih (s - (2 ^ (k + 1) - 1))
      simp only [List.sum_cons]
      omega
    · exact ih s

/-- every peak size is `2^j - 1` with `j ≥ 1`, in particular `≥ 1` -/
theorem greedySizes_pos (k : Nat) : ∀ (s : Nat), ∀ x ∈ (greedySizes k s).1, 1 ≤ x := by
  induction k with
  | zero => intro s x hx; simp [greedySizes] at hx
  | succ k ih =>
    intro s x hx
    simp only [greedySizes] at hx
    split at hx
    · rcases List.mem_cons.1 hx with rfl | h
      · have : 0 < 2 ^ k := Nat.pow_pos (by omega)
        have hp : 2 ^ (k + 1) = 2 * 2 ^ k := by rw [Nat.pow_succ]; omega
        omega
      · exact ih _ x h
    · exact ih _ x hx

theorem peakSizesHeight_sum (size : Nat) :
    (peakSizesHeight size).1.sum + (peakSizesHeight size).2 = size := by
  unfold peakSizesHeight
  by_cases h0 : size = 0
  · simp [h0]
  · simp only [h0, if_false]; exact greedySizes_sum _ _

theorem peakSizesHeight_pos (size : Nat) : ∀ x ∈ (peakSizesHeight size).1, 1 ≤ x := by
  unfold peakSizesHeight
  by_cases h0 : size = 0
  · simp [h0]
  · simp only [h0, if_false]; exact greedySizes_pos _ _

/-! ### the `scan` of `peaks` -/

/-- `iter().scan(acc, |acc, &x| { *acc += x; Some(*acc) }).map(|x| x - 1)` is the model's `scanPeaks`
as long as every element is positive and the total stays below `2^64` (no `+=` wraps, no `x - 1`
underflows) -/
theorem scan_eq : ∀ (l : List Nat) (acc : Nat), (∀ x ∈ l, 1 ≤ x) → acc + l.sum < 2^64 →
    List.map (fun x => subW x 1) (Fns.scanOpt Fns.peaks_closure1 acc l) = scanPeaks acc l := by
  intro l
  induction l with
  | nil => intro acc _ _; simp [Fns.scanOpt, scanPeaks]
  | cons x xs ih =>
    intro acc hpos hsum
    simp only [List.sum_cons] at hsum
    have hx : 1 ≤ x := hpos x (List.mem_cons_self ..)
    have ha : addW acc x = acc + x := addW_eq (by omega)
    have hs : subW (acc + x) 1 = acc + x - 1 := subW_eq (by omega) (by omega)
    simp only [Fns.scanOpt, Fns.peaks_closure1, ha, List.map_cons, hs, scanPeaks]
    rw [ih (acc + x) (fun z hz => hpos z (List.mem_cons_of_mem _ hz)) (by omega)]

/-- the `scan` never stops early: one output per peak size -/
theorem scan_length : ∀ (l : List Nat) (acc : Nat),
    (Fns.scanOpt Fns.peaks_closure1 acc l).length = l.length := by
  intro l
  induction l with
  | nil => intro acc; simp [Fns.scanOpt]
  | cons x xs ih => intro acc; simp [Fns.scanOpt, Fns.peaks_closure1, ih]

/-! ### leaf indices of u64 positions -/

theorem mmr_big : mmr (2^63 + 1) = 2^64 := by
  have h := mmr_add_pow 63 1 (by omega)
  have h1 : mmr 1 = 1 := by simp [mmr, popcount]
  rw [h, h1]

/-- the leaf count below / leaf index of a u64 position is at most `2^63` (so that
`insertion_to_pmmr_index` of it does not wrap) -/
theorem pmh_fst_le {pos : Nat} (h : pos < 2^64) : (peakMapHeight pos).1 ≤ 2^63 := by
  obtain ⟨n, hh, hv, rfl⟩ := coord_surj pos
  rw [peakMapHeight_co n hh hv]
  simp only
  by_cases hn : n ≤ 2^63
  · exact hn
  · have := mmr_le_mmr (show 2^63 + 1 ≤ n by omega)
    rw [mmr_big] at this
    omega

/-- `List.range' s n` as `s + i` for `i < n` -/
theorem map_range'_eq {β : Type} (f g : Nat → β) (s n : Nat) (h : ∀ i, i < n → f (s + i) = g (s + i)) :
    List.map f (List.range' s n) = List.map (fun i => g (s + i)) (List.range n) := by
  rw [List.range'_eq_map_range, List.map_map]
  apply List.map_congr_left
  intro i hi
  simp only [Function.comp]
  exact h i (List.mem_range.1 hi)

end GV.Xlate2
