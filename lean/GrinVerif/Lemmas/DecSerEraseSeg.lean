import GrinVerif.Lemmas.DecSerErase
import GrinVerif.Model.SerSeg
import GrinVerif.Model.SerStore
/-! The instrumented readers of `SegmentIdentifier`, `SegmentProof`, `Segment<T>` and `MerkleProof`
(`Model/Dec.lean`, property C11: pre-allocation caps, both readers) erase to the plain codecs of
`Model/SerSeg.lean` / `Model/SerStore.lean` (property C10), up to the renaming of the record types. -/
namespace GV.DecSer
open GV GV.Ser GV.Dec GV.SerSeg

variable {α β γ : Type}

theorem map_addAlloc (f : α → β) (o : Outcome α) (n : Nat) : (o.addAlloc n).map f = (o.map f).addAlloc n := by
  cases o <;> rfl

theorem map_bind (f : β → γ) (o : Outcome α) (k : α → Bytes → Outcome β) :
    (Dec.bind o k).map f = Dec.bind o (fun a r => (k a r).map f) := by
  cases o with
  | ok a r n => simp only [Dec.bind, map_addAlloc]
  | err e n => rfl
  | panic s n => rfl

theorem map_withCapacity (f : α → β) (n sz : Nat) (o : Outcome α) :
    (Dec.withCapacity n sz o).map f = Dec.withCapacity n sz (o.map f) := by
  unfold Dec.withCapacity
  split
  · rfl
  · exact map_addAlloc f o _

/-- `bind` whose first read is related through a map of the value -/
theorem Erases.bindM {p : Dec α} {g : α → γ} {q : Parser γ} {f : α → Dec β} {k : γ → Parser β}
    (hp : Erases (fun bs => (p bs).map g) q) (hf : ∀ a, Erases (f a) (k (g a))) :
    Erases (fun bs => Dec.bind (p bs) f) (fun bs => andThen (q bs) k) := by
  intro bs
  show (Dec.bind (p bs) f).toExcept = some (andThen (q bs) k)
  have h := hp bs
  simp only at h
  cases hpb : p bs with
  | ok a r n =>
    rw [hpb] at h
    simp only [Outcome.map, Outcome.toExcept, Option.some.injEq] at h
    rw [← h]
    simp only [Dec.bind, andThen_ok, toExcept_addAlloc]
    exact hf a r
  | err e n =>
    rw [hpb] at h
    simp only [Outcome.map, Outcome.toExcept, Option.some.injEq] at h
    rw [← h]; rfl
  | panic s n => rw [hpb] at h; simp [Outcome.map, Outcome.toExcept] at h

theorem Erases.of_eq {p p' : Dec α} {q q' : Parser α} (hp : ∀ bs, p bs = p' bs) (hq : ∀ bs, q' bs = q bs)
    (h : Erases p' q') : Erases p q := by
  intro bs; rw [hp bs, ← hq bs]; exact h bs

/-! ### the pieces of `Segment<T>::read` -/

theorem erases_segItemCount : Erases segItemCount readItemCount := by
  unfold segItemCount readItemCount
  exact Erases.bind erases_rU64 fun count => Erases.ite _ (erases_err _) (erases_pure _)

theorem erases_segPositionsLoop : ∀ (n last : Nat), Erases (segPositionsLoop n last) (readPositionsLoop n last) := by
  intro n
  induction n with
  | zero => intro last bs; rfl
  | succ n ih =>
    intro last
    refine Erases.of_eq (fun bs => rfl) (fun bs => rfl) (?_ : Erases
      (fun bs => Dec.bind (rU64 bs) fun pos r =>
        if pos ≤ last then .err .sort 0
        else Dec.bind (segPositionsLoop n pos r) fun ps r' => .ok ((pos - 1) :: ps) r' 0)
      (fun bs => andThen (readU64 bs) fun pos r =>
        if pos ≤ last then .error .sort
        else andThen (readPositionsLoop n pos r) fun ps r => .ok ((pos - 1) :: ps, r)))
    exact Erases.bind erases_rU64 fun pos =>
      Erases.ite _ (erases_err _) (Erases.bind (ih pos) fun ps => erases_pure _)

theorem prealloc_fits (count sz : Nat) (hsz : sz ≤ 2^40) :
    min count GV.Gen.SEGMENT_READ_PREALLOC_ITEMS * sz ≤ ISIZE_MAX := by
  have h1 : min count GV.Gen.SEGMENT_READ_PREALLOC_ITEMS ≤ 1024 := by
    unfold GV.Gen.SEGMENT_READ_PREALLOC_ITEMS; omega
  have h2 : min count GV.Gen.SEGMENT_READ_PREALLOC_ITEMS * sz ≤ 1024 * 2^40 := Nat.mul_le_mul h1 hsz
  unfold ISIZE_MAX
  omega

theorem erases_segPositions (count : Nat) : Erases (segPositions count) (readPositions count) := by
  unfold segPositions readPositions
  exact Erases.withCapacity (erases_segPositionsLoop count 0) _ _ (prealloc_fits count 8 (by omega))

theorem erases_readN {p : Dec α} {q : Parser α} (h : Erases p q) :
    ∀ n, Erases (GV.Dec.readN p n) (readItems q n) := by
  intro n
  induction n with
  | zero => intro bs; rfl
  | succ n ih =>
    refine Erases.of_eq (fun bs => rfl) (fun bs => rfl) (?_ : Erases
      (fun bs => Dec.bind (p bs) fun x r => Dec.bind (GV.Dec.readN p n r) fun xs r' => .ok (x :: xs) r' 0)
      (fun bs => andThen (q bs) fun x r => andThen (readItems q n r) fun xs r => .ok (x :: xs, r)))
    exact Erases.bind h fun x => Erases.bind ih fun xs => erases_pure _

theorem erases_segItems {p : Dec α} {q : Parser α} (h : Erases p q) (sz count : Nat) (hsz : sz ≤ 2^40) :
    Erases (segItems p sz count) (readItems q count) := by
  unfold segItems
  exact Erases.withCapacity (erases_readN h count) _ _ (prealloc_fits count sz hsz)

theorem erases_segmentProof (rd : Rdr) : Erases (segmentProof rd) decSegProof := by
  unfold segmentProof decSegProof
  exact Erases.bind erases_segItemCount fun n => erases_segItems (erases_rHash rd) 32 n (by omega)

def toSegId (s : GV.Dec.SegmentId) : SegId := { height := s.height, idx := s.idx }

def toSegment (s : GV.Dec.Segment α) : GV.SerSeg.Segment α :=
  { id := toSegId s.id, hashPos := s.hashPos, hashes := s.hashes, leafPos := s.leafPos,
    leafData := s.leafData, proof := s.proof }

theorem erases_segmentId : Erases (fun bs => (segmentId bs).map toSegId) decSegId := by
  have : ∀ bs, (segmentId bs).map toSegId =
      Dec.bind (rU8 bs) fun h r => Dec.bind (rU64 r) fun i r => .ok ({ height := h, idx := i } : SegId) r 0 := by
    intro bs; unfold segmentId; simp only [map_bind]; rfl
  intro bs
  show ((segmentId bs).map toSegId).toExcept = some (decSegId bs)
  rw [this]
  exact (Erases.bind erases_rU8 fun h => Erases.bind erases_rU64 fun i => erases_pure _) bs

/-- `Segment<T>::read`, generically in the leaf reader: the instrumented form (pre-allocation capped at
1024 entries per list) returns the plain decoder's segment -/
theorem erases_segment (rd : Rdr) {p : Dec α} {q : Parser α} (h : Erases p q) (sz : Nat) (hsz : sz ≤ 2^40) :
    Erases (fun bs => (segment rd p sz bs).map toSegment) (decSegment q) := by
  have hm : ∀ bs, (segment rd p sz bs).map toSegment =
      Dec.bind (segmentId bs) fun id r =>
      Dec.bind (segItemCount r) fun nh r =>
      Dec.bind (segPositions nh r) fun hashPos r =>
      Dec.bind (segItems (rHash rd) 32 nh r) fun hashes r =>
      Dec.bind (segItemCount r) fun nl r =>
      Dec.bind (segPositions nl r) fun leafPos r =>
      Dec.bind (segItems p sz nl r) fun leafData r =>
      Dec.bind (segmentProof rd r) fun proof r =>
        .ok ({ id := toSegId id, hashPos := hashPos, hashes := hashes, leafPos := leafPos,
               leafData := leafData, proof := proof } : GV.SerSeg.Segment α) r 0 := by
    intro bs; unfold segment; simp only [map_bind]; rfl
  intro bs
  show ((segment rd p sz bs).map toSegment).toExcept = some (decSegment q bs)
  rw [hm]
  unfold decSegment
  refine (Erases.bindM erases_segmentId fun id => ?_) bs
  refine Erases.bind erases_segItemCount fun nh => Erases.bind (erases_segPositions nh) fun hashPos => ?_
  refine Erases.bind (erases_segItems (erases_rHash rd) 32 nh (by omega)) fun hashes => ?_
  refine Erases.bind erases_segItemCount fun nl => Erases.bind (erases_segPositions nl) fun leafPos => ?_
  refine Erases.bind (erases_segItems h sz nl hsz) fun leafData => ?_
  exact Erases.bind (erases_segmentProof rd) fun proof => erases_pure _

/-! ### MerkleProof -/

def toMerkleProof (p : GV.Dec.MerkleProof) : GV.Ser.MerkleProof := { mmrSize := p.mmrSize, path := p.path }

theorem erases_readN_hashes (rd : Rdr) : ∀ n, Erases (GV.Dec.readN (rHash rd) n) (readHashes n) := by
  intro n
  induction n with
  | zero => intro bs; rfl
  | succ n ih =>
    refine Erases.of_eq (fun bs => rfl) (fun bs => rfl) (?_ : Erases
      (fun bs => Dec.bind (rHash rd bs) fun x r => Dec.bind (GV.Dec.readN (rHash rd) n r) fun xs r' => .ok (x :: xs) r' 0)
      (fun bs => andThen (decHash bs) fun x r => andThen (readHashes n r) fun xs r => .ok (x :: xs, r)))
    exact Erases.bind (erases_rHash rd) fun x => Erases.bind ih fun xs => erases_pure _

/-- `MerkleProof::read` (pre-allocation capped at 64 hashes) returns the plain decoder's proof -/
theorem erases_merkleProof (rd : Rdr) : Erases (fun bs => (merkleProof rd bs).map toMerkleProof) decMerkleProof := by
  have hm : ∀ bs, (merkleProof rd bs).map toMerkleProof =
      Dec.bind (rU64 bs) fun mmrSize r =>
      Dec.bind (rU64 r) fun pathLen r =>
        Dec.withCapacity (min pathLen MERKLE_PREALLOC) 32
          (Dec.bind (GV.Dec.readN (rHash rd) pathLen r) fun path r =>
            .ok ({ mmrSize := mmrSize, path := path } : GV.Ser.MerkleProof) r 0) := by
    intro bs; unfold merkleProof; simp only [map_bind, map_withCapacity]; rfl
  intro bs
  show ((merkleProof rd bs).map toMerkleProof).toExcept = some (decMerkleProof bs)
  rw [hm]
  unfold decMerkleProof
  refine (Erases.bind erases_rU64 fun size => Erases.bind erases_rU64 fun n => ?_) bs
  refine Erases.withCapacity (Erases.bind (erases_readN_hashes rd n) fun path => erases_pure _) _ _ ?_
  have : min n MERKLE_PREALLOC ≤ 64 := by unfold MERKLE_PREALLOC; omega
  unfold ISIZE_MAX; omega

end GV.DecSer
