import GrinVerif.Lemmas.PmmrCoord
/-! The hash of every MMR node in `(n, h)` coordinates and the hash vector after `N` insertions;
`PMMR::push` computes exactly this vector (C07).  Leaf data is a function `f : Nat → α` of the leaf
index; lists are handled at the end by `xs = (List.range xs.length).map f`.  Core Lean only. -/
namespace GV.Pmmr.Co
open GV GV.Pmmr

variable {α H : Type}

/-- hash of node `(n, h)`: a leaf hashes its position and element, a parent its position and both
children; the children of `(n, h+1)` are `(n - 2^h, h)` and `(n, h)` -/
def nodeHash (hf : HashFn α H) (f : Nat → α) : Nat → Nat → H
  | n, 0 => hf.leaf (mmr n) (f n)
  | n, h+1 => hf.node (mmr n + (h+1)) (nodeHash hf f (n - 2^h) h) (nodeHash hf f n h)

/-- the hashes written by the insertion of leaf `n`: the leaf and the parents it completes -/
def emitted (hf : HashFn α H) (f : Nat → α) (n : Nat) : List H :=
  (List.range (trailingOnes n + 1)).map (nodeHash hf f n)

/-- the hash vector after `N` insertions -/
def allHashes (hf : HashFn α H) (f : Nat → α) : Nat → List H
  | 0 => []
  | N+1 => allHashes hf f N ++ emitted hf f N

theorem allHashes_length (hf : HashFn α H) (f : Nat → α) (N : Nat) :
    (allHashes hf f N).length = mmr N := by
  induction N with
  | zero => simp [allHashes, mmr_zero]
  | succ N ih => simp only [allHashes, List.length_append, ih, emitted, List.length_map,
      List.length_range, mmr_succ]; omega

theorem allHashes_getElem? (hf : HashFn α H) (f : Nat → α) (N : Nat) :
    ∀ n h, n < N → h ≤ trailingOnes n → (allHashes hf f N)[mmr n + h]? = some (nodeHash hf f n h) := by
  induction N with
  | zero => intro n h hn; omega
  | succ N ih =>
    intro n h hn hh
    rw [allHashes]
    by_cases hlt : n < N
    · have : mmr n + h < (allHashes hf f N).length := by
        rw [allHashes_length]; exact (coord_lt_iff hh).2 hlt
      rw [List.getElem?_append_left this]
      exact ih n h hlt hh
    · have hn' : n = N := by omega
      subst hn'
      have hle : (allHashes hf f n).length ≤ mmr n + h := by rw [allHashes_length]; omega
      rw [List.getElem?_append_right hle, allHashes_length]
      have : mmr n + h - mmr n = h := by omega
      rw [this, emitted, List.getElem?_map, List.getElem?_range (by omega)]
      rfl

theorem allHashes_prefix (hf : HashFn α H) (f : Nat → α) {N M : Nat} (h : N ≤ M) :
    allHashes hf f N <+: allHashes hf f M := by
  induction h with
  | refl => exact List.prefix_refl _
  | step _ ih => exact List.IsPrefix.trans ih (by rw [allHashes]; exact List.prefix_append _ _)

/-! ### `PMMR::push` -/

/-- the merge loop of `push` for leaf `N`, entered at height `j` with `cur` = hash of `(N, j)`:
it appends the remaining parents `(N, j+1) … (N, trailingOnes N)` and never misses a sibling -/
theorem pushLoop_coord (hf : HashFn α H) (f : Nat → α) (N : Nat) :
    ∀ (fuel j : Nat), j ≤ trailingOnes N → trailingOnes N ≤ fuel + j →
      pushLoop hf (allHashes hf f N) N fuel j (mmr N + j) (nodeHash hf f N j)
        ((List.range (j+1)).map (nodeHash hf f N)) = some (emitted hf f N) := by
  intro fuel
  induction fuel with
  | zero =>
    intro j hj hf0
    have : j = trailingOnes N := by omega
    subst this
    simp [pushLoop, emitted]
  | succ fuel ih =>
    intro j hj hfu
    rw [pushLoop]
    rw [bitSet_coord hj]
    by_cases hlt : j < trailingOnes N
    · simp only [hlt, decide_true, if_true]
      obtain ⟨h1, h2, h3, _⟩ := left_sibling_coord hlt
      have hpos := two_pow_pos j
      have hidx : mmr N + j + 1 - 2 * 2^j = mmr (N - 2^j) + j := by omega
      rw [hidx, allHashes_getElem? hf f N (N - 2^j) j (by omega) h1]
      simp only []
      have hcur : hf.node (mmr N + j + 1) (nodeHash hf f (N - 2^j) j) (nodeHash hf f N j)
          = nodeHash hf f N (j+1) := rfl
      rw [hcur]
      have hacc : (List.range (j+1)).map (nodeHash hf f N) ++ [nodeHash hf f N (j+1)]
          = (List.range (j+1+1)).map (nodeHash hf f N) := by
        rw [List.range_succ (n := j+1), List.map_append]; rfl
      rw [hacc]
      exact ih (j+1) hlt (by omega)
    · have : j = trailingOnes N := by omega
      subst this
      simp [emitted]

/-- `push` onto the vector of `N` leaves gives the vector of `N + 1` leaves (for `N < 2^65`; the
model's loop has fuel 65, the code's `u64` leaf count cannot exceed `2^64`) -/
theorem push_coord (hf : HashFn α H) (f : Nat → α) (N : Nat) (hN : N < 2^65) :
    push hf (allHashes hf f N) (f N) = some (allHashes hf f (N+1)) := by
  have hc := peakMapHeight_leaf N
  have ht : trailingOnes N ≤ 65 := by
    have h1 := two_pow_le_of_le_trailingOnes (Nat.le_refl (trailingOnes N))
    have h2 : 2 ^ trailingOnes N ≤ 2 ^ 65 := by omega
    exact (Nat.pow_le_pow_iff_right (by omega)).1 h2
  have hl := pushLoop_coord hf f N 65 0 (Nat.zero_le _) (by omega)
  simp only [Nat.add_zero, Nat.zero_add, List.range_one, List.map_cons, List.map_nil] at hl
  simp only [push, allHashes_length, hc, ne_eq, not_true_eq_false, if_false]
  have e0 : nodeHash hf f N 0 = hf.leaf (mmr N) (f N) := rfl
  rw [e0] at hl
  rw [hl]
  rfl

theorem pushAll_coord (hf : HashFn α H) (f : Nat → α) :
    ∀ (m k : Nat), k + m ≤ 2^65 →
      pushAll hf (allHashes hf f k) ((List.range' k m).map f) = some (allHashes hf f (k + m)) := by
  intro m
  induction m with
  | zero => intro k _; simp [pushAll]
  | succ m ih =>
    intro k hk
    simp only [List.range'_succ, List.map_cons, pushAll]
    rw [push_coord hf f k (by omega)]
    simp only []
    rw [ih (k+1) (by omega)]
    congr 2; omega

/-- pushing the elements `f 0 … f (N-1)` onto the empty backend -/
theorem pushAll_range (hf : HashFn α H) (f : Nat → α) (N : Nat) (hN : N ≤ 2^65) :
    pushAll hf [] ((List.range N).map f) = some (allHashes hf f N) := by
  have := pushAll_coord hf f N 0 (by omega)
  simpa [allHashes, List.range_eq_range'] using this

/-! ### `validate` -/

theorem validate_allHashes [DecidableEq H] (hf : HashFn α H) (f : Nat → α) (N : Nat) :
    validate hf (allHashes hf f N) = true := by
  simp only [validate, List.all_eq_true, List.mem_range, allHashes_length]
  intro pos hpos
  obtain ⟨n, h, hh, rfl⟩ := coord_surj pos
  rw [height_co n h hh]
  cases h with
  | zero => simp
  | succ h =>
    have hn : n < N := (coord_lt_iff hh).1 hpos
    have hlt : h < trailingOnes n := hh
    obtain ⟨h1, h2, h3, _⟩ := left_sibling_coord hlt
    have hp := two_pow_succ h
    have hpp := two_pow_pos h
    have eL : mmr n + (h+1) - 2^(h+1) = mmr (n - 2^h) + h := by omega
    have eR : mmr n + (h+1) - 1 = mmr n + h := by omega
    simp only [Nat.succ_pos, if_true, gt_iff_lt]
    rw [eL, eR, allHashes_getElem? hf f N n (h+1) hn hh,
      allHashes_getElem? hf f N (n - 2^h) h (by omega) h1,
      allHashes_getElem? hf f N n h hn (by omega)]
    simp [nodeHash]

end GV.Pmmr.Co
