import GrinVerif.Spec.Mmr
import GrinVerif.Lemmas.PmmrTree
import GrinVerif.Lemmas.PmmrPeaks
/-! The defining construction (`Spec/Mmr.lean`: stack of peaks + position counter) in `(n, h)`
coordinates: after `N` appends its counter is `mmr N`, its output is `allHashes N`, its stack is the
forest of `N`, lowest tree first (C07).  Core Lean only. -/
namespace GV.Pmmr.Co
open GV GV.Pmmr GV.Spec.Mmr

variable {α H : Type}

/-- the spec's stack entry for the tree with coordinates `c` -/
def peakOf (hf : HashFn α H) (f : Nat → α) (c : Nat × Nat) : Peak H :=
  ⟨c.2, cpos c, nodeHash hf f c.1 c.2⟩

theorem carry_coord (hf : HashFn α H) (f : Nat → α) (N : Nat) :
    ∀ d j, j + d = trailingOnes N →
      carry hf ⟨j, mmr N + j, nodeHash hf f N j⟩ ((stackOf (N / 2^j) j).map (peakOf hf f))
          (mmr N + j + 1) (allHashes hf f N ++ (List.range (j+1)).map (nodeHash hf f N))
        = ⟨mmr (N+1), (stackOf (N+1) 0).map (peakOf hf f), allHashes hf f (N+1)⟩ := by
  intro d
  induction d with
  | zero =>
    intro j hj
    have ht : j = trailingOnes N := by omega
    obtain ⟨h1, h2⟩ := stackOf_succ ht
    rw [h2, h1]
    have hnext : mmr N + j + 1 = mmr (N+1) := by rw [mmr_succ]; omega
    have hout : allHashes hf f N ++ (List.range (j+1)).map (nodeHash hf f N) = allHashes hf f (N+1) := by
      rw [allHashes, emitted, ht]
    rw [hnext, hout]
    cases hT : stackOf (N / 2^(j+1)) (j+1) with
    | nil => simp [carry, peakOf, cpos]
    | cons c rest =>
      have hge := stackOf_height_ge (N / 2^(j+1)) (j+1) c (by rw [hT]; exact List.mem_cons_self ..)
      have hne : ¬ c.2 = j := by omega
      simp [carry, peakOf, cpos, hne]
  | succ d ih =>
    intro j hj
    have hlt : j < trailingOnes N := by omega
    rw [stackOf_div_step hlt]
    simp only [List.map_cons, carry, peakOf, if_true]
    have hcur : hf.node (mmr N + j + 1) (nodeHash hf f (N - 2^j) j) (nodeHash hf f N j)
        = nodeHash hf f N (j+1) := rfl
    have hacc : allHashes hf f N ++ (List.range (j+1)).map (nodeHash hf f N) ++ [nodeHash hf f N (j+1)]
        = allHashes hf f N ++ (List.range (j+1+1)).map (nodeHash hf f N) := by
      rw [List.range_succ (n := j+1), List.map_append, List.append_assoc]; rfl
    rw [hcur, hacc]
    exact ih (j+1) (by omega)

theorem append_coord (hf : HashFn α H) (f : Nat → α) (N : Nat) :
    append hf ⟨mmr N, (stackOf N 0).map (peakOf hf f), allHashes hf f N⟩ (f N)
      = ⟨mmr (N+1), (stackOf (N+1) 0).map (peakOf hf f), allHashes hf f (N+1)⟩ := by
  have := carry_coord hf f N (trailingOnes N) 0 (by omega)
  simpa [append, nodeHash] using this

theorem build_coord (hf : HashFn α H) (f : Nat → α) (N : Nat) :
    build hf ((List.range N).map f) = ⟨mmr N, (stackOf N 0).map (peakOf hf f), allHashes hf f N⟩ := by
  induction N with
  | zero => simp [build, mmr_zero, stackOf_zero, allHashes]
  | succ N ih =>
    have : build hf ((List.range (N+1)).map f) = append hf (build hf ((List.range N).map f)) (f N) := by
      simp [build, List.range_succ, List.foldl_append]
    rw [this, ih, append_coord]

/-! ### Consequences for the spec's observables -/

theorem spec_hashes (hf : HashFn α H) (f : Nat → α) (N : Nat) :
    hashes hf ((List.range N).map f) = allHashes hf f N := by
  simp [hashes, build_coord]

theorem spec_size (hf : HashFn α H) (f : Nat → α) (N : Nat) :
    size hf ((List.range N).map f) = mmr N := by
  simp [size, build_coord]

theorem spec_peakPositions (hf : HashFn α H) (f : Nat → α) (N : Nat) :
    peakPositions hf ((List.range N).map f) = (forest N).map cpos := by
  simp only [peakPositions, build_coord, ← forest_reverse, ← List.map_reverse, List.reverse_reverse,
    List.map_map]
  rfl

theorem spec_peakHashes (hf : HashFn α H) (f : Nat → α) (N : Nat) :
    Spec.Mmr.peakHashes hf ((List.range N).map f) = (forest N).map (fun c => nodeHash hf f c.1 c.2) := by
  simp only [Spec.Mmr.peakHashes, build_coord, ← forest_reverse, ← List.map_reverse, List.reverse_reverse,
    List.map_map]
  rfl

/-- the model's `bag` (left-to-right list) is the spec's right-to-left bagging of the reversed list -/
theorem bag_append_singleton (hf : HashFn α H) (size : Nat) (r : H) :
    ∀ l, bag hf size (l ++ [r]) = some (l.foldr (fun p acc => hf.node size p acc) r) := by
  intro l
  induction l with
  | nil => simp [bag]
  | cons p l ih => simp [bag, ih]

theorem bag_eq_bagRightToLeft (hf : HashFn α H) (size : Nat) (l : List H) :
    bag hf size l = bagRightToLeft hf size l.reverse := by
  rcases List.eq_nil_or_concat l with rfl | ⟨l', r, rfl⟩
  · rfl
  · rw [List.concat_eq_append, bag_append_singleton]
    simp [bagRightToLeft]

theorem spec_root (hf : HashFn α H) (f : Nat → α) (N : Nat) :
    Spec.Mmr.root hf ((List.range N).map f)
      = bag hf (mmr N) ((forest N).map (fun c => nodeHash hf f c.1 c.2)) := by
  rw [bag_eq_bagRightToLeft, Spec.Mmr.root, spec_size, build_coord, ← List.map_reverse, forest_reverse]
  simp only [List.map_map]
  rfl

/-- reading the hashes at the peak positions -/
theorem filterMap_forest (hf : HashFn α H) (f : Nat → α) (N : Nat) (l : List (Nat × Nat))
    (hl : ∀ c ∈ l, c.2 ≤ trailingOnes c.1 ∧ c.1 < N) :
    (l.map cpos).filterMap (fun p => (allHashes hf f N)[p]?) = l.map (fun c => nodeHash hf f c.1 c.2) := by
  induction l with
  | nil => rfl
  | cons c l ih =>
    have hc := hl c (List.mem_cons_self ..)
    have := allHashes_getElem? hf f N c.1 c.2 hc.2 hc.1
    simp only [List.map_cons, List.filterMap_cons, cpos, this]
    congr 1
    exact ih (fun d hd => hl d (List.mem_cons_of_mem _ hd))

theorem forest_valid {N : Nat} : ∀ c ∈ forest N, c.2 ≤ trailingOnes c.1 ∧ c.1 < N := by
  intro c hc; have := forest_mem hc; omega

theorem peakHashes_allHashes (hf : HashFn α H) (f : Nat → α) (N : Nat) :
    Pmmr.peakHashes (allHashes hf f N) = (forest N).map (fun c => nodeHash hf f c.1 c.2) := by
  rw [Pmmr.peakHashes, allHashes_length, peaks_forest]
  exact filterMap_forest hf f N (forest N) forest_valid

/-- a non-empty forest bags to something -/
theorem bag_ne_none (hf : HashFn α H) (size : Nat) : ∀ l : List H, l ≠ [] → bag hf size l ≠ none := by
  intro l hl
  cases l with
  | nil => exact absurd rfl hl
  | cons p ps => simp only [bag]; split <;> simp

/-- the model's `root` over the pushed vector is the spec's root -/
theorem root_allHashes (hf : HashFn α H) (f : Nat → α) (N : Nat) :
    Pmmr.root hf (allHashes hf f N) =
      match Spec.Mmr.root hf ((List.range N).map f) with
      | none => .zero
      | some r => .ok r := by
  rw [spec_root, Pmmr.root, peakHashes_allHashes, allHashes_length]
  by_cases hz : N = 0
  · subst hz; simp [mmr_zero, forest_zero, bag]
  · have hpos : mmr N ≠ 0 := by have := le_mmr N; omega
    rw [if_neg hpos]
    have hne : (forest N).map (fun c => nodeHash hf f c.1 c.2) ≠ [] := by
      simpa using forest_ne_nil (by omega : 0 < N)
    have := bag_ne_none hf (mmr N) _ hne
    cases hb : bag hf (mmr N) ((forest N).map (fun c => nodeHash hf f c.1 c.2)) with
    | none => exact absurd hb this
    | some r => rfl

/-! ### From functions back to lists -/

theorem list_eq_range_map (xs : List α) (x0 : α) :
    xs = (List.range xs.length).map (fun i => xs.getD i x0) := by
  apply List.ext_getElem
  · simp
  · intro i h1 h2
    simp [List.getD_eq_getElem?_getD, List.getElem?_eq_getElem h1]

end GV.Pmmr.Co
