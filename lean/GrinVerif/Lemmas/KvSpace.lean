import GrinVerif.Model.KvSpace
/-! Lemmas for the space accounting of C18: an allocation that fits behind the last used page
succeeds whatever the freelist looks like. -/
namespace GV.Kv

theorem alloc_ok_of_tail (s : Space) (n : Nat) (h : s.lastPg + n ≤ s.mapPages) :
    ∃ s', alloc s n = some s' ∧ s'.mapPages = s.mapPages ∧ s.lastPg ≤ s'.lastPg ∧ s'.lastPg ≤ s.lastPg + n := by
  unfold alloc
  cases findRun s.free n with
  | some p => exact ⟨_, rfl, rfl, Nat.le_refl _, Nat.le_add_right _ _⟩
  | none =>
    simp only [h, if_true]
    exact ⟨_, rfl, rfl, Nat.le_add_right _ _, Nat.le_refl _⟩

theorem allocAll_ok : ∀ (reqs : List Nat) (s : Space), s.lastPg + reqs.sum ≤ s.mapPages →
    ∃ s', allocAll s reqs = some s' ∧ s'.mapPages = s.mapPages ∧ s'.lastPg ≤ s.lastPg + reqs.sum
  | [], s, _ => ⟨s, rfl, rfl, by simp⟩
  | n :: r, s, h => by
    simp only [List.sum_cons] at h
    obtain ⟨s1, h1, hm, hlo, hhi⟩ := alloc_ok_of_tail s n (by omega)
    obtain ⟨s2, h2, hm2, hhi2⟩ := allocAll_ok r s1 (by rw [hm]; omega)
    refine ⟨s2, ?_, by rw [hm2, hm], ?_⟩
    · simp only [allocAll, h1, h2]
    · simp only [List.sum_cons]; omega

end GV.Kv
