import GrinVerif.Lemmas.SerCanon
import GrinVerif.Model.SerSeg
/-! Round-trip and refusal lemmas for `SegmentIdentifier`, `SegmentProof`, `Segment<T>`
(`Model/SerSeg.lean`), in the composable `++ rest` form. -/
namespace GV.SerSeg
open GV GV.Ser

/-! ## value domains -/

/-- 0-based positions a segment can carry: each strictly above the previous one, and `1 + pos` still
a `u64` (`last` is the previous **wire** value, 0 at the start) -/
def PosOK : Nat → List Nat → Prop
  | _, [] => True
  | last, p :: r => last < p + 1 ∧ p + 1 < 2^64 ∧ PosOK (p + 1) r

instance : (last : Nat) → (ps : List Nat) → Decidable (PosOK last ps)
  | _, [] => isTrue trivial
  | last, p :: r =>
    have := instDecidablePosOKOfNat (p + 1) r
    by unfold PosOK; infer_instance
where instDecidablePosOKOfNat : (last : Nat) → (ps : List Nat) → Decidable (PosOK last ps)
  | _, [] => isTrue trivial
  | last, p :: r =>
    have := instDecidablePosOKOfNat (p + 1) r
    by unfold PosOK; infer_instance

/-- in plain words: strictly increasing, all below `2^64 - 1` -/
theorem posOK_zero_iff (ps : List Nat) :
    PosOK 0 ps ↔ ps.Pairwise (· < ·) ∧ ∀ p ∈ ps, p + 1 < 2^64 := by
  have gen : ∀ (ps : List Nat) (last : Nat),
      PosOK last ps ↔ (ps.Pairwise (· < ·) ∧ (∀ p ∈ ps, p + 1 < 2^64) ∧ ∀ p ∈ ps, last < p + 1) := by
    intro ps
    induction ps with
    | nil => intro last; simp [PosOK]
    | cons p r ih =>
      intro last
      simp only [PosOK, ih (p + 1), List.pairwise_cons, List.mem_cons, forall_eq_or_imp]
      constructor
      · rintro ⟨h1, h2, h3, h4, h5⟩
        refine ⟨⟨fun q hq => by have := h5 q hq; omega, h3⟩, ⟨h2, h4⟩, h1, fun q hq => by have := h5 q hq; omega⟩
      · rintro ⟨⟨h1, h2⟩, ⟨h3, h4⟩, h5, _⟩
        exact ⟨h5, h3, h2, h4, fun q hq => by have := h1 q hq; omega⟩
  rw [gen ps 0]
  constructor
  · rintro ⟨h1, h2, _⟩; exact ⟨h1, h2⟩
  · rintro ⟨h1, h2⟩; exact ⟨h1, h2, fun p _ => by omega⟩

/-- wire values (1-based) a reader accepts after `last` -/
def WireOK : Nat → List Nat → Prop
  | _, [] => True
  | last, w :: r => last < w ∧ WireOK w r

theorem wireOK_zero_iff (ws : List Nat) : WireOK 0 ws ↔ (0 :: ws).Pairwise (· < ·) := by
  have gen : ∀ (ws : List Nat) (last : Nat), WireOK last ws ↔ (last :: ws).Pairwise (· < ·) := by
    intro ws
    induction ws with
    | nil => intro last; simp [WireOK]
    | cons w r ih =>
      intro last
      simp only [WireOK, ih w, List.pairwise_cons, List.mem_cons, forall_eq_or_imp]
      constructor
      · rintro ⟨h1, h2, h3⟩
        exact ⟨⟨h1, fun q hq => by have := h2 q hq; omega⟩, h2, h3⟩
      · rintro ⟨⟨h1, _⟩, h2, h3⟩
        exact ⟨h1, h2, h3⟩
  exact gen ws 0

/-! ## counts, positions, items -/

theorem readItemCount_write (n : Nat) (h : n ≤ MAX_SEGMENT_READ_ITEMS) (rest : Bytes) :
    readItemCount (writeU64 n ++ rest) = .ok (n, rest) := by
  have h64 : n < 2^64 := by unfold MAX_SEGMENT_READ_ITEMS GV.Gen.MAX_SEGMENT_READ_ITEMS at h; omega
  have : ¬ n > MAX_SEGMENT_READ_ITEMS := by omega
  rw [readItemCount, readU64_write _ h64, andThen_ok]
  simp [this]

/-- a count above `MAX_SEGMENT_READ_ITEMS` is refused before anything else is read -/
theorem readItemCount_tooLarge (n : Nat) (h64 : n < 2^64) (h : n > MAX_SEGMENT_READ_ITEMS) (rest : Bytes) :
    readItemCount (writeU64 n ++ rest) = .error .tooLarge := by
  rw [readItemCount, readU64_write _ h64, andThen_ok]
  simp [h]

theorem writeMulti_cons {α : Type} (w : α → Bytes) (x : α) (l : List α) (rest : Bytes) :
    writeMulti w (x :: l) ++ rest = w x ++ (writeMulti w l ++ rest) := by
  simp [writeMulti]

theorem readPositionsLoop_write (ps : List Nat) (last : Nat) (h : PosOK last ps) (rest : Bytes) :
    readPositionsLoop ps.length last (writeMulti encPos ps ++ rest) = .ok (ps, rest) := by
  induction ps generalizing last with
  | nil => simp [readPositionsLoop, writeMulti]
  | cons p r ih =>
    obtain ⟨h1, h2, h3⟩ := h
    have e : (1 + p) = p + 1 := by omega
    have hle : ¬ (p + 1 ≤ last) := by omega
    rw [writeMulti_cons, List.length_cons, readPositionsLoop, encPos, e, readU64_write _ h2, andThen_ok]
    simp only [hle, ↓reduceIte]
    rw [ih (p + 1) h3, andThen_ok]
    simp

theorem readPositions_write (ps : List Nat) (h : PosOK 0 ps) (rest : Bytes) :
    readPositions ps.length (writeMulti encPos ps ++ rest) = .ok (ps, rest) :=
  readPositionsLoop_write ps 0 h rest

/-- positions on the wire that are not strictly increasing (or start at 0) are refused with
`SortError`, wherever in the list the first violation sits -/
theorem readPositionsLoop_unsorted (ws : List Nat) (last : Nat) (hb : ∀ w ∈ ws, w < 2^64)
    (h : ¬ WireOK last ws) (rest : Bytes) :
    readPositionsLoop ws.length last (writeMulti writeU64 ws ++ rest) = .error .sort := by
  induction ws generalizing last with
  | nil => exact absurd trivial h
  | cons w r ih =>
    have hw : w < 2^64 := hb w (by simp)
    rw [writeMulti_cons, List.length_cons, readPositionsLoop, readU64_write _ hw, andThen_ok]
    by_cases hle : w ≤ last
    · simp [hle]
    · simp only [hle, ↓reduceIte]
      have h' : ¬ WireOK w r := fun hr => h ⟨by omega, hr⟩
      rw [ih w (fun x hx => hb x (by simp [hx])) h', andThen_error]

theorem readItems_write {α : Type} (p : Parser α) (w : α → Bytes) (l : List α)
    (hrt : ∀ x ∈ l, ∀ rest, p (w x ++ rest) = .ok (x, rest)) (rest : Bytes) :
    readItems p l.length (writeMulti w l ++ rest) = .ok (l, rest) := by
  induction l with
  | nil => simp [readItems, writeMulti]
  | cons x l ih =>
    rw [writeMulti_cons, List.length_cons, readItems, hrt x (by simp), andThen_ok,
      ih (fun y hy => hrt y (by simp [hy])), andThen_ok]

/-- exactly `n` items come back -/
theorem readItems_length {α : Type} {p : Parser α} {n : Nat} {bs : Bytes} {l : List α} {r : Bytes}
    (h : readItems p n bs = .ok (l, r)) : l.length = n := by
  induction n generalizing bs l r with
  | zero => simp only [readItems, Except.ok.injEq, Prod.mk.injEq] at h; rw [← h.1]; rfl
  | succ n ih =>
    rw [readItems] at h
    obtain ⟨x, r1, _, h2⟩ := andThen_inv h
    obtain ⟨xs, r2, h3, h4⟩ := andThen_inv h2
    simp only [Except.ok.injEq, Prod.mk.injEq] at h4
    rw [← h4.1, List.length_cons, ih h3]

theorem readPositionsLoop_length {n last : Nat} {bs : Bytes} {l : List Nat} {r : Bytes}
    (h : readPositionsLoop n last bs = .ok (l, r)) : l.length = n := by
  induction n generalizing last bs l r with
  | zero => simp only [readPositionsLoop, Except.ok.injEq, Prod.mk.injEq] at h; rw [← h.1]; rfl
  | succ n ih =>
    rw [readPositionsLoop] at h
    obtain ⟨pos, r1, _, h2⟩ := andThen_inv h
    split at h2
    · simp at h2
    · obtain ⟨xs, r2, h3, h4⟩ := andThen_inv h2
      simp only [Except.ok.injEq, Prod.mk.injEq] at h4
      rw [← h4.1, List.length_cons, ih h3]

/-- whatever position list is accepted is strictly increasing (as a value: 0-based, `PosOK`) -/
theorem readPositionsLoop_posOK {n last : Nat} {bs : Bytes} {l : List Nat} {r : Bytes} (hb : AllBytes bs)
    (h : readPositionsLoop n last bs = .ok (l, r)) :
    PosOK last l ∧ bs = writeMulti encPos l ++ r := by
  induction n generalizing last bs l r with
  | zero =>
    simp only [readPositionsLoop, Except.ok.injEq, Prod.mk.injEq] at h
    obtain ⟨rfl, rfl⟩ := h
    exact ⟨trivial, by simp [writeMulti]⟩
  | succ n ih =>
    rw [readPositionsLoop] at h
    obtain ⟨pos, r1, h1, h2⟩ := andThen_inv h
    obtain ⟨e1, hpos⟩ := readU64_inv hb h1
    split at h2
    · simp at h2
    · rename_i hle
      obtain ⟨xs, r2, h3, h4⟩ := andThen_inv h2
      simp only [Except.ok.injEq, Prod.mk.injEq] at h4
      obtain ⟨rfl, rfl⟩ := h4
      have hr1 : AllBytes r1 := by rw [e1] at hb; exact allBytes_append_right hb
      have hp1 : pos - 1 + 1 = pos := by omega
      obtain ⟨ok, e2⟩ := ih hr1 h3
      refine ⟨⟨by omega, by omega, by rw [hp1]; exact ok⟩, ?_⟩
      have e : 1 + (pos - 1) = pos := by omega
      rw [writeMulti_cons, encPos, e, e1, e2]

/-! ## SegmentIdentifier, SegmentProof -/

def SegId.WF (s : SegId) : Prop := s.height < 256 ∧ s.idx < 2^64
instance (s : SegId) : Decidable s.WF := by unfold SegId.WF; infer_instance

theorem decSegId_enc (s : SegId) (h : s.WF) (rest : Bytes) :
    decSegId (encSegId s ++ rest) = .ok (s, rest) := by
  rw [decSegId, encSegId, List.append_assoc, readU8_write, andThen_ok, readU64_write _ h.2, andThen_ok]

theorem decSegId_inv {bs : Bytes} {s : SegId} {r : Bytes} (hb : AllBytes bs) (h : decSegId bs = .ok (s, r)) :
    bs = encSegId s ++ r ∧ s.WF := by
  rw [decSegId] at h
  obtain ⟨ht, r1, h1, h2⟩ := andThen_inv h
  obtain ⟨idx, r2, h3, h4⟩ := andThen_inv h2
  simp only [Except.ok.injEq, Prod.mk.injEq] at h4
  obtain ⟨rfl, rfl⟩ := h4
  have e1 := readU8_inv h1
  have hr1 : AllBytes r1 := by rw [e1] at hb; exact allBytes_append_right hb
  obtain ⟨e2, hidx⟩ := readU64_inv hr1 h3
  have hh : ht < 256 := by rw [e1] at hb; exact hb ht (by simp [writeU8])
  exact ⟨by rw [e1, e2, encSegId, List.append_assoc], hh, hidx⟩

/-- hashes of a proof / a segment: 32 bytes each, at most `MAX_SEGMENT_READ_ITEMS` of them -/
def HashesWF (hs : List Bytes) : Prop :=
  (∀ h ∈ hs, h.length = HASH_SIZE) ∧ hs.length ≤ MAX_SEGMENT_READ_ITEMS

theorem decSegProof_enc (hs : List Bytes) (h : HashesWF hs) (rest : Bytes) :
    decSegProof (encSegProof hs ++ rest) = .ok (hs, rest) := by
  rw [decSegProof, encSegProof, List.append_assoc, readItemCount_write _ h.2, andThen_ok]
  exact readItems_write decHash writeFixed hs (fun x hx r => decHash_write x (h.1 x hx) r) rest

/-- a proof announcing more than `MAX_SEGMENT_READ_ITEMS` hashes is refused -/
theorem decSegProof_tooLarge (n : Nat) (h64 : n < 2^64) (h : n > MAX_SEGMENT_READ_ITEMS) (rest : Bytes) :
    decSegProof (writeU64 n ++ rest) = .error .tooLarge := by
  rw [decSegProof, readItemCount_tooLarge n h64 h, andThen_error]

/-! ## Segment<T> -/

/-- the segments a reader returns and a writer can write: counts equal to the list lengths and within
the cap, positions strictly increasing below `2^64 - 1`, 32-byte hashes -/
def Segment.WF {α : Type} (s : Segment α) : Prop :=
  s.id.WF
  ∧ s.hashPos.length = s.hashes.length ∧ PosOK 0 s.hashPos ∧ HashesWF s.hashes
  ∧ s.leafPos.length = s.leafData.length ∧ PosOK 0 s.leafPos ∧ s.leafData.length ≤ MAX_SEGMENT_READ_ITEMS
  ∧ HashesWF s.proof

theorem decSegment_enc {α : Type} (p : Parser α) (w : α → Bytes) (s : Segment α) (h : s.WF)
    (hrt : ∀ x ∈ s.leafData, ∀ rest, p (w x ++ rest) = .ok (x, rest)) (rest : Bytes) :
    decSegment p (encSegment w s ++ rest) = .ok (s, rest) := by
  obtain ⟨hid, hl1, hp1, hh, hl2, hp2, hc2, hpf⟩ := h
  have r1 := readPositions_write s.hashPos hp1
  have r2 := readPositions_write s.leafPos hp2
  rw [hl1] at r1
  rw [hl2] at r2
  rw [decSegment, encSegment]
  simp only [List.append_assoc]
  rw [decSegId_enc _ hid, andThen_ok, readItemCount_write _ hh.2, andThen_ok, r1, andThen_ok,
    readItems_write decHash writeFixed s.hashes (fun x hx r => decHash_write x (hh.1 x hx) r), andThen_ok,
    readItemCount_write _ hc2, andThen_ok, r2, andThen_ok,
    readItems_write p w s.leafData hrt, andThen_ok, decSegProof_enc _ hpf, andThen_ok]

/-- the hash count is checked against the cap before any position is read -/
theorem decSegment_hashCount_tooLarge {α : Type} (p : Parser α) (id : SegId) (hid : id.WF) (n : Nat)
    (h64 : n < 2^64) (h : n > MAX_SEGMENT_READ_ITEMS) (rest : Bytes) :
    decSegment p (encSegId id ++ (writeU64 n ++ rest)) = .error .tooLarge := by
  rw [decSegment, decSegId_enc _ hid, andThen_ok, readItemCount_tooLarge n h64 h, andThen_error]

/-- … and so is the leaf count, after a well-formed hash part -/
theorem decSegment_leafCount_tooLarge {α : Type} (p : Parser α) (id : SegId) (hid : id.WF)
    (hp : List Nat) (hs : List Bytes) (hl : hp.length = hs.length) (hpo : PosOK 0 hp) (hh : HashesWF hs)
    (n : Nat) (h64 : n < 2^64) (h : n > MAX_SEGMENT_READ_ITEMS) (rest : Bytes) :
    decSegment p (encSegId id ++ (writeU64 hs.length ++ (writeMulti encPos hp ++ (writeMulti writeFixed hs
      ++ (writeU64 n ++ rest))))) = .error .tooLarge := by
  have r1 := readPositions_write hp hpo
  rw [hl] at r1
  rw [decSegment, decSegId_enc _ hid, andThen_ok, readItemCount_write _ hh.2, andThen_ok, r1, andThen_ok,
    readItems_write decHash writeFixed hs (fun x hx r => decHash_write x (hh.1 x hx) r), andThen_ok,
    readItemCount_tooLarge n h64 h, andThen_error]

/-- hash positions that are not strictly increasing from above 0: `SortError` -/
theorem decSegment_hashPos_unsorted {α : Type} (p : Parser α) (id : SegId) (hid : id.WF) (ws : List Nat)
    (hc : ws.length ≤ MAX_SEGMENT_READ_ITEMS) (hb : ∀ w ∈ ws, w < 2^64) (h : ¬ WireOK 0 ws) (rest : Bytes) :
    decSegment p (encSegId id ++ (writeU64 ws.length ++ (writeMulti writeU64 ws ++ rest))) = .error .sort := by
  rw [decSegment, decSegId_enc _ hid, andThen_ok, readItemCount_write _ hc, andThen_ok, readPositions,
    readPositionsLoop_unsorted ws 0 hb h, andThen_error]

/-- leaf positions that are not strictly increasing from above 0: `SortError` -/
theorem decSegment_leafPos_unsorted {α : Type} (p : Parser α) (id : SegId) (hid : id.WF)
    (hp : List Nat) (hs : List Bytes) (hl : hp.length = hs.length) (hpo : PosOK 0 hp) (hh : HashesWF hs)
    (ws : List Nat) (hc : ws.length ≤ MAX_SEGMENT_READ_ITEMS) (hb : ∀ w ∈ ws, w < 2^64)
    (h : ¬ WireOK 0 ws) (rest : Bytes) :
    decSegment p (encSegId id ++ (writeU64 hs.length ++ (writeMulti encPos hp ++ (writeMulti writeFixed hs
      ++ (writeU64 ws.length ++ (writeMulti writeU64 ws ++ rest)))))) = .error .sort := by
  have r1 := readPositions_write hp hpo
  rw [hl] at r1
  rw [decSegment, decSegId_enc _ hid, andThen_ok, readItemCount_write _ hh.2, andThen_ok, r1, andThen_ok,
    readItems_write decHash writeFixed hs (fun x hx r => decHash_write x (hh.1 x hx) r), andThen_ok,
    readItemCount_write _ hc, andThen_ok, readPositions, readPositionsLoop_unsorted ws 0 hb h, andThen_error]

/-! ## the empty and the singleton list satisfy the well-formedness predicates

(`HashesWF`, `PosOK`, hence `Segment.WF`, have no hypothesis that excludes an EMPTY list: a segment
with no pruned-subtree hashes, with no leaves, or with an EMPTY Merkle proof — what
`SegmentProof::generate` produces when the whole MMR fits into the one segment — is well-formed) -/

theorem hashesWF_nil : HashesWF [] := ⟨fun _ h => (List.not_mem_nil h).elim, Nat.zero_le _⟩

theorem hashesWF_singleton (h : Bytes) (hl : h.length = HASH_SIZE) : HashesWF [h] :=
  ⟨fun x hx => by simp only [List.mem_singleton] at hx; subst hx; exact hl,
   by simp only [List.length_singleton]; decide⟩

theorem posOK_nil : PosOK 0 [] :=
  (posOK_zero_iff []).mpr ⟨List.Pairwise.nil, fun _ h => (List.not_mem_nil h).elim⟩

end GV.SerSeg
