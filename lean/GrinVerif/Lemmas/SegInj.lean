import GrinVerif.Model.Seg
/-! Injectivity of segment validation (C16 soundness core): two segments with the same
identifier that are accepted against the same root (same MMR size, same bitmap) agree on
everything the reconstruction reads — leaf data at every required position, every hash looked up
through `get_hash`, every proof hash consumed.  No MMR arithmetic is needed here: the shape of the
computation depends on the positions and the bitmap only.  Core Lean only. -/
namespace GV.Seg
open GV GV.Pmmr

variable {α H : Type}

/-! ### the existence guard of `Segment::root` (repair 362e7d94e) -/

theorem root_of_empty (hf : HashFn α H) (s : Segment α H) (size : Nat) (bm : Option (Nat → Bool))
    (h : s.id.unprunedSize size = 0) : s.root hf size bm = .err .nonExistent := by
  unfold Segment.root; rw [if_pos h]

theorem root_of_nonempty (hf : HashFn α H) (s : Segment α H) (size : Nat) (bm : Option (Nat → Bool))
    (h : s.id.unprunedSize size ≠ 0) :
    s.root hf size bm =
      rootWith hf s size bm (s.id.positions size) (s.id.full size) (s.id.peaksIn size) := by
  unfold Segment.root; rw [if_neg h]

/-- a successful `root` passed the guard -/
theorem root_ok_rootWith (hf : HashFn α H) (s : Segment α H) (size : Nat) (bm : Option (Nat → Bool))
    (o : Option H) (h : s.root hf size bm = .ok o) :
    s.id.unprunedSize size ≠ 0 ∧
      rootWith hf s size bm (s.id.positions size) (s.id.full size) (s.id.peaksIn size) = .ok o := by
  unfold Segment.root at h
  split at h
  · cases h
  · rename_i hne; exact ⟨hne, h⟩

theorem capacity_pos (id : Ident) : 0 < id.capacity := by
  unfold Ident.capacity shlW
  have h1 : 2 ^ (id.height % 64) < 2 ^ 64 := Nat.pow_lt_pow_right (by omega) (Nat.mod_lt _ (by omega))
  have h2 : 0 < 2 ^ (id.height % 64) := Nat.pow_pos (by omega)
  rw [Nat.one_mul, Nat.mod_eq_of_lt h1]; exact h2

/-- a full segment exists -/
theorem unprunedSize_ne_zero_of_full (id : Ident) (size : Nat) (h : id.full size = true) :
    id.unprunedSize size ≠ 0 := by
  unfold Ident.full at h
  have := capacity_pos id
  simp only [beq_iff_eq] at h
  omega


/-- what collision resistance of the two hash shapes gives (same index on both sides suffices) -/
structure Inj (hf : HashFn α H) : Prop where
  leaf : ∀ i x y, hf.leaf i x = hf.leaf i y → x = y
  node : ∀ i a b c d, hf.node i a b = hf.node i c d → a = c ∧ b = d

/-- something a segment was asked for during `Segment::root` -/
inductive Ev (α H : Type)
  | leaf (pos : Nat) (x : α)
  | hash (pos : Nat) (h : H)

/-- what one iteration of the loop of `Segment::root` reads of the segment -/
def stepReads (s : Segment α H) (bm : Option (Nat → Bool)) (mmrSize : Nat)
    (st : RootSt α H) (pos0 : Nat) : List (Ev α H) :=
  if height pos0 = 0 then
    if required bm mmrSize pos0 then
      match iterFind st.2 pos0 with
      | some (x, _) => [.leaf pos0 x]
      | none => []
    else []
  else
    match st.1, bm with
    | r :: l :: _, some _ =>
      match l, r with
      | none, some _ =>
        match s.getHash (1 + pos0 - 2 ^ height pos0 - 1) with
        | .ok h => [.hash (1 + pos0 - 2 ^ height pos0 - 1) h]
        | _ => []
      | some _, none =>
        match s.getHash (pos0 - 1) with
        | .ok h => [.hash (pos0 - 1) h]
        | _ => []
      | _, _ => []
    | _, _ => []

/-- everything the loop of `Segment::root` reads of the segment, in order -/
def rootReads (hf : HashFn α H) (s : Segment α H) (bm : Option (Nat → Bool)) (mmrSize : Nat) :
    RootSt α H → List Nat → List (Ev α H)
  | _, [] => []
  | st, p :: ps =>
    stepReads s bm mmrSize st p ++
      match rootStep hf s bm mmrSize st p with
      | .ok st' => rootReads hf s bm mmrSize st' ps
      | _ => []

def shape (stk : List (Option H)) : List Bool := stk.map Option.isSome

theorem shape_eq_of_eq {a b : List (Option H)} (h : a = b) : shape a = shape b := by rw [h]

/-- one step: same shape before ⇒ same shape after; equal stacks after ⇒ equal stacks before and
equal reads -/
theorem rootStep_inj (hf : HashFn α H) (inj : Inj hf) (s1 s2 : Segment α H)
    (bm : Option (Nat → Bool)) (size p : Nat) (st1 st2 st1' st2' : RootSt α H)
    (h1 : rootStep hf s1 bm size st1 p = .ok st1') (h2 : rootStep hf s2 bm size st2 p = .ok st2')
    (hs : shape st1.1 = shape st2.1) :
    shape st1'.1 = shape st2'.1 ∧
    (st1'.1 = st2'.1 → st1.1 = st2.1 ∧ stepReads s1 bm size st1 p = stepReads s2 bm size st2 p) := by
  obtain ⟨stk1, it1⟩ := st1
  obtain ⟨stk2, it2⟩ := st2
  simp only [rootStep] at h1 h2
  simp only [stepReads]
  by_cases hh : height p = 0
  · simp only [hh, if_true] at h1 h2 ⊢
    by_cases hr : required bm size p = true
    · simp only [hr, if_true] at h1 h2 ⊢
      cases hf1 : iterFind it1 p with
      | none => simp [hf1] at h1
      | some r1 =>
        cases hf2 : iterFind it2 p with
        | none => simp [hf2] at h2
        | some r2 =>
          obtain ⟨x1, it1'⟩ := r1
          obtain ⟨x2, it2'⟩ := r2
          simp only [hf1, hf2, Res.ok.injEq] at h1 h2
          subst h1; subst h2
          refine ⟨by simpa [shape] using hs, ?_⟩
          intro he
          simp only [List.cons.injEq, Option.some.injEq] at he
          have := inj.leaf p x1 x2 he.1
          subst this
          exact ⟨he.2, rfl⟩
    · simp only [hr] at h1 h2 ⊢
      simp only [Bool.false_eq_true, if_false, Res.ok.injEq] at h1 h2 ⊢
      subst h1; subst h2
      refine ⟨by simpa [shape] using hs, ?_⟩
      intro he
      simp only [List.cons.injEq, true_and] at he
      exact ⟨he, trivial⟩
  · simp only [hh, if_false] at h1 h2 ⊢
    match stk1, stk2, hs with
    | [], _, _ => simp at h1
    | [_], _, _ => simp at h1
    | _ :: _ :: _, [], _ => simp at h2
    | _ :: _ :: _, [_], _ => simp at h2
    | r1 :: l1 :: rest1, r2 :: l2 :: rest2, hs =>
      simp only [shape, List.map_cons, List.cons.injEq] at hs
      obtain ⟨hr, hl, hrest⟩ := hs
      cases bm with
      | none =>
        simp only at h1 h2 ⊢
        cases l1 with
        | none => simp at h1
        | some a1 =>
          cases l2 with
          | none => simp at h2
          | some a2 =>
            cases r1 with
            | none => simp at h1
            | some b1 =>
              cases r2 with
              | none => simp at h2
              | some b2 =>
                simp only [Res.ok.injEq] at h1 h2
                subst h1; subst h2
                refine ⟨by simpa [shape] using hrest, ?_⟩
                intro he
                simp only [List.cons.injEq, Option.some.injEq] at he
                obtain ⟨e1, e2⟩ := inj.node p _ _ _ _ he.1
                subst e1; subst e2
                exact ⟨by rw [he.2], trivial⟩
      | some b =>
        simp only at h1 h2 ⊢
        cases l1 with
        | none =>
          cases l2 with
          | some a2 => simp at hl
          | none =>
            cases r1 with
            | none =>
              cases r2 with
              | some _ => simp at hr
              | none =>
                simp only [Res.ok.injEq] at h1 h2
                subst h1; subst h2
                refine ⟨by simpa [shape] using hrest, ?_⟩
                intro he
                simp only [List.cons.injEq, true_and] at he
                exact ⟨by rw [he], rfl⟩
            | some b1 =>
              cases r2 with
              | none => simp at hr
              | some b2 =>
                cases hg1 : s1.getHash (1 + p - 2 ^ height p - 1) with
                | err e => simp [hg1] at h1
                | panic => simp [hg1] at h1
                | ok g1 =>
                  cases hg2 : s2.getHash (1 + p - 2 ^ height p - 1) with
                  | err e => simp [hg2] at h2
                  | panic => simp [hg2] at h2
                  | ok g2 =>
                    simp only [hg1, hg2, Res.ok.injEq] at h1 h2
                    subst h1; subst h2
                    refine ⟨by simpa [shape] using hrest, ?_⟩
                    intro he
                    simp only [List.cons.injEq, Option.some.injEq] at he
                    obtain ⟨e1, e2⟩ := inj.node p _ _ _ _ he.1
                    subst e1; subst e2
                    exact ⟨by rw [he.2], rfl⟩
        | some a1 =>
          cases l2 with
          | none => simp at hl
          | some a2 =>
            cases r1 with
            | none =>
              cases r2 with
              | some _ => simp at hr
              | none =>
                cases hg1 : s1.getHash (p - 1) with
                | err e => simp [hg1] at h1
                | panic => simp [hg1] at h1
                | ok g1 =>
                  cases hg2 : s2.getHash (p - 1) with
                  | err e => simp [hg2] at h2
                  | panic => simp [hg2] at h2
                  | ok g2 =>
                    simp only [hg1, hg2, Res.ok.injEq] at h1 h2
                    subst h1; subst h2
                    refine ⟨by simpa [shape] using hrest, ?_⟩
                    intro he
                    simp only [List.cons.injEq, Option.some.injEq] at he
                    obtain ⟨e1, e2⟩ := inj.node p _ _ _ _ he.1
                    subst e1; subst e2
                    exact ⟨by rw [he.2], rfl⟩
            | some b1 =>
              cases r2 with
              | none => simp at hr
              | some b2 =>
                simp only [Res.ok.injEq] at h1 h2
                subst h1; subst h2
                refine ⟨by simpa [shape] using hrest, ?_⟩
                intro he
                simp only [List.cons.injEq, Option.some.injEq] at he
                obtain ⟨e1, e2⟩ := inj.node p _ _ _ _ he.1
                subst e1; subst e2
                exact ⟨by rw [he.2], rfl⟩


theorem rootLoop_inj (hf : HashFn α H) (inj : Inj hf) (s1 s2 : Segment α H)
    (bm : Option (Nat → Bool)) (size : Nat) : ∀ (ps : List Nat) (st1 st2 st1' st2' : RootSt α H),
    rootLoop hf s1 bm size st1 ps = .ok st1' → rootLoop hf s2 bm size st2 ps = .ok st2' →
    shape st1.1 = shape st2.1 →
    shape st1'.1 = shape st2'.1 ∧
    (st1'.1 = st2'.1 → st1.1 = st2.1 ∧
      rootReads hf s1 bm size st1 ps = rootReads hf s2 bm size st2 ps) := by
  intro ps
  induction ps with
  | nil =>
    intro st1 st2 st1' st2' h1 h2 hs
    simp only [rootLoop, Res.ok.injEq] at h1 h2
    subst h1; subst h2
    exact ⟨hs, fun he => ⟨he, rfl⟩⟩
  | cons p ps ih =>
    intro st1 st2 st1' st2' h1 h2 hs
    simp only [rootLoop] at h1 h2
    cases hr1 : rootStep hf s1 bm size st1 p with
    | err e => simp [hr1] at h1
    | panic => simp [hr1] at h1
    | ok m1 =>
      cases hr2 : rootStep hf s2 bm size st2 p with
      | err e => simp [hr2] at h2
      | panic => simp [hr2] at h2
      | ok m2 =>
        simp only [hr1, hr2] at h1 h2
        obtain ⟨hsm, hback⟩ := rootStep_inj hf inj s1 s2 bm size p st1 st2 m1 m2 hr1 hr2 hs
        obtain ⟨hsf, hback2⟩ := ih m1 m2 st1' st2' h1 h2 hsm
        refine ⟨hsf, ?_⟩
        intro he
        obtain ⟨hm, hreads⟩ := hback2 he
        obtain ⟨h0, hsr⟩ := hback hm
        refine ⟨h0, ?_⟩
        simp only [rootReads, hr1, hr2, hsr, hreads]

/-- what the peak-bagging loop of `Segment::root` reads of the segment -/
def peakReads (s : Segment α H) (bm : Option (Nat → Bool)) : List (Option H) → List Nat → List (Ev α H)
  | _, [] => []
  | [], _ :: _ => []
  | lh :: stk, p :: ps =>
    (if lh.isNone && bm.isSome then
      match s.getHash p with
      | .ok h => [Ev.hash p h]
      | _ => []
    else []) ++ peakReads s bm stk ps

theorem bagPeaks_inj (hf : HashFn α H) (inj : Inj hf) (s1 s2 : Segment α H)
    (bm : Option (Nat → Bool)) (size : Nat) : ∀ (pks : List Nat) (stk1 stk2 : List (Option H))
    (acc1 acc2 v1 v2 : Option H),
    bagPeaks hf s1 bm size stk1 acc1 pks = .ok v1 → bagPeaks hf s2 bm size stk2 acc2 pks = .ok v2 →
    shape stk1 = shape stk2 → acc1.isSome = acc2.isSome →
    v1.isSome = v2.isSome ∧
    (v1 = v2 → acc1 = acc2 ∧ stk1.take pks.length = stk2.take pks.length ∧
      peakReads s1 bm stk1 pks = peakReads s2 bm stk2 pks) := by
  intro pks
  induction pks with
  | nil =>
    intro stk1 stk2 acc1 acc2 v1 v2 h1 h2 _ ha
    simp only [bagPeaks, Res.ok.injEq] at h1 h2
    subst h1; subst h2
    exact ⟨ha, fun he => ⟨he, by simp, by simp [peakReads]⟩⟩
  | cons p ps ih =>
    intro stk1 stk2 acc1 acc2 v1 v2 h1 h2 hs ha
    match stk1, stk2, hs with
    | [], _, _ => simp [bagPeaks] at h1
    | _ :: _, [], _ => simp [bagPeaks] at h2
    | lh1 :: r1, lh2 :: r2, hs =>
      simp only [shape, List.map_cons, List.cons.injEq] at hs
      obtain ⟨hl, hrest⟩ := hs
      simp only [bagPeaks] at h1 h2
      simp only [peakReads]
      -- the hash used for this peak in each run
      cases lh1 with
      | some a1 =>
        cases lh2 with
        | none => simp at hl
        | some a2 =>
          simp only [Option.isNone_some, Bool.false_and, Bool.false_eq_true, if_false] at h1 h2 ⊢
          have hacc : (match acc1 with | none => some a1 | some r => some (hf.node size a1 r)).isSome
              = (match acc2 with | none => some a2 | some r => some (hf.node size a2 r)).isSome := by
            cases acc1 <;> cases acc2 <;> simp
          obtain ⟨hv, hback⟩ := ih r1 r2 _ _ v1 v2 h1 h2 hrest hacc
          refine ⟨hv, ?_⟩
          intro he
          obtain ⟨hacc', htake, hreads⟩ := hback he
          cases acc1 with
          | none =>
            cases acc2 with
            | some _ => simp at ha
            | none =>
              simp only [Option.some.injEq] at hacc'
              subst hacc'
              exact ⟨rfl, by simp [htake], by simp [hreads]⟩
          | some c1 =>
            cases acc2 with
            | none => simp at ha
            | some c2 =>
              simp only [Option.some.injEq] at hacc'
              obtain ⟨e1, e2⟩ := inj.node size _ _ _ _ hacc'
              subst e1; subst e2
              exact ⟨rfl, by simp [htake], by simp [hreads]⟩
      | none =>
        cases lh2 with
        | some _ => simp at hl
        | none =>
          cases bm with
          | none => simp at h1
          | some b =>
            simp only [Option.isNone_none, Option.isSome_some, Bool.and_self, if_true] at h1 h2 ⊢
            cases hg1 : s1.getHash p with
            | err e => simp [hg1] at h1
            | panic => simp [hg1] at h1
            | ok g1 =>
              cases hg2 : s2.getHash p with
              | err e => simp [hg2] at h2
              | panic => simp [hg2] at h2
              | ok g2 =>
                simp only [hg1, hg2] at h1 h2 ⊢
                have hacc : (match acc1 with | none => some g1 | some r => some (hf.node size g1 r)).isSome
                    = (match acc2 with | none => some g2 | some r => some (hf.node size g2 r)).isSome := by
                  cases acc1 <;> cases acc2 <;> simp
                obtain ⟨hv, hback⟩ := ih r1 r2 _ _ v1 v2 h1 h2 hrest hacc
                refine ⟨hv, ?_⟩
                intro he
                obtain ⟨hacc', htake, hreads⟩ := hback he
                cases acc1 with
                | none =>
                  cases acc2 with
                  | some _ => simp at ha
                  | none =>
                    simp only [Option.some.injEq] at hacc'
                    subst hacc'
                    exact ⟨rfl, by simp [htake], by simp [hreads]⟩
                | some c1 =>
                  cases acc2 with
                  | none => simp at ha
                  | some c2 =>
                    simp only [Option.some.injEq] at hacc'
                    obtain ⟨e1, e2⟩ := inj.node size _ _ _ _ hacc'
                    subst e1; subst e2
                    exact ⟨rfl, by simp [htake], by simp [hreads]⟩

/-! ### The proof part -/

theorem climb_inj (hf : HashFn α H) (inj : Inj hf) : ∀ (br : List (Nat × Nat)) (root1 root2 : H)
    (it1 it2 : List H) (r1 r2 : H) (rest1 rest2 : List H),
    climb hf root1 it1 br = .ok (r1, rest1) → climb hf root2 it2 br = .ok (r2, rest2) →
    rest1 = it1.drop br.length ∧ rest2 = it2.drop br.length ∧ br.length ≤ it1.length ∧
    br.length ≤ it2.length ∧
    (r1 = r2 → root1 = root2 ∧ it1.take br.length = it2.take br.length) := by
  intro br
  induction br with
  | nil =>
    intro root1 root2 it1 it2 r1 r2 rest1 rest2 h1 h2
    simp only [climb, Res.ok.injEq, Prod.mk.injEq] at h1 h2
    obtain ⟨rfl, rfl⟩ := h1
    obtain ⟨rfl, rfl⟩ := h2
    simp
  | cons x br ih =>
    intro root1 root2 it1 it2 r1 r2 rest1 rest2 h1 h2
    obtain ⟨p0, s0⟩ := x
    match it1, it2 with
    | [], _ => simp [climb] at h1
    | _ :: _, [] => simp [climb] at h2
    | a1 :: t1, a2 :: t2 =>
      simp only [climb] at h1 h2
      obtain ⟨e1, e2, l1, l2, hback⟩ := ih _ _ t1 t2 r1 r2 rest1 rest2 h1 h2
      refine ⟨by simpa using e1, by simpa using e2, by simp; omega, by simp; omega, ?_⟩
      intro he
      obtain ⟨hroot, htake⟩ := hback he
      by_cases hl : isLeftSibling s0 = true
      · simp only [hl, if_true] at hroot
        obtain ⟨ea, er⟩ := inj.node p0 _ _ _ _ hroot
        subst ea; subst er
        exact ⟨rfl, by simp [htake]⟩
      · simp only [hl] at hroot
        obtain ⟨er, ea⟩ := inj.node p0 _ _ _ _ hroot
        subst ea; subst er
        exact ⟨rfl, by simp [htake]⟩

theorem bagLeft_inj (hf : HashFn α H) (inj : Inj hf) (lastPos : Nat) : ∀ (ps : List Nat)
    (root1 root2 : H) (it1 it2 : List H) (r1 r2 : H) (rest1 rest2 : List H),
    bagLeft hf lastPos root1 it1 ps = .ok (r1, rest1) → bagLeft hf lastPos root2 it2 ps = .ok (r2, rest2) →
    rest1 = it1.drop ps.length ∧ rest2 = it2.drop ps.length ∧ ps.length ≤ it1.length ∧
    ps.length ≤ it2.length ∧
    (r1 = r2 → root1 = root2 ∧ it1.take ps.length = it2.take ps.length) := by
  intro ps
  induction ps with
  | nil =>
    intro root1 root2 it1 it2 r1 r2 rest1 rest2 h1 h2
    simp only [bagLeft, Res.ok.injEq, Prod.mk.injEq] at h1 h2
    obtain ⟨rfl, rfl⟩ := h1
    obtain ⟨rfl, rfl⟩ := h2
    simp
  | cons p ps ih =>
    intro root1 root2 it1 it2 r1 r2 rest1 rest2 h1 h2
    match it1, it2 with
    | [], _ => simp [bagLeft] at h1
    | _ :: _, [] => simp [bagLeft] at h2
    | a1 :: t1, a2 :: t2 =>
      simp only [bagLeft] at h1 h2
      obtain ⟨e1, e2, l1, l2, hback⟩ := ih _ _ t1 t2 r1 r2 rest1 rest2 h1 h2
      refine ⟨by simpa using e1, by simpa using e2, by simp; omega, by simp; omega, ?_⟩
      intro he
      obtain ⟨hroot, htake⟩ := hback he
      obtain ⟨ea, er⟩ := inj.node lastPos _ _ _ _ hroot
      subst ea; subst er
      exact ⟨rfl, by simp [htake]⟩

/-- number of proof hashes `reconstruct_root` consumes: depends on the positions only -/
def consumed (lastPos first0 last0 unprunedPos : Nat) : Nat :=
  (branchFrom last0 lastPos unprunedPos).length +
  (if ((peaks lastPos).filter (· > branchPeak last0 lastPos)).head?.isSome then 1 else 0) +
  ((peaks lastPos).filter (· < first0)).length


theorem take_add_eq {β : Type} (l1 l2 : List β) (a b : Nat) (h1 : l1.take a = l2.take a)
    (h2 : (l1.drop a).take b = (l2.drop a).take b) : l1.take (a + b) = l2.take (a + b) := by
  rw [List.take_add, List.take_add, h1, h2]

/-- `reconstruct_root` is injective in the segment root and in the proof hashes it consumes -/
theorem reconstructRoot_inj (hf : HashFn α H) (inj : Inj hf) (pr1 pr2 : List H)
    (lastPos first0 last0 upos : Nat) (sr1 sr2 r1 r2 : H) (rest1 rest2 : List H)
    (h1 : reconstructRoot hf pr1 lastPos first0 last0 sr1 upos = .ok (r1, rest1))
    (h2 : reconstructRoot hf pr2 lastPos first0 last0 sr2 upos = .ok (r2, rest2)) :
    rest1 = pr1.drop (consumed lastPos first0 last0 upos) ∧
    rest2 = pr2.drop (consumed lastPos first0 last0 upos) ∧
    consumed lastPos first0 last0 upos ≤ pr1.length ∧
    (r1 = r2 → sr1 = sr2 ∧
      pr1.take (consumed lastPos first0 last0 upos) = pr2.take (consumed lastPos first0 last0 upos)) := by
  simp only [reconstructRoot] at h1 h2
  cases hc1 : climb hf sr1 pr1 (branchFrom last0 lastPos upos) with
  | err e => simp [hc1] at h1
  | panic => simp [hc1] at h1
  | ok x1 =>
    cases hc2 : climb hf sr2 pr2 (branchFrom last0 lastPos upos) with
    | err e => simp [hc2] at h2
    | panic => simp [hc2] at h2
    | ok x2 =>
      obtain ⟨c1, i1⟩ := x1
      obtain ⟨c2, i2⟩ := x2
      simp only [hc1, hc2] at h1 h2
      obtain ⟨ei1, ei2, li1, li2, hcb⟩ := climb_inj hf inj _ _ _ _ _ _ _ _ _ hc1 hc2
      simp only [consumed]
      cases hrhs : ((peaks lastPos).filter (· > branchPeak last0 lastPos)).head? with
      | none =>
        simp only [hrhs] at h1 h2
        obtain ⟨eb1, eb2, lb1, lb2, hbb⟩ := bagLeft_inj hf inj lastPos _ _ _ _ _ _ _ _ _ h1 h2
        simp only [List.length_reverse] at eb1 eb2 lb1 lb2 hbb
        simp only [Option.isSome_none, Bool.false_eq_true, if_false, Nat.add_zero]
        refine ⟨by rw [eb1, ei1, List.drop_drop], by rw [eb2, ei2, List.drop_drop], ?_, ?_⟩
        · rw [ei1, List.length_drop] at lb1; omega
        · intro he
          obtain ⟨hroot, htake⟩ := hbb he
          obtain ⟨hsr, htake0⟩ := hcb hroot
          refine ⟨hsr, take_add_eq _ _ _ _ htake0 ?_⟩
          rw [← ei1, ← ei2]; exact htake
      | some q =>
        simp only [hrhs] at h1 h2
        match i1, i2, ei1, ei2 with
        | [], _, _, _ => simp at h1
        | _ :: _, [], _, _ => simp at h2
        | a1 :: t1, a2 :: t2, ei1, ei2 =>
          simp only at h1 h2
          obtain ⟨eb1, eb2, lb1, lb2, hbb⟩ := bagLeft_inj hf inj lastPos _ _ _ _ _ _ _ _ _ h1 h2
          simp only [List.length_reverse] at eb1 eb2 lb1 lb2 hbb
          simp only [Option.isSome_some, if_true]
          have hd1 : t1 = pr1.drop ((branchFrom last0 lastPos upos).length + 1) := by
            rw [← List.drop_drop, ← ei1]; rfl
          have hd2 : t2 = pr2.drop ((branchFrom last0 lastPos upos).length + 1) := by
            rw [← List.drop_drop, ← ei2]; rfl
          refine ⟨by rw [eb1, hd1, List.drop_drop], by rw [eb2, hd2, List.drop_drop], ?_, ?_⟩
          · rw [hd1, List.length_drop] at lb1
            have : (a1 :: t1).length = pr1.length - (branchFrom last0 lastPos upos).length := by
              rw [ei1, List.length_drop]
            simp only [List.length_cons] at this
            omega
          · intro he
            obtain ⟨hroot, htake⟩ := hbb he
            obtain ⟨hc, ha⟩ := inj.node lastPos _ _ _ _ hroot
            obtain ⟨hsr, htake0⟩ := hcb hc
            refine ⟨hsr, take_add_eq _ _ _ _ (take_add_eq _ _ _ _ htake0 ?_) ?_⟩
            · rw [← ei1, ← ei2]; simp [ha]
            · rw [← hd1, ← hd2]; exact htake


/-! ### Stack depth: depends on the positions only -/

def depthStep (d p : Nat) : Option Nat :=
  if height p = 0 then some (d + 1) else if 2 ≤ d then some (d - 1) else none

def depthLoop : Nat → List Nat → Option Nat
  | d, [] => some d
  | d, p :: ps => match depthStep d p with
    | some d' => depthLoop d' ps
    | none => none

theorem rootStep_depth (hf : HashFn α H) (s : Segment α H) (bm : Option (Nat → Bool)) (size p : Nat)
    (st st' : RootSt α H) (h : rootStep hf s bm size st p = .ok st') :
    depthStep st.1.length p = some st'.1.length := by
  obtain ⟨stk, it⟩ := st
  simp only [rootStep] at h
  simp only [depthStep]
  by_cases hh : height p = 0
  · simp only [hh, if_true] at h ⊢
    split at h
    · split at h
      · simp only [Res.ok.injEq] at h; subst h; simp
      · simp at h
    · simp only [Res.ok.injEq] at h; subst h; simp
  · simp only [hh, if_false] at h ⊢
    match stk with
    | [] => cases h
    | [_] => cases h
    | r :: l :: rest =>
      simp only [List.length_cons]
      have h2 : 2 ≤ rest.length + 1 + 1 := by omega
      simp only [h2, if_true]
      have key : ∀ v, st' = (v :: rest, it) → some (rest.length + 1 + 1 - 1) = some st'.1.length := by
        intro v hv; subst hv; simp
      cases bm with
      | none =>
        simp only at h
        cases l <;> cases r <;> first | (cases h; done) | (simp only [Res.ok.injEq] at h; exact key _ h.symm)
      | some b =>
        simp only at h
        cases l <;> cases r <;> simp only at h
        · simp only [Res.ok.injEq] at h; exact key _ h.symm
        · split at h <;> first | (cases h; done) | (simp only [Res.ok.injEq] at h; exact key _ h.symm)
        · split at h <;> first | (cases h; done) | (simp only [Res.ok.injEq] at h; exact key _ h.symm)
        · simp only [Res.ok.injEq] at h; exact key _ h.symm

theorem rootLoop_depth (hf : HashFn α H) (s : Segment α H) (bm : Option (Nat → Bool)) (size : Nat) :
    ∀ (ps : List Nat) (st st' : RootSt α H), rootLoop hf s bm size st ps = .ok st' →
      depthLoop st.1.length ps = some st'.1.length := by
  intro ps
  induction ps with
  | nil => intro st st' h; simp only [rootLoop, Res.ok.injEq] at h; subst h; rfl
  | cons p ps ih =>
    intro st st' h
    simp only [rootLoop] at h
    cases hr : rootStep hf s bm size st p with
    | err e => simp [hr] at h
    | panic => simp [hr] at h
    | ok m =>
      simp only [hr] at h
      simp only [depthLoop, rootStep_depth hf s bm size p st m hr]
      exact ih m st' h

theorem rootLoop_depth0 (hf : HashFn α H) (s : Segment α H) (bm : Option (Nat → Bool)) (size : Nat)
    (ps : List Nat) (it : List (Nat × α)) (st' : RootSt α H)
    (h : rootLoop hf s bm size ([], it) ps = .ok st') : depthLoop 0 ps = some st'.1.length := by
  have := rootLoop_depth hf s bm size ps ([], it) st' h
  simpa using this

/-! ### `Segment::root` and `Segment::validate` -/

/-- the range of the identifier is a well-formed post-order range: the loop of `root` leaves
exactly the entries the end of `root` consumes (one for a full segment, one per peak otherwise).
A fact about `(id, size)` only; proven for full segments in `Lemmas/SegTree.lean`. -/
def WellFormedRange (id : Ident) (size : Nat) : Prop :=
  depthLoop 0 (id.positions size) =
    some (if id.full size then 1 else (id.peaksIn size).length)

/-- what the end of `Segment::root` reads of the segment -/
def finishReads (s : Segment α H) (bm : Option (Nat → Bool)) (full : Bool) (pks : List Nat)
    (stk : List (Option H)) : List (Ev α H) :=
  if full then [] else peakReads s bm stk pks

/-- everything `rootWith` reads of the segment -/
def readsWith (hf : HashFn α H) (s : Segment α H) (size : Nat) (bm : Option (Nat → Bool))
    (ps : List Nat) (full : Bool) (pks : List Nat) : List (Ev α H) :=
  rootReads hf s bm size ([], s.leafPos.zip s.leafData) ps ++
  match rootLoop hf s bm size ([], s.leafPos.zip s.leafData) ps with
  | .ok st => finishReads s bm full pks st.1
  | _ => []

/-- everything `Segment::root` reads of the segment: leaf data with its position, hashes looked
up through `get_hash` with their position -/
def segReads (hf : HashFn α H) (s : Segment α H) (size : Nat) (bm : Option (Nat → Bool)) :
    List (Ev α H) :=
  readsWith hf s size bm (s.id.positions size) (s.id.full size) (s.id.peaksIn size)

theorem rootFinish_inj (hf : HashFn α H) (inj : Inj hf) (s1 s2 : Segment α H)
    (size : Nat) (bm : Option (Nat → Bool)) (full : Bool) (pks : List Nat)
    (stk1 stk2 : List (Option H)) (o1 o2 : Option H)
    (hs : shape stk1 = shape stk2)
    (hl1 : stk1.length = if full then 1 else pks.length)
    (hl2 : stk2.length = if full then 1 else pks.length)
    (h1 : rootFinish hf s1 bm size full pks stk1 = .ok o1)
    (h2 : rootFinish hf s2 bm size full pks stk2 = .ok o2) :
    o1.isSome = o2.isSome ∧
    (o1 = o2 → stk1 = stk2 ∧ finishReads s1 bm full pks stk1 = finishReads s2 bm full pks stk2) := by
  unfold rootFinish at h1 h2
  unfold finishReads
  by_cases hfull : full = true
  · simp only [hfull, if_true] at h1 h2 hl1 hl2 ⊢
    match stk1, stk2, hl1, hl2 with
    | [v1], [v2], _, _ =>
      simp only [Res.ok.injEq] at h1 h2
      subst h1; subst h2
      refine ⟨by simpa [shape] using hs, ?_⟩
      intro he
      subst he
      exact ⟨rfl, trivial⟩
  · simp only [hfull, Bool.false_eq_true, if_false] at h1 h2 hl1 hl2 ⊢
    cases hb1 : bagPeaks hf s1 bm size stk1 none pks with
    | err e => simp only [hb1] at h1; cases h1
    | panic => simp only [hb1] at h1; cases h1
    | ok w1 =>
      cases hb2 : bagPeaks hf s2 bm size stk2 none pks with
      | err e => simp only [hb2] at h2; cases h2
      | panic => simp only [hb2] at h2; cases h2
      | ok w2 =>
        simp only [hb1] at h1; simp only [hb2] at h2
        obtain ⟨hv, hbk⟩ := bagPeaks_inj hf inj s1 s2 bm size _ _ _ _ _ _ _ hb1 hb2 hs rfl
        cases w1 with
        | none => cases h1
        | some x1 =>
          cases w2 with
          | none => cases h2
          | some x2 =>
            simp only [Res.ok.injEq] at h1 h2
            subst h1; subst h2
            refine ⟨rfl, ?_⟩
            intro he
            obtain ⟨_, htake, hpr⟩ := hbk he
            have t1 : List.take pks.length stk1 = stk1 := by
              rw [← hl1]; exact List.take_length
            have t2 : List.take pks.length stk2 = stk2 := by
              rw [← hl2]; exact List.take_length
            rw [t1, t2] at htake
            exact ⟨htake, hpr⟩

theorem rootWith_inj (hf : HashFn α H) (inj : Inj hf) (s1 s2 : Segment α H)
    (size : Nat) (bm : Option (Nat → Bool)) (ps : List Nat) (full : Bool) (pks : List Nat)
    (wf : depthLoop 0 ps = some (if full then 1 else pks.length)) (o1 o2 : Option H)
    (h1 : rootWith hf s1 size bm ps full pks = .ok o1)
    (h2 : rootWith hf s2 size bm ps full pks = .ok o2) :
    o1.isSome = o2.isSome ∧
    (o1 = o2 → readsWith hf s1 size bm ps full pks = readsWith hf s2 size bm ps full pks) := by
  unfold rootWith at h1 h2
  unfold readsWith
  cases hl1 : rootLoop hf s1 bm size ([], s1.leafPos.zip s1.leafData) ps with
  | err e => simp only [hl1] at h1; cases h1
  | panic => simp only [hl1] at h1; cases h1
  | ok f1 =>
    cases hl2 : rootLoop hf s2 bm size ([], s2.leafPos.zip s2.leafData) ps with
    | err e => simp only [hl2] at h2; cases h2
    | panic => simp only [hl2] at h2; cases h2
    | ok f2 =>
      simp only [hl1] at h1; simp only [hl2] at h2
      simp only at h1 h2 ⊢
      obtain ⟨hsh, hback⟩ := rootLoop_inj hf inj s1 s2 bm size _ _ _ _ _ hl1 hl2 rfl
      have d1' := rootLoop_depth0 hf s1 bm size _ _ _ hl1
      have d2' := rootLoop_depth0 hf s2 bm size _ _ _ hl2
      rw [wf] at d1' d2'
      simp only [Option.some.injEq] at d1' d2'
      obtain ⟨hv, hfin⟩ := rootFinish_inj hf inj s1 s2 size bm full pks f1.1 f2.1 o1 o2 hsh
        d1'.symm d2'.symm h1 h2
      refine ⟨hv, ?_⟩
      intro he
      obtain ⟨hstk, hfr⟩ := hfin he
      have := (hback hstk).2
      rw [this, hfr]

/-- **`Segment::root` is injective in what it reads**: two segments with the same identifier
whose roots are equal agree on every leaf and every hash the computation read. -/
theorem root_inj (hf : HashFn α H) (inj : Inj hf) (s1 s2 : Segment α H) (hid : s1.id = s2.id)
    (size : Nat) (bm : Option (Nat → Bool)) (wf : WellFormedRange s1.id size) (o1 o2 : Option H)
    (h1 : s1.root hf size bm = .ok o1) (h2 : s2.root hf size bm = .ok o2) :
    o1.isSome = o2.isSome ∧ (o1 = o2 → segReads hf s1 size bm = segReads hf s2 size bm) := by
  have h1 := (root_ok_rootWith hf s1 size bm o1 h1).2
  have h2 := (root_ok_rootWith hf s2 size bm o2 h2).2
  unfold segReads
  rw [← hid] at h2 ⊢
  exact rootWith_inj hf inj s1 s2 size bm _ _ _ wf o1 o2 h1 h2

/-! ### `Segment::validate` / `validate_with` -/

theorem proofValidate_ok (hf : HashFn α H) [DecidableEq H] (proof : List H) (lastPos : Nat) (mmrRoot : H)
    (first0 last0 : Nat) (segRoot : H) (upos : Nat)
    (h : proofValidate hf proof lastPos mmrRoot first0 last0 segRoot upos = .ok ()) :
    ∃ rest, reconstructRoot hf proof lastPos first0 last0 segRoot upos = .ok (mmrRoot, rest) := by
  unfold proofValidate at h
  cases hr : reconstructRoot hf proof lastPos first0 last0 segRoot upos with
  | err e => simp only [hr] at h; cases h
  | panic => simp only [hr] at h; cases h
  | ok x =>
    obtain ⟨r, rest⟩ := x
    simp only [hr] at h
    by_cases he : r = mmrRoot
    · subst he; exact ⟨rest, rfl⟩
    · simp only [he, if_false] at h; cases h

theorem proofValidateWith_ok (hf : HashFn α H) [DecidableEq H] (proof : List H) (lastPos : Nat)
    (mmrRoot : H) (first0 last0 : Nat) (segRoot : H) (upos hlp : Nat) (other : H) (left : Bool)
    (h : proofValidateWith hf proof lastPos mmrRoot first0 last0 segRoot upos hlp other left = .ok ()) :
    ∃ r rest, reconstructRoot hf proof lastPos first0 last0 segRoot upos = .ok (r, rest) ∧
      (if left then hf.node hlp other r else hf.node hlp r other) = mmrRoot := by
  unfold proofValidateWith at h
  cases hr : reconstructRoot hf proof lastPos first0 last0 segRoot upos with
  | err e => simp only [hr] at h; cases h
  | panic => simp only [hr] at h; cases h
  | ok x =>
    obtain ⟨r, rest⟩ := x
    simp only [hr] at h
    by_cases he : (if left = true then hf.node hlp other r else hf.node hlp r other) = mmrRoot
    · exact ⟨r, rest, rfl, he⟩
    · simp only [he, if_false] at h; cases h

/-- the proof part: same range, same unpruned position, both accepted ⇒ same segment root and
same consumed proof hashes -/
theorem validateAt_inj (hf : HashFn α H) [DecidableEq H] (inj : Inj hf) (pr1 pr2 : List H)
    (size : Nat) (mmrRoot : H) (first last : Nat) (v1 v2 : H) (u : Nat)
    (h1 : validateAt hf pr1 size mmrRoot first last (.ok (v1, u)) = .ok ())
    (h2 : validateAt hf pr2 size mmrRoot first last (.ok (v2, u)) = .ok ()) :
    v1 = v2 ∧ pr1.take (consumed size first last u) = pr2.take (consumed size first last u) := by
  unfold validateAt at h1 h2
  simp only at h1 h2
  obtain ⟨rest1, e1⟩ := proofValidate_ok hf _ _ _ _ _ _ _ h1
  obtain ⟨rest2, e2⟩ := proofValidate_ok hf _ _ _ _ _ _ _ h2
  exact (reconstructRoot_inj hf inj _ _ _ _ _ _ _ _ _ _ _ _ e1 e2).2.2.2 rfl

theorem validateWithAt_inj (hf : HashFn α H) [DecidableEq H] (inj : Inj hf) (pr1 pr2 : List H)
    (size : Nat) (mmrRoot : H) (first last : Nat) (v1 v2 : H) (u hlp : Nat) (other : H) (left : Bool)
    (h1 : validateWithAt hf pr1 size mmrRoot first last (.ok (v1, u)) hlp other left = .ok ())
    (h2 : validateWithAt hf pr2 size mmrRoot first last (.ok (v2, u)) hlp other left = .ok ()) :
    v1 = v2 ∧ pr1.take (consumed size first last u) = pr2.take (consumed size first last u) := by
  unfold validateWithAt at h1 h2
  simp only at h1 h2
  obtain ⟨r1, rest1, e1, m1⟩ := proofValidateWith_ok hf _ _ _ _ _ _ _ _ _ _ h1
  obtain ⟨r2, rest2, e2, m2⟩ := proofValidateWith_ok hf _ _ _ _ _ _ _ _ _ _ h2
  have hr : r1 = r2 := by
    rw [← m2] at m1
    cases left with
    | true => simp only [if_true] at m1; exact (inj.node hlp _ _ _ _ m1).2
    | false => simp only [Bool.false_eq_true, if_false] at m1; exact (inj.node hlp _ _ _ _ m1).1
  exact (reconstructRoot_inj hf inj _ _ _ _ _ _ _ _ _ _ _ _ e1 e2).2.2.2 hr

/-- `first_unpruned_parent` of a segment whose root is `some v` -/
theorem fup_of_root_some (hf : HashFn α H) (s : Segment α H) (size : Nat) (bm : Option (Nat → Bool))
    (v : H) (h : s.root hf size bm = .ok (some v)) :
    s.firstUnprunedParent hf size bm = .ok (v, 1 + (s.id.posRange size).2) := by
  unfold Segment.firstUnprunedParent
  rw [h]
  rfl

/-- accepted ⇒ `root` did not fail -/
theorem root_ok_of_fup_ok (hf : HashFn α H) (s : Segment α H) (size : Nat) (bm : Option (Nat → Bool))
    (x : H × Nat) (h : s.firstUnprunedParent hf size bm = .ok x) :
    ∃ o, s.root hf size bm = .ok o := by
  unfold Segment.firstUnprunedParent at h
  cases hr : s.root hf size bm with
  | err e => rw [hr] at h; cases h
  | panic => rw [hr] at h; cases h
  | ok o => exact ⟨o, rfl⟩

theorem fup_ok_of_validate (hf : HashFn α H) [DecidableEq H] (s : Segment α H) (size : Nat)
    (bm : Option (Nat → Bool)) (mmrRoot : H) (h : s.validate hf size bm mmrRoot = .ok ()) :
    ∃ x, s.firstUnprunedParent hf size bm = .ok x := by
  unfold Segment.validate at h
  cases hr : s.firstUnprunedParent hf size bm with
  | err e => rw [hr] at h; cases h
  | panic => rw [hr] at h; cases h
  | ok o => exact ⟨o, rfl⟩

theorem fup_ok_of_validateWith (hf : HashFn α H) [DecidableEq H] (s : Segment α H) (size : Nat)
    (bm : Option (Nat → Bool)) (mmrRoot : H) (hlp : Nat) (other : H) (left : Bool)
    (h : s.validateWith hf size bm mmrRoot hlp other left = .ok ()) :
    ∃ x, s.firstUnprunedParent hf size bm = .ok x := by
  unfold Segment.validateWith at h
  cases hr : s.firstUnprunedParent hf size bm with
  | err e => rw [hr] at h; cases h
  | panic => rw [hr] at h; cases h
  | ok o => exact ⟨o, rfl⟩

/-- number of proof hashes `validate` consumes for a segment that has a root of its own -/
def proofLen (id : Ident) (size : Nat) : Nat :=
  consumed size (id.posRange size).1 (id.posRange size).2 (1 + (id.posRange size).2)

theorem root_some_of_accepted (hf : HashFn α H) (inj : Inj hf) (s1 s2 : Segment α H)
    (hid : s1.id = s2.id) (size : Nat) (bm : Option (Nat → Bool)) (wf : WellFormedRange s1.id size)
    (v1 : H) (hnp : s1.root hf size bm = .ok (some v1)) (x : H × Nat)
    (h2 : s2.firstUnprunedParent hf size bm = .ok x) :
    ∃ v2, s2.root hf size bm = .ok (some v2) := by
  obtain ⟨o2, hr2⟩ := root_ok_of_fup_ok hf s2 size bm x h2
  have := (root_inj hf inj s1 s2 hid size bm wf _ _ hnp hr2).1
  cases o2 with
  | none => simp at this
  | some v2 => exact ⟨v2, hr2⟩

/-- **Injectivity of `Segment::validate`** (segment with a root of its own, i.e. not completely
pruned): two accepted segments agree on everything read. -/
theorem validate_inj (hf : HashFn α H) [DecidableEq H] (inj : Inj hf) (s1 s2 : Segment α H)
    (hid : s1.id = s2.id) (size : Nat) (bm : Option (Nat → Bool)) (wf : WellFormedRange s1.id size)
    (mmrRoot v1 : H) (hnp : s1.root hf size bm = .ok (some v1))
    (h1 : s1.validate hf size bm mmrRoot = .ok ()) (h2 : s2.validate hf size bm mmrRoot = .ok ()) :
    segReads hf s1 size bm = segReads hf s2 size bm ∧
    s1.proof.take (proofLen s1.id size) = s2.proof.take (proofLen s1.id size) := by
  obtain ⟨x2, hx2⟩ := fup_ok_of_validate hf s2 size bm mmrRoot h2
  obtain ⟨v2, hr2⟩ := root_some_of_accepted hf inj s1 s2 hid size bm wf v1 hnp x2 hx2
  have f1 := fup_of_root_some hf s1 size bm v1 hnp
  have f2 := fup_of_root_some hf s2 size bm v2 hr2
  unfold Segment.validate at h1 h2
  rw [f1] at h1
  rw [f2, ← hid] at h2
  obtain ⟨hv, htake⟩ := validateAt_inj hf inj _ _ _ _ _ _ _ _ _ h1 h2
  subst hv
  exact ⟨(root_inj hf inj s1 s2 hid size bm wf _ _ hnp hr2).2 rfl, htake⟩

/-- the same for `validate_with` (merged output root) -/
theorem validateWith_inj (hf : HashFn α H) [DecidableEq H] (inj : Inj hf) (s1 s2 : Segment α H)
    (hid : s1.id = s2.id) (size : Nat) (bm : Option (Nat → Bool)) (wf : WellFormedRange s1.id size)
    (mmrRoot v1 : H) (hlp : Nat) (other : H) (left : Bool)
    (hnp : s1.root hf size bm = .ok (some v1))
    (h1 : s1.validateWith hf size bm mmrRoot hlp other left = .ok ())
    (h2 : s2.validateWith hf size bm mmrRoot hlp other left = .ok ()) :
    segReads hf s1 size bm = segReads hf s2 size bm ∧
    s1.proof.take (proofLen s1.id size) = s2.proof.take (proofLen s1.id size) := by
  obtain ⟨x2, hx2⟩ := fup_ok_of_validateWith hf s2 size bm mmrRoot hlp other left h2
  obtain ⟨v2, hr2⟩ := root_some_of_accepted hf inj s1 s2 hid size bm wf v1 hnp x2 hx2
  have f1 := fup_of_root_some hf s1 size bm v1 hnp
  have f2 := fup_of_root_some hf s2 size bm v2 hr2
  unfold Segment.validateWith at h1 h2
  rw [f1] at h1
  rw [f2, ← hid] at h2
  obtain ⟨hv, htake⟩ := validateWithAt_inj hf inj _ _ _ _ _ _ _ _ _ _ _ _ h1 h2
  subst hv
  exact ⟨(root_inj hf inj s1 s2 hid size bm wf _ _ hnp hr2).2 rfl, htake⟩

/-- completely pruned segments (no root of their own): if both carry their first unpruned parent
at the same position, the two hashes and the consumed proof hashes are equal -/
theorem validate_inj_pruned (hf : HashFn α H) [DecidableEq H] (inj : Inj hf) (s1 s2 : Segment α H)
    (hid : s1.id = s2.id) (size : Nat) (bm : Option (Nat → Bool)) (mmrRoot h1' h2' : H) (u : Nat)
    (f1 : s1.firstUnprunedParent hf size bm = .ok (h1', u))
    (f2 : s2.firstUnprunedParent hf size bm = .ok (h2', u))
    (h1 : s1.validate hf size bm mmrRoot = .ok ()) (h2 : s2.validate hf size bm mmrRoot = .ok ()) :
    h1' = h2' ∧
    s1.proof.take (consumed size (s1.id.posRange size).1 (s1.id.posRange size).2 u) =
      s2.proof.take (consumed size (s1.id.posRange size).1 (s1.id.posRange size).2 u) := by
  unfold Segment.validate at h1 h2
  rw [f1] at h1
  rw [f2, ← hid] at h2
  exact validateAt_inj hf inj _ _ _ _ _ _ _ _ _ h1 h2

/-! ### Required leaves are read; nothing panics -/

theorem rootReads_required (hf : HashFn α H) (s : Segment α H) (bm : Option (Nat → Bool)) (size : Nat) :
    ∀ (ps : List Nat) (st st' : RootSt α H), rootLoop hf s bm size st ps = .ok st' →
      ∀ p ∈ ps, height p = 0 → required bm size p = true →
        ∃ x, Ev.leaf p x ∈ rootReads hf s bm size st ps := by
  intro ps
  induction ps with
  | nil => intro st st' _ p hp; cases hp
  | cons q ps ih =>
    intro st st' h p hp hh hr
    simp only [rootLoop] at h
    cases hs : rootStep hf s bm size st q with
    | err e => simp only [hs] at h; cases h
    | panic => simp only [hs] at h; cases h
    | ok m =>
      simp only [hs] at h
      simp only [rootReads, hs]
      rcases List.mem_cons.1 hp with rfl | hp'
      · -- the head position itself
        simp only [rootStep, hh, if_true, hr] at hs
        cases hf' : iterFind st.2 p with
        | none => simp only [hf'] at hs; cases hs
        | some r =>
          refine ⟨r.1, List.mem_append_left _ ?_⟩
          simp [stepReads, hh, hr, hf']
      · obtain ⟨x, hx⟩ := ih m st' h p hp' hh hr
        exact ⟨x, List.mem_append_right _ hx⟩

/-- what is read as leaf `p` comes from an entry `(p, x)` of the segment's leaf list -/
theorem iterFind_mem {β : Type} : ∀ (l : List (Nat × β)) (p : Nat) (x : β) (rest : List (Nat × β)),
    iterFind l p = some (x, rest) → (p, x) ∈ l ∧ ∃ pre, l = pre ++ (p, x) :: rest := by
  intro l
  induction l with
  | nil => intro p x rest h; cases h
  | cons a l ih =>
    intro p x rest h
    obtain ⟨q, y⟩ := a
    simp only [iterFind] at h
    by_cases hq : q = p
    · simp only [hq, if_true, Option.some.injEq, Prod.mk.injEq] at h
      obtain ⟨rfl, rfl⟩ := h
      subst hq
      exact ⟨List.mem_cons_self, [], rfl⟩
    · simp only [hq, if_false] at h
      obtain ⟨hm, pre, hpre⟩ := ih p x rest h
      exact ⟨List.mem_cons_of_mem _ hm, (q, y) :: pre, by rw [hpre]; rfl⟩

/-- `all entries are `some`' -/
def allSome (stk : List (Option H)) : Prop := ∀ o ∈ stk, o ≠ none

theorem rootStep_allSome (hf : HashFn α H) (s : Segment α H) (size p : Nat) (st st' : RootSt α H)
    (h : rootStep hf s none size st p = .ok st') (ha : allSome st.1) : allSome st'.1 := by
  obtain ⟨stk, it⟩ := st
  simp only [rootStep] at h
  by_cases hh : height p = 0
  · simp only [hh, if_true, required] at h
    cases hf' : iterFind it p with
    | none => simp only [hf'] at h; cases h
    | some r =>
      simp only [hf', Res.ok.injEq] at h
      subst h
      intro o ho
      rcases List.mem_cons.1 ho with rfl | ho'
      · simp
      · exact ha o ho'
  · simp only [hh, if_false] at h
    match stk with
    | [] => cases h
    | [_] => cases h
    | r :: l :: rest =>
      simp only at h
      cases l with
      | none => cases h
      | some lh =>
        cases r with
        | none => cases h
        | some rh =>
          simp only [Res.ok.injEq] at h
          subst h
          intro o ho
          rcases List.mem_cons.1 ho with rfl | ho'
          · simp
          · exact ha o (List.mem_cons_of_mem _ (List.mem_cons_of_mem _ ho'))

theorem rootLoop_allSome (hf : HashFn α H) (s : Segment α H) (size : Nat) :
    ∀ (ps : List Nat) (st st' : RootSt α H), rootLoop hf s none size st ps = .ok st' →
      allSome st.1 → allSome st'.1 := by
  intro ps
  induction ps with
  | nil => intro st st' h ha; simp only [rootLoop, Res.ok.injEq] at h; subst h; exact ha
  | cons p ps ih =>
    intro st st' h ha
    simp only [rootLoop] at h
    cases hs : rootStep hf s none size st p with
    | err e => simp only [hs] at h; cases h
    | panic => simp only [hs] at h; cases h
    | ok m =>
      simp only [hs] at h
      exact ih m st' h (rootStep_allSome hf s size p st m hs ha)

theorem rootStep_no_panic (hf : HashFn α H) (s : Segment α H) (bm : Option (Nat → Bool)) (size p : Nat)
    (st : RootSt α H) : rootStep hf s bm size st p ≠ .panic := by
  obtain ⟨stk, it⟩ := st
  simp only [rootStep]
  have hg : ∀ q, s.getHash q ≠ .panic := by
    intro q; unfold Segment.getHash; split <;> simp
  split
  · split
    · split <;> simp
    · simp
  · split
    · split
      · split
        · simp
        · simp
        · split
          · simp
          · simp
          · rename_i hp; exact absurd hp (hg _)
        · split
          · simp
          · simp
          · rename_i hp; exact absurd hp (hg _)
      · split
        · simp
        · split <;> simp
    · simp
    · simp

theorem rootLoop_no_panic (hf : HashFn α H) (s : Segment α H) (bm : Option (Nat → Bool)) (size : Nat) :
    ∀ (ps : List Nat) (st : RootSt α H), rootLoop hf s bm size st ps ≠ .panic := by
  intro ps
  induction ps with
  | nil => intro st; simp [rootLoop]
  | cons p ps ih =>
    intro st
    simp only [rootLoop]
    cases hs : rootStep hf s bm size st p with
    | err e => simp
    | panic => exact absurd hs (rootStep_no_panic hf s bm size p st)
    | ok m => exact ih m

end GV.Seg
