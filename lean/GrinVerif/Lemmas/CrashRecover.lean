import GrinVerif.Model.Crash
import GrinVerif.Lemmas.CrashBasic
import GrinVerif.Lemmas.CrashPath
/-! Lemmas about `validAt`, `fallback` and `recover`: what they depend on, one step of the
fallback loop, the whole walk of the loop, and the characterisation "a durable state that agrees
with the consistent state of the old path where recovery looks reopens on the old tip". -/
namespace GV.Crash

/-! ### `validAt` only looks at prefixes of the files and at the leaf set -/

/-- the MMR files of `d` hold (at least) the entries of path `P` -/
structure FilesCover (P : List BlkInfo) (d : Durable) : Prop where
  outHash : leavesOf P <+: d.outHash
  outData : leavesOf P <+: d.outData
  kerHash : P.map (·.id) <+: d.kerHash
  kerData : P.map (·.id) <+: d.kerData

/-- the leaf set as `validAt` sees it after rewinding to `P` and re-adding `readded` -/
def rewoundLeaf (leaf readded : List Leaf) (P : List BlkInfo) : List Leaf :=
  (leaf.filter fun l => (leavesOf P).contains l) ++
    readded.filter fun l => (leavesOf P).contains l ∧ !leaf.contains l

theorem mem_rewoundLeaf (leaf readded : List Leaf) (P : List BlkInfo) (l : Leaf) :
    l ∈ rewoundLeaf leaf readded P ↔ l ∈ leavesOf P ∧ (l ∈ leaf ∨ l ∈ readded) := by
  simp only [rewoundLeaf, List.mem_append, List.mem_filter, Bool.not_eq_true',
    Bool.decide_and, Bool.and_eq_true, decide_eq_true_eq,
    List.contains_eq_mem, decide_eq_false_iff_not]
  constructor
  · rintro (⟨h1, h2⟩ | ⟨h1, h2, _⟩)
    · exact ⟨h2, Or.inl h1⟩
    · exact ⟨h2, Or.inr h1⟩
  · rintro ⟨h1, h2 | h2⟩
    · exact Or.inl ⟨h2, h1⟩
    · by_cases hl : l ∈ leaf
      · exact Or.inl ⟨hl, h1⟩
      · exact Or.inr ⟨h2, h1, hl⟩

theorem take_of_prefix {α : Type} [BEq α] [LawfulBEq α] (a b : List α) (h : a <+: b) :
    (b.take a.length == a) = true := by
  rw [List.prefix_iff_eq_take] at h
  rw [← h]; simp

/-- with the files covering `P`, validity at `P` is the bitmap condition alone -/
theorem validAt_of_files (bc : Nat → Bool) (d : Durable) (readded : List Leaf) (P : List BlkInfo)
    (h : FilesCover P d) :
    validAt bc d readded P =
      (!bc (P.length - 1) ||
        ((unspentOf P).all (fun l => (rewoundLeaf d.leaf readded P).contains l) &&
         (rewoundLeaf d.leaf readded P).all (fun l => (unspentOf P).contains l))) := by
  unfold validAt rewoundLeaf
  have e1 := take_of_prefix _ _ h.outHash
  have e2 := take_of_prefix _ _ h.outData
  have e3 := take_of_prefix _ _ h.kerHash
  have e4 := take_of_prefix _ _ h.kerData
  rw [List.length_map] at e3 e4
  simp only [e1, e2, e3, e4, Bool.true_and]

/-- the bitmap condition, as a statement about membership -/
theorem bitmapOk_iff (U W : List Leaf) :
    (U.all (fun l => W.contains l) && W.all (fun l => U.contains l)) = true ↔ ∀ l, l ∈ U ↔ l ∈ W := by
  simp only [Bool.and_eq_true, List.all_eq_true, List.contains_iff_mem]
  constructor
  · rintro ⟨h1, h2⟩ l; exact ⟨h1 l, h2 l⟩
  · intro h; exact ⟨fun l hl => (h l).1 hl, fun l hl => (h l).2 hl⟩

theorem validAt_true_of (bc : Nat → Bool) (d : Durable) (readded : List Leaf) (P : List BlkInfo)
    (h : FilesCover P d)
    (hb : ∀ l, l ∈ unspentOf P ↔ (l ∈ leavesOf P ∧ (l ∈ d.leaf ∨ l ∈ readded))) :
    validAt bc d readded P = true := by
  rw [validAt_of_files bc d readded P h]
  have : ((unspentOf P).all (fun l => (rewoundLeaf d.leaf readded P).contains l) &&
         (rewoundLeaf d.leaf readded P).all (fun l => (unspentOf P).contains l)) = true := by
    rw [bitmapOk_iff]
    intro l; rw [mem_rewoundLeaf]; exact hb l
  rw [this]; simp

theorem validAt_true_of_not_bc (bc : Nat → Bool) (d : Durable) (readded : List Leaf) (P : List BlkInfo)
    (h : FilesCover P d) (hbc : bc (P.length - 1) = false) : validAt bc d readded P = true := by
  rw [validAt_of_files bc d readded P h, hbc]; simp

theorem validAt_false_of (bc : Nat → Bool) (d : Durable) (readded : List Leaf) (P : List BlkInfo)
    (hbc : bc (P.length - 1) = true) (l : Leaf) (hl : l ∈ unspentOf P)
    (hn : ¬ (l ∈ d.leaf ∨ l ∈ readded)) :
    validAt bc d readded P = false := by
  unfold validAt
  simp only [hbc, Bool.not_true, Bool.false_or]
  have : (unspentOf P).all (fun l => ((d.leaf.filter fun l => (leavesOf P).contains l) ++
      readded.filter fun l => (leavesOf P).contains l ∧ !d.leaf.contains l).contains l) = false := by
    rw [Bool.eq_false_iff]
    intro hall
    rw [List.all_eq_true] at hall
    have := hall l hl
    rw [List.contains_iff_mem] at this
    have h2 := (mem_rewoundLeaf d.leaf readded P l).1 this
    exact hn h2.2
  rw [this]; simp

/-! ### the fallback loop -/

/-- what the loop has re-added when it stands at `Q` having undone the blocks `R` above it
(in the order the loop appends them) -/
def undo : List BlkInfo → List BlkInfo → List Leaf
  | _, [] => []
  | Q, x :: R => undo (Q ++ [x]) R ++ spentLeaves (unspentOf Q) x

theorem fallback_stop (bc : Nat → Bool) (tbl : List BlkInfo) (d : Durable) (fuel h : Nat)
    (readded : List Leaf) (P : List BlkInfo)
    (hp : pathOf tbl (tbl.length + 1) h [] = some P)
    (hv : P.length ≤ 1 ∨ validAt bc d readded P = true) :
    fallback bc tbl d (fuel + 1) h readded = .ok h := by
  simp only [fallback, hp]
  rcases hv with hv | hv
  · simp [hv]
  · simp [hv]

theorem fallback_step (bc : Nat → Bool) (tbl : List BlkInfo) (d : Durable) (fuel : Nat)
    (readded : List Leaf) (Q : List BlkInfo) (x : BlkInfo) (hQ : Q ≠ [])
    (hp : pathOf tbl (tbl.length + 1) (tipOf (Q ++ [x])) [] = some (Q ++ [x]))
    (hv : validAt bc d readded (Q ++ [x]) = false) :
    fallback bc tbl d (fuel + 1) (tipOf (Q ++ [x])) readded =
      fallback bc tbl d fuel (tipOf Q) (readded ++ spentLeaves (unspentOf Q) x) := by
  have hlen : ¬ (Q ++ [x]).length ≤ 1 := by
    have : Q.length ≠ 0 := fun h => hQ (List.length_eq_zero_iff.mp h)
    simp; omega
  simp only [fallback, hp, hlen, if_false, hv, Bool.false_eq_true, List.dropLast_concat, tipOf_eq]
  congr 3
  simp [List.getLast!_eq_getLast?_getD]

/-- **The walk of the fallback loop.** Standing at `M ++ T` (having already undone `R`), if the
state fails validation at every level strictly above `M` and the loop stops at `M` (genesis or a
level that validates), the loop ends on the tip of `M`. -/
theorem fallback_walk (bc : Nat → Bool) (tbl : List BlkInfo) (d : Durable) (M : List BlkInfo) (hM : M ≠ []) :
    ∀ (T R : List BlkInfo) (fuel : Nat), T.length < fuel →
      (∀ Q S, Q ++ S = M ++ T → Q ≠ [] → pathOf tbl (tbl.length + 1) (tipOf Q) [] = some Q) →
      (∀ T1 x T2, T = T1 ++ x :: T2 →
        validAt bc d (undo (M ++ T1 ++ [x]) (T2 ++ R)) (M ++ T1 ++ [x]) = false) →
      (M.length ≤ 1 ∨ validAt bc d (undo M (T ++ R)) M = true) →
      fallback bc tbl d fuel (tipOf (M ++ T)) (undo (M ++ T) R) = .ok (tipOf M) := by
  intro T
  induction T using list_rev_ind with
  | nil =>
    intro R fuel hf hpath _ hstop
    obtain ⟨f, rfl⟩ : ∃ f, fuel = f + 1 := ⟨fuel - 1, by simp at hf; omega⟩
    simp only [List.append_nil, List.nil_append] at hstop ⊢
    exact fallback_stop bc tbl d f _ _ M (hpath M [] (by simp) hM) hstop
  | snoc T x ih =>
    intro R fuel hf hpath hbad hstop
    obtain ⟨f, rfl⟩ : ∃ f, fuel = f + 1 := ⟨fuel - 1, by simp at hf; omega⟩
    have hQ : M ++ T ≠ [] := by
      intro h; exact hM (List.append_eq_nil_iff.mp h).1
    have hp := hpath (M ++ (T ++ [x])) [] (by simp) (by rw [← List.append_assoc]; exact snoc_ne_nil _ _)
    have hv := hbad T x [] rfl
    simp only [List.nil_append] at hv
    rw [← List.append_assoc] at hp ⊢
    rw [fallback_step bc tbl d f _ (M ++ T) x hQ hp hv]
    have hu : undo (M ++ T ++ [x]) R ++ spentLeaves (unspentOf (M ++ T)) x = undo (M ++ T) (x :: R) := by
      simp [undo]
    rw [hu]
    apply ih (x :: R) f (by simp at hf; omega)
    · intro Q S hQS hne
      exact hpath Q (S ++ [x]) (by rw [← List.append_assoc, hQS, List.append_assoc]) hne
    · intro T1 y T2 hT
      have := hbad T1 y (T2 ++ [x]) (by rw [hT]; simp)
      simpa using this
    · simpa using hstop

/-- whatever the durable state, the loop started on a stored path ends on the tip of one of its
non-empty prefixes -/
theorem fallback_lands (bc : Nat → Bool) (tbl : List BlkInfo) (d : Durable) :
    ∀ (fuel : Nat) (Q : List BlkInfo) (readded : List Leaf), Q ≠ [] →
      (∀ Q' S, Q' ++ S = Q → Q' ≠ [] → pathOf tbl (tbl.length + 1) (tipOf Q') [] = some Q') →
      ∃ Q' S, Q' ++ S = Q ∧ Q' ≠ [] ∧ fallback bc tbl d fuel (tipOf Q) readded = .ok (tipOf Q') := by
  intro fuel
  induction fuel with
  | zero => intro Q readded hQ _; exact ⟨Q, [], by simp, hQ, by simp [fallback]⟩
  | succ f ih =>
    intro Q readded hQ hpath
    by_cases hstop : Q.length ≤ 1 ∨ validAt bc d readded Q = true
    · exact ⟨Q, [], by simp, hQ, fallback_stop bc tbl d f _ _ Q (hpath Q [] (by simp) hQ) hstop⟩
    · have h1 : ¬ Q.length ≤ 1 := fun h => hstop (Or.inl h)
      have h2 : validAt bc d readded Q = false := by
        cases hv : validAt bc d readded Q with
        | true => exact absurd (Or.inr hv) hstop
        | false => rfl
      obtain ⟨Q0, x, rfl⟩ : ∃ Q0 x, Q = Q0 ++ [x] := by
        refine ⟨Q.dropLast, Q.getLast hQ, ?_⟩
        exact (List.dropLast_concat_getLast hQ).symm
      have hQ0 : Q0 ≠ [] := by
        intro h; subst h; simp at h1
      rw [fallback_step bc tbl d f readded Q0 x hQ0 (hpath _ [] (by simp) hQ) h2]
      obtain ⟨Q', S, e, hne, hr⟩ := ih Q0 (readded ++ spentLeaves (unspentOf Q0) x) hQ0
        (fun Q' S e hne => hpath Q' (S ++ [x]) (by rw [← List.append_assoc, e]) hne)
      exact ⟨Q', S ++ [x], by rw [← List.append_assoc, e], hne, hr⟩

/-- the walk of the loop down to `M`, where it continues with whatever outcome `r` the remaining
fuel gives (general form of `fallback_walk`, for composing walks) -/
theorem fallback_walk_r (bc : Nat → Bool) (tbl : List BlkInfo) (d : Durable) (M : List BlkInfo)
    (hM : M ≠ []) (r : Rec) :
    ∀ (T R : List BlkInfo) (fuel : Nat), T.length < fuel →
      (∀ Q S, Q ++ S = M ++ T → Q ≠ [] → pathOf tbl (tbl.length + 1) (tipOf Q) [] = some Q) →
      (∀ T1 x T2, T = T1 ++ x :: T2 →
        validAt bc d (undo (M ++ T1 ++ [x]) (T2 ++ R)) (M ++ T1 ++ [x]) = false) →
      fallback bc tbl d (fuel - T.length) (tipOf M) (undo M (T ++ R)) = r →
      fallback bc tbl d fuel (tipOf (M ++ T)) (undo (M ++ T) R) = r := by
  intro T
  induction T using list_rev_ind with
  | nil =>
    intro R fuel _ _ _ hstop
    simpa using hstop
  | snoc T x ih =>
    intro R fuel hf hpath hbad hstop
    obtain ⟨f, rfl⟩ : ∃ f, fuel = f + 1 := ⟨fuel - 1, by simp at hf; omega⟩
    have hQ : M ++ T ≠ [] := by
      intro h; exact hM (List.append_eq_nil_iff.mp h).1
    have hp := hpath (M ++ (T ++ [x])) [] (by simp) (by rw [← List.append_assoc]; exact snoc_ne_nil _ _)
    have hv := hbad T x [] rfl
    simp only [List.nil_append] at hv
    rw [← List.append_assoc] at hp ⊢
    rw [fallback_step bc tbl d f _ (M ++ T) x hQ hp hv]
    have hu : undo (M ++ T ++ [x]) R ++ spentLeaves (unspentOf (M ++ T)) x = undo (M ++ T) (x :: R) := by
      simp [undo]
    rw [hu]
    apply ih (x :: R) f (by simp at hf; omega)
    · intro Q S hQS hne
      exact hpath Q (S ++ [x]) (by rw [← List.append_assoc, hQS, List.append_assoc]) hne
    · intro T1 y T2 hT
      have := hbad T1 y (T2 ++ [x]) (by rw [hT]; simp)
      simpa using this
    · have e : f + 1 - (T ++ [x]).length = f - T.length := by simp
      rw [e] at hstop
      simpa using hstop

/-! ### `recover` -/

/-- the header part of `Chain::init` passes: the two header files count the same number of
headers and the data file holds the path of `header_head` -/
structure HdrOk (tbl : List BlkInfo) (d : Durable) : Prop where
  len : d.hdrHash.length = d.hdrData.length
  path : ∃ hp, pathOf tbl (tbl.length + 1) d.dbHHead [] = some hp ∧ hp.map (·.id) <+: d.hdrData

theorem recover_of_hdrOk (bc : Nat → Bool) (tbl : List BlkInfo) (d : Durable) (h : HdrOk tbl d) :
    recover bc tbl d = fallback bc tbl d (tbl.length + 1) d.dbHead [] := by
  obtain ⟨hp, hpath, hpre⟩ := h.path
  unfold recover
  rw [if_neg (by simpa using h.len), hpath]
  have := take_of_prefix _ _ hpre
  rw [List.length_map] at this
  simp only [ne_eq]
  rw [if_neg]
  simpa using this

/-- `d` agrees with the consistent state of `O` on everything the body part of recovery reads:
body head, leaf set, and the output / kernel files up to `O`'s sizes -/
structure AgreesOld (O : List BlkInfo) (d : Durable) : Prop where
  head : d.dbHead = tipOf O
  leaf : d.leaf = unspentOf O
  files : FilesCover O d

theorem validAt_of_agrees (bc : Nat → Bool) (O : List BlkInfo) (d : Durable) (h : AgreesOld O d) :
    validAt bc d [] O = true := by
  apply validAt_true_of bc d [] O h.files
  intro l
  rw [h.leaf]
  constructor
  · intro hl; exact ⟨unspentOf_subset_leaves O l hl, Or.inl hl⟩
  · rintro ⟨_, h | h⟩
    · exact h
    · simp at h

/-- **Characterisation (safe states).** A durable state whose header files are consistent with
its header head and which agrees with `consistent O` on body head, leaf set and the `O`-prefix of
the output and kernel files (anything may follow those prefixes) reopens on the tip of `O`. -/
theorem recover_of_agrees (bc : Nat → Bool) (tbl : List BlkInfo) (O : List BlkInfo) (d : Durable)
    (hO : pathOf tbl (tbl.length + 1) (tipOf O) [] = some O)
    (hh : HdrOk tbl d) (ha : AgreesOld O d) :
    recover bc tbl d = .ok (tipOf O) := by
  rw [recover_of_hdrOk bc tbl d hh, ha.head]
  exact fallback_stop bc tbl d _ _ _ O hO (Or.inr (validAt_of_agrees bc O d ha))

end GV.Crash
