import GrinVerif.Lemmas.SerPrim
/-! `sort_unstable()` is modelled by a stable insertion sort (`sortByKey`). This file shows that the
choice of algorithm cannot matter where the codec theorems use it: any function that returns a
permutation of its input ordered by key returns what `sortByKey` returns, as soon as the keys of
the items are pairwise different (two different items with the same hash would be a collision). -/
namespace GV.Ser
open GV

theorem strict_perm_eq {α : Type} (key : α → Nat) :
    ∀ (s t : List α), s.Perm t → (s.map key).Pairwise (· < ·) → (t.map key).Pairwise (· < ·) → s = t := by
  intro s
  induction s with
  | nil => intro t hp _ _; exact (List.Perm.nil_eq hp)
  | cons a s ih =>
    intro t hp hs ht
    cases t with
    | nil => exact absurd hp.symm (List.Perm.nil_eq · |> fun h => by cases h)
    | cons b t =>
      simp only [List.map_cons, List.pairwise_cons] at hs ht
      have ha : a ∈ b :: t := hp.subset (by simp)
      have hb : b ∈ a :: s := hp.symm.subset (by simp)
      have hab : a = b := by
        rcases List.mem_cons.mp ha with h | h
        · exact h
        · rcases List.mem_cons.mp hb with h' | h'
          · exact h'.symm
          · have h1 := ht.1 (key a) (List.mem_map.mpr ⟨a, h, rfl⟩)
            have h2 := hs.1 (key b) (List.mem_map.mpr ⟨b, h', rfl⟩)
            omega
      subst hab
      rw [ih t (List.Perm.cons_inv hp) hs.2 ht.2]

theorem sorted_nodup_strict {α : Type} (key : α → Nat) (s : List α)
    (hs : s.Pairwise (fun a b => key a ≤ key b)) (hnd : (s.map key).Nodup) :
    (s.map key).Pairwise (· < ·) := by
  induction s with
  | nil => simp
  | cons a r ih =>
    have hs' := List.pairwise_cons.mp hs
    simp only [List.map_cons, List.nodup_cons] at hnd
    simp only [List.map_cons]
    refine List.pairwise_cons.mpr ⟨?_, ih hs'.2 hnd.2⟩
    intro k hk
    obtain ⟨b, hb, rfl⟩ := List.mem_map.mp hk
    have hle := hs'.1 b hb
    have hne : key a ≠ key b := fun e => hnd.1 (e ▸ List.mem_map.mpr ⟨b, hb, rfl⟩)
    omega

theorem sort_any_agrees {α : Type} (key : α → Nat) (l s : List α)
    (hperm : s.Perm l) (hsorted : s.Pairwise (fun a b => key a ≤ key b))
    (hnd : (l.map key).Nodup) : s = sortByKey key l := by
  have hp2 := sortByKey_perm key l
  have hnds : (s.map key).Nodup := (hperm.map key).nodup_iff.mpr hnd
  exact strict_perm_eq key s _ (hperm.trans hp2.symm) (sorted_nodup_strict key s hsorted hnds)
    (sortByKey_strict key l hnd)

end GV.Ser
