import GrinVerif.Model.PoolTime
import GrinVerif.Lemmas.PoolRun
import GrinVerif.Lemmas.PoolFee
/-! Lemmas for the clock-dependent glue of the pool (`Model/PoolTime.lean`): the reorg cache stays
within `max_pool_size` over every history, the truncation loop is a `drop`, and on a time-ordered
cache it is the filter "not older than the cutoff". -/
namespace GV.Pool

/-! ## the size of the reorg cache -/

/-- the reorg cache holds at most `max_pool_size` entries -/
def CacheOK (c : Ctx) (s : TxPool) : Prop := s.cache.length ≤ c.cfg.maxPool

theorem addToReorgCache_length {c : Ctx} {s : TxPool} (e : Entry) (h : CacheOK c s) :
    CacheOK c (s.addToReorgCache c e) := by
  unfold CacheOK at *
  unfold TxPool.addToReorgCache
  simp only []
  split
  · simp only [List.length_drop, List.length_append, List.length_cons, List.length_nil]; omega
  · rename_i hn; simp only [List.length_append, List.length_cons, List.length_nil] at hn ⊢; omega

theorem tail_cacheOK {c : Ctx} {s1 s2 : TxPool} {entry : Entry} {r : Res} (h : CacheOK c s1)
    (heq : s1.addToTxpool c entry = (s2, r)) :
    CacheOK c s2 ∧ CacheOK c (s2.addToReorgCache c entry) ∧
    CacheOK c { txpool := Pool.evict c (TxPool.addToReorgCache c s2 entry).txpool,
                stempool := (TxPool.addToReorgCache c s2 entry).stempool,
                cache := (TxPool.addToReorgCache c s2 entry).cache } := by
  obtain ⟨_, _, m3⟩ := addToTxpool_members c s1 entry
  rw [heq] at m3
  simp only at m3
  have h2 : CacheOK c s2 := by unfold CacheOK at *; rw [m3]; exact h
  exact ⟨h2, addToReorgCache_length entry h2, addToReorgCache_length entry h2⟩

theorem addCore_cacheOK {c : Ctx} {s : TxPool} (src : Src) (tx : Tx) (stem stemOk : Bool)
    (hv : CacheOK c s) : CacheOK c (s.addCore c src tx stem stemOk).1 := by
  unfold TxPool.addCore
  split
  · exact hv
  split
  · exact hv
  rename_i entry hentry
  simp only []
  split
  · exact hv
  split
  · exact hv
  split
  · exact hv
  split
  · exact hv
  split
  · exact hv
  rename_i extra hextra
  split
  · exact hv
  split
  · exact hv
  cases stem with
  | false =>
    simp only [Bool.false_eq_true, if_false]
    split
    · rename_i s2 er heq; exact (tail_cacheOK hv heq).1
    · rename_i s2 heq
      split
      · exact (tail_cacheOK hv heq).2.2
      · exact (tail_cacheOK hv heq).2.1
  | true =>
    simp only [if_true]
    cases hadd : Pool.addToPool c s.stempool entry extra with
    | error er => exact hv
    | ok sp =>
      have hv1 : CacheOK c { txpool := s.txpool, stempool := sp, cache := s.cache } := hv
      cases stemOk with
      | true => exact hv1
      | false =>
        simp only []
        split
        · rename_i s2 er heq; exact (tail_cacheOK hv1 heq).1
        · rename_i s2 heq
          split
          · exact (tail_cacheOK hv1 heq).2.2
          · exact (tail_cacheOK hv1 heq).2.1

theorem addToPool_cacheOK {c : Ctx} {s : TxPool} (src : Src) (tx : Tx) (stem stemOk : Bool)
    (hv : CacheOK c s) : CacheOK c (s.addToPool c src tx stem stemOk).1 := by
  unfold TxPool.addToPool
  split <;> exact addCore_cacheOK src tx _ stemOk hv

theorem foldl_addToTxpool_cache (c : Ctx) (l : List Entry) (acc : TxPool) :
    (l.foldl (fun acc e => (acc.addToTxpool c e).1) acc).cache = acc.cache := by
  induction l generalizing acc with
  | nil => rfl
  | cons e rest ih =>
    simp only [List.foldl_cons]
    rw [ih]
    exact (addToTxpool_members c acc e).2.2

theorem step_cfg (cs : Ctx × TxPool) (op : Op) : (step cs op).1.cfg = cs.1.cfg := by
  cases op <;> rfl

theorem step_cacheOK (cs : Ctx × TxPool) (op : Op) (hv : CacheOK cs.1 cs.2) :
    CacheOK (step cs op).1 (step cs op).2 := by
  cases op with
  | submit src tx stem ok => exact addToPool_cacheOK src tx stem ok hv
  | block head ver ins kers =>
    obtain ⟨_, _, m3⟩ := reconcileBlock_members { cs.1 with head := head, ver := ver } cs.2 ins kers
    unfold CacheOK at *
    simp only [step]
    rw [m3]; exact hv
  | reorgCache =>
    unfold CacheOK at *
    simp only [step, TxPool.reconcileReorgCache]
    rw [foldl_addToTxpool_cache]; exact hv
  | evict => exact hv
  | truncate n =>
    unfold CacheOK at *
    simp only [step, TxPool.truncateCache, List.length_drop]
    omega

theorem run_cacheOK (cs : Ctx × TxPool) (ops : List Op) (hv : CacheOK cs.1 cs.2) :
    CacheOK (run cs ops).1 (run cs ops).2 := by
  induction ops generalizing cs with
  | nil => exact hv
  | cons op rest ih => exact ih (step cs op) (step_cacheOK cs op hv)

/-! ## the truncation loop -/

theorem truncLoop_eq_drop (cutoff : Int) (l : TCache) :
    truncLoop cutoff l = l.drop (leadingOld cutoff (l.map (·.2))) := by
  induction l with
  | nil => rfl
  | cons x xs ih =>
    simp only [truncLoop, List.map_cons, leadingOld]
    split
    · simp only [List.drop_succ_cons]; exact ih
    · rfl

/-- what the loop pops is a prefix of entries older than the cutoff -/
theorem truncLoop_prefix (cutoff : Int) (l : TCache) :
    ∃ pre, l = pre ++ truncLoop cutoff l ∧ ∀ x ∈ pre, x.2 < cutoff := by
  induction l with
  | nil => exact ⟨[], rfl, by simp⟩
  | cons x xs ih =>
    simp only [truncLoop]
    split
    · rename_i hx
      obtain ⟨pre, h1, h2⟩ := ih
      refine ⟨x :: pre, by rw [List.cons_append, ← h1], ?_⟩
      intro y hy
      rcases List.mem_cons.mp hy with h | h
      · subst h; exact hx
      · exact h2 y h
    · exact ⟨[], rfl, by simp⟩

/-- the cache entries are in the order of their `tx_at` -/
def TimeSorted (l : TCache) : Prop := l.Pairwise (fun a b => a.2 ≤ b.2)

theorem truncLoop_sorted (cutoff : Int) (l : TCache) (h : TimeSorted l) :
    truncLoop cutoff l = l.filter (fun x => !decide (x.2 < cutoff)) := by
  induction l with
  | nil => rfl
  | cons x xs ih =>
    have hs := List.pairwise_cons.mp h
    simp only [truncLoop]
    split
    · rename_i hx
      rw [ih hs.2, List.filter_cons]
      simp [hx]
    · rename_i hx
      have hall : ∀ y ∈ x :: xs, (!decide (y.2 < cutoff)) = true := by
        intro y hy
        rcases List.mem_cons.mp hy with h' | h'
        · subst h'; simpa using hx
        · have := hs.1 y h'
          simp only [Bool.not_eq_eq_eq_not, Bool.not_true, decide_eq_false_iff_not, Int.not_lt] at *
          omega
      exact (List.filter_eq_self.mpr hall).symm

theorem truncLoop_timeSorted (cutoff : Int) (l : TCache) (h : TimeSorted l) :
    TimeSorted (truncLoop cutoff l) := by
  rw [truncLoop_eq_drop]
  exact List.Pairwise.sublist (List.drop_sublist _ _) h

theorem mem_truncLoop {cutoff : Int} {l : TCache} {x : Entry × Int} (h : x ∈ truncLoop cutoff l) : x ∈ l := by
  rw [truncLoop_eq_drop] at h
  exact List.mem_of_mem_drop h

theorem cachePush_timeSorted (mp : Nat) (l : TCache) (e : Entry) (a : Int) (h : TimeSorted l)
    (hle : ∀ x ∈ l, x.2 ≤ a) : TimeSorted (cachePush mp l e a) := by
  have h1 : TimeSorted (l ++ [(e, a)]) := by
    unfold TimeSorted
    rw [List.pairwise_append]
    refine ⟨h, List.pairwise_singleton _ _, ?_⟩
    intro x hx y hy
    simp only [List.mem_singleton] at hy
    subst hy
    exact hle x hx
  unfold cachePush
  simp only []
  split
  · exact List.Pairwise.sublist (List.drop_sublist _ _) h1
  · exact h1

theorem mem_cachePush {mp : Nat} {l : TCache} {e : Entry} {a : Int} {x : Entry × Int}
    (h : x ∈ cachePush mp l e a) : x ∈ l ∨ x = (e, a) := by
  unfold cachePush at h
  simp only [] at h
  split at h
  · have := List.mem_of_mem_drop h
    simpa using this
  · simpa using h

/-- the invariant of a timed cache history whose remaining admissions happen at `ts` -/
theorem crun_sorted (mp : Nat) (ops : List COp) (l : TCache) (h : TimeSorted l)
    (hmono : (pushTimes ops).Pairwise (· ≤ ·)) (hle : ∀ x ∈ l, ∀ a ∈ pushTimes ops, x.2 ≤ a) :
    TimeSorted (crun mp l ops) := by
  induction ops generalizing l with
  | nil => exact h
  | cons op rest ih =>
    simp only [crun, List.foldl_cons]
    cases op with
    | push e a =>
      simp only [pushTimes, List.pairwise_cons] at hmono
      apply ih
      · exact cachePush_timeSorted mp l e a h (fun x hx => hle x hx a (by simp [pushTimes]))
      · exact hmono.2
      · intro x hx b hb
        rcases mem_cachePush hx with h' | h'
        · exact hle x h' b (by simp [pushTimes, hb])
        · subst h'; exact hmono.1 b hb
    | trunc cutoff =>
      simp only [pushTimes] at hmono hle
      apply ih
      · exact truncLoop_timeSorted cutoff l h
      · exact hmono
      · intro x hx b hb; exact hle x (mem_truncLoop hx) b hb

theorem cachePush_length (mp : Nat) (l : TCache) (e : Entry) (a : Int) (h : l.length ≤ mp) :
    (cachePush mp l e a).length ≤ mp := by
  unfold cachePush
  simp only []
  split
  · simp only [List.length_drop, List.length_append, List.length_cons, List.length_nil]; omega
  · rename_i hn; simp only [List.length_append, List.length_cons, List.length_nil] at hn ⊢; omega

theorem crun_length (mp : Nat) (ops : List COp) (l : TCache) (h : l.length ≤ mp) :
    (crun mp l ops).length ≤ mp := by
  induction ops generalizing l with
  | nil => exact h
  | cons op rest ih =>
    simp only [crun, List.foldl_cons]
    apply ih
    cases op with
    | push e a => exact cachePush_length mp l e a h
    | trunc cutoff =>
      simp only [cstep]; rw [truncLoop_eq_drop, List.length_drop]; omega

/-! ## `select_txs_cutoff` -/

/-- the selection depends on an entry only through its transaction -/
theorem selectCutoff_by_tx (m : Clock) (now : Int) (secs : Nat) (p : Pool) :
    selectCutoff m now secs p =
      p.filter (fun e => ((selectCutoff m now secs p).map (·.tx)).contains e.tx) := by
  unfold selectCutoff
  apply List.filter_congr
  intro e he
  by_cases hP : tsOf (atOf m e.tx) < tsOf now - (secs : Int)
  · have hmem : e ∈ p.filter (fun e => decide (tsOf (atOf m e.tx) < tsOf now - (secs : Int))) :=
      List.mem_filter.mpr ⟨he, by simpa using hP⟩
    have : e.tx ∈ (p.filter (fun e => decide (tsOf (atOf m e.tx) < tsOf now - (secs : Int)))).map (·.tx) :=
      List.mem_map.mpr ⟨e, hmem, rfl⟩
    simp only [hP, decide_true, List.contains_eq_mem, this]
  · have hnot : e.tx ∉ (p.filter (fun e => decide (tsOf (atOf m e.tx) < tsOf now - (secs : Int)))).map (·.tx) := by
      intro hin
      obtain ⟨e', he', htx⟩ := List.mem_map.mp hin
      have := (List.mem_filter.mp he').2
      simp only [decide_eq_true_eq] at this
      rw [htx] at this
      exact hP this
    simp only [hP, decide_false, List.contains_eq_mem, hnot]

theorem filter_isEmpty_eq_not_any {α : Type} (P : α → Bool) (l : List α) :
    (l.filter P).isEmpty = !l.any P := by
  induction l with
  | nil => rfl
  | cons x xs ih =>
    simp only [List.filter_cons, List.any_cons]
    cases hx : P x
    · simpa using ih
    · simp

/-- "some stem entry is older than the cutoff", as `monitorPass` reads it from the list of old
transactions -/
theorem any_select (m : Clock) (now : Int) (secs : Nat) (p : Pool) :
    p.any (fun e => ((selectCutoff m now secs p).map (·.tx)).contains e.tx) =
      !(selectCutoff m now secs p).isEmpty := by
  conv => rhs; rw [selectCutoff_by_tx, filter_isEmpty_eq_not_any]
  simp

theorem expireEntriesT_eq (c : Ctx) (s : TxPool) (d : DCfg) (m : Clock) (now : Int) (roll : Nat) :
    s.expireEntriesT c d m now roll =
      s.expireEntries c ((selectCutoff m now (embargoCutoff d roll) s.stempool).map (·.tx)) := by
  unfold TxPool.expireEntriesT TxPool.expireEntries
  rw [← selectCutoff_by_tx]

theorem fluffPhaseT_eq (c : Ctx) (s : TxPool) (d : DCfg) (ep : TEpoch) (m : Clock) (now : Int) :
    s.fluffPhaseT c d ep m now =
      s.fluffPhase c (ep.toEpoch d now).expired
        (s.stempool.any fun e => ((selectCutoff m now d.aggSecs s.stempool).map (·.tx)).contains e.tx) := by
  unfold TxPool.fluffPhaseT
  rw [any_select]
  rfl

/-- a timed step is the untimed node step on the erased event -/
theorem tstep_cs (T : TCfg) (st : TSt) (o : TOp) : (tstep T st o).cs = nstep st.cs (eraseT T st o) := by
  cases o with
  | pool op => rfl
  | recv syncing tx stem now => rfl
  | push src tx stem now => rfl
  | monitor m i =>
    simp only [tstep, eraseT, nstep, TxPool.monitorPassT, TxPool.monitorPass, TEpoch.toEpoch]
    rw [expireEntriesT_eq]
    cases hst : st.ep.isStem
    · simp only [Bool.not_false, if_true]
      rw [fluffPhaseT_eq]
      rfl
    · simp only [Bool.not_true, Bool.false_eq_true, if_false]
  | blockTruncate ats now => rfl

theorem trun_cs (T : TCfg) (st : TSt) (ops : List TOp) :
    (trun T st ops).cs = nrun st.cs (eraseAll T st ops) := by
  induction ops generalizing st with
  | nil => rfl
  | cons o os ih =>
    show (trun T (tstep T st o) os).cs = nrun (nstep st.cs (eraseT T st o)) (eraseAll T (tstep T st o) os)
    rw [ih, tstep_cs]

end GV.Pool
