import GrinVerif.Lemmas.SegCompleteVec
/-! Completeness of segments of an unpruned MMR, stated on lists: the MMR is the hash vector of the
defining construction `Spec.Mmr.hashes hf xs` (= what `PMMR::push` builds, C07 `push_root`), the
expected leaf list and segment root are read off `xs` and that vector.  Core Lean only. -/
namespace GV.Seg
open GV GV.Pmmr

variable {α H : Type}

/-- the leaf entry of one position: `(q, xs[j])` when `q` is the position of leaf `j` -/
def expectedLeaf (xs : List α) (q : Nat) : Option (Nat × α) :=
  match pmmrLeafToInsertionIndex q with
  | some j => xs[j]?.map fun x => (q, x)
  | none => none

/-- the leaf entries an honest segment carries for the positions `ps` of the MMR of `xs`:
`(position, xs[insertion index])` for every leaf position -/
def expectedLeaves (xs : List α) (ps : List Nat) : List (Nat × α) :=
  ps.filterMap (expectedLeaf xs)

/-- the root an honest segment has: the committed hash at its last position when it is full, the
hashes of the peaks inside its range bagged right to left (with the MMR size) when it is not -/
def expectedSegRoot (hf : HashFn α H) (hashes : List H) (id : Ident) : Option H :=
  if id.full hashes.length then hashes[(id.posRange hashes.length).2]?
  else bag hf hashes.length ((id.peaksIn hashes.length).reverse.filterMap fun p => hashes[p]?)

theorem expectedLeaf_spec (xs : List α) (f : Nat → α) (hf' : ∀ i (hi : i < xs.length), f i = xs[i])
    (q : Nat) (hq : q < mmr xs.length) :
    expectedLeaf xs q = if height q = 0 then some (q, dAt f q) else none := by
  obtain ⟨n, k, hk, rfl⟩ := Co.coord_surj q
  have hn : n < xs.length := (Co.coord_lt_iff hk).1 hq
  have hpm := Co.peakMapHeight_co n k hk
  have hh := Co.height_co n k hk
  unfold expectedLeaf pmmrLeafToInsertionIndex dAt
  rw [hpm, hh]
  by_cases hz : k = 0
  · simp [hz, hn, hf' n hn]
  · simp [hz]

theorem leavesOf_cons (dataAt : Nat → α) (p : Nat) (ps : List Nat) :
    leavesOf dataAt (p :: ps) =
      if height p = 0 then (p, dataAt p) :: leavesOf dataAt ps else leavesOf dataAt ps := by
  by_cases hp : height p = 0 <;> simp [leavesOf, hp]

theorem leavesOf_expected (xs : List α) (f : Nat → α) (hf' : ∀ i (hi : i < xs.length), f i = xs[i]) :
    ∀ (ps : List Nat), (∀ p ∈ ps, p < mmr xs.length) → leavesOf (dAt f) ps = expectedLeaves xs ps := by
  intro ps
  induction ps with
  | nil => intro _; rfl
  | cons p ps ih =>
    intro h
    have ih' := ih (fun q hq => h q (List.mem_cons_of_mem _ hq))
    have hp := expectedLeaf_spec xs f hf' p (h p (List.mem_cons_self ..))
    rw [leavesOf_cons, ih']
    unfold expectedLeaves
    rw [List.filterMap_cons, hp]
    by_cases hz : height p = 0 <;> simp [hz]

theorem expectedSegRoot_eq (hf : HashFn α H) (f : Nat → α) (N : Nat) (id : Ident) (fit : FitId id N) :
    expectedSegRoot hf (Co.allHashes hf f N) id = segRootOf hf f N id := by
  unfold expectedSegRoot segRootOf
  rw [Co.allHashes_length]
  rcases fit_cases id N fit with h | h
  · obtain ⟨_, _, hfull, hr⟩ := full_arith id (mmr N) h
    have hfit : (id.idx + 1) * 2 ^ id.height ≤ N := by
      have := h.fit; rwa [GV.Props.C07.nLeaves_at_leaf_boundary] at this
    have hlt : lastOf id < mmr N := (Co.coord_lt_iff (lastLeaf_valid id)).2 (lastLeaf_lt id N h)
    rw [hfull, hr, if_pos hfit]
    simp only [if_true]
    exact allHashes_hAt hf f N _ hlt
  · obtain ⟨_, _, _, hfull, _⟩ := final_arith id N h
    have hnfit : ¬ (id.idx + 1) * 2 ^ id.height ≤ N := by have := h.hi; omega
    rw [hfull, if_neg hnfit, final_peaksIn id N h, List.reverse_reverse]
    simp only [Bool.false_eq_true, if_false]
    congr 1
    exact Co.filterMap_forest hf f N _ (fun c hc => by
      have := final_trees_mem id N h c hc; omega)

/-- **segment_complete on lists.**  `xs` any list of elements, the MMR = the hash vector of the
defining construction (what pushing `xs` one by one builds), `id` any identifier whose range
intersects it. -/
theorem segment_complete_list (hf : HashFn α H) [DecidableEq H] (xs : List α) (id : Ident)
    (fit : FitId id xs.length) :
    ∃ s r sr, fromPmmr hf (vecView (Spec.Mmr.hashes hf xs) xs) id false = .ok s ∧
      Spec.Mmr.root hf xs = some r ∧
      expectedSegRoot hf (Spec.Mmr.hashes hf xs) id = some sr ∧
      s.id = id ∧ s.hashPos = [] ∧ s.hashes = [] ∧
      s.leafPos.zip s.leafData = expectedLeaves xs (id.positions (mmr xs.length)) ∧
      s.root hf (mmr xs.length) none = .ok (some sr) ∧
      reconstructRoot hf s.proof (mmr xs.length) (id.posRange (mmr xs.length)).1
        (id.posRange (mmr xs.length)).2 sr (1 + (id.posRange (mmr xs.length)).2) = .ok (r, []) ∧
      s.validate hf (mmr xs.length) none r = .ok () ∧
      ∀ hlp other left, s.validateWith hf (mmr xs.length) none
        (if left then hf.node hlp other r else hf.node hlp r other) hlp other left = .ok () := by
  have hne : xs ≠ [] := by
    intro h; have := fit.lo; rw [h] at this; simp at this
  obtain ⟨f, hxs, hfi⟩ := Co.list_as_fn xs hne
  have hhashes : Spec.Mmr.hashes hf xs = Co.allHashes hf f xs.length := by
    conv => lhs; rw [hxs]
    exact Co.spec_hashes hf f xs.length
  have hroot : Spec.Mmr.root hf xs = rootOf hf f xs.length := by
    conv => lhs; rw [hxs]
    exact Co.spec_root hf f xs.length
  have huv : UnprunedView hf f xs.length (vecView (Spec.Mmr.hashes hf xs) xs) := by
    rw [hhashes]
    have := vecView_unpruned hf f xs.length
    rwa [← hxs] at this
  obtain ⟨proof, r, sr, hfrom, hr, hsr, hsroot, hrec, hv, hvw⟩ :=
    segment_complete_view hf f xs.length _ huv id fit
  refine ⟨_, r, sr, hfrom, by rw [hroot]; exact hr, ?_, rfl, rfl, rfl, ?_, hsroot, hrec, hv, hvw⟩
  · rw [hhashes, expectedSegRoot_eq hf f xs.length id fit]; exact hsr
  · rw [honestSeg_leaves]
    exact leavesOf_expected xs f hfi _ (fit_positions id xs.length fit).1

end GV.Seg
