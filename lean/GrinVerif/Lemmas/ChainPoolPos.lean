import GrinVerif.Model.ChainPool
import GrinVerif.Lemmas.ChainMorePath
/-! The position-based coinbase-maturity check of the implementation (`Model/ChainPool.lean`,
`txMaturityImpl`) against the height-based specification (`txMaturity`): the positions carried
along a path refine the replayed state, every unspent output created by the block at height `c`
lies in the leaf range of that block, and therefore — as long as the header found in the header
MMR at the cutoff height is the one of the body chain — both checks decide alike. -/
namespace GV.Chain

def OutPos.proj (u : OutPos) : Nat × Nat × Bool := (u.id, u.height, u.cb)

/-- the positions refine the replayed unspent set, entry by entry -/
def AbsP (S : PState) (s : UState) : Prop := S.utxo.map OutPos.proj = s.utxo

theorem posOuts_proj (start h : Nat) (os : List (Nat × Bool)) :
    (posOuts start h os).map OutPos.proj = os.map (fun o => (o.1, h, o.2)) := by
  induction os generalizing start with
  | nil => rfl
  | cons o os ih => simp [posOuts, OutPos.proj, ih]

theorem absP_step {S : PState} {s : UState} (b : Blk) (h : AbsP S s) :
    AbsP (applyP S b) (effects s b) := by
  unfold AbsP at *
  simp only [applyP, effects, List.map_append, posOuts_proj, ← h, List.filter_map]
  rfl

theorem absP_genesis (g : Blk) : AbsP (genesisP g) (genesisState g) := by
  simp [AbsP, genesisP, genesisState, posOuts_proj]

theorem absP_replay (p : Params) (bs : List Blk) : ∀ {S : PState} {s s' : UState}, AbsP S s →
    replay p s bs = .ok s' → AbsP (replayP S bs) s' := by
  induction bs with
  | nil =>
    intro S s s' h hr
    simp only [replay] at hr
    injection hr with hr
    subst hr; exact h
  | cons b bs ih =>
    intro S s s' h hr
    simp only [replay] at hr
    cases h1 : applyBlock p s b with
    | error e => rw [h1] at hr; cases hr
    | ok s1 =>
      rw [h1] at hr
      have he := (applyBlock_ok p s s1 b h1).2.2.2.2
      exact ih (he ▸ absP_step b h) hr

theorem absP_find {S : PState} {s : UState} (h : AbsP S s) (i : Nat) :
    s.find i = (S.utxo.find? (·.id == i)).map OutPos.proj := by
  unfold UState.find
  rw [← h, List.find?_map]
  rfl

theorem absP_has {S : PState} {s : UState} (h : AbsP S s) (i : Nat) :
    s.has i = (S.utxo.find? (·.id == i)).isSome := by
  unfold UState.has
  rw [← h, List.any_map, Bool.eq_iff_iff, List.any_eq_true, List.find?_isSome]
  rfl

/-! ### sizes -/

theorem outSize_append (a b : List Blk) : outSize (a ++ b) = outSize a + outSize b := by
  simp [outSize, List.sum_append]

theorem outSize_take_mono (P : List Blk) (a b : Nat) (h : a ≤ b) :
    outSize (P.take a) ≤ outSize (P.take b) := by
  have e : P.take a = (P.take b).take a := by rw [List.take_take, Nat.min_eq_left h]
  have e2 : P.take b = (P.take b).take a ++ (P.take b).drop a := (List.take_append_drop a _).symm
  rw [e2, outSize_append, ← e]
  omega

theorem posOuts_mem (start h : Nat) (os : List (Nat × Bool)) (u : OutPos)
    (hu : u ∈ posOuts start h os) : u.height = h ∧ start < u.pos ∧ u.pos ≤ start + os.length := by
  induction os generalizing start with
  | nil => cases hu
  | cons o os ih =>
    simp only [posOuts, List.mem_cons] at hu
    rcases hu with rfl | hu
    · simp
    · have := ih (start + 1) hu
      simp only [List.length_cons]
      omega

/-- every unspent output created by the block at index `c` of the path `P` (root first, heights =
indices) has its leaf number in that block's range -/
structure PosInv (S : PState) (P : List Blk) : Prop where
  size : S.size = outSize P
  range : ∀ u ∈ S.utxo, u.height < P.length ∧ outSize (P.take u.height) < u.pos ∧
    u.pos ≤ outSize (P.take (u.height + 1))

theorem posInv_genesis (g : Blk) : PosInv (genesisP g) [g] := by
  refine ⟨by simp [genesisP, outSize], ?_⟩
  intro u hu
  obtain ⟨h1, h2, h3⟩ := posOuts_mem 0 0 g.outs u hu
  rw [h1]
  simp [outSize]
  omega

theorem posInv_step {S : PState} {P : List Blk} (b : Blk) (hb : b.h = P.length) (h : PosInv S P) :
    PosInv (applyP S b) (P ++ [b]) := by
  refine ⟨by simp [applyP, h.size, outSize], ?_⟩
  intro u hu
  simp only [applyP, List.mem_append, List.mem_filter] at hu
  rcases hu with ⟨hu, _⟩ | hu
  · obtain ⟨h1, h2, h3⟩ := h.range u hu
    refine ⟨by simp; omega, ?_, ?_⟩
    · rw [List.take_append_of_le_length (by omega)]; exact h2
    · rw [List.take_append_of_le_length (by omega)]; exact h3
  · obtain ⟨h1, h2, h3⟩ := posOuts_mem S.size b.h b.outs u hu
    rw [h1, hb]
    refine ⟨by simp, ?_, ?_⟩
    · rw [List.take_append_of_le_length (Nat.le_refl _), List.take_length, ← h.size]; exact h2
    · rw [show P.length + 1 = (P ++ [b]).length by simp, List.take_length, outSize_append, ← h.size]
      simp only [outSize, List.map_cons, List.map_nil, List.sum_cons, List.sum_nil, Nat.add_zero]
      exact h3

theorem posInv_replay (bs : List Blk) : ∀ {S : PState} {P : List Blk}, PosInv S P →
    (∀ k x, bs[k]? = some x → x.h = P.length + k) → PosInv (replayP S bs) (P ++ bs) := by
  induction bs with
  | nil => intro S P h _; simpa [replayP] using h
  | cons b bs ih =>
    intro S P h hh
    have hb : b.h = P.length := by simpa using hh 0 b rfl
    have := ih (posInv_step b hb h) (by
      intro k x hk
      have := hh (k + 1) x (by simpa using hk)
      simp only [List.length_append, List.length_cons, List.length_nil]
      omega)
    simpa [replayP] using this

/-! ### the two lookups -/

theorem lookupInputs_none_iff (S : PState) (ins : List Nat) :
    lookupInputs S ins = none ↔ ∃ i ∈ ins, S.utxo.find? (·.id == i) = none := by
  induction ins with
  | nil => simp [lookupInputs]
  | cons i is ih =>
    simp only [lookupInputs]
    cases hf : S.utxo.find? (·.id == i) with
    | none => exact ⟨fun _ => ⟨i, List.mem_cons_self .., hf⟩, fun _ => rfl⟩
    | some u =>
      cases hl : lookupInputs S is with
      | none =>
        simp only [true_iff]
        obtain ⟨j, hj, hn⟩ := ih.mp hl
        exact ⟨j, List.mem_cons_of_mem _ hj, hn⟩
      | some r =>
        simp only [reduceCtorEq, false_iff]
        rintro ⟨j, hj, hn⟩
        rcases List.mem_cons.mp hj with rfl | hj
        · rw [hf] at hn; cases hn
        · have := ih.mpr ⟨j, hj, hn⟩
          rw [hl] at this; cases this

theorem lookupInputs_some (S : PState) (ins : List Nat) : ∀ (sp : List OutPos),
    lookupInputs S ins = some sp →
    ∀ u, u ∈ sp ↔ ∃ i ∈ ins, S.utxo.find? (·.id == i) = some u := by
  induction ins with
  | nil =>
    intro sp h u
    simp only [lookupInputs] at h
    injection h with h
    subst h; simp
  | cons i is ih =>
    intro sp h u
    simp only [lookupInputs] at h
    cases hf : S.utxo.find? (·.id == i) with
    | none => rw [hf] at h; cases h
    | some v =>
      rw [hf] at h
      cases hl : lookupInputs S is with
      | none => rw [hl] at h; cases h
      | some r =>
        rw [hl] at h
        injection h with h
        subst h
        simp only [List.mem_cons]
        constructor
        · rintro (rfl | hu)
          · exact ⟨i, Or.inl rfl, hf⟩
          · obtain ⟨j, hj, hju⟩ := (ih r hl u).mp hu
            exact ⟨j, Or.inr hj, hju⟩
        · rintro ⟨j, hj | hj, hju⟩
          · subst hj; rw [hf] at hju; injection hju with hju; exact Or.inl hju.symm
          · exact Or.inr ((ih r hl u).mpr ⟨j, hj, hju⟩)

theorem maxOpt_none_iff (l : List Nat) : maxOpt l = none ↔ l = [] := by
  cases l with
  | nil => simp [maxOpt]
  | cons x xs =>
    simp only [maxOpt]
    cases maxOpt xs <;> simp

theorem maxOpt_some (l : List Nat) : ∀ m, maxOpt l = some m → m ∈ l ∧ ∀ x ∈ l, x ≤ m := by
  induction l with
  | nil => intro m h; simp [maxOpt] at h
  | cons x xs ih =>
    intro m h
    simp only [maxOpt] at h
    cases hx : maxOpt xs with
    | none =>
      rw [hx] at h
      injection h with h
      subst h
      have : xs = [] := (maxOpt_none_iff xs).mp hx
      subst this
      simp
    | some m' =>
      rw [hx] at h
      injection h with h
      obtain ⟨hm, hle⟩ := ih m' hx
      by_cases hlt : x < m'
      · rw [if_pos hlt] at h
        subst h
        refine ⟨List.mem_cons_of_mem _ hm, ?_⟩
        intro y hy
        rcases List.mem_cons.mp hy with rfl | hy
        · omega
        · exact hle y hy
      · rw [if_neg hlt] at h
        subst h
        refine ⟨List.mem_cons_self .., ?_⟩
        intro y hy
        rcases List.mem_cons.mp hy with rfl | hy
        · omega
        · have := hle y hy; omega

/-! ### the specification, by cases -/

theorem find_fst {s : UState} {i : Nat} {x : Nat × Nat × Bool} (h : s.find i = some x) :
    x.1 = i := by
  unfold UState.find at h
  have := List.find?_some h
  simpa using this

open Classical in
theorem txMaturity_spec (p : Params) (s : UState) (t : TxA) :
    txMaturity p s t =
      if ∃ i ∈ t.ins, s.has i = false then some "AlreadySpent"
      else if ∃ i ∈ t.ins, ∃ c, s.find i = some (i, c, true) ∧ s.height + 1 < c + p.maturity
        then some "ImmatureCoinbase" else none := by
  unfold txMaturity
  by_cases h1 : ∃ i ∈ t.ins, s.has i = false
  · rw [if_pos h1, if_pos]
    obtain ⟨i, hi, hn⟩ := h1
    simp only [Bool.not_eq_true', List.all_eq_false]
    exact ⟨i, hi, by simp [hn]⟩
  · rw [if_neg h1, if_neg (by
      simp only [Bool.not_eq_true', List.all_eq_false, not_exists, not_and]
      intro i hi hn
      exact h1 ⟨i, hi, by simpa using hn⟩)]
    by_cases h2 : ∃ i ∈ t.ins, ∃ c, s.find i = some (i, c, true) ∧ s.height + 1 < c + p.maturity
    · rw [if_pos h2, if_pos]
      obtain ⟨i, hi, c, hf, hlt⟩ := h2
      exact List.any_eq_true.mpr ⟨i, hi, by simp [hf, hlt]⟩
    · rw [if_neg h2, if_neg]
      intro ha
      obtain ⟨i, hi, hm⟩ := List.any_eq_true.mp ha
      apply h2
      refine ⟨i, hi, ?_⟩
      cases hf : s.find i with
      | none => rw [hf] at hm; simp at hm
      | some x =>
        obtain ⟨j, c, cb⟩ := x
        have hj : j = i := find_fst hf
        subst hj
        rw [hf] at hm
        cases cb with
        | false => simp at hm
        | true => exact ⟨c, rfl, by simpa using hm⟩

/-! ### the implementation-shaped check agrees while the header MMR follows the body chain -/

/-- **Main lemma.** `P` = path of the body head (root first, heights = indices), `S` its positions,
`s` its replayed state. If the header MMR `hpath` has a header at the cutoff height and agrees with
the body chain up to that height, the position-based check returns what the height-based
specification returns, for every list of inputs. -/
theorem txMaturityImpl_eq (p : Params) (P hpath : List Blk) (S : PState) (s : UState) (t : TxA)
    (hA : AbsP S s) (hI : PosInv S P) (hh : s.height + 1 = P.length)
    (hcut : p.maturity ≤ P.length → P.length - p.maturity < hpath.length ∧
      hpath.take (P.length - p.maturity + 1) = P.take (P.length - p.maturity + 1)) :
    txMaturityImpl p S hpath P.length t.ins = txMaturity p s t := by
  rw [txMaturity_spec]
  unfold txMaturityImpl
  cases hl : lookupInputs S t.ins with
  | none =>
    obtain ⟨i, hi, hn⟩ := (lookupInputs_none_iff S t.ins).mp hl
    rw [if_pos ⟨i, hi, by rw [absP_has hA, hn]; rfl⟩]
  | some sp =>
    dsimp only
    have hsp := lookupInputs_some S t.ins sp hl
    have hall : ¬ ∃ i ∈ t.ins, s.has i = false := by
      rintro ⟨i, hi, hn⟩
      rw [absP_has hA] at hn
      have : lookupInputs S t.ins = none :=
        (lookupInputs_none_iff S t.ins).mpr ⟨i, hi, by
          cases hf : S.utxo.find? (·.id == i) with
          | none => rfl
          | some u => rw [hf] at hn; cases hn⟩
      rw [hl] at this; cases this
    rw [if_neg hall]
    -- the specification's condition in terms of the looked-up outputs
    have hspec : (∃ i ∈ t.ins, ∃ c, s.find i = some (i, c, true) ∧ s.height + 1 < c + p.maturity) ↔
        ∃ u ∈ sp, u.cb = true ∧ P.length < u.height + p.maturity := by
      constructor
      · rintro ⟨i, hi, c, hf, hlt⟩
        rw [absP_find hA] at hf
        cases hfu : S.utxo.find? (·.id == i) with
        | none => rw [hfu] at hf; cases hf
        | some u =>
          rw [hfu] at hf
          simp only [Option.map_some, OutPos.proj, Option.some.injEq, Prod.mk.injEq] at hf
          exact ⟨u, (hsp u).mpr ⟨i, hi, hfu⟩, hf.2.2, by rw [hf.2.1]; omega⟩
      · rintro ⟨u, hu, hcb, hlt⟩
        obtain ⟨i, hi, hfu⟩ := (hsp u).mp hu
        have hid : u.id = i := by simpa using List.find?_some hfu
        refine ⟨i, hi, u.height, ?_, by omega⟩
        rw [absP_find hA, hfu]
        simp [OutPos.proj, hid, hcb]
    cases hm : maxOpt ((sp.filter (·.cb)).map (·.pos)) with
    | none =>
      dsimp only
      rw [if_neg]
      rw [hspec]
      rintro ⟨u, hu, hcb, _⟩
      have := (maxOpt_none_iff _).mp hm
      have hmem : u.pos ∈ (sp.filter (·.cb)).map (·.pos) :=
        List.mem_map.mpr ⟨u, List.mem_filter.mpr ⟨hu, hcb⟩, rfl⟩
      rw [this] at hmem; cases hmem
    | some pos =>
      dsimp only
      obtain ⟨hpm, hple⟩ := maxOpt_some _ pos hm
      obtain ⟨w, hw, hwp⟩ := List.mem_map.mp hpm
      obtain ⟨hwsp, hwcb⟩ := List.mem_filter.mp hw
      by_cases hlt : P.length < p.maturity
      · rw [if_pos hlt, if_pos]
        rw [hspec]
        exact ⟨w, hwsp, hwcb, by omega⟩
      · rw [if_neg hlt]
        obtain ⟨hc1, hc2⟩ := hcut (by omega)
        unfold cutoffSize
        rw [if_pos hc1, hc2]
        simp only
        -- position above the cutoff size ⟺ created above the cutoff height
        have hrange : ∀ u ∈ sp, (u.pos > outSize (P.take (P.length - p.maturity + 1)) ↔
            P.length < u.height + p.maturity) := by
          intro u hu
          obtain ⟨i, _, hfu⟩ := (hsp u).mp hu
          obtain ⟨_, r2, r3⟩ := hI.range u (List.mem_of_find?_eq_some hfu)
          constructor
          · intro hgt
            by_cases hle : u.height ≤ P.length - p.maturity
            · have := outSize_take_mono P (u.height + 1) (P.length - p.maturity + 1) (by omega)
              omega
            · omega
          · intro hlt'
            have := outSize_take_mono P (P.length - p.maturity + 1) u.height (by omega)
            omega
        by_cases hgt : pos > outSize (P.take (P.length - p.maturity + 1))
        · rw [if_pos hgt, if_pos]
          rw [hspec]
          exact ⟨w, hwsp, hwcb, (hrange w hwsp).mp (hwp ▸ hgt)⟩
        · rw [if_neg hgt, if_neg]
          rw [hspec]
          rintro ⟨u, hu, hcb, hlt'⟩
          have h1 := (hrange u hu).mpr hlt'
          have h2 := hple u.pos (List.mem_map.mpr ⟨u, List.mem_filter.mpr ⟨hu, hcb⟩, rfl⟩)
          omega

/-- the header chain extends the body chain (header head = body head or a descendant) -/
theorem cut_of_prefix_left (p : Params) (P hpath : List Blk) (hm0 : 0 < p.maturity)
    (h : P <+: hpath) :
    p.maturity ≤ P.length → P.length - p.maturity < hpath.length ∧
      hpath.take (P.length - p.maturity + 1) = P.take (P.length - p.maturity + 1) := by
  intro hm
  obtain ⟨x, rfl⟩ := h
  refine ⟨by simp; omega, ?_⟩
  rw [List.take_append_of_le_length (by omega)]

/-- the header chain is a prefix of the body chain (header head an ancestor of the body head) that
still reaches the cutoff height -/
theorem cut_of_prefix_right (p : Params) (P hpath : List Blk) (h : hpath <+: P)
    (hlen : P.length - p.maturity < hpath.length) :
    p.maturity ≤ P.length → P.length - p.maturity < hpath.length ∧
      hpath.take (P.length - p.maturity + 1) = P.take (P.length - p.maturity + 1) := by
  intro _
  obtain ⟨x, rfl⟩ := h
  refine ⟨hlen, ?_⟩
  rw [List.take_append_of_le_length (by omega)]

/-- **Node level.** For a node whose head has the path `g :: rest` (genesis at height 0, valid on
its own path) and whose header head has the path `hpath`: if the header chain and the body chain
agree up to the cutoff height, `Chain::verify_coinbase_maturity` as implemented answers what the
specification answers. -/
theorem poolMaturityImpl_eq (p : Params) (N n : Node) (hb : N.blks = n.blks) (g : Blk)
    (rest : List Blk) (s : UState) (H : HeadPath p n g N.head rest s) (hg0 : g.h = 0)
    (hpath : List Blk) (hH : N.path N.hhead = some hpath) (t : TxA)
    (hcut : p.maturity ≤ rest.length + 1 → rest.length + 1 - p.maturity < hpath.length ∧
      hpath.take (rest.length + 1 - p.maturity + 1) = (g :: rest).take (rest.length + 1 - p.maturity + 1)) :
    N.poolMaturityImpl p t = txMaturity p s t := by
  have hP : N.path N.head = some (g :: rest) := by rw [path_congr hb]; exact H.path
  have hho : N.heightOf N.head + 1 = (g :: rest).length := by
    obtain ⟨b, hbk, hlast⟩ := H.isPath.last
    have hk : (g :: rest)[rest.length]? = some b := by
      rw [← hlast, List.getLast?_eq_getElem?]; simp
    have := H.height_at rest.length b hk
    simp only [Node.heightOf, blk_congr hb, hbk, List.length_cons]
    omega
  unfold Node.poolMaturityImpl
  rw [hP, hH]
  simp only
  rw [hho]
  have hA : AbsP (replayP (genesisP g) rest) s := absP_replay p rest (absP_genesis g) H.replay
  have hI : PosInv (replayP (genesisP g) rest) ([g] ++ rest) :=
    posInv_replay rest (posInv_genesis g) (by
      intro k x hk
      have := H.height_at (k + 1) x (by simpa using hk)
      simp only [List.length_cons, List.length_nil]
      omega)
  exact txMaturityImpl_eq p (g :: rest) hpath _ s t hA hI
    (by rw [H.height_eq hg0]; rfl) (by simpa using hcut)

end GV.Chain
