import GrinVerif.Lemmas.BitmapLoop
/-! `init` and `apply` expressed on chunk vectors: `init U` builds `specData U`; `apply` on the
from-scratch accumulator of `U₀` builds `specData U` when `U` agrees with `U₀` before the rebuilt
chunk and has an element at or after it.  Core Lean only. -/
namespace GV.Bitmap
open GV GV.Pmmr

variable {H : Type}

theorem pairwise_le_of_lt {U : List Nat} (h : U.Pairwise (· < ·)) : U.Pairwise (· ≤ ·) :=
  h.imp (fun h => Nat.le_of_lt h)

/-- beyond the chunk of the largest element every chunk of `U` is empty -/
theorem chunkOf_eq_zero_of_ge (U : List Nat) (c : Nat) (hs : U.Pairwise (· ≤ ·)) (hc : nChunks U ≤ c) :
    chunkOf U c = chunkNew := by
  have : U.filter (inChunk c) = [] := by
    rw [List.filter_eq_nil_iff]
    intro x hx
    unfold nChunks at hc
    cases hl : U.getLast? with
    | none =>
      have : U = [] := by simpa using hl
      subst this; simp at hx
    | some m =>
      rw [hl] at hc
      simp only [] at hc
      have := le_getLast U m hs hl x hx
      simp [inChunk]; omega
  rw [chunkOf_eq, this]; rfl

/-- chunks before chunk `k` only depend on the elements below `1024 k` -/
theorem chunkOf_congr_below (U U0 : List Nat) (k c : Nat) (hc : c < k)
    (h : U.filter (fun x => decide (x < k * 1024)) = U0.filter (fun x => decide (x < k * 1024))) :
    chunkOf U c = chunkOf U0 c := by
  have key : ∀ (L : List Nat), L.filter (inChunk c) =
      (L.filter (fun x => decide (x < k * 1024))).filter (inChunk c) := by
    intro L
    rw [List.filter_filter]
    apply List.filter_congr
    intro x _
    by_cases hx : inChunk c x = true
    · have : x / 1024 = c := by simpa [inChunk] using hx
      have : x < k * 1024 := (Nat.div_lt_iff_lt_mul (by omega)).1 (by omega)
      simp [hx, this]
    · simp [hx]
  rw [chunkOf_eq, chunkOf_eq, key U, key U0, h]

/-- chunks from chunk `k` on only depend on the elements from `1024 k` on -/
theorem chunkOf_filter_ge (U : List Nat) (k c : Nat) (hc : k ≤ c) :
    chunkOf (U.filter (fun x => decide (k * 1024 ≤ x))) c = chunkOf U c := by
  rw [chunkOf_eq, chunkOf_eq, List.filter_filter]
  congr 1
  apply List.filter_congr
  intro x _
  by_cases hx : inChunk c x = true
  · have h1 : x / 1024 = c := by simpa [inChunk] using hx
    have : k * 1024 ≤ x := (Nat.le_div_iff_mul_le (by omega)).1 (by omega)
    simp [hx, this]
  · simp [hx]

/-- an upward-closed filter of an ascending list keeps its last element (if it keeps anything) -/
theorem getLast?_filter_ge : ∀ (U : List Nat) (s : Nat), U.Pairwise (· ≤ ·) →
    U.filter (fun x => decide (s ≤ x)) ≠ [] →
    (U.filter (fun x => decide (s ≤ x))).getLast? = U.getLast? := by
  intro U
  induction U with
  | nil => intro s _ h; simp at h
  | cons x rest ih =>
    intro s hs hne
    by_cases hx : s ≤ x
    · have : (x :: rest).filter (fun y => decide (s ≤ y)) = x :: rest := by
        rw [List.filter_eq_self]
        intro y hy
        rcases List.mem_cons.1 hy with h | h
        · simp [h, hx]
        · have := (List.pairwise_cons.1 hs).1 y h
          simp; omega
      rw [this]
    · have hf : (x :: rest).filter (fun y => decide (s ≤ y)) = rest.filter (fun y => decide (s ≤ y)) := by
        simp [hx]
      rw [hf] at hne ⊢
      have hrest : rest ≠ [] := by
        intro h; subst h; simp at hne
      rw [ih s (List.pairwise_cons.1 hs).2 hne]
      cases rest with
      | nil => exact absurd rfl hrest
      | cons z zs => simp [List.getLast?_cons_cons]

theorem specData_eq (U : List Nat) (m : Nat) (h : U.getLast? = some m) :
    specData U = (List.range (m / 1024 + 1)).map (chunkOf U) := by
  simp [specData, nChunks, h]

theorem specData_length (U : List Nat) : (specData U).length = nChunks U := by
  simp [specData]

/-- **`init` builds the spec chunk vector.** -/
theorem init_ofData (hf : HashFn Nat H) (U : List Nat) (size : Nat)
    (hs : U.Pairwise (· ≤ ·)) (hlt : ∀ x ∈ U, x < size) :
    init hf new U size = ofData hf (specData U) := by
  unfold init
  rw [applyFrom_spec hf new U 0 size hs hlt (by intro x _; omega)]
  cases hl : U.getLast? with
  | none =>
    have : U = [] := by simpa using hl
    subst this
    rfl
  | some m =>
    simp only []
    rw [appendAll_ofData hf _ [] new (ofData_nil hf), specData_eq U m hl, List.range_eq_range']
    simp

/-- the chunk vector after `rewind_prior` + `pad_left` on the from-scratch accumulator of `U0`
is the first `k` chunks of `U0` (padding included: chunks past the last element are empty) -/
theorem take_pad_specData (U0 : List Nat) (k : Nat) (hs : U0.Pairwise (· ≤ ·)) :
    (specData U0).take k ++ List.replicate (k - ((specData U0).take k).length) chunkNew =
      (List.range k).map (chunkOf U0) := by
  rw [specData]
  by_cases hk : k ≤ nChunks U0
  · have : (List.map (chunkOf U0) (List.range (nChunks U0))).take k = (List.range k).map (chunkOf U0) := by
      rw [← List.map_take, List.take_range, Nat.min_eq_left hk]
    rw [this]; simp
  · have hk' : nChunks U0 ≤ k := by omega
    have ht : (List.map (chunkOf U0) (List.range (nChunks U0))).take k = (List.range (nChunks U0)).map (chunkOf U0) := by
      rw [List.take_of_length_le]; simp; omega
    rw [ht]
    have hr : List.range k = List.range (nChunks U0) ++ List.range' (nChunks U0) (k - nChunks U0) := by
      have e : List.range' (nChunks U0) (k - nChunks U0) = List.range' (0 + nChunks U0) (k - nChunks U0) := by
        rw [Nat.zero_add]
      rw [List.range_eq_range', List.range_eq_range', e, List.range'_append_1]
      congr 1; omega
    rw [hr, List.map_append]
    congr 1
    simp only [List.length_map, List.length_range]
    apply List.ext_getElem
    · simp
    · intro i h1 h2
      simp only [List.getElem_replicate, List.getElem_map, List.getElem_range']
      rw [chunkOf_eq_zero_of_ge U0 _ hs (by omega)]

/-- `rewind_prior` then `pad_left` on the from-scratch accumulator of `U0`: exactly the first
`chunk(from_idx)` chunks of `U0` remain (empty ones where `U0` has nothing) -/
theorem rewind_pad_ofData (hf : HashFn Nat H) (U0 : List Nat) (st0 : Acc H) (fromIdx : Nat)
    (hst0 : ofData hf (specData U0) = some st0)
    (hs0 : U0.Pairwise (· ≤ ·)) (hb0 : nChunks U0 ≤ 2 ^ 64) :
    padLeft hf (rewindPrior st0 fromIdx) fromIdx = ofData hf ((List.range (fromIdx / 1024)).map (chunkOf U0)) := by
  have hd0 : (specData U0).length ≤ 2 ^ 64 := by rw [specData_length]; exact hb0
  have hrw := rewindPrior_ofData hf (specData U0) st0 fromIdx hd0 hst0
  have hpad := padLeft_ofData hf _ (rewindPrior st0 fromIdx) fromIdx
    (by rw [List.length_take]; omega) hrw
  rw [take_pad_specData U0 (fromIdx / 1024) hs0] at hpad
  exact hpad

/-- **`apply` on the from-scratch accumulator of `U0` builds the spec chunk vector of `U`**,
provided `U` agrees with `U0` before the chunk of the first invalidated index and `U` has an
element at or after the start of that chunk. -/
theorem apply_ofData (hf : HashFn Nat H) (U0 U : List Nat) (st0 : Acc H) (fromIdx : Nat) (inval : List Nat) (size : Nat)
    (hst0 : ofData hf (specData U0) = some st0)
    (hs0 : U0.Pairwise (· ≤ ·)) (hb0 : nChunks U0 ≤ 2 ^ 64)
    (hs : U.Pairwise (· ≤ ·)) (hlt : ∀ x ∈ U, x < size)
    (hagree : U.filter (fun x => decide (x < fromIdx / 1024 * 1024)) = U0.filter (fun x => decide (x < fromIdx / 1024 * 1024)))
    (hne : U.filter (fun x => decide (fromIdx / 1024 * 1024 ≤ x)) ≠ []) :
    apply hf st0 (fromIdx :: inval) (U.filter (fun x => decide (chunkStartIdx fromIdx ≤ x))) size =
      ofData hf (specData U) := by
  have hk : chunkStartIdx fromIdx = fromIdx / 1024 * 1024 := rfl
  rw [hk]
  generalize hV : U.filter (fun x => decide (fromIdx / 1024 * 1024 ≤ x)) = V at hne ⊢
  -- rewind + pad
  have hpad := rewind_pad_ofData hf U0 st0 fromIdx hst0 hs0 hb0
  -- the chunks before the rebuilt one are those of U
  have hbelow : (List.range (fromIdx / 1024)).map (chunkOf U0) = (List.range (fromIdx / 1024)).map (chunkOf U) := by
    apply List.map_congr_left
    intro c hc
    exact (chunkOf_congr_below U U0 (fromIdx / 1024) c (List.mem_range.1 hc) hagree).symm
  rw [hbelow] at hpad
  unfold apply
  simp only [hpad]
  -- V: ascending, < size, ≥ chunk start, same last element as U
  have hVs : V.Pairwise (· ≤ ·) := by rw [← hV]; exact hs.filter _
  have hVlt : ∀ x ∈ V, x < size := by
    intro x hx; rw [← hV] at hx; exact hlt x (List.mem_filter.1 hx).1
  have hVge : ∀ x ∈ V, fromIdx / 1024 * 1024 ≤ x := by
    intro x hx; rw [← hV] at hx; simpa using (List.mem_filter.1 hx).2
  have hVl : V.getLast? = U.getLast? := by rw [← hV]; exact getLast?_filter_ge U _ hs (by rw [hV]; exact hne)
  cases hl : U.getLast? with
  | none =>
    have : U = [] := by simpa using hl
    subst this
    simp at hV
    exact absurd hV hne
  | some m =>
    rw [hl] at hVl
    have hmV : m ∈ V := getLast?_mem_self hVl
    have hkm : fromIdx / 1024 ≤ m / 1024 := (Nat.le_div_iff_mul_le (by omega)).2 (hVge m hmV)
    have hchunks : (List.range' (fromIdx / 1024) (m / 1024 - fromIdx / 1024 + 1)).map (chunkOf V) =
        (List.range' (fromIdx / 1024) (m / 1024 - fromIdx / 1024 + 1)).map (chunkOf U) := by
      apply List.map_congr_left
      intro c hc
      rw [← hV]
      exact chunkOf_filter_ge U (fromIdx / 1024) c (List.mem_range'_1.1 hc).1
    have hfinal : (List.range (fromIdx / 1024)).map (chunkOf U) ++
        (List.range' (fromIdx / 1024) (m / 1024 - fromIdx / 1024 + 1)).map (chunkOf U) = specData U := by
      have e : List.range' (fromIdx / 1024) (m / 1024 - fromIdx / 1024 + 1) =
          List.range' (0 + fromIdx / 1024) (m / 1024 - fromIdx / 1024 + 1) := by rw [Nat.zero_add]
      rw [specData_eq U m hl, ← List.map_append, List.range_eq_range', List.range_eq_range', e, List.range'_append_1]
      congr 2; omega
    cases hst1 : ofData hf ((List.range (fromIdx / 1024)).map (chunkOf U)) with
    | none =>
      simp only []
      rw [← hfinal, ofData_append_none hf _ _ hst1]
    | some st1 =>
      simp only []
      rw [applyFrom_spec hf st1 V fromIdx size hVs hVlt hVge, hVl]
      simp only []
      rw [appendAll_ofData hf _ _ st1 hst1, hchunks, hfinal]

/-- a chunk vector of at most 2^64 chunks always yields an accumulator; its hash vector has
`mmr (number of chunks)` entries -/
theorem ofData_some (hf : HashFn Nat H) (d : List Nat) (hb : d.length ≤ 2 ^ 64) :
    ∃ hs, ofData hf d = some { data := d, hashes := hs } ∧ hs.length = mmr d.length := by
  obtain ⟨hs, h1, h2, _⟩ := pushAll_spec hf d [] 0 (by simp [mmr, popcount]) (by omega)
  exact ⟨hs, by simp [ofData, h1], by simpa using h2⟩

theorem nChunks_le (U : List Nat) (size : Nat) (hlt : ∀ x ∈ U, x < size) : nChunks U ≤ size / 1024 + 1 := by
  unfold nChunks
  cases hl : U.getLast? with
  | none => simp
  | some m =>
    have := hlt m (getLast?_mem_self hl)
    simp only []
    have : m / 1024 ≤ size / 1024 := Nat.div_le_div_right (by omega)
    omega

theorem nChunks_le_pow (U : List Nat) (size : Nat) (hlt : ∀ x ∈ U, x < size) (hsz : size ≤ 2 ^ 64) :
    nChunks U ≤ 2 ^ 64 := by
  have := nChunks_le U size hlt
  have : size / 1024 ≤ 2 ^ 64 / 1024 := Nat.div_le_div_right hsz
  have e : (2 : Nat) ^ 64 / 1024 + 1 ≤ 2 ^ 64 := by decide
  omega

/-- `apply` when no unspent index is left from the rebuilt chunk on: the accumulator keeps
exactly `chunk(from_idx)` chunks (trailing ones possibly empty) — `apply_from` appends nothing. -/
theorem apply_ofData_empty (hf : HashFn Nat H) (U0 U : List Nat) (st0 : Acc H) (fromIdx : Nat) (inval : List Nat) (size : Nat)
    (hst0 : ofData hf (specData U0) = some st0)
    (hs0 : U0.Pairwise (· ≤ ·)) (hb0 : nChunks U0 ≤ 2 ^ 64)
    (hagree : U.filter (fun x => decide (x < fromIdx / 1024 * 1024)) = U0.filter (fun x => decide (x < fromIdx / 1024 * 1024)))
    (hempty : U.filter (fun x => decide (fromIdx / 1024 * 1024 ≤ x)) = []) :
    apply hf st0 (fromIdx :: inval) (U.filter (fun x => decide (chunkStartIdx fromIdx ≤ x))) size =
      ofData hf ((List.range (fromIdx / 1024)).map (chunkOf U)) := by
  have hk : chunkStartIdx fromIdx = fromIdx / 1024 * 1024 := rfl
  rw [hk, hempty]
  have hpad := rewind_pad_ofData hf U0 st0 fromIdx hst0 hs0 hb0
  have hbelow : (List.range (fromIdx / 1024)).map (chunkOf U0) = (List.range (fromIdx / 1024)).map (chunkOf U) := by
    apply List.map_congr_left
    intro c hc
    exact (chunkOf_congr_below U U0 (fromIdx / 1024) c (List.mem_range.1 hc) hagree).symm
  rw [hbelow] at hpad
  unfold apply
  simp only [hpad]
  cases ofData hf ((List.range (fromIdx / 1024)).map (chunkOf U)) with
  | none => rfl
  | some st1 =>
    simp only []
    rw [applyFrom_spec hf st1 [] fromIdx size (by simp) (by simp) (by simp)]
    rfl

/-- if nothing of `U` lies at or after `1024 k`, `U` has at most `k` chunks -/
theorem nChunks_le_of_filter_empty (U : List Nat) (k : Nat)
    (hempty : U.filter (fun x => decide (k * 1024 ≤ x)) = []) : nChunks U ≤ k := by
  unfold nChunks
  cases hl : U.getLast? with
  | none => simp
  | some m =>
    simp only []
    have hm := getLast?_mem_self hl
    have : ¬ k * 1024 ≤ m := by
      intro h
      have : m ∈ U.filter (fun x => decide (k * 1024 ≤ x)) := List.mem_filter.2 ⟨hm, by simpa using h⟩
      rw [hempty] at this; simp at this
    have : m / 1024 < k := (Nat.div_lt_iff_lt_mul (by omega)).2 (by omega)
    omega

theorem ofData_inj (hf : HashFn Nat H) (d1 d2 : List Nat) (st : Acc H)
    (h1 : ofData hf d1 = some st) (h2 : ofData hf d2 = some st) : d1 = d2 := by
  unfold ofData at h1 h2
  cases hp1 : pushAll hf [] d1 with
  | none => simp [hp1] at h1
  | some hs1 =>
    cases hp2 : pushAll hf [] d2 with
    | none => simp [hp2] at h2
    | some hs2 =>
      simp only [hp1, hp2] at h1 h2
      injection h1 with h1
      injection h2 with h2
      rw [← h2] at h1
      injection h1

end GV.Bitmap
