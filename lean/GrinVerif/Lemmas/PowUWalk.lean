import GrinVerif.Lemmas.PowUBuild
/-! Walk-level theory of the undirected engine: the step is "go to the unique partner slot, then
to the other end of its edge"; partner is an involution, so an accepted walk never retraces an
edge and its `L` entry slots belong to `L` different edges: one simple cycle through all. -/
set_option linter.unusedSectionVars false
namespace GV.Pow

theorem xor_one_xor_one (x : Nat) : (x ^^^ 1) ^^^ 1 = x := by
  rw [Nat.xor_assoc, Nat.xor_self, Nat.xor_zero]

theorem ne_xor_one (x : Nat) : x ≠ x ^^^ 1 := by
  rw [xor_one_eq]; split <;> omega

theorem xor_one_lt (x L : Nat) (h : x < 2 * L) : x ^^^ 1 < 2 * L := by
  rw [xor_one_eq]; split <;> omega

theorem eq_or_xor_of_half (x y : Nat) (h : x / 2 = y / 2) : x = y ∨ x = y ^^^ 1 := by
  rw [xor_one_eq]; split <;> omega

/-- `mt` is an equivalence relation on node values (true for `==` and for `>>1 ==`) -/
structure MtEquiv (C : UCfg) : Prop where
  symm : ∀ a b, C.mt a b = C.mt b a
  trans : ∀ a b c, C.mt a b = true → C.mt b c = true → C.mt a c = true

/-- `j` is the slot the inner loop finds from `i` -/
def Partner (C : UCfg) (key uv : Nat → Nat) (N i j : Nat) : Prop :=
  Other key N i j ∧ C.mt (uv j) (uv i) = true ∧
  (∀ s, Other key N i s → C.mt (uv s) (uv i) = true → s = j) ∧
  (C.deadSame = true → uv j ≠ uv i)

theorem uStep_ok (C : UCfg) (key : Nat → Nat) (N size : Nat) (uvs prev : Nat → Nat) (i i' : Nat)
    (hi : i < N) (hprev : ∀ t, t < N → prev t = prevCirc key N t)
    (h : uStep C size uvs prev i = .ok i') :
    ∃ j, Partner C key uvs N i j ∧ i' = j ^^^ 1 := by
  unfold uStep at h
  cases hf : uFind C uvs prev i (2*size+1) i i with
  | error e => simp [hf] at h
  | ok j =>
    simp only [hf] at h
    by_cases hc : (j = i || (C.deadSame && uvs j == uvs i)) = true
    · simp [hc] at h
    · simp only [hc] at h
      injection h with h
      have hji : j ≠ i := by intro e; apply hc; simp [e]
      have hds : C.deadSame = true → uvs j ≠ uvs i := by
        intro hd e; apply hc; simp [hd, e]
      have r := uFind_ok C key N uvs prev i hi hprev _ i i j hi rfl (finv_init C key N uvs i) hf
      rcases r with ⟨r1, _⟩ | ⟨r1, r2, r3⟩
      · exact absurd r1 hji
      · exact ⟨j, ⟨r1, r2, r3, hds⟩, h.symm⟩

theorem partner_symm {C : UCfg} (E : MtEquiv C) {key uv : Nat → Nat} {N i j : Nat}
    (hi : i < N) (h : Partner C key uv N i j) : Partner C key uv N j i := by
  obtain ⟨⟨h1, h2, h3⟩, h4, h5, h6⟩ := h
  refine ⟨⟨hi, fun e => h2 e.symm, h3.symm⟩, by rw [E.symm]; exact h4, ?_, fun hd e => h6 hd e.symm⟩
  intro s ⟨s1, s2, s3⟩ hm
  by_cases e : s = i
  · exact e
  · have := h5 s ⟨s1, e, by rw [s3, h3]⟩ (E.trans _ _ _ hm h4)
    exact absurd this s2

theorem partner_fun {C : UCfg} {key uv : Nat → Nat} {N i j j' : Nat}
    (h : Partner C key uv N i j) (h' : Partner C key uv N i j') : j = j' :=
  (h'.2.2.1 j h.1 h.2.1)

section
variable {C : UCfg} (E : MtEquiv C) {key uv : Nat → Nat} {L : Nat} {step : Nat → Except Err Nat}
  (hstep : ∀ i i', i < 2 * L → step i = .ok i' → ∃ j, Partner C key uv (2 * L) i j ∧ i' = j ^^^ 1)
  {tr : List Nat} (htr : Trace step 0 tr) (hlen : tr.length = L)
include E hstep htr hlen

theorem ucyc_chain (t : Nat) (ht : t < L) :
    step (tr.getD t 0) = .ok (tr.getD ((t + 1) % L) 0) := by
  by_cases hl : t + 1 < L
  · rw [Nat.mod_eq_of_lt hl]; exact (htr.chain t (by omega)).1
  · have e : t + 1 = L := by omega
    have e2 : tr.length - 1 = t := by omega
    have := htr.last
    rw [e2] at this
    rw [e, Nat.mod_self, htr.head]; exact this

theorem ucyc_lt (t : Nat) (ht : t < L) : tr.getD t 0 < 2 * L := by
  induction t with
  | zero => rw [htr.head]; omega
  | succ t ih =>
    have hc := (htr.chain t (by omega)).1
    obtain ⟨j, hj, e⟩ := hstep _ _ (ih (by omega)) hc
    rw [e]; exact xor_one_lt _ _ hj.1.1

theorem ucyc_partner (t : Nat) (ht : t < L) :
    ∃ j, Partner C key uv (2 * L) (tr.getD t 0) j ∧ tr.getD ((t + 1) % L) 0 = j ^^^ 1 :=
  hstep _ _ (ucyc_lt E hstep htr hlen t ht) (ucyc_chain E hstep htr hlen t ht)

/-- the walk never enters an edge it already left through (no retracing) -/
theorem ucyc_noretrace : ∀ d a b, b = a + d → b < L → tr.getD a 0 ≠ tr.getD b 0 ^^^ 1 := by
  intro d
  induction d using Nat.strongRecOn with
  | _ d ih =>
    intro a b hb hbL heq
    match d, ih, hb with
    | 0, _, hb =>
      have : b = a := by omega
      subst this
      exact ne_xor_one _ heq
    | 1, _, hb =>
      obtain ⟨j, hj, e⟩ := ucyc_partner E hstep htr hlen a (by omega)
      have hm : (a + 1) % L = a + 1 := Nat.mod_eq_of_lt (by omega)
      rw [hm] at e
      have : b = a + 1 := by omega
      subst this
      rw [e, xor_one_xor_one] at heq
      exact hj.1.2.1 heq.symm
    | d+2, ih, hb =>
      obtain ⟨ja, hja, ea⟩ := ucyc_partner E hstep htr hlen a (by omega)
      obtain ⟨jb, hjb, eb⟩ := ucyc_partner E hstep htr hlen (b-1) (by omega)
      have hma : (a + 1) % L = a + 1 := Nat.mod_eq_of_lt (by omega)
      have hmb : (b - 1 + 1) % L = b := by
        have : b - 1 + 1 = b := by omega
        rw [this]; exact Nat.mod_eq_of_lt hbL
      rw [hma] at ea
      rw [hmb] at eb
      rw [eb, xor_one_xor_one] at heq
      have hs := partner_symm E (ucyc_lt E hstep htr hlen (b-1) (by omega)) hjb
      rw [← heq] at hs
      have := partner_fun hja hs
      rw [this] at ea
      exact ih d (by omega) (a+1) (b-1) (by omega) (by omega) ea

theorem ucyc_noretrace' (a b : Nat) (ha : a < L) (hb : b < L) :
    tr.getD a 0 ≠ tr.getD b 0 ^^^ 1 := by
  rcases Nat.le_total a b with h | h
  · exact ucyc_noretrace E hstep htr hlen (b - a) a b (by omega) hb
  · intro e
    have := ucyc_noretrace E hstep htr hlen (a - b) b a (by omega) ha
    apply this
    rw [e, xor_one_xor_one]

/-- **an accepted walk of `L` steps is one simple cycle through all `L` edges** -/
theorem ucyc_cycle :
    IsCycle L (fun a b => Partner C key uv (2 * L) a b)
      (fun a b => key a = key b ∧ C.mt (uv a) (uv b) = true) tr := by
  have hL : 0 < L := hlen ▸ htr.pos
  refine ⟨hlen, ?_, ?_, ?_⟩
  · apply perm_range_of_nodup
    · rw [List.Nodup, List.pairwise_map, List.pairwise_iff_getElem]
      intro a b ha hb hab e
      have ha' : a < L := hlen ▸ ha
      have hb' : b < L := hlen ▸ hb
      have e' : tr.getD a 0 / 2 = tr.getD b 0 / 2 := by
        simpa [List.getD_eq_getElem?_getD, ha, hb] using e
      rcases eq_or_xor_of_half _ _ e' with h | h
      · exact absurd h (htr.ne_of_lt hab hb)
      · exact ucyc_noretrace' E hstep htr hlen a b ha' hb' h
    · intro x hx
      obtain ⟨y, hy, rfl⟩ := List.mem_map.mp hx
      obtain ⟨a, ha, rfl⟩ := List.getElem_of_mem hy
      have := ucyc_lt E hstep htr hlen a (hlen ▸ ha)
      simp [List.getD_eq_getElem?_getD, ha] at this
      omega
    · simp [hlen]
  · intro t ht
    obtain ⟨j, hj, e⟩ := ucyc_partner E hstep htr hlen t ht
    rw [e, xor_one_xor_one]; exact hj
  · intro a b ha hb hab ⟨hk, hm⟩
    obtain ⟨j, hj, e⟩ := ucyc_partner E hstep htr hlen a ha
    have hne : tr.getD b 0 ≠ tr.getD a 0 := fun h => hab (htr.inj (by omega) (by omega) h.symm)
    have hbj : tr.getD b 0 = j :=
      hj.2.2.1 _ ⟨ucyc_lt E hstep htr hlen b hb, hne, hk.symm⟩ (by rw [E.symm]; exact hm)
    rw [← hbj] at e
    exact ucyc_noretrace' E hstep htr hlen ((a+1) % L) b (Nat.mod_lt _ hL) hb e

end
end GV.Pow
