import GrinVerif.Model.ChainImpl
/-! Lookup algebra of the txhashset model (`Model/ChainImpl.lean`) and its representation
invariant. -/
namespace GV.Chain
namespace TxHS

/-! ### association lists -/

theorem find_filter_ne {β : Type} (l : List (Nat × β)) (c c' : Nat) :
    (l.filter (fun e => !(e.1 == c))).find? (·.1 == c') =
      if c' = c then none else l.find? (·.1 == c') := by
  induction l with
  | nil => simp
  | cons e es ih =>
    by_cases hc : c' = c
    · subst hc
      simp only [if_true] at ih ⊢
      by_cases he : e.1 = c'
      · simp [he, ih]
      · have : (e.1 == c') = false := by simpa using he
        simp [this, ih]
    · simp only [hc, if_false] at ih ⊢
      by_cases he : e.1 = c
      · have h2 : (c == c') = false := by
          simp only [beq_eq_false_iff_ne, ne_eq]; intro h; exact hc h.symm
        simp [he, h2, ih]
      · have : (e.1 == c) = false := by simpa using he
        simp only [List.filter_cons, this, Bool.not_false, if_true, List.find?_cons, ih]

/-! ### `output_pos` -/

@[simp] theorem saveOutputPos_leaves (S : TxHS) (c : Nat) (cp : CommitPos) :
    (S.saveOutputPos c cp).leaves = S.leaves := rfl
@[simp] theorem saveOutputPos_leafSet (S : TxHS) (c : Nat) (cp : CommitPos) :
    (S.saveOutputPos c cp).leafSet = S.leafSet := rfl
@[simp] theorem saveOutputPos_spentIdx (S : TxHS) (c : Nat) (cp : CommitPos) :
    (S.saveOutputPos c cp).spentIdx = S.spentIdx := rfl
@[simp] theorem deleteOutputPos_leaves (S : TxHS) (c : Nat) : (S.deleteOutputPos c).leaves = S.leaves := rfl
@[simp] theorem deleteOutputPos_leafSet (S : TxHS) (c : Nat) : (S.deleteOutputPos c).leafSet = S.leafSet := rfl
@[simp] theorem deleteOutputPos_spentIdx (S : TxHS) (c : Nat) : (S.deleteOutputPos c).spentIdx = S.spentIdx := rfl

theorem getOutputPos_save (S : TxHS) (c c' : Nat) (cp : CommitPos) :
    (S.saveOutputPos c cp).getOutputPos c' = if c' = c then some cp else S.getOutputPos c' := by
  unfold getOutputPos saveOutputPos
  by_cases hc : c' = c
  · subst hc; simp
  · have : (c == c') = false := by simp only [beq_eq_false_iff_ne, ne_eq]; exact fun h => hc h.symm
    simp only [List.find?_cons, this, find_filter_ne, hc, if_false]

theorem getOutputPos_delete (S : TxHS) (c c' : Nat) :
    (S.deleteOutputPos c).getOutputPos c' = if c' = c then none else S.getOutputPos c' := by
  unfold getOutputPos deleteOutputPos
  simp only [find_filter_ne]
  split <;> rfl

theorem getData_save (S : TxHS) (c : Nat) (cp : CommitPos) (i : Nat) :
    (S.saveOutputPos c cp).getData i = S.getData i := rfl
theorem getData_delete (S : TxHS) (c : Nat) (i : Nat) : (S.deleteOutputPos c).getData i = S.getData i := rfl

theorem getData_eq_some (S : TxHS) (i c : Nat) :
    S.getData i = some c ↔ i ∈ S.leafSet ∧ S.leaves[i]? = some c := by
  unfold getData
  by_cases h : i ∈ S.leafSet
  · simp [h]
  · simp [h]

/-! ### spent index -/

theorem getSpentIndex_save (S : TxHS) (bid bid' : Nat) (sp : List CommitPos) :
    (S.saveSpentIndex bid sp).getSpentIndex bid' =
      if bid' = bid then some sp else S.getSpentIndex bid' := by
  unfold getSpentIndex saveSpentIndex
  by_cases hc : bid' = bid
  · subst hc; simp
  · have : (bid == bid') = false := by simp only [beq_eq_false_iff_ne, ne_eq]; exact fun h => hc h.symm
    simp only [List.find?_cons, this, find_filter_ne, hc, if_false]

@[simp] theorem saveSpentIndex_leaves (S : TxHS) (b : Nat) (sp : List CommitPos) :
    (S.saveSpentIndex b sp).leaves = S.leaves := rfl
@[simp] theorem saveSpentIndex_leafSet (S : TxHS) (b : Nat) (sp : List CommitPos) :
    (S.saveSpentIndex b sp).leafSet = S.leafSet := rfl
@[simp] theorem saveSpentIndex_outputPos (S : TxHS) (b : Nat) (sp : List CommitPos) :
    (S.saveSpentIndex b sp).outputPos = S.outputPos := rfl
theorem getOutputPos_saveSpent (S : TxHS) (b : Nat) (sp : List CommitPos) (c : Nat) :
    (S.saveSpentIndex b sp).getOutputPos c = S.getOutputPos c := rfl
theorem getData_saveSpent (S : TxHS) (b : Nat) (sp : List CommitPos) (i : Nat) :
    (S.saveSpentIndex b sp).getData i = S.getData i := rfl

/-! ### representation invariant -/

/-- the `output_pos` index and the leaf set describe the same thing: every unspent leaf is
indexed under its commitment at its own position, and every index entry points at an unspent leaf
holding that commitment (so at most one unspent leaf per commitment, and no stale entries) -/
structure RInv (S : TxHS) : Prop where
  bound : ∀ i ∈ S.leafSet, i < S.leaves.length
  indexed : ∀ i ∈ S.leafSet, ∀ c, S.leaves[i]? = some c → ∃ h, S.getOutputPos c = some ⟨i, h⟩
  points : ∀ c cp, S.getOutputPos c = some cp → cp.pos ∈ S.leafSet ∧ S.leaves[cp.pos]? = some c

theorem RInv.empty : RInv {} :=
  ⟨fun i h => (by cases h), fun i h => (by cases h), fun c cp h => (by cases h)⟩

/-- under the invariant `get_unspent` is just the index lookup -/
theorem RInv.getUnspent_eq {S : TxHS} (hi : RInv S) (c : Nat) : S.getUnspent c = S.getOutputPos c := by
  unfold getUnspent
  cases h : S.getOutputPos c with
  | none => rfl
  | some cp =>
    obtain ⟨h1, h2⟩ := hi.points c cp h
    have : S.getData cp.pos = some c := (getData_eq_some S cp.pos c).mpr ⟨h1, h2⟩
    simp [this]

/-- two unspent leaves never hold the same commitment -/
theorem RInv.unspent_distinct {S : TxHS} (hi : RInv S) (i j c : Nat) (hi' : i ∈ S.leafSet)
    (hj : j ∈ S.leafSet) (hci : S.leaves[i]? = some c) (hcj : S.leaves[j]? = some c) : i = j := by
  obtain ⟨h1, e1⟩ := hi.indexed i hi' c hci
  obtain ⟨h2, e2⟩ := hi.indexed j hj c hcj
  rw [e1] at e2
  injection e2 with e2
  injection e2

end TxHS
end GV.Chain
