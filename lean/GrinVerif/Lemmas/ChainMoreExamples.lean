import GrinVerif.Lemmas.ChainMoreReject
/-! A concrete block tree with a reorganisation for the non-vacuity examples of the history-level
theorems of C02 / C06 / C01:

    0 ── 1            a1: spends the genesis output 100, creates 111 (coinbase) and 112
    │    ├── 2        a2: tries to spend 100 again (double spend across blocks on the same path)
    │    └── 3        a3: repeats 100 among its own inputs (double spend within the block)
    └── 11 ── 12      b1 (heavier than a1), b2: spends 100 again after the reorganisation
         ├── 13       b3: spends 112, which exists only on the a-fork
         ├── 14       b4: re-creates the unspent coinbase commitment 121
         └── 15       b5: carries a `sums:` tag (blinding-level fault found by the real code)
-/
namespace GV.Chain.Ex2

def P : Params := { maturity := 3, reward := 60, hfInterval := 3, maxOrphans := 100 }

def G : Blk := { id := 0, parent := none, h := 0, work := 1, ver := 1, ts := 0, ins := [],
                 outs := [(100, false)], kers := [.cb], tags := [] }
def A1 : Blk := { id := 1, parent := some 0, h := 1, work := 2, ver := 1, ts := 1, ins := [100],
                  outs := [(111, true), (112, false)], kers := [.cb, .plain 0], tags := [] }
def A2 : Blk := { id := 2, parent := some 1, h := 2, work := 9, ver := 1, ts := 2, ins := [100],
                  outs := [(113, true), (114, false)], kers := [.cb, .plain 0], tags := [] }
def A3 : Blk := { id := 3, parent := some 1, h := 2, work := 9, ver := 1, ts := 2, ins := [112, 112],
                  outs := [(115, true), (116, false)], kers := [.cb, .plain 0], tags := [] }
def B1 : Blk := { id := 11, parent := some 0, h := 1, work := 3, ver := 1, ts := 1, ins := [],
                  outs := [(121, true)], kers := [.cb], tags := [] }
def B2 : Blk := { id := 12, parent := some 11, h := 2, work := 4, ver := 1, ts := 2, ins := [100],
                  outs := [(131, true), (132, false)], kers := [.cb, .plain 0], tags := [] }
def B3 : Blk := { id := 13, parent := some 11, h := 2, work := 9, ver := 1, ts := 2, ins := [112],
                  outs := [(133, true), (134, false)], kers := [.cb, .plain 0], tags := [] }
def B4 : Blk := { id := 14, parent := some 11, h := 2, work := 9, ver := 1, ts := 2, ins := [],
                  outs := [(121, true)], kers := [.cb], tags := [] }
def B5 : Blk := { id := 15, parent := some 11, h := 2, work := 9, ver := 1, ts := 2, ins := [],
                  outs := [(135, true)], kers := [.cb], tags := ["sums:Block:KernelSumMismatch"] }

def outs : List OutDef :=
  [⟨100, false, 60⟩, ⟨111, true, 60⟩, ⟨112, false, 60⟩, ⟨113, true, 60⟩, ⟨114, false, 60⟩,
   ⟨115, true, 60⟩, ⟨116, false, 60⟩, ⟨121, true, 60⟩, ⟨131, true, 60⟩, ⟨132, false, 60⟩,
   ⟨133, true, 60⟩, ⟨134, false, 60⟩, ⟨135, true, 60⟩]

def N : Node := { outs := outs, blks := [G, A1, A2, A3, B1, B2, B3, B4, B5] }

/-- a1 becomes the head, then b1 takes over (reorganisation) -/
def esReorg : List Event := [.block A1, .block B1]

theorem fresh_N : Fresh N := ⟨rfl, rfl, rfl, rfl, fun g hg => by
  have h : N.blk 0 = some G := rfl
  rw [h] at hg
  rw [← Option.some.inj hg]; rfl⟩

theorem reg_reorg : Registered N esReorg := by
  intro e he
  simp only [esReorg, List.mem_cons, List.not_mem_nil, or_false] at he
  rcases he with rfl | rfl <;> rfl

theorem reg_A1 : Registered N [.block A1] := by
  intro e he
  simp only [List.mem_cons, List.not_mem_nil, or_false] at he
  rcases he with rfl; rfl

/-- after a1 -/
def NA : Node := run P N [.block A1]
/-- after a1 and the reorganisation to b1 -/
def NB : Node := run P N esReorg

theorem NA_head : NA.head = 1 ∧ NA.reportedUtxo P = [111, 112] := by decide
theorem NB_head : NB.head = 11 ∧ NB.stored = [0, 1, 11] ∧ NB.reportedUtxo P = [100, 121] := by decide

end GV.Chain.Ex2
