import GrinVerif.Model.Codec
import GrinVerif.Lemmas.SerPrim
/-! Fragmentation is irrelevant: `read_exact` over fragments is `read_exact` over the concatenated
stream, hence `Codec::read` and the whole reader loop produce the same results whatever the
fragmentation (`Props/C19.lean: frag_irrelevant`). -/
namespace GV.Codec
open GV GV.Ser GV.Msg

/-- `splitExact` is `take`/`drop` when enough bytes are there -/
theorem splitExact_eq (n : Nat) (l : Bytes) :
    splitExact n l = if n ≤ l.length then some (l.take n, l.drop n) else none := by
  induction n generalizing l with
  | zero => simp [splitExact]
  | succ n ih =>
    cases l with
    | nil => simp [splitExact]
    | cons b r =>
      simp only [splitExact, ih r, List.length_cons, Nat.add_le_add_iff_right]
      by_cases h : n ≤ r.length
      · simp [h]
      · simp [h]

/-- `read_exact` over fragments = `read_exact` over the concatenation -/
theorem readExact_spec (n : Nat) (s : List Bytes) :
    (n ≤ s.flatten.length → ∃ s', readExact n s = some (s.flatten.take n, s') ∧ s'.flatten = s.flatten.drop n) ∧
    (s.flatten.length < n → readExact n s = none) := by
  induction s generalizing n with
  | nil =>
    constructor
    · intro h
      have : n = 0 := by simpa using h
      subst this; exact ⟨[], by simp [readExact], by simp⟩
    · intro h
      have : n ≠ 0 := by simp at h; omega
      simp [readExact, this]
  | cons f s ih =>
    simp only [List.flatten_cons, List.length_append]
    by_cases hn : n ≤ f.length
    · constructor
      · intro _
        refine ⟨f.drop n :: s, by simp [readExact, hn, List.take_append_of_le_length hn], ?_⟩
        simp [List.drop_append_of_le_length hn]
      · intro h; omega
    · have hn' : f.length < n := by omega
      obtain ⟨ih1, ih2⟩ := ih (n - f.length)
      constructor
      · intro h
        obtain ⟨s', h1, h2⟩ := ih1 (by omega)
        refine ⟨s', ?_, ?_⟩
        · simp only [readExact, hn, if_false, h1]
          rw [List.take_append]
          simp [List.take_of_length_le (Nat.le_of_lt hn')]
        · rw [h2, List.drop_append]
          simp [List.drop_of_length_le (Nat.le_of_lt hn')]
      · intro h
        simp only [readExact, hn, if_false, ih2 (by omega)]

/-- two sockets that behave alike under `read_exact` -/
structure Sim {σ1 σ2 : Type} (ops1 : SockOps σ1) (ops2 : SockOps σ2) (R : σ1 → σ2 → Prop) : Prop where
  rx : ∀ n s b, R s b →
    (ops1.rx n s = none ∧ ops2.rx n b = none) ∨
    (∃ x s' b', ops1.rx n s = some (x, s') ∧ ops2.rx n b = some (x, b') ∧ R s' b')
  drain : ∀ s b, R s b → R (ops1.drain s) (ops2.drain b)

/-- fragments vs. the flat stream they concatenate to -/
theorem sim_frag_flat : Sim fragOps flatOps (fun s b => s.flatten = b) where
  rx := by
    intro n s b h
    subst h
    obtain ⟨h1, h2⟩ := readExact_spec n s
    by_cases hn : n ≤ s.flatten.length
    · obtain ⟨s', e1, e2⟩ := h1 hn
      right
      refine ⟨s.flatten.take n, s', s.flatten.drop n, e1, ?_, e2⟩
      show splitExact n s.flatten = _
      rw [splitExact_eq, if_pos hn]
    · left
      refine ⟨h2 (by omega), ?_⟩
      show splitExact n s.flatten = _
      rw [splitExact_eq, if_neg hn]
  drain := by intro s b _; simp [fragOps, flatOps]

variable {B H σ1 σ2 : Type}

/-- results of two `read`s agree up to the socket relation -/
def OutRel (R : σ1 → σ2 → Prop) (o1 : ReadOut B H σ1) (o2 : ReadOut B H σ2) : Prop :=
  o1.res = o2.res ∧ o1.bytesRead = o2.bytesRead ∧ o1.alloc = o2.alloc ∧ o1.codec = o2.codec ∧ R o1.sock o2.sock

theorem fill_sim {ops1 : SockOps σ1} {ops2 : SockOps σ2} {R : σ1 → σ2 → Prop} (hs : Sim ops1 ops2 R)
    (c : Codec H) (s : σ1) (b : σ2) (nl : Nat) (h : R s b) :
    (fill ops1 c s nl = none ∧ fill ops2 c b nl = none) ∨
    (∃ c1 s1 b1, fill ops1 c s nl = some (c1, s1) ∧ fill ops2 c b nl = some (c1, b1) ∧ R s1 b1) := by
  unfold fill
  by_cases ht : nl - c.buffer.length > 0
  · simp only [ht, if_true]
    rcases hs.rx (nl - c.buffer.length) s b h with ⟨e1, e2⟩ | ⟨x, s', b', e1, e2, hr⟩
    · left; simp [e1, e2]
    · right; exact ⟨{ c with buffer := c.buffer ++ x }, s', b', by simp [e1], by simp [e2], hr⟩
  · simp only [ht, if_false]
    right; exact ⟨c, s, b, rfl, rfl, h⟩

theorem readLoop_sim (env : Env B H) {ops1 : SockOps σ1} {ops2 : SockOps σ2} {R : σ1 → σ2 → Prop}
    (hs : Sim ops1 ops2 R) :
    ∀ (fuel : Nat) (c : Codec H) (s : σ1) (b : σ2) (br al : Nat), R s b →
      OutRel R (readLoop env ops1 fuel c s br al) (readLoop env ops2 fuel c b br al) := by
  intro fuel
  induction fuel with
  | zero => intro c s b br al h; exact ⟨rfl, rfl, rfl, rfl, h⟩
  | succ fuel ih =>
    intro c s b br al h
    simp only [readLoop]
    rcases fill_sim hs c s b (nextLen env c.state) h with ⟨e1, e2⟩ | ⟨c1, s1, b1, e1, e2, hr⟩
    · rw [e1, e2]
      exact ⟨rfl, rfl, rfl, rfl, hs.drain s b h⟩
    · rw [e1, e2]
      simp only []
      cases hst : stepState env c1 (nextLen env c.state) with
      | inl r => obtain ⟨r, c2, a⟩ := r; exact ⟨rfl, rfl, rfl, rfl, hr⟩
      | inr r => obtain ⟨c2, a⟩ := r; exact ih c2 s1 b1 _ _ hr

theorem read_sim (env : Env B H) {ops1 : SockOps σ1} {ops2 : SockOps σ2} {R : σ1 → σ2 → Prop}
    (hs : Sim ops1 ops2 R) (c : Codec H) (s : σ1) (b : σ2) (h : R s b) :
    OutRel R (read env ops1 c s) (read env ops2 c b) :=
  readLoop_sim env hs READ_FUEL c s b 0 0 h

/-- the reader loop: same messages, same way of ending, same final codec -/
theorem run_sim (env : Env B H) {ops1 : SockOps σ1} {ops2 : SockOps σ2} {R : σ1 → σ2 → Prop}
    (hs : Sim ops1 ops2 R) (attach : Message B H → Option Nat) :
    ∀ (fuel : Nat) (c : Codec H) (s : σ1) (b : σ2), R s b →
      (run env ops1 attach fuel c s).1 = (run env ops2 attach fuel c b).1 ∧
      (run env ops1 attach fuel c s).2.1 = (run env ops2 attach fuel c b).2.1 ∧
      (run env ops1 attach fuel c s).2.2.1 = (run env ops2 attach fuel c b).2.2.1 ∧
      R (run env ops1 attach fuel c s).2.2.2 (run env ops2 attach fuel c b).2.2.2 := by
  intro fuel
  induction fuel with
  | zero => intro c s b h; exact ⟨rfl, rfl, rfl, h⟩
  | succ fuel ih =>
    intro c s b h
    obtain ⟨e1, _, _, e4, e5⟩ := read_sim env hs c s b h
    simp only [run]
    rw [e1, e4]
    cases hres : (read env ops2 c b).res with
    | msg m =>
      simp only
      cases hc : nextCodec attach (read env ops2 c b).codec m with
      | none => exact ⟨rfl, rfl, rfl, e5⟩
      | some c' =>
        obtain ⟨i1, i2, i3, i4⟩ := ih c' _ _ e5
        exact ⟨by simp only [i1], i2, i3, i4⟩
    | err e => exact ⟨rfl, rfl, rfl, e5⟩
    | panic st => exact ⟨rfl, rfl, rfl, e5⟩
    | hang => exact ⟨rfl, rfl, rfl, e5⟩

end GV.Codec
