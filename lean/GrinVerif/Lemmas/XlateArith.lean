import GrinVerif.Model.Basic
import GrinVerif.Gen.FnsPrelude
/-! Helper lemmas for the equivalence theorems `Props/Xlate*.lean`: the wrapping helpers coincide with
the mathematical operation in range, bit tests, `ALL_ONES >> leading_zeros`. -/

namespace GV.Xlate
open GV GV.Gen.Fns

theorem addW_eq {a b : Nat} (h : a + b < 2^64) : addW a b = a + b := by unfold addW; omega
theorem subW_eq {a b : Nat} (ha : a < 2^64) (h : b ≤ a) : subW a b = a - b := by unfold subW; omega
theorem mulW_eq {a b : Nat} (h : a * b < 2^64) : mulW a b = a * b := by
  unfold mulW; exact Nat.mod_eq_of_lt h
theorem shlW_one {a : Nat} (h : a < 2^63) : shlW a 1 = 2 * a := by
  simp only [shlW, show (1 % 64) = 1 from rfl, Nat.pow_one]; omega
theorem shrW_one (a : Nat) : shrW a 1 = a / 2 := by
  simp only [shrW, show (1 % 64) = 1 from rfl, Nat.pow_one]
theorem shlW_eq {a s : Nat} (hs : s < 64) (h : a * 2^s < 2^64) : shlW a s = a * 2^s := by
  unfold shlW; rw [Nat.mod_eq_of_lt hs]; exact Nat.mod_eq_of_lt h
theorem shlW_one_left {s : Nat} (hs : s < 64) : shlW 1 s = 2^s := by
  have : 2^s < 2^64 := Nat.pow_lt_pow_right (by omega) hs
  rw [shlW_eq hs (by omega)]; omega

theorem two_mul_or_one (a : Nat) : (2 * a) ||| 1 = 2 * a + 1 := by
  have := Nat.two_pow_add_eq_or_of_lt (i := 1) (b := 1) (by decide) a
  simpa using this.symm

/-- `(x & (1 << h)) != 0` is the bit test -/
theorem and_two_pow_ne_zero (x h : Nat) : (x &&& 2^h != 0) = (x / 2^h % 2 == 1) := by
  have hb : (x / 2^h % 2 == 1) = x.testBit h := by
    rw [Nat.testBit_eq_decide_div_mod_eq]
    by_cases hc : x / 2^h % 2 = 1 <;> simp [hc]
  rw [hb]
  cases ht : x.testBit h
  · have : x &&& 2^h = 0 := by
      apply Nat.eq_of_testBit_eq
      intro j
      rw [Nat.testBit_and, Nat.testBit_two_pow, Nat.zero_testBit]
      by_cases hj : h = j
      · subst hj; simp [ht]
      · simp [hj]
    simp [this]
  · have : (x &&& 2^h).testBit h = true := by
      rw [Nat.testBit_and, Nat.testBit_two_pow, ht]; simp
    have hne : x &&& 2^h ≠ 0 := by
      intro h0; rw [h0, Nat.zero_testBit] at this; cases this
    simp [hne]

theorem and_two_pow_eq_zero (x h : Nat) : (x &&& 2^h == 0) = !(x / 2^h % 2 == 1) := by
  rw [← and_two_pow_ne_zero]; cases hx : (x &&& 2^h == 0) <;> simp_all [bne]

theorem bitLen_le : ∀ (k n : Nat), n < 2^k → bitLen n ≤ k := by
  intro k
  induction k with
  | zero => intro n h; have : n = 0 := by simpa using h
            subst this; simp [bitLen]
  | succ k ih =>
    intro n h
    cases n with
    | zero => simp [bitLen]
    | succ m =>
      rw [bitLen]
      have : (m+1)/2 < 2^k := by rw [Nat.pow_succ] at h; omega
      have := ih _ this
      omega

theorem bitLen_pos {n : Nat} (h : 0 < n) : 0 < bitLen n := by
  cases n with
  | zero => omega
  | succ m => rw [bitLen]; omega

theorem lt_two_pow_bitLen' (n : Nat) : n < 2^(bitLen n) := by
  induction n using Nat.strongRecOn with
  | _ n ih =>
    cases n with
    | zero => simp [bitLen]
    | succ m =>
      rw [bitLen]
      have := ih ((m+1)/2) (by omega)
      rw [Nat.add_comm 1, Nat.pow_succ]; omega

/-- `ALL_ONES >> size.leading_zeros()` is `2^(bitLen size) - 1` -/
theorem all_ones_shr {size : Nat} (h0 : 0 < size) (h : size < 2^64) :
    shrW 18446744073709551615 (leadingZeros64 size) = 2^(bitLen size) - 1 := by
  have hb := bitLen_le 64 size h
  have hp := bitLen_pos h0
  unfold shrW leadingZeros64
  rw [Nat.mod_eq_of_lt h]
  have hs : (64 - bitLen size) % 64 = 64 - bitLen size := Nat.mod_eq_of_lt (by omega)
  rw [hs]
  have hsplit : 2^64 = 2^(bitLen size) * 2^(64 - bitLen size) := by
    rw [← Nat.pow_add]; congr 1; omega
  have hc : 0 < 2^(64 - bitLen size) := Nat.pow_pos (by omega)
  have hx : 0 < 2^(bitLen size) := Nat.pow_pos (by omega)
  apply Nat.div_eq_of_lt_le
  · have : (2^(bitLen size) - 1) * 2^(64 - bitLen size) + 2^(64 - bitLen size) = 2^64 := by
      rw [hsplit]
      have : 2^(bitLen size) = (2^(bitLen size) - 1) + 1 := by omega
      conv => rhs; rw [this, Nat.add_mul, Nat.one_mul]
    omega
  · have : (2^(bitLen size) - 1 + 1) = 2^(bitLen size) := by omega
    rw [this, ← hsplit]; omega

end GV.Xlate
