import GrinVerif.Model.Pow
import GrinVerif.Model.PowSpec
import Batteries.Data.List.Perm
/-! Generic facts about the outer "follow the cycle" loop shared by the verifiers (C05):
an accepted walk yields a *trace* of entry slots; determinism of the step alone makes the trace
duplicate-free (no `visited` array needed). -/
namespace GV.Pow

/-- the list of slots at which the outer loop stood, when it ended by coming back to slot 0 -/
structure Trace (step : Nat → Except Err Nat) (i : Nat) (tr : List Nat) : Prop where
  pos : 0 < tr.length
  head : tr.getD 0 0 = i
  chain : ∀ t, t + 1 < tr.length →
    step (tr.getD t 0) = .ok (tr.getD (t+1) 0) ∧ tr.getD (t+1) 0 ≠ 0
  last : step (tr.getD (tr.length - 1) 0) = .ok 0

theorem uWalk_trace (step : Nat → Except Err Nat) :
    ∀ f i n m, uWalk step f i n = .ok m → ∃ tr, Trace step i tr ∧ m = n + tr.length := by
  intro f
  induction f with
  | zero => intro i n m h; simp [uWalk] at h
  | succ f ih =>
    intro i n m h
    unfold uWalk at h
    cases hs : step i with
    | error e => simp [hs] at h
    | ok i' =>
      simp only [hs] at h
      by_cases h0 : i' = 0
      · simp only [h0, if_true] at h
        injection h with h
        refine ⟨[i], ⟨by simp, by simp, ?_, ?_⟩, by simp [← h]⟩
        · intro t ht; simp at ht
        · simp [hs, h0]
      · simp only [h0, if_false] at h
        obtain ⟨tr, htr, hm⟩ := ih i' (n+1) m h
        refine ⟨i :: tr, ⟨by simp, by simp, ?_, ?_⟩, by simp [hm]; omega⟩
        · intro t ht
          cases t with
          | zero =>
            simp only [List.getD_cons_zero, List.getD_cons_succ, htr.head]
            exact ⟨hs, h0⟩
          | succ t =>
            simp only [List.getD_cons_succ]
            exact htr.chain t (by simpa using ht)
        · have hp := htr.pos
          have : (i :: tr).length - 1 = (tr.length - 1) + 1 := by simp; omega
          rw [this, List.getD_cons_succ]
          exact htr.last

/-- equal slots have equal futures -/
theorem Trace.shift {step i tr} (h : Trace step i tr) {a b : Nat}
    (e : tr.getD a 0 = tr.getD b 0) :
    ∀ j, a + j < tr.length → b + j < tr.length → tr.getD (a+j) 0 = tr.getD (b+j) 0 := by
  intro j
  induction j with
  | zero => intro _ _; simpa using e
  | succ j ih =>
    intro ha hb
    have e' := ih (by omega) (by omega)
    have ca := (h.chain (a+j) (by omega)).1
    have cb := (h.chain (b+j) (by omega)).1
    rw [e', cb] at ca
    injection ca with ca
    simpa [Nat.add_assoc] using ca.symm

theorem Trace.ne_of_lt {step i tr} (h : Trace step i tr) {a b : Nat} (hab : a < b)
    (hb : b < tr.length) : tr.getD a 0 ≠ tr.getD b 0 := by
  intro e
  have hs := h.shift e (tr.length - 1 - b) (by omega) (by omega)
  have hbl : b + (tr.length - 1 - b) = tr.length - 1 := by omega
  rw [hbl] at hs
  have c := h.chain (a + (tr.length - 1 - b)) (by omega)
  rw [hs, h.last] at c
  have := c.1
  injection this with this
  exact c.2 this.symm

theorem Trace.nodup {step i tr} (h : Trace step i tr) : tr.Nodup := by
  rw [List.Nodup, List.pairwise_iff_getElem]
  intro a b ha hb hab
  have := h.ne_of_lt hab hb
  simpa [List.getD_eq_getElem?_getD, ha, hb] using this

theorem Trace.inj {step i tr} (h : Trace step i tr) {a b : Nat} (ha : a < tr.length)
    (hb : b < tr.length) (e : tr.getD a 0 = tr.getD b 0) : a = b := by
  rcases Nat.lt_trichotomy a b with hlt | heq | hgt
  · exact absurd e (h.ne_of_lt hlt hb)
  · exact heq
  · exact absurd e.symm (h.ne_of_lt hgt ha)

/-- a duplicate-free list of `L` numbers below `L` is a permutation of `0 … L-1` -/
theorem perm_range_of_nodup {l : List Nat} {L : Nat} (nd : l.Nodup) (hlt : ∀ x ∈ l, x < L)
    (hl : l.length = L) : l.Perm (List.range L) := by
  have sp : l.Subperm (List.range L) :=
    List.subperm_of_subset nd (fun x hx => List.mem_range.mpr (hlt x hx))
  exact sp.perm_of_length_le (by simp [hl])

/-- `ascChain last xs`: the ascending test of the build loops, `last = nonces[n-1]` -/
def ascChain : Option Nat → List Nat → Prop
  | _, [] => True
  | last, x :: xs => notAsc last x = false ∧ ascChain (some x) xs

theorem ascChain_spec : ∀ xs last, ascChain last xs →
    xs.Pairwise (· < ·) ∧ ∀ y, last = some y → ∀ x ∈ xs, y < x := by
  intro xs
  induction xs with
  | nil => intro last _; simp
  | cons x xs ih =>
    intro last h
    obtain ⟨h1, h2⟩ := h
    obtain ⟨p, q⟩ := ih (some x) h2
    refine ⟨List.pairwise_cons.mpr ⟨fun z hz => q x rfl z hz, p⟩, ?_⟩
    intro y hy z hz
    subst hy
    have hyx : y < x := by simpa [notAsc] using h1
    rcases List.mem_cons.mp hz with rfl | hz
    · exact hyx
    · exact Nat.lt_trans hyx (q x rfl z hz)

end GV.Pow
