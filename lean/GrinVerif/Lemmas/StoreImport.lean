import GrinVerif.Lemmas.StoreOps
import GrinVerif.Model.StoreExt
/-! The import step of C08 (`push_pruned_subtree`): `PruneList.append` of a new rightmost root
against the file layout.  Core Lean only. -/
namespace GV.Store
open GV GV.Pmmr GV.Pmmr.Co

/-- adding a value larger than everything in a bitmap appends it -/
theorem Bm.add_gt_all : ∀ (b : Bitmap) (y : Nat), (∀ x ∈ b, x < y) → Bm.add b y = b ++ [y] := by
  intro b
  induction b with
  | nil => intro y _; rfl
  | cons a t ih =>
    intro y h
    have ha := h a List.mem_cons_self
    simp only [Bm.add]
    rw [if_neg (by omega), if_neg (by omega), ih y (fun x hx => h x (List.mem_cons_of_mem _ hx))]
    rfl

namespace PruneList

/-- **`PruneList::append` of a new rightmost root.**  All roots of the list lie at or below the
leftmost position `mmr N` of the new root's subtree (1-based root positions `<= mmr N`) and the new
root's sibling is not pruned (no roll-up): the bitmap grows by exactly the new root, and the
roll-up invariant - hence both shift caches - holds again. -/
theorem append_rightmost {pl : PruneList} (h : pl.Inv) {N pos0 : Nat}
    (hroots : ∀ x ∈ pl.bitmap, x ≤ mmr N) (hl : bintreeLeftmost pos0 = mmr N)
    (hsib : pl.isPruned (family pos0).2 = false) :
    (pl.append pos0).bitmap = pl.bitmap ++ [pos0 + 1] ∧ (pl.append pos0).Inv := by
  refine ⟨?_, append_inv h pos0⟩
  have hle := leftmost_le pos0
  show (appendFuel 64 pl pos0).bitmap = _
  unfold appendFuel
  simp only [hsib, Bool.false_eq_true, if_false]
  have hc : cleanupSubtree pl pos0 = pl := by
    unfold cleanupSubtree
    simp only
    rw [if_pos]
    rw [hl]
    cases hm : Bm.maximum pl.bitmap with
    | none => simp
    | some m => simpa using hroots m (maximum_mem hm)
  rw [hc]
  show Bm.add pl.bitmap (1 + pos0) = _
  rw [Bm.add_gt_all _ _ (fun x hx => by have := hroots x hx; omega)]
  congr 2; omega

end PruneList

/-- what is compacted under the list extended by a new root `r` (1-based `r + 1`): what was, plus
the positions strictly inside the subtree of `r` -/
theorem compactedP_snoc (bm : Bitmap) (r q : Nat) :
    compactedP (bm ++ [r + 1]) q =
      (compactedP bm q || (decide (bintreeLeftmost r ≤ q) && decide (q < r))) := by
  unfold compactedP
  rw [List.any_append]
  simp [interior]

theorem range_three (A k1 k2 : Nat) :
    List.range (A + (k1 + k2)) = List.range A ++ (List.range' A k1 ++ List.range' (A + k1) k2) := by
  rw [range_add', List.range'_append_1]

/-- the filter over the three stretches: below the subtree the predicate is the old one, inside
the subtree nothing passes, from the root on the given predicate decides -/
theorem filter_snoc (pOld pNew : Nat → Bool) (A k1 k2 : Nat)
    (h1 : ∀ q, q < A → pNew q = pOld q) (h2 : ∀ q, A ≤ q → q < A + k1 → pNew q = false) :
    (List.range (A + (k1 + k2))).filter pNew =
      (List.range A).filter pOld ++ (List.range' (A + k1) k2).filter pNew := by
  rw [range_three, List.filter_append, List.filter_append]
  have e1 : (List.range A).filter pNew = (List.range A).filter pOld :=
    List.filter_congr (fun q hq => h1 q (List.mem_range.1 hq))
  have e2 : (List.range' A k1).filter pNew = [] := by
    rw [List.filter_eq_nil_iff]
    intro q hq
    obtain ⟨a, b⟩ := List.mem_range'_1.1 hq
    simp [h2 q a b]
  rw [e1, e2, List.nil_append]

/-- **the hash-file layout after the new rightmost root**: the old layout, then the root `pos0`
and everything after it up to the new size (the parents that merge it with its left peaks); the
positions inside the subtree are not there -/
theorem layout_snoc {bm : Bitmap} {N pos0 M' : Nat} (hroots : ∀ x ∈ bm, x ≤ mmr N)
    (hl : bintreeLeftmost pos0 = mmr N) (hlt : pos0 < M') :
    layout (bm ++ [pos0 + 1]) M' = layout bm (mmr N) ++ List.range' pos0 (M' - pos0) := by
  have hle := PruneList.leftmost_le pos0
  obtain ⟨k1, hk1⟩ : ∃ k1, pos0 = mmr N + k1 := ⟨pos0 - mmr N, by omega⟩
  obtain ⟨k2, hk2⟩ : ∃ k2, M' = mmr N + (k1 + k2) := ⟨M' - pos0, by omega⟩
  have e2 : M' - pos0 = k2 := by omega
  unfold layout
  rw [e2, hk2, filter_snoc (fun q => !compactedP bm q) _ (mmr N) k1 k2, ← hk1]
  · congr 1
    rw [List.filter_eq_self]
    intro q hq
    obtain ⟨a, _⟩ := List.mem_range'_1.1 hq
    rw [compactedP_snoc, not_compacted_of_ge hroots (by omega)]
    simp; omega
  · intro q hq
    rw [compactedP_snoc]
    have : ¬ bintreeLeftmost pos0 ≤ q := by omega
    simp [this]
  · intro q a b
    rw [compactedP_snoc]
    have h1 : bintreeLeftmost pos0 ≤ q := by omega
    have h2 : q < pos0 := by omega
    simp [h1, h2]

/-- **the data-file layout does not change**: every leaf the subtree brings lies strictly inside
it (height of the root `>= 1`, stated as: no position from the root on up to the new size is a
leaf) -/
theorem dataLayout_snoc {bm : Bitmap} {N pos0 M' : Nat}
    (hl : bintreeLeftmost pos0 = mmr N) (hlt : pos0 < M')
    (hnl : ∀ q, pos0 ≤ q → q < M' → isLeaf q = false) :
    dataLayout (bm ++ [pos0 + 1]) M' = dataLayout bm (mmr N) := by
  have hle := PruneList.leftmost_le pos0
  obtain ⟨k1, hk1⟩ : ∃ k1, pos0 = mmr N + k1 := ⟨pos0 - mmr N, by omega⟩
  obtain ⟨k2, hk2⟩ : ∃ k2, M' = mmr N + (k1 + k2) := ⟨M' - pos0, by omega⟩
  unfold dataLayout
  rw [hk2, filter_snoc (fun q => isLeaf q && !compactedP bm q) _ (mmr N) k1 k2, ← hk1]
  · have : (List.range' pos0 k2).filter
        (fun q => isLeaf q && !compactedP (bm ++ [pos0 + 1]) q) = [] := by
      rw [List.filter_eq_nil_iff]
      intro q hq
      obtain ⟨a, b⟩ := List.mem_range'_1.1 hq
      simp [hnl q a (by omega)]
    rw [this, List.append_nil]
  · intro q hq
    rw [compactedP_snoc]
    have : ¬ bintreeLeftmost pos0 ≤ q := by omega
    simp [this]
  · intro q a b
    rw [compactedP_snoc]
    have h1 : bintreeLeftmost pos0 ≤ q := by omega
    have h2 : q < pos0 := by omega
    simp [h1, h2]

/-- the leaves the extended list prunes: the old ones and those below the new root -/
theorem prunedBy_snoc (bm : Bitmap) (r q : Nat) :
    PrunedBy (bm ++ [r + 1]) q ↔ PrunedBy bm q ∨ Sub r q := by
  unfold PrunedBy
  constructor
  · rintro ⟨x, hx, hs⟩
    rcases List.mem_append.1 hx with hx | hx
    · exact Or.inl ⟨x, hx, hs⟩
    · simp only [List.mem_singleton] at hx
      subst hx
      right; simpa using hs
  · rintro (⟨x, hx, hs⟩ | hs)
    · exact ⟨x, List.mem_append_left _ hx, hs⟩
    · exact ⟨r + 1, by simp, by simpa using hs⟩


/-- the backend with its prune-list FILE brought up to date (what `sync` will do): inside an import
the in-memory prune list runs ahead of the file -/
def Backend.fixPF {H : Type} (b : Backend H) : Backend H := { b with pruneFile := b.pruneList.bitmap }

/-- **The import step against the reference, given what the loop appended.**  `b` satisfies the
in-unit reference invariant for `N` leaves; `pos0` is a position whose subtree starts at `mmr N`
(its leaves are the next leaves of the history) and whose sibling is not pruned; the MMR with
those leaves has size `mmr N' = pos0 + 1 + k`; no position from `pos0` on is a leaf.  If `b2`
differs from `b` only by `PruneList.append pos0` and by a hash buffer extended with the reference
hashes of `pos0 … mmr N' - 1`, then `b2` satisfies the invariant for `N'` leaves - with the SAME
data file. -/
theorem Live.import_step {H : Type} {hf : HashFn Bytes H} {f : Nat → Bytes} {b b2 : Backend H}
    {N N' pos0 k : Nat} {df : AOF Bytes}
    (h : Live b.fixPF N (refHash hf f) (refData f) df)
    (hl : bintreeLeftmost pos0 = mmr N) (hsz : mmr N' = pos0 + 1 + k)
    (hsib : b.pruneList.isPruned (family pos0).2 = false)
    (hnl : ∀ q, pos0 ≤ q → q < mmr N' → isLeaf q = false)
    (hbd : mmr N' + 64 < 2 ^ 64)
    (hdf : b2.dataFile = b.dataFile) (hls : b2.leafSet = b.leafSet)
    (hpl : b2.pruneList = b.pruneList.append pos0)
    (hdisk : b2.hashFile.disk = b.hashFile.disk) (hbsp : b2.hashFile.bsp = b.hashFile.bsp)
    (hbak : b2.hashFile.bak = b.hashFile.bak)
    (hbuf : b2.hashFile.buffer = b.hashFile.buffer ++ (List.range' pos0 (k + 1)).map (refHash hf f)) :
    Live b2.fixPF N' (refHash hf f) (refData f) df := by
  have hle := PruneList.leftmost_le pos0
  have hroots : ∀ x ∈ b.pruneList.bitmap, x ≤ mmr N := h.roots
  have hinv0 : b.pruneList.Inv := h.inv
  obtain ⟨hbm, hinv⟩ := PruneList.append_rightmost hinv0 hroots hl hsib
  have hlt : pos0 < mmr N' := by omega
  have hNN : mmr N ≤ mmr N' := by omega
  refine ⟨?_, ?_, ?_, ?_, h.dataWF, ?_, ?_, ?_, ?_, ?_, hbd, rfl⟩
  · show b2.pruneList.Inv
    rw [hpl]; exact hinv
  · show b2.hashFile.WF
    have w : b.hashFile.WF := h.hashWF
    exact ⟨by rw [hbsp, hdisk]; exact w.le, fun h0 => by rw [hbsp, hdisk]; exact w.bak0 (by rw [← hbak]; exact h0)⟩
  · show b2.hashFile.view = (layout b2.pruneList.bitmap (mmr N')).map (refHash hf f)
    have hv : b.hashFile.view = (layout b.pruneList.bitmap (mmr N)).map (refHash hf f) := h.hashLay
    have e : mmr N' - pos0 = k + 1 := by omega
    rw [hpl, hbm, layout_snoc hroots hl hlt, List.map_append, ← hv, e]
    unfold AOF.view
    rw [hdisk, hbsp, hbuf, List.append_assoc]
  · show b2.dataFile = .fixed df
    rw [hdf]; exact (h.data : b.dataFile = .fixed df)
  · show df.view = (dataLayout b2.pruneList.bitmap (mmr N')).map (refData f)
    rw [hpl, hbm, dataLayout_snoc hl hlt hnl]
    exact (h.dataLay : df.view = (dataLayout b.pruneList.bitmap (mmr N)).map (refData f))
  · show Sorted b2.leafSet.bitmap
    rw [hls]; exact (h.lsSorted : Sorted b.leafSet.bitmap)
  · intro x hx
    have hx' : x ∈ b.leafSet.bitmap := by rw [← hls]; exact hx
    have hh : 1 ≤ x ∧ x ≤ mmr N ∧ height (x - 1) = 0 := h.lsLeaf x hx'
    exact ⟨hh.1, by omega, hh.2.2⟩
  · intro x hx
    have hx' : x ∈ b.leafSet.bitmap := by rw [← hls]; exact hx
    have hh : 1 ≤ x ∧ x ≤ mmr N ∧ height (x - 1) = 0 := h.lsLeaf x hx'
    have hun : ¬ PrunedBy b.pruneList.bitmap (x - 1) := h.unpruned x hx'
    show ¬ PrunedBy b2.pruneList.bitmap (x - 1)
    rw [hpl, hbm, prunedBy_snoc]
    rintro (hp | hs)
    · exact hun hp
    · have := hs.1; have := hh.2.1; omega
  · intro x hx
    have hx' : x ∈ b.pruneList.bitmap ++ [pos0 + 1] := by
      have : x ∈ b2.pruneList.bitmap := hx
      rw [hpl, hbm] at this; exact this
    rcases List.mem_append.1 hx' with hx'' | hx''
    · have := hroots x hx''; omega
    · simp only [List.mem_singleton] at hx''; omega

end GV.Store
