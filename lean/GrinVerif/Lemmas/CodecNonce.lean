import GrinVerif.Model.Codec
/-! The nonce ring of a long-lived `Handshake` (`p2p/src/handshake.rs`: `next_nonce` = `push_back`,
then `pop_front` when `len >= NONCES_CAP`) as a bounded queue: after any number of outbound attempts
it holds exactly the last `min(n, NONCES_CAP - 1)` nonces. -/
namespace GV.Codec
open GV GV.Gen.Msg

theorem NONCES_CAP_ge : 2 ≤ NONCES_CAP := by decide

/-- one `next_nonce` on a ring within its bound: append, keep the last `NONCES_CAP - 1` -/
theorem pushNonce_eq (ring : List Nat) (n : Nat) (h : ring.length ≤ NONCES_CAP - 1) :
    pushNonce ring n = (ring ++ [n]).drop ((ring.length + 1) - (NONCES_CAP - 1)) := by
  have hc := NONCES_CAP_ge
  unfold pushNonce
  simp only [List.length_append, List.length_cons, List.length_nil, ge_iff_le]
  by_cases hf : NONCES_CAP ≤ ring.length + 0 + 1
  · rw [if_pos hf]
    have : ring.length + 1 - (NONCES_CAP - 1) = 1 := by omega
    rw [this]
  · rw [if_neg hf]
    have : ring.length + 1 - (NONCES_CAP - 1) = 0 := by omega
    rw [this, List.drop_zero]

theorem pushNonce_length (ring : List Nat) (n : Nat) (h : ring.length ≤ NONCES_CAP - 1) :
    (pushNonce ring n).length ≤ NONCES_CAP - 1 := by
  have hc := NONCES_CAP_ge
  rw [pushNonce_eq ring n h, List.length_drop, List.length_append]
  simp only [List.length_cons, List.length_nil]
  omega

/-- any number of `next_nonce` calls on a ring within its bound: the last `NONCES_CAP - 1` of
everything ever pushed -/
theorem foldl_pushNonce (ns : List Nat) : ∀ ring : List Nat, ring.length ≤ NONCES_CAP - 1 →
    ns.foldl pushNonce ring = (ring ++ ns).drop ((ring ++ ns).length - (NONCES_CAP - 1)) := by
  have hc := NONCES_CAP_ge
  induction ns with
  | nil =>
    intro ring h
    have : (ring ++ ([] : List Nat)).length - (NONCES_CAP - 1) = 0 := by simp; omega
    rw [this]; simp
  | cons a ns ih =>
    intro ring h
    rw [List.foldl_cons, ih _ (pushNonce_length ring a h), pushNonce_eq ring a h]
    generalize hk : ring.length + 1 - (NONCES_CAP - 1) = k
    have hkl : k ≤ (ring ++ [a]).length := by
      rw [List.length_append, List.length_singleton]; omega
    have e0 : (ring ++ [a]).drop k ++ ns = (ring ++ [a] ++ ns).drop k :=
      (List.drop_append_of_le_length hkl).symm
    have e1 : ring ++ [a] ++ ns = ring ++ a :: ns := by simp
    rw [e0, e1, List.drop_drop]
    congr 1
    have hl : (ring ++ a :: ns).length = ring.length + 1 + ns.length := by
      rw [List.length_append, List.length_cons]; omega
    rw [List.length_drop, hl]
    omega

/-- **the ring after the attempts `ns`** (from `Handshake::new`): exactly the last
`min(|ns|, NONCES_CAP - 1)` nonces, oldest first -/
theorem ringAfter_eq (ns : List Nat) : ringAfter ns = ns.drop (ns.length - (NONCES_CAP - 1)) := by
  have := foldl_pushNonce ns [] (by simp)
  simpa [ringAfter] using this

theorem ringAfter_length (ns : List Nat) : (ringAfter ns).length = min ns.length (NONCES_CAP - 1) := by
  rw [ringAfter_eq, List.length_drop]; omega

/-- the nonces of the last `NONCES_CAP - 1` attempts are all retained -/
theorem ringAfter_recent (older recent : List Nat) (h : recent.length ≤ NONCES_CAP - 1) :
    ∀ n ∈ recent, n ∈ ringAfter (older ++ recent) := by
  intro n hn
  rw [ringAfter_eq]
  have hle : (older ++ recent).length - (NONCES_CAP - 1) ≤ older.length := by
    rw [List.length_append]; omega
  rw [List.drop_append_of_le_length hle]
  exact List.mem_append_right _ hn

/-- … and nothing older is: after `NONCES_CAP - 1` further attempts a nonce is forgotten -/
theorem ringAfter_evicted (older recent : List Nat) (h : recent.length = NONCES_CAP - 1) :
    ringAfter (older ++ recent) = recent := by
  rw [ringAfter_eq]
  have : (older ++ recent).length - (NONCES_CAP - 1) = older.length := by
    rw [List.length_append]; omega
  rw [this, List.drop_left]

end GV.Codec
