import GrinVerif.Lemmas.DecSerEraseMsg
/-! `BitmapBlock::read`: the instrumented reader (`Model/DecSer.lean`: the `BitVec` as its length, the
fill value and the flipped positions; allocation before the entry count is read) erases to the plain
one (`Model/SerSeg.lean`: the bit vector as a number). -/
namespace GV.DecSer
open GV GV.Ser GV.Dec

variable {α β : Type}

/-- the plain model's block for an instrumented one -/
def toBlock (b : BitmapBlock) : GV.SerSeg.BitmapBlock :=
  { nChunks := b.nBits / CHUNK_BITS,
    v := match b.bits with
      | .raw bytes => ofBE bytes
      | .flips false ps => GV.SerSeg.orBits b.nBits ps
      | .flips true ps => (2 ^ b.nBits - 1) - GV.SerSeg.orBits b.nBits ps }

theorem erases_flipLoop (nBits : Nat) : ∀ n, Erases (flipLoop nBits n) (GV.SerSeg.readBitPositions nBits n) := by
  intro n
  induction n with
  | zero => intro bs; rfl
  | succ n ih =>
    refine Erases.of_eq
      (p' := fun bs => Dec.bind (rU16 bs) fun pos r =>
        if pos ≥ nBits then .err .corrupted 0
        else Dec.bind (flipLoop nBits n r) fun ps r => .ok (pos :: ps) r 0)
      (q' := fun bs => andThen (readU16 bs) fun pos r =>
        if pos ≥ nBits then .error .corrupted
        else andThen (GV.SerSeg.readBitPositions nBits n r) fun ps r => .ok (pos :: ps, r)) ?_ (fun _ => rfl) ?_
    · intro bs
      simp only [flipLoop]
      congr 1; funext pos r
      by_cases h : pos ≥ nBits <;> simp [h]
    · exact Erases.bind erases_rU16 fun pos => Erases.ite _ (erases_err _) (Erases.bind ih fun ps => erases_pure _)

theorem erases_rBitmapBlock (rd : Rdr) :
    Erases (fun bs => (rBitmapBlock rd bs).map toBlock) GV.SerSeg.decBitmapBlock := by
  intro bs
  show ((rBitmapBlock rd bs).map toBlock).toExcept = some (GV.SerSeg.decBitmapBlock bs)
  unfold rBitmapBlock GV.SerSeg.decBitmapBlock
  simp only [GV.SerSeg.MODE_RAW, GV.SerSeg.MODE_POSITIVE, GV.SerSeg.MODE_NEGATIVE]
  have h8 := erases_rU8 bs
  cases hp : rU8 bs with
  | panic s n => rw [hp] at h8; simp [Outcome.toExcept] at h8
  | err e n =>
    rw [hp] at h8
    simp only [Outcome.toExcept, Option.some.injEq] at h8
    rw [← h8]; rfl
  | ok nChunks r n =>
    rw [hp] at h8
    simp only [Outcome.toExcept, Option.some.injEq] at h8
    rw [← h8]
    simp only [Dec.bind, andThen_ok, map_addAlloc, toExcept_addAlloc]
    by_cases hbig : nChunks > NCHUNKS
    · have : nChunks > GV.SerSeg.BLOCK_NCHUNKS := hbig
      simp [hbig, this, Outcome.map, Outcome.toExcept]
    · have hbig' : ¬ nChunks > GV.SerSeg.BLOCK_NCHUNKS := hbig
      simp only [hbig, hbig', if_false]
      have hm := erases_rU8 r
      cases hq : rU8 r with
      | panic s m => rw [hq] at hm; simp [Outcome.toExcept] at hm
      | err e m =>
        rw [hq] at hm
        simp only [Outcome.toExcept, Option.some.injEq] at hm
        rw [← hm]; rfl
      | ok mode r2 m =>
        rw [hq] at hm
        simp only [Outcome.toExcept, Option.some.injEq] at hm
        rw [← hm]
        simp only [andThen_ok, map_addAlloc, toExcept_addAlloc]
        unfold rBitmapBlockBody
        have hn64 : nChunks ≤ 64 := by unfold NCHUNKS at hbig; omega
        by_cases h0 : mode = 0
        · -- raw bytes
          simp only [h0, if_true]
          have hf := erases_rFixed rd (nChunks * CHUNK_BITS / 8) r2
          cases hx : rFixed rd (nChunks * CHUNK_BITS / 8) r2 with
          | panic s k => rw [hx] at hf; simp [Outcome.toExcept] at hf
          | err e k =>
            rw [hx] at hf
            simp only [Outcome.toExcept, Option.some.injEq] at hf
            have : GV.SerSeg.CHUNK_BITS = CHUNK_BITS := rfl
            rw [this, ← hf]; rfl
          | ok bytes r3 k =>
            rw [hx] at hf
            simp only [Outcome.toExcept, Option.some.injEq] at hf
            have hl := (readFixed_ok hf.symm).2
            have : GV.SerSeg.CHUNK_BITS = CHUNK_BITS := rfl
            rw [this, ← hf]
            have hc : bytes.length * 8 / CHUNK_BITS = nChunks := by
              rw [hl]; unfold CHUNK_BITS; omega
            simp [Dec.bind, charge, Outcome.addAlloc, Outcome.map, Outcome.toExcept, toBlock, hc]
        · simp only [h0, if_false]
          by_cases h12 : mode = 1 ∨ mode = 2
          · simp only [h12, if_true]
            unfold Dec.withCapacity
            have hcap : ¬ nChunks * CHUNK_BITS / 8 * 1 > ISIZE_MAX := by
              unfold CHUNK_BITS ISIZE_MAX; omega
            rw [if_neg hcap, map_addAlloc, toExcept_addAlloc]
            have hdiv : nChunks * CHUNK_BITS / CHUNK_BITS = nChunks := by unfold CHUNK_BITS; omega
            -- the common part: count and positions
            have key : ∀ (fill : Bool),
                Erases (fun r => (Dec.bind (rU16 r) fun cnt r =>
                    Dec.bind (flipLoop (nChunks * CHUNK_BITS) cnt r) fun ps r =>
                      (.ok ({ nBits := nChunks * CHUNK_BITS, bits := .flips fill ps } : BitmapBlock) r 0 : Outcome BitmapBlock)).map toBlock)
                  (fun r => andThen (readU16 r) fun cnt r =>
                    andThen (GV.SerSeg.readBitPositions (nChunks * GV.SerSeg.CHUNK_BITS) cnt r) fun ps r =>
                      .ok (toBlock { nBits := nChunks * CHUNK_BITS, bits := .flips fill ps }, r)) := by
              intro fill
              refine Erases.of_eq
                (p' := fun r => Dec.bind (rU16 r) fun cnt r =>
                    Dec.bind (flipLoop (nChunks * CHUNK_BITS) cnt r) fun ps r =>
                      .ok (toBlock { nBits := nChunks * CHUNK_BITS, bits := .flips fill ps }) r 0)
                (q' := _) ?_ (fun _ => rfl) ?_
              · intro r; simp only [map_bind]; rfl
              · exact Erases.bind erases_rU16 fun cnt =>
                  Erases.bind (erases_flipLoop (nChunks * CHUNK_BITS) cnt) fun ps => erases_pure _
            rcases h12 with h1 | h2
            · subst h1
              have := key false r2
              simp only [if_true] at this ⊢
              have hd : (decide ((1 : Nat) = 2)) = false := rfl
              simp only [hd]
              rw [this]
              simp [toBlock, hdiv]
              rfl
            · subst h2
              have := key true r2
              have hd : decide True = true := rfl
              have hne : ¬ ((2 : Nat) = 1) := by omega
              simp only [hd, hne, if_false, if_true] at this ⊢
              rw [this]
              simp [toBlock, hdiv]
              rfl
          · have h1 : ¬ mode = 1 := fun h => h12 (Or.inl h)
            have h2 : ¬ mode = 2 := fun h => h12 (Or.inr h)
            simp [h12, h1, h2, Outcome.map, Outcome.toExcept]

/-! ### what every decoded block satisfies -/

def BlockInv (b : BitmapBlock) : Prop := b.nBits % CHUNK_BITS = 0 ∧ b.nBits / CHUNK_BITS ≤ NCHUNKS

theorem addAlloc_ok_inv {o : Outcome α} {k : Nat} {a : α} {r : Bytes} {n : Nat} (h : o.addAlloc k = .ok a r n) :
    ∃ m, o = .ok a r m := by
  cases o with
  | ok a' r' m => simp only [Outcome.addAlloc, Outcome.ok.injEq] at h; exact ⟨m, by rw [h.1, h.2.1]⟩
  | err e m => simp [Outcome.addAlloc] at h
  | panic s m => simp [Outcome.addAlloc] at h

theorem withCapacity_ok_inv {o : Outcome α} {c sz : Nat} {a : α} {r : Bytes} {n : Nat}
    (h : Dec.withCapacity c sz o = .ok a r n) : ∃ m, o = .ok a r m := by
  unfold Dec.withCapacity at h
  split at h
  · simp at h
  · exact addAlloc_ok_inv h

theorem rBitmapBlock_inv {rd : Rdr} {bs : Bytes} {b : BitmapBlock} {r : Bytes} {n : Nat}
    (h : rBitmapBlock rd bs = .ok b r n) : BlockInv b := by
  unfold rBitmapBlock at h
  obtain ⟨nc, r1, n1, n2, h1, h2, _⟩ := bind_ok_inv h
  split at h2
  · simp at h2
  rename_i hnc
  obtain ⟨mode, r2, n3, n4, h3, h4, _⟩ := bind_ok_inv h2
  unfold rBitmapBlockBody at h4
  have hn64 : nc ≤ 64 := by unfold NCHUNKS at hnc; omega
  split at h4
  · obtain ⟨bytes, r3, n5, n6, h5, h6, _⟩ := bind_ok_inv h4
    obtain ⟨m, h7⟩ := addAlloc_ok_inv (o := (.ok { nBits := bytes.length * 8, bits := .raw bytes } r3 0 : Outcome BitmapBlock)) h6
    simp only [Outcome.ok.injEq] at h7
    have hl := (readFixed_ok ((erases_rFixed rd _).ok h5)).2
    rw [← h7.1]
    unfold BlockInv CHUNK_BITS NCHUNKS
    simp only
    unfold CHUNK_BITS at hl
    constructor <;> omega
  · split at h4
    · obtain ⟨m, h5⟩ := withCapacity_ok_inv h4
      obtain ⟨cnt, r3, n5, n6, h6, h7, _⟩ := bind_ok_inv h5
      obtain ⟨ps, r4, n7, n8, h8, h9, _⟩ := bind_ok_inv h7
      simp only [Outcome.ok.injEq] at h9
      rw [← h9.1]
      unfold BlockInv CHUNK_BITS NCHUNKS
      simp only
      constructor <;> omega
    · simp at h4

theorem readN_all {p : Dec α} {Q : α → Prop} (hp : ∀ bs a r n, p bs = .ok a r n → Q a) :
    ∀ (k : Nat) (bs : Bytes) (xs : List α) (r : Bytes) (n : Nat), GV.Dec.readN p k bs = .ok xs r n → ∀ x ∈ xs, Q x := by
  intro k
  induction k with
  | zero => intro bs xs r n h; simp only [GV.Dec.readN, Outcome.ok.injEq] at h; rw [← h.1]; simp
  | succ k ih =>
    intro bs xs r n h
    simp only [GV.Dec.readN] at h
    obtain ⟨x, r1, n1, n2, h1, h2, _⟩ := bind_ok_inv h
    obtain ⟨ys, r2, n3, n4, h3, h4, _⟩ := bind_ok_inv h2
    simp only [Outcome.ok.injEq] at h4
    rw [← h4.1]
    intro y hy
    rcases List.mem_cons.mp hy with rfl | hy
    · exact hp _ _ _ _ h1
    · exact ih _ _ _ _ h3 y hy

/-! ### the shape checks of `BitmapSegment::read` in the two models -/

theorem tryNChunks_inv {b : BitmapBlock} (h : BlockInv b) : tryNChunks b = .ok (toBlock b).nChunks := by
  unfold tryNChunks
  rw [if_neg (by simp [h.1]), if_neg (by have := h.2; omega)]
  rfl

theorem nChunksOf_eq : ∀ (bl : List BitmapBlock), (∀ b ∈ bl, BlockInv b) → bl.length ≤ 2^32 →
    nChunksOf bl = GV.SerSeg.nChunksOf (bl.map toBlock)
  | [], _, _ => rfl
  | [b], h, _ => by
    have hb := tryNChunks_inv (h b (by simp))
    have h2 := (h b (by simp)).2
    have hd : ([b] : List BitmapBlock).dropLast = [] := rfl
    simp only [nChunksOf, List.getLast?_singleton, hd, fullBlocksOk, hb, List.length_nil,
      Nat.zero_mul, Nat.zero_add, List.map_cons, List.map_nil, GV.SerSeg.nChunksOf]
    by_cases h0 : (toBlock b).nChunks = 0
    · simp [h0]
    · have : ¬ (toBlock b).nChunks ≥ 2^64 := by
        have : (toBlock b).nChunks = b.nBits / CHUNK_BITS := rfl
        unfold NCHUNKS at h2; omega
      simp [h0, this]
  | b :: c :: r, h, hlen => by
    have ih := nChunksOf_eq (c :: r) (fun x hx => h x (by simp [hx])) (by simp at hlen ⊢; omega)
    have hb := tryNChunks_inv (h b (by simp))
    have hnc : (toBlock b).nChunks = b.nBits / CHUNK_BITS := rfl
    show nChunksOf (b :: c :: r) = GV.SerSeg.nChunksOf (toBlock b :: toBlock c :: r.map toBlock)
    rw [GV.SerSeg.nChunksOf]
    · rw [show toBlock c :: r.map toBlock = (c :: r).map toBlock from rfl, ← ih]
      unfold nChunksOf
      have hgl : (b :: c :: r).getLast? = (c :: r).getLast? := by simp [List.getLast?_cons_cons]
      have hdl : (b :: c :: r).dropLast = b :: (c :: r).dropLast := by simp [List.dropLast]
      rw [hgl, hdl]
      cases hl : (c :: r).getLast? with
      | none => simp at hl
      | some last =>
        simp only [fullBlocksOk, hb]
        have hbn : GV.SerSeg.BLOCK_NCHUNKS = NCHUNKS := rfl
        by_cases hfull : (toBlock b).nChunks ≠ NCHUNKS
        · simp [hfull, hbn]
        · have hfull' : (toBlock b).nChunks = NCHUNKS := by omega
          simp only [hfull, hbn, if_false]
          cases hf : fullBlocksOk (c :: r).dropLast with
          | error e => simp [hfull']
          | ok u =>
            simp only [hfull', ne_eq, not_true_eq_false, if_false]
            cases ht : tryNChunks last with
            | error e => rfl
            | ok lc =>
              simp only [List.length_cons]
              by_cases h0 : lc = 0
              · simp [h0]
              · have hbound : (c :: r).dropLast.length ≤ 2^32 := by
                  have h1 : (c :: r).dropLast.length = (c :: r).length - 1 := List.length_dropLast
                  have h2 : (b :: c :: r).length = (c :: r).length + 1 := rfl
                  omega
                have hlc : lc ≤ 64 := by
                  have hlast : last ∈ c :: r := List.mem_of_getLast? hl
                  have := tryNChunks_inv (h last (by simp [hlast]))
                  rw [this] at ht
                  simp only [Except.ok.injEq] at ht
                  have := (h last (by simp [hlast])).2
                  have hq : (toBlock last).nChunks = last.nBits / CHUNK_BITS := rfl
                  unfold NCHUNKS at this; omega
                have e1 : ¬ (c :: r).dropLast.length * NCHUNKS + lc ≥ 2^64 := by unfold NCHUNKS; omega
                have e2 : ¬ ((c :: r).dropLast.length + 1) * NCHUNKS + lc ≥ 2^64 := by unfold NCHUNKS; omega
                simp only [h0, e1, e2, if_false]
                congr 1
                unfold NCHUNKS; omega
    · simp

def chkOfN : Except SerErr Nat → Chk
  | .ok _ => .ok
  | .error e => .err e

theorem serNChunksOf_pos : ∀ (l : List GV.SerSeg.BitmapBlock) (n : Nat), GV.SerSeg.nChunksOf l = .ok n → 1 ≤ n
  | [], n, h => by simp [GV.SerSeg.nChunksOf] at h
  | [b], n, h => by
    simp only [GV.SerSeg.nChunksOf] at h
    split at h
    · simp at h
    · simp only [Except.ok.injEq] at h; omega
  | b :: c :: r, n, h => by
    rw [GV.SerSeg.nChunksOf] at h
    · split at h
      · simp at h
      · split at h
        · simp only [Except.ok.injEq] at h; unfold GV.SerSeg.BLOCK_NCHUNKS at h; omega
        · simp at h
    · simp

theorem leafOffset_eq (id : SegmentId) : leafOffset id = GV.SerSeg.leafOffset (toSegId id) := rfl

theorem maxChunks_eq (id : SegmentId) : maxChunks id.height = GV.SerSeg.maxChunks (toSegId id) := by
  unfold maxChunks GV.SerSeg.maxChunks toSegId
  have : GV.SerSeg.MAX_BITMAP_SEGMENT_HEIGHT = MAX_BITMAP_SEGMENT_HEIGHT := rfl
  simp only [this]
  by_cases h : id.height > MAX_BITMAP_SEGMENT_HEIGHT
  · simp [h]
  · have : ¬ id.height ≥ 64 := by unfold MAX_BITMAP_SEGMENT_HEIGHT at h; omega
    simp [h, this]

theorem validateBlocks_eq (id : SegmentId) (bl : List BitmapBlock) (hinv : ∀ b ∈ bl, BlockInv b)
    (hlen : bl.length ≤ 2^32) :
    validateBlocks id bl = chkOfN (GV.SerSeg.validateBlocks (toSegId id) (bl.map toBlock)) := by
  unfold validateBlocks GV.SerSeg.validateBlocks
  rw [leafOffset_eq, nChunksOf_eq bl hinv hlen, maxChunks_eq]
  cases GV.SerSeg.leafOffset (toSegId id) with
  | error e => rfl
  | ok off =>
    simp only
    cases hn : GV.SerSeg.nChunksOf (bl.map toBlock) with
    | error e => rfl
    | ok n =>
      simp only
      have hpos := serNChunksOf_pos _ _ hn
      cases GV.SerSeg.maxChunks (toSegId id) with
      | error e => rfl
      | ok mx =>
        simp only
        by_cases h1 : n > mx
        · simp [h1, chkOfN]
        · have h0 : ¬ n = 0 := by omega
          simp only [h1, h0, if_false]
          by_cases h2 : off + (n - 1) ≥ 2^63
          · by_cases h3 : off + (n - 1) ≥ 2^64 <;> simp [h2, h3, chkOfN]
          · have h3 : ¬ off + (n - 1) ≥ 2^64 := by omega
            simp [h2, h3, chkOfN]

def toBitmapSegment (s : BitmapSegment) : GV.SerSeg.BitmapSegment :=
  { id := toSegId s.id, blocks := s.blocks.map toBlock, proof := s.proof }

/-- `BitmapSegment::read`: identifier, block count, the checks made before anything is allocated, the
blocks, `validate_blocks`, the proof — the instrumented reader returns the plain decoder's segment -/
theorem erases_rBitmapSegment (rd : Rdr) :
    Erases (fun bs => (rBitmapSegment rd bs).map toBitmapSegment) GV.SerSeg.decBitmapSegment := by
  -- everything after the block count, for a fixed identifier
  have after : ∀ (id : SegmentId) (nBlocks : Nat),
      Erases (fun r => (rBitmapAfterCount rd id nBlocks r).map toBitmapSegment)
        (fun r =>
          if nBlocks = 0 then .error .corrupted else
          match GV.SerSeg.maxChunks (toSegId id) with
          | .error e => .error e
          | .ok mx =>
            if nBlocks > (mx + GV.SerSeg.BLOCK_NCHUNKS - 1) / GV.SerSeg.BLOCK_NCHUNKS then .error .tooLarge else
            match GV.SerSeg.leafOffset (toSegId id) with
            | .error e => .error e
            | .ok _ =>
              andThen (GV.SerSeg.readItems GV.SerSeg.decBitmapBlock nBlocks r) fun blocks r =>
                match GV.SerSeg.validateBlocks (toSegId id) blocks with
                | .error e => .error e
                | .ok _ =>
                  andThen (GV.SerSeg.decSegProof r) fun proof r =>
                  .ok ({ id := toSegId id, blocks := blocks, proof := proof }, r)) := by
    intro id nBlocks r
    show ((rBitmapAfterCount rd id nBlocks r).map toBitmapSegment).toExcept = _
    unfold rBitmapAfterCount
    by_cases h0 : nBlocks = 0
    · simp [h0, Outcome.map, Outcome.toExcept]
    · simp only [h0, if_false]
      rw [maxChunks_eq, leafOffset_eq]
      cases hmx : GV.SerSeg.maxChunks (toSegId id) with
      | error e => rfl
      | ok mx =>
        simp only
        have hbn : GV.SerSeg.BLOCK_NCHUNKS = NCHUNKS := rfl
        rw [hbn]
        by_cases hbig : nBlocks > (mx + NCHUNKS - 1) / NCHUNKS
        · simp [hbig, Outcome.map, Outcome.toExcept]
        · simp only [hbig, if_false]
          cases GV.SerSeg.leafOffset (toSegId id) with
          | error e => rfl
          | ok off =>
            simp only
            -- the number of blocks is small
            have hmx13 : mx ≤ 2^13 := by
              unfold GV.SerSeg.maxChunks at hmx
              split at hmx
              · simp at hmx
              · rename_i hh
                simp only [Except.ok.injEq] at hmx
                rw [← hmx]
                unfold GV.SerSeg.MAX_BITMAP_SEGMENT_HEIGHT at hh
                exact Nat.pow_le_pow_right (by omega) (by omega)
            have hnb : nBlocks ≤ 128 := by unfold NCHUNKS at hbig; omega
            unfold rBitmapBlocks Dec.withCapacity
            rw [if_neg (by unfold BITMAP_BLOCK_MEM ISIZE_MAX; omega), map_addAlloc, toExcept_addAlloc]
            have hrd := erases_readN_map (erases_rBitmapBlock rd) nBlocks r
            simp only at hrd
            cases hq : GV.Dec.readN (rBitmapBlock rd) nBlocks r with
            | panic s m => rw [hq] at hrd; simp [Outcome.map, Outcome.toExcept] at hrd
            | err e m =>
              rw [hq] at hrd
              simp only [Outcome.map, Outcome.toExcept, Option.some.injEq] at hrd
              rw [← hrd]; rfl
            | ok blocks r2 m =>
              have hinv := readN_all (fun _ _ _ _ h => rBitmapBlock_inv h) nBlocks r blocks r2 m hq
              have hl := readN_length nBlocks r blocks r2 m hq
              rw [hq] at hrd
              simp only [Outcome.map, Outcome.toExcept, Option.some.injEq] at hrd
              rw [← hrd]
              simp only [Dec.bind, andThen_ok, map_addAlloc, toExcept_addAlloc]
              rw [validateBlocks_eq id blocks hinv (by omega)]
              cases GV.SerSeg.validateBlocks (toSegId id) (blocks.map toBlock) with
              | error e => rfl
              | ok nn =>
                simp only [chkOfN, Chk.pass]
                have hp := erases_segmentProof rd r2
                cases hs : segmentProof rd r2 with
                | panic s k => rw [hs] at hp; simp [Outcome.toExcept] at hp
                | err e k =>
                  rw [hs] at hp
                  simp only [Outcome.toExcept, Option.some.injEq] at hp
                  rw [← hp]; rfl
                | ok proof r3 k =>
                  rw [hs] at hp
                  simp only [Outcome.toExcept, Option.some.injEq] at hp
                  rw [← hp]; rfl
  refine Erases.of_eq
    (p' := fun bs => Dec.bind (segmentId bs) fun id r => Dec.bind (rU16 r) fun nBlocks r =>
      (rBitmapAfterCount rd id nBlocks r).map toBitmapSegment)
    (q' := GV.SerSeg.decBitmapSegment) ?_ (fun _ => rfl) ?_
  · intro bs; unfold rBitmapSegment; simp only [map_bind]
  · unfold GV.SerSeg.decBitmapSegment
    exact Erases.bindM erases_segmentId fun id => Erases.bind erases_rU16 fun nBlocks => after id nBlocks

def toBitmapSegmentResponse (p : Bytes × BitmapSegment × Bytes) : GV.SerMsg.OutputBitmapSegmentResponse :=
  { blockHash := p.1, segment := toBitmapSegment p.2.1, outputRoot := p.2.2 }

theorem erases_rBitmapSegmentResponse (rd : Rdr) :
    Erases (fun bs => (rBitmapSegmentResponse rd bs).map toBitmapSegmentResponse)
      GV.SerMsg.decOutputBitmapSegmentResponse := by
  refine Erases.of_eq
    (p' := fun bs => Dec.bind (rHash rd bs) fun h r =>
      Dec.bind ((rBitmapSegment rd r).map toBitmapSegment) fun s r =>
      Dec.bind (rHash rd r) fun root r =>
        .ok ({ blockHash := h, segment := s, outputRoot := root } : GV.SerMsg.OutputBitmapSegmentResponse) r 0)
    (q' := GV.SerMsg.decOutputBitmapSegmentResponse) ?_ (fun _ => rfl) ?_
  · intro bs
    unfold rBitmapSegmentResponse
    simp only [map_bind]
    congr 1; funext h r
    cases rBitmapSegment rd r <;> rfl
  · unfold GV.SerMsg.decOutputBitmapSegmentResponse
    exact Erases.bind (erases_rHash rd) fun h => Erases.bind (erases_rBitmapSegment rd) fun s =>
      Erases.bind (erases_rHash rd) fun root => erases_pure _

end GV.DecSer
