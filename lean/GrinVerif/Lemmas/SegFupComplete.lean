import GrinVerif.Lemmas.SegFup
import GrinVerif.Lemmas.SegPrunedList
/-! The completely compacted full segment (C16), part 2: the proof `SegmentProof::generate` builds
from the first on-file ancestor re-bags to the MMR root; assembly — `from_pmmr` succeeds and
`validate` / `validate_with` accept; completeness for every identifier of height ≥ 1 in every
prune state.  Core Lean only. -/
namespace GV.Seg
open GV GV.Pmmr

variable {α H : Type}

/-! ### the family branch above the level-`m` ancestor -/

section Ctx
variable {N k : Nat} {L R : List (Nat × Nat)} {id : Ident}

theorem parent_branchFrom (c : Co.PeakCtx N (lastLeaf id) k L R) (m : Nat) (hm1 : id.height ≤ m)
    (hm2 : m ≤ k) :
    branchFrom (lastOf id) (mmr N) (1 + anc (lastLeaf id) m) = Co.branchCo (lastLeaf id) m (k - m) := by
  unfold branchFrom
  rw [full_familyBranch c]
  have hsplit : k - id.height = (m - id.height) + (k - m) := by omega
  have hstart : id.height + (m - id.height) = m := by omega
  unfold Co.branchCo
  rw [hsplit, ← List.range'_append_1, hstart, List.map_append, List.filter_append]
  have h1 : ((List.range' id.height (m - id.height)).map fun j =>
      (Co.cpos (Co.up (lastLeaf id) (j + 1), j + 1), Co.cpos (Co.sibCo (lastLeaf id) j))).filter
      (fun x => decide (x.1 ≥ 1 + anc (lastLeaf id) m)) = [] := by
    rw [List.filter_eq_nil_iff]
    intro x hx
    obtain ⟨j, hj, rfl⟩ := List.mem_map.1 hx
    rw [List.mem_range'_1] at hj
    have := anc_mono (lastLeaf id) (show j + 1 ≤ m by omega)
    simp only [decide_eq_true_eq]
    show ¬ (anc (lastLeaf id) (j + 1) ≥ 1 + anc (lastLeaf id) m)
    omega
  have h2 : ((List.range' m (k - m)).map fun j =>
      (Co.cpos (Co.up (lastLeaf id) (j + 1), j + 1), Co.cpos (Co.sibCo (lastLeaf id) j))).filter
      (fun x => decide (x.1 ≥ 1 + anc (lastLeaf id) m)) =
      (List.range' m (k - m)).map fun j =>
        (Co.cpos (Co.up (lastLeaf id) (j + 1), j + 1), Co.cpos (Co.sibCo (lastLeaf id) j)) := by
    rw [List.filter_eq_self]
    intro x hx
    obtain ⟨j, hj, rfl⟩ := List.mem_map.1 hx
    rw [List.mem_range'_1] at hj
    have := anc_strict (lastLeaf id) (show m < j + 1 by omega)
    simp only [decide_eq_true_eq]
    show anc (lastLeaf id) (j + 1) ≥ 1 + anc (lastLeaf id) m
    omega
  rw [h1, h2, List.nil_append]

end Ctx

/-- **completely pruned segment: generate from the first on-file ancestor, then reconstruct = the
MMR root.**  `m` is the level of that ancestor; `V` holds the sibling hashes of the family branch
from level `m` on, the peaks to the right (`get_from_file`) and to the left (`get_hash`). -/
theorem parent_generate_reconstruct (hf : HashFn α H) (f : Nat → α) (N : Nat) (id : Ident)
    (V : View α H) (hsize : V.size = mmr N) {k : Nat} {L R : List (Nat × Nat)}
    (c : Co.PeakCtx N (lastLeaf id) k L R) (m : Nat) (hm1 : id.height ≤ m) (hm2 : m ≤ k)
    (hsibs : ∀ j, m ≤ j → j < k → V.hash (Co.cpos (Co.sibCo (lastLeaf id) j))
      = some (hAt hf f (Co.cpos (Co.sibCo (lastLeaf id) j))))
    (hfile : ∀ p ∈ peaks (mmr N), V.fromFile p = some (hAt hf f p))
    (hleft : ∀ p ∈ peaks (mmr N), p < mmr (id.idx * 2 ^ id.height) → V.hash p = some (hAt hf f p)) :
    ∃ proof r, generate hf V (1 + mmr (id.idx * 2 ^ id.height)) (1 + lastOf id)
        (some (1 + anc (lastLeaf id) m)) = .ok proof ∧
      bag hf (mmr N) ((Co.forest N).map (Co.nh hf f)) = some r ∧
      reconstructRoot hf proof (mmr N) (mmr (id.idx * 2 ^ id.height)) (lastOf id)
        (hAt hf f (anc (lastLeaf id) m)) (1 + anc (lastLeaf id) m) = .ok (r, []) := by
  have hbf := parent_branchFrom c m hm1 hm2
  have hpk := full_branchPeak c
  have hk : m + (k - m) = k := by omega
  have hsibmap : ((Co.branchCo (lastLeaf id) m (k - m)).map (·.2)).map (hAt hf f)
      = Co.treePath hf f (lastLeaf id) m (k - m) := by
    simp only [Co.branchCo, Co.treePath, List.map_map]
    apply List.map_congr_left
    intro j _
    exact hAt_cpos hf f _ (Co.sibCo_valid _ j)
  have hsib : collectHashes V.hash ((branchFrom (lastOf id) (mmr N) (1 + anc (lastLeaf id) m)).map (·.2))
      = .ok (Co.treePath hf f (lastLeaf id) m (k - m)) := by
    rw [hbf, ← hsibmap]
    apply collectHashes_map
    intro q hq
    obtain ⟨x, hx, rfl⟩ := List.mem_map.1 hq
    simp only [Co.branchCo, List.mem_map, List.mem_range'_1] at hx
    obtain ⟨j, ⟨hj1, hj2⟩, rfl⟩ := hx
    exact hsibs j hj1 (by omega)
  have hclimb : ∀ rest, climb hf (hAt hf f (anc (lastLeaf id) m))
      (Co.treePath hf f (lastLeaf id) m (k - m) ++ rest)
      (branchFrom (lastOf id) (mmr N) (1 + anc (lastLeaf id) m))
      = .ok (Co.nodeHash hf f (Co.up (lastLeaf id) k) k, rest) := by
    intro rest
    have := climb_tree hf f (lastLeaf id) (k - m) m rest
    rw [hk] at this
    rw [hbf, show anc (lastLeaf id) m = Co.cpos (Co.up (lastLeaf id) m, m) from rfl,
      hAt_cpos hf f _ (Co.up_valid (lastLeaf id) m)]
    exact this
  obtain ⟨proof, hgen, hrec⟩ := generate_reconstruct hf V (mmr N) (mmr (id.idx * 2 ^ id.height))
    (lastOf id) (1 + anc (lastLeaf id) m) (some (1 + anc (lastLeaf id) m))
    (hAt hf f (anc (lastLeaf id) m)) (Co.nodeHash hf f (Co.up (lastLeaf id) k) k)
    (hAt hf f) _ hsize rfl hsib hclimb
    (fun p hp => hfile p (List.mem_filter.1 hp).1)
    (fun p hp => hleft p (List.mem_filter.1 hp).1 (of_decide_eq_true (List.mem_filter.1 hp).2))
  refine ⟨proof, (L.map (Co.nh hf f)).foldr (fun x acc => hf.node (mmr N) x acc)
    (bagOnto hf (mmr N) (Co.nh hf f (Co.up (lastLeaf id) k, k)) (bag hf (mmr N) (R.map (Co.nh hf f)))),
    hgen, ?_, ?_⟩
  · rw [c.split]; exact bag_split hf f (mmr N) L R _
  · rw [hrec, full_filter_left c, hpk, c.filter_gt, map_hAt_cpos hf f L (fun d hd => (c.left_valid d hd).1),
      map_hAt_cpos hf f R (fun d hd => (c.right_valid d hd).1)]

/-! ### assembly -/

section Assembly
variable {hf : HashFn α H} {f : Nat → α} {N : Nat} {b : Nat → Bool} {V : View α H}

/-- **the completely compacted full segment validates.**  A full segment of height ≥ 1 whose
subtree root is off file: `from_pmmr` ships exactly one hash — the committed hash of the first
ancestor on file, at level `m` above the segment's height — and no leaves; its `root` is `Ok(None)`;
`first_unpruned_parent` walks up to that ancestor; `validate` / `validate_with` accept. -/
theorem compacted_full_complete [DecidableEq H] (pv : PrunedView hf f N b V)
    (id : Ident) (v : FullId id (mmr N)) (hg : 1 ≤ id.height)
    (hoff : V.fromFile (lastOf id) = none) :
    ∃ m proof r, id.height < m ∧
      (∀ j, id.height ≤ j → j < m → V.fromFile (anc (lastLeaf id) j) = none) ∧
      V.fromFile (anc (lastLeaf id) m) = some (hAt hf f (anc (lastLeaf id) m)) ∧
      (∃ x ∈ familyBranch (lastOf id) (mmr N), x.1 = anc (lastLeaf id) m) ∧
      fromPmmr hf V id true
        = .ok (parentSeg id (anc (lastLeaf id) m) (hAt hf f (anc (lastLeaf id) m)) proof) ∧
      rootOf hf f N = some r ∧
      (parentSeg id (anc (lastLeaf id) m) (hAt hf f (anc (lastLeaf id) m)) proof).root hf (mmr N) (some b)
        = .ok none ∧
      (parentSeg id (anc (lastLeaf id) m) (hAt hf f (anc (lastLeaf id) m)) proof).firstUnprunedParent
        hf (mmr N) (some b) = .ok (hAt hf f (anc (lastLeaf id) m), 1 + anc (lastLeaf id) m) ∧
      (parentSeg id (anc (lastLeaf id) m) (hAt hf f (anc (lastLeaf id) m)) proof).validate
        hf (mmr N) (some b) r = .ok () ∧
      ∀ hlp other left,
        (parentSeg id (anc (lastLeaf id) m) (hAt hf f (anc (lastLeaf id) m)) proof).validateWith
          hf (mmr N) (some b) (if left then hf.node hlp other r else hf.node hlp r other) hlp other left
          = .ok () := by
  have hnl : nLeaves (mmr N) = N := GV.Props.C07.nLeaves_at_leaf_boundary N
  have hposg : 0 < 2 ^ id.height := Nat.pow_pos (by omega)
  have hfitN : (id.idx + 1) * 2 ^ id.height ≤ N := by have := v.fit; rwa [hnl] at this
  have fit : FitId id N := ⟨v.hh, by
    rw [Nat.add_mul, Nat.one_mul] at hfitN; omega, by have := v.small; rwa [hnl] at this⟩
  obtain ⟨_, _, hfull, hr⟩ := full_arith id (mmr N) v
  obtain ⟨_, _, hlt⟩ := positions_facts id N fit
  obtain ⟨_, hlastlt, _, hne0⟩ := fit_range id N fit
  rw [hr] at hlastlt
  simp only at hlastlt
  have hhl := height_lastOf id
  have hpos := full_positions id (mmr N) v
  have hb := mmr_block id.idx id.height
  have hp1 := two_pow_succ id.height
  have hldef : lastOf id = mmr (id.idx * 2 ^ id.height + (2 ^ id.height - 1)) + id.height := rfl
  have hndef : lastLeaf id = id.idx * 2 ^ id.height + (2 ^ id.height - 1) := rfl
  have hlo : lastOf id + 2 - 2 ^ (id.height + 1) = mmr (id.idx * 2 ^ id.height) := by omega
  have hnlt := lastLeaf_lt id N v
  have hvalid := lastLeaf_valid id
  obtain ⟨k, L, R, c⟩ := Co.exists_peakCtx hnlt
  have hle := full_height_le c
  have hlast_anc : lastOf id = anc (lastLeaf id) id.height := by
    show lastOf id = Co.cpos (Co.up (lastLeaf id) id.height, id.height)
    rw [full_up]; rfl
  -- the peak is on file, the segment's root is not: the first level on file
  have hpeak : V.fromFile (anc (lastLeaf id) k) ≠ none := by
    apply pv.peaks_on_file
    rw [Co.peaks_forest]
    exact List.mem_map.2 ⟨_, c.mem, rfl⟩
  obtain ⟨D, hD⟩ := Nat.exists_eq_add_of_le hle
  obtain ⟨e, he, hno, hyes⟩ := first_true (fun j => V.fromFile (anc (lastLeaf id) j) ≠ none) D id.height
    (by rw [← hlast_anc, hoff]; simp) (by rw [← hD]; exact hpeak)
  have hoffi : ∀ i, i ≤ e → V.fromFile (anc (lastLeaf id) (id.height + i)) = none :=
    fun i hi => Classical.byContradiction fun h => hno i hi h
  have hmk : id.height + e + 1 ≤ k := by omega
  have hmlt : anc (lastLeaf id) (id.height + e + 1) < mmr N := c.cpos_lt hmk
  have hx : V.fromFile (anc (lastLeaf id) (id.height + e + 1))
      = some (hAt hf f (anc (lastLeaf id) (id.height + e + 1))) := by
    cases hx : V.fromFile (anc (lastLeaf id) (id.height + e + 1)) with
    | none => exact absurd hx hyes
    | some y => rw [pv.file_genuine _ y hmlt hx]
  -- no leaf below the first on-file ancestor is marked
  have hvm := Co.up_valid (lastLeaf id) (id.height + e + 1)
  have humlt : Co.up (lastLeaf id) (id.height + e + 1) < N := c.up_lt hmk
  have hchild : V.fromFile (anc (lastLeaf id) (id.height + e)) = none := hoffi e (Nat.le_refl _)
  have hunm : ∀ j, Co.up (lastLeaf id) (id.height + e + 1) + 1 - 2 ^ (id.height + e + 1) ≤ j →
      j ≤ Co.up (lastLeaf id) (id.height + e + 1) → b j = false := by
    cases hbit : bitSet (lastLeaf id) (id.height + e) with
    | true =>
      obtain ⟨hu, _⟩ := Co.step_right hbit
      have := pv.compacted (Co.up (lastLeaf id) (id.height + e + 1)) (id.height + e) hvm humlt
        (Or.inr (Or.inr (by rw [hu]; exact hchild)))
      exact this.2.2
    | false =>
      obtain ⟨hu, _⟩ := Co.step_left hbit
      have e' : Co.up (lastLeaf id) (id.height + e + 1) - 2 ^ (id.height + e)
          = Co.up (lastLeaf id) (id.height + e) := by omega
      have := pv.compacted (Co.up (lastLeaf id) (id.height + e + 1)) (id.height + e) hvm humlt
        (Or.inr (Or.inl (by rw [e']; exact hchild)))
      exact this.2.2
  have hunL : ∀ Lv, Lv ≤ id.height + e + 1 → ∀ j, Co.up (lastLeaf id) Lv + 1 - 2 ^ Lv ≤ j →
      j ≤ Co.up (lastLeaf id) Lv → b j = false := by
    intro Lv hLv j h1 h2
    have hmono := up_leftmost_mono (lastLeaf id) (id.height + e + 1 - Lv) Lv
    rw [show Lv + (id.height + e + 1 - Lv) = id.height + e + 1 by omega] at hmono
    have := Co.up_mono (lastLeaf id) hLv
    exact hunm j (by omega) (by omega)
  have hunseg : ∀ j, id.idx * 2 ^ id.height ≤ j → j < (id.idx + 1) * 2 ^ id.height → b j = false := by
    intro j h1 h2
    have := hunL id.height (by omega) j
    rw [full_up, hndef] at this
    rw [Nat.add_mul, Nat.one_mul] at h2
    exact this (by omega) (by omega)
  have hnotreq := block_not_required b N id.height id.idx hg pv.small hfitN hunseg
  -- the leaves of the position range
  have hleafco : ∀ q, mmr (id.idx * 2 ^ id.height) ≤ q → q ≤ lastOf id → height q = 0 →
      ∃ j, q = mmr j ∧ id.idx * 2 ^ id.height ≤ j ∧ j < (id.idx + 1) * 2 ^ id.height := by
    intro q h1 h2 hl
    obtain ⟨j, h, hh, rfl⟩ := Co.coord_surj q
    rw [Co.height_co j h hh] at hl
    subst hl
    rw [Nat.add_zero] at h1 h2 ⊢
    refine ⟨j, rfl, ?_, ?_⟩
    · apply Classical.byContradiction
      intro hc
      have := Co.mmr_lt_mmr (show j < id.idx * 2 ^ id.height by omega)
      omega
    · apply Classical.byContradiction
      intro hc
      rw [Nat.add_mul, Nat.one_mul] at hc
      have h3 := Co.mmr_le_mmr (show lastLeaf id + 1 ≤ j by omega)
      have h4 := Co.coord_lt_mmr_succ hvalid
      rw [hndef] at h3 h4
      omega
  have hreq : ∀ q, lastOf id + 2 - 2 ^ (id.height + 1) ≤ q → q ≤ lastOf id → height q = 0 →
      required (some b) (mmr N) q = false := by
    intro q h1 h2 hl
    rw [hlo] at h1
    obtain ⟨j, rfl, hj1, hj2⟩ := hleafco q h1 h2 hl
    exact hnotreq j hj1 hj2
  -- the position range is off file
  have hrange : ∀ p ∈ id.positions (mmr N), mmr (id.idx * 2 ^ id.height) ≤ p ∧ p ≤ lastOf id := by
    intro p hp
    rw [hpos] at hp
    unfold treeRange at hp
    rw [List.mem_range'_1, hlo] at hp
    omega
  have hoffh : ∀ p ∈ id.positions (mmr N), V.fromFile p = none := by
    intro p hp
    obtain ⟨h1, h2⟩ := hrange p hp
    have e1 : lastLeaf id + 1 - 2 ^ id.height = id.idx * 2 ^ id.height := by rw [hndef]; omega
    exact subtree_off_file pv id.height (lastLeaf id) hvalid hnlt hoff p (by rw [e1]; exact h1) h2
  have hoffd : ∀ p ∈ id.positions (mmr N), height p = 0 → V.dataFromFile p = none :=
    fun p hp hl => pv.data_compacted p (hlt p hp) hl (hoffh p hp)
  -- the search of `from_pmmr`
  have hkg : k - id.height = e + 1 + (D - e - 1) := by omega
  have hfirst : firstOnFile V (familyBranch (lastOf id) V.size)
      = some (anc (lastLeaf id) (id.height + e + 1), hAt hf f (anc (lastLeaf id) (id.height + e + 1))) := by
    rw [pv.size, full_familyBranch c, hkg]
    exact firstOnFile_branchCo V (lastLeaf id) _ e id.height _
      (fun i hi => hoffi (i + 1) (by omega)) hx
  -- the proof
  have hsibs : ∀ j, id.height + e + 1 ≤ j → j < k →
      V.hash (Co.cpos (Co.sibCo (lastLeaf id) j)) = some (hAt hf f (Co.cpos (Co.sibCo (lastLeaf id) j))) := by
    intro j hj1 hjk
    obtain ⟨d, rfl⟩ := Nat.exists_eq_add_of_le hj1
    have haj := branch_on_file pv c (id.height + e + 1) hyes d (by omega)
    have hsib := (branch_step pv c (id.height + e + 1 + d) hjk haj).2
    have hvs := Co.sibCo_valid (lastLeaf id) (id.height + e + 1 + d)
    have hlts : Co.cpos (Co.sibCo (lastLeaf id) (id.height + e + 1 + d)) < mmr N :=
      (Co.coord_lt_iff hvs).2 (c.sib_lt hjk)
    have hh : height (Co.cpos (Co.sibCo (lastLeaf id) (id.height + e + 1 + d))) ≠ 0 := by
      rw [show Co.cpos (Co.sibCo (lastLeaf id) (id.height + e + 1 + d)) =
        mmr (Co.sibCo (lastLeaf id) (id.height + e + 1 + d)).1
          + (Co.sibCo (lastLeaf id) (id.height + e + 1 + d)).2 from rfl,
        Co.height_co _ _ hvs, Co.sibCo_snd]
      omega
    rw [pv.hash_inner _ hlts hh]
    cases hy : V.fromFile (Co.cpos (Co.sibCo (lastLeaf id) (id.height + e + 1 + d))) with
    | none => exact absurd hy hsib
    | some y => rw [pv.file_genuine _ y hlts hy]
  obtain ⟨proof, r, hgen, hroot, hrec⟩ := parent_generate_reconstruct hf f N id V pv.size c
    (id.height + e + 1) (by omega) hmk hsibs (fun p hp => peak_file pv p hp)
    (fun p hp hlt' => left_peak_hash pv p _ hp hlt' (by omega))
  refine ⟨id.height + e + 1, proof, r, by omega, ?_, hx, ?_, ?_, hroot, ?_⟩
  · intro j hj1 hj2
    obtain ⟨i, rfl⟩ := Nat.exists_eq_add_of_le hj1
    exact hoffi i (by omega)
  · rw [full_familyBranch c]
    refine ⟨(anc (lastLeaf id) (id.height + e + 1), Co.cpos (Co.sibCo (lastLeaf id) (id.height + e))), ?_, rfl⟩
    simp only [Co.branchCo, List.mem_map, List.mem_range'_1]
    exact ⟨id.height + e, ⟨by omega, by omega⟩, rfl⟩
  · -- from_pmmr
    unfold fromPmmr
    rw [pv.size, if_neg hne0]
    exact fromPmmrWith_compacted hf V id _ _ _ hoffh hoffd _ _ (by rw [hr]; exact hfirst) proof
      (by rw [hr]; exact hgen)
  · -- root, first unpruned parent, validate
    have hrootS : (parentSeg id (anc (lastLeaf id) (id.height + e + 1))
        (hAt hf f (anc (lastLeaf id) (id.height + e + 1))) proof).root hf (mmr N) (some b) = .ok none := by
      rw [root_of_nonempty hf _ (mmr N) (some b) (by exact hne0)]
      show rootWith hf _ (mmr N) (some b) (id.positions (mmr N)) (id.full (mmr N)) (id.peaksIn (mmr N)) = _
      rw [hpos, hfull]
      exact rootWith_dead hf f _ b (mmr N) id.height (lastOf id) hhl rfl hreq _
    have hfup : (parentSeg id (anc (lastLeaf id) (id.height + e + 1))
        (hAt hf f (anc (lastLeaf id) (id.height + e + 1))) proof).firstUnprunedParent hf (mmr N) (some b)
        = .ok (hAt hf f (anc (lastLeaf id) (id.height + e + 1)), 1 + anc (lastLeaf id) (id.height + e + 1)) := by
      unfold Segment.firstUnprunedParent
      rw [hrootS]
      show fupLoop _ b (nLeaves (mmr N)) (id.posRange (mmr N)).2
        (familyBranch (id.posRange (mmr N)).2 (mmr N)) = _
      rw [hr, hnl]
      simp only
      rw [full_familyBranch c, hkg, hlast_anc]
      apply fupLoop_walk
      · intro i hi
        exact parentSeg_getHash_ne _ _ _ _ _
          (Nat.ne_of_gt (anc_strict (lastLeaf id) (show id.height + i < id.height + e + 1 by omega)))
      · exact parentSeg_getHash_self _ _ _ _
      · intro i hi
        exact rangeCard_co_zero b (Co.up_valid (lastLeaf id) (id.height + i + 1))
          (c.up_lt (by omega)) pv.small (hunL (id.height + i + 1) (by omega))
    obtain ⟨hv, hvw⟩ := validate_of_parts hf (parentSeg id (anc (lastLeaf id) (id.height + e + 1))
      (hAt hf f (anc (lastLeaf id) (id.height + e + 1))) proof) (mmr N) (some b) _ r _ [] hfup (by
        show reconstructRoot hf proof (mmr N) (id.posRange (mmr N)).1 (id.posRange (mmr N)).2 _ _ = _
        rw [hr]; exact hrec)
    exact ⟨hrootS, hfup, hv, hvw⟩


/-- the same without coordinates: what the honest segment of a completely compacted full segment
is — one hash, at the first position `a` of the family branch that is on file, no leaves -/
theorem compacted_full_shape [DecidableEq H] (pv : PrunedView hf f N b V) (id : Ident)
    (v : FullId id (mmr N)) (hg : 1 ≤ id.height) (hoff : V.fromFile (lastOf id) = none) :
    ∃ a s r, fromPmmr hf V id true = .ok s ∧ rootOf hf f N = some r ∧ s.id = id ∧
      s.hashPos = [a] ∧ s.hashes = [hAt hf f a] ∧ s.leafPos = [] ∧ s.leafData = [] ∧
      (∃ x ∈ familyBranch (lastOf id) (mmr N), x.1 = a) ∧
      (∀ x ∈ familyBranch (lastOf id) (mmr N), x.1 < a → V.fromFile x.1 = none) ∧
      V.fromFile a = some (hAt hf f a) ∧
      s.root hf (mmr N) (some b) = .ok none ∧
      s.firstUnprunedParent hf (mmr N) (some b) = .ok (hAt hf f a, 1 + a) ∧
      s.validate hf (mmr N) (some b) r = .ok () ∧
      ∀ hlp other left, s.validateWith hf (mmr N) (some b)
        (if left then hf.node hlp other r else hf.node hlp r other) hlp other left = .ok () := by
  obtain ⟨m, proof, r, hgm, hoffj, hx, hmem, hfrom, hroot, hrS, hfup, hv, hvw⟩ :=
    compacted_full_complete pv id v hg hoff
  refine ⟨anc (lastLeaf id) m, _, r, hfrom, hroot, rfl, rfl, rfl, rfl, rfl, hmem, ?_, hx, hrS, hfup, hv, hvw⟩
  obtain ⟨k, L, R, c⟩ := Co.exists_peakCtx (lastLeaf_lt id N v)
  rw [full_familyBranch c]
  intro x hxm hlt
  simp only [Co.branchCo, List.mem_map, List.mem_range'_1] at hxm
  obtain ⟨j, ⟨hj1, _⟩, rfl⟩ := hxm
  have hjm : j + 1 < m := by
    apply Classical.byContradiction
    intro hc
    have := anc_mono (lastLeaf id) (show m ≤ j + 1 by omega)
    have e : (Co.cpos (Co.up (lastLeaf id) (j + 1), j + 1), Co.cpos (Co.sibCo (lastLeaf id) j)).1
        = anc (lastLeaf id) (j + 1) := rfl
    rw [e] at hlt
    omega
  exact hoffj (j + 1) (by omega) hjm

/-- **every identifier of height ≥ 1 that intersects the MMR, in every prune state**: full segments
whose subtree root is on file, completely compacted full segments, the final segment -/
theorem complete_pruned_all (hf : HashFn α H) [DecidableEq H] (f : Nat → α) (N : Nat) (b : Nat → Bool)
    (V : View α H) (pv : PrunedView hf f N b V) (id : Ident) (fit : FitId id N) (hg : 1 ≤ id.height) :
    ∃ s r, fromPmmr hf V id true = .ok s ∧ rootOf hf f N = some r ∧ s.id = id ∧
      s.validate hf (mmr N) (some b) r = .ok () ∧
      ∀ hlp other left, s.validateWith hf (mmr N) (some b)
        (if left then hf.node hlp other r else hf.node hlp r other) hlp other left = .ok () := by
  by_cases hc : FullId id (mmr N) ∧ V.fromFile (lastOf id) = none
  · obtain ⟨m, proof, r, _, _, _, _, h1, h2, _, _, h5, h6⟩ := compacted_full_complete pv id hc.1 hg hc.2
    exact ⟨_, r, h1, h2, rfl, h5, h6⟩
  · exact complete_pruned hf f N b V pv id fit hg (fun hfull hoff => hc ⟨hfull, hoff⟩)

end Assembly

end GV.Seg
