import GrinVerif.Lemmas.PoolBlock
/-! Availability of inputs (`Avail`): every input of every pooled transaction is unspent at the
head or created by a pooled transaction.  What every outcome of `TransactionPool::add_to_pool`
does to the two pools (`Outcome`), which inputs an eviction can orphan, refusal of a transaction
with an input that exists nowhere, and the history invariant behind
`GV.Props.C14.admitted_inputs_available`. -/
namespace GV.Pool

theorem mem_allOuts {txs : List Tx} {o : Nat} : o ∈ allOuts txs ↔ ∃ t ∈ txs, o ∈ t.outs := by
  simp [allOuts, List.mem_flatMap]

theorem mem_allIns {txs : List Tx} {o : Nat} : o ∈ allIns txs ↔ ∃ t ∈ txs, o ∈ t.ins := by
  simp [allIns, List.mem_flatMap]

/-- the counting specification implies availability of every input -/
theorem avail_of_netOK {utxo : List Nat} {txs : List Tx} (h : NetOK utxo txs) : Avail utxo txs := by
  intro t ht i hi
  have hI : i ∈ allIns txs := mem_allIns.mpr ⟨t, ht, hi⟩
  have h1 := (h i).1
  have hp : 0 < (allIns txs).count i := List.count_pos_iff.mpr hI
  by_cases hm : i ∈ allOuts txs
  · exact Or.inr hm
  · left
    by_cases hu : i ∈ utxo
    · exact hu
    · have h0 : unspentCount utxo i = 0 := by simp [unspentCount, hu]
      have h2 := List.count_eq_zero.mpr hm
      omega

theorem avail_of_txpoolOK {c : Ctx} {p : Pool} (h : TxpoolOK c p) : Avail (utxoIds c) p.txs :=
  avail_of_netOK (netOK_of_txpoolOK h)

/-- the executable `orphans` (what the driver prints and compares with the real pool) decides `Avail` -/
theorem orphans_nil_iff (utxo : List Nat) (txs : List Tx) : orphans utxo txs = [] ↔ Avail utxo txs := by
  unfold orphans Avail
  simp only [List.flatMap_eq_nil_iff, List.map_eq_nil_iff, List.filter_eq_nil_iff]
  constructor
  · intro h t ht i hi
    have := h t ht i hi
    have hb : (utxo.contains i || (allOuts txs).contains i) = true := by
      cases hb : (utxo.contains i || (allOuts txs).contains i)
      · rw [hb] at this; simp at this
      · rfl
    rcases (Bool.or_eq_true _ _).mp hb with h1 | h1
    · exact Or.inl (List.contains_iff_mem.mp h1)
    · exact Or.inr (List.contains_iff_mem.mp h1)
  · intro h t ht i hi
    have hb : (utxo.contains i || (allOuts txs).contains i) = true := by
      rcases h t ht i hi with h1 | h1
      · simp [h1]
      · simp [h1]
    rw [hb]; simp

/-! ### outcomes of `add_to_pool` -/

theorem isAcceptable_over {c : Ctx} {s : TxPool} {t : Tx} {stem : Bool} (h : s.txpool.length > c.cfg.maxPool) :
    s.isAcceptable c t stem = some "OverCapacity" ∨ s.isAcceptable c t stem = some "LowFee" := by
  unfold TxPool.isAcceptable
  by_cases hf : t.shiftedFee < t.acceptFee c.cfg
  · right; simp [hf]
  · left; simp [hf, h]

/-- `all_transactions_aggregate` without any assumption on the pool -/
theorem allAggregate_ok {c : Ctx} {p : Pool} {extra x : Option Tx} (h : Pool.allAggregate c p extra = .ok x) :
    (p = [] ∧ x = extra) ∨ (∃ a, aggregate (p.txs ++ extra.toList) = .ok a ∧ x = some a) := by
  unfold Pool.allAggregate at h
  split at h
  · rename_i he
    left
    simp only [Except.ok.injEq] at h
    exact ⟨by simpa using he, h.symm⟩
  · split at h
    · simp at h
    · rename_i a ha
      split at h
      · simp at h
      · simp only [Except.ok.injEq] at h
        exact Or.inr ⟨a, ha, h.symm⟩

/-- unfolding the txpool aggregate used as `extra_tx`, without assuming anything about the txpool -/
theorem netOK_unfold_extra' {c : Ctx} {tp : Pool} {x : Option Tx} {l : List Tx}
    (hx : Pool.allAggregate c tp none = .ok x) (h : NetOK (utxoIds c) (l ++ x.toList)) :
    NetOK (utxoIds c) (l ++ tp.txs) := by
  rcases allAggregate_ok hx with ⟨h1, h2⟩ | ⟨a, h1, h2⟩
  · subst h1; subst h2; simpa using h
  · subst h2
    exact netOK_unfold_aggregate (by simpa using h1) (by simpa using h)

/-- What one call of `addCore` can do to txpool and stempool, from ANY state (no invariant
assumed): nothing; a validated stem entry; a validated txpool entry; a validated txpool entry
followed by an eviction (exactly when the txpool was over `max_pool_size`). -/
inductive Outcome (c : Ctx) (s : TxPool) (stem : Bool) (r : TxPool × Res) : Prop
  | refused (er : Err) (h : r = (s, some er))
  | stemmed (hs : stem = true) (hc : s.txpool.length ≤ c.cfg.maxPool) (h1 : r.1.txpool = s.txpool)
      (h2 : NetOK (utxoIds c) (r.1.stempool.txs ++ s.txpool.txs))
  | added (h0 : r.2 = none) (hc : s.txpool.length ≤ c.cfg.maxPool)
      (h1 : TxpoolOK c r.1.txpool) (h2 : NetOK (utxoIds c) (r.1.stempool.txs ++ r.1.txpool.txs))
  | evicted (p : Pool) (h0 : r.2 = none) (hs : stem = false) (hc : s.txpool.length > c.cfg.maxPool)
      (h1 : TxpoolOK c p) (h2 : r.1.txpool = p.evict c)
      (h3 : NetOK (utxoIds c) (r.1.stempool.txs ++ p.txs))

theorem addToReorgCache_txpool (c : Ctx) (s : TxPool) (e : Entry) : (s.addToReorgCache c e).txpool = s.txpool := rfl
theorem addToReorgCache_stempool (c : Ctx) (s : TxPool) (e : Entry) : (s.addToReorgCache c e).stempool = s.stempool := rfl

theorem addCore_outcome_fluff (c : Ctx) (s : TxPool) (src : Src) (tx : Tx) (stemOk : Bool) :
    Outcome c s false (s.addCore c src tx false stemOk) := by
  unfold TxPool.addCore
  split
  · exact .refused _ rfl
  split
  · exact .refused _ rfl
  rename_i entry hentry
  simp only []
  split
  · exact .refused _ rfl
  split
  · rename_i hacc
    cases hs : s.isAcceptable c entry.tx false with
    | none => rw [hs] at hacc; simp at hacc
    | some er => exact .refused er rfl
  rename_i hacc
  split
  · exact .refused _ rfl
  split
  · exact .refused _ rfl
  split
  · exact .refused _ rfl
  split
  · exact .refused _ rfl
  split
  · exact .refused _ rfl
  simp only [Bool.false_eq_true, if_false]
  rcases addToTxpool_cases c s entry with ⟨er, h⟩ | ⟨s2, h, h1, h2, h3, h4, h5⟩
  · rw [h]; exact .refused er rfl
  · rw [h]
    simp only []
    by_cases hcap : s.txpool.length ≤ c.cfg.maxPool
    · have hno : (!false && TxPool.isAcceptable c s entry.tx false == some "OverCapacity") = false := by
        have := isAcceptable_not_over (t := entry.tx) hcap
        simp only [Bool.not_false, Bool.true_and, beq_eq_false_iff_ne, ne_eq]
        exact this
      simp only [hno, Bool.false_eq_true, if_false]
      exact .added rfl hcap (by rw [addToReorgCache_txpool]; exact h2)
        (by rw [addToReorgCache_txpool, addToReorgCache_stempool]; exact h3)
    · have hov : s.txpool.length > c.cfg.maxPool := by omega
      have hyes : (!false && TxPool.isAcceptable c s entry.tx false == some "OverCapacity") = true := by
        rcases isAcceptable_over (t := entry.tx) (stem := false) hov with h | h
        · simp [h]
        · exfalso; apply hacc; simp [h]
      simp only [hyes, if_true]
      exact .evicted s2.txpool rfl rfl hov h2 rfl h3

theorem addCore_outcome_stem (c : Ctx) (s : TxPool) (src : Src) (tx : Tx) (stemOk : Bool) :
    Outcome c s true (s.addCore c src tx true stemOk) := by
  unfold TxPool.addCore
  split
  · exact .refused _ rfl
  split
  · exact .refused _ rfl
  rename_i entry hentry
  simp only []
  split
  · exact .refused _ rfl
  split
  · rename_i hacc
    cases hs : s.isAcceptable c entry.tx true with
    | none => rw [hs] at hacc; simp at hacc
    | some er => exact .refused er rfl
  rename_i hacc
  have hcap : s.txpool.length ≤ c.cfg.maxPool := by
    by_cases hov : s.txpool.length > c.cfg.maxPool
    · exfalso; apply hacc
      rcases isAcceptable_over (t := entry.tx) (stem := true) hov with h | h <;> simp [h]
    · omega
  split
  · exact .refused _ rfl
  split
  · exact .refused _ rfl
  split
  · exact .refused _ rfl
  rename_i extra hextra
  split
  · exact .refused _ rfl
  split
  · exact .refused _ rfl
  simp only [if_true] at hextra
  simp only [if_true, Bool.not_true, Bool.false_and, Bool.false_eq_true, if_false]
  cases hadd : Pool.addToPool c s.stempool entry extra with
  | error er => exact .refused er rfl
  | ok sp =>
    obtain ⟨_, hnet⟩ := netOK_of_add hadd
    have hst : NetOK (utxoIds c) (sp.txs ++ s.txpool.txs) := netOK_unfold_extra' hextra hnet
    cases stemOk with
    | true => exact .stemmed rfl hcap rfl hst
    | false =>
      simp only []
      rcases addToTxpool_cases c { txpool := s.txpool, stempool := sp, cache := s.cache } entry with
        ⟨er, h⟩ | ⟨s2, h, h1, h2, h3, h4, h5⟩
      · rw [h]; exact .stemmed rfl hcap rfl hst
      · rw [h]
        exact .added rfl hcap (by rw [addToReorgCache_txpool]; exact h2)
          (by rw [addToReorgCache_txpool, addToReorgCache_stempool]; exact h3)

/-- the outcomes of `TransactionPool::add_to_pool` (`stem'`: the path actually taken — a stem
transaction already in the stempool is fluffed) -/
theorem addToPool_outcome (c : Ctx) (s : TxPool) (src : Src) (tx : Tx) (stem stemOk : Bool) :
    ∃ stem', (stem = false → stem' = false) ∧ Outcome c s stem' (s.addToPool c src tx stem stemOk) := by
  unfold TxPool.addToPool
  split
  · exact ⟨false, fun _ => rfl, addCore_outcome_fluff c s src tx stemOk⟩
  · cases stem with
    | true => exact ⟨true, fun h => by simp at h, addCore_outcome_stem c s src tx stemOk⟩
    | false => exact ⟨false, fun _ => rfl, addCore_outcome_fluff c s src tx stemOk⟩

/-! ### which inputs an eviction can orphan -/

/-- `Pool::evict_transaction` on a pool whose inputs are all available: the only inputs left
without a source are outputs of the evicted transaction `E` — i.e. the transactions affected are
exactly the children of `E` that were in the pool when `E` was evicted. -/
theorem evict_orphans {c : Ctx} {utxo : List Nat} {p : Pool} (h : Avail utxo p.txs) :
    ∀ t ∈ (p.evict c).txs, t ∈ p.txs ∧ ∀ i ∈ t.ins, i ∈ utxo ∨ i ∈ allOuts (p.evict c).txs ∨
      ∃ E, p.evictee c = some E ∧ E ∉ (p.evict c).txs ∧ i ∈ E.outs := by
  intro t ht
  unfold Pool.evict at ht ⊢
  cases hE : p.evictee c with
  | none =>
    simp only [hE] at ht ⊢
    refine ⟨ht, fun i hi => ?_⟩
    rcases h t ht i hi with h1 | h1
    · exact Or.inl h1
    · exact Or.inr (Or.inl h1)
  | some E =>
    simp only [hE] at ht ⊢
    rw [txs_filter] at ht ⊢
    have htp : t ∈ p.txs := (List.mem_filter.mp ht).1
    refine ⟨htp, fun i hi => ?_⟩
    rcases h t htp i hi with h1 | h1
    · exact Or.inl h1
    · obtain ⟨t', ht', hi'⟩ := mem_allOuts.mp h1
      by_cases heq : t' = E
      · subst heq
        refine Or.inr (Or.inr ⟨t', rfl, ?_, hi'⟩)
        intro hm
        have := (List.mem_filter.mp hm).2
        simp at this
      · refine Or.inr (Or.inl (mem_allOuts.mpr ⟨t', ?_, hi'⟩))
        exact List.mem_filter.mpr ⟨ht', by simpa using heq⟩

/-! ### a transaction with an input that exists nowhere is refused -/

theorem mem_msub_of_not_mem {i : Nat} {l m : List Nat} (hi : i ∈ l) (hm : i ∉ m) : i ∈ msub l m := by
  have := count_msub i l m
  rw [List.count_eq_zero.mpr hm] at this
  have hp : 0 < l.count i := List.count_pos_iff.mpr hi
  exact List.count_pos_iff.mp (by omega)

/-- the outputs of an aggregate are outputs of its parts -/
theorem aggregate_outs_subset {txs : List Tx} {a : Tx} (h : aggregate txs = .ok a) :
    ∀ o ∈ a.outs, o ∈ allOuts txs := by
  intro o ho
  match txs, h with
  | [], h =>
    simp only [aggregate, Except.ok.injEq] at h
    subst h; simp [emptyTx] at ho
  | [t], h =>
    simp only [aggregate, Except.ok.injEq] at h
    subst h; simpa using ho
  | t1 :: t2 :: rest, h =>
    simp only [aggregate] at h
    split at h
    · simp at h
    · rename_i i o' hc
      simp only [Except.ok.injEq] at h
      subst h
      obtain ⟨_, ho', _, _⟩ := cutThrough_ok hc
      have hp : 0 < o'.count o := List.count_pos_iff.mpr ho
      have := ho' o
      exact List.count_pos_iff.mp (by omega)

/-- `locate_spends` fails when some input is neither unspent at the head nor an output of the
pool (with the extra transaction) -/
theorem locateSpends_missing {c : Ctx} {p : Pool} {t : Tx} {extra : Option Tx} {i : Nat}
    (hi : i ∈ t.ins) (hu : i ∉ utxoIds c) (hp : i ∉ allOuts (p.txs ++ extra.toList)) :
    ∃ er, p.locateSpends c t extra = .error er := by
  unfold Pool.locateSpends
  split
  · exact ⟨_, rfl⟩
  · rename_i agg hagg
    have hout : ∀ a, agg = some a → i ∉ a.outs := by
      intro a0 ha0
      rcases allAggregate_ok hagg with ⟨h1, h2⟩ | ⟨a, h1, h2⟩
      · subst h1; subst h2; subst ha0
        simpa using hp
      · subst h2
        simp only [Option.some.injEq] at ha0
        subst ha0
        exact fun hm => hp (aggregate_outs_subset h1 i hm)
    have key : ∀ outs : List Nat, i ∉ outs → ∀ su so, cutThrough t.ins outs = .ok (su, so) →
        su.all c.head.has = false := by
      intro outs hno su so hct
      have hmem : i ∈ su := by
        have hc := (cutThrough_ok hct).1 i
        rw [List.count_eq_zero.mpr hno] at hc
        have hp' : 0 < t.ins.count i := List.count_pos_iff.mpr hi
        exact List.count_pos_iff.mp (by omega)
      rw [Bool.eq_false_iff]
      intro hall
      rw [List.all_eq_true] at hall
      exact hu ((has_iff_mem c i).mp (hall i hmem))
    cases agg with
    | none =>
      simp only []
      split
      · exact ⟨_, rfl⟩
      · rename_i su so hct
        simp [key [] (by simp) su so hct]
    | some a =>
      simp only []
      split
      · exact ⟨_, rfl⟩
      · rename_i su so hct
        simp [key a.outs (hout a rfl) su so hct]

/-- the outputs of `all_transactions_aggregate` are outputs of the pool -/
theorem allAggregate_outs_subset {c : Ctx} {p : Pool} {x : Option Tx} (h : Pool.allAggregate c p none = .ok x) :
    ∀ o ∈ allOuts x.toList, o ∈ allOuts p.txs := by
  intro o ho
  rcases allAggregate_ok h with ⟨h1, h2⟩ | ⟨a, h1, h2⟩
  · subst h2; simp at ho
  · subst h2
    have := aggregate_outs_subset h1 o (by simpa using ho)
    simpa using this

/-- **a transaction with an input that exists nowhere is refused, the pool unchanged** — from any
state.  Fluff path: nowhere = not unspent at the head and not created in the txpool; stem path:
nor in the stempool.  This is what happens to a child of an evicted transaction submitted after
the eviction. -/
theorem addCore_refuses_missing_input {c : Ctx} {s : TxPool} (src : Src) (tx : Tx) (stem stemOk : Bool)
    (hmiss : ∀ e, entryOf s src tx stem = .ok e → ∃ i ∈ e.tx.ins, i ∉ utxoIds c ∧
      i ∉ allOuts s.txpool.txs ∧ (stem = true → i ∉ allOuts s.stempool.txs)) :
    ∃ er, s.addCore c src tx stem stemOk = (s, some er) := by
  unfold TxPool.addCore
  split
  · exact ⟨_, rfl⟩
  split
  · exact ⟨_, rfl⟩
  rename_i entry hentry
  simp only []
  split
  · exact ⟨_, rfl⟩
  split
  · rename_i hacc
    cases hs : s.isAcceptable c entry.tx stem with
    | none => rw [hs] at hacc; simp at hacc
    | some er => exact ⟨er, rfl⟩
  split
  · exact ⟨_, rfl⟩
  split
  · exact ⟨_, rfl⟩
  split
  · exact ⟨_, rfl⟩
  rename_i extra hextra
  split
  · exact ⟨_, rfl⟩
  · rename_i a spentUtxo hloc
    exfalso
    obtain ⟨i, hi, hu, htp, hsp⟩ := hmiss entry hentry
    cases stem with
    | false =>
      simp only [Bool.false_eq_true, if_false] at hloc hextra
      simp only [Except.ok.injEq] at hextra
      obtain ⟨er, he⟩ := locateSpends_missing (p := s.txpool) (extra := none) hi hu (by simpa using htp)
      rw [he] at hloc; simp at hloc
    | true =>
      simp only [if_true] at hloc hextra
      have hx : i ∉ allOuts (s.stempool.txs ++ extra.toList) := by
        rw [allOuts_append, List.mem_append]
        rintro (h | h)
        · exact hsp rfl h
        · exact htp (allAggregate_outs_subset hextra i h)
      obtain ⟨er, he⟩ := locateSpends_missing (p := s.stempool) (extra := extra) hi hu hx
      rw [he] at hloc; simp at hloc

/-! ### the history invariant -/

/-- every transaction of the list has all its inputs available, except possibly those in `old` -/
def AvailExc (utxo : List Nat) (txs old : List Tx) : Prop :=
  ∀ t ∈ txs, t ∈ old ∨ ∀ i ∈ t.ins, i ∈ utxo ∨ i ∈ allOuts txs

theorem availExc_of_avail {utxo : List Nat} {txs : List Tx} (old : List Tx) (h : Avail utxo txs) :
    AvailExc utxo txs old := fun t ht => Or.inr (h t ht)

theorem availExc_self (utxo : List Nat) (txs : List Tx) : AvailExc utxo txs txs := fun _ ht => Or.inl ht

theorem availExc_self_right (utxo : List Nat) (a b : List Tx) : AvailExc utxo b (a ++ b) :=
  fun _ ht => Or.inl (List.mem_append.mpr (Or.inr ht))

/-- Ghost state of the history invariant: the transactions that were in stempool ++ txpool right
after the most recent eviction (explicit, or by an admission while the txpool was over
`max_pool_size`) since the last block.  A block empties it: `reconcile_block` re-validates
everything. -/
def staleStep (cs : Ctx × TxPool) (old : List Tx) (op : Op) : List Tx :=
  match op with
  | .block _ _ _ _ => []
  | .evict => (step cs op).2.stempool.txs ++ (step cs op).2.txpool.txs
  | .submit src tx stem ok =>
    if cs.2.txpool.length > cs.1.cfg.maxPool ∧ (cs.2.addToPool cs.1 src tx stem ok).2 = none then
      (step cs op).2.stempool.txs ++ (step cs op).2.txpool.txs
    else old
  | _ => old

def staleRun : Ctx × TxPool → List Tx → List Op → List Tx
  | _, old, [] => old
  | cs, old, op :: ops => staleRun (step cs op) (staleStep cs old op) ops

/-- the two availability statements carried through a history -/
structure AvInv (cs : Ctx × TxPool) (old : List Tx) : Prop where
  valid : AllValid cs.1 cs.2
  tx : AvailExc (utxoIds cs.1) cs.2.txpool.txs old
  both : AvailExc (utxoIds cs.1) (cs.2.stempool.txs ++ cs.2.txpool.txs) old

theorem foldl_addToTxpool_avail (c : Ctx) (old : List Tx) (l : List Entry) (acc : TxPool)
    (h1 : AvailExc (utxoIds c) acc.txpool.txs old)
    (h2 : AvailExc (utxoIds c) (acc.stempool.txs ++ acc.txpool.txs) old) :
    AvailExc (utxoIds c) (l.foldl (fun acc e => (acc.addToTxpool c e).1) acc).txpool.txs old ∧
    AvailExc (utxoIds c) ((l.foldl (fun acc e => (acc.addToTxpool c e).1) acc).stempool.txs ++
      (l.foldl (fun acc e => (acc.addToTxpool c e).1) acc).txpool.txs) old := by
  induction l generalizing acc with
  | nil => exact ⟨h1, h2⟩
  | cons e rest ih =>
    simp only [List.foldl_cons]
    rcases addToTxpool_cases c acc e with ⟨er, h⟩ | ⟨s2, h, _, k2, k3, _, _⟩
    · rw [h]; exact ih acc h1 h2
    · rw [h]
      exact ih s2 (availExc_of_avail old (avail_of_txpoolOK k2)) (availExc_of_avail old (avail_of_netOK k3))

theorem step_avInv (cs : Ctx × TxPool) (old : List Tx) (op : Op) (h : AvInv cs old) :
    AvInv (step cs op) (staleStep cs old op) := by
  refine ⟨step_allValid cs op h.valid, ?_, ?_⟩
  all_goals
    cases op with
    | submit src tx stem ok =>
      obtain ⟨stem', _, hout⟩ := addToPool_outcome cs.1 cs.2 src tx stem ok
      simp only [step, staleStep]
      cases hout with
      | refused er he =>
        rw [he]
        simp only [reduceCtorEq, and_false, if_false]
        first | exact h.tx | exact h.both
      | stemmed hs _ h1 h2 =>
        split
        · first | exact availExc_self_right _ _ _ | exact availExc_self _ _
        · first
            | (rw [h1]; exact h.tx)
            | (rw [h1]; exact availExc_of_avail old (avail_of_netOK h2))
      | added h0 hc h1 h2 =>
        split
        · first | exact availExc_self_right _ _ _ | exact availExc_self _ _
        · first
            | exact availExc_of_avail old (avail_of_txpoolOK h1)
            | exact availExc_of_avail old (avail_of_netOK h2)
      | evicted p h0 hs hc h1 h2 h3 =>
        have : cs.2.txpool.length > cs.1.cfg.maxPool ∧ (cs.2.addToPool cs.1 src tx stem ok).2 = none := ⟨hc, h0⟩
        simp only [this, and_self, if_true]
        first | exact availExc_self_right _ _ _ | exact availExc_self _ _
    | block head ver ins kers =>
      have hInv := reconcileBlock_inv (c := { cs.1 with head := head, ver := ver }) ins kers
        (allValid_indep_head head ver h.valid)
      simp only [step, staleStep]
      first
        | exact availExc_of_avail [] (avail_of_txpoolOK hInv.txOK)
        | exact availExc_of_avail [] (avail_of_netOK hInv.stem)
    | reorgCache =>
      simp only [step, staleStep, TxPool.reconcileReorgCache]
      first
        | exact (foldl_addToTxpool_avail cs.1 old cs.2.cache cs.2 h.tx h.both).1
        | exact (foldl_addToTxpool_avail cs.1 old cs.2.cache cs.2 h.tx h.both).2
    | evict =>
      simp only [step, staleStep]
      first | exact availExc_self_right _ _ _ | exact availExc_self _ _
    | truncate n =>
      simp only [step, staleStep, TxPool.truncateCache]
      first | exact h.tx | exact h.both

theorem run_avInv (cs : Ctx × TxPool) (old : List Tx) (ops : List Op) (h : AvInv cs old) :
    AvInv (run cs ops) (staleRun cs old ops) := by
  induction ops generalizing cs old with
  | nil => exact h
  | cons op rest ih => exact ih (step cs op) (staleStep cs old op) (step_avInv cs old op h)

theorem avInv_empty (c : Ctx) : AvInv (c, {}) [] :=
  ⟨fun e he => by simp at he, fun t ht => by simp at ht, fun t ht => by simp at ht⟩

/-- without evictions nothing is ever stale -/
theorem staleRun_noEvict (cs : Ctx × TxPool) (ops : List Op) (hne : NoEvict cs ops) : staleRun cs [] ops = [] := by
  induction ops generalizing cs with
  | nil => rfl
  | cons op rest ih =>
    have h0 : staleStep cs [] op = [] := by
      cases op with
      | submit src tx stem ok =>
        have : ¬ (cs.2.txpool.length > cs.1.cfg.maxPool) := hne.1
        simp [staleStep, this]
      | evict => exact absurd trivial hne.1
      | _ => rfl
    simp only [staleRun, h0]
    exact ih (step cs op) hne.2

/-- the configuration never changes along a history -/
theorem run_cfg (cs : Ctx × TxPool) (ops : List Op) : (run cs ops).1.cfg = cs.1.cfg := by
  induction ops generalizing cs with
  | nil => rfl
  | cons op rest ih =>
    have : (step cs op).1.cfg = cs.1.cfg := by cases op <;> rfl
    simp only [run, List.foldl_cons] at ih ⊢
    rw [ih (step cs op), this]

end GV.Pool
