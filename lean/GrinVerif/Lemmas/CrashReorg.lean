import GrinVerif.Model.Crash
import GrinVerif.Lemmas.CrashBasic
import GrinVerif.Lemmas.CrashPath
import GrinVerif.Lemmas.CrashRecover
import GrinVerif.Lemmas.CrashSteps
import GrinVerif.Lemmas.CrashExt
import GrinVerif.Lemmas.CrashUnspent
import GrinVerif.Lemmas.CrashWindow
/-! A block that reorganises the chain: old path `F ++ x :: O1`, new path `F ++ y :: N1` (common
prefix `F`, first blocks after it differ). Closed form of the 18 crash states, and what the
fallback loop sees in the txhashset phase: above the fork point the truncated / re-extended output
files no longer match the old fork; at and below the fork point the leaf set decides. -/
namespace GV.Crash

/-- a block acceptance that reorganises the body chain from `F ++ x :: O1` onto `F ++ y :: N1` -/
structure BlockReorg (tbl F : List BlkInfo) (x : BlkInfo) (O1 : List BlkInfo) (y : BlkInfo)
    (N1 : List BlkInfo) (t : Target) : Prop where
  old : pathOf tbl (tbl.length + 1) (tipOf (F ++ x :: O1)) [] = some (F ++ x :: O1)
  new : pathOf tbl (tbl.length + 1) (tipOf (F ++ y :: N1)) [] = some (F ++ y :: N1)
  newPath : t.newPath = F ++ y :: N1
  forkLen : t.forkLen = F.length
  forkNe : F ≠ []
  diverge : x.id ≠ y.id
  mvHH : t.movesHHead = true
  mvH : t.movesHead = true

theorem BlockReorg.toHdrReorg {tbl F : List BlkInfo} {x : BlkInfo} {O1 : List BlkInfo} {y : BlkInfo}
    {N1 : List BlkInfo} {t : Target} (h : BlockReorg tbl F x O1 y N1 t) :
    HdrReorg tbl (F ++ x :: O1) (F ++ y :: N1) t := by
  refine ⟨h.old, h.new, h.newPath, by rw [h.forkLen]; simp, by rw [h.forkLen]; simp, ?_⟩
  rw [h.forkLen]
  simp only [List.map_append, List.map_cons]
  rw [List.getElem?_append_right (by simp), List.getElem?_append_right (by simp)]
  simp [h.diverge]

/-- no block of the new fork carries the id of the first block of the old fork -/
theorem BlockReorg.new_ids_ne {tbl F : List BlkInfo} {x : BlkInfo} {O1 : List BlkInfo} {y : BlkInfo}
    {N1 : List BlkInfo} {t : Target} (h : BlockReorg tbl F x O1 y N1 t) :
    ∀ z ∈ y :: N1, z.id ≠ x.id := by
  intro z hz heq
  obtain ⟨A, B, hAB⟩ := List.append_of_mem hz
  -- path of z.id read off the new path, path of x.id read off the old path
  have pz := pathOf_prefix tbl _ (F ++ A ++ [z]) (snoc_ne_nil _ _) B _
    (by rw [show F ++ A ++ [z] ++ B = F ++ y :: N1 by rw [hAB]; simp]; exact h.new)
  have px := pathOf_prefix tbl _ (F ++ [x]) (snoc_ne_nil _ _) O1 _
    (by rw [show F ++ [x] ++ O1 = F ++ x :: O1 by simp]; exact h.old)
  rw [tipOf_snoc] at pz px
  rw [heq] at pz
  have e := pathOf_det tbl _ _ _ _ _ pz px
  have hl := congrArg List.length e
  simp only [List.length_append, List.length_singleton] at hl
  have hA : A = [] := List.length_eq_zero_iff.mp (by omega)
  subst hA
  simp only [List.append_nil] at e
  have hzx : z = x := by
    have := List.append_inj' e rfl
    simpa using this.2
  have : y = z := by
    simp at hAB
    exact hAB.1
  exact h.diverge (by rw [this, hzx])

/-! ### closed form of the crash states -/

def reorgState (F : List BlkInfo) (O' N' : List BlkInfo) (k : Nat) : Durable :=
  let O := F ++ O'
  let N := F ++ N'
  { dbHead := if 17 ≤ k then tipOf N else tipOf O,
    dbHHead := if 6 ≤ k then tipOf N else tipOf O,
    hdrHash := if 3 ≤ k then N.map (·.id) else if 2 ≤ k then F.map (·.id) else O.map (·.id),
    hdrData := if 5 ≤ k then N.map (·.id) else if 4 ≤ k then F.map (·.id) else O.map (·.id),
    outHash := if 9 ≤ k then leavesOf N else if 8 ≤ k then leavesOf F else leavesOf O,
    outData := if 11 ≤ k then leavesOf N else if 10 ≤ k then leavesOf F else leavesOf O,
    leaf := if 12 ≤ k then unspentOf N else unspentOf O,
    kerHash := if 14 ≤ k then N.map (·.id) else if 13 ≤ k then F.map (·.id) else O.map (·.id),
    kerData := if 16 ≤ k then N.map (·.id) else if 15 ≤ k then F.map (·.id) else O.map (·.id) }

theorem crashAfter_reorg (t : Target) (F O' N' : List BlkInfo)
    (hN : t.newPath = F ++ N') (hF : t.forkLen = F.length)
    (h1 : t.movesHHead = true) (h2 : t.movesHead = true) (k : Nat) :
    crashAfter t (consistent (F ++ O')) blockSteps k = reorgState F O' N' k := by
  obtain ⟨np, fl, m1, m2⟩ := t
  simp only at hN hF h1 h2
  subst hN hF h1 h2
  have key : ∀ j, j ≤ 17 →
      crashAfter ⟨F ++ N', F.length, true, true⟩ (consistent (F ++ O')) blockSteps j = reorgState F O' N' j := by
    intro j hj
    have : j = 0 ∨ j = 1 ∨ j = 2 ∨ j = 3 ∨ j = 4 ∨ j = 5 ∨ j = 6 ∨ j = 7 ∨ j = 8 ∨ j = 9 ∨ j = 10 ∨
        j = 11 ∨ j = 12 ∨ j = 13 ∨ j = 14 ∨ j = 15 ∨ j = 16 ∨ j = 17 := by omega
    rcases this with h | h | h | h | h | h | h | h | h | h | h | h | h | h | h | h | h | h <;> subst h <;>
      simp [crashAfter, blockSteps, applyStep, consistent, reorgState, Target.tip, Target.forkPath,
        tipOf, leavesOf_append]
  by_cases hk : k ≤ 17
  · exact key k hk
  · rw [crashAfter_ge _ _ _ _ (by simp [blockSteps]; omega)]
    have : blockSteps.length = 17 := rfl
    rw [this, key 17 (Nat.le_refl _)]
    simp only [reorgState]
    have e : ∀ n, n ≤ 17 → (n ≤ k) = (n ≤ 17) := by intro n hn; simp [hn]; omega
    simp [e]

/-! ### above the fork point the output hash file does not match the old fork -/

theorem validAt_false_of_outHash (bc : Nat → Bool) (d : Durable) (readded : List Leaf) (P : List BlkInfo)
    (h : d.outHash.take (leavesOf P).length ≠ leavesOf P) : validAt bc d readded P = false := by
  unfold validAt
  have : (d.outHash.take (leavesOf P).length == leavesOf P) = false := by
    rw [Bool.eq_false_iff]; intro e; exact h (by simpa using e)
  simp [this]

/-- candidate `F ++ x :: Q1` on the old fork, against an output hash file that holds `leavesOf F`
only, or `leavesOf (F ++ N')` with no block of `N'` carrying `x`'s id -/
theorem outHash_mismatch (F : List BlkInfo) (x : BlkInfo) (Q1 N' : List BlkInfo) (hx : x.outs ≠ [])
    (hid : ∀ z ∈ N', z.id ≠ x.id) (f : List Leaf)
    (hf : f = leavesOf F ∨ f = leavesOf (F ++ N')) :
    f.take (leavesOf (F ++ x :: Q1)).length ≠ leavesOf (F ++ x :: Q1) := by
  obtain ⟨o, os, ho⟩ := List.exists_cons_of_ne_nil hx
  have hL : leavesOf (F ++ x :: Q1) = leavesOf F ++ ((x.id, o) :: (os.map (fun o => (x.id, o)) ++ leavesOf Q1)) := by
    rw [leavesOf_append]
    simp [leavesOf, ho]
  rcases hf with rfl | rfl
  · intro e
    have := congrArg List.length e
    rw [hL] at this
    simp at this
  · intro e
    rw [hL, leavesOf_append] at e
    rw [List.length_append, List.take_append, List.take_of_length_le (by omega)] at e
    have e2 := List.append_cancel_left e
    simp only [Nat.add_sub_cancel_left] at e2
    -- the first leaf of the right-hand side is created by x, so x's id occurs in N'
    have hmem : (x.id, o) ∈ leavesOf N' := by
      have : (x.id, o) ∈ List.take ((x.id, o) :: (os.map (fun o => (x.id, o)) ++ leavesOf Q1)).length (leavesOf N') := by
        rw [e2]; simp
      exact List.mem_of_mem_take this
    obtain ⟨z, hz, hzid, _⟩ := (mem_leavesOf N' _).1 hmem
    exact hid z hz hzid

/-! ### at and below the fork point the leaf set decides -/

/-- the leaves unspent on the old path that the leaf set on disk no longer has -/
def lostIn (O : List BlkInfo) (leaf : List Leaf) : List Leaf :=
  (unspentOf O).filter fun l => !leaf.contains l

theorem mem_lostIn (O : List BlkInfo) (leaf : List Leaf) (l : Leaf) :
    l ∈ lostIn O leaf ↔ l ∈ unspentOf O ∧ l ∉ leaf := by
  simp [lostIn]

/-- a durable state whose files cover every prefix of the fork path `F` and whose leaf set is sound
below the fork point: a leaf it has that was created on a prefix `Q` of `F` is unspent at `Q` -/
structure LeafWindow (F : List BlkInfo) (d : Durable) : Prop where
  files : ∀ Q S, Q ++ S = F → FilesCover Q d
  sound : ∀ Q S, Q ++ S = F → ∀ l ∈ d.leaf, l ∈ leavesOf Q → l ∈ unspentOf Q

theorem leafwin_valid (bc : Nat → Bool) (F O' : List BlkInfo) (d : Durable) (Q S : List BlkInfo)
    (hw : LeafWindow F d) (hQS : Q ++ S = F)
    (hn : (leavesOf (F ++ O')).Nodup) (hwf : BlocksWF (F ++ O'))
    (hnone : ∀ l ∈ lostIn (F ++ O') d.leaf, l ∉ leavesOf Q) :
    validAt bc d (undo Q (S ++ O')) Q = true := by
  have hQO : Q ++ (S ++ O') = F ++ O' := by rw [← List.append_assoc, hQS]
  apply validAt_true_of bc d _ Q (hw.files Q S hQS)
  intro l
  constructor
  · intro hl
    have hlQ := unspentOf_subset_leaves Q l hl
    refine ⟨hlQ, ?_⟩
    rcases (rewind_exact (S ++ O') Q (by rw [hQO]; exact hn) (by rw [hQO]; exact hwf) l hlQ).1 hl with h | h
    · left
      rw [hQO] at h
      apply Classical.byContradiction
      intro hnot
      exact hnone l ((mem_lostIn _ _ l).2 ⟨h, hnot⟩) hlQ
    · exact Or.inr h
  · rintro ⟨hlQ, h | h⟩
    · exact hw.sound Q S hQS l h hlQ
    · exact (rewind_exact (S ++ O') Q (by rw [hQO]; exact hn) (by rw [hQO]; exact hwf) l hlQ).2 (Or.inr h)

theorem leafwin_invalid (bc : Nat → Bool) (F O' : List BlkInfo) (d : Durable) (Q S : List BlkInfo)
    (hQS : Q ++ S = F)
    (hn : (leavesOf (F ++ O')).Nodup) (hwf : BlocksWF (F ++ O'))
    (hbc : bc (Q.length - 1) = true) (l : Leaf) (hl : l ∈ lostIn (F ++ O') d.leaf) (hlQ : l ∈ leavesOf Q) :
    validAt bc d (undo Q (S ++ O')) Q = false := by
  have hQO : Q ++ (S ++ O') = F ++ O' := by rw [← List.append_assoc, hQS]
  obtain ⟨hu, hnot⟩ := (mem_lostIn _ _ l).1 hl
  apply validAt_false_of bc d _ Q hbc l
  · apply (rewind_exact (S ++ O') Q (by rw [hQO]; exact hn) (by rw [hQO]; exact hwf) l hlQ).2
    left; rw [hQO]; exact hu
  · rintro (h | h)
    · exact hnot h
    · have := undo_not_unspent (S ++ O') Q (by rw [hQO]; exact hn) (by rw [hQO]; exact hwf) l h
      rw [hQO] at this
      exact this hu

/-- files of the reorg crash states cover every prefix of the fork path -/
theorem reorgState_files (F O' N' : List BlkInfo) (k : Nat) (Q S : List BlkInfo) (h : Q ++ S = F) :
    FilesCover Q (reorgState F O' N' k) := by
  subst h
  have a0 : leavesOf Q <+: leavesOf (Q ++ S) := leavesOf_prefix Q S
  have a1 : leavesOf Q <+: leavesOf (Q ++ S ++ O') := by rw [List.append_assoc]; exact leavesOf_prefix Q _
  have a2 : leavesOf Q <+: leavesOf (Q ++ S ++ N') := by rw [List.append_assoc]; exact leavesOf_prefix Q _
  have b0 : Q.map (·.id) <+: (Q ++ S).map (·.id) := map_prefix_of_append _ Q S
  have b1 : Q.map (·.id) <+: (Q ++ S ++ O').map (·.id) := by
    rw [List.append_assoc]; exact map_prefix_of_append _ Q _
  have b2 : Q.map (·.id) <+: (Q ++ S ++ N').map (·.id) := by
    rw [List.append_assoc]; exact map_prefix_of_append _ Q _
  constructor <;> simp only [reorgState] <;> split <;> (try split) <;> assumption

/-- the leaf set of the new path is sound below the fork point -/
theorem unspent_new_sound (F N' : List BlkInfo) (hn : (leavesOf (F ++ N')).Nodup) (Q S : List BlkInfo)
    (hQS : Q ++ S = F) (l : Leaf) (hl : l ∈ unspentOf (F ++ N')) (hlQ : l ∈ leavesOf Q) :
    l ∈ unspentOf Q := by
  apply Classical.byContradiction
  intro hnot
  have hQN : Q ++ (S ++ N') = F ++ N' := by rw [← List.append_assoc, hQS]
  have := not_unspent_later Q (S ++ N') (by rw [hQN]; exact hn) l hlQ hnot
  rw [hQN] at this
  exact this hl

/-- with the old leaf set still on disk, the fork point validates (rewinding with the spent index of
the old fork is exact) -/
theorem fork_valid_old_leaf (bc : Nat → Bool) (F O' : List BlkInfo) (d : Durable)
    (hfiles : FilesCover F d) (hleaf : d.leaf = unspentOf (F ++ O'))
    (hn : (leavesOf (F ++ O')).Nodup) (hwf : BlocksWF (F ++ O')) :
    validAt bc d (undo F O') F = true := by
  apply validAt_true_of bc d _ F hfiles
  intro l
  rw [hleaf]
  constructor
  · intro hl
    have hlF := unspentOf_subset_leaves F l hl
    exact ⟨hlF, (rewind_exact O' F hn hwf l hlF).1 hl⟩
  · rintro ⟨hlF, h⟩
    exact (rewind_exact O' F hn hwf l hlF).2 h

end GV.Crash
