import GrinVerif.Lemmas.NrdPath
/-! Histories of index calls simulate the specification; what the representation says about the
records (pointers, `prev` walk). -/
namespace GV.Nrd
variable {ε : Type} [DecidableEq ε]

theorem step_sim {kv : KV ε} {S : Spec ε} (h : Sim kv S) (op : Op ε) :
    (step kv op).2 = (sstep S op).2 ∧ Sim (step kv op).1 (sstep S op).1 := by
  cases op with
  | push e p =>
    obtain ⟨kv', h1, h2⟩ := pushPos_sim h e p
    simp only [step, sstep, h1]; exact ⟨trivial, h2⟩
  | pop e =>
    obtain ⟨kv', h1, h2⟩ := popPos_sim h e
    simp only [step, sstep, h1]; exact ⟨trivial, h2⟩
  | popBack e =>
    obtain ⟨kv', h1, h2⟩ := popPosBack_sim h e
    simp only [step, sstep, h1]; exact ⟨trivial, h2⟩
  | rewind e r =>
    obtain ⟨kv', h1, h2⟩ := rewind_sim h e r
    simp only [step, sstep, h1]; exact ⟨rfl, h2⟩
  | pruneBack e c =>
    obtain ⟨kv', h1, h2⟩ := pruneBack_sim h e c
    simp only [step, sstep, h1]; exact ⟨rfl, h2⟩
  | prune e c => exact ⟨rfl, h⟩
  | clear => exact ⟨rfl, sim_empty⟩
  | applyBlock b =>
    obtain ⟨kv', h1, h2⟩ := applyBlock_sim b h
    simp only [step, sstep, h1, keepIfOk, sKeepIfOk]
    cases hr : (sApplyBlock S b).res with
    | ok u => exact ⟨trivial, h2⟩
    | error err => exact ⟨trivial, h⟩
  | rewindBlock b =>
    obtain ⟨kv', h1, h2⟩ := rewindSingleBlock_sim b h
    simp only [step, sstep, h1]; exact ⟨rfl, h2⟩
  | rebuild bs =>
    obtain ⟨kv', h1, h2⟩ := verifyKernelPosIndex_sim kv bs
    simp only [step, sstep, h1]; exact ⟨trivial, h2⟩

theorem run_sim {kv : KV ε} {S : Spec ε} (h : Sim kv S) (ops : List (Op ε)) :
    (run kv ops).2 = (srun S ops).2 ∧ Sim (run kv ops).1 (srun S ops).1 := by
  induction ops generalizing kv S with
  | nil => exact ⟨rfl, h⟩
  | cons op ops ih =>
    obtain ⟨h1, h2⟩ := step_sim h op
    obtain ⟨g1, g2⟩ := ih h2
    simp only [run, srun]
    exact ⟨by rw [h1, g1], g2⟩

/-! ### what `Repr` says about the records -/

theorem walkBackFrom_seg (kv : KV ε) (e : ε) (n : Nat) (l : List CommitPos) (hn : l.length = n)
    (z : CommitPos) (nx : Option Nat) (fuel : Nat) (hs : Seg kv e none (l ++ [z]) nx)
    (hnx : l = [] → nx ≠ none) (hf : l.length < fuel) :
    walkBackFrom kv e fuel z.pos = z :: l.reverse := by
  induction n generalizing l z nx fuel with
  | zero =>
    have : l = [] := List.eq_nil_of_length_eq_zero hn
    subst this
    cases fuel with
    | zero => simp at hf
    | succ f =>
      cases nx with
      | none => exact absurd rfl (hnx rfl)
      | some v =>
        simp only [List.nil_append, Seg, Cell] at hs
        simp [walkBackFrom, hs]
  | succ n ih =>
    rcases eq_nil_or_snoc l with rfl | ⟨l', y, rfl⟩
    · simp at hn
    · cases fuel with
      | zero => simp at hf
      | succ f =>
        rw [Seg.snoc, lastOr_snoc] at hs
        have hlen : l'.length = n := by simpa using hn
        have hrec := ih l' hlen y (some z.pos) f hs.1 (fun _ => by simp) (by simp at hf; omega)
        have hc := hs.2
        cases nx with
        | none => simp only [Cell] at hc; simp [walkBackFrom, hc, hrec]
        | some v => simp only [Cell] at hc; simp [walkBackFrom, hc, hrec]

/-- following the `prev` pointers from the tail pointer reads the list backwards -/
theorem absBack_repr {kv : KV ε} {e : ε} {l : List CommitPos} (h : Repr kv e l) (fuel : Nat)
    (hf : l.length ≤ fuel) : absBack kv e fuel = l.reverse := by
  obtain ⟨hd, hw, hs⟩ := h
  match l, hd, hw, hs, hf with
  | [], _, hw, _, _ => simp [absBack, hw, wrapperOf]
  | [p], _, hw, _, _ => simp [absBack, hw, wrapperOf]
  | p :: q :: r, hd, hw, hs, hf =>
    rcases eq_nil_or_snoc (q :: r) with h0 | ⟨t, z, hz⟩
    · cases h0
    · rw [hz] at hw hs hf ⊢
      rw [wrapperOf_cons_snoc] at hw
      rw [← List.cons_append] at hs ⊢
      simp only [absBack, hw]
      rw [walkBackFrom_seg kv e (p :: t).length (p :: t) rfl z none fuel hs (by simp)
        (by simp at hf ⊢; omega)]
      simp

/-- `Multi` head / tail pointers name existing `Head` / `Tail` records of the first / last element -/
theorem Repr.multi_pointers {kv : KV ε} {e : ε} {l : List CommitPos} (h : Repr kv e l) {hd tl : Nat}
    (hm : kv.getList e = some (.multi hd tl)) :
    ∃ p q n v, l.head? = some p ∧ l.getLast? = some q ∧ p.pos = hd ∧ q.pos = tl ∧ 2 ≤ l.length ∧
      kv.getEntry e hd = some (.head p n) ∧ kv.getEntry e tl = some (.tail q v) := by
  obtain ⟨_, hw, hs⟩ := h
  match l, hw, hs with
  | [], hw, _ => rw [hw] at hm; simp [wrapperOf] at hm
  | [p], hw, _ => rw [hw] at hm; simp [wrapperOf] at hm
  | p :: q :: r, hw, hs =>
    rcases eq_nil_or_snoc (q :: r) with h0 | ⟨t, z, hz⟩
    · cases h0
    · have hc : kv.getEntry e p.pos = some (.head p q.pos) := hs.1
      rw [hz] at hw hs ⊢
      rw [wrapperOf_cons_snoc, hm] at hw
      injection hw with hw; injection hw with h1 h2
      rw [← List.cons_append, Seg.snoc] at hs
      obtain ⟨w, hw'⟩ := lastOr_cons_some p t none
      have hcz := hs.2
      rw [hw'] at hcz
      simp only [Cell] at hcz
      refine ⟨p, z, q.pos, w, by simp, ?_, h1.symm, h2.symm, by simp, h1 ▸ hc, h2 ▸ hcz⟩
      rw [← List.cons_append, List.getLast?_append]; simp

/-- `Single` iff exactly one element; no record iff empty -/
theorem Repr.single_iff {kv : KV ε} {e : ε} {l : List CommitPos} (h : Repr kv e l) (p : CommitPos) :
    kv.getList e = some (.single p) ↔ l = [p] := by
  obtain ⟨_, hw, _⟩ := h
  match l, hw with
  | [], hw => simp [hw, wrapperOf]
  | [q], hw => simp [hw, wrapperOf]
  | q :: s :: r, hw => simp [hw, wrapperOf]

theorem Repr.none_iff {kv : KV ε} {e : ε} {l : List CommitPos} (h : Repr kv e l) :
    kv.getList e = none ↔ l = [] := by
  obtain ⟨_, hw, _⟩ := h
  match l, hw with
  | [], hw => simp [hw, wrapperOf]
  | [q], hw => simp [hw, wrapperOf]
  | q :: s :: r, hw => simp [hw, wrapperOf]

/-- neighbouring elements point at each other -/
theorem Repr.neighbours {kv : KV ε} {e : ε} {l1 l2 : List CommitPos} {a b : CommitPos}
    (h : Repr kv e (l1 ++ a :: b :: l2)) :
    (∃ en, kv.getEntry e a.pos = some en ∧ en.getPos = a ∧
        ((∃ n, en = .head a n ∧ n = b.pos) ∨ (∃ n v, en = .middle a n v ∧ n = b.pos))) ∧
    (∃ en, kv.getEntry e b.pos = some en ∧ en.getPos = b ∧
        ((∃ v, en = .tail b v ∧ v = a.pos) ∨ (∃ n v, en = .middle b n v ∧ v = a.pos))) := by
  obtain ⟨_, _, hs⟩ := h
  -- generalise the predecessor so that the induction over `l1` goes through
  have key : ∀ (l1 : List CommitPos) (pv : Option Nat), Seg kv e pv (l1 ++ a :: b :: l2) none →
      Cell kv e (lastOr l1 pv) a (some b.pos) ∧
      Cell kv e (some a.pos) b (match l2 with | [] => none | c :: _ => some c.pos) := by
    intro l1
    induction l1 with
    | nil =>
      intro pv hs
      cases l2 with
      | nil => exact ⟨hs.1, hs.2⟩
      | cons c l2 => exact ⟨hs.1, hs.2.1⟩
    | cons x l1 ih =>
      intro pv hs
      rw [lastOr_cons]
      cases l1 with
      | nil => exact ih (some x.pos) hs.2
      | cons y l1 => exact ih (some x.pos) hs.2
  obtain ⟨ca, cb⟩ := key l1 none hs
  constructor
  · cases hl : lastOr l1 none with
    | none => rw [hl] at ca; simp only [Cell] at ca; exact ⟨_, ca, rfl, Or.inl ⟨_, rfl, rfl⟩⟩
    | some v => rw [hl] at ca; simp only [Cell] at ca; exact ⟨_, ca, rfl, Or.inr ⟨_, _, rfl, rfl⟩⟩
  · cases l2 with
    | nil => simp only [Cell] at cb; exact ⟨_, cb, rfl, Or.inl ⟨_, rfl, rfl⟩⟩
    | cons c l2 => simp only [Cell] at cb; exact ⟨_, cb, rfl, Or.inr ⟨_, _, rfl, rfl⟩⟩

end GV.Nrd
