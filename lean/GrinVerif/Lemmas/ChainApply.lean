import GrinVerif.Model.Chain
namespace GV.Chain

theorem stateChecks_none (p : Params) (s : UState) (b : Blk) (h : stateChecks p s b = none) :
    b.ins.all s.has = true ∧ immature p s b = false ∧ dupOutput s b = false ∧ nrdBad s b = false := by
  unfold stateChecks at h
  split at h
  · simp at h
  · split at h
    · simp at h
    · split at h
      · simp at h
      · split at h
        · simp at h
        · split at h
          · simp at h
          · simp_all

theorem validateBody_none (p : Params) (outs : List OutDef) (b : Blk) (iv : Nat)
    (h : validateBody p outs b iv = none) :
    cutThroughViolation b = false ∧ lockViolation b = false ∧ nrdEraViolation b = false ∧
    coinbaseMismatch p outs b = false ∧ valueMismatch p outs b iv = false := by
  unfold validateBody at h
  split at h
  · simp at h
  · split at h
    · simp at h
    · split at h
      · simp at h
      · split at h
        · simp at h
        · split at h
          · simp at h
          · split at h
            · simp at h
            · split at h
              · simp at h
              · simp_all

/-- a body that validates has no commitment twice among its inputs nor among its outputs -/
theorem validateBody_none_nodup (p : Params) (outs : List OutDef) (b : Blk) (iv : Nat)
    (h : validateBody p outs b iv = none) : b.ins.Nodup ∧ (b.outs.map (·.1)).Nodup := by
  unfold validateBody at h
  split at h
  · simp at h
  · split at h
    · simp at h
    · rename_i hd
      unfold dupInBody at hd
      simp only [Bool.or_eq_true, Bool.not_eq_true', decide_eq_false_iff_not, not_or, Decidable.not_not] at hd
      exact hd

/-- what a successful `applyBlock` establishes and produces -/
theorem applyBlock_ok (p : Params) (s s' : UState) (b : Blk) (h : applyBlock p s b = .ok s') :
    (∀ i ∈ b.ins, s.has i = true) ∧
    (∀ o ∈ b.outs, s.has o.1 = false) ∧
    immature p s b = false ∧ nrdBad s b = false ∧
    s' = effects s b := by
  unfold applyBlock at h
  split at h
  · simp at h
  · rename_i hn
    injection h with h
    obtain ⟨h1, h2, h3, h4⟩ := stateChecks_none p s b hn
    refine ⟨?_, ?_, h2, h4, h.symm⟩
    · intro i hi
      exact (List.all_eq_true.mp h1) i hi
    · intro o ho
      cases hs : s.has o.1 with
      | false => rfl
      | true =>
        have : dupOutput s b = true := List.any_eq_true.mpr ⟨o, ho, hs⟩
        simp [this] at h3

/-- coinbase maturity, spelled out: every coinbase output spent by an accepted block was created
at least `maturity` blocks below it on the block's own path -/
theorem applyBlock_maturity (p : Params) (s s' : UState) (b : Blk) (h : applyBlock p s b = .ok s')
    (i c : Nat) (hi : i ∈ b.ins) (hc : s.find i = some (i, c, true)) : c + p.maturity ≤ b.h := by
  have him := (applyBlock_ok p s s' b h).2.2.1
  by_cases hlt : b.h < c + p.maturity
  · have : immature p s b = true := by
      unfold immature
      exact List.any_eq_true.mpr ⟨i, hi, by simp [hc, hlt]⟩
    rw [this] at him
    cases him
  · omega


/-- what a successful `checkBlock` consists of -/
theorem checkBlock_ok (p : Params) (n : Node) (b : Blk) (par : Nat) (s' : UState)
    (h : checkBlock p n b par = .ok s') :
    ∃ sPar, n.stateAt p par = .ok sPar ∧
      validateBody p n.outs b (sumVals n.outs b.ins) = none ∧ applyBlock p sPar b = .ok s' := by
  unfold checkBlock at h
  split at h
  · cases h
  · rename_i sPar hst
    split at h
    · cases h
    · rename_i hvb
      exact ⟨sPar, hst, hvb, h⟩

end GV.Chain
