import GrinVerif.Lemmas.PmmrArith
/-! Position arithmetic needed by the prune-list shift theorems (C08): every position `p`
has room for its own subtree to its left, `2·2^(height p) ≤ p + 2`.  Core Lean only.
(The coordinate theorem is re-derived here from `greedy_spec` so that this file depends only on
`Lemmas/PmmrArith`.) -/
namespace GV.Store
open GV GV.Pmmr

theorem pmh_coord (n h : Nat) (hh : h ≤ trailingOnes n) : peakMapHeight (mmr n + h) = (n, h) := by
  unfold peakMapHeight
  by_cases hz : mmr n + h = 0
  · have hn : n = 0 := by have := le_mmr n; omega
    subst hn
    have : h = 0 := by simpa [mmr, popcount] using hz
    subst this
    simp [mmr, popcount]
  · rw [if_neg hz]
    have hlt : n < 2^(bitLen (mmr n + h)) := by
      have := lt_two_pow_bitLen (mmr n + h)
      have := le_mmr n
      omega
    have := greedy_spec (bitLen (mmr n + h)) n 0 h hlt (by simpa using hh)
    simpa using this

theorem coord_exists (pos : Nat) : ∃ n h, h ≤ trailingOnes n ∧ pos = mmr n + h := by
  induction pos with
  | zero => exact ⟨0, 0, by simp [trailingOnes], by simp [mmr, popcount]⟩
  | succ p ih =>
    obtain ⟨n, h, hh, hp⟩ := ih
    by_cases hlt : h < trailingOnes n
    · exact ⟨n, h+1, by omega, by omega⟩
    · refine ⟨n+1, 0, by omega, ?_⟩
      rw [mmr_succ]; omega

theorem mmr_mono {a b : Nat} (h : a ≤ b) : mmr a ≤ mmr b := by
  induction b with
  | zero => have : a = 0 := by omega
            subst this; exact Nat.le_refl _
  | succ b ih =>
    by_cases hab : a = b + 1
    · subst hab; exact Nat.le_refl _
    · have := ih (by omega)
      rw [mmr_succ]; omega

theorem trailingOnes_ge_imp (h : Nat) : ∀ n, h ≤ trailingOnes n → 2^h ≤ n + 1 := by
  induction h with
  | zero => intro n _; simp
  | succ h ih =>
    intro n hn
    cases n with
    | zero => simp [trailingOnes] at hn
    | succ m =>
      rw [trailingOnes] at hn
      split at hn
      · rename_i hodd
        have := ih ((m+1)/2) (by omega)
        have hp : 2^(h+1) = 2 * 2^h := by rw [Nat.pow_succ]; omega
        omega
      · omega

theorem popcount_two_mul_add_one (m : Nat) : popcount (2*m+1) = 1 + popcount m := by
  rw [popcount]
  have h1 : (2*m+1) % 2 = 1 := by omega
  have h2 : (2*m+1) / 2 = m := by omega
  rw [h1, h2]

theorem popcount_pow_pred (h : Nat) : popcount (2^h - 1) = h := by
  induction h with
  | zero => simp [popcount]
  | succ h ih =>
    have hp : 2^(h+1) = 2 * 2^h := by rw [Nat.pow_succ]; omega
    have hpos : 0 < 2^h := Nat.pow_pos (by omega)
    have : 2^(h+1) - 1 = 2*(2^h - 1) + 1 := by omega
    rw [this, popcount_two_mul_add_one, ih]; omega

/-- every node has its whole subtree to its left: `2·2^(height p) ≤ p + 2` -/
theorem height_bound (p : Nat) : 2 * 2^(height p) ≤ p + 2 := by
  obtain ⟨n, h, hh, rfl⟩ := coord_exists p
  have hc : height (mmr n + h) = h := by simp [height, pmh_coord n h hh]
  rw [hc]
  have h1 := trailingOnes_ge_imp h n hh
  have hpos : 0 < 2^h := Nat.pow_pos (by omega)
  have h2 : mmr (2^h - 1) ≤ mmr n := mmr_mono (by omega)
  have h3 : mmr (2^h - 1) = 2 * (2^h - 1) - h := by unfold mmr; rw [popcount_pow_pred]
  have h4 : h ≤ 2^h - 1 := by
    have := popcount_le (2^h - 1); rw [popcount_pow_pred] at this; exact this
  omega

/-- the strict interior of the subtree of `p` has exactly `2·(2^h − 1)` positions -/
theorem interior_width (p : Nat) : p - bintreeLeftmost p = 2 * (2^(height p) - 1) := by
  have := height_bound p
  have hpos : 0 < 2^(height p) := Nat.pow_pos (by omega)
  unfold bintreeLeftmost; omega

end GV.Store
