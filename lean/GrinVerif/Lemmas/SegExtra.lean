import GrinVerif.Lemmas.SegInj
/-! Redundant data is not rejected: proof hashes after the ones `reconstruct_root` consumes are
ignored (the iterator is never checked for exhaustion); every leaf the loop of `root` requires is
taken from the segment's own leaf list.  Core Lean only. -/
namespace GV.Seg
open GV GV.Pmmr

variable {α H : Type}

theorem climb_extra (hf : HashFn α H) (extra : List H) : ∀ (br : List (Nat × Nat)) (root : H)
    (it : List H) (r : H) (rest : List H), climb hf root it br = .ok (r, rest) →
    climb hf root (it ++ extra) br = .ok (r, rest ++ extra) := by
  intro br
  induction br with
  | nil =>
    intro root it r rest h
    simp only [climb, Res.ok.injEq, Prod.mk.injEq] at h ⊢
    exact ⟨h.1, by rw [h.2]⟩
  | cons x br ih =>
    intro root it r rest h
    obtain ⟨p0, s0⟩ := x
    cases it with
    | nil => simp [climb] at h
    | cons a t =>
      simp only [climb, List.cons_append] at h ⊢
      exact ih _ _ _ _ h

theorem bagLeft_extra (hf : HashFn α H) (lastPos : Nat) (extra : List H) : ∀ (ps : List Nat) (root : H)
    (it : List H) (r : H) (rest : List H), bagLeft hf lastPos root it ps = .ok (r, rest) →
    bagLeft hf lastPos root (it ++ extra) ps = .ok (r, rest ++ extra) := by
  intro ps
  induction ps with
  | nil =>
    intro root it r rest h
    simp only [bagLeft, Res.ok.injEq, Prod.mk.injEq] at h ⊢
    exact ⟨h.1, by rw [h.2]⟩
  | cons p ps ih =>
    intro root it r rest h
    cases it with
    | nil => simp [bagLeft] at h
    | cons a t =>
      simp only [bagLeft, List.cons_append] at h ⊢
      exact ih _ _ _ _ h

/-- `reconstruct_root` ignores whatever follows the hashes it consumes -/
theorem reconstructRoot_extra (hf : HashFn α H) (proof extra : List H) (lastPos first0 last0 : Nat)
    (segRoot : H) (upos : Nat) (r : H) (rest : List H)
    (h : reconstructRoot hf proof lastPos first0 last0 segRoot upos = .ok (r, rest)) :
    reconstructRoot hf (proof ++ extra) lastPos first0 last0 segRoot upos = .ok (r, rest ++ extra) := by
  unfold reconstructRoot at h ⊢
  cases hc : climb hf segRoot proof (branchFrom last0 lastPos upos) with
  | err e => simp only [hc] at h; cases h
  | panic => simp only [hc] at h; cases h
  | ok x =>
    obtain ⟨c, it⟩ := x
    simp only [hc] at h
    simp only [climb_extra hf extra _ _ _ _ _ hc]
    cases hrhs : ((peaks lastPos).filter (· > branchPeak last0 lastPos)).head? with
    | none =>
      simp only [hrhs] at h ⊢
      exact bagLeft_extra hf lastPos extra _ _ _ _ _ h
    | some q =>
      simp only [hrhs] at h ⊢
      cases it with
      | nil => simp at h
      | cons a t =>
        simp only [List.cons_append] at h ⊢
        exact bagLeft_extra hf lastPos extra _ _ _ _ _ h

theorem validateAt_extra (hf : HashFn α H) [DecidableEq H] (proof extra : List H) (size : Nat)
    (mmrRoot : H) (first last : Nat) (fup : Res (H × Nat))
    (h : validateAt hf proof size mmrRoot first last fup = .ok ()) :
    validateAt hf (proof ++ extra) size mmrRoot first last fup = .ok () := by
  unfold validateAt at h ⊢
  cases fup with
  | err e => cases h
  | panic => cases h
  | ok x =>
    obtain ⟨v, u⟩ := x
    simp only at h ⊢
    obtain ⟨rest, hr⟩ := proofValidate_ok hf _ _ _ _ _ _ _ h
    unfold proofValidate
    simp only [reconstructRoot_extra hf proof extra _ _ _ _ _ _ _ hr, if_true]

/-! ### the segment without its proof -/

theorem getHash_congr (s s' : Segment α H) (h1 : s.hashPos = s'.hashPos) (h2 : s.hashes = s'.hashes)
    (q : Nat) : s.getHash q = s'.getHash q := by
  unfold Segment.getHash; rw [h1, h2]

theorem rootStep_congr (hf : HashFn α H) (s s' : Segment α H) (h1 : s.hashPos = s'.hashPos)
    (h2 : s.hashes = s'.hashes) (bm : Option (Nat → Bool)) (size : Nat) (st : RootSt α H) (p : Nat) :
    rootStep hf s bm size st p = rootStep hf s' bm size st p := by
  simp only [rootStep, getHash_congr s s' h1 h2]

theorem rootLoop_congr (hf : HashFn α H) (s s' : Segment α H) (h1 : s.hashPos = s'.hashPos)
    (h2 : s.hashes = s'.hashes) (bm : Option (Nat → Bool)) (size : Nat) :
    ∀ (ps : List Nat) (st : RootSt α H), rootLoop hf s bm size st ps = rootLoop hf s' bm size st ps := by
  intro ps
  induction ps with
  | nil => intro st; rfl
  | cons p ps ih =>
    intro st
    simp only [rootLoop, rootStep_congr hf s s' h1 h2]
    cases rootStep hf s' bm size st p with
    | ok m => exact ih m
    | err e => rfl
    | panic => rfl

theorem bagPeaks_congr (hf : HashFn α H) (s s' : Segment α H) (h1 : s.hashPos = s'.hashPos)
    (h2 : s.hashes = s'.hashes) (bm : Option (Nat → Bool)) (size : Nat) :
    ∀ (pks : List Nat) (stk : List (Option H)) (acc : Option H),
      bagPeaks hf s bm size stk acc pks = bagPeaks hf s' bm size stk acc pks := by
  intro pks
  induction pks with
  | nil => intro stk acc; simp [bagPeaks]
  | cons p ps ih =>
    intro stk acc
    cases stk with
    | nil => simp [bagPeaks]
    | cons lh stk' =>
      simp only [bagPeaks, getHash_congr s s' h1 h2]
      split
      · exact ih _ _
      · rfl
      · rfl
      · rfl

theorem fupLoop_congr (s s' : Segment α H) (h1 : s.hashPos = s'.hashPos) (h2 : s.hashes = s'.hashes)
    (b : Nat → Bool) (nl : Nat) : ∀ (fb : List (Nat × Nat)) (pos0 : Nat),
    fupLoop s b nl pos0 fb = fupLoop s' b nl pos0 fb := by
  intro fb
  induction fb with
  | nil => intro pos0; simp only [fupLoop, getHash_congr s s' h1 h2]
  | cons x rest ih =>
    intro pos0
    obtain ⟨p0, s0⟩ := x
    simp only [fupLoop, getHash_congr s s' h1 h2]
    cases s'.getHash pos0 with
    | ok h => rfl
    | panic => rfl
    | err e => simp only [ih p0]

theorem rootWith_congr (hf : HashFn α H) (s s' : Segment α H) (h1 : s.hashPos = s'.hashPos)
    (h2 : s.hashes = s'.hashes) (h3 : s.leafPos = s'.leafPos) (h4 : s.leafData = s'.leafData)
    (bm : Option (Nat → Bool)) (size : Nat) (ps : List Nat) (full : Bool) (pks : List Nat) :
    rootWith hf s size bm ps full pks = rootWith hf s' size bm ps full pks := by
  unfold rootWith
  rw [rootLoop_congr hf s s' h1 h2, h3, h4]
  have hfin : ∀ stk, rootFinish hf s bm size full pks stk = rootFinish hf s' bm size full pks stk := by
    intro stk
    unfold rootFinish
    simp only [bagPeaks_congr hf s s' h1 h2]
  simp only [hfin]

theorem fupWith_congr (s s' : Segment α H) (h1 : s.hashPos = s'.hashPos) (h2 : s.hashes = s'.hashes)
    (size : Nat) (bm : Option (Nat → Bool)) (rootRes : Res (Option H)) (last : Nat) :
    fupWith s size bm rootRes last = fupWith s' size bm rootRes last := by
  unfold fupWith
  cases bm with
  | none => rfl
  | some b => simp only [fupLoop_congr s s' h1 h2]

/-- `first_unpruned_parent` does not look at the proof -/
theorem fup_proof_irrelevant (hf : HashFn α H) (s : Segment α H) (pr : List H) (size : Nat)
    (bm : Option (Nat → Bool)) :
    Segment.firstUnprunedParent hf { s with proof := pr } size bm = s.firstUnprunedParent hf size bm := by
  unfold Segment.firstUnprunedParent Segment.root
  show fupWith { s with proof := pr } size bm
      (if s.id.unprunedSize size = 0 then .err .nonExistent
       else rootWith hf { s with proof := pr } size bm (s.id.positions size) (s.id.full size) (s.id.peaksIn size))
      (s.id.posRange size).2 = _
  rw [rootWith_congr hf { s with proof := pr } s rfl rfl rfl rfl,
    fupWith_congr { s with proof := pr } s rfl rfl]

/-- **Redundant extra proof hashes are not rejected**: an accepted segment stays accepted when
arbitrary hashes are appended to its proof. -/
theorem validate_extra_proof_hashes (hf : HashFn α H) [DecidableEq H] (s : Segment α H)
    (extra : List H) (size : Nat) (bm : Option (Nat → Bool)) (mmrRoot : H)
    (h : s.validate hf size bm mmrRoot = .ok ()) :
    Segment.validate hf { s with proof := s.proof ++ extra } size bm mmrRoot = .ok () := by
  unfold Segment.validate at h ⊢
  rw [fup_proof_irrelevant]
  exact validateAt_extra hf s.proof extra _ _ _ _ _ h

/-! ### leaves that are read are entries of the segment -/

theorem rootStep_iter_sub (hf : HashFn α H) (s : Segment α H) (bm : Option (Nat → Bool)) (size p : Nat)
    (st st' : RootSt α H) (h : rootStep hf s bm size st p = .ok st') : ∀ e ∈ st'.2, e ∈ st.2 := by
  obtain ⟨stk, it⟩ := st
  simp only [rootStep] at h
  by_cases hh : height p = 0
  · simp only [hh, if_true] at h
    split at h
    · cases hf' : iterFind it p with
      | none => simp only [hf'] at h; cases h
      | some r =>
        obtain ⟨x, rest⟩ := r
        simp only [hf', Res.ok.injEq] at h
        subst h
        obtain ⟨_, pre, hpre⟩ := iterFind_mem it p x rest hf'
        intro e he
        simp only at he ⊢
        rw [hpre]
        exact List.mem_append_right _ (List.mem_cons_of_mem _ he)
    · simp only [Res.ok.injEq] at h; subst h; intro e he; exact he
  · simp only [hh, if_false] at h
    have key : ∀ (v : List (Option H)), st' = (v, it) → ∀ e ∈ st'.2, e ∈ it := by
      intro v hv e he; subst hv; exact he
    match stk with
    | [] => cases h
    | [_] => cases h
    | r :: l :: rest =>
      cases bm with
      | none =>
        simp only at h
        cases l <;> cases r <;> first | (cases h; done) | (simp only [Res.ok.injEq] at h; exact key _ h.symm)
      | some b =>
        simp only at h
        cases l <;> cases r <;> simp only at h
        · simp only [Res.ok.injEq] at h; exact key _ h.symm
        · split at h <;> first | (cases h; done) | (simp only [Res.ok.injEq] at h; exact key _ h.symm)
        · split at h <;> first | (cases h; done) | (simp only [Res.ok.injEq] at h; exact key _ h.symm)
        · simp only [Res.ok.injEq] at h; exact key _ h.symm

/-- every leaf event of the loop is an entry `(pos, data)` of the iterator it started with -/
theorem rootReads_leaf_mem (hf : HashFn α H) (s : Segment α H) (bm : Option (Nat → Bool)) (size : Nat)
    (p : Nat) (x : α) : ∀ (ps : List Nat) (st : RootSt α H),
    Ev.leaf p x ∈ rootReads hf s bm size st ps → (p, x) ∈ st.2 := by
  intro ps
  induction ps with
  | nil => intro st h; simp [rootReads] at h
  | cons q ps ih =>
    intro st h
    simp only [rootReads] at h
    rcases List.mem_append.1 h with h | h
    · -- from this step
      simp only [stepReads] at h
      by_cases hh : height q = 0
      · simp only [hh, if_true] at h
        split at h
        · cases hf' : iterFind st.2 q with
          | none => simp [hf'] at h
          | some r =>
            obtain ⟨y, rest⟩ := r
            simp only [hf', List.mem_singleton, Ev.leaf.injEq] at h
            obtain ⟨rfl, rfl⟩ := h
            exact (iterFind_mem st.2 p x rest hf').1
        · simp at h
      · simp only [hh, if_false] at h
        split at h
        · split at h
          · split at h <;> simp at h
          · split at h <;> simp at h
          · simp at h
        · simp at h
    · cases hs : rootStep hf s bm size st q with
      | err e => simp [hs] at h
      | panic => simp [hs] at h
      | ok m =>
        simp only [hs] at h
        exact rootStep_iter_sub hf s bm size q st m hs _ (ih m h)

theorem rootWith_required (hf : HashFn α H) (s : Segment α H) (bm : Option (Nat → Bool)) (size : Nat)
    (ps : List Nat) (full : Bool) (pks : List Nat) (o : Option H)
    (h : rootWith hf s size bm ps full pks = .ok o) (p : Nat) (hp : p ∈ ps) (hleaf : height p = 0)
    (hreq : required bm size p = true) :
    ∃ x, (p, x) ∈ s.leafPos.zip s.leafData ∧ Ev.leaf p x ∈ readsWith hf s size bm ps full pks := by
  unfold rootWith at h
  cases hl : rootLoop hf s bm size ([], s.leafPos.zip s.leafData) ps with
  | err e => simp only [hl] at h; cases h
  | panic => simp only [hl] at h; cases h
  | ok st =>
    obtain ⟨x, hx⟩ := rootReads_required hf s bm size _ _ st hl p hp hleaf hreq
    refine ⟨x, rootReads_leaf_mem hf s bm size p x _ _ hx, ?_⟩
    unfold readsWith
    exact List.mem_append_left _ hx

end GV.Seg
