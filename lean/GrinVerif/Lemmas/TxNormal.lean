import GrinVerif.Lemmas.TxBlock
import GrinVerif.Lemmas.TxDeagg
/-! Definitions used in the statements of the C12 theorems (`KInj`, `Normal`, `Plain`, `WF`) and the
helper lemmas around them; concrete example transactions for the non-vacuity witnesses. -/
namespace GV.Tx
open List

/-- injective hash orders (blake2b collision resistance, as data) -/
def KInj (K : Keys) : Prop :=
  (∀ a b, K.ik a = K.ik b → a = b) ∧ (∀ a b, K.ok a = K.ok b → a = b) ∧ (∀ a b, K.kk a = K.kk b → a = b)

theorem KInj.ik {K : Keys} (h : KInj K) (l : List Nat) : InjOn K.ik l := fun a b _ _ e => h.1 a b e
theorem KInj.ok {K : Keys} (h : KInj K) (l : List Nat) : InjOn K.ok l := fun a b _ _ e => h.2.1 a b e
theorem KInj.kk {K : Keys} (h : KInj K) (l : List Nat) : InjOn K.kk l := fun a b _ _ e => h.2.2 a b e

/-- transactions never contain coinbase outputs (`verify_features`), so no two outputs of valid
transactions share a commitment unless they are the same output -/
theorem injOn_outCommit_of_plain {l : List Nat} (h : ∀ o ∈ l, isCoinbase o = false) : InjOn outCommit l := by
  intro a b ha hb e
  have h1 := h a ha
  have h2 := h b hb
  simp only [isCoinbase, beq_eq_false_iff_ne, ne_eq] at h1 h2
  simp only [outCommit] at e
  omega

/-- a transaction in the normal form `aggregate` produces: commit-only inputs, everything in
hash order, no input/output pair left to cut, offset a reduced scalar — i.e. pushing it through
the general path of `aggregate` on its own gives it back.  Every transaction that passes
`validate_read` and has a valid offset is of this kind (see `normal_example`). -/
def Normal (K : Keys) (t : Tx) : Prop := aggregateFull K [t] = .ok t

theorem aggregateFull_nil (K : Keys) : aggregateFull K [] = .ok Tx.empty := by
  rw [aggregateFull_eq]
  simp [allIns, allOuts, allKers, allOffs, merged, sortBy_nil, cutMerge, adjDup, sumKernelOffsets,
    toSecrets, Tx.empty]

/-- on normal transactions the shortcuts of `aggregate` are not observable -/
theorem aggregate_eq_full {K : Keys} {txs : List Tx} (hn : ∀ t ∈ txs, Normal K t) :
    aggregate K txs = aggregateFull K txs := by
  match txs, hn with
  | [], _ => rw [aggregateFull_nil]; rfl
  | [t], hn => exact (hn t mem_cons_self).symm
  | _ :: _ :: _, _ => rfl

/-- results of the general path are normal -/
theorem normal_of_aggregateFull {K : Keys} {g : List Tx} {t : Tx} (kinj : KInj K)
    (ic : InjOn outCommit (allOuts g)) (h : aggregateFull K g = .ok t) : Normal K t := by
  have := aggregateFull_groups (K := K) (groups := [g]) (ts := [t]) (.cons h .nil)
    (kinj.ik _) (kinj.ok _) (kinj.kk _) (by simpa using ic)
  simp only [flatten_cons, flatten_nil, append_nil] at this
  exact this.trans h

/-- group results are results of the general path, and normal -/
theorem groups_full {K : Keys} {groups : List (List Tx)} {ts : List Tx} (kinj : KInj K)
    (hn : ∀ g ∈ groups, ∀ t ∈ g, Normal K t)
    (ic : InjOn outCommit (allOuts groups.flatten))
    (h : AllRel (fun g t => aggregate K g = .ok t) groups ts) :
    AllRel (fun g t => aggregateFull K g = .ok t) groups ts ∧ ∀ t ∈ ts, Normal K t := by
  induction h with
  | nil => exact ⟨.nil, by simp⟩
  | @cons g t gs ts hg _ ih =>
    have hg' : aggregateFull K g = .ok t := by
      rw [← aggregate_eq_full (hn g mem_cons_self)]; exact hg
    have icg : InjOn outCommit (allOuts g) := ic.of_subset (fun o ho => by
      rw [flatten_cons, allOuts_append]; exact mem_append_left _ ho)
    have icr : InjOn outCommit (allOuts gs.flatten) := ic.of_subset (fun o ho => by
      rw [flatten_cons, allOuts_append]; exact mem_append_right _ ho)
    obtain ⟨r1, r2⟩ := ih (fun g' hg' => hn g' (mem_cons_of_mem _ hg')) icr
    refine ⟨.cons hg' r1, ?_⟩
    intro t' ht'
    rcases mem_cons.1 ht' with rfl | ht'
    · exact normal_of_aggregateFull kinj icg hg'
    · exact r2 t' ht'

/-- `verify_features`: a transaction carries no coinbase output and no coinbase kernel -/
def Plain (t : Tx) : Prop :=
  (∀ o ∈ t.outputs, isCoinbase o = false) ∧ (∀ k ∈ t.kernels, isCoinbase k = false)

theorem plain_allOuts {txs : List Tx} (hp : ∀ t ∈ txs, Plain t) : ∀ o ∈ allOuts txs, isCoinbase o = false := by
  intro o ho
  obtain ⟨t, ht, hot⟩ := mem_flatMap.1 ho
  exact (hp t ht).1 o hot

theorem plain_allKers {txs : List Tx} (hp : ∀ t ∈ txs, Plain t) : ∀ k ∈ allKers txs, isCoinbase k = false := by
  intro k hk
  obtain ⟨t, ht, hkt⟩ := mem_flatMap.1 hk
  exact (hp t ht).2 k hkt

/-- `verify_sorted_and_unique` accepts a vector in hash order without two adjacent equal elements -/
theorem sortedUnique_none {key : Nat → Nat} : ∀ {l : List Nat}, l.Pairwise (KeyLe key) → adjDup l = false →
    sortedUnique key l = none
  | [], _, _ => rfl
  | [_], _, _ => rfl
  | a :: b :: t, s, d => by
    have hab : key a ≤ key b := (pairwise_cons.1 s).1 b mem_cons_self
    simp only [adjDup, Bool.or_eq_false_iff] at d
    have ih := sortedUnique_none (pairwise_cons.1 s).2 d.2
    simp only [sortedUnique, Nat.not_lt.2 hab, d.1, ih, if_false, Bool.false_eq_true]

/-- the image of a duplicate-free list under a map that is injective on it carries every value at
most once -/
theorem count_map_le_one {f : Nat → Nat} {l : List Nat} (inj : InjOn f l) (nd : l.Nodup) (c : Nat) :
    (l.map f).count c ≤ 1 := by
  by_cases hc : c ∈ l.map f
  · obtain ⟨x, hx, rfl⟩ := mem_map.1 hc
    rw [count_map_of_injOn hx inj]
    exact nodup_iff_count.1 nd x
  · rw [count_eq_zero.2 hc]; omega

/-- `aggregate` of normal transactions that share nothing (no common input, output or kernel) and
do not spend each other's outputs: always succeeds (whatever the offsets are, also when they cancel),
plain sorted union, offsets summed. -/
theorem aggregate_disjoint {K : Keys} {txs : List Tx} (kinj : KInj K) (hn : ∀ t ∈ txs, Normal K t)
    (ndI : (allIns K txs).Nodup) (ndO : (allOuts txs).Nodup)
    (hdis : ∀ x ∈ allIns K txs, x ∉ (allOuts txs).map outCommit) :
    aggregate K txs =
      .ok ⟨(toSecrets (allOffs txs)).sum % N, false, sortBy K.ik (allIns K txs), sortBy K.ok (allOuts txs),
        sortBy K.kk (allKers txs)⟩ := by
  rw [aggregate_eq_full hn]
  exact aggregateFull_disjoint (kinj.ik _) (kinj.ok _) ndI ndO hdis

/-- what `Transaction::validate_read` (sorted, unique, no input spending an own output) plus a
valid offset give, for a commit-only transaction -/
structure WF (K : Keys) (t : Tx) : Prop where
  v2 : t.v2 = false
  insSorted : t.inputs.Pairwise (KeyLe K.ik)
  insNodup : t.inputs.Nodup
  outsSorted : t.outputs.Pairwise (KeyLe K.ok)
  outsNodup : t.outputs.Nodup
  kersSorted : t.kernels.Pairwise (KeyLe K.kk)
  noSelfSpend : ∀ x ∈ t.inputs, x ∉ t.outputs.map outCommit
  offset : t.offset < N


namespace Ex
/-- identity hash orders -/
def K0 : Keys := ⟨id, id, id⟩
theorem kinj0 : KInj K0 := ⟨fun _ _ h => h, fun _ _ h => h, fun _ _ h => h⟩

/-- `t1` spends commitment 1 and creates commitment 5 (output code 10); `t2` and `t3` both spend
commitment 5; `t4` is unrelated and has a zero offset; `t5` has the offset `N - 2`. -/
def t1 : Tx := ⟨1, false, [1], [10], [0]⟩
def t2 : Tx := ⟨2, false, [5], [12], [2]⟩
def t3 : Tx := ⟨3, false, [5], [14], [4]⟩
def t4 : Tx := ⟨0, false, [20], [44], [6]⟩
def t5 : Tx := ⟨N - 2, false, [30], [64], [8]⟩

macro "tx_eval" : tactic => `(tactic|
  simp [aggregate, aggregateFull, deaggregate, pushNew, fromReward, compact, hydrateFrom, insertSorted, isCoinbase,
    cutThrough, sortBy, cutMerge, adjDup, List.mergeSort,
    List.MergeSort.Internal.splitInTwo, List.merge, sumKernelOffsets, toSecrets, blindSumOrZero, secpBlindSum, scalarSum,
    N, Tx.inputsCO, outCommit,
    K0, t1, t2, t3, t4, t5, Tx.empty])

theorem normal1 : Normal K0 t1 := by unfold Normal; tx_eval
theorem normal2 : Normal K0 t2 := by unfold Normal; tx_eval
theorem normal3 : Normal K0 t3 := by unfold Normal; tx_eval
theorem normal4 : Normal K0 t4 := by unfold Normal; tx_eval
theorem normal5 : Normal K0 t5 := by unfold Normal; tx_eval

end Ex

end GV.Tx
