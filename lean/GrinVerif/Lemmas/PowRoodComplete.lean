import GrinVerif.Lemmas.PowUXor
/-! Completeness of the Cuckarood verifier. -/
set_option linter.unusedSectionVars false
namespace GV.Pow

theorem roodFind_err (L : Nat) (s : RoodSt) (i : Nat) :
    ∀ f k j e, roodFind L s i f k j = .error e → e = .hang ∨ e = .branch := by
  intro f
  induction f with
  | zero => intro k j e h; simp [roodFind] at h; left; exact h.symm
  | succ f ih =>
    intro k j e h
    unfold roodFind at h
    split at h
    · cases h
    · split at h
      · split at h
        · injection h with h; right; exact h.symm
        · exact ih _ _ _ h
      · exact ih _ _ _ h

section
variable (L : Nat) (s : RoodSt) (i : Nat) (sl val bkt : Nat → Nat) (bstar : Nat)
  (hslL : sl L = 2 * L) (hsl : ∀ e, e < L → sl e ≠ 2 * L)
  (hval : ∀ e, e < L → s.uvs (sl e) = val e)
  (hprev : ∀ e, e < L → s.prev (sl e) = sl (lastBelow (fun e' => bkt e' == bkt e) L e))
  (hne : ∀ e, e < L → bkt e = bstar → sl e ≠ i)
include hslL hsl hval hprev hne

/-- `branch` is only returned when two different edges of the bucket carry the searched node -/
theorem chain_branch : ∀ f e j, e ≤ L → (e < L → bkt e = bstar) → RInvJ L s i sl val bkt bstar e j →
    roodFind L s i f (sl e) j = .error .branch →
    ∃ e1 e2, e1 ≠ e2 ∧ e1 < L ∧ e2 < L ∧ bkt e1 = bstar ∧ bkt e2 = bstar ∧
      val e1 = s.uvs i ∧ val e2 = s.uvs i := by
  intro f
  induction f with
  | zero => intro e j _ _ _ h; simp [roodFind] at h
  | succ f ih =>
    intro e j he hb inv h
    unfold roodFind at h
    by_cases hend : e = L
    · subst hend
      simp [hslL] at h
    · have heL : e < L := by omega
      have hk : sl e ≠ 2 * L := hsl e heL
      simp only [hk, if_false] at h
      rw [hval e heL, hprev e heL] at h
      have hbe := hb heL
      have sp := lastBelow_spec (fun e' => bkt e' == bkt e) L e
      have hnext : lastBelow (fun e' => bkt e' == bkt e) L e ≤ L ∧
          (lastBelow (fun e' => bkt e' == bkt e) L e < L →
            bkt (lastBelow (fun e' => bkt e' == bkt e) L e) = bstar) ∧
          (∀ e', TSeen L bkt bstar (lastBelow (fun e' => bkt e' == bkt e) L e) e' ↔
            (TSeen L bkt bstar e e' ∨ e' = e)) := by
        rcases sp with ⟨s1, s2⟩ | ⟨s1, s2, s3⟩
        · refine ⟨by omega, fun h => by omega, fun e' => ?_⟩
          rw [s1]
          unfold TSeen
          constructor
          · intro ⟨a, b, _⟩
            by_cases c : e' < e
            · have := s2 e' c; simp [b, hbe] at this
            · by_cases d : e' = e
              · right; exact d
              · left; exact ⟨a, b, Or.inr (by omega)⟩
          · intro h
            rcases h with ⟨a, b, _⟩ | h
            · exact ⟨a, b, Or.inl rfl⟩
            · subst h; exact ⟨heL, hbe, Or.inl rfl⟩
        · have s2' : bkt (lastBelow (fun e' => bkt e' == bkt e) L e) = bkt e := by simpa using s2
          refine ⟨by omega, fun _ => by rw [s2', hbe], fun e' => ?_⟩
          unfold TSeen
          constructor
          · intro ⟨a, b, c⟩
            by_cases c1 : e' < e
            · have := s3 e' c1 (by simp [b, hbe]); omega
            · by_cases d : e' = e
              · right; exact d
              · left; exact ⟨a, b, Or.inr (by omega)⟩
          · intro h
            rcases h with ⟨a, b, c⟩ | h
            · exact ⟨a, b, Or.inr (by omega)⟩
            · subst h; exact ⟨heL, hbe, Or.inr s1⟩
      obtain ⟨n1, n2, n3⟩ := hnext
      by_cases hm : val e = s.uvs i
      · simp only [hm, if_true] at h
        by_cases hj : j = i
        · simp only [hj, ne_eq, not_true_eq_false, if_false] at h
          refine ih _ _ n1 n2 ?_ h
          right
          refine ⟨e, (n3 e).mpr (Or.inr rfl), rfl, hm, ?_⟩
          intro e' hs hv
          rcases (n3 e').mp hs with hs | hs
          · rcases inv with ⟨_, j2⟩ | ⟨ej, _, j2, _, _⟩
            · exact absurd hv (j2 e' hs)
            · rw [hj] at j2
              exact absurd j2.symm (hne ej (by unfold TSeen at *; omega) (by unfold TSeen at *; omega))
          · exact hs
        · rcases inv with ⟨j1, _⟩ | ⟨ej, ⟨t1, t2, t3⟩, _, j3, _⟩
          · exact absurd j1 hj
          · exact ⟨ej, e, by omega, t1, heL, t2, hbe, j3, hm⟩
      · simp only [hm, if_false] at h
        refine ih _ _ n1 n2 ?_ h
        rcases inv with ⟨j1, j2⟩ | ⟨ej, j1, j2, j3, j4⟩
        · left
          refine ⟨j1, fun e' hs => ?_⟩
          rcases (n3 e').mp hs with hs | hs
          · exact j2 e' hs
          · rw [hs]; exact hm
        · right
          refine ⟨ej, (n3 ej).mpr (Or.inl j1), j2, j3, fun e' hs hv => ?_⟩
          rcases (n3 e').mp hs with hs | hs
          · exact j4 e' hs hv
          · rw [hs] at hv; exact absurd hv hm

/-- the bucket search returns the slot of the unique edge of the bucket carrying the searched node -/
theorem chainFind_complete (est : Nat) (hest : est < L) (hbst : bkt est = bstar)
    (hvst : val est = s.uvs i)
    (huniq : ∀ e, e < L → bkt e = bstar → val e = s.uvs i → e = est)
    (f : Nat) (hf : L + 1 < f) :
    roodFind L s i f (sl (lastBelow (fun e => bkt e == bstar) L L)) i = .ok (sl est) := by
  have sp := lastBelow_spec (fun e => bkt e == bstar) L L
  have h0le : lastBelow (fun e => bkt e == bstar) L L ≤ L := by
    rcases sp with ⟨a, _⟩ | ⟨a, _, _⟩ <;> omega
  have h0b : lastBelow (fun e => bkt e == bstar) L L < L →
      bkt (lastBelow (fun e => bkt e == bstar) L L) = bstar := by
    intro hlt
    rcases sp with ⟨a, _⟩ | ⟨_, a, _⟩
    · omega
    · simpa using a
  have hinit : RInvJ L s i sl val bkt bstar (lastBelow (fun e => bkt e == bstar) L L) i := by
    left
    refine ⟨rfl, ?_⟩
    intro e' ⟨t1, t2, t3⟩
    rcases sp with ⟨a, b⟩ | ⟨a, _, c⟩
    · have := b e' t1; simp [t2] at this
    · have := c e' t1 (by simp [t2]); omega
  have hnh := chain_no_hang L s i sl bkt hslL hprev f _ i h0le (fun _ => by omega) (by omega)
  cases hr : roodFind L s i f (sl (lastBelow (fun e => bkt e == bstar) L L)) i with
  | error e =>
    exfalso
    rcases roodFind_err L s i _ _ _ _ hr with h | h
    · subst h; exact hnh hr
    · subst h
      obtain ⟨e1, e2, hne', l1, l2, b1, b2, v1, v2⟩ :=
        chain_branch L s i sl val bkt bstar hslL hsl hval hprev hne f _ i h0le h0b hinit hr
      exact hne' ((huniq e1 l1 b1 v1).trans (huniq e2 l2 b2 v2).symm)
  | ok r =>
    have := chainFind L s i sl val bkt bstar hslL hsl hval hprev hne f _ i r h0le h0b hinit hr
    rcases this with ⟨_, r2⟩ | ⟨ej, ⟨t1, t2, _⟩, r2, r3, _⟩
    · exact absurd hvst (r2 est ⟨hest, hbst, Or.inl rfl⟩)
    · rw [r2, huniq ej t1 t2 r3]

end

/-- one step of the outer loop from the entry slot of edge `e` goes to the entry slot of the unique
edge of the other direction sharing the node -/
theorem roodStep_complete_ent (P : Params) (ep : Nat → Nat × Nat) (ns : List Nat) (s : RoodSt)
    (hbk : ∀ x, P.bk x % 2 = x % 2) (inv : RoodInv P ep ns ns.length s) (e e2 : Nat)
    (he : e < ns.length) (he2 : e2 < ns.length) (hd : dirF ns e2 ≠ dirF ns e)
    (hsn : sideNode ep ns (dirF ns e) e2 = sideNode ep ns (dirF ns e) e)
    (huniq : ∀ e', e' < ns.length → dirF ns e' ≠ dirF ns e →
      sideNode ep ns (dirF ns e) e' = sideNode ep ns (dirF ns e) e → e' = e2) :
    roodStep P ns.length s (ent ns e) = .ok (ent ns e2) := by
  have hdl := dirF_lt ns e
  have hdl2 := dirF_lt ns e2
  have hev := slotOf_even ns e
  have hev2 := slotOf_even ns e2
  have hne2 : e2 ≠ ns.length := by omega
  unfold roodStep
  by_cases hz : dirF ns e = 0
  · have hd2 : dirF ns e2 = 1 := by omega
    have hent : ent ns e = slotOf ns e := by unfold ent; omega
    rw [hent]
    simp only [hev, if_true]
    rw [inv.uvsU e he, inv.headu]
    simp only [sideNode, hz, if_true] at hsn huniq
    have hpar : ∀ e', bU P ep ns e' = P.bk (2 * frmF ep ns e + 1) → dirF ns e' = 1 := by
      intro e' hb
      have h1 := hbk (2 * frmF ep ns e' + dirF ns e')
      have h2 := hbk (2 * frmF ep ns e + 1)
      have := dirF_lt ns e'
      unfold bU at hb
      rw [hb] at h1
      omega
    have hfind := chainFind_complete ns.length s (slotOf ns e) (slU ns) (frmF ep ns) (bU P ep ns)
      (P.bk (2 * frmF ep ns e + 1))
      (by simp [slU])
      (fun e' he' => by have := inv.lt e' he'; simp only [slU]; split <;> omega)
      (fun e' he' => by
        have : e' ≠ ns.length := by omega
        simp only [slU, this, if_false]; exact inv.uvsU e' he')
      (fun e' he' => by
        have : e' ≠ ns.length := by omega
        simp only [slU, this, if_false]; exact inv.prevU e' he')
      (fun e' he' hb => by
        have : e' ≠ ns.length := by omega
        simp only [slU, this, if_false]
        intro heq
        have a := slotOf_dir ns e'
        have b := slotOf_dir ns e
        rw [heq, b, hpar e' hb] at a
        omega)
      e2 he2 (by unfold bU; rw [hsn, hd2]) (by rw [hsn, inv.uvsU e he])
      (fun e' he' hb hv => huniq e' he' (by rw [hpar e' hb]; omega) (by rw [hv, inv.uvsU e he]))
      (2 * ns.length + 1) (by omega)
    rw [hfind]
    simp only [slU, hne2, if_false]
    have hne : slotOf ns e2 ≠ slotOf ns e := by
      intro h
      have a := slotOf_dir ns e2
      have b := slotOf_dir ns e
      rw [h] at a; omega
    simp only [hne, if_false]
    unfold ent
    rw [xor_one_eq, hd2]; simp [hev2]
  · have h1d : dirF ns e = 1 := by omega
    have hd2 : dirF ns e2 = 0 := by omega
    have hent : ent ns e = slotOf ns e + 1 := by unfold ent; omega
    have hodd : ¬ ((slotOf ns e + 1) % 2 = 0) := by omega
    rw [hent]
    simp only [hodd, if_false]
    rw [inv.uvsV e he, inv.headv]
    simp only [sideNode, hz, if_false] at hsn huniq
    have hpar : ∀ e', bV P ep ns e' = P.bk (2 * toF ep ns e) → dirF ns e' = 0 := by
      intro e' hb
      have h1 := hbk (2 * toF ep ns e' + dirF ns e')
      have h2 := hbk (2 * toF ep ns e)
      have := dirF_lt ns e'
      unfold bV at hb
      rw [hb] at h1
      omega
    have hfind := chainFind_complete ns.length s (slotOf ns e + 1) (slV ns) (toF ep ns) (bV P ep ns)
      (P.bk (2 * toF ep ns e))
      (by simp [slV])
      (fun e' he' => by have := inv.lt e' he'; simp only [slV]; split <;> omega)
      (fun e' he' => by
        have : e' ≠ ns.length := by omega
        simp only [slV, this, if_false]; exact inv.uvsV e' he')
      (fun e' he' => by
        have : e' ≠ ns.length := by omega
        simp only [slV, this, if_false]; exact inv.prevV e' he')
      (fun e' he' hb => by
        have : e' ≠ ns.length := by omega
        simp only [slV, this, if_false]
        intro heq
        have a := slotOf_dir ns e'
        have b := slotOf_dir ns e
        have : slotOf ns e' = slotOf ns e := by omega
        rw [this, b, hpar e' hb] at a
        omega)
      e2 he2 (by unfold bV; rw [hsn, hd2, Nat.add_zero]) (by rw [hsn, inv.uvsV e he])
      (fun e' he' hb hv => huniq e' he' (by rw [hpar e' hb]; omega) (by rw [hv, inv.uvsV e he]))
      (2 * ns.length + 1) (by omega)
    rw [hfind]
    simp only [slV, hne2, if_false]
    have hne : slotOf ns e2 + 1 ≠ slotOf ns e + 1 := by
      intro h
      have a := slotOf_dir ns e2
      have b := slotOf_dir ns e
      have : slotOf ns e2 = slotOf ns e := by omega
      rw [this] at a; omega
    simp only [hne, if_false]
    unfold ent
    rw [xor_one_eq, hd2]
    have : ¬ ((slotOf ns e2 + 1) % 2 = 0) := by omega
    simp [this]


/-- the first loop succeeds on balanced, in-range, ascending nonces; its xor accumulators -/
theorem roodBuild_complete (P : Params) (ep : Nat → Nat × Nat) (ns : List Nat)
    (hbal : cntBelow (fun e => dirF ns e == 0) ns.length = cntBelow (fun e => dirF ns e == 1) ns.length) :
    ∀ xs pre last s, ns = pre ++ xs →
      s.nd0 = cntBelow (fun e => dirF ns e == 0) pre.length →
      s.nd1 = cntBelow (fun e => dirF ns e == 1) pre.length →
      (∀ x ∈ xs, x ≤ P.edgeMask) → ascChain last xs →
      ∃ s', roodBuild P ep ns.length xs last s = .ok s' ∧
        s'.x0 = s.x0 ^^^ xorAll (xs.map (fun x => (ep x).1)) ∧
        s'.x1 = s.x1 ^^^ xorAll (xs.map (fun x => (ep x).2)) := by
  have hsplit := cntBelow_split ns ns.length
  intro xs
  induction xs with
  | nil => intro pre last s _ _ _ _ _; exact ⟨s, rfl, by simp [xorAll], by simp [xorAll]⟩
  | cons x xs ih =>
    intro pre last s hns h0 h1 hm ha
    obtain ⟨a1, a2⟩ := ha
    have hx : ¬ x > P.edgeMask := by have := hm x (by simp); omega
    have hxe : ns.getD pre.length 0 = x := by rw [hns]; exact getD_append_cons pre xs x
    have hpl : pre.length < ns.length := by simp [hns]
    have hdir : x % 2 = dirF ns pre.length := by unfold dirF; rw [hxe]
    have hdlt := dirF_lt ns pre.length
    have hnb : ¬ ((if x % 2 = 0 then s.nd0 else s.nd1) ≥ ns.length / 2) := by
      by_cases hz : x % 2 = 0
      · rw [if_pos hz, h0]
        have := cntBelow_lt (fun e => dirF ns e == 0) pre.length ns.length hpl (by simp [← hdir, hz])
        omega
      · have h1' : x % 2 = 1 := by omega
        rw [if_neg hz, h1]
        have := cntBelow_lt (fun e => dirF ns e == 1) pre.length ns.length hpl (by simp [← hdir, h1'])
        omega
    unfold roodBuild
    simp only [hnb, hx, a1, if_false, Bool.false_eq_true]
    have hns' : ns = (pre ++ [x]) ++ xs := by simp [hns]
    have hlen : (pre ++ [x]).length = pre.length + 1 := by simp
    obtain ⟨s', r1, r2, r3⟩ := ih (pre ++ [x]) (some x)
      { uvs := upd (upd s.uvs (4 * (if x % 2 = 0 then s.nd0 else s.nd1) + 2 * (x % 2)) (ep x).1)
          (4 * (if x % 2 = 0 then s.nd0 else s.nd1) + 2 * (x % 2) + 1) (ep x).2,
        prev := upd (upd s.prev (4 * (if x % 2 = 0 then s.nd0 else s.nd1) + 2 * (x % 2))
            (s.headu (P.bk (2 * (ep x).1 + x % 2))))
          (4 * (if x % 2 = 0 then s.nd0 else s.nd1) + 2 * (x % 2) + 1)
          (s.headv (P.bk (2 * (ep x).2 + x % 2))),
        headu := upd s.headu (P.bk (2 * (ep x).1 + x % 2))
          (4 * (if x % 2 = 0 then s.nd0 else s.nd1) + 2 * (x % 2)),
        headv := upd s.headv (P.bk (2 * (ep x).2 + x % 2))
          (4 * (if x % 2 = 0 then s.nd0 else s.nd1) + 2 * (x % 2) + 1),
        nd0 := if x % 2 = 0 then s.nd0 + 1 else s.nd0,
        nd1 := if x % 2 = 0 then s.nd1 else s.nd1 + 1,
        x0 := s.x0 ^^^ (ep x).1, x1 := s.x1 ^^^ (ep x).2 } hns'
      (by
        rw [hlen]
        simp only [cntBelow, h0, ← hdir]
        by_cases hz : x % 2 = 0 <;> simp [hz])
      (by
        rw [hlen]
        simp only [cntBelow, h1, ← hdir]
        by_cases hz : x % 2 = 0
        · simp [hz]
        · have : x % 2 = 1 := by omega
          simp [this])
      (fun y hy => hm y (by simp [hy])) a2
    refine ⟨s', r1, ?_, ?_⟩
    · rw [r2]; simp only [List.map_cons, xorAll_cons, Nat.xor_assoc]
    · rw [r3]; simp only [List.map_cons, xorAll_cons, Nat.xor_assoc]

/-- the balance clause of the specification, as counts -/
theorem rood_balance_iff (ns : List Nat) (ep : Nat → Nat × Nat) :
    (((ns.map (fun x => (x % 2, ep x))).filter (fun d => d.1 = 0)).length =
      ((ns.map (fun x => (x % 2, ep x))).filter (fun d => d.1 ≠ 0)).length) ↔
    cntBelow (fun e => dirF ns e == 0) ns.length = cntBelow (fun e => dirF ns e == 1) ns.length := by
  have f0 : (fun e => dirF ns e == 0) = (fun e => (fun x => decide (x % 2 = 0)) (ns.getD e 0)) := by
    funext e
    show (ns.getD e 0 % 2 == 0) = decide (ns.getD e 0 % 2 = 0)
    generalize ns.getD e 0 % 2 = y
    by_cases hy : y = 0 <;> simp [hy]
  have f1 : (fun e => dirF ns e == 1) = (fun e => (fun x => decide (x % 2 ≠ 0)) (ns.getD e 0)) := by
    funext e
    show (ns.getD e 0 % 2 == 1) = decide (ns.getD e 0 % 2 ≠ 0)
    have hlt : ns.getD e 0 % 2 < 2 := Nat.mod_lt _ (by omega)
    generalize ns.getD e 0 % 2 = y at hlt
    by_cases hy : y = 0
    · simp [hy]
    · have : y = 1 := by omega
      simp [this]
  rw [f0, f1, cntBelow_countP (fun x => decide (x % 2 = 0)) ns,
    cntBelow_countP (fun x => decide (x % 2 ≠ 0)) ns,
    ← List.countP_eq_length_filter, ← List.countP_eq_length_filter, List.countP_map, List.countP_map]
  exact Iff.rfl


/-! ### the cycle in the verifier's own slot numbering -/

/-- matching rule of Cuckarood in the vocabulary of the generic engine: node values carry the
direction bit in their lowest bit (`2·node + dir`, which is what the Rust code hashes); two edge
ends match when the nodes agree and the direction bits differ -/
def cfgRood : UCfg :=
  { key := fun _ side _ => side, mt := fun a b => (a >>> 1) == (b >>> 1), deadSame := true,
    xinit := fun _ => 0, jointXor := false, useCtxSize := false }

theorem mtEquiv_rood : MtEquiv cfgRood :=
  ⟨fun a b => by simp [cfgRood, BEq.comm],
   fun a b c h1 h2 => by simp [cfgRood] at *; omega⟩

def keyR (t : Nat) : Nat := t % 2
def uvR (s : RoodSt) (t : Nat) : Nat := 2 * s.uvs t + (t / 2) % 2

/-- specification slot `2e + side` ↦ verifier slot -/
def sigR (ns : List Nat) (x : Nat) : Nat := slotOf ns (x / 2) + x % 2

theorem uvR_half (s : RoodSt) (t : Nat) : uvR s t >>> 1 = s.uvs t := by
  rw [shr_one]; unfold uvR; omega

section
variable (P : Params) (ep : Nat → Nat × Nat) (ns : List Nat) (s : RoodSt)
  (inv : RoodInv P ep ns ns.length s)
include inv

theorem sigR_lt (x : Nat) (hx : x < 2 * ns.length) : sigR ns x < 2 * ns.length := by
  have := inv.lt (x / 2) (by omega)
  unfold sigR; omega

theorem sigR_uvs (x : Nat) (hx : x < 2 * ns.length) :
    s.uvs (sigR ns x) = slotNode (ns.map ep) x := by
  have he : x / 2 < ns.length := by omega
  have hxx : x = 2 * (x / 2) + x % 2 := by omega
  have hside : x % 2 < 2 := by omega
  rw [hxx, slotNode_side ep ns (x / 2) (x % 2) he hside]
  unfold sigR sideNode
  have h1 : (2 * (x / 2) + x % 2) / 2 = x / 2 := by omega
  have h2 : (2 * (x / 2) + x % 2) % 2 = x % 2 := by omega
  rw [h1, h2]
  by_cases hz : x % 2 = 0
  · rw [hz, if_pos rfl, Nat.add_zero]; exact inv.uvsU _ he
  · have : x % 2 = 1 := by omega
    rw [this, if_neg (by omega)]; exact inv.uvsV _ he

theorem sigR_dir (x : Nat) : (sigR ns x / 2) % 2 = dirF ns (x / 2) := by
  have := slotOf_even ns (x / 2)
  have h := slotOf_dir ns (x / 2)
  unfold sigR
  have : (slotOf ns (x / 2) + x % 2) / 2 = slotOf ns (x / 2) / 2 := by omega
  rw [this]; exact h

theorem sigR_xor (x : Nat) : sigR ns (x ^^^ 1) = sigR ns x ^^^ 1 := by
  have hev := slotOf_even ns (x / 2)
  have h1 : (x ^^^ 1) / 2 = x / 2 := by simp [Nat.xor_div_two]
  unfold sigR
  rw [h1, xor_one_eq (slotOf ns (x / 2) + x % 2), xor_one_eq x]
  split <;> split <;> omega

/-- the verifier's edge numbering `slotOf e / 2` is a permutation of `0 … L-1` -/
theorem medge_perm : ((List.range ns.length).map (fun e => slotOf ns e / 2)).Perm (List.range ns.length) := by
  apply perm_range_of_nodup
  · rw [List.Nodup, List.pairwise_map, List.pairwise_iff_getElem]
    intro a b ha hb hab h
    simp only [List.getElem_range] at h
    have e1 := slotOf_even ns a
    have e2 := slotOf_even ns b
    have := slotOf_inj ns a b (by omega)
    omega
  · intro x hx
    obtain ⟨e, he, rfl⟩ := List.mem_map.mp hx
    have := inv.lt e (List.mem_range.mp he)
    omega
  · simp

end


/-- the walk phase: a closed trace of `size` steps makes `verify` return `Ok` -/
theorem roodVerify_of_trace (P : Params) (ep : Nat → Nat × Nat) (ns : List Nat)
    (hlen : ns.length = P.proofsize) (s : RoodSt)
    (hb : roodBuild P ep ns.length ns none (RoodSt.init ns.length) = .ok s)
    (hx : (s.x0 ||| s.x1) = 0)
    (tr : List Nat) (htr : Trace (roodStep P ns.length s) 0 tr) (htl : tr.length = ns.length) :
    verifyCuckarood P ep ns = .ok () := by
  have hw : ∀ d a f, a + d = tr.length → 0 < d → d ≤ f →
      roodWalk (roodStep P ns.length s) ns.length f (tr.getD a 0) a = .ok (a + d) := by
    intro d
    induction d with
    | zero => intro a f _ h; omega
    | succ d ih =>
      intro a f had _ hf
      cases f with
      | zero => omega
      | succ f =>
        unfold roodWalk
        by_cases hd : d = 0
        · subst hd
          have : tr.length - 1 = a := by omega
          have hl := htr.last
          rw [this] at hl
          rw [hl]
          simp
        · obtain ⟨c1, c2⟩ := htr.chain a (by omega)
          rw [c1]
          have hc : ¬ (a + 1 ≥ ns.length) := by omega
          simp only [c2, hc, if_false]
          rw [ih (a+1) f (by omega) (by omega) (by omega)]
          have e : a + 1 + d = a + (d + 1) := by omega
          rw [e]
  have := hw ns.length 0 (ns.length + 1) (by omega) (by have := htr.pos; omega) (by omega)
  rw [htr.head] at this
  unfold verifyCuckarood
  simp only [hlen, ne_eq, not_true_eq_false, if_false]
  rw [← hlen, hb]
  simp only [hx, not_true_eq_false, if_false]
  rw [this]
  simp

theorem rood_complete (P : Params) (ep : Nat → Nat × Nat) (ns : List Nat)
    (hbk : ∀ x, P.bk x % 2 = x % 2) (hps : 0 < P.proofsize) (hlen : ns.length = P.proofsize)
    (hasc : Ascending ns) (hmask : ∀ x ∈ ns, x ≤ P.edgeMask)
    (hc : IsProofCycleCuckarood (ns.map (fun x => (x % 2, ep x)))) :
    verifyCuckarood P ep ns = .ok () := by
  have hL : 0 < ns.length := by omega
  obtain ⟨hbalF, c, hc⟩ := hc
  have hdl : (ns.map (fun x => (x % 2, ep x))).length = ns.length := by simp
  have hes : (ns.map (fun x => (x % 2, ep x))).map (·.2) = ns.map ep := by
    simp [List.map_map, Function.comp_def]
  have hdir : ∀ e, e < ns.length →
      ((ns.map (fun x => (x % 2, ep x))).getD e (0, (0, 0))).1 = dirF ns e := by
    intro e he
    simp [dirF, List.getD_eq_getElem?_getD, he]
  simp only [hes, hdl] at hc
  have hbal := (rood_balance_iff ns ep).mp hbalF
  -- first loop
  obtain ⟨s, hb, hx0, hx1⟩ := roodBuild_complete P ep ns hbal ns [] none (RoodSt.init ns.length)
    (by simp) rfl rfl hmask (ascChain_of_pairwise ns none hasc (fun y hy => by cases hy))
  obtain ⟨inv, _, _⟩ := roodBuild_spec P ep ns ns [] none _ s (by simp) (roodInv_init P ep ns) hb
  have hclt : ∀ t, t < ns.length → c.getD t 0 < 2 * ns.length := by
    intro t ht
    have hcl := hc.len
    have : c.getD t 0 / 2 ∈ c.map (· / 2) := by
      apply List.mem_map.mpr
      refine ⟨c.getD t 0, ?_, rfl⟩
      rw [List.getD_eq_getElem?_getD, List.getElem?_eq_getElem (by omega)]; simp
    have := List.mem_range.mp (hc.perm.mem_iff.mp this)
    omega
  -- xor test: forgetting directions the cycle is a Cuckaroo cycle
  have hGroo : IsCycle ns.length (adjG cfgCuckaroo (keyF cfgCuckaroo P ep ns) (uvF ep ns))
      (sameVG cfgCuckaroo (keyF cfgCuckaroo P ep ns) (uvF ep ns)) c := by
    refine hc.mono ?_ ?_
    · intro a b ⟨hs, hn, _⟩
      unfold sameSide at hs
      have hn' : uvF ep ns a = uvF ep ns b := hn
      refine ⟨by simp only [keyF, cfgCuckaroo, hs, hn'], by simp [cfgCuckaroo, hn'], by simp [cfgCuckaroo]⟩
    · intro a b ⟨hk, hm⟩
      simp only [keyF, cfgCuckaroo] at hk
      simp only [cfgCuckaroo, beq_iff_eq] at hm
      exact ⟨by unfold sameSide; omega, hm⟩
  have hpar : ∀ a b, keyF cfgCuckaroo P ep ns a = keyF cfgCuckaroo P ep ns b → a % 2 = b % 2 := by
    intro a b h; simp only [keyF, cfgCuckaroo] at h; omega
  have hδ : ∀ a b, Partner cfgCuckaroo (keyF cfgCuckaroo P ep ns) (uvF ep ns) (2 * ns.length) a b →
      uvF ep ns b = uvF ep ns a ^^^ 0 := by
    intro a b hp
    have := hp.2.1
    simp only [cfgCuckaroo, beq_iff_eq] at this
    rw [this, Nat.xor_zero]
  have e0 := gcyc_xor_side mtEquiv_cuckaroo hGroo hL 0 (by omega) hpar 0 hδ
  have e1 := gcyc_xor_side mtEquiv_cuckaroo hGroo hL 1 (by omega) hpar 0 hδ
  rw [← us_eq] at e0
  rw [← vs_eq] at e1
  have z0 : s.x0 = 0 := by
    rw [hx0, e0]; show (0 : Nat) ^^^ _ = 0; split <;> rfl
  have z1 : s.x1 = 0 := by
    rw [hx1, e1]; show (0 : Nat) ^^^ _ = 0; split <;> rfl
  have hx : (s.x0 ||| s.x1) = 0 := by rw [z0, z1]; rfl
  -- the cycle in the verifier's slot numbering
  have hcg : ∀ t, t < ns.length → (c.map (sigR ns)).getD t 0 = sigR ns (c.getD t 0) := by
    intro t ht
    have hcl := hc.len
    simp [List.getD_eq_getElem?_getD, hcl, ht]
  have hG' : IsCycle ns.length (adjG cfgRood keyR (uvR s)) (sameVG cfgRood keyR (uvR s))
      (c.map (sigR ns)) := by
    refine ⟨by simp [hc.len], ?_, ?_, ?_⟩
    · have : (c.map (sigR ns)).map (· / 2) = (c.map (· / 2)).map (fun e => slotOf ns e / 2) := by
        rw [List.map_map, List.map_map]
        apply List.map_congr_left
        intro x _
        have := slotOf_even ns (x / 2)
        simp only [Function.comp, sigR]
        omega
      rw [this]
      exact (hc.perm.map _).trans (medge_perm P ep ns s inv)
    · intro t ht
      have hm : (t + 1) % ns.length < ns.length := Nat.mod_lt _ hL
      obtain ⟨l1, l2, l3⟩ := hc.link t ht
      rw [hcg t ht, hcg _ hm, ← sigR_xor P ep ns s inv]
      have ha := hclt t ht
      have hb' : c.getD ((t + 1) % ns.length) 0 ^^^ 1 < 2 * ns.length := xor_one_lt _ _ (hclt _ hm)
      unfold sameSide at l1
      refine ⟨?_, ?_, ?_⟩
      · unfold keyR sigR
        have := slotOf_even ns (c.getD t 0 / 2)
        have := slotOf_even ns ((c.getD ((t + 1) % ns.length) 0 ^^^ 1) / 2)
        omega
      · simp only [cfgRood, uvR_half, beq_iff_eq]
        rw [sigR_uvs P ep ns s inv _ ha, sigR_uvs P ep ns s inv _ hb']
        exact l2.symm
      · intro _ h
        have d1 := sigR_dir P ep ns s inv (c.getD t 0)
        have d2 := sigR_dir P ep ns s inv (c.getD ((t + 1) % ns.length) 0 ^^^ 1)
        have u1 := sigR_uvs P ep ns s inv _ ha
        have u2 := sigR_uvs P ep ns s inv _ hb'
        rw [hdir _ (by omega), hdir _ (by omega)] at l3
        unfold uvR at h
        rw [d1, d2, u1, u2, l2] at h
        have := dirF_lt ns (c.getD t 0 / 2)
        have := dirF_lt ns ((c.getD ((t + 1) % ns.length) 0 ^^^ 1) / 2)
        omega
    · intro a b ha hb' hab ⟨hk, hm⟩
      rw [hcg a ha, hcg b hb'] at hk hm
      apply hc.simple a b ha hb' hab
      have ea := slotOf_even ns (c.getD a 0 / 2)
      have eb := slotOf_even ns (c.getD b 0 / 2)
      refine ⟨?_, ?_⟩
      · unfold sameSide; unfold keyR sigR at hk; omega
      · simp only [cfgRood, uvR_half, beq_iff_eq] at hm
        rw [sigR_uvs P ep ns s inv _ (hclt a ha), sigR_uvs P ep ns s inv _ (hclt b hb')] at hm
        exact hm
  -- slot 0 is the entry slot of the first direction-0 edge
  have hsplit := cntBelow_split ns ns.length
  have hcpos : 0 < cntBelow (fun e => dirF ns e == 0) ns.length := by omega
  obtain ⟨e0', he0, hf0, hc0⟩ := cntBelow_pos _ _ hcpos
  have hd0 : dirF ns e0' = 0 := by simpa using hf0
  have hent0 : ent ns e0' = 0 := by unfold ent slotOf; rw [hd0, hc0]
  -- the step on entry slots
  have hstep : ∀ i j, i < 2 * ns.length → (∃ e, e < ns.length ∧ i = ent ns e) →
      Partner cfgRood keyR (uvR s) (2 * ns.length) i j →
      roodStep P ns.length s i = .ok (j ^^^ 1) ∧ ∃ e, e < ns.length ∧ j ^^^ 1 = ent ns e := by
    intro i j hi ⟨e, he, hie⟩ ⟨⟨p1, p2, p3⟩, p4, p5, p6⟩
    subst hie
    have hde := dirF_lt ns e
    have hev := slotOf_even ns e
    -- the edge of slot j
    have : j / 2 ∈ (List.range ns.length).map (fun e => slotOf ns e / 2) :=
      (medge_perm P ep ns s inv).mem_iff.mpr (List.mem_range.mpr (by omega))
    obtain ⟨e2, he2', hj2⟩ := List.mem_map.mp this
    have he2 := List.mem_range.mp he2'
    have hev2 := slotOf_even ns e2
    have hjpar : j % 2 = dirF ns e := by
      unfold keyR ent at p3; omega
    have hj : j = slotOf ns e2 + dirF ns e := by omega
    have hdj : (j / 2) % 2 = dirF ns e2 := by
      have := slotOf_dir ns e2
      rw [← hj2]; exact this
    have hdi : (ent ns e / 2) % 2 = dirF ns e := by
      have := slotOf_dir ns e
      unfold ent
      have : (slotOf ns e + dirF ns e) / 2 = slotOf ns e / 2 := by omega
      rw [this]; exact ‹slotOf ns e / 2 % 2 = dirF ns e›
    have hnode : s.uvs j = s.uvs (ent ns e) := by
      simp only [cfgRood, uvR_half, beq_iff_eq] at p4
      exact p4
    have hdd : dirF ns e2 ≠ dirF ns e := by
      intro h
      apply p6 rfl
      unfold uvR
      rw [hdj, hdi, hnode, h]
    -- node values at the two slots
    have huvs_i : s.uvs (ent ns e) = sideNode ep ns (dirF ns e) e := by
      unfold ent sideNode
      by_cases hz : dirF ns e = 0
      · rw [hz, if_pos rfl, Nat.add_zero]; exact inv.uvsU e he
      · have : dirF ns e = 1 := by omega
        rw [this, if_neg (by omega)]; exact inv.uvsV e he
    have huvs_side : ∀ e', e' < ns.length →
        s.uvs (slotOf ns e' + dirF ns e) = sideNode ep ns (dirF ns e) e' := by
      intro e' he'
      unfold sideNode
      by_cases hz : dirF ns e = 0
      · rw [hz, if_pos rfl, Nat.add_zero]; exact inv.uvsU e' he'
      · have : dirF ns e = 1 := by omega
        rw [this, if_neg (by omega)]; exact inv.uvsV e' he'
    have hsn : sideNode ep ns (dirF ns e) e2 = sideNode ep ns (dirF ns e) e := by
      rw [← huvs_side e2 he2, ← hj, hnode, huvs_i]
    have huniq : ∀ e', e' < ns.length → dirF ns e' ≠ dirF ns e →
        sideNode ep ns (dirF ns e) e' = sideNode ep ns (dirF ns e) e → e' = e2 := by
      intro e' he' hd' hs'
      have hev' := slotOf_even ns e'
      have hlt' := inv.lt e' he'
      have hne' : slotOf ns e' + dirF ns e ≠ ent ns e := by
        intro h
        unfold ent at h
        have := slotOf_inj ns e' e (by omega)
        exact hd' (by rw [this])
      have hoth : Other keyR (2 * ns.length) (ent ns e) (slotOf ns e' + dirF ns e) :=
        ⟨by omega, hne', by unfold keyR ent; omega⟩
      have hmt : cfgRood.mt (uvR s (slotOf ns e' + dirF ns e)) (uvR s (ent ns e)) = true := by
        simp only [cfgRood, uvR_half, beq_iff_eq]
        rw [huvs_side e' he', hs', huvs_i]
      have := p5 _ hoth hmt
      rw [hj] at this
      exact slotOf_inj ns e' e2 (by omega)
    have hstep := roodStep_complete_ent P ep ns s hbk inv e e2 he he2 hdd hsn huniq
    have hd2 := dirF_lt ns e2
    have hjx : j ^^^ 1 = ent ns e2 := by
      rw [hj, xor_one_eq]; unfold ent; split <;> omega
    rw [hjx]
    exact ⟨hstep, e2, he2, rfl⟩
  obtain ⟨tr, htr, htl⟩ := gcyc_trace mtEquiv_rood hG' hL
    (InE := fun i => ∃ e, e < ns.length ∧ i = ent ns e) ⟨e0', he0, hent0.symm⟩ hstep
  exact roodVerify_of_trace P ep ns hlen s hb hx tr htr htl

end GV.Pow
