import GrinVerif.Model.PmmrHandle
import GrinVerif.Lemmas.PmmrSound
/-! Helper lemmas for the handle state machine of `Model/PmmrHandle.lean`:

* a handle whose `size` lies inside its backend reads exactly what the view functions of
  `Model/Pmmr.lean` (`vRoot`, `vPeaks`, `vProof`, `validate` on the first `size` hashes) read;
* a handle positioned at the end of its backend pushes exactly as `Pmmr.push` does;
* `pushAll` over an appended list. -/
namespace GV.Pmmr

variable {α H : Type}

namespace Handle

/-- what `get_from_file` of a handle sees is the first `size` entries of the hash vector -/
theorem getFromFile_eq_take (h : Handle α H) :
    h.getFromFile = fun p => (h.be.hashes.take h.size)[p]? := by
  funext p
  simp only [getFromFile, VecBackend.getFromFile, List.getElem?_take]
  by_cases hp : p ≥ h.size
  · simp [hp, Nat.not_lt.mpr hp]
  · simp [hp, Nat.lt_of_not_ge hp]

theorem take_length (h : Handle α H) (hle : h.size ≤ h.be.hashes.length) :
    (h.be.hashes.take h.size).length = h.size := by
  rw [List.length_take]; omega

/-- the handle's view as a backend of `Model/Pmmr.lean` -/
def toV (h : Handle α H) : VBackend H := ⟨h.be.hashes, h.be.removed⟩

theorem peaks_eq_view (h : Handle α H) (hle : h.size ≤ h.be.hashes.length) :
    h.peaks = vPeaks h.toV h.size := by
  simp only [peaks, vPeaks, vFile, toV, peakHashes, take_length h hle, getFromFile_eq_take]

theorem root_eq_view (hf : HashFn α H) (h : Handle α H) (hle : h.size ≤ h.be.hashes.length) :
    h.root hf = vRoot hf h.toV h.size := by
  have hp := peaks_eq_view h hle
  simp only [vPeaks, vFile, toV] at hp
  simp only [root, vRoot, vFile, toV, Pmmr.root, take_length h hle, hp]
  rfl

theorem getHash_eq_view (h : Handle α H) (pos : Nat) :
    h.getHash pos = vGetHash h.toV h.size pos := by
  simp only [getHash, vGetHash, toV, VecBackend.getHash, VecBackend.getFromFile]
  by_cases hp : pos ≥ h.size
  · simp [hp]
  · by_cases hl : isLeaf pos = true
    · by_cases hr : h.be.removed.contains pos = true
      · simp [hp, hl]
      · simp [hp, hl]
    · simp [hp, hl]

theorem bagTheRhs_eq (hf : HashFn α H) (h : Handle α H) (hle : h.size ≤ h.be.hashes.length)
    (peakPos : Nat) :
    h.bagTheRhs hf peakPos = Pmmr.bagTheRhs hf (h.be.hashes.take h.size) peakPos := by
  simp only [bagTheRhs, Pmmr.bagTheRhs, take_length h hle, getFromFile_eq_take]

theorem peakPath_eq (hf : HashFn α H) (h : Handle α H) (hle : h.size ≤ h.be.hashes.length)
    (peakPos : Nat) :
    h.peakPath hf peakPos = Pmmr.peakPath hf (h.be.hashes.take h.size) peakPos := by
  simp only [peakPath, Pmmr.peakPath, bagTheRhs_eq hf h hle, take_length h hle,
    getFromFile_eq_take]
  rfl

/-- `merkle_proof` of a handle inside its backend is `vProof` of the view at its size -/
theorem merkleProof_eq_view (hf : HashFn α H) (h : Handle α H)
    (hle : h.size ≤ h.be.hashes.length) (pos : Nat) :
    h.merkleProof hf pos = vProof hf h.toV h.size pos := by
  unfold merkleProof vProof
  by_cases hl : isLeaf pos = true
  · simp only [hl, Bool.not_true, Bool.false_eq_true, if_false]
    rw [← getHash_eq_view]
    cases hg : h.getHash pos with
    | none => rfl
    | some x =>
      -- the view's own presence test succeeds as well
      have hlt : pos < h.size := by
        simp only [getHash] at hg
        by_cases hp : pos ≥ h.size
        · simp [hp] at hg
        · omega
      have hx : (h.be.hashes.take h.size)[pos]? = some x := by
        rw [List.getElem?_take, if_pos hlt]
        simp only [getHash, hl, if_true, VecBackend.getHash, VecBackend.getFromFile] at hg
        rw [if_neg (by omega)] at hg
        by_cases hc : h.be.removed.contains pos = true
        · rw [if_pos hc] at hg; cases hg
        · rw [if_neg hc] at hg; exact hg
      simp only [Pmmr.merkleProof, vFile, toV, hl, Bool.not_true, Bool.false_eq_true, if_false, hx,
        take_length h hle, peakPath_eq hf h hle, getFromFile_eq_take]
      rfl
  · have hl' : isLeaf pos = false := by simpa using hl
    simp [hl']

/-- `validate` of a handle inside its backend is `validate` of the first `size` hashes -/
theorem validate_eq (hf : HashFn α H) [DecidableEq H] (h : Handle α H)
    (hle : h.size ≤ h.be.hashes.length) :
    h.validate hf = Pmmr.validate hf (h.be.hashes.take h.size) := by
  unfold validate Pmmr.validate
  rw [take_length h hle]
  apply List.all_congr rfl
  intro n
  by_cases hh : height n > 0
  · have hl : isLeaf n = false := by
      simp only [isLeaf]; apply beq_false_of_ne; omega
    have hg : h.getHash n = h.getFromFile n := by
      simp only [getHash, getFromFile, hl, Bool.false_eq_true, if_false]
    simp only [hh, if_true, hg, getFromFile_eq_take]
    rfl
  · simp [hh]

/-- a handle positioned where its backend ends pushes as `Pmmr.push` does on the hash vector -/
theorem push_at_end (hf : HashFn α H) (h : Handle α H) (hsz : h.size = h.be.hashes.length) (e : α) :
    (∀ hs', Pmmr.push hf h.be.hashes e = some hs' →
        h.push hf e = .ok ⟨{ h.be with data := h.be.data.map (· ++ [e]), hashes := hs' }, hs'.length⟩)
    ∧ (Pmmr.push hf h.be.hashes e = none →
        h.push hf e = .badSize ∨ h.push hf e = .missingSibling) := by
  unfold push Pmmr.push
  rw [← hsz]
  by_cases hb : (peakMapHeight h.size).2 ≠ 0
  · simp [hb]
  · simp only [hb, if_false]
    cases hl : pushLoop hf h.be.hashes (peakMapHeight h.size).1 65 0 h.size (hf.leaf h.size e)
        [hf.leaf h.size e] with
    | none => simp
    | some new =>
      refine ⟨?_, by simp⟩
      intro hs' hs
      injection hs with hs
      subst hs
      simp [VecBackend.append, hsz]

end Handle

/-- `pushAll` over an appended list -/
theorem pushAll_app (hf : HashFn α H) : ∀ (xs ys : List α) (hs : List H),
    pushAll hf hs (xs ++ ys) = match pushAll hf hs xs with
      | none => none
      | some hs' => pushAll hf hs' ys
  | [], ys, hs => by simp [pushAll]
  | x :: xs, ys, hs => by
    simp only [List.cons_append, pushAll]
    cases push hf hs x with
    | none => rfl
    | some hs' => exact pushAll_app hf xs ys hs'

theorem pushAll_singleton (hf : HashFn α H) (hs : List H) (e : α) :
    pushAll hf hs [e] = push hf hs e := by
  simp only [pushAll]
  cases push hf hs e <;> rfl

end GV.Pmmr

/-! ### The handle as the MMR of an element list -/
namespace GV.Pmmr.Handle

variable {α H : Type}

/-- `Rep hf h xs`: the handle (backend and size) is the MMR of the element list `xs` - the hash
vector is the defining construction's, position by position, the data vector is `xs`, nothing is
pruned, and the size is that of `xs.length` leaves. -/
structure Rep (hf : HashFn α H) (h : Handle α H) (xs : List α) : Prop where
  hashes : h.be.hashes = Spec.Mmr.hashes hf xs
  data : h.be.data = some xs
  removed : h.be.removed = []
  size : h.size = mmr xs.length

/-- a handle is determined by the list it represents -/
theorem Rep.unique {hf : HashFn α H} {h h' : Handle α H} {xs : List α}
    (r : Rep hf h xs) (r' : Rep hf h' xs) : h = h' := by
  obtain ⟨⟨d, hs, rm⟩, sz⟩ := h
  obtain ⟨⟨d', hs', rm'⟩, sz'⟩ := h'
  obtain ⟨a1, a2, a3, a4⟩ := r
  obtain ⟨b1, b2, b3, b4⟩ := r'
  simp only at a1 a2 a3 a4 b1 b2 b3 b4
  subst a1 a2 a3 a4 b1 b2 b3 b4
  rfl

/-- the element list after one operation: `push` appends, `rewind(position)` keeps the leaves below
the least leaf position at or above `position` -/
def absStep (xs : List α) : Op α → List α
  | .push e => xs ++ [e]
  | .rewind p => xs.take (nLeaves (roundUpToLeafPos p))

/-- the element list after a history -/
def absRun (xs : List α) (ops : List (Op α)) : List α := ops.foldl absStep xs

/-- the histories a handle is meant for: a rewind targets a position at or below the current size
(anything else makes `PMMR::rewind` claim a size its backend does not have), and the number of
leaves stays below the `2^65` the model's push loop is fuelled for (the code's `u64` is smaller) -/
def Legal : List α → List (Op α) → Prop
  | _, [] => True
  | xs, .push e :: ops => xs.length < 2^65 ∧ Legal (xs ++ [e]) ops
  | xs, .rewind p :: ops => p ≤ mmr xs.length ∧ Legal (absStep xs (.rewind p)) ops

/-- without pruned leaves and at the end of the hash vector `vProof` is `merkleProof` -/
theorem vProof_no_removed (hf : HashFn α H) (hs : List H) (pos : Nat) :
    vProof hf ⟨hs, []⟩ hs.length pos = Pmmr.merkleProof hf hs pos := by
  unfold vProof Pmmr.merkleProof
  by_cases hl : isLeaf pos = true
  · simp only [hl, Bool.not_true, Bool.false_eq_true, if_false, vGetHash, vFile, List.take_length]
    by_cases hp : pos ≥ hs.length
    · simp [hp]
    · cases hs[pos]? with
      | none => simp [hp]
      | some x => simp [hp]
  · have hl' : isLeaf pos = false := by simpa using hl
    simp [hl']

end GV.Pmmr.Handle
