import GrinVerif.Lemmas.SegForest
import GrinVerif.Lemmas.SegComplete
/-! The honest segment of an unpruned MMR (`Segment::from_pmmr(.., prunable = false)` over a Vec
backend): its leaf list, its root (subtree root for a full segment, the bagged peaks for the final
one), relative to the hash vector `allHashes hf f N` that `PMMR::push` builds (C07).  The node law
is discharged here from the `(n, h)` coordinates of C07, not assumed.  Core Lean only. -/
namespace GV.Seg
open GV GV.Pmmr

variable {α H : Type}

/-! ### the committed hash / leaf data at a position -/

/-- the hash `PMMR::push` leaves at position `q` (C07: `allHashes[q] = nodeHash (coordinates of q)`) -/
def hAt (hf : HashFn α H) (f : Nat → α) (q : Nat) : H :=
  Co.nodeHash hf f (peakMapHeight q).1 (peakMapHeight q).2

/-- the element whose leaf sits at position `q` -/
def dAt (f : Nat → α) (q : Nat) : α := f (peakMapHeight q).1

theorem hAt_coord (hf : HashFn α H) (f : Nat → α) (n h : Nat) (hh : h ≤ trailingOnes n) :
    hAt hf f (mmr n + h) = Co.nodeHash hf f n h := by
  simp only [hAt, Co.peakMapHeight_co n h hh]

theorem hAt_cpos (hf : HashFn α H) (f : Nat → α) (c : Nat × Nat) (hc : c.2 ≤ trailingOnes c.1) :
    hAt hf f (Co.cpos c) = Co.nh hf f c := hAt_coord hf f c.1 c.2 hc

theorem dAt_leaf (f : Nat → α) (n : Nat) : dAt f (mmr n) = f n := by
  simp only [dAt, Co.peakMapHeight_leaf]

theorem hAt_leafLaw (hf : HashFn α H) (f : Nat → α) :
    ∀ q, height q = 0 → hAt hf f q = hf.leaf q (dAt f q) := by
  intro q hq
  obtain ⟨n, h, hh, rfl⟩ := Co.coord_surj q
  rw [Co.height_co n h hh] at hq
  subst hq
  simp only [Nat.add_zero, hAt, dAt, Co.peakMapHeight_leaf, Co.nodeHash]

theorem hAt_nodeLaw (hf : HashFn α H) (f : Nat → α) :
    ∀ q k, height q = k + 1 →
      hAt hf f q = hf.node q (hAt hf f (q - 2 ^ (k + 1))) (hAt hf f (q - 1)) := by
  intro q k hq
  obtain ⟨n, h, hh, rfl⟩ := Co.coord_surj q
  rw [Co.height_co n h hh] at hq
  subst hq
  obtain ⟨h1, h2, h3, _⟩ := Co.left_sibling_coord (show k < trailingOnes n from hh)
  have hp := two_pow_succ k
  have hpos : 0 < 2 ^ k := Nat.pow_pos (by omega)
  have eL : mmr n + (k + 1) - 2 ^ (k + 1) = mmr (n - 2 ^ k) + k := by omega
  have eR : mmr n + (k + 1) - 1 = mmr n + k := by omega
  rw [eL, eR, hAt_coord hf f n (k + 1) hh, hAt_coord hf f (n - 2 ^ k) k h1,
    hAt_coord hf f n k (by omega)]
  rfl

/-- the vector `PMMR::push` builds holds `hAt` at every position -/
theorem allHashes_hAt (hf : HashFn α H) (f : Nat → α) (N q : Nat) (hq : q < mmr N) :
    (Co.allHashes hf f N)[q]? = some (hAt hf f q) := by
  obtain ⟨n, h, hh, rfl⟩ := Co.coord_surj q
  rw [hAt_coord hf f n h hh]
  exact Co.allHashes_getElem? hf f N n h ((Co.coord_lt_iff hh).1 hq) hh

/-! ### the loop of `Segment::root` over a list of complete subtrees -/

theorem rootLoop_tiles_complete (hf : HashFn α H) (s : Segment α H) (size : Nat) (f : Nat → α) :
    ∀ (l : List (Nat × Nat)) (stk : List (Option H)) (rest : List (Nat × α)),
      (∀ c ∈ l, c.2 ≤ trailingOnes c.1) →
      rootLoop hf s none size (stk, leavesOf (dAt f) (tiles l) ++ rest) (tiles l)
        = .ok ((l.map fun c => some (Co.nh hf f c)).reverse ++ stk, rest) := by
  intro l
  induction l with
  | nil => intro stk rest _; simp [tiles, leavesOf, rootLoop]
  | cons c l ih =>
    intro stk rest hv
    have hc := hv c (List.mem_cons_self ..)
    have hh : height (Co.cpos c) = c.2 := GV.Props.C07.height_coord c.1 c.2 hc
    rw [tiles_cons, leavesOf_append, List.append_assoc, rootLoop_append,
      rootLoop_tree_complete hf s size (hAt hf f) (dAt f) (hAt_leafLaw hf f) (hAt_nodeLaw hf f)
        c.2 (Co.cpos c) stk _ hh]
    simp only
    rw [ih _ rest (fun x hx => hv x (List.mem_cons_of_mem _ hx)), hAt_cpos hf f c hc]
    simp

/-! ### the peak-bagging loop at the end of `Segment::root` -/

/-- one step of the bagging loop -/
def bagStep (hf : HashFn α H) (size : Nat) (acc : Option H) (l : H) : Option H :=
  match acc with
  | none => some l
  | some r => some (hf.node size l r)

theorem bagPeaks_all_some (hf : HashFn α H) (s : Segment α H) (bm : Option (Nat → Bool)) (size : Nat) :
    ∀ (ts : List H) (pks : List Nat) (acc : Option H) (stk : List (Option H)),
      pks.length = ts.length →
      bagPeaks hf s bm size (ts.map some ++ stk) acc pks = .ok (ts.foldl (bagStep hf size) acc) := by
  intro ts
  induction ts with
  | nil =>
    intro pks acc stk hl
    have : pks = [] := List.length_eq_zero_iff.1 (by simpa using hl)
    subst this
    simp [bagPeaks]
  | cons t ts ih =>
    intro pks acc stk hl
    cases pks with
    | nil => simp at hl
    | cons p ps =>
      simp only [List.map_cons, List.cons_append, bagPeaks, Option.isNone_some, Bool.false_and,
        Bool.false_eq_true, if_false, List.foldl_cons]
      rw [ih ps _ stk (by simpa using hl)]
      rfl

theorem bag_eq_foldl (hf : HashFn α H) (size : Nat) (xs : List H) :
    bag hf size xs = xs.reverse.foldl (bagStep hf size) none := by
  rw [List.foldl_reverse]
  induction xs with
  | nil => rfl
  | cons p ps ih =>
    simp only [bag, List.foldr_cons, ← ih]
    cases bag hf size ps <;> rfl

theorem bag_append (hf : HashFn α H) (size : Nat) (B : List H) (b : H) (hB : bag hf size B = some b) :
    ∀ A, bag hf size (A ++ B) = some (A.foldr (fun x acc => hf.node size x acc) b) := by
  intro A
  induction A with
  | nil => simpa using hB
  | cons a A ih => simp [bag, ih]

/-- a peak hash with the bagged peaks to its right (if any) -/
def bagOnto (hf : HashFn α H) (size : Nat) (p : H) : Option H → H
  | none => p
  | some r => hf.node size p r

theorem bagOnto_none (hf : HashFn α H) (size : Nat) (p : H) : bagOnto hf size p none = p := rfl
theorem bagOnto_some (hf : HashFn α H) (size : Nat) (p r : H) :
    bagOnto hf size p (some r) = hf.node size p r := rfl

theorem bag_cons_match (hf : HashFn α H) (size : Nat) (p : H) (R : List H) :
    bag hf size (p :: R) = some (bagOnto hf size p (bag hf size R)) := by
  simp only [bag]
  cases bag hf size R <;> rfl

theorem filter_const_true {β : Type} (l : List β) : l.filter (fun _ => true) = l :=
  List.filter_eq_self.2 (fun _ _ => rfl)

/-! ### `from_pmmr` over an unpruned view, `prunable = false` -/

theorem fill_unpruned (v : View α H) (dataAt : Nat → α) : ∀ (ps : List Nat),
    (∀ p ∈ ps, height p = 0 → v.dataFromFile p = some (dataAt p)) →
    fill v false ps = .ok ([], leavesOf dataAt ps) := by
  intro ps
  induction ps with
  | nil => intro _; rfl
  | cons p ps ih =>
    intro h
    have ih' := ih (fun q hq => h q (List.mem_cons_of_mem _ hq))
    by_cases hp : height p = 0
    · have hd := h p (List.mem_cons_self ..) hp
      have hl : isLeaf p = true := by simp [isLeaf, hp]
      simp only [fill, hl, if_true, hd, Option.isNone_some, Bool.and_false, Bool.false_and,
        Bool.false_eq_true, if_false, ih', Bool.not_false]
      simp [leavesOf, hp]
    · have hl : isLeaf p = false := by simp [isLeaf, hp]
      simp only [fill, hl, Bool.false_eq_true, if_false, Bool.false_and, ih']
      simp [leavesOf, hp]

theorem nLeaves_succ_leaf (j : Nat) : nLeaves (1 + mmr j) = j + 1 := by
  rw [Nat.add_comm]
  by_cases ht : trailingOnes j = 0
  · have : mmr j + 1 = mmr (j + 1) := by rw [mmr_succ]; omega
    rw [this]; exact GV.Props.C07.nLeaves_at_leaf_boundary (j + 1)
  · exact GV.Props.C07.nLeaves_mid j 1 (by omega) (by omega)

/-- the Vec-backed view of the MMR of `f 0 … f (N-1)` holds the data of every leaf -/
theorem vecView_data (hf : HashFn α H) (f : Nat → α) (N p : Nat) (hp : p < mmr N) (hl : height p = 0) :
    (vecView (Co.allHashes hf f N) ((List.range N).map f)).dataFromFile p = some (dAt f p) := by
  obtain ⟨n, h, hh, rfl⟩ := Co.coord_surj p
  rw [Co.height_co n h hh] at hl
  subst hl
  simp only [Nat.add_zero] at hp ⊢
  have hn : n < N := (Co.coord_lt_iff (Nat.zero_le _)).1 (by simpa using hp)
  simp only [vecView, Co.allHashes_length, hp, if_true, nLeaves_succ_leaf, dAt_leaf]
  simp [hn]

theorem vecView_hash (hf : HashFn α H) (f : Nat → α) (N p : Nat) (hp : p < mmr N) (d : List α) :
    (vecView (Co.allHashes hf f N) d).hash p = some (hAt hf f p) ∧
    (vecView (Co.allHashes hf f N) d).fromFile p = some (hAt hf f p) :=
  ⟨allHashes_hAt hf f N p hp, allHashes_hAt hf f N p hp⟩

theorem leavesOf_zip (dataAt : Nat → α) (ps : List Nat) :
    ((leavesOf dataAt ps).map (·.1)).zip ((leavesOf dataAt ps).map (·.2)) = leavesOf dataAt ps :=
  (List.zip_of_prod rfl rfl).symm

theorem leavesOf_cons_leaf (dataAt : Nat → α) (p : Nat) (ps : List Nat) (hp : height p = 0) :
    leavesOf dataAt (p :: ps) = (p, dataAt p) :: leavesOf dataAt ps := by
  simp [leavesOf, hp]

theorem collectHashes_map (get : Nat → Option H) (g : Nat → H) : ∀ (ps : List Nat),
    (∀ p ∈ ps, get p = some (g p)) → collectHashes get ps = .ok (ps.map g) := by
  intro ps
  induction ps with
  | nil => intro _; rfl
  | cons p ps ih =>
    intro h
    simp only [collectHashes, h p (List.mem_cons_self ..),
      ih (fun q hq => h q (List.mem_cons_of_mem _ hq)), List.map_cons]

end GV.Seg
