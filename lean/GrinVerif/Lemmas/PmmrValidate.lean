import GrinVerif.Model.Pmmr
/-! `PMMR::validate` (core/src/core/pmmr/pmmr.rs) characterised: it accepts a hash file exactly
when every inner node holds the hash of its two children with its own position (the *node law*);
and a hash file that satisfies the node law is determined by the hashes at its leaf positions. -/
namespace GV.Pmmr
variable {α H : Type}

/-- the node law at position `n` of a hash file -/
def NodeLawAt (hf : HashFn α H) (hashes : List H) (n : Nat) : Prop :=
  0 < height n → ∀ p l r, hashes[n]? = some p → hashes[n - 2 ^ height n]? = some l →
    hashes[n - 1]? = some r → hf.node n l r = p

/-- **`validate` accepts exactly the hash files that satisfy the node law at every position** -/
theorem validate_iff [DecidableEq H] (hf : HashFn α H) (hashes : List H) :
    validate hf hashes = true ↔ ∀ n, n < hashes.length → NodeLawAt hf hashes n := by
  unfold validate
  rw [List.all_eq_true]
  constructor
  · intro h n hn hpos p l r hp hl hr
    have := h n (List.mem_range.mpr hn)
    simp only at this
    rw [if_pos hpos, hp, hl, hr] at this
    simpa using this
  · intro h n hn
    have hn' := List.mem_range.mp hn
    simp only
    split
    · rename_i hpos
      split
      · rename_i p l r hp hl hr
        have := h n hn' hpos p l r hp hl hr
        simp [this]
      · rfl
    · rfl

theorem height_zero : height 0 = 0 := by decide

/-- **two hash files of the same length that both pass `validate` and agree at every leaf position
are equal**: the inner nodes are determined (induction on the position; the children of an inner
node sit at smaller positions) -/
theorem validate_unique [DecidableEq H] (hf : HashFn α H) (a b : List H) (hlen : a.length = b.length)
    (ha : validate hf a = true) (hb : validate hf b = true)
    (hleaf : ∀ n, height n = 0 → a[n]? = b[n]?) : a = b := by
  rw [validate_iff] at ha hb
  apply List.ext_getElem? 
  intro n
  induction n using Nat.strongRecOn with
  | ind n ih =>
    by_cases hh : height n = 0
    · exact hleaf n hh
    · have hpos : 0 < height n := Nat.pos_of_ne_zero hh
      by_cases hn : n < a.length
      · have hn0 : n ≠ 0 := by
          intro h0; rw [h0, height_zero] at hh; exact hh rfl
        have hp2 : 0 < 2 ^ height n := Nat.pow_pos (by omega)
        have hl : a[n - 2 ^ height n]? = b[n - 2 ^ height n]? := ih _ (by omega)
        have hr : a[n - 1]? = b[n - 1]? := ih _ (by omega)
        have hnb : n < b.length := hlen ▸ hn
        have ea : a[n]? = some a[n] := List.getElem?_eq_getElem hn
        have eb : b[n]? = some b[n] := List.getElem?_eq_getElem hnb
        have hla : n - 2 ^ height n < a.length := by omega
        have hra : n - 1 < a.length := by omega
        have el : a[n - 2 ^ height n]? = some a[n - 2 ^ height n] := List.getElem?_eq_getElem hla
        have er : a[n - 1]? = some a[n - 1] := List.getElem?_eq_getElem hra
        have h1 := ha n hn hpos _ _ _ ea el er
        have h2 := hb n hnb hpos _ _ _ eb (hl ▸ el) (hr ▸ er)
        rw [ea, eb, ← h1, ← h2]
      · have hnb : ¬ n < b.length := hlen ▸ hn
        rw [List.getElem?_eq_none (by omega), List.getElem?_eq_none (by omega)]

end GV.Pmmr
