import GrinVerif.Lemmas.StoreBitmap
/-! File-layer laws (`AppendOnlyFile`, `LeafSet`) and the unit-of-work laws of the backend
(`discard` undoes a unit, `sync` then reopen is the identity). Core Lean only. -/
namespace GV.Store
open GV GV.Pmmr

namespace AOF
variable {E : Type}

/-- a synced file: nothing buffered, not rewound -/
def Clean (f : AOF E) : Prop := f.buffer = [] ∧ f.bak = 0 ∧ f.bsp = f.disk.length

theorem ofDisk_clean (d : List E) : Clean (ofDisk d) := ⟨rfl, rfl, rfl⟩

theorem flush_clean (f : AOF E) : Clean f.flush := ⟨rfl, rfl, rfl⟩

/-- reopening a synced file is the identity -/
theorem ofDisk_of_clean {f : AOF E} (h : Clean f) : ofDisk f.disk = f := by
  obtain ⟨h1, h2, h3⟩ := h
  cases f; simp_all [ofDisk]

theorem reopen_flush (f : AOF E) : ofDisk f.flush.disk = f.flush := ofDisk_of_clean (flush_clean f)

theorem read_clean {f : AOF E} (h : Clean f) (pos : Nat) : f.read pos = f.disk[pos]? := by
  obtain ⟨h1, h2, h3⟩ := h
  unfold read sizeUnsyncInElmts
  rw [h1, h3]; simp only [List.length_nil, Nat.add_zero]
  split
  · rename_i hge; rw [List.getElem?_eq_none (by omega)]
  · rename_i hlt; rw [if_pos (by omega)]

/-- `read` sees an element appended to the buffer at the position it was given -/
theorem read_append_new (f : AOF E) (e : E) : (f.append e).read f.sizeUnsyncInElmts = some e := by
  obtain ⟨disk, buffer, bsp, bak⟩ := f
  show (if bsp + buffer.length ≥ bsp + (buffer ++ [e]).length then none
    else if bsp + buffer.length < bsp then disk[bsp + buffer.length]?
    else (buffer ++ [e])[bsp + buffer.length - bsp]?) = some e
  have h1 : ¬ bsp + buffer.length ≥ bsp + (buffer ++ [e]).length := by simp
  have h2 : ¬ bsp + buffer.length < bsp := by omega
  rw [if_neg h1, if_neg h2]
  simp

/-- … and appending does not disturb what was readable before -/
theorem read_append_old (f : AOF E) (e : E) (pos : Nat) (h : pos < f.sizeUnsyncInElmts) :
    (f.append e).read pos = f.read pos := by
  obtain ⟨disk, buffer, bsp, bak⟩ := f
  have h : pos < bsp + buffer.length := h
  show (if pos ≥ bsp + (buffer ++ [e]).length then none
    else if pos < bsp then disk[pos]? else (buffer ++ [e])[pos - bsp]?) =
    (if pos ≥ bsp + buffer.length then none
    else if pos < bsp then disk[pos]? else buffer[pos - bsp]?)
  have h1 : ¬ pos ≥ bsp + (buffer ++ [e]).length := by simp; omega
  have h2 : ¬ pos ≥ bsp + buffer.length := by omega
  rw [if_neg h1, if_neg h2]
  by_cases h3 : pos < bsp
  · rw [if_pos h3, if_pos h3]
  · rw [if_neg h3, if_neg h3, List.getElem?_append_left (by omega)]

/-- after a rewind to `p` and re-appending `es`, reads go through the buffer and return exactly
the rewound-and-extended sequence -/
theorem read_rewind_extend {f : AOF E} (h : Clean f) (p : Nat) (hp : p ≤ f.disk.length)
    (es : List E) (i : Nat) :
    ((f.rewind p).extend es).read i = (f.disk.take p ++ es)[i]? := by
  obtain ⟨h1, h2, h3⟩ := h
  unfold rewind extend read sizeUnsyncInElmts
  simp only [h1, List.nil_append]
  split
  · rename_i hge
    rw [List.getElem?_eq_none (by simp [List.length_take, Nat.min_eq_left hp]; omega)]
  · rename_i hlt
    split
    · rename_i hlt2
      rw [List.getElem?_append_left (by simp [List.length_take]; omega), List.getElem?_take_of_lt hlt2]
    · rename_i hge2
      rw [List.getElem?_append_right (by simp [List.length_take]; omega)]
      simp [List.length_take, Nat.min_eq_left hp]

/-- `rewind` then `flush` truncates the file to the rewind point and appends the buffer -/
theorem flush_rewind_extend {f : AOF E} (h : Clean f) (p : Nat) (es : List E) :
    ((f.rewind p).extend es).flush.disk = f.disk.take p ++ es := by
  obtain ⟨h1, h2, h3⟩ := h
  unfold rewind extend flush
  simp only [h1, h2, List.nil_append, if_true]
  by_cases hL : 0 < f.disk.length
  · rw [h3, if_pos hL]
  · have : f.disk = [] := List.eq_nil_of_length_eq_zero (by omega)
    rw [h3]; simp [this]

/-- operations of one unit of work on a file -/
inductive Op (E : Type)
  | append (e : E)
  | extend (es : List E)
  | rewind (pos : Nat)

def Op.apply (f : AOF E) : Op E → AOF E
  | .append e => f.append e
  | .extend es => f.extend es
  | .rewind p => f.rewind p

/-- every rewind of the unit targets a position inside the synced file -/
def Op.Within (n : Nat) : Op E → Prop
  | .rewind p => p ≤ n
  | _ => True

/-- state of a file inside a unit that started from the synced content `d` -/
def InUnit (d : List E) (f : AOF E) : Prop :=
  f.disk = d ∧ ((f.bak = 0 ∧ f.bsp = d.length) ∨ (f.bak = d.length ∧ 0 < d.length))

theorem inUnit_of_clean {f : AOF E} (h : Clean f) : InUnit f.disk f :=
  ⟨rfl, Or.inl ⟨h.2.1, h.2.2⟩⟩

theorem inUnit_apply {d : List E} {f : AOF E} (h : InUnit d f) (op : Op E) (hw : op.Within d.length) :
    InUnit d (op.apply f) := by
  obtain ⟨hd, hb⟩ := h
  cases op with
  | append e => exact ⟨hd, hb⟩
  | extend es => exact ⟨hd, hb⟩
  | rewind p =>
    have hp : p ≤ d.length := hw
    refine ⟨hd, ?_⟩
    simp only [Op.apply, AOF.rewind]
    rcases hb with ⟨h1, h2⟩ | ⟨h1, h2⟩
    · by_cases hL : 0 < d.length
      · right; rw [if_pos h1]; exact ⟨h2, hL⟩
      · left; rw [if_pos h1]; exact ⟨by omega, by omega⟩
    · right
      have : ¬ f.bak = 0 := by omega
      rw [if_neg this]; exact ⟨h1, h2⟩

theorem inUnit_foldl {d : List E} (ops : List (Op E)) {f : AOF E} (h : InUnit d f)
    (hw : ∀ op ∈ ops, op.Within d.length) : InUnit d (ops.foldl Op.apply f) := by
  induction ops generalizing f with
  | nil => exact h
  | cons op ops ih =>
    exact ih (inUnit_apply h op (hw op (by simp))) (fun o ho => hw o (by simp [ho]))

theorem discard_of_inUnit {d : List E} {f : AOF E} (h : InUnit d f) : f.discard = ofDisk d := by
  obtain ⟨hd, hb⟩ := h
  unfold discard ofDisk
  rcases hb with ⟨h1, h2⟩ | ⟨h1, h2⟩
  · simp [hd, h1, h2]
  · have hpos : f.bak > 0 := by omega
    simp only [hd, h1]
    simp [h2]

/-- **`discard` after any operations of one unit restores the synced file** -/
theorem discard_unit {f : AOF E} (h : Clean f) (ops : List (Op E))
    (hw : ∀ op ∈ ops, op.Within f.disk.length) : (ops.foldl Op.apply f).discard = f := by
  rw [discard_of_inUnit (inUnit_foldl ops (inUnit_of_clean h) hw), ofDisk_of_clean h]

end AOF

namespace LeafSet

/-- a synced leaf set -/
def Clean (ls : LeafSet) : Prop := ls.bitmap = ls.bak

theorem flush_clean (ls : LeafSet) : Clean ls.flush := rfl
theorem reopen_flush (ls : LeafSet) : ls.flush.reopen = ls.flush := rfl
theorem discard_of_clean_bak {ls0 ls : LeafSet} (h : Clean ls0) (hb : ls.bak = ls0.bak) :
    ls.discard = ls0 := by
  cases ls0; cases ls; simp_all [discard, Clean]

theorem includes_add (ls : LeafSet) (p q : Nat) :
    (ls.add p).includes q = (decide (q = p) || ls.includes q) := by
  unfold add includes
  rw [Bool.eq_iff_iff]
  simp only [contains_iff, mem_add, Bool.or_eq_true, decide_eq_true_eq]
  constructor
  · rintro (h | h)
    · left; omega
    · right; exact h
  · rintro (h | h)
    · left; omega
    · right; exact h

theorem includes_remove (ls : LeafSet) (p q : Nat) :
    (ls.remove p).includes q = (!decide (q = p) && ls.includes q) := by
  unfold remove includes
  rw [Bool.eq_iff_iff]
  simp only [contains_iff, mem_remove, Bool.and_eq_true, Bool.not_eq_true', decide_eq_false_iff_not]
  constructor
  · rintro ⟨h1, h2⟩; exact ⟨by omega, h1⟩
  · rintro ⟨h1, h2⟩; exact ⟨h2, by omega⟩

/-- `rewind`: a position is in the rewound set iff it was in the set at or below the cutoff, or
is one of the re-added positions -/
theorem mem_rewind (ls : LeafSet) (cutoff : Nat) (rm : Bitmap) (hs : Sorted ls.bitmap) (x : Nat) :
    x ∈ (ls.rewind cutoff rm).bitmap ↔ (x ∈ ls.bitmap ∧ x ≤ cutoff) ∨ x ∈ rm := by
  unfold rewind
  simp only [mem_or, mem_removeRange]
  constructor
  · rintro (⟨h1, h2⟩ | h)
    · left; refine ⟨h1, ?_⟩
      have := le_maximum_of_sorted hs x h1
      omega
    · right; exact h
  · rintro (⟨h1, h2⟩ | h)
    · left; exact ⟨h1, by omega⟩
    · right; exact h

theorem mem_and {a b : Bitmap} {y : Nat} : y ∈ Bm.and a b ↔ y ∈ a ∧ y ∈ b := by
  simp [Bm.and, Bm.contains]

theorem mem_flip {b : Bitmap} {lo hi y : Nat} :
    y ∈ Bm.flip b lo hi ↔ (y ∈ b ∧ (y < lo ∨ hi ≤ y)) ∨ (lo ≤ y ∧ y < hi ∧ y ∉ b) := by
  simp only [Bm.flip, List.mem_append, List.mem_filter, List.mem_range', Bm.contains,
    decide_eq_true_eq, Bool.not_eq_true', List.elem_eq_mem, decide_eq_false_iff_not]
  constructor
  · rintro ((⟨h1, h2⟩ | ⟨⟨i, hi1, rfl⟩, h2⟩) | ⟨h1, h2⟩)
    · left; exact ⟨h1, Or.inl h2⟩
    · right; exact ⟨by omega, by omega, h2⟩
    · left; exact ⟨h1, Or.inr h2⟩
  · rintro (⟨h1, h2 | h2⟩ | ⟨h1, h2, h3⟩)
    · left; left; exact ⟨h1, h2⟩
    · right; exact ⟨h1, h2⟩
    · left; right; exact ⟨⟨y - lo, by omega, by omega⟩, h3⟩

/-- **compaction only ever selects spent leaves at or below the cutoff**: a position chosen by
`removed_pre_cutoff` is a leaf position `≤ cutoff_pos`, not yet pruned, that is neither in the
leaf set (unspent) nor in `rewind_rm_pos` (spent after the cutoff, must stay for rewinds) -/
theorem mem_removedPreCutoff {ls : LeafSet} {cutoff : Nat} {rm : Bitmap} {pl : PruneList} {x : Nat}
    (h : x ∈ ls.removedPreCutoff cutoff rm pl) :
    1 ≤ x ∧ x ≤ cutoff ∧ x ∉ ls.bitmap ∧ x ∉ rm ∧ isLeaf (x - 1) = true ∧ pl.isPruned (x - 1) = false := by
  unfold removedPreCutoff at h
  rw [mem_and, mem_flip] at h
  obtain ⟨hf, hu⟩ := h
  unfold unprunedPreCutoff at hu
  simp only [List.mem_filter, List.mem_range', Bool.and_eq_true, Bool.not_eq_true'] at hu
  obtain ⟨⟨i, hi1, rfl⟩, hleaf, hnp⟩ := hu
  rcases hf with ⟨_, h2⟩ | ⟨h1, h2, h3⟩
  · omega
  · rw [mem_or, mem_removeRange] at h3
    refine ⟨by omega, by omega, ?_, ?_, hleaf, hnp⟩
    · intro hm; exact h3 (Or.inl ⟨hm, by omega⟩)
    · intro hm; exact h3 (Or.inr hm)

end LeafSet

/-! ## Backend: a unit of work (fixed-size data file) -/

namespace Backend
variable {H : Type}

/-- operations of one unit of work on the backend -/
inductive Op (H : Type)
  | append (data : Bytes) (hashes : List H)
  | remove (pos0 : Nat)
  | rewind (position : Nat) (rm : Bitmap)

def Op.apply (b : Backend H) : Op H → Backend H
  | .append data hashes => (b.append data hashes).getD b
  | .remove p => b.remove p
  | .rewind p rm => b.rewind p rm

/-- a synced backend with a fixed-size data file -/
structure CleanFixed (b : Backend H) (df : AOF Bytes) : Prop where
  hash : b.hashFile.Clean
  data : b.dataFile = .fixed df
  dataClean : df.Clean
  leaf : b.leafSet.Clean

/-- the file positions a `rewind(position, _)` asks for lie inside the synced files (usage
protocol: rewind targets are earlier committed sizes not below the last compaction cutoff) -/
def Op.Within (b0 : Backend H) (df0 : AOF Bytes) : Op H → Prop
  | .rewind position _ =>
    position - (if position = 0 then 0 else b0.pruneList.getShift (position - 1)) ≤ b0.hashFile.disk.length ∧
    nLeaves position - (if position = 0 then 0 else b0.pruneList.getLeafShift position) ≤ df0.disk.length
  | _ => True

/-- what stays fixed / in-unit while a unit of work runs -/
structure InUnit (b0 : Backend H) (df0 : AOF Bytes) (b : Backend H) : Prop where
  pl : b.pruneList = b0.pruneList
  pf : b.pruneFile = b0.pruneFile
  hash : AOF.InUnit b0.hashFile.disk b.hashFile
  data : ∃ df, b.dataFile = .fixed df ∧ AOF.InUnit df0.disk df
  leaf : b.leafSet.bak = b0.leafSet.bak

theorem inUnit_apply {b0 b : Backend H} {df0 : AOF Bytes} (h : InUnit b0 df0 b) (op : Op H)
    (hw : op.Within b0 df0) : InUnit b0 df0 (op.apply b) := by
  obtain ⟨hpl, hpf, hh, ⟨df, hdf, hd⟩, hl⟩ := h
  cases op with
  | append data hashes =>
    simp only [Op.apply, Backend.append, hdf, DFile.append]
    exact ⟨hpl, hpf, AOF.inUnit_apply hh (.extend hashes) trivial,
      ⟨_, rfl, AOF.inUnit_apply hd (.append data) trivial⟩, hl⟩
  | remove p => exact ⟨hpl, hpf, hh, ⟨df, hdf, hd⟩, hl⟩
  | rewind position rm =>
    obtain ⟨hw1, hw2⟩ := hw
    simp only [Op.apply, Backend.rewind, hdf, DFile.rewind, hpl]
    exact ⟨rfl, hpf, AOF.inUnit_apply hh (.rewind _) hw1,
      ⟨_, rfl, AOF.inUnit_apply hd (.rewind _) hw2⟩, hl⟩

theorem inUnit_foldl {b0 : Backend H} {df0 : AOF Bytes} (ops : List (Op H)) {b : Backend H}
    (h : InUnit b0 df0 b) (hw : ∀ op ∈ ops, op.Within b0 df0) :
    InUnit b0 df0 (ops.foldl Op.apply b) := by
  induction ops generalizing b with
  | nil => exact h
  | cons op ops ih =>
    exact ih (inUnit_apply h op (hw op (by simp))) (fun o ho => hw o (by simp [ho]))

/-- **`discard` after any operations of one unit of work restores the synced backend** -/
theorem discard_unit {b : Backend H} {df : AOF Bytes} (hc : CleanFixed b df) (ops : List (Op H))
    (hw : ∀ op ∈ ops, op.Within b df) : (ops.foldl Op.apply b).discard = b := by
  have h0 : InUnit b df b :=
    ⟨rfl, rfl, AOF.inUnit_of_clean hc.hash, ⟨df, hc.data, AOF.inUnit_of_clean hc.dataClean⟩, rfl⟩
  obtain ⟨hpl, hpf, hh, ⟨df', hdf, hd⟩, hl⟩ := inUnit_foldl ops h0 hw
  have e1 := AOF.discard_of_inUnit hh
  have e2 := AOF.discard_of_inUnit hd
  have e3 := LeafSet.discard_of_clean_bak hc.leaf hl
  rw [AOF.ofDisk_of_clean hc.hash] at e1
  rw [AOF.ofDisk_of_clean hc.dataClean] at e2
  have hdata := hc.data
  generalize ops.foldl Op.apply b = b' at *
  cases b; cases b'
  simp only [discard, DFile.discard] at *
  subst hpl hpf
  simp_all

/-! ### nothing reaches the disk before `sync` (fixed- and variable-size data files) -/

end Backend

/-- the durable part of a data file: the file itself and, for variable-size elements, its size
file -/
def DFile.onDisk : DFile → List Bytes × List SizeEntry
  | .fixed f => (f.disk, [])
  | .var v => ([v.disk], v.sizeFile.disk)

/-- everything of a backend that is on disk: hash file, data file (+ size file), leaf-set file,
prune-list file -/
def Backend.onDisk {H : Type} (b : Backend H) : List H × (List Bytes × List SizeEntry) × Bitmap × Bitmap :=
  (b.hashFile.disk, b.dataFile.onDisk, b.leafSet.bak, b.pruneFile)

theorem DFile.onDisk_append {d d' : DFile} {e : Bytes} {n : Nat} (h : d.append e = some (d', n)) :
    d'.onDisk = d.onDisk := by
  cases d with
  | fixed f =>
    simp only [DFile.append, Option.some.injEq, Prod.mk.injEq] at h
    rw [← h.1]; rfl
  | var v =>
    simp only [DFile.append] at h
    cases hv : VarFile.append v e with
    | none => rw [hv] at h; exact absurd h (by simp)
    | some v' =>
      rw [hv] at h
      simp only [Option.some.injEq, Prod.mk.injEq] at h
      rw [← h.1]
      unfold VarFile.append at hv
      dsimp only at hv
      split at hv
      · exact absurd hv (by simp)
      · simp only [Option.some.injEq] at hv
        rw [← hv]; rfl

theorem DFile.onDisk_rewind (d : DFile) (pos : Nat) : (d.rewind pos).onDisk = d.onDisk := by
  cases d <;> rfl

theorem DFile.onDisk_discard (d : DFile) : d.discard.onDisk = d.onDisk := by
  cases d <;> rfl

namespace Backend
variable {H : Type}

theorem onDisk_apply (b : Backend H) (op : Op H) : (op.apply b).onDisk = b.onDisk := by
  cases op with
  | append data hashes =>
    simp only [Op.apply, Backend.append]
    cases ha : b.dataFile.append data with
    | none => rfl
    | some r =>
      obtain ⟨df, size⟩ := r
      simp only [Option.getD_some]
      unfold onDisk
      simp only [DFile.onDisk_append ha]
      rfl
  | remove p => rfl
  | rewind position rm =>
    simp only [Op.apply, Backend.rewind]
    unfold onDisk
    simp only [DFile.onDisk_rewind]
    rfl

theorem onDisk_discard (b : Backend H) : b.discard.onDisk = b.onDisk := by
  unfold onDisk discard
  simp only [DFile.onDisk_discard]
  rfl

/-- **nothing is written before `sync`, and `discard` writes nothing**: after ANY sequence of
`append` / `remove` / `rewind` (no protocol hypothesis; fixed-size and variable-size data files
with their size file alike, however large the un-synced batch) the hash file, data file, size
file, leaf-set file and prune-list file hold what they held before – and still do after
`discard` -/
theorem onDisk_unit (b : Backend H) (ops : List (Op H)) :
    (ops.foldl Op.apply b).onDisk = b.onDisk ∧ (ops.foldl Op.apply b).discard.onDisk = b.onDisk := by
  have h : ∀ (ops : List (Op H)) (b : Backend H), (ops.foldl Op.apply b).onDisk = b.onDisk := by
    intro ops
    induction ops with
    | nil => intro b; rfl
    | cons op ops ih => intro b; rw [List.foldl_cons, ih, onDisk_apply]
  exact ⟨h ops b, by rw [onDisk_discard, h ops b]⟩

/-- `sync` leaves a synced backend (fixed-size data file) -/
theorem sync_clean {b : Backend H} {df : AOF Bytes} (hd : b.dataFile = .fixed df) :
    CleanFixed b.sync df.flush :=
  ⟨AOF.flush_clean _, by simp [sync, hd, DFile.flush], AOF.flush_clean _, LeafSet.flush_clean _⟩

end Backend
end GV.Store
