import GrinVerif.Lemmas.BitmapPmmr
/-! The `apply_from` loop on an ascending index list appends exactly the chunks of that list from
the current chunk up to the chunk of its last element (nothing at all on an empty list); plus the
bookkeeping that turns `rewind_prior` / `pad_left` / `append_chunk` into operations on the chunk
vector (`ofData`). Core Lean only. -/
namespace GV.Bitmap
open GV GV.Pmmr

variable {H : Type}

/-- append a list of chunks one after the other (proof device) -/
def appendAll (hf : HashFn Nat H) (st : Acc H) : List Nat → Option (Acc H)
  | [] => some st
  | c :: cs => match appendChunk hf st c with
    | none => none
    | some st' => appendAll hf st' cs

/-- set the bits `x % 1024` for `x ∈ l`, starting from `ch` -/
def setAll (ch : Nat) (l : List Nat) : Nat := l.foldl (fun ch x => chunkSet ch (x % 1024)) ch

def inChunk (c : Nat) (x : Nat) : Bool := x / 1024 == c

theorem chunkOf_eq (U : List Nat) (c : Nat) : chunkOf U c = setAll chunkNew (U.filter (inChunk c)) := rfl

theorem chunkSet_ne_zero (ch i : Nat) : chunkSet ch i ≠ 0 := by
  unfold chunkSet
  intro h
  have := (Nat.or_eq_zero_iff.1 h).2
  have hp : 0 < 2 ^ i := Nat.pow_pos (by omega)
  omega

theorem chunkAny_chunkSet (ch i : Nat) : chunkAny (chunkSet ch i) = true := by
  simp [chunkAny, chunkSet_ne_zero]

/-! ### ascending lists -/

theorem le_getLast : ∀ (xs : List Nat) (m : Nat), xs.Pairwise (· ≤ ·) → xs.getLast? = some m →
    ∀ y ∈ xs, y ≤ m := by
  intro xs
  induction xs with
  | nil => intro m _ h; simp at h
  | cons x rest ih =>
    intro m hs hl y hy
    rw [List.pairwise_cons] at hs
    cases rest with
    | nil =>
      simp at hl hy; omega
    | cons z zs =>
      have hl' : (z :: zs).getLast? = some m := by simpa [List.getLast?_cons_cons] using hl
      have hm : m ∈ z :: zs := List.mem_of_getLast? hl'
      rcases List.mem_cons.1 hy with rfl | hy'
      · exact hs.1 m hm
      · exact ih m hs.2 hl' y hy'

theorem getLast?_mem_self {xs : List Nat} {m : Nat} (h : xs.getLast? = some m) : m ∈ xs :=
  List.mem_of_getLast? h

/-! ### the loop -/

theorem applyFromLoop_nil (hf : HashFn Nat H) (fuel c : Nat) (st : Acc H) :
    applyFromLoop hf (fuel + 1) [] c chunkNew st = some st := by
  simp [applyFromLoop, chunkAny, chunkNew]

theorem appendAll_cons (hf : HashFn Nat H) (st : Acc H) (c : Nat) (cs : List Nat) :
    appendAll hf st (c :: cs) = match appendChunk hf st c with
      | none => none
      | some st' => appendAll hf st' cs := rfl

theorem applyFromLoop_spec (hf : HashFn Nat H) : ∀ (fuel : Nat) (xs : List Nat) (c ch m : Nat) (st : Acc H),
    xs.Pairwise (· ≤ ·) → (∀ x ∈ xs, c * 1024 ≤ x) → xs.getLast? = some m →
    xs.length + (m / 1024 - c) < fuel →
    applyFromLoop hf fuel xs c ch st =
      appendAll hf st (setAll ch (xs.filter (inChunk c)) ::
        (List.range' (c + 1) (m / 1024 - c)).map (chunkOf xs)) := by
  intro fuel
  induction fuel with
  | zero => intro xs c ch m st _ _ _ hf0; omega
  | succ fuel ih =>
    intro xs c ch m st hs hge hl hfu
    cases xs with
    | nil => simp at hl
    | cons x rest =>
      have hxge : c * 1024 ≤ x := hge x (List.mem_cons_self)
      have hxm : x ≤ m := le_getLast _ m hs hl x (List.mem_cons_self)
      have hall : ∀ y ∈ x :: rest, x ≤ y := by
        intro y hy
        rcases List.mem_cons.1 hy with h | hy'
        · omega
        · exact (List.pairwise_cons.1 hs).1 y hy'
      rw [applyFromLoop, if_neg (by omega)]
      by_cases hx : x < (c + 1) * 1024
      · -- x belongs to the current chunk
        rw [if_pos hx]
        rw [Nat.succ_mul] at hx
        have hxc : x / 1024 = c := by omega
        have hin : inChunk c x = true := by simp [inChunk, hxc]
        have hfilt : (x :: rest).filter (inChunk c) = x :: rest.filter (inChunk c) := by
          simp [hin]
        cases rest with
        | nil =>
          have hmx : m = x := by simpa using hl.symm
          subst hmx
          have hz : m / 1024 - c = 0 := by omega
          cases fuel with
          | zero => simp at hfu
          | succ f =>
            simp only [applyFromLoop, chunkAny_chunkSet, if_true, hfilt, hz, List.range'_zero,
              List.map_nil, List.filter_nil, setAll, List.foldl_cons, List.foldl_nil, appendAll]
            cases appendChunk hf st (chunkSet ch (m % 1024)) <;> rfl
        | cons z zs =>
          have hl' : (z :: zs).getLast? = some m := by simpa [List.getLast?_cons_cons] using hl
          rw [List.pairwise_cons] at hs
          have := ih (z :: zs) c (chunkSet ch (x % 1024)) m st hs.2
            (fun y hy => hge y (List.mem_cons_of_mem _ hy)) hl' (by simp at hfu ⊢; omega)
          rw [this, hfilt]
          have hmap : (List.range' (c + 1) (m / 1024 - c)).map (chunkOf (z :: zs)) =
              (List.range' (c + 1) (m / 1024 - c)).map (chunkOf (x :: z :: zs)) := by
            apply List.map_congr_left
            intro c' hc'
            have hc1 : c + 1 ≤ c' := (List.mem_range'_1.1 hc').1
            have : inChunk c' x = false := by simp [inChunk]; omega
            simp [chunkOf_eq, List.filter_cons, this]
          rw [hmap]
          simp [setAll]
      · -- x lies beyond the current chunk: append it and move on
        rw [if_neg hx]
        rw [Nat.succ_mul] at hx
        have hnone : (x :: rest).filter (inChunk c) = [] := by
          rw [List.filter_eq_nil_iff]
          intro y hy
          have := hall y hy
          simp [inChunk]; omega
        have hge' : ∀ y ∈ x :: rest, (c + 1) * 1024 ≤ y := by
          intro y hy
          have := hall y hy
          rw [Nat.succ_mul]
          generalize c * 1024 = b at *
          omega
        have hfu' : (x :: rest).length + (m / 1024 - (c + 1)) < fuel := by
          simp only [List.length_cons] at hfu ⊢; omega
        have hk : m / 1024 - c = (m / 1024 - (c + 1)) + 1 := by omega
        rw [hnone, hk, List.range'_succ, List.map_cons, appendAll_cons]
        simp only [setAll, List.foldl_nil]
        cases hac : appendChunk hf st ch with
        | none => rfl
        | some st' =>
          simp only []
          have := ih (x :: rest) (c + 1) chunkNew m st' hs
            hge' hl hfu'
          rw [this, chunkOf_eq]

/-- `apply_from` on an ascending list of indices `< size` none of which lies before the chunk of
`from_idx`: appends the chunks `chunk(from_idx) ..= chunk(last)`; nothing if the list is empty. -/
theorem applyFrom_spec (hf : HashFn Nat H) (st : Acc H) (xs : List Nat) (fromIdx size : Nat)
    (hs : xs.Pairwise (· ≤ ·)) (hlt : ∀ x ∈ xs, x < size) (hge : ∀ x ∈ xs, fromIdx / 1024 * 1024 ≤ x) :
    applyFrom hf st xs fromIdx size =
      match xs.getLast? with
      | none => some st
      | some m => appendAll hf st ((List.range' (fromIdx / 1024) (m / 1024 - fromIdx / 1024 + 1)).map (chunkOf xs)) := by
  unfold applyFrom
  have hfil : xs.filter (fun x => decide (x < size)) = xs := by
    rw [List.filter_eq_self]; intro a ha; simpa using hlt a ha
  simp only [hfil, chunkIdx]
  cases hl : xs.getLast? with
  | none =>
    have : xs = [] := by simpa using hl
    subst this
    exact applyFromLoop_nil hf _ _ st
  | some m =>
    have hm : m < size := hlt m (getLast?_mem_self hl)
    rw [applyFromLoop_spec hf _ xs (fromIdx / 1024) chunkNew m st hs hge hl (by omega)]
    simp only []
    rw [List.range'_succ, List.map_cons, chunkOf_eq]

/-! ### the accumulator as a function of its chunk vector -/

theorem appendChunk_ofData (hf : HashFn Nat H) (d : List Nat) (st : Acc H) (c : Nat)
    (h : ofData hf d = some st) : appendChunk hf st c = ofData hf (d ++ [c]) := by
  unfold ofData at h ⊢
  cases hp : pushAll hf [] d with
  | none => simp [hp] at h
  | some hs =>
    simp only [hp] at h
    have : st = { data := d, hashes := hs } := by injection h with h; exact h.symm
    subst this
    rw [pushAll_append, hp]
    simp only [appendChunk, pushAll]
    cases push hf hs c <;> rfl

theorem ofData_append_none (hf : HashFn Nat H) (d cs : List Nat) (h : ofData hf d = none) :
    ofData hf (d ++ cs) = none := by
  unfold ofData at h ⊢
  cases hp : pushAll hf [] d with
  | none => rw [pushAll_append, hp]
  | some hs => simp [hp] at h

theorem appendAll_ofData (hf : HashFn Nat H) : ∀ (cs d : List Nat) (st : Acc H),
    ofData hf d = some st → appendAll hf st cs = ofData hf (d ++ cs) := by
  intro cs
  induction cs with
  | nil => intro d st h; simpa [appendAll] using h.symm
  | cons c cs ih =>
    intro d st h
    rw [appendAll_cons, appendChunk_ofData hf d st c h]
    have e : d ++ c :: cs = (d ++ [c]) ++ cs := by simp
    cases h' : ofData hf (d ++ [c]) with
    | none => rw [e, ofData_append_none hf _ _ h']
    | some st' => rw [e]; exact ih (d ++ [c]) st' h'

theorem padLoop_eq (hf : HashFn Nat H) : ∀ (n : Nat) (st : Acc H),
    padLoop hf n st = appendAll hf st (List.replicate n chunkNew) := by
  intro n
  induction n with
  | zero => intro st; rfl
  | succ n ih =>
    intro st
    rw [padLoop, List.replicate_succ, appendAll_cons]
    cases appendChunk hf st chunkNew with
    | none => rfl
    | some st' => exact ih st'

theorem ofData_nil (hf : HashFn Nat H) : ofData hf [] = some (new : Acc H) := rfl

/-- `rewind_prior` truncates the chunk vector to the first `chunk(from_idx)` chunks -/
theorem rewindPrior_ofData (hf : HashFn Nat H) (d : List Nat) (st : Acc H) (fromIdx : Nat)
    (hb : d.length ≤ 2 ^ 64) (h : ofData hf d = some st) :
    ofData hf (d.take (fromIdx / 1024)) = some (rewindPrior st fromIdx) := by
  unfold ofData at h
  cases hp : pushAll hf [] d with
  | none => simp [hp] at h
  | some hs =>
    simp only [hp] at h
    have : st = { data := d, hashes := hs } := by injection h with h; exact h.symm
    subst this
    have hr := GV.Props.C07.roundUp_spec (fromIdx / 1024) 0 (Nat.zero_le _)
    simp only [Nat.add_zero, if_true] at hr
    have hn := GV.Props.C07.nLeaves_at_leaf_boundary (fromIdx / 1024)
    simp only [rewindPrior, chunkIdx, insertionToPmmrIndex, hr, hn, ofData,
      pushAll_take hf d hs (fromIdx / 1024) hb hp]

/-- `pad_left` appends `chunk(from_idx) - (number of chunks)` empty chunks -/
theorem padLeft_ofData (hf : HashFn Nat H) (d : List Nat) (st : Acc H) (fromIdx : Nat)
    (hb : d.length ≤ 2 ^ 64) (h : ofData hf d = some st) :
    padLeft hf st fromIdx = ofData hf (d ++ List.replicate (fromIdx / 1024 - d.length) chunkNew) := by
  have hlen : st.hashes.length = mmr d.length := by
    unfold ofData at h
    cases hp : pushAll hf [] d with
    | none => simp [hp] at h
    | some hs =>
      simp only [hp] at h
      have : st = { data := d, hashes := hs } := by injection h with h; exact h.symm
      subst this
      obtain ⟨hs', h1, h2, _⟩ := pushAll_spec hf d [] 0 (by simp [mmr, popcount]) (by omega)
      rw [hp] at h1
      have : hs = hs' := by injection h1
      subst this
      simpa using h2
  unfold padLeft
  rw [hlen, GV.Props.C07.nLeaves_at_leaf_boundary, padLoop_eq, chunkIdx]
  exact appendAll_ofData hf _ d st h

end GV.Bitmap
