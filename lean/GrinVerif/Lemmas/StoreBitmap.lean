import GrinVerif.Model.Store
/-! List / bitmap lemmas for the store model (C08). Core Lean only. -/
namespace GV.Store
open GV

/-- a bitmap value is a strictly ascending list -/
def Sorted (b : List Nat) : Prop := List.Pairwise (· < ·) b

theorem filter_eq_nil_of_all_gt {l : List Nat} {x : Nat} (h : ∀ b ∈ l, x < b) :
    l.filter (· ≤ x) = [] := by
  rw [List.filter_eq_nil_iff]; intro b hb; have := h b hb; simp; omega

theorem countP_eq_zero_of_all_gt {l : List Nat} {x : Nat} (h : ∀ b ∈ l, x < b) :
    l.countP (· ≤ x) = 0 := by
  rw [List.countP_eq_zero]; intro b hb; have := h b hb; simp; omega

theorem countP_eq_length_of_all_le {l : List Nat} {x : Nat} (h : ∀ b ∈ l, b ≤ x) :
    l.countP (· ≤ x) = l.length := by
  rw [List.countP_eq_length]; intro b hb; have := h b hb; simpa using this

/-- on a sorted list, the elements `≤ x` are a prefix whose length is the rank of `x` -/
theorem filter_le_eq_take {l : List Nat} (x : Nat) (h : Sorted l) :
    l.filter (· ≤ x) = l.take (l.countP (· ≤ x)) := by
  induction l with
  | nil => simp
  | cons a t ih =>
    have h' := List.pairwise_cons.1 h
    by_cases hax : a ≤ x
    · simp [hax, ih h'.2]
    · have hall : ∀ b ∈ t, x < b := fun b hb => by have := h'.1 b hb; omega
      have hf : (a :: t).filter (· ≤ x) = [] := by
        rw [List.filter_cons]; simp [hax, filter_eq_nil_of_all_gt hall]
      have hc : (a :: t).countP (· ≤ x) = 0 := by
        rw [List.countP_cons]; simp [hax, countP_eq_zero_of_all_gt hall]
      rw [hf, hc]; simp

theorem rank_le_length (b : Bitmap) (x : Nat) : Bm.rank b x ≤ b.length := List.countP_le_length

theorem sorted_take {l : List Nat} (k : Nat) (h : Sorted l) : Sorted (l.take k) :=
  List.Pairwise.sublist (List.take_sublist k l) h

theorem sorted_filter {l : List Nat} (p : Nat → Bool) (h : Sorted l) : Sorted (l.filter p) :=
  List.Pairwise.sublist List.filter_sublist h

theorem sorted_append_singleton {l : List Nat} {x : Nat} (h : Sorted l) (hx : ∀ b ∈ l, b < x) :
    Sorted (l ++ [x]) := by
  unfold Sorted
  rw [List.pairwise_append]
  exact ⟨h, List.pairwise_singleton _ _, fun a ha b hb => by
    have : b = x := by simpa using hb
    subst this; exact hx a ha⟩

/-- `Bitmap::add` of a value above everything already present appends it -/
theorem add_eq_append {b : Bitmap} {x : Nat} (h : ∀ y ∈ b, y < x) : Bm.add b x = b ++ [x] := by
  induction b with
  | nil => rfl
  | cons y ys ih =>
    have hy : y < x := h y (by simp)
    have h1 : ¬ x < y := by omega
    have h2 : ¬ x = y := by omega
    simp only [Bm.add, if_neg h1, if_neg h2, List.cons_append]
    rw [ih (fun z hz => h z (by simp [hz]))]

theorem mem_add {b : Bitmap} {x y : Nat} : y ∈ Bm.add b x ↔ y = x ∨ y ∈ b := by
  induction b with
  | nil => simp [Bm.add]
  | cons z zs ih =>
    simp only [Bm.add]
    split
    · simp
    · split
      · subst_vars; simp
      · simp [ih]; constructor <;> intro h <;> rcases h with h | h | h <;> simp [h]

theorem sorted_add {b : Bitmap} {x : Nat} (h : Sorted b) : Sorted (Bm.add b x) := by
  induction b with
  | nil => exact List.pairwise_singleton _ _
  | cons z zs ih =>
    have h' := List.pairwise_cons.1 h
    simp only [Bm.add]
    split
    · rename_i hxz
      exact List.pairwise_cons.2 ⟨fun a ha => by
        rcases List.mem_cons.1 ha with rfl | ha
        · exact hxz
        · have := h'.1 a ha; omega, h⟩
    · split
      · exact h
      · rename_i h1 h2
        exact List.pairwise_cons.2 ⟨fun a ha => by
          rcases mem_add.1 ha with rfl | ha
          · omega
          · exact h'.1 a ha, ih h'.2⟩

theorem mem_or {a b : Bitmap} {y : Nat} : y ∈ Bm.or a b ↔ y ∈ a ∨ y ∈ b := by
  unfold Bm.or
  induction b generalizing a with
  | nil => simp
  | cons z zs ih =>
    simp only [List.foldl_cons]
    rw [ih, mem_add]
    simp only [List.mem_cons]
    constructor
    · rintro ((h | h) | h)
      · exact Or.inr (Or.inl h)
      · exact Or.inl h
      · exact Or.inr (Or.inr h)
    · rintro (h | h | h)
      · exact Or.inl (Or.inr h)
      · exact Or.inl (Or.inl h)
      · exact Or.inr h

theorem sorted_or {a b : Bitmap} (h : Sorted a) : Sorted (Bm.or a b) := by
  unfold Bm.or
  induction b generalizing a with
  | nil => exact h
  | cons z zs ih => exact ih (sorted_add h)

theorem contains_iff {b : Bitmap} {x : Nat} : Bm.contains b x = true ↔ x ∈ b := by
  simp [Bm.contains]

theorem mem_remove {b : Bitmap} {x y : Nat} : y ∈ Bm.remove b x ↔ y ∈ b ∧ y ≠ x := by
  simp [Bm.remove]

theorem mem_removeRange {b : Bitmap} {lo hi y : Nat} :
    y ∈ Bm.removeRange b lo hi ↔ y ∈ b ∧ ¬ (lo ≤ y ∧ y ≤ hi) := by
  simp only [Bm.removeRange, List.mem_filter, Bool.not_eq_true', Bool.and_eq_false_iff,
    decide_eq_false_iff_not, Bool.not_eq_eq_eq_not, Bool.not_true]
  constructor
  · rintro ⟨h1, h2⟩; exact ⟨h1, by omega⟩
  · rintro ⟨h1, h2⟩; exact ⟨h1, by omega⟩

/-- removing the range `(lo, max]` from a sorted bitmap keeps the prefix of rank `lo` -/
theorem removeRange_to_max {b : Bitmap} (lo : Nat) (h : Sorted b)
    (hmax : ∀ y ∈ b, y ≤ (Bm.maximum b).getD 0) :
    Bm.removeRange b (lo + 1) ((Bm.maximum b).getD 0) = b.take (Bm.rank b lo) := by
  unfold Bm.rank
  rw [← filter_le_eq_take lo h]
  unfold Bm.removeRange
  apply List.filter_congr
  intro y hy
  have := hmax y hy
  by_cases hle : y ≤ lo <;> simp [hle] <;> omega

theorem le_maximum_of_sorted {b : Bitmap} (h : Sorted b) : ∀ y ∈ b, y ≤ (Bm.maximum b).getD 0 := by
  unfold Bm.maximum
  induction b with
  | nil => intro y hy; simp at hy
  | cons a t ih =>
    intro y hy
    have h' := List.pairwise_cons.1 h
    cases t with
    | nil => simp at hy; simp [hy]
    | cons c t' =>
      rw [List.getLast?_cons_cons]
      rcases List.mem_cons.1 hy with rfl | hy'
      · have h1 := ih h'.2 c (by simp)
        have := h'.1 c (by simp)
        omega
      · exact ih h'.2 y hy'

theorem maximum_mem {b : Bitmap} {m : Nat} (h : Bm.maximum b = some m) : m ∈ b := by
  unfold Bm.maximum at h; exact List.mem_of_getLast? h

end GV.Store
