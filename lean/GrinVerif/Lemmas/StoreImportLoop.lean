import GrinVerif.Lemmas.StoreImport
/-! The loop of `PMMR::push_pruned_subtree` (`core/src/core/pmmr/pmmr.rs`) against the reference
(L1 / L2 of the former `import_establishes_reference_partial`): for a subtree root at coordinates
`(n, h)` (`pos0 = mmr n + h`, `1 ≤ h ≤ trailingOnes n`) the `while (peak_map & peak) != 0` loop runs
`trailingOnes n` times, merges in the first `trailingOnes n − h` of them – each left sibling is read
through `get_hash`, is not compacted (its parent is a position the MMR does not have yet) and so
reads its reference hash – appends exactly the reference hashes of `pos0 + 1 … mmr n + trailingOnes n`,
`continue`s for the remaining `h` set bits (the node reached is a left child) and leaves
`size = mmr (n + 1)`.  Core Lean only. -/
namespace GV.Store
open GV GV.Pmmr GV.Pmmr.Co

variable {H : Type}

/-- read law through the buffer, for a hash file holding the layout of ANY size `M` (inside an
import the size is not a complete-MMR size) -/
theorem Backend.read_of_view {b : Backend H} (ref : Nat → H) (M : Nat) (hinv : b.pruneList.Inv)
    (hwf : b.hashFile.WF) (hlay : b.hashFile.view = (layout b.pruneList.bitmap M).map ref)
    (q : Nat) (hq : q < M) (hnc : compactedP b.pruneList.bitmap q = false) :
    b.getFromFile q = some (ref q) := by
  have h1 : b.getPeakFromFile q = some (ref q) := by
    unfold Backend.getPeakFromFile AOF.read1
    have hidx := hashIdx_eq hinv q hnc
    have e : 1 + q - b.pruneList.getShift q = rk (fun x => !compactedP b.pruneList.bitmap x) q + 1 := by
      omega
    rw [e, if_neg (by omega), Nat.add_sub_cancel, AOF.read_view hwf, hlay, List.getElem?_map]
    unfold layout
    rw [filter_range_index _ M q hq (by simp [hnc])]
    rfl
  rw [Backend.getFromFile_eq, Backend.getFromFile_of_not_compacted hinv q hnc]
  exact h1

/-- the remaining set bits once a left child is reached: `continue` until the first clear bit -/
theorem pushPrunedLoop_continue (hf : HashFn Bytes H) (pm : Nat) (b : Backend H) (pos : Nat) (cur : H)
    (hsib : (family pos).2 > pos) : ∀ (k fuel j : Nat),
    (∀ i, j ≤ i → i < j + k → bitSet pm i = true) → bitSet pm (j + k) = false → k < fuel →
    PM.pushPrunedLoop hf pm fuel j b pos cur = (b, pos, true) := by
  intro k
  induction k with
  | zero =>
    intro fuel j _ hclr hfu
    obtain ⟨f', rfl⟩ : ∃ f', fuel = f' + 1 := ⟨fuel - 1, by omega⟩
    unfold PM.pushPrunedLoop
    rw [Nat.add_zero] at hclr
    simp [hclr]
  | succ k ih =>
    intro fuel j hset hclr hfu
    obtain ⟨f', rfl⟩ : ∃ f', fuel = f' + 1 := ⟨fuel - 1, by omega⟩
    unfold PM.pushPrunedLoop
    have hj : bitSet pm j = true := hset j (Nat.le_refl _) (by omega)
    simp only [hj, if_true, hsib]
    exact ih f' (j + 1) (fun i h1 h2 => hset i (by omega) (by omega))
      (by rw [show j + 1 + k = j + (k + 1) by omega]; exact hclr) (by omega)

/-- the node law of the reference hashes in coordinates -/
theorem refHash_parent (hf : HashFn Bytes H) (f : Nat → Bytes) {n g : Nat} (hg : g < trailingOnes n) :
    refHash hf f (mmr n + g + 1) =
      hf.node (mmr n + g + 1) (refHash hf f (mmr n + g + 1 - 2 * 2 ^ g)) (refHash hf f (mmr n + g)) := by
  obtain ⟨s1, s2, s3, s4⟩ := left_sibling_coord hg
  have e : mmr n + g + 1 - 2 * 2 ^ g = mmr (n - 2 ^ g) + g := by omega
  unfold refHash
  rw [e, peakMapHeight_co n g (Nat.le_of_lt hg), peakMapHeight_co (n - 2 ^ g) g s1,
    show mmr n + g + 1 = mmr n + (g + 1) from rfl, peakMapHeight_co n (g + 1) hg]
  rfl

/-- coordinates of `family` -/
theorem family_right_child {n g : Nat} (hg : g < trailingOnes n) :
    family (mmr n + g) = (mmr n + g + 1, mmr n + g + 1 - 2 * 2 ^ g) := by
  unfold family
  simp only [peakMapHeight_co n g (Nat.le_of_lt hg), bitSet_coord (Nat.le_of_lt hg), hg, decide_true, if_true]

theorem family_left_child {n g : Nat} (hg : g = trailingOnes n) :
    family (mmr n + g) = (mmr n + g + 2 * 2 ^ g, mmr n + g + 2 * 2 ^ g - 1) := by
  unfold family
  have : ¬ g < trailingOnes n := by omega
  simp only [peakMapHeight_co n g (Nat.le_of_eq hg), bitSet_coord (Nat.le_of_eq hg), this, decide_false,
    Bool.false_eq_true, if_false]

/-- state of the backend after `j` merges of the loop -/
structure ImpSt (hf : HashFn Bytes H) (f : Nat → Bytes) (b : Backend H) (pos0 j : Nat) (bj : Backend H) : Prop where
  pl : bj.pruneList = b.pruneList.append pos0
  ls : bj.leafSet = b.leafSet
  df : bj.dataFile = b.dataFile
  pf : bj.pruneFile = b.pruneFile
  disk : bj.hashFile.disk = b.hashFile.disk
  bsp : bj.hashFile.bsp = b.hashFile.bsp
  bak : bj.hashFile.bak = b.hashFile.bak
  buf : bj.hashFile.buffer = b.hashFile.buffer ++ (List.range' pos0 (j + 1)).map (refHash hf f)

/-- **L1**: the loop from the state after `j` merges -/
theorem pushPrunedLoop_spec (hf : HashFn Bytes H) (f : Nat → Bytes) {b : Backend H} {df : AOF Bytes}
    {N n h : Nat} (hlive : Live b.fixPF N (refHash hf f) (refData f) df)
    (hh : h ≤ trailingOnes n) (h1 : 1 ≤ h) (hN : N + 2 ^ h = n + 1)
    (hsib : b.pruneList.isPruned (family (mmr n + h)).2 = false) :
    ∀ (m j fuel : Nat) (bj : Backend H), h + j + m = trailingOnes n → trailingOnes n < fuel + j →
      ImpSt hf f b (mmr n + h) j bj →
      ∃ b', PM.pushPrunedLoop hf n fuel j bj (mmr n + h + j) (refHash hf f (mmr n + h + j)) =
          (b', mmr n + trailingOnes n, true) ∧
        ImpSt hf f b (mmr n + h) (trailingOnes n - h) b' := by
  -- geometry of the new root
  have hlc := leftmost_coord hh
  have hheight : height (mmr n + h) = h := height_co n h hh
  have hl : bintreeLeftmost (mmr n + h) = mmr N := by
    unfold bintreeLeftmost
    rw [hheight]
    have : n + 1 - 2 ^ h = N := by omega
    rw [this] at hlc
    omega
  have hNle : mmr N ≤ mmr n + h := by
    have := PruneList.leftmost_le (mmr n + h); rw [hl] at this; exact this
  have hroots : ∀ x ∈ b.pruneList.bitmap, x ≤ mmr N := hlive.roots
  have hinv0 : b.pruneList.Inv := hlive.inv
  obtain ⟨hbm, hinv⟩ := PruneList.append_rightmost hinv0 hroots hl hsib
  have hwf0 : b.hashFile.WF := hlive.hashWF
  have hv0 : b.hashFile.view = (layout b.pruneList.bitmap (mmr N)).map (refHash hf f) := hlive.hashLay
  intro m
  induction m with
  | zero =>
    intro j fuel bj hm hfu hst
    have hj : h + j = trailingOnes n := by omega
    have hpos : mmr n + h + j = mmr n + trailingOnes n := by omega
    rw [hpos]
    have hfam := family_left_child (n := n) (g := trailingOnes n) rfl
    have hgt : (family (mmr n + trailingOnes n)).2 > mmr n + trailingOnes n := by
      rw [hfam]; have := two_pow_pos (trailingOnes n); simp only; omega
    refine ⟨bj, ?_, ?_⟩
    · apply pushPrunedLoop_continue hf n bj _ _ hgt (trailingOnes n - j) fuel j
      · intro i hi1 hi2
        rw [bitSet_coord (by omega : i ≤ trailingOnes n)]
        simp; omega
      · have : j + (trailingOnes n - j) = trailingOnes n := by omega
        rw [this, bitSet_coord (Nat.le_refl _)]
        simp
      · omega
    · have : trailingOnes n - h = j := by omega
      rw [this]; exact hst
  | succ m ih =>
    intro j fuel bj hm hfu hst
    have hg : h + j < trailingOnes n := by omega
    obtain ⟨f', rfl⟩ : ∃ f', fuel = f' + 1 := ⟨fuel - 1, by omega⟩
    have hbit : bitSet n j = true := by
      rw [bitSet_coord (by omega : j ≤ trailingOnes n)]; simp; omega
    have hfam : family (mmr n + h + j) = (mmr n + h + j + 1, mmr n + h + j + 1 - 2 * 2 ^ (h + j)) := by
      have := family_right_child (n := n) (g := h + j) hg
      rw [← Nat.add_assoc] at this; exact this
    -- the left sibling
    obtain ⟨s1, s2, s3, s4⟩ := left_sibling_coord hg
    have hs : mmr n + h + j + 1 - 2 * 2 ^ (h + j) = mmr (n - 2 ^ (h + j)) + (h + j) := by omega
    have hpow : 2 ^ h ≤ 2 ^ (h + j) := Nat.pow_le_pow_right (by omega) (by omega)
    have hslt : mmr (n - 2 ^ (h + j)) + (h + j) < mmr N := by
      rw [coord_lt_iff s1]; omega
    have hsheight : height (mmr (n - 2 ^ (h + j)) + (h + j)) = h + j := height_co _ _ s1
    have hsfam : family (mmr (n - 2 ^ (h + j)) + (h + j)) =
        (mmr n + h + j + 1, mmr n + h + j) := by
      have := family_left_child (n := n - 2 ^ (h + j)) (g := h + j) s4.symm
      rw [this]
      have hp := two_pow_pos (h + j)
      refine Prod.ext ?_ ?_ <;> simp only <;> omega
    -- the backend `bj`
    have hbjwf : bj.hashFile.WF :=
      ⟨by rw [hst.bsp, hst.disk]; exact hwf0.le,
       fun h0 => by rw [hst.bsp, hst.disk]; exact hwf0.bak0 (by rw [← hst.bak]; exact h0)⟩
    have hbjview : bj.hashFile.view =
        (layout bj.pruneList.bitmap (mmr n + h + 1 + j)).map (refHash hf f) := by
      have hlt : mmr n + h < mmr n + h + 1 + j := by omega
      have e : mmr n + h + 1 + j - (mmr n + h) = j + 1 := by omega
      rw [hst.pl, hbm, layout_snoc hroots hl hlt, List.map_append, ← hv0, e]
      unfold AOF.view
      rw [hst.disk, hst.bsp, hst.buf, List.append_assoc]
    have hnc : compactedP bj.pruneList.bitmap (mmr (n - 2 ^ (h + j)) + (h + j)) = false := by
      rw [hst.pl, hbm, compactedP_snoc]
      have hA : compactedP b.pruneList.bitmap (mmr (n - 2 ^ (h + j)) + (h + j)) = false := by
        rw [compactedP_false_iff]
        rintro ⟨x, hx, hsub, hne⟩
        have hp := (sub_parent_iff _ _).1 ⟨hsub, hne⟩
        rw [hsfam] at hp
        have h2 : mmr n + h + j + 1 ≤ x - 1 := hp.2
        have h3 := hroots x hx
        omega
      rw [hA, hl]
      have : ¬ mmr N ≤ mmr (n - 2 ^ (h + j)) + (h + j) := by omega
      simp [this]
    have hread : bj.getHash (mmr (n - 2 ^ (h + j)) + (h + j)) =
        some (refHash hf f (mmr (n - 2 ^ (h + j)) + (h + j))) := by
      unfold Backend.getHash
      have hnl : isLeaf (mmr (n - 2 ^ (h + j)) + (h + j)) = false := by
        unfold isLeaf; rw [hsheight]; simp; omega
      rw [hnl]
      simp only [Bool.false_and, Bool.false_eq_true, if_false]
      exact Backend.read_of_view _ _ (by rw [hst.pl]; exact hinv) hbjwf hbjview _ (by omega) hnc
    -- one merge
    unfold PM.pushPrunedLoop
    simp only [hbit, if_true, hfam]
    have hngt : ¬ mmr n + h + j + 1 - 2 * 2 ^ (h + j) > mmr n + h + j := by omega
    rw [if_neg hngt, hs, hread]
    simp only
    have hnode := refHash_parent hf f (n := n) (g := h + j) hg
    rw [← Nat.add_assoc, hs] at hnode
    rw [← hnode]
    have hst' : ImpSt hf f b (mmr n + h) (j + 1)
        (bj.appendHash (refHash hf f (mmr n + h + j + 1))) := by
      refine ⟨hst.pl, hst.ls, hst.df, hst.pf, hst.disk, hst.bsp, hst.bak, ?_⟩
      show bj.hashFile.buffer ++ [_] = _
      rw [hst.buf, List.append_assoc, List.range'_concat (s := mmr n + h) (n := j + 1), List.map_append,
        List.map_singleton]
      have e : mmr n + h + 1 * (j + 1) = mmr n + h + j + 1 := by omega
      rw [e]
    have := ih (j + 1) f' _ (by omega) (by omega) hst'
    rw [show mmr n + h + (j + 1) = mmr n + h + j + 1 by omega] at this
    exact this

end GV.Store
