import GrinVerif.Lemmas.NrdPath
import GrinVerif.Model.Chain
/-! Connection between the NRD index specification (`Model/NrdIndex.lean`: per excess the list of
occurrences on the path) and the specification the chain model decides NRD with
(`Model/Chain.lean`: `UState.nrd`, one list of (excess, height) for the whole path, searched with
`find?` by `nrdBad`). -/
namespace GV.Nrd
open GV.Chain (Ker UState)

/-- NRD kernels of a chain-model block in block order: (excess, relative height) -/
def nrdOfChain (b : Chain.Blk) : List (String × Nat) :=
  b.kers.filterMap fun k => match k with
    | .nrd _ rel ex => some (ex, rel)
    | _ => none

/-- the same for the index's view of a block -/
def nrdOfIdx (ks : List (Kernel String × Nat)) : List (String × Nat) :=
  ks.filterMap fun kp => kp.1.nrd.map fun rel => (kp.1.excess, rel)

/-- the two views describe the same block: same height, same NRD kernels in the same order -/
structure Matches (cb : Chain.Blk) (ib : Blk String) : Prop where
  height : ib.height = cb.h
  kernels : nrdOfIdx ib.kernels = nrdOfChain cb

/-- two views of the same path, block by block -/
inductive PathMatches : List Chain.Blk → List (Blk String) → Prop
  | nil : PathMatches [] []
  | cons {cb : Chain.Blk} {ib : Blk String} {cbs : List Chain.Blk} {ibs : List (Blk String)} :
      Matches cb ib → PathMatches cbs ibs → PathMatches (cb :: cbs) (ib :: ibs)

/-- the chain model's list and the index specification agree on the height of the most recent
occurrence of every excess (all that the NRD rule reads) -/
def SameRecent (N : List (String × Nat)) (S : Spec String) : Prop :=
  ∀ ex, (N.find? (·.1 == ex)).map (·.2) = (S ex).head?.map (·.height)

/-- what `Chain.effects` puts in front of `UState.nrd` -/
theorem effects_nrd (s : UState) (b : Chain.Blk) :
    (Chain.effects s b).nrd = (nrdOfChain b).map (fun er => (er.1, b.h)) ++ s.nrd := by
  simp only [Chain.effects, nrdOfChain]
  congr 1
  induction b.kers with
  | nil => rfl
  | cons k ks ih =>
    cases k <;> simp [ih]

theorem find_map_height (l : List (String × Nat)) (h : Nat) (ex : String) :
    ((l.map (fun er => (er.1, h))).find? (·.1 == ex)).map (·.2) =
      if ex ∈ l.map (·.1) then some h else none := by
  induction l with
  | nil => simp
  | cons a l ih =>
    by_cases ha : a.1 = ex
    · simp [ha]
    · have ha' : ¬ ex = a.1 := fun h => ha h.symm
      have hb : (a.1 == ex) = false := by simp [ha]
      simp only [List.map_cons, List.find?_cons, hb, List.mem_cons, ha', false_or]
      exact ih

theorem kernelsEntries_head (h : Nat) (ks : List (Kernel String × Nat)) (ex : String) :
    (kernelsEntries h ks ex).head?.map (·.height) =
      if ex ∈ (nrdOfIdx ks).map (·.1) then some h else none := by
  induction ks with
  | nil => simp [kernelsEntries, nrdOfIdx]
  | cons kp ks ih =>
    rw [kernelsEntries_cons]
    obtain ⟨k, pos⟩ := kp
    cases hn : k.nrd with
    | none =>
      have h0 : isNrdOf ex (k, pos) = false := by simp [isNrdOf, hn]
      have hidx : nrdOfIdx ((k, pos) :: ks) = nrdOfIdx ks := by simp [nrdOfIdx, hn]
      rw [hidx]
      simp only [h0, Bool.false_eq_true, if_false, List.append_nil, ih]
    | some rel =>
      have hidx : nrdOfIdx ((k, pos) :: ks) = (k.excess, rel) :: nrdOfIdx ks := by simp [nrdOfIdx, hn]
      rw [hidx]
      by_cases he : k.excess = ex
      · have h0 : isNrdOf ex (k, pos) = true := by simp [isNrdOf, hn, he]
        simp only [h0, if_true, List.map_cons, List.mem_cons, he, true_or]
        cases hl : kernelsEntries h ks ex with
        | nil => simp
        | cons q t =>
          have := ih
          rw [hl] at this
          simp only [List.head?_cons, Option.map_some] at this
          simp only [List.cons_append, List.head?_cons, Option.map_some]
          split at this
          · exact this
          · simp at this
      · have he' : ¬ ex = k.excess := fun h => he h.symm
        have h0 : isNrdOf ex (k, pos) = false := by simp [isNrdOf, hn, he]
        simp only [h0, Bool.false_eq_true, if_false, List.append_nil, ih, List.map_cons, List.mem_cons, he',
          false_or]

/-- applying a block keeps the two specifications in step -/
theorem SameRecent.effects {s : UState} {S S' : Spec String} {cb : Chain.Blk} {ib : Blk String}
    (h : SameRecent s.nrd S) (hm : Matches cb ib) (hok : sApplyBlock S ib = ⟨S', .ok ()⟩) :
    SameRecent (Chain.effects s cb).nrd S' := by
  intro ex
  obtain ⟨hgt, hker⟩ := hm
  rw [effects_nrd, sApplyKernels_ok hok ex, List.find?_append, List.head?_append, hgt]
  have h1 := find_map_height (nrdOfChain cb) cb.h ex
  have h2 := kernelsEntries_head cb.h ib.kernels ex
  rw [hker] at h2
  by_cases hmem : ex ∈ (nrdOfChain cb).map (·.1)
  · simp only [hmem, if_true] at h1 h2
    cases hf : ((nrdOfChain cb).map (fun er => (er.1, cb.h))).find? (·.1 == ex) with
    | none => rw [hf] at h1; simp at h1
    | some a =>
      rw [hf] at h1
      cases hk : (kernelsEntries cb.h ib.kernels ex).head? with
      | none => rw [hk] at h2; simp at h2
      | some q =>
        rw [hk] at h2
        simp only [Option.map_some, Option.some.injEq] at h1 h2
        simp [h1, h2]
  · simp only [hmem, if_false] at h1 h2
    have hf : ((nrdOfChain cb).map (fun er => (er.1, cb.h))).find? (·.1 == ex) = none := by
      cases hf : ((nrdOfChain cb).map (fun er => (er.1, cb.h))).find? (·.1 == ex) with
      | none => rfl
      | some a => rw [hf] at h1; simp at h1
    have hk : (kernelsEntries cb.h ib.kernels ex).head? = none := by
      cases hk : (kernelsEntries cb.h ib.kernels ex).head? with
      | none => rfl
      | some a => rw [hk] at h2; simp at h2
    rw [hf, hk]
    simpa using h ex

/-- with pairwise distinct NRD excesses in the block (`verify_no_nrd_duplicates`) and kernel
positions above everything recorded, the sequential peek / check / push loop accepts the block iff
every NRD kernel passes the rule against the state *before* the block -/
theorem sApplyKernels_ok_iff (h : Nat) (ks : List (Kernel String × Nat)) (S : Spec String)
    (hnd : ((nrdOfIdx ks).map (·.1)).Nodup)
    (hpos : ∀ kp ∈ ks, kp.1.nrd.isSome → ∀ x ∈ S kp.1.excess, x.pos < kp.2) :
    (sApplyKernels S h ks).res = .ok () ↔ ∀ er ∈ nrdOfIdx ks, specNrdOk (S er.1) h er.2 = true := by
  induction ks generalizing S with
  | nil => simp [sApplyKernels, nrdOfIdx]
  | cons kp ks ih =>
    obtain ⟨k, pos⟩ := kp
    cases hn : k.nrd with
    | none =>
      have hidx : nrdOfIdx ((k, pos) :: ks) = nrdOfIdx ks := by simp [nrdOfIdx, hn]
      rw [hidx] at hnd ⊢
      simp only [sApplyKernels, sApplyKernelRules, hn]
      exact ih S hnd (fun kp hm => hpos kp (List.mem_cons_of_mem _ hm))
    | some rel =>
      have hidx : nrdOfIdx ((k, pos) :: ks) = (k.excess, rel) :: nrdOfIdx ks := by simp [nrdOfIdx, hn]
      rw [hidx] at hnd ⊢
      simp only [List.map_cons, List.nodup_cons] at hnd
      obtain ⟨hnot, hnd'⟩ := hnd
      cases hrule : specNrdOk (S k.excess) h rel with
      | false =>
        simp only [sApplyKernels, sApplyKernelRules, hn, hrule, Bool.false_eq_true, if_false]
        constructor
        · intro hh; simp at hh
        · intro hh
          have := hh (k.excess, rel) (by simp)
          simp [hrule] at this
      | true =>
        have hpush : specPushOk (S k.excess) ⟨pos, h⟩ = true := by
          have hp := hpos (k, pos) (by simp) (by simp [hn])
          cases hl : S k.excess with
          | nil => rfl
          | cons q t =>
            simp only [specPushOk, decide_eq_true_eq]
            exact hp q (by rw [hl]; simp)
        simp only [sApplyKernels, sApplyKernelRules, hn, hrule, if_true, sPush, hpush]
        have hS1 : ∀ ex, ex ≠ k.excess → upd S k.excess (⟨pos, h⟩ :: S k.excess) ex = S ex :=
          fun ex hne => upd_other S _ hne
        rw [ih _ hnd' (fun kp hm hs x hx => by
          have hne : kp.1.excess ≠ k.excess := by
            intro heq
            apply hnot
            obtain ⟨rel', hr⟩ := Option.isSome_iff_exists.mp hs
            exact List.mem_map.mpr ⟨(kp.1.excess, rel'), List.mem_filterMap.mpr ⟨kp, hm, by simp [hr]⟩, heq⟩
          rw [hS1 _ hne] at hx
          exact hpos kp (List.mem_cons_of_mem _ hm) hs x hx)]
        constructor
        · intro hh er her
          rcases List.mem_cons.mp her with rfl | her
          · exact hrule
          · have hne : er.1 ≠ k.excess := fun heq => hnot (List.mem_map.mpr ⟨er, her, heq⟩)
            rw [← hS1 _ hne]; exact hh er her
        · intro hh er her
          have hne : er.1 ≠ k.excess := fun heq => hnot (List.mem_map.mpr ⟨er, her, heq⟩)
          rw [hS1 _ hne]; exact hh er (List.mem_cons_of_mem _ her)

/-- the chain model's `nrdBad`, kernel by kernel -/
theorem nrdBad_false_iff (s : UState) (b : Chain.Blk) :
    Chain.nrdBad s b = false ↔
      ∀ er ∈ nrdOfChain b, match s.nrd.find? (·.1 == er.1) with
        | some (_, hPrev) => ¬ b.h < hPrev + er.2
        | none => True := by
  unfold Chain.nrdBad nrdOfChain
  rw [List.any_eq_false]
  constructor
  · intro hh er her
    obtain ⟨k, hk, hg⟩ := List.mem_filterMap.mp her
    have := hh k hk
    cases k with
    | nrd f rel ex =>
      simp only [Option.some.injEq] at hg
      subst hg
      cases hf : s.nrd.find? (·.1 == ex) with
      | none => trivial
      | some a => obtain ⟨a1, a2⟩ := a; simp only [hf] at this ⊢; simpa using this
    | cb => simp at hg
    | plain _ => simp at hg
    | hl _ _ => simp at hg
  · intro hh k hk
    cases k with
    | nrd f rel ex =>
      have := hh (ex, rel) (List.mem_filterMap.mpr ⟨_, hk, rfl⟩)
      cases hf : s.nrd.find? (·.1 == ex) with
      | none => simp [hf]
      | some a => obtain ⟨a1, a2⟩ := a; simp only [hf] at this ⊢; simpa using this
    | cb => simp
    | plain _ => simp
    | hl _ _ => simp

end GV.Nrd
