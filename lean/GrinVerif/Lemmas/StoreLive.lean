import GrinVerif.Lemmas.StoreSynced
import GrinVerif.Lemmas.PmmrTree
/-! The reference invariant inside a unit of work (C08 history): `Live` is `Synced` with the files
seen through their buffers (`AOF.view`); the reference hash / data functions of a leaf history;
`Live` is established by `Synced`, preserved by `push`, `remove`, re-established by `rewind` (from
a synced state) and turned back into `Synced` by `sync`.  Core Lean only. -/
namespace GV.Store
open GV GV.Pmmr GV.Pmmr.Co

/-! ### a file seen through its buffer -/
namespace AOF
variable {E : Type}

/-- what `read` sees: the file up to `buffer_start_pos`, then the buffer -/
def view (f : AOF E) : List E := f.disk.take f.bsp ++ f.buffer

structure WF (f : AOF E) : Prop where
  le : f.bsp ≤ f.disk.length
  bak0 : f.bak = 0 → f.bsp = f.disk.length

theorem wf_of_clean {f : AOF E} (h : Clean f) : WF f ∧ view f = f.disk := by
  obtain ⟨h1, h2, h3⟩ := h
  refine ⟨⟨by omega, fun _ => h3⟩, ?_⟩
  unfold view; rw [h1, h3]; simp

theorem view_length {f : AOF E} (h : WF f) : (view f).length = f.sizeUnsyncInElmts := by
  unfold view sizeUnsyncInElmts
  rw [List.length_append, List.length_take, Nat.min_eq_left h.le]

theorem read_view {f : AOF E} (h : WF f) (i : Nat) : f.read i = (view f)[i]? := by
  unfold read
  have hl := view_length h
  unfold sizeUnsyncInElmts at *
  have hle := h.le
  split
  · rw [List.getElem?_eq_none (by omega)]
  · unfold view
    split
    · rename_i h2
      rw [List.getElem?_append_left (by rw [List.length_take]; omega), List.getElem?_take_of_lt h2]
    · rw [List.getElem?_append_right (by rw [List.length_take]; omega), List.length_take,
        Nat.min_eq_left hle]

theorem wf_extend {f : AOF E} (h : WF f) (es : List E) :
    WF (f.extend es) ∧ view (f.extend es) = view f ++ es :=
  ⟨⟨h.le, h.bak0⟩, by unfold view extend; simp⟩

theorem wf_append {f : AOF E} (h : WF f) (e : E) :
    WF (f.append e) ∧ view (f.append e) = view f ++ [e] :=
  ⟨⟨h.le, h.bak0⟩, by unfold view append; simp⟩

theorem rewind_of_clean {f : AOF E} (h : Clean f) (p : Nat) (hp : p ≤ f.disk.length) :
    WF (f.rewind p) ∧ view (f.rewind p) = f.disk.take p := by
  obtain ⟨h1, h2, h3⟩ := h
  refine ⟨⟨hp, ?_⟩, ?_⟩
  · intro hb
    simp only [rewind, h2, if_true] at hb ⊢
    omega
  · unfold view rewind; simp [h1]

/-- a further `rewind` inside a unit in which nothing has been appended yet (the chain rewinds
block by block): the view is cut again -/
theorem rewind_of_wf {f : AOF E} (h : WF f) (hb : f.buffer = []) (p : Nat) (hp : p ≤ f.bsp) :
    WF (f.rewind p) ∧ view (f.rewind p) = (view f).take p ∧ (f.rewind p).buffer = [] := by
  refine ⟨⟨Nat.le_trans hp h.le, ?_⟩, ?_, hb⟩
  · intro hb0
    simp only [rewind] at hb0 ⊢
    by_cases h0 : f.bak = 0
    · rw [if_pos h0] at hb0
      have := h.bak0 h0
      omega
    · rw [if_neg h0] at hb0; exact absurd hb0 h0
  · unfold view rewind
    simp only [hb, List.append_nil, List.take_take]
    rw [Nat.min_eq_left hp]

theorem flush_of_wf {f : AOF E} (h : WF f) : f.flush.disk = view f := by
  unfold flush view
  simp only
  split
  · rfl
  · rename_i hb
    have := h.bak0 (by omega)
    rw [this]; simp

end AOF

/-! ### the reference of a leaf history -/

/-- reference hash of position `p` of the unpruned MMR whose leaf `i` holds `f i` -/
def refHash {H : Type} (hf : HashFn Bytes H) (f : Nat → Bytes) (p : Nat) : H :=
  nodeHash hf f (peakMapHeight p).1 (peakMapHeight p).2

/-- reference data of the leaf at position `p` -/
def refData (f : Nat → Bytes) (p : Nat) : Bytes := f (peakMapHeight p).1

theorem nodeHash_congr {H : Type} (hf : HashFn Bytes H) {f g : Nat → Bytes} :
    ∀ (h n : Nat), (∀ i, i ≤ n → f i = g i) → nodeHash hf f n h = nodeHash hf g n h := by
  intro h
  induction h with
  | zero => intro n hfg; simp only [nodeHash]; rw [hfg n (Nat.le_refl _)]
  | succ k ih =>
    intro n hfg
    simp only [nodeHash]
    have hpos := two_pow_pos k
    rw [ih n hfg, ih (n - 2 ^ k) (fun i hi => hfg i (by omega))]

theorem refHash_congr {H : Type} (hf : HashFn Bytes H) {f g : Nat → Bytes} {N : Nat}
    (hfg : ∀ i, i < N → f i = g i) (p : Nat) (hp : p < mmr N) : refHash hf f p = refHash hf g p := by
  obtain ⟨n, h, hh, rfl⟩ := coord_surj p
  have hn := (coord_lt_iff hh).1 hp
  unfold refHash
  rw [peakMapHeight_co n h hh]
  exact nodeHash_congr hf h n (fun i hi => hfg i (by omega))

theorem refData_congr {f g : Nat → Bytes} {N : Nat}
    (hfg : ∀ i, i < N → f i = g i) (p : Nat) (hp : p < mmr N) : refData f p = refData g p := by
  obtain ⟨n, h, hh, rfl⟩ := coord_surj p
  have hn := (coord_lt_iff hh).1 hp
  unfold refData
  rw [peakMapHeight_co n h hh]
  exact hfg n hn

/-- the hash vector of the Vec-backed reference is `refHash` on every position -/
theorem allHashes_eq_ref {H : Type} (hf : HashFn Bytes H) (f : Nat → Bytes) (N : Nat) :
    allHashes hf f N = (List.range (mmr N)).map (refHash hf f) := by
  apply List.ext_getElem?
  intro i
  by_cases hi : i < mmr N
  · obtain ⟨n, h, hh, rfl⟩ := coord_surj i
    have hn := (coord_lt_iff hh).1 hi
    rw [allHashes_getElem? hf f N n h hn hh, List.getElem?_map, List.getElem?_range hi]
    simp only [Option.map_some, refHash, peakMapHeight_co n h hh]
  · rw [List.getElem?_eq_none (by rw [allHashes_length]; omega),
      List.getElem?_eq_none (by simp; omega)]

/-! ### the invariant inside a unit of work -/

structure Live {H : Type} (b : Backend H) (N : Nat) (ref : Nat → H) (dref : Nat → Bytes)
    (df : AOF Bytes) : Prop where
  inv : b.pruneList.Inv
  hashWF : b.hashFile.WF
  hashLay : b.hashFile.view = (layout b.pruneList.bitmap (mmr N)).map ref
  data : b.dataFile = .fixed df
  dataWF : df.WF
  dataLay : df.view = (dataLayout b.pruneList.bitmap (mmr N)).map dref
  lsSorted : Sorted b.leafSet.bitmap
  lsLeaf : ∀ x ∈ b.leafSet.bitmap, 1 ≤ x ∧ x ≤ mmr N ∧ height (x - 1) = 0
  unpruned : ∀ x ∈ b.leafSet.bitmap, ¬ PrunedBy b.pruneList.bitmap (x - 1)
  roots : ∀ x ∈ b.pruneList.bitmap, x ≤ mmr N
  bound : mmr N + 64 < 2 ^ 64
  pruneFile : b.pruneFile = b.pruneList.bitmap

theorem Synced.live {H : Type} {b : Backend H} {N : Nat} {ref : Nat → H} {dref : Nat → Bytes}
    {df : AOF Bytes} (h : Synced b N ref dref df) : Live b N ref dref df := by
  obtain ⟨w1, v1⟩ := AOF.wf_of_clean h.hashClean
  obtain ⟨w2, v2⟩ := AOF.wf_of_clean h.dataClean
  exact ⟨h.inv, w1, by rw [v1]; exact h.hashLay, h.data, w2, by rw [v2]; exact h.dataLay,
    h.lsSorted, h.lsLeaf, h.unpruned, h.roots, h.bound, h.pruneFile⟩

namespace Live
variable {H : Type} {b : Backend H} {N : Nat} {ref : Nat → H} {dref : Nat → Bytes} {df : AOF Bytes}

/-- **`sync` turns the in-unit invariant into the synced one** -/
theorem sync (h : Live b N ref dref df) : Synced b.sync N ref dref df.flush := by
  refine ⟨h.inv, AOF.flush_clean _, ?_, by simp [Backend.sync, h.data, DFile.flush],
    AOF.flush_clean _, ?_, h.lsSorted, LeafSet.flush_clean _, h.lsLeaf, h.unpruned, h.roots, h.bound, rfl⟩
  · show b.hashFile.flush.disk = _
    rw [AOF.flush_of_wf h.hashWF]; exact h.hashLay
  · rw [AOF.flush_of_wf h.dataWF]; exact h.dataLay

theorem congr {hf : HashFn Bytes H} {f g : Nat → Bytes}
    (h : Live b N (refHash hf f) (refData f) df) (hfg : ∀ i, i < N → f i = g i) :
    Live b N (refHash hf g) (refData g) df := by
  refine ⟨h.inv, h.hashWF, ?_, h.data, h.dataWF, ?_, h.lsSorted, h.lsLeaf, h.unpruned, h.roots,
    h.bound, h.pruneFile⟩
  · rw [h.hashLay]
    apply List.map_congr_left
    intro p hp
    have : p < mmr N := by simpa using (List.mem_filter.1 hp).1
    exact refHash_congr hf hfg p this
  · rw [h.dataLay]
    apply List.map_congr_left
    intro p hp
    have : p < mmr N := by simpa using (List.mem_filter.1 hp).1
    exact refData_congr hfg p this

/-- every position that is not compacted away reads its reference hash -/
theorem read_hash (h : Live b N ref dref df) (q : Nat) (hq : q < mmr N)
    (hnc : compactedP b.pruneList.bitmap q = false) :
    b.getPeakFromFile q = some (ref q) ∧ b.getFromFile q = some (ref q) := by
  have h1 : b.getPeakFromFile q = some (ref q) := by
    unfold Backend.getPeakFromFile AOF.read1
    have hidx := hashIdx_eq h.inv q hnc
    have e : 1 + q - b.pruneList.getShift q = rk (fun x => !compactedP b.pruneList.bitmap x) q + 1 := by
      omega
    rw [e, if_neg (by omega), Nat.add_sub_cancel, AOF.read_view h.hashWF, h.hashLay, List.getElem?_map]
    unfold layout
    rw [filter_range_index _ (mmr N) q hq (by simp [hnc])]
    rfl
  refine ⟨h1, ?_⟩
  rw [Backend.getFromFile_eq, Backend.getFromFile_of_not_compacted h.inv q hnc]
  exact h1

theorem needed_kept (h : Live b N ref dref df) (q : Nat) (hq : (q + 1) ∈ b.leafSet.bitmap)
    (a : Nat) (ha : Sub (family a).1 q) : compactedP b.pruneList.bitmap a = false := by
  cases hc : compactedP b.pruneList.bitmap a with
  | false => rfl
  | true =>
    have := h.unpruned (q + 1) hq
    rw [Nat.add_sub_cancel] at this
    exact absurd (prunedBy_of_sub (compactedP_iff_parent.1 hc) ha) this

/-- every unspent leaf reads its reference hash and data, also inside a unit of work -/
theorem read_unspent (el : Bytes → Option Nat) (h : Live b N ref dref df) (q : Nat)
    (hq : (q + 1) ∈ b.leafSet.bitmap) :
    b.getHash q = some (ref q) ∧ b.getData el q = some (dref q) := by
  obtain ⟨_, h2, h3⟩ := h.lsLeaf (q + 1) hq
  rw [Nat.add_sub_cancel] at h3
  have hlt : q < mmr N := by omega
  have hnc := h.needed_kept q hq q (Synced.sub_parent_self q)
  have hinc : b.leafSet.includes q = true := Synced.includes_iff.2 hq
  have hl : isLeaf q = true := (isLeaf_iff q).2 h3
  constructor
  · unfold Backend.getHash
    simp only [hl, hinc, Bool.not_true, Bool.and_false, Bool.false_eq_true, if_false]
    exact (h.read_hash q hlt hnc).2
  · unfold Backend.getData Backend.getDataFromFile
    simp only [hl, hinc, Bool.not_true, Bool.false_eq_true, if_false,
      Backend.getFromFile_of_not_compacted h.inv q hnc]
    rw [h.data]
    unfold DFile.read1 AOF.read1
    simp only
    have hidx := dataIdx_eq h.inv q h3 hnc
    rw [hidx, if_neg (by omega), Nat.add_sub_cancel, AOF.read_view h.dataWF, h.dataLay, List.getElem?_map]
    unfold dataLayout
    rw [filter_range_index _ (mmr N) q hlt (by simp [hl, hnc])]
    rfl

theorem read_path (h : Live b N ref dref df) (q : Nat) (hq : (q + 1) ∈ b.leafSet.bitmap)
    (a : Nat) (ha : Sub (family a).1 q) (hlt : a < mmr N) : b.getFromFile a = some (ref a) :=
  (h.read_hash a hlt (h.needed_kept q hq a ha)).2

theorem read_peak (h : Live b N ref dref df) (p : Nat) (hp : p ∈ peaks (mmr N)) :
    b.getPeakFromFile p = some (ref p) :=
  (h.read_hash p (peaks_lt_size hp) (peak_not_compacted h.roots h.inv.pos p hp)).1

/-- the root over the backend is the root of the unpruned reference, also inside a unit of work -/
theorem root_eq (hf : HashFn Bytes H) (h : Live b N ref dref df) :
    PM.root hf { b := b, size := mmr N } = Pmmr.root hf ((List.range (mmr N)).map ref) := by
  unfold PM.root rootG Pmmr.root peakHashes
  simp only [List.length_map, List.length_range]
  have : (peaks (mmr N)).filterMap (PM.getPeak { b := b, size := mmr N }) =
      (peaks (mmr N)).filterMap (fun p => ((List.range (mmr N)).map ref)[p]?) := by
    apply Synced.filterMap_congr_mem
    intro p hp
    have hlt := peaks_lt_size hp
    unfold PM.getPeak guard
    simp only
    rw [if_neg (by omega), h.read_peak p hp]
    simp [hlt]
  rw [this]
  split <;> rfl

/-- `remove` keeps the invariant -/
theorem remove (h : Live b N ref dref df) (p : Nat) : Live (b.remove p) N ref dref df :=
  ⟨h.inv, h.hashWF, h.hashLay, h.data, h.dataWF, h.dataLay, sorted_filter _ h.lsSorted,
    fun x hx => h.lsLeaf x (mem_remove.1 hx).1, fun x hx => h.unpruned x (mem_remove.1 hx).1,
    h.roots, h.bound, h.pruneFile⟩

end Live
end GV.Store
