import GrinVerif.Lemmas.StoreCompactSet
import GrinVerif.Lemmas.StoreBackend
/-! `check_compact` rewrites the hash file into the layout of the new prune list (C08, gap (2)):
a generic lemma about removing ranked indices from a filtered file, sortedness of the bitmaps
`pos_to_rm` builds, the set-level specification of `pos_to_rm` and the hash-file theorem.
Core Lean only. -/
namespace GV.Store
open GV GV.Pmmr

/-! ### removing ranked indices from a file that stores the kept positions in order -/

/-- number of kept positions below `q` = index of `q` in the file -/
def rk (keep : Nat → Bool) (q : Nat) : Nat := (List.range q).countP keep

theorem rk_succ (keep : Nat → Bool) (q : Nat) : rk keep (q + 1) = rk keep q + if keep q then 1 else 0 := by
  unfold rk
  rw [List.range_succ, List.countP_append]
  simp [List.countP_cons]

theorem rk_mono (keep : Nat → Bool) {a b : Nat} (h : a ≤ b) : rk keep a ≤ rk keep b := by
  induction h with
  | refl => exact Nat.le_refl _
  | step _ ih => rw [rk_succ]; omega

theorem rk_lt (keep : Nat → Bool) {a b : Nat} (h : a < b) (ha : keep a = true) : rk keep a < rk keep b := by
  have := rk_mono keep (show a + 1 ≤ b from h)
  rw [rk_succ, ha] at this
  simp at this; omega

theorem keepIdx_map_filter {E : Type} (k g : Nat → Bool) (val : Nat → E) :
    ∀ (L : List Nat) (cur : Nat), (∀ j (hj : j < L.length), k (cur + j) = g L[j]) →
      keepIdx k (L.map val) cur = (L.filter g).map val := by
  intro L
  induction L with
  | nil => intro _ _; rfl
  | cons a t ih =>
    intro cur h
    have h0 := h 0 (by simp)
    simp only [Nat.add_zero, List.getElem_cons_zero] at h0
    have ht := ih (cur + 1) (fun j hj => by
      have := h (j + 1) (by simpa using hj)
      simp only [List.getElem_cons_succ] at this
      rw [← this]; congr 1; omega)
    simp only [List.map_cons, keepIdx, List.filter_cons, h0]
    cases g a <;> simp [ht]

/-- index of a kept position in the filtered range -/
theorem filter_range_index (keep : Nat → Bool) (size q : Nat) (hq : q < size) (hk : keep q = true) :
    ((List.range size).filter keep)[rk keep q]? = some q :=
  filter_range_getElem keep q hk size hq

theorem filter_range_length (keep : Nat → Bool) (size : Nat) :
    ((List.range size).filter keep).length = rk keep size := by
  unfold rk; rw [List.countP_eq_length_filter]

/-- **generic compaction of a file**: a file holds `val q` for the kept positions `q < size` in
order; removing the indices `rk q` for an ascending list `R` of kept positions (the loop of
`write_tmp_pruned`) leaves the kept positions outside `R`, in order -/
theorem compact_generic {E : Type} (keep : Nat → Bool) (val : Nat → E) (size : Nat) (R : List Nat)
    (hRs : Sorted R) (hRk : ∀ q ∈ R, keep q = true) :
    AOF.writeTmpLoop (((List.range size).filter keep).map val) 0 (R.map (rk keep)) =
      ((List.range size).filter (fun q => keep q && !R.elem q)).map val := by
  have hsorted : Sorted (R.map (rk keep)) := by
    unfold Sorted at *
    rw [List.pairwise_map]
    have hk : ∀ q ∈ R, keep q = true := hRk
    revert hk
    induction hRs with
    | nil => intro _; exact List.Pairwise.nil
    | @cons a l h1 _ ih =>
      intro hk
      refine List.Pairwise.cons (fun b hb => rk_lt keep (h1 b hb) (hk a (by simp))) ?_
      exact ih (fun q hq => hRk q (by simp [hq])) (fun q hq => hk q (by simp [hq]))
  rw [writeTmpLoop_spec _ 0 _ hsorted (fun _ _ => Nat.zero_le _)]
  rw [keepIdx_map_filter (fun i => !(R.map (rk keep)).elem i) (fun q => !R.elem q) val _ 0]
  · rw [List.filter_filter]
    congr 1
    apply List.filter_congr
    intro q _
    exact Bool.and_comm _ _
  · intro j hj
    simp only [Nat.zero_add]
    congr 1
    generalize hL : (List.range size).filter keep = L at *
    have hnd : L.Nodup := by rw [← hL]; exact List.Nodup.sublist List.filter_sublist List.nodup_range
    have hmem : ∀ q, q ∈ L ↔ q < size ∧ keep q = true := by
      intro q; rw [← hL]; simp [List.mem_filter]
    have hlen : L.length = rk keep size := by rw [← hL]; exact filter_range_length keep size
    rw [Bool.eq_iff_iff]
    simp only [List.elem_eq_mem, decide_eq_true_eq, List.mem_map]
    constructor
    · rintro ⟨q, hqR, hqj⟩
      have hkq := hRk q hqR
      by_cases hqs : q < size
      · have := filter_range_index keep size q hqs hkq
        rw [hL, hqj] at this
        have : L[j] = q := by
          rw [List.getElem?_eq_getElem hj] at this; exact Option.some.inj this
        rw [this]; exact hqR
      · have := rk_mono keep (show size ≤ q by omega)
        omega
    · intro hR
      have hq := (hmem L[j]).1 (List.getElem_mem hj)
      refine ⟨L[j], hR, ?_⟩
      have := filter_range_index keep size L[j] hq.1 hq.2
      rw [hL] at this
      obtain ⟨hlt, he⟩ := List.getElem?_eq_some_iff.1 this
      exact (List.getElem_inj hnd).1 he

/-! ### sortedness of the bitmaps built by `pos_to_rm` -/

theorem sorted_flip {b : Bitmap} (hs : Sorted b) (lo hi : Nat) (hlh : lo ≤ hi) : Sorted (Bm.flip b lo hi) := by
  unfold Bm.flip Sorted
  rw [List.pairwise_append, List.pairwise_append]
  refine ⟨⟨sorted_filter _ hs, ?_, ?_⟩, sorted_filter _ hs, ?_⟩
  · exact List.Pairwise.sublist List.filter_sublist (List.pairwise_lt_range')
  · intro a ha c hc
    simp only [List.mem_filter, decide_eq_true_eq, List.mem_range'] at ha hc
    obtain ⟨⟨i, _, rfl⟩, _⟩ := hc
    omega
  · intro a ha c hc
    simp only [List.mem_append, List.mem_filter, decide_eq_true_eq, List.mem_range', ge_iff_le] at ha hc
    rcases ha with ⟨_, ha⟩ | ⟨⟨i, hi1, rfl⟩, _⟩ <;> omega

theorem sorted_and {a : Bitmap} (hs : Sorted a) (b : Bitmap) : Sorted (Bm.and a b) :=
  sorted_filter _ hs

theorem sorted_removeRange {a : Bitmap} (hs : Sorted a) (lo hi : Nat) : Sorted (Bm.removeRange a lo hi) :=
  sorted_filter _ hs

theorem sorted_removedPreCutoff {ls : LeafSet} (hs : Sorted ls.bitmap) (cutoff : Nat) (rm : Bitmap)
    (pl : PruneList) : Sorted (ls.removedPreCutoff cutoff rm pl) := by
  unfold LeafSet.removedPreCutoff
  exact sorted_and (sorted_flip (sorted_or (sorted_removeRange hs _ _)) _ _ (by omega)) _

theorem sorted_ne {l : List Nat} (hs : Sorted l) : List.Pairwise (· ≠ ·) l :=
  List.Pairwise.imp (fun h => by omega) hs

namespace Backend
variable {H : Type}

theorem sorted_expandLoop (pl : PruneList) : ∀ (fuel : Nat) (E : Bitmap) (cur : Nat), Sorted E →
    Sorted (expandLoop pl fuel E cur) := by
  intro fuel
  induction fuel with
  | zero => intro E _ h; exact h
  | succ n ih =>
    intro E cur h
    unfold expandLoop
    simp only
    cases hr : pl.isPrunedRoot (family (cur - 1)).2 with
    | true =>
      simp only [if_true, Bool.true_or]
      exact ih _ _ (sorted_add (sorted_add h))
    | false =>
      simp only [Bool.false_eq_true, if_false, Bool.false_or]
      split
      · exact ih _ _ (sorted_add h)
      · exact h

theorem sorted_expand_fold (pl : PruneList) : ∀ (l : List Nat) (E : Bitmap), Sorted E →
    Sorted (l.foldl (fun expanded x => expandLoop pl 64 (Bm.add expanded x) x) E) := by
  intro l
  induction l with
  | nil => intro E h; exact h
  | cons x xs ih => intro E h; exact ih _ (sorted_expandLoop pl 64 _ _ (sorted_add h))

theorem sorted_posToRm (b : Backend H) (cutoff : Nat) (rm : Bitmap) :
    Sorted (b.posToRm cutoff rm).2 := by
  unfold posToRm removedExclRoots
  exact sorted_filter _ (sorted_expand_fold _ _ _ List.Pairwise.nil)

/-! ### the set-level specification of `pos_to_rm` -/

/-- the hypotheses on the backend under which compaction is analysed: roll-up invariant, leaf set
ascending, everything inside an MMR of `size < 2^64 − 64` positions -/
structure CompactPre (b : Backend H) (size cutoff : Nat) : Prop where
  inv : b.pruneList.Inv
  lsSorted : Sorted b.leafSet.bitmap
  roots : ∀ x ∈ b.pruneList.bitmap, x ≤ size
  cutoff : cutoff ≤ size
  bound : size + 64 < 2 ^ 64

/-- the leaves `check_compact` removes (first component of `pos_to_rm`) -/
def leavesRm (b : Backend H) (cutoff : Nat) (rm : Bitmap) : Bitmap := (b.posToRm cutoff rm).1

theorem leavesRm_props {b : Backend H} {size cutoff : Nat} (hp : CompactPre b size cutoff) (rm : Bitmap) :
    ∀ x ∈ leavesRm b cutoff rm, 1 ≤ x ∧ x ≤ cutoff ∧ x ∉ b.leafSet.bitmap ∧ x ∉ rm ∧
      height (x - 1) = 0 ∧ ¬ PrunedBy b.pruneList.bitmap (x - 1) := by
  intro x hx
  obtain ⟨h1, h2, h3, h4, h5, h6⟩ := LeafSet.mem_removedPreCutoff (show x ∈
    b.leafSet.removedPreCutoff cutoff rm b.pruneList from hx)
  refine ⟨h1, h2, h3, h4, (isLeaf_iff _).1 h5, ?_⟩
  intro hc
  rw [(PruneList.isPruned_iff_prunedBy hp.inv _).2 hc] at h6
  exact absurd h6 (by simp)

/-- the bitmap of the prune list after compaction -/
def newBm (b : Backend H) (cutoff : Nat) (rm : Bitmap) : Bitmap :=
  (PruneList.new (Bm.or b.pruneList.bitmap (leavesRm b cutoff rm))).bitmap

theorem newBm_eq (el : Bytes → Option Nat) (b : Backend H) (cutoff : Nat) (rm : Bitmap) :
    (b.checkCompact el cutoff rm).pruneList.bitmap = newBm b cutoff rm := rfl

/-- **what the new prune list prunes** (gap (1) for `check_compact`): a position is pruned by the
list written by `check_compact` iff every leaf below it was pruned before or is removed now -/
theorem newBm_prunedBy {b : Backend H} {size cutoff : Nat} (hp : CompactPre b size cutoff)
    (rm : Bitmap) (q : Nat) :
    PrunedBy (newBm b cutoff rm) q ↔
      Full (P0 b.pruneList.bitmap (fun y => y ∈ leavesRm b cutoff rm)) q := by
  have hprops := leavesRm_props hp rm
  apply PruneList.prunedBy_of_leaves (PruneList.new_inv _)
  intro l hl
  rw [PruneList.new_leaves _ (sorted_or hp.inv.sorted)]
  · unfold P0 PrunedBy
    constructor
    · rintro ⟨x, hx, hs⟩
      rcases mem_or.1 hx with h | h
      · exact Or.inl ⟨x, h, hs⟩
      · right
        have := sub_leaf (hprops x h).2.2.2.2.1 hs
        have h1 := (hprops x h).1
        have : l + 1 = x := by omega
        rw [this]; exact h
    · rintro (⟨x, hx, hs⟩ | h)
      · exact ⟨x, mem_or.2 (Or.inl hx), hs⟩
      · exact ⟨l + 1, mem_or.2 (Or.inr h), by rw [Nat.add_sub_cancel]; exact sub_refl l⟩
  · intro e he
    have hb := hp.bound
    have hc := hp.cutoff
    rcases mem_or.1 he with h | h
    · have := hp.roots e h; have := hp.inv.pos e h; omega
    · have := hprops e h; omega
  · -- pairwise not nested
    have hsorted : Sorted (Bm.or b.pruneList.bitmap (leavesRm b cutoff rm)) := sorted_or hp.inv.sorted
    apply List.Pairwise.imp_of_mem (R := fun a c => a < c) ?_ hsorted
    intro a c ha hc hac hsub
    rcases mem_or.1 ha with ha | ha <;> rcases mem_or.1 hc with hc | hc
    · -- two old roots
      have h1 := PruneList.root_not_compacted hp.inv a ha
      have h2 : compactedP b.pruneList.bitmap (a - 1) = true :=
        compactedP_iff.2 ⟨c, hc, hsub, by have := hp.inv.pos a ha; omega⟩
      rw [h1] at h2; exact absurd h2 (by simp)
    · -- `c` a removed leaf: its subtree is itself
      have := sub_leaf (hprops c hc).2.2.2.2.1 hsub
      have := hp.inv.pos a ha; have := (hprops c hc).1
      omega
    · -- `a` a removed leaf below the old root `c`
      exact (hprops a ha).2.2.2.2.2 ⟨c, hc, hsub⟩
    · have := sub_leaf (hprops c hc).2.2.2.2.1 hsub
      have := (hprops a ha).1; have := (hprops c hc).1
      omega
  · exact hl

/-- compaction only grows the compacted set -/
theorem compactedP_mono {b : Backend H} {size cutoff : Nat} (hp : CompactPre b size cutoff)
    (rm : Bitmap) (q : Nat) (h : compactedP b.pruneList.bitmap q = true) :
    compactedP (newBm b cutoff rm) q = true := by
  rw [compactedP_iff_parent] at h ⊢
  rw [newBm_prunedBy hp]
  intro l _ hs
  exact Or.inl (prunedBy_of_sub h hs)

/-- **`pos_to_rm` = the newly compacted positions** (gap (2)): `check_compact` removes from the
hash file exactly the positions that are compacted away under the new prune list and were not
under the old one -/
theorem posToRm_spec {b : Backend H} {size cutoff : Nat} (hp : CompactPre b size cutoff)
    (rm : Bitmap) (y : Nat) :
    y ∈ (b.posToRm cutoff rm).2 ↔
      1 ≤ y ∧ compactedP (newBm b cutoff rm) (y - 1) = true ∧
        compactedP b.pruneList.bitmap (y - 1) = false := by
  have hprops := leavesRm_props hp rm
  have hLs : Sorted (leavesRm b cutoff rm) := sorted_removedPreCutoff hp.lsSorted _ _ _
  have hfold := expand_fold hp.inv (leavesRm b cutoff rm) (fun _ => False) []
    (fun y => by
      constructor
      · intro h; simp at h
      · rintro ⟨_, h | ⟨_, h⟩⟩ <;> exact absurd h (newP_empty hp.inv _))
    (sorted_ne hLs)
    (fun x hx => by
      obtain ⟨h1, _, _, _, h5, h6⟩ := hprops x hx
      exact ⟨h1, by simp, h5, h6⟩)
    (fun l hl => by
      have hb := hp.bound
      have hc := hp.cutoff
      rcases hl with ⟨x, hx, hs⟩ | h | h
      · have := hp.roots x hx; have := hs.2; omega
      · exact absurd h (by simp)
      · have := hprops _ h; omega)
  have hE : ∀ y, y ∈ (leavesRm b cutoff rm).foldl
      (fun expanded x => expandLoop b.pruneList 64 (Bm.add expanded x) x) [] ↔
      ESpec b.pruneList.bitmap (NewP b.pruneList.bitmap (fun y => y ∈ leavesRm b cutoff rm)) y := by
    intro y
    rw [hfold y]
    exact espec_congr (newP_congr (fun x => by simp)) y
  have := exclRoots_spec hp.inv _ _ hE y
  refine Iff.trans this ?_
  unfold NewP
  rw [← newBm_prunedBy hp, ← compactedP_iff_parent, ← compactedP_iff_parent]
  simp

end Backend
end GV.Store
