import GrinVerif.Lemmas.SegTree
/-! The final, not full segment: its position range `[mmr (idx·2^h), size-1]` is tiled by the
subtrees of the peaks it contains (the low part of the forest of the leaf count), in post-order.
Forest split at a segment boundary, tiling, stack depth of the loop of `Segment::root` over the
final range, identifier arithmetic without wrap-around, `peaksIn`.  Closes the named gap
`final_segment_range`.  Core Lean only. -/
namespace GV.Seg
open GV GV.Pmmr

/-! ### `mmr` is additive over an aligned block -/

theorem mmr_add_low (k a m : Nat) (hm : m < 2 ^ k) : mmr (a * 2 ^ k + m) = mmr (a * 2 ^ k) + mmr m := by
  have h1 := Co.popcount_split k a m hm
  have h2 := Co.mmr_mul_pow a k
  have h3 := popcount_le m
  have h4 := popcount_le a
  have hpos : 0 < 2 ^ k := Nat.pow_pos (by omega)
  have h5 : a ≤ a * 2 ^ k := Nat.le_mul_of_pos_right a hpos
  unfold mmr at h2 ⊢
  rw [h1, Co.popcount_mul_pow]
  rw [Co.popcount_mul_pow] at h2
  omega

/-! ### the forest splits at every aligned boundary -/

/-- the forest of `b·2^(g+d) + q·2^g + r` leaves (`q < 2^d`, `r < 2^g`): the trees that lie
before leaf `(b·2^d + q)·2^g`, then the forest of the last `r` leaves -/
theorem forestFrom_split (g : Nat) : ∀ (d b q r : Nat), q < 2 ^ d → r < 2 ^ g →
    ∃ Lh, Co.forestFrom (g + d) (b * 2 ^ (g + d)) (q * 2 ^ g + r)
        = Lh ++ Co.forestFrom g ((b * 2 ^ d + q) * 2 ^ g) r
      ∧ ∀ c ∈ Lh, c.1 < (b * 2 ^ d + q) * 2 ^ g := by
  intro d
  induction d with
  | zero =>
    intro b q r hq hr
    have : q = 0 := by simpa using hq
    subst this
    exact ⟨[], by simp, by simp⟩
  | succ d ih =>
    intro b q r hq hr
    have hpg : 0 < 2 ^ g := Nat.pow_pos (by omega)
    have hpd : 0 < 2 ^ d := Nat.pow_pos (by omega)
    have hD : 2 ^ (d + 1) = 2 * 2 ^ d := two_pow_succ d
    have hX : 2 ^ (g + d) = 2 ^ d * 2 ^ g := by rw [Nat.pow_add, Nat.mul_comm]
    have hX1 : 2 ^ (g + (d + 1)) = 2 * (2 ^ d * 2 ^ g) := by
      rw [show g + (d + 1) = (g + d) + 1 by omega, two_pow_succ, hX]
    have e0 : g + (d + 1) = (g + d) + 1 := by omega
    rw [e0, Co.forestFrom]
    by_cases hb : 2 ^ d ≤ q
    · -- the tree of height g+d is present
      obtain ⟨q', rfl⟩ : ∃ q', q = 2 ^ d + q' := ⟨q - 2 ^ d, by omega⟩
      have hq' : q' < 2 ^ d := by omega
      have em : (2 ^ d + q') * 2 ^ g + r = 2 ^ (g + d) + (q' * 2 ^ g + r) := by
        rw [Nat.add_mul, hX]; omega
      have hge : 2 ^ (g + d) ≤ (2 ^ d + q') * 2 ^ g + r := by omega
      rw [if_pos hge]
      have ebase : b * 2 ^ (g + d + 1) + 2 ^ (g + d) = (2 * b + 1) * 2 ^ (g + d) := by
        rw [two_pow_succ, Nat.add_mul, Nat.one_mul]
        have : b * (2 * 2 ^ (g + d)) = 2 * b * 2 ^ (g + d) := by ac_rfl
        omega
      have erem : (2 ^ d + q') * 2 ^ g + r - 2 ^ (g + d) = q' * 2 ^ g + r := by omega
      obtain ⟨Lh, hL, hlt⟩ := ih (2 * b + 1) q' r hq' hr
      rw [ebase, erem, hL]
      have eidx : (2 * b + 1) * 2 ^ d + q' = b * 2 ^ (d + 1) + (2 ^ d + q') := by
        rw [hD, Nat.add_mul, Nat.one_mul]
        have : b * (2 * 2 ^ d) = 2 * b * 2 ^ d := by ac_rfl
        omega
      refine ⟨((2 * b + 1) * 2 ^ (g + d) - 1, g + d) :: Lh, by rw [eidx]; rfl, ?_⟩
      intro c hc
      rcases List.mem_cons.1 hc with rfl | hc'
      · simp only
        have e1 : ((2 * b + 1) * 2 ^ d + q') * 2 ^ g = (2 * b + 1) * 2 ^ (g + d) + q' * 2 ^ g := by
          rw [Nat.add_mul, hX]; ac_rfl
        have h0 : 0 < (2 * b + 1) * 2 ^ (g + d) := Nat.mul_pos (by omega) (Nat.pow_pos (by omega))
        rw [← eidx, e1]; omega
      · rw [← eidx]; exact hlt c hc'
    · have hq' : q < 2 ^ d := by omega
      have hlt : ¬ 2 ^ (g + d) ≤ q * 2 ^ g + r := by
        rw [hX]
        have : (q + 1) * 2 ^ g ≤ 2 ^ d * 2 ^ g := Nat.mul_le_mul_right _ (by omega)
        rw [Nat.add_mul, Nat.one_mul] at this
        omega
      rw [if_neg hlt]
      have ebase : b * 2 ^ (g + d + 1) = (2 * b) * 2 ^ (g + d) := by
        rw [two_pow_succ]; ac_rfl
      obtain ⟨Lh, hL, hlt'⟩ := ih (2 * b) q r hq' hr
      have eidx : 2 * b * 2 ^ d + q = b * 2 ^ (d + 1) + q := by
        rw [hD]
        have : b * (2 * 2 ^ d) = 2 * b * 2 ^ d := by ac_rfl
        omega
      rw [ebase, hL]
      exact ⟨Lh, by rw [eidx], by rw [← eidx]; exact hlt'⟩

/-- the forest of `a·2^g + r` leaves, `r < 2^g`: trees before leaf `a·2^g`, then the forest of the
last `r` leaves (the peaks inside the final segment `(g, a)`) -/
theorem forest_split (g a r : Nat) (hr : r < 2 ^ g) :
    ∃ Lh, Co.forest (a * 2 ^ g + r) = Lh ++ Co.forestFrom g (a * 2 ^ g) r
      ∧ ∀ c ∈ Lh, c.1 < a * 2 ^ g := by
  have ha : a < 2 ^ a := Nat.lt_two_pow_self
  have hpg : 0 < 2 ^ g := Nat.pow_pos (by omega)
  have hN : a * 2 ^ g + r < 2 ^ (g + a) := by
    rw [Nat.pow_add, Nat.mul_comm (2 ^ g)]
    have : (a + 1) * 2 ^ g ≤ 2 ^ a * 2 ^ g := Nat.mul_le_mul_right _ (by omega)
    rw [Nat.add_mul, Nat.one_mul] at this
    omega
  obtain ⟨Lh, hL, hlt⟩ := forestFrom_split g a 0 a r ha hr
  simp only [Nat.zero_mul, Nat.zero_add] at hL hlt
  exact ⟨Lh, by rw [Co.forest_eq hN]; exact hL, hlt⟩

/-! ### tiling -/

/-- the positions of the subtrees of a list of trees, each in post-order -/
def tiles (l : List (Nat × Nat)) : List Nat := l.flatMap fun c => treeRange c.2 (Co.cpos c)

theorem tiles_cons (c : Nat × Nat) (l : List (Nat × Nat)) :
    tiles (c :: l) = treeRange c.2 (Co.cpos c) ++ tiles l := by
  simp [tiles]

theorem tiles_nil : tiles [] = [] := rfl

/-- the `mmr m` positions that follow `mmr (a·2^k)` are the subtrees of `forestFrom k (a·2^k) m`,
one after the other -/
theorem forestFrom_tiles (k : Nat) : ∀ (a m : Nat), m < 2 ^ k →
    List.range' (mmr (a * 2 ^ k)) (mmr m) = tiles (Co.forestFrom k (a * 2 ^ k) m) := by
  induction k with
  | zero =>
    intro a m hm
    have : m = 0 := by simpa using hm
    subst this
    simp [Co.forestFrom, tiles, Co.mmr_zero]
  | succ k ih =>
    intro a m hm
    have hp := two_pow_succ k
    have hpos : 0 < 2 ^ k := Nat.pow_pos (by omega)
    have hA : a * 2 ^ (k + 1) = (2 * a) * 2 ^ k := by rw [hp]; ac_rfl
    rw [Co.forestFrom]
    by_cases hb : 2 ^ k ≤ m
    · rw [if_pos hb, tiles_cons]
      obtain ⟨m', rfl⟩ : ∃ m', m = 2 ^ k + m' := ⟨m - 2 ^ k, by omega⟩
      have hm' : m' < 2 ^ k := by omega
      have hbase : a * 2 ^ (k + 1) + 2 ^ k = (2 * a + 1) * 2 ^ k := by rw [Nat.add_mul]; omega
      have e2 : 2 ^ k + m' - 2 ^ k = m' := by omega
      rw [mmr_add_pow k m' hm', hbase, e2, ← ih (2 * a + 1) m' hm']
      -- the first tree
      have hblk := mmr_block (2 * a) k
      have hlow := mmr_add_low k (2 * a) (2 ^ k - 1) (by omega)
      have hnext : mmr ((2 * a + 1) * 2 ^ k) = mmr (2 * a * 2 ^ k) + (2 ^ (k + 1) - 1) := by
        have m2 := Co.mmr_mul_pow (2 * a) k
        have m3 := Co.mmr_mul_pow (2 * a + 1) k
        rw [Co.popcount_two_mul] at m2
        rw [Co.popcount_two_mul_add_one] at m3
        have e3 : (2 * a + 1) * 2 ^ k = (2 * a) * 2 ^ k + 2 ^ k := by rw [Nat.add_mul]; omega
        have hpc := popcount_le a
        have hle : a ≤ (2 * a) * 2 ^ k := by
          have : (2 * a) * 1 ≤ (2 * a) * 2 ^ k := Nat.mul_le_mul_left _ hpos
          omega
        omega
      have ec : Co.cpos ((2 * a + 1) * 2 ^ k - 1, k) + 2 - 2 ^ (k + 1) = mmr (2 * a * 2 ^ k) := by
        have : (2 * a + 1) * 2 ^ k - 1 = 2 * a * 2 ^ k + (2 ^ k - 1) := by omega
        simp only [Co.cpos, this]
        omega
      show List.range' _ _ = List.range' (Co.cpos ((2 * a + 1) * 2 ^ k - 1, k) + 2 - 2 ^ (k + 1))
        (2 ^ (k + 1) - 1) ++ _
      rw [ec, hA, hnext, ← List.range'_append_1]
    · rw [if_neg hb, hA]
      exact ih (2 * a) m (by omega)

/-! ### stack depth of the loop of `Segment::root` over a list of trees -/

theorem depthLoop_tiles : ∀ (l : List (Nat × Nat)) (d : Nat), (∀ c ∈ l, c.2 ≤ trailingOnes c.1) →
    depthLoop d (tiles l) = some (d + l.length) := by
  intro l
  induction l with
  | nil => intro d _; simp [tiles, depthLoop]
  | cons c l ih =>
    intro d hv
    have hc := hv c (List.mem_cons_self ..)
    have hh : height (Co.cpos c) = c.2 := GV.Props.C07.height_coord c.1 c.2 hc
    rw [tiles_cons, depthLoop_append, depthLoop_tree c.2 (Co.cpos c) d hh]
    simp only
    rw [ih (d + 1) (fun x hx => hv x (List.mem_cons_of_mem _ hx))]
    simp only [List.length_cons]
    congr 1; omega

/-! ### identifier arithmetic of the final, not full segment -/

/-- the final segment of an MMR with `N` leaves (`size = mmr N`): `height < 64`, its first leaf
exists, its last leaf does not, leaf count far below the u64 range -/
structure FinalId (id : Ident) (N : Nat) : Prop where
  hh : id.height < 64
  lo : id.idx * 2 ^ id.height < N
  hi : N < (id.idx + 1) * 2 ^ id.height
  small : N < 2 ^ 62

/-- number of leaves in the final segment -/
def finalLeaves (id : Ident) (N : Nat) : Nat := N - id.idx * 2 ^ id.height

theorem final_arith (id : Ident) (N : Nat) (v : FinalId id N) :
    id.capacity = 2 ^ id.height ∧ id.leafOffset = id.idx * 2 ^ id.height ∧
    id.unprunedSize (mmr N) = finalLeaves id N ∧
    id.full (mmr N) = false ∧
    id.posRange (mmr N) = (mmr (id.idx * 2 ^ id.height), mmr N - 1) := by
  obtain ⟨hh, lo, hi, small⟩ := v
  have hpow : 2 ^ id.height < 2 ^ 64 := Nat.pow_lt_pow_right (by omega) (by omega)
  have hcap : id.capacity = 2 ^ id.height := by
    unfold Ident.capacity shlW
    rw [Nat.mod_eq_of_lt hh, Nat.one_mul, Nat.mod_eq_of_lt hpow]
  have hoff : id.leafOffset = id.idx * 2 ^ id.height := by
    unfold Ident.leafOffset mulW
    rw [hcap]
    exact Nat.mod_eq_of_lt (by omega)
  have hnl : nLeaves (mmr N) = N := GV.Props.C07.nLeaves_at_leaf_boundary N
  rw [Nat.add_mul, Nat.one_mul] at hi
  have hus : id.unprunedSize (mmr N) = finalLeaves id N := by
    unfold Ident.unprunedSize satSub finalLeaves
    rw [hcap, hoff, hnl]
    exact Nat.min_eq_right (by omega)
  have hfull : id.full (mmr N) = false := by
    unfold Ident.full
    rw [hus, hcap]
    unfold finalLeaves
    simp only [beq_eq_false_iff_ne, ne_eq]
    omega
  refine ⟨hcap, hoff, hus, hfull, ?_⟩
  unfold Ident.posRange
  simp only [hfull, Bool.false_eq_true, if_false, hoff]
  have hm : mmr N ≤ 2 * N := by unfold mmr; omega
  have hm1 : 1 ≤ mmr N := by have := le_mmr N; omega
  rw [ins2pmmrW_small _ (by omega), subW_small _ _ hm1 (by omega)]

/-- what the final segment is made of: the trees before it (`Lh`), the trees inside it (`Ls`) -/
theorem final_forest (id : Ident) (N : Nat) (v : FinalId id N) :
    ∃ Lh, Co.forest N = Lh ++ Co.forestFrom id.height (id.idx * 2 ^ id.height) (finalLeaves id N)
      ∧ (∀ c ∈ Lh, c.1 < id.idx * 2 ^ id.height)
      ∧ finalLeaves id N < 2 ^ id.height ∧ 0 < finalLeaves id N
      ∧ N = id.idx * 2 ^ id.height + finalLeaves id N := by
  have hlo := v.lo
  have hhi := v.hi
  rw [Nat.add_mul, Nat.one_mul] at hhi
  have hr : finalLeaves id N < 2 ^ id.height := by unfold finalLeaves; omega
  have hN : N = id.idx * 2 ^ id.height + finalLeaves id N := by unfold finalLeaves; omega
  obtain ⟨Lh, hL, hlt⟩ := forest_split id.height id.idx (finalLeaves id N) hr
  rw [← hN] at hL
  exact ⟨Lh, hL, hlt, hr, by unfold finalLeaves; omega, hN⟩

/-- facts about the trees inside the final segment -/
theorem final_trees_mem (id : Ident) (N : Nat) (v : FinalId id N) :
    ∀ c ∈ Co.forestFrom id.height (id.idx * 2 ^ id.height) (finalLeaves id N),
      c.2 = trailingOnes c.1 ∧ id.idx * 2 ^ id.height ≤ c.1 ∧ c.1 < N := by
  intro c hc
  obtain ⟨_, _, _, hr, _, hN⟩ := final_forest id N v
  have := Co.forestFrom_mem id.height id.idx (finalLeaves id N) hr c hc
  have hpos : 0 < 2 ^ c.2 := Nat.pow_pos (by omega)
  omega

/-- the positions of the final segment: the subtrees of the peaks inside it, one after the other -/
theorem final_positions (id : Ident) (N : Nat) (v : FinalId id N) :
    id.positions (mmr N) =
      tiles (Co.forestFrom id.height (id.idx * 2 ^ id.height) (finalLeaves id N)) := by
  obtain ⟨_, _, _, _, hr⟩ := final_arith id N v
  obtain ⟨_, _, _, hlt, _, hN⟩ := final_forest id N v
  have hadd := mmr_add_low id.height id.idx (finalLeaves id N) hlt
  rw [← hN] at hadd
  unfold Ident.positions
  rw [hr]
  simp only
  have hm1 : 1 ≤ mmr N := by have := le_mmr N; have := v.lo; omega
  have : mmr N - 1 + 1 - mmr (id.idx * 2 ^ id.height) = mmr (finalLeaves id N) := by omega
  rw [this]
  exact forestFrom_tiles id.height id.idx (finalLeaves id N) hlt

/-- the peaks inside the final segment, right to left -/
theorem final_peaksIn (id : Ident) (N : Nat) (v : FinalId id N) :
    id.peaksIn (mmr N) =
      ((Co.forestFrom id.height (id.idx * 2 ^ id.height) (finalLeaves id N)).map Co.cpos).reverse := by
  obtain ⟨_, _, _, _, hr⟩ := final_arith id N v
  obtain ⟨Lh, hL, hlt, _, _, _⟩ := final_forest id N v
  unfold Ident.peaksIn
  rw [hr, Co.peaks_forest, hL, List.map_append, List.filter_append]
  simp only
  have h1 : (Lh.map Co.cpos).filter
      (fun p => decide (mmr (id.idx * 2 ^ id.height) ≤ p) && decide (p ≤ mmr N - 1)) = [] := by
    rw [List.filter_eq_nil_iff]
    intro p hp
    obtain ⟨c, hc, rfl⟩ := List.mem_map.1 hp
    have hm := Co.forest_mem (show c ∈ Co.forest N by rw [hL]; exact List.mem_append_left _ hc)
    have := (Co.coord_lt_iff (show c.2 ≤ trailingOnes c.1 by omega)
      (N := id.idx * 2 ^ id.height)).2 (hlt c hc)
    simp only [Co.cpos, Bool.and_eq_true, not_and]
    intro h1 _
    have := of_decide_eq_true h1
    omega
  have h2 : ((Co.forestFrom id.height (id.idx * 2 ^ id.height) (finalLeaves id N)).map Co.cpos).filter
      (fun p => decide (mmr (id.idx * 2 ^ id.height) ≤ p) && decide (p ≤ mmr N - 1)) =
      (Co.forestFrom id.height (id.idx * 2 ^ id.height) (finalLeaves id N)).map Co.cpos := by
    rw [List.filter_eq_self]
    intro p hp
    obtain ⟨c, hc, rfl⟩ := List.mem_map.1 hp
    obtain ⟨h1, h2, h3⟩ := final_trees_mem id N v c hc
    have := (Co.coord_lt_iff (show c.2 ≤ trailingOnes c.1 by omega) (N := N)).2 h3
    have := Co.mmr_le_mmr h2
    simp only [Co.cpos, Bool.and_eq_true]
    exact ⟨decide_eq_true (by omega), decide_eq_true (by omega)⟩
  rw [h1, h2, List.nil_append]

/-- **the final segment's range is well formed**: the loop of `root` leaves exactly one stack
entry per peak inside the segment -/
theorem wellFormed_final (id : Ident) (N : Nat) (v : FinalId id N) :
    WellFormedRange id (mmr N) := by
  unfold WellFormedRange
  rw [final_positions id N v, (final_arith id N v).2.2.2.1, final_peaksIn id N v]
  simp only [Bool.false_eq_true, if_false, List.length_reverse, List.length_map]
  have := depthLoop_tiles _ 0 (fun c hc => by have := final_trees_mem id N v c hc; omega)
  simpa using this

/-! ### every identifier whose range intersects the MMR -/

/-- an identifier whose range intersects the MMR with `N` leaves (`size = mmr N`), leaf count far
below the u64 range: `height < 64`, the first leaf of the segment exists -/
structure FitId (id : Ident) (N : Nat) : Prop where
  hh : id.height < 64
  lo : id.idx * 2 ^ id.height < N
  small : N < 2 ^ 62

theorem fit_cases (id : Ident) (N : Nat) (v : FitId id N) :
    FullId id (mmr N) ∨ FinalId id N := by
  have hnl : nLeaves (mmr N) = N := GV.Props.C07.nLeaves_at_leaf_boundary N
  by_cases h : (id.idx + 1) * 2 ^ id.height ≤ N
  · exact Or.inl ⟨v.hh, by rw [hnl]; exact h, by rw [hnl]; exact v.small⟩
  · exact Or.inr ⟨v.hh, v.lo, by omega, v.small⟩

/-- **every segment identifier that intersects the MMR has a well-formed range** -/
theorem wellFormed_fit (id : Ident) (N : Nat) (v : FitId id N) : WellFormedRange id (mmr N) := by
  rcases fit_cases id N v with h | h
  · exact wellFormed_full id (mmr N) h
  · exact wellFormed_final id N h

end GV.Seg
