import GrinVerif.Model.CodecConn
import GrinVerif.Lemmas.CodecFaith
/-! The reader thread of `conn::poll` with the handler in the loop (`connLoop`) against the framing
loop (`run`): helper lemmas for `Props/C19Conn.lean`. -/
namespace GV.Codec
open GV GV.Ser GV.Dec GV.Msg GV.Gen.Msg GV.Gen.CodecConn

variable {B H : Type}

/-- the view of the connection agrees with `v`, and where `v` names no reason the loop was left for
the codec's reason `r` -/
def Agrees (ov v : ConnView B H) (r : Res B H) : Prop :=
  ov.handed = v.handed ∧ ov.sent = v.sent ∧ ov.files = v.files ∧
  ov.stop = (match v.stop with
    | some w => some w
    | none => some (.codec r))

theorem agrees_push (ov v : ConnView B H) (r : Res B H) (m : Message B H) (snt : List OutMsg) (fl : List Bytes)
    (h : Agrees ov v r) : Agrees (ov.push m snt fl) (v.push m snt fl) r := by
  obtain ⟨h1, h2, h3, h4⟩ := h
  refine ⟨?_, ?_, ?_, ?_⟩
  · simp only [ConnView.push, h1]
  · simp only [ConnView.push, h2]
  · simp only [ConnView.push, h3]
  · simpa only [ConnView.push] using h4

theorem run_msg_some {σ : Type} (env : Env B H) (ops : SockOps σ) (attach : Message B H → Option Nat)
    (fuel : Nat) (c c' : Codec H) (s : σ) (m : Message B H) (hr : (read env ops c s).res = .msg m)
    (hn : nextCodec attach (read env ops c s).codec m = some c') :
    (run env ops attach (fuel + 1) c s).1 = m :: (run env ops attach fuel c' (read env ops c s).sock).1 ∧
    (run env ops attach (fuel + 1) c s).2.1 = (run env ops attach fuel c' (read env ops c s).sock).2.1 := by
  constructor <;> simp only [run, hr, hn]

theorem run_msg_none {σ : Type} (env : Env B H) (ops : SockOps σ) (attach : Message B H → Option Nat)
    (fuel : Nat) (c : Codec H) (s : σ) (m : Message B H) (hr : (read env ops c s).res = .msg m)
    (hn : nextCodec attach (read env ops c s).codec m = none) :
    (run env ops attach (fuel + 1) c s).2.1 = .panic .assertion := by
  simp only [run, hr, hn]

theorem run_nomsg {σ : Type} (env : Env B H) (ops : SockOps σ) (attach : Message B H → Option Nat)
    (fuel : Nat) (c : Codec H) (s : σ) (hr : ∀ m, (read env ops c s).res ≠ .msg m) :
    (run env ops attach (fuel + 1) c s).1 = [] ∧
    (run env ops attach (fuel + 1) c s).2.1 = (read env ops c s).res := by
  cases h : (read env ops c s).res with
  | msg m => exact absurd h (hr m)
  | err e => constructor <;> simp only [run, h]
  | panic st => constructor <;> simp only [run, h]
  | hang => constructor <;> simp only [run, h]

theorem attachOf_none_of (handler : Message B H → Consumed) (m : Message B H) (h : attachOf handler m = none) :
    ∀ size, handler m ≠ .attachment size := by
  intro size hh
  simp only [attachOf, hh] at h
  cases h

theorem attachOf_some (handler : Message B H → Consumed) (m : Message B H) (size : Nat) (h : handler m = .attachment size) :
    attachOf handler m = some size := by
  simp only [attachOf, h]

theorem attachOf_not (handler : Message B H → Consumed) (m : Message B H) (h : ∀ size, handler m ≠ .attachment size) :
    attachOf handler m = none := by
  unfold attachOf
  cases hm : handler m with
  | attachment size => exact absurd hm (h size)
  | none => rfl
  | response r => rfl
  | disconnect => rfl
  | err t => rfl

/-- **the reader thread refines the framing loop** (see `Props/C19Conn.conn_loop_is_view_of_run`) -/
theorem connLoop_view {σ : Type} (env : Env B H) (ops : SockOps σ) (handler : Message B H → Consumed)
    (hat : AttachOK (attachOf handler)) : ∀ (fuel : Nat) (c : Codec H) (s : σ) (file : Option Bytes),
    (run env ops (attachOf handler) fuel c s).2.1 ≠ .panic .assertion →
    Agrees (connLoop (read env ops) false handler fuel c s file).view
      (connView handler file (run env ops (attachOf handler) fuel c s).1)
      (run env ops (attachOf handler) fuel c s).2.1 := by
  intro fuel
  induction fuel with
  | zero =>
    intro c s file _
    cases file <;> exact ⟨rfl, rfl, rfl, rfl⟩
  | succ fuel ih =>
    intro c s file hna
    cases hr : (read env ops c s).res with
    | msg m =>
      cases m with
      | unknown t =>
        have hn : nextCodec (attachOf handler) (read env ops c s).codec (.unknown t) = some (read env ops c s).codec := by
          simp only [nextCodec, hat.1 t]
        obtain ⟨e1, e2⟩ := run_msg_some env ops (attachOf handler) fuel c _ s _ hr hn
        rw [e1, e2]
        rw [e2] at hna
        have := ih (read env ops c s).codec (read env ops c s).sock file hna
        simp only [connLoop, hr, ConnOut.push, connView]
        exact this
      | attachment n left bytes =>
        have hn : nextCodec (attachOf handler) (read env ops c s).codec (.attachment n left bytes) = some (read env ops c s).codec := by
          simp only [nextCodec, hat.2.2 n left bytes]
        obtain ⟨e1, e2⟩ := run_msg_some env ops (attachOf handler) fuel c _ s _ hr hn
        rw [e1, e2]
        rw [e2] at hna
        have hno := attachOf_none_of handler (.attachment n left []) (hat.2.2 n left [])
        cases file with
        | none =>
          simp only [connLoop, hr, connView]
          exact ⟨rfl, rfl, rfl, rfl⟩
        | some content =>
          have ihx := ih (read env ops c s).codec (read env ops c s).sock
            (if left = 0 then none else some (content ++ bytes)) hna
          cases hh : handler (.attachment n left []) with
          | none =>
            simp only [connLoop, hr, connView, hh, ConnOut.push]
            exact agrees_push _ _ _ _ _ _ ihx
          | response r =>
            simp only [connLoop, hr, connView, hh, ConnOut.push]
            exact agrees_push _ _ _ _ _ _ ihx
          | attachment size => exact absurd hh (hno size)
          | disconnect =>
            simp only [connLoop, hr, connView, hh]
            exact ⟨rfl, rfl, rfl, rfl⟩
          | err tol =>
            cases tol with
            | true =>
              simp only [connLoop, hr, connView, hh, ConnOut.push]
              exact agrees_push _ _ _ _ _ _ ihx
            | false =>
              simp only [connLoop, hr, connView, hh]
              exact ⟨rfl, rfl, rfl, rfl⟩
      | body t v =>
        cases hh : handler (.body t v) with
        | attachment size =>
          have ha := attachOf_some handler _ size hh
          cases hx : expectAttachment (read env ops c s).codec size with
          | none =>
            have hn : nextCodec (attachOf handler) (read env ops c s).codec (.body t v) = none := by
              simp only [nextCodec, ha, hx]
            exact absurd (run_msg_none env ops (attachOf handler) fuel c s _ hr hn) hna
          | some c' =>
            have hn : nextCodec (attachOf handler) (read env ops c s).codec (.body t v) = some c' := by
              simp only [nextCodec, ha, hx]
            obtain ⟨e1, e2⟩ := run_msg_some env ops (attachOf handler) fuel c _ s _ hr hn
            rw [e1, e2]
            rw [e2] at hna
            have ihx := ih c' (read env ops c s).sock (some []) hna
            simp only [connLoop, hr, connView, hh, hx, ConnOut.push]
            exact agrees_push _ _ _ _ _ _ ihx
        | none =>
          have ha := attachOf_not handler (.body t v) (fun size h2 => by rw [hh] at h2; cases h2)
          have hn : nextCodec (attachOf handler) (read env ops c s).codec (.body t v) = some (read env ops c s).codec := by
            simp only [nextCodec, ha]
          obtain ⟨e1, e2⟩ := run_msg_some env ops (attachOf handler) fuel c _ s _ hr hn
          rw [e1, e2]
          rw [e2] at hna
          have ihx := ih (read env ops c s).codec (read env ops c s).sock file hna
          simp only [connLoop, hr, connView, hh, ConnOut.push]
          exact agrees_push _ _ _ _ _ _ ihx
        | response r =>
          have ha := attachOf_not handler (.body t v) (fun size h2 => by rw [hh] at h2; cases h2)
          have hn : nextCodec (attachOf handler) (read env ops c s).codec (.body t v) = some (read env ops c s).codec := by
            simp only [nextCodec, ha]
          obtain ⟨e1, e2⟩ := run_msg_some env ops (attachOf handler) fuel c _ s _ hr hn
          rw [e1, e2]
          rw [e2] at hna
          have ihx := ih (read env ops c s).codec (read env ops c s).sock file hna
          simp only [connLoop, hr, connView, hh, ConnOut.push]
          exact agrees_push _ _ _ _ _ _ ihx
        | disconnect =>
          have ha := attachOf_not handler (.body t v) (fun size h2 => by rw [hh] at h2; cases h2)
          have hn : nextCodec (attachOf handler) (read env ops c s).codec (.body t v) = some (read env ops c s).codec := by
            simp only [nextCodec, ha]
          obtain ⟨e1, _⟩ := run_msg_some env ops (attachOf handler) fuel c _ s _ hr hn
          rw [e1]
          simp only [connLoop, hr, connView, hh]
          exact ⟨rfl, rfl, rfl, rfl⟩
        | err tol =>
          have ha := attachOf_not handler (.body t v) (fun size h2 => by rw [hh] at h2; cases h2)
          have hn : nextCodec (attachOf handler) (read env ops c s).codec (.body t v) = some (read env ops c s).codec := by
            simp only [nextCodec, ha]
          obtain ⟨e1, e2⟩ := run_msg_some env ops (attachOf handler) fuel c _ s _ hr hn
          cases tol with
          | true =>
            rw [e1, e2]
            rw [e2] at hna
            have ihx := ih (read env ops c s).codec (read env ops c s).sock file hna
            simp only [connLoop, hr, connView, hh, ConnOut.push]
            exact agrees_push _ _ _ _ _ _ ihx
          | false =>
            rw [e1]
            simp only [connLoop, hr, connView, hh]
            exact ⟨rfl, rfl, rfl, rfl⟩
      | headers hs rem =>
        have ha : attachOf handler (.headers hs rem) = none := hat.2.1 hs rem
        have hno := attachOf_none_of handler _ ha
        have hn : nextCodec (attachOf handler) (read env ops c s).codec (.headers hs rem) = some (read env ops c s).codec := by
          simp only [nextCodec, ha]
        obtain ⟨e1, e2⟩ := run_msg_some env ops (attachOf handler) fuel c _ s _ hr hn
        cases hh : handler (.headers hs rem) with
        | attachment size => exact absurd hh (hno size)
        | none =>
          rw [e1, e2]
          rw [e2] at hna
          have ihx := ih (read env ops c s).codec (read env ops c s).sock file hna
          simp only [connLoop, hr, connView, hh, ConnOut.push]
          exact agrees_push _ _ _ _ _ _ ihx
        | response r =>
          rw [e1, e2]
          rw [e2] at hna
          have ihx := ih (read env ops c s).codec (read env ops c s).sock file hna
          simp only [connLoop, hr, connView, hh, ConnOut.push]
          exact agrees_push _ _ _ _ _ _ ihx
        | disconnect =>
          rw [e1]
          simp only [connLoop, hr, connView, hh]
          exact ⟨rfl, rfl, rfl, rfl⟩
        | err tol =>
          cases tol with
          | true =>
            rw [e1, e2]
            rw [e2] at hna
            have ihx := ih (read env ops c s).codec (read env ops c s).sock file hna
            simp only [connLoop, hr, connView, hh, ConnOut.push]
            exact agrees_push _ _ _ _ _ _ ihx
          | false =>
            rw [e1]
            simp only [connLoop, hr, connView, hh]
            exact ⟨rfl, rfl, rfl, rfl⟩
    | err e =>
      obtain ⟨e1, e2⟩ := run_nomsg env ops (attachOf handler) fuel c s (fun m h => by rw [hr] at h; cases h)
      rw [e1, e2, hr]
      simp only [connLoop, hr, Bool.false_eq_true, false_and, if_false]
      cases file <;> exact ⟨rfl, rfl, rfl, rfl⟩
    | panic st =>
      obtain ⟨e1, e2⟩ := run_nomsg env ops (attachOf handler) fuel c s (fun m h => by rw [hr] at h; cases h)
      rw [e1, e2, hr]
      simp only [connLoop, hr]
      cases file <;> exact ⟨rfl, rfl, rfl, rfl⟩
    | hang =>
      obtain ⟨e1, e2⟩ := run_nomsg env ops (attachOf handler) fuel c s (fun m h => by rw [hr] at h; cases h)
      rw [e1, e2, hr]
      simp only [connLoop, hr]
      cases file <;> exact ⟨rfl, rfl, rfl, rfl⟩

theorem runT_msg_some (env : Env B H) (attach : Message B H → Option Nat)
    (fuel : Nat) (c c' : Codec H) (s : TStream) (m : Message B H) (hr : (readT env c s).res = .msg m)
    (hn : nextCodec attach (readT env c s).codec m = some c') :
    (runT env attach (fuel + 1) c s).1 = m :: (runT env attach fuel c' (readT env c s).sock).1 ∧
    (runT env attach (fuel + 1) c s).2.1 = (runT env attach fuel c' (readT env c s).sock).2.1 := by
  constructor <;> simp only [runT, hr, hn]

theorem runT_msg_none (env : Env B H) (attach : Message B H → Option Nat)
    (fuel : Nat) (c : Codec H) (s : TStream) (m : Message B H) (hr : (readT env c s).res = .msg m)
    (hn : nextCodec attach (readT env c s).codec m = none) :
    (runT env attach (fuel + 1) c s).2.1 = .panic .assertion := by
  simp only [runT, hr, hn]

theorem runT_err_retry (env : Env B H) (attach : Message B H → Option Nat)
    (fuel : Nat) (c : Codec H) (s : TStream) (hr : (readT env c s).res = .err .timedOut) :
    runT env attach (fuel + 1) c s = runT env attach fuel (readT env c s).codec (readT env c s).sock := by
  simp only [runT, hr, if_true]

theorem runT_err_leave (env : Env B H) (attach : Message B H → Option Nat)
    (fuel : Nat) (c : Codec H) (s : TStream) (e : Err) (hr : (readT env c s).res = .err e) (he : e ≠ .timedOut) :
    (runT env attach (fuel + 1) c s).1 = [] ∧ (runT env attach (fuel + 1) c s).2.1 = .err e := by
  constructor <;> simp only [runT, hr, he, if_false]

/-- the same over a stream with a clock: read timeouts are retried by both loops -/
theorem connLoopT_view (env : Env B H) (handler : Message B H → Consumed)
    (hat : AttachOK (attachOf handler)) : ∀ (fuel : Nat) (c : Codec H) (s : TStream) (file : Option Bytes),
    (runT env (attachOf handler) fuel c s).2.1 ≠ .panic .assertion →
    Agrees (connLoop (readT env) true handler fuel c s file).view
      (connView handler file (runT env (attachOf handler) fuel c s).1)
      (runT env (attachOf handler) fuel c s).2.1 := by
  intro fuel
  induction fuel with
  | zero =>
    intro c s file _
    cases file <;> exact ⟨rfl, rfl, rfl, rfl⟩
  | succ fuel ih =>
    intro c s file hna
    cases hr : (readT env c s).res with
    | msg m =>
      cases m with
      | unknown t =>
        have hn : nextCodec (attachOf handler) (readT env c s).codec (.unknown t) = some (readT env c s).codec := by
          simp only [nextCodec, hat.1 t]
        obtain ⟨e1, e2⟩ := runT_msg_some env (attachOf handler) fuel c _ s _ hr hn
        rw [e1, e2]
        rw [e2] at hna
        have := ih (readT env c s).codec (readT env c s).sock file hna
        simp only [connLoop, hr, ConnOut.push, connView]
        exact this
      | attachment n left bytes =>
        have hn : nextCodec (attachOf handler) (readT env c s).codec (.attachment n left bytes) = some (readT env c s).codec := by
          simp only [nextCodec, hat.2.2 n left bytes]
        obtain ⟨e1, e2⟩ := runT_msg_some env (attachOf handler) fuel c _ s _ hr hn
        rw [e1, e2]
        rw [e2] at hna
        have hno := attachOf_none_of handler (.attachment n left []) (hat.2.2 n left [])
        cases file with
        | none =>
          simp only [connLoop, hr, connView]
          exact ⟨rfl, rfl, rfl, rfl⟩
        | some content =>
          have ihx := ih (readT env c s).codec (readT env c s).sock
            (if left = 0 then none else some (content ++ bytes)) hna
          cases hh : handler (.attachment n left []) with
          | none =>
            simp only [connLoop, hr, connView, hh, ConnOut.push]
            exact agrees_push _ _ _ _ _ _ ihx
          | response r =>
            simp only [connLoop, hr, connView, hh, ConnOut.push]
            exact agrees_push _ _ _ _ _ _ ihx
          | attachment size => exact absurd hh (hno size)
          | disconnect =>
            simp only [connLoop, hr, connView, hh]
            exact ⟨rfl, rfl, rfl, rfl⟩
          | err tol =>
            cases tol with
            | true =>
              simp only [connLoop, hr, connView, hh, ConnOut.push]
              exact agrees_push _ _ _ _ _ _ ihx
            | false =>
              simp only [connLoop, hr, connView, hh]
              exact ⟨rfl, rfl, rfl, rfl⟩
      | body t v =>
        cases hh : handler (.body t v) with
        | attachment size =>
          have ha := attachOf_some handler _ size hh
          cases hx : expectAttachment (readT env c s).codec size with
          | none =>
            have hn : nextCodec (attachOf handler) (readT env c s).codec (.body t v) = none := by
              simp only [nextCodec, ha, hx]
            exact absurd (runT_msg_none env (attachOf handler) fuel c s _ hr hn) hna
          | some c' =>
            have hn : nextCodec (attachOf handler) (readT env c s).codec (.body t v) = some c' := by
              simp only [nextCodec, ha, hx]
            obtain ⟨e1, e2⟩ := runT_msg_some env (attachOf handler) fuel c _ s _ hr hn
            rw [e1, e2]
            rw [e2] at hna
            have ihx := ih c' (readT env c s).sock (some []) hna
            simp only [connLoop, hr, connView, hh, hx, ConnOut.push]
            exact agrees_push _ _ _ _ _ _ ihx
        | none =>
          have ha := attachOf_not handler (.body t v) (fun size h2 => by rw [hh] at h2; cases h2)
          have hn : nextCodec (attachOf handler) (readT env c s).codec (.body t v) = some (readT env c s).codec := by
            simp only [nextCodec, ha]
          obtain ⟨e1, e2⟩ := runT_msg_some env (attachOf handler) fuel c _ s _ hr hn
          rw [e1, e2]
          rw [e2] at hna
          have ihx := ih (readT env c s).codec (readT env c s).sock file hna
          simp only [connLoop, hr, connView, hh, ConnOut.push]
          exact agrees_push _ _ _ _ _ _ ihx
        | response r =>
          have ha := attachOf_not handler (.body t v) (fun size h2 => by rw [hh] at h2; cases h2)
          have hn : nextCodec (attachOf handler) (readT env c s).codec (.body t v) = some (readT env c s).codec := by
            simp only [nextCodec, ha]
          obtain ⟨e1, e2⟩ := runT_msg_some env (attachOf handler) fuel c _ s _ hr hn
          rw [e1, e2]
          rw [e2] at hna
          have ihx := ih (readT env c s).codec (readT env c s).sock file hna
          simp only [connLoop, hr, connView, hh, ConnOut.push]
          exact agrees_push _ _ _ _ _ _ ihx
        | disconnect =>
          have ha := attachOf_not handler (.body t v) (fun size h2 => by rw [hh] at h2; cases h2)
          have hn : nextCodec (attachOf handler) (readT env c s).codec (.body t v) = some (readT env c s).codec := by
            simp only [nextCodec, ha]
          obtain ⟨e1, _⟩ := runT_msg_some env (attachOf handler) fuel c _ s _ hr hn
          rw [e1]
          simp only [connLoop, hr, connView, hh]
          exact ⟨rfl, rfl, rfl, rfl⟩
        | err tol =>
          have ha := attachOf_not handler (.body t v) (fun size h2 => by rw [hh] at h2; cases h2)
          have hn : nextCodec (attachOf handler) (readT env c s).codec (.body t v) = some (readT env c s).codec := by
            simp only [nextCodec, ha]
          obtain ⟨e1, e2⟩ := runT_msg_some env (attachOf handler) fuel c _ s _ hr hn
          cases tol with
          | true =>
            rw [e1, e2]
            rw [e2] at hna
            have ihx := ih (readT env c s).codec (readT env c s).sock file hna
            simp only [connLoop, hr, connView, hh, ConnOut.push]
            exact agrees_push _ _ _ _ _ _ ihx
          | false =>
            rw [e1]
            simp only [connLoop, hr, connView, hh]
            exact ⟨rfl, rfl, rfl, rfl⟩
      | headers hs rem =>
        have ha : attachOf handler (.headers hs rem) = none := hat.2.1 hs rem
        have hno := attachOf_none_of handler _ ha
        have hn : nextCodec (attachOf handler) (readT env c s).codec (.headers hs rem) = some (readT env c s).codec := by
          simp only [nextCodec, ha]
        obtain ⟨e1, e2⟩ := runT_msg_some env (attachOf handler) fuel c _ s _ hr hn
        cases hh : handler (.headers hs rem) with
        | attachment size => exact absurd hh (hno size)
        | none =>
          rw [e1, e2]
          rw [e2] at hna
          have ihx := ih (readT env c s).codec (readT env c s).sock file hna
          simp only [connLoop, hr, connView, hh, ConnOut.push]
          exact agrees_push _ _ _ _ _ _ ihx
        | response r =>
          rw [e1, e2]
          rw [e2] at hna
          have ihx := ih (readT env c s).codec (readT env c s).sock file hna
          simp only [connLoop, hr, connView, hh, ConnOut.push]
          exact agrees_push _ _ _ _ _ _ ihx
        | disconnect =>
          rw [e1]
          simp only [connLoop, hr, connView, hh]
          exact ⟨rfl, rfl, rfl, rfl⟩
        | err tol =>
          cases tol with
          | true =>
            rw [e1, e2]
            rw [e2] at hna
            have ihx := ih (readT env c s).codec (readT env c s).sock file hna
            simp only [connLoop, hr, connView, hh, ConnOut.push]
            exact agrees_push _ _ _ _ _ _ ihx
          | false =>
            rw [e1]
            simp only [connLoop, hr, connView, hh]
            exact ⟨rfl, rfl, rfl, rfl⟩
    | err e =>
      by_cases he : e = .timedOut
      · subst he
        have e0 := runT_err_retry env (attachOf handler) fuel c s hr
        rw [e0]
        rw [e0] at hna
        have ihx := ih (readT env c s).codec (readT env c s).sock file hna
        simp only [connLoop, hr, ConnOut.push, and_self, if_true]
        exact ihx
      · obtain ⟨e1, e2⟩ := runT_err_leave env (attachOf handler) fuel c s e hr he
        rw [e1, e2]
        simp only [connLoop, hr, he, and_false, if_false]
        cases file <;> exact ⟨rfl, rfl, rfl, rfl⟩
    | panic st =>
      have e1 : (runT env (attachOf handler) (fuel + 1) c s).1 = [] := by simp only [runT, hr]
      have e2 : (runT env (attachOf handler) (fuel + 1) c s).2.1 = .panic st := by simp only [runT, hr]
      rw [e1, e2]
      simp only [connLoop, hr]
      cases file <;> exact ⟨rfl, rfl, rfl, rfl⟩
    | hang =>
      have e1 : (runT env (attachOf handler) (fuel + 1) c s).1 = [] := by simp only [runT, hr]
      have e2 : (runT env (attachOf handler) (fuel + 1) c s).2.1 = .hang := by simp only [runT, hr]
      rw [e1, e2]
      simp only [connLoop, hr]
      cases file <;> exact ⟨rfl, rfl, rfl, rfl⟩

def notUnknown : Message B H → Bool
  | .unknown _ => false
  | _ => true

/-- a handler that only answers or stays silent, on a sequence without attachment updates: everything
but the unknown messages is handed over, the loop is not left, no file is written -/
theorem connView_quiet (handler : Message B H → Consumed)
    (hq : ∀ m, handler m = .none ∨ (∃ r, handler m = .response r) ∨ handler m = .err true) :
    ∀ (ms : List (Message B H)), (∀ m ∈ ms, ∀ a b c, m ≠ .attachment a b c) → ∀ (file : Option Bytes),
    (connView handler file ms).handed = ms.filter (fun m => match m with | .unknown _ => false | _ => true) ∧
    (connView handler file ms).stop = none ∧ (connView handler file ms).files = [] := by
  intro ms
  induction ms with
  | nil => intro _ file; exact ⟨rfl, rfl, rfl⟩
  | cons m ms ih =>
    intro hno file
    have ih' := ih (fun x hx => hno x (List.mem_cons_of_mem _ hx)) file
    cases m with
    | unknown t => simpa only [connView, List.filter_cons, Bool.false_eq_true, if_false] using ih'
    | attachment a b c => exact absurd rfl (hno _ (List.mem_cons_self) a b c)
    | body t v =>
      rcases hq (.body t v) with h | ⟨r, h⟩ | h <;>
        simp only [connView, h, ConnView.push, List.filter_cons, ih'.1, ih'.2.1, ih'.2.2, List.append_nil, if_true, and_self]
    | headers hs rem =>
      rcases hq (.headers hs rem) with h | ⟨r, h⟩ | h <;>
        simp only [connView, h, ConnView.push, List.filter_cons, ih'.1, ih'.2.1, ih'.2.2, List.append_nil, if_true, and_self]

theorem connView_handler_err (handler : Message B H → Consumed) (m : Message B H) (ms : List (Message B H))
    (file : Option Bytes) (hm : ∀ t, m ≠ .unknown t) (ha : ∀ a b c, m ≠ .attachment a b c) :
    (handler m = .err false → (connView handler file (m :: ms)).handed = [m] ∧
        (connView handler file (m :: ms)).stop = some .handlerErr) ∧
    (handler m = .disconnect → (connView handler file (m :: ms)).handed = [m] ∧
        (connView handler file (m :: ms)).stop = some .disconnect) ∧
    (handler m = .err true → (connView handler file (m :: ms)).handed = m :: (connView handler file ms).handed) := by
  cases m with
  | unknown t => exact absurd rfl (hm t)
  | attachment a b c => exact absurd rfl (ha a b c)
  | body t v =>
    refine ⟨fun h => ?_, fun h => ?_, fun h => ?_⟩ <;> simp only [connView, h, ConnView.push, and_self]
  | headers hs rem =>
    refine ⟨fun h => ?_, fun h => ?_, fun h => ?_⟩ <;> simp only [connView, h, ConnView.push, and_self]

theorem batches_no_attachment : ∀ (f : Nat) (hs : List H) (m : Message B H), m ∈ batches (B := B) f hs →
    ∀ a b c, m ≠ .attachment a b c := by
  intro f
  induction f with
  | zero => intro hs m hm; simp [batches] at hm
  | succ f ih =>
    intro hs m hm a b c
    unfold batches at hm
    by_cases he : hs.isEmpty = true
    · rw [if_pos he] at hm; cases hm
    · rw [if_neg he] at hm
      rcases List.mem_cons.mp hm with rfl | hm'
      · intro hx; cases hx
      · exact ih _ m hm' a b c

theorem expected_no_attachment (m : Sent B H) (hna : ∀ t v raw att, m ≠ .archive t v raw att) :
    ∀ x ∈ expected m, ∀ a b c, x ≠ .attachment a b c := by
  intro x hx a b c
  cases m with
  | plain t v raw =>
    simp only [expected, List.mem_cons, List.mem_nil_iff, or_false] at hx
    subst hx; intro h; cases h
  | unknown t raw =>
    simp only [expected, List.mem_cons, List.mem_nil_iff, or_false] at hx
    subst hx; intro h; cases h
  | headers items =>
    simp only [expected] at hx
    by_cases he : items.isEmpty = true
    · rw [if_pos he] at hx
      simp only [List.mem_cons, List.mem_nil_iff, or_false] at hx
      subst hx; intro h; cases h
    · rw [if_neg he] at hx
      exact batches_no_attachment _ _ x hx a b c
  | archive t v raw att => exact absurd rfl (hna t v raw att)

theorem handler_sees_sent (env : Env B H) (handler : Message B H → Consumed)
    (hq : ∀ m, handler m = .none ∨ (∃ r, handler m = .response r) ∨ handler m = .err true)
    (msgs : List (Sent B H)) (hwf : ∀ m ∈ msgs, SentWF env (attachOf handler) m)
    (hnoarch : ∀ m ∈ msgs, ∀ t v raw att, m ≠ .archive t v raw att)
    (frags : List Bytes) (hfr : frags.flatten = (msgs.map (encodeSent env.net)).flatten) (extra : Nat) :
    let o := connLoop (read env fragOps) false handler ((msgs.map expected).flatten.length + (extra + 1)) idle frags none
    o.view.handed = (msgs.map expected).flatten.filter (fun m => match m with | .unknown _ => false | _ => true) ∧
    o.view.stop = some (.codec (.err .conn)) ∧ o.view.files = [] := by
  intro o
  have hnone : ∀ m, attachOf handler m = none := fun m =>
    attachOf_not handler m (fun size h => by
      rcases hq m with h1 | ⟨r, h1⟩ | h1 <;> rw [h1] at h <;> cases h)
  have hat : AttachOK (attachOf handler) := ⟨fun t => hnone _, fun hs r => hnone _, fun a b c => hnone _⟩
  obtain ⟨a1, a2, _, _⟩ := run_sim env sim_frag_flat (attachOf handler)
    ((msgs.map expected).flatten.length + (extra + 1)) idle frags _ hfr
  have hf := framing_faithful_flat env (attachOf handler) hat msgs hwf extra
  rw [hf] at a1 a2
  have hv := connLoop_view env fragOps handler hat ((msgs.map expected).flatten.length + (extra + 1)) idle frags none
    (by rw [a2]; intro h; cases h)
  rw [a1, a2] at hv
  have hno : ∀ x ∈ (msgs.map expected).flatten, ∀ a b c, x ≠ .attachment a b c := by
    intro x hx
    obtain ⟨l, hl, hxl⟩ := List.mem_flatten.mp hx
    obtain ⟨m, hm, rfl⟩ := List.mem_map.mp hl
    exact expected_no_attachment m (hnoarch m hm) x hxl
  obtain ⟨q1, q2, q3⟩ := connView_quiet handler hq _ hno none
  obtain ⟨v1, _, v3, v4⟩ := hv
  refine ⟨v1.trans q1, ?_, v3.trans q3⟩
  rw [v4, q2]

end GV.Codec
