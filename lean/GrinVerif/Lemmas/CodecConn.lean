import GrinVerif.Lemmas.CodecTimed
/-! The reader loop at connection level: it follows `tryBreak` (the `try_break!` of `conn::poll`), so
the first refusal of the codec ends the stream with everything after the refused frame unread. -/
namespace GV.Codec
open GV GV.Ser GV.Dec GV.Msg GV.Gen.Msg GV.Gen.CodecTimeouts

variable {B H : Type}

/-- the untimed loop ends at the first result that is not a message -/
theorem run_leave {σ : Type} (env : Env B H) (ops : SockOps σ) (attach : Message B H → Option Nat)
    (fuel : Nat) (c : Codec H) (s : σ) (h : tryBreak (read env ops c s).res ≠ .deliver) :
    run env ops attach (fuel + 1) c s = ([], (read env ops c s).res, (read env ops c s).codec, (read env ops c s).sock) := by
  simp only [run]
  cases hr : (read env ops c s).res with
  | msg m => rw [hr] at h; exact absurd rfl h
  | err e => rfl
  | panic st => rfl
  | hang => rfl

/-- the timed loop ends exactly where `tryBreak` says `leave` -/
theorem runT_leave (env : Env B H) (attach : Message B H → Option Nat) (fuel : Nat) (c : Codec H) (s : TStream)
    (h : tryBreak (readT env c s).res = .leave) :
    runT env attach (fuel + 1) c s = ([], (readT env c s).res, (readT env c s).codec, (readT env c s).sock) := by
  simp only [runT]
  cases hr : (readT env c s).res with
  | msg m => rw [hr] at h; cases h
  | err e =>
    rw [hr] at h
    simp only [tryBreak] at h
    by_cases he : e = .timedOut
    · rw [if_pos he] at h; cases h
    · simp [he]
  | panic st => rfl
  | hang => rfl

/-- … and retries exactly where it says `retry` -/
theorem runT_retry (env : Env B H) (attach : Message B H → Option Nat) (fuel : Nat) (c : Codec H) (s : TStream)
    (h : tryBreak (readT env c s).res = .retry) :
    runT env attach (fuel + 1) c s = runT env attach fuel (readT env c s).codec (readT env c s).sock := by
  simp only [runT]
  cases hr : (readT env c s).res with
  | msg m => rw [hr] at h; cases h
  | err e =>
    rw [hr] at h
    simp only [tryBreak] at h
    by_cases he : e = .timedOut
    · simp [he]
    · rw [if_neg he] at h; cases h
  | panic st => rw [hr] at h; cases h
  | hang => rw [hr] at h; cases h

/-- a dispatched frame whose body does not decode, on the flat stream: header and body are consumed,
the error is returned, the codec is idle again -/
theorem read_body_error_flat (env : Env B H) (t : Nat) (raw rest : Bytes) (e : SerErr)
    (hd : isDispatched t = true) (hl : raw.length ≤ maxLen env.net t) (h64 : raw.length < 2^64)
    (hb : env.decBody t raw = .error e) :
    read env flatOps (idle : Codec H) (encHeader env.net t raw.length ++ (raw ++ rest)) =
      { res := .err (.ser e), bytesRead := 0 + 11 + raw.length, alloc := 0 + 11 + 0 + raw.length + 0,
        codec := idle, sock := rest } := by
  obtain ⟨hk, hth⟩ := isDispatched_known hd
  have hdec : decHeader env.net (encHeader env.net t raw.length) = .ok (.known t raw.length) [] 0 := by
    have := decHeader_encHeader env.net t raw.length h64 []
    rw [List.append_nil] at this
    rw [this, if_neg (by omega), if_pos hk]
  have hm : decodeMessage env t raw = .error (.ser e) := by simp [decodeMessage, hd, hb]
  have e1 := readLoop_header_ok env (34 + 1) (encHeader env.net t raw.length) (raw ++ rest)
    (encHeader_length _ _ _) 0 0 _ _ _ hdec
  have e2 := readLoop_body env 34 t raw rest hth (0 + 11) (0 + 11 + 0)
  unfold read
  rw [READ_FUEL_eq, e1, e2, hm]

end GV.Codec
