import GrinVerif.Lemmas.PowRoomComplete
import GrinVerif.Lemmas.PowRoodCycle
import GrinVerif.Lemmas.PowUSound
/-! Termination: no loop of the verifier models ever runs out of fuel (`Err.hang` is never
returned), i.e. the fuel bounds used in the transliterations are real bounds for the Rust loops. -/
namespace GV.Pow

/-! ### Cuckaroom -/

theorem roomFind_no_hang (P : Params) (ep : Nat → Nat × Nat) (ns : List Nat) (s : RoomSt)
    (inv : RoomInv P ep ns ns.length s) (target : Nat) :
    ∀ f k, k ≤ ns.length → (k < ns.length → k + 1 < f) → 0 < f →
      roomFind ns.length s target f k ≠ .error .hang := by
  intro f
  induction f with
  | zero => intro k _ _ h; omega
  | succ f ih =>
    intro k hk hf _
    unfold roomFind
    by_cases e : k = ns.length
    · simp [e]
    · have hkl : k < ns.length := by omega
      simp only [e, if_false]
      by_cases e2 : s.frm k = target
      · simp [e2]
      · simp only [e2, if_false]
        rw [inv.prev k hkl]
        have sp := lastBelow_spec (fun k' => P.bk (frmF ep ns k') == P.bk (frmF ep ns k)) ns.length k
        have := hf hkl
        apply ih
        · rcases sp with ⟨h1, _⟩ | ⟨h1, _, _⟩ <;> omega
        · intro hlt
          rcases sp with ⟨h1, _⟩ | ⟨h1, _, _⟩ <;> omega
        · omega

theorem roomStep_no_hang (P : Params) (ep : Nat → Nat × Nat) (ns : List Nat) (s : RoomSt)
    (inv : RoomInv P ep ns ns.length s) (i : Nat) :
    roomStep P ns.length s i ≠ .error .hang := by
  unfold roomStep
  rw [inv.head]
  have sp := lastBelow_spec (fun k => P.bk (frmF ep ns k) == P.bk (s.to i)) ns.length ns.length
  apply roomFind_no_hang P ep ns s inv
  · rcases sp with ⟨h1, _⟩ | ⟨h1, _, _⟩ <;> omega
  · intro hlt; omega
  · omega

/-- number of not yet visited edges -/
def unvisited (vis : Nat → Bool) (L : Nat) : Nat := cntBelow (fun x => !vis x) L

theorem cnt_mark (vis : Nat → Bool) (i : Nat) (hv : vis i = false) : ∀ L,
    cntBelow (fun x => !(decide (x = i) || vis x)) L + (if i < L then 1 else 0) =
      cntBelow (fun x => !vis x) L := by
  intro L
  induction L with
  | zero => simp [cntBelow]
  | succ L ih =>
    simp only [cntBelow]
    by_cases e : L = i
    · subst e
      have h1 : ¬ (L < L) := by omega
      simp only [h1, if_false, Nat.add_zero] at ih
      have h2 : L < L + 1 := by omega
      simp only [h2, if_true, decide_true, Bool.true_or, Bool.not_true, Bool.false_eq_true, if_false,
        hv, Bool.not_false]
      omega
    · simp only [e, decide_false, Bool.false_or]
      by_cases h2 : i < L
      · have h3 : i < L + 1 := by omega
        simp only [h2, h3, if_true] at ih ⊢
        omega
      · have h3 : ¬ (i < L + 1) := by omega
        simp only [h2, h3, if_false] at ih ⊢
        omega

theorem unvisited_mark (vis : Nat → Bool) (L i : Nat) (hi : i < L) (hv : vis i = false) :
    unvisited (fun x => decide (x = i) || vis x) L + 1 = unvisited vis L := by
  have := cnt_mark vis i hv L
  simp only [hi, if_true] at this
  exact this

theorem roomWalk_no_hang (P : Params) (ep : Nat → Nat × Nat) (ns : List Nat) (s : RoomSt)
    (inv : RoomInv P ep ns ns.length s) :
    ∀ f vis i n, i < ns.length → unvisited vis ns.length < f →
      roomWalk P ns.length s f vis i n ≠ .error .hang := by
  intro f
  induction f with
  | zero => intro vis i n _ h; omega
  | succ f ih =>
    intro vis i n hi hf
    unfold roomWalk
    by_cases hv : vis i = true
    · simp [hv]
    · have hv' : vis i = false := by simpa using hv
      simp only [hv', Bool.false_eq_true, if_false]
      have hstep : roomFind ns.length s (s.to i) (ns.length + 1) (s.head (P.bk (s.to i))) =
          roomStep P ns.length s i := rfl
      rw [hstep]
      cases hs : roomStep P ns.length s i with
      | error e =>
        simp only
        intro h
        injection h with h
        exact roomStep_no_hang P ep ns s inv i (by rw [hs, h])
      | ok k =>
        simp only
        by_cases h0 : k = 0
        · simp [h0]
        · simp only [h0, if_false]
          have hk := (roomStep_ok P ep ns s inv i k hs).1
          have := unvisited_mark vis ns.length i hi hv'
          exact ih _ k (n+1) hk (by omega)

theorem unvisited_none (L : Nat) : unvisited (fun _ => false) L = L := by
  unfold unvisited
  induction L with
  | zero => rfl
  | succ L ih =>
    simp only [cntBelow] at ih ⊢
    simp only [Bool.not_false, if_true] at ih ⊢
    omega


/-- **the Cuckaroom verifier terminates**: the model never runs out of fuel -/
theorem verifyCuckaroom_no_hang (P : Params) (ep : Nat → Nat × Nat) (ns : List Nat) :
    verifyCuckaroom P ep ns ≠ .error .hang := by
  unfold verifyCuckaroom
  by_cases hl : ns.length = P.proofsize
  case neg => simp [hl]
  simp only [hl, ne_eq, not_true_eq_false, if_false]
  rw [← hl]
  cases hb : roomBuild P ep ns 0 none (RoomSt.init ns.length) with
  | error e =>
    simp only
    intro h
    injection h with h
    subst h
    -- the first loop has no fuel: it cannot return `hang`
    have : ∀ xs n last s, roomBuild P ep xs n last s ≠ .error .hang := by
      intro xs
      induction xs with
      | nil => intro n last s; simp [roomBuild]
      | cons x xs ih =>
        intro n last s
        unfold roomBuild
        by_cases h1 : x > P.edgeMask
        · simp [h1]
        · by_cases h2 : notAsc last x = true
          · simp [h1, h2]
          · have h2' : notAsc last x = false := by simpa using h2
            simp only [h1, h2', if_false, Bool.false_eq_true]
            exact ih _ _ _
    exact this _ _ _ _ hb
  | ok s =>
    simp only
    obtain ⟨inv, _, _⟩ := roomBuild_spec P ep ns ns [] none _ s (by simp) (roomInv_init P ep ns) hb
    by_cases hx : s.xf = s.xt
    case neg => simp [hx]
    simp only [hx, not_true_eq_false, if_false]
    have hw : roomWalk P ns.length s (ns.length + 1) (fun _ => false) 0 0 ≠ .error .hang := by
      by_cases hL : 0 < ns.length
      · exact roomWalk_no_hang P ep ns s inv _ _ 0 0 hL (by rw [unvisited_none]; omega)
      · unfold roomWalk
        simp only [Bool.false_eq_true, if_false]
        have hstep : roomFind ns.length s (s.to 0) (ns.length + 1) (s.head (P.bk (s.to 0))) =
            roomStep P ns.length s 0 := rfl
        rw [hstep]
        cases hs : roomStep P ns.length s 0 with
        | error e =>
          simp only
          intro h
          injection h with h
          exact roomStep_no_hang P ep ns s inv 0 (by rw [hs, h])
        | ok k =>
          have := (roomStep_ok P ep ns s inv 0 k hs).1
          omega
    cases hwr : roomWalk P ns.length s (ns.length + 1) (fun _ => false) 0 0 with
    | error e =>
      simp only
      intro h
      injection h with h
      exact hw (by rw [hwr, h])
    | ok n =>
      simp only
      split <;> simp

/-! ### Cuckarood -/

theorem chain_no_hang (L : Nat) (s : RoodSt) (i : Nat) (sl bkt : Nat → Nat)
    (hslL : sl L = 2 * L)
    (hprev : ∀ e, e < L → s.prev (sl e) = sl (lastBelow (fun e' => bkt e' == bkt e) L e)) :
    ∀ f e j, e ≤ L → (e < L → e + 1 < f) → 0 < f → roodFind L s i f (sl e) j ≠ .error .hang := by
  intro f
  induction f with
  | zero => intro e j _ _ h; omega
  | succ f ih =>
    intro e j he hf _
    unfold roodFind
    by_cases hk : sl e = 2 * L
    · simp [hk]
    · have heL : e < L := by
        rcases Nat.lt_or_ge e L with h | h
        · exact h
        · have : e = L := by omega
          rw [this] at hk; exact absurd hslL hk
      have hfe := hf heL
      simp only [hk, if_false]
      rw [hprev e heL]
      have sp := lastBelow_spec (fun e' => bkt e' == bkt e) L e
      have hnext : ∀ j', roodFind L s i f (sl (lastBelow (fun e' => bkt e' == bkt e) L e)) j' ≠ .error .hang := by
        intro j'
        apply ih
        · rcases sp with ⟨h1, _⟩ | ⟨h1, _, _⟩ <;> omega
        · intro hlt
          rcases sp with ⟨h1, _⟩ | ⟨h1, _, _⟩ <;> omega
        · omega
      by_cases hm : s.uvs (sl e) = s.uvs i
      · simp only [hm, if_true]
        by_cases hj : j = i
        · simp only [hj, ne_eq, not_true_eq_false, if_false]; exact hnext _
        · simp [hj]
      · simp only [hm, if_false]; exact hnext _

theorem roodStep_no_hang (P : Params) (ep : Nat → Nat × Nat) (ns : List Nat) (s : RoodSt)
    (inv : RoodInv P ep ns ns.length s) (i : Nat) :
    roodStep P ns.length s i ≠ .error .hang := by
  unfold roodStep
  have key : ∀ k, (∃ e, e ≤ ns.length ∧ (k = slU ns e ∨ k = slV ns e)) →
      roodFind ns.length s i (2 * ns.length + 1) k i ≠ .error .hang := by
    intro k ⟨e, he, hk⟩
    rcases hk with rfl | rfl
    · apply chain_no_hang ns.length s i (slU ns) (bU P ep ns) (by simp [slU])
        (fun e' he' => by
          have : e' ≠ ns.length := by omega
          simp only [slU, this, if_false]; exact inv.prevU e' he')
      · exact he
      · intro; omega
      · omega
    · apply chain_no_hang ns.length s i (slV ns) (bV P ep ns) (by simp [slV])
        (fun e' he' => by
          have : e' ≠ ns.length := by omega
          simp only [slV, this, if_false]; exact inv.prevV e' he')
      · exact he
      · intro; omega
      · omega
  have hfind : roodFind ns.length s i (2 * ns.length + 1)
      (if i % 2 = 0 then s.headu (P.bk (2 * s.uvs i + 1)) else s.headv (P.bk (2 * s.uvs i))) i ≠
      .error .hang := by
    apply key
    by_cases hp : i % 2 = 0
    · rw [if_pos hp, inv.headu]
      refine ⟨_, ?_, Or.inl rfl⟩
      rcases lastBelow_spec (fun e => bU P ep ns e == P.bk (2 * s.uvs i + 1)) ns.length ns.length with
        ⟨h1, _⟩ | ⟨h1, _, _⟩ <;> omega
    · rw [if_neg hp, inv.headv]
      refine ⟨_, ?_, Or.inr rfl⟩
      rcases lastBelow_spec (fun e => bV P ep ns e == P.bk (2 * s.uvs i)) ns.length ns.length with
        ⟨h1, _⟩ | ⟨h1, _, _⟩ <;> omega
  intro h
  simp only [] at h
  cases hf : roodFind ns.length s i (2 * ns.length + 1)
      (if i % 2 = 0 then s.headu (P.bk (2 * s.uvs i + 1)) else s.headv (P.bk (2 * s.uvs i))) i with
  | error e =>
    rw [hf] at h
    simp only [] at h
    injection h with h
    exact hfind (by rw [hf, h])
  | ok j =>
    rw [hf] at h
    simp only [] at h
    split at h <;> simp at h

/-- **the (repaired) Cuckarood verifier terminates** -/
theorem verifyCuckarood_no_hang (P : Params) (ep : Nat → Nat × Nat) (ns : List Nat) :
    verifyCuckarood P ep ns ≠ .error .hang := by
  unfold verifyCuckarood
  by_cases hl : ns.length = P.proofsize
  case neg => simp [hl]
  simp only [hl, ne_eq, not_true_eq_false, if_false]
  rw [← hl]
  cases hb : roodBuild P ep ns.length ns none (RoodSt.init ns.length) with
  | error e =>
    simp only
    intro h
    injection h with h
    subst h
    have : ∀ xs last s, roodBuild P ep ns.length xs last s ≠ .error .hang := by
      intro xs
      induction xs with
      | nil => intro last s; simp [roodBuild]
      | cons x xs ih =>
        intro last s
        unfold roodBuild
        simp only []
        by_cases h0 : (if x % 2 = 0 then s.nd0 else s.nd1) ≥ ns.length / 2
        · simp [h0]
        · by_cases h1 : x > P.edgeMask
          · simp [h0, h1]
          · by_cases h2 : notAsc last x = true
            · simp [h0, h1, h2]
            · have h2' : notAsc last x = false := by simpa using h2
              simp only [h0, h1, h2', if_false, Bool.false_eq_true]
              exact ih _ _
    exact this _ _ _ hb
  | ok s =>
    simp only
    obtain ⟨inv, _, _⟩ := roodBuild_spec P ep ns ns [] none _ s (by simp) (roodInv_init P ep ns) hb
    by_cases hx : (s.x0 ||| s.x1) = 0
    case neg => simp [hx]
    simp only [hx, not_true_eq_false, if_false]
    have hw := roodWalk_no_hang (roodStep P ns.length s) ns.length
      (roodStep_no_hang P ep ns s inv) (ns.length + 1) 0 0 (by omega) (by omega)
    cases hwr : roodWalk (roodStep P ns.length s) ns.length (ns.length + 1) 0 0 with
    | error e =>
      simp only
      intro h
      injection h with h
      exact hw (by rw [hwr, h])
    | ok n =>
      simp only
      split <;> simp


/-! ### the undirected engine -/

section
variable (C : UCfg) (key : Nat → Nat) (N : Nat) (uvs prev : Nat → Nat) (i : Nat)
  (hi : i < N) (hprev : ∀ t, t < N → prev t = prevCirc key N t)
include hi hprev

/-- order facts of one step along a circular list: either it wraps around (from below `i` to
above `i`) or it moves down without jumping over `i` -/
theorem circ_order (k : Nat) (hk : k < N) (hkey : key k = key i) :
    (k ≤ i ∧ i ≤ prev k) ∨ (prev k < k ∧ (i < k → i ≤ prev k)) := by
  have hA := lastBelow_spec (fun t' => key t' == key k) N k
  have hH := lastBelow_spec (fun t' => key t' == key k) N N
  rw [hprev k hk]
  unfold prevCirc
  by_cases hnil : lastBelow (fun t' => key t' == key k) N k = N
  · rw [if_pos hnil]
    left
    have hnone : ∀ s, s < k → key s = key k → False := by
      intro s hs hks
      rcases hA with ⟨_, h2⟩ | ⟨h1, _, _⟩
      · have := h2 s hs; simp [hks] at this
      · omega
    refine ⟨?_, ?_⟩
    · rcases Nat.lt_or_ge i k with h | h
      · exact absurd hkey.symm (fun e => hnone i h e)
      · exact h
    · rcases hH with ⟨_, h2⟩ | ⟨_, _, h3⟩
      · have := h2 i hi; simp [hkey] at this
      · exact h3 i hi (by simp [hkey])
  · rw [if_neg hnil]
    right
    rcases hA with ⟨h1, _⟩ | ⟨h1, _, h3⟩
    · exact absurd h1 hnil
    · exact ⟨h1, fun hik => h3 i hik (by simp [hkey])⟩

/-- the inner loop of the undirected engine terminates within `N + 1` iterations -/
theorem uFind_no_hang : ∀ f k j, k < N → key k = key i →
    (if k ≤ i then k + (N - i) else k - i) < f →
    uFind C uvs prev i f k j ≠ .error .hang := by
  intro f
  induction f with
  | zero => intro k j _ _ h; omega
  | succ f ih =>
    intro k j hk hkey hmu
    obtain ⟨c1, c2, _, _⟩ := circ_step key N prev i hi hprev k hk hkey
    have ho := circ_order key N prev i hi hprev k hk hkey
    unfold uFind
    by_cases e : prev k = i
    · simp [e]
    · simp only [e, if_false]
      have hmu' : (if prev k ≤ i then prev k + (N - i) else prev k - i) < f := by
        rcases ho with ⟨h1, h2⟩ | ⟨h1, h2⟩
        · have : ¬ (prev k ≤ i) := by omega
          rw [if_neg this]
          rw [if_pos h1] at hmu
          omega
        · by_cases hki : k ≤ i
          · have : prev k ≤ i := by omega
            rw [if_pos this]
            rw [if_pos hki] at hmu
            omega
          · have := h2 (by omega)
            have h3 : ¬ (prev k ≤ i) := by omega
            rw [if_neg h3]
            rw [if_neg hki] at hmu
            omega
      by_cases hm : C.mt (uvs (prev k)) (uvs i) = true
      · simp only [hm, if_true]
        by_cases hj : j = i
        · simp only [hj, ne_eq, not_true_eq_false, if_false]
          exact ih _ _ c1 c2 hmu'
        · simp [hj]
      · simp only [hm]
        exact ih _ _ c1 c2 hmu'

end

theorem uStep_no_hang (C : UCfg) (key : Nat → Nat) (N size : Nat) (uvs prev : Nat → Nat) (i : Nat)
    (hN : N = 2 * size) (hi : i < N) (hprev : ∀ t, t < N → prev t = prevCirc key N t) :
    uStep C size uvs prev i ≠ .error .hang := by
  intro h
  unfold uStep at h
  have hf := uFind_no_hang C key N uvs prev i hi hprev (2 * size + 1) i i hi rfl
    (by simp only [Nat.le_refl, if_true]; omega)
  cases hr : uFind C uvs prev i (2 * size + 1) i i with
  | error e =>
    rw [hr] at h
    simp only [] at h
    injection h with h
    exact hf (by rw [hr, h])
  | ok j =>
    rw [hr] at h
    simp only [] at h
    split at h <;> simp at h


/-- if the outer loop ran out of fuel, the slots it stood on form a chain of `fuel` slots that
never came back to 0 -/
theorem uWalk_hang_list (step : Nat → Except Err Nat) (N : Nat)
    (hnh : ∀ j, j < N → step j ≠ .error .hang)
    (hcl : ∀ j x, j < N → step j = .ok x → x < N) :
    ∀ f i n, i < N → uWalk step f i n = .error .hang →
      ∃ l : List Nat, l.length = f ∧ (∀ x ∈ l, x < N) ∧ (0 < f → l.getD 0 0 = i) ∧
        (∀ t, t + 1 < f → step (l.getD t 0) = .ok (l.getD (t+1) 0) ∧ l.getD (t+1) 0 ≠ 0) := by
  intro f
  induction f with
  | zero => intro i n _ _; exact ⟨[], rfl, by simp, by omega, by omega⟩
  | succ f ih =>
    intro i n hi h
    unfold uWalk at h
    cases hs : step i with
    | error e =>
      rw [hs] at h
      simp only [] at h
      injection h with h
      exact absurd (by rw [hs, h]) (hnh i hi)
    | ok i' =>
      rw [hs] at h
      simp only [] at h
      by_cases h0 : i' = 0
      · simp [h0] at h
      · simp only [h0, if_false] at h
        obtain ⟨l, l1, l2, l3, l4⟩ := ih i' (n+1) (hcl i i' hi hs) h
        refine ⟨i :: l, by simp [l1], ?_, fun _ => by simp, ?_⟩
        · intro x hx
          rcases List.mem_cons.mp hx with rfl | hx
          · exact hi
          · exact l2 x hx
        · intro t ht
          cases t with
          | zero =>
            simp only [List.getD_cons_zero, List.getD_cons_succ]
            rw [l3 (by omega)]
            exact ⟨hs, h0⟩
          | succ t =>
            simp only [List.getD_cons_succ]
            exact l4 t (by omega)

/-- an injective step on `N` slots cannot walk `N + 1` steps from slot 0 without coming back -/
theorem uWalk_no_hang (step : Nat → Except Err Nat) (N : Nat) (hN : 0 < N)
    (hnh : ∀ j, j < N → step j ≠ .error .hang)
    (hcl : ∀ j x, j < N → step j = .ok x → x < N)
    (hinj : ∀ x y z, x < N → y < N → step x = .ok z → step y = .ok z → x = y) (n : Nat) :
    uWalk step (N + 1) 0 n ≠ .error .hang := by
  intro h
  obtain ⟨l, l1, l2, l3, l4⟩ := uWalk_hang_list step N hnh hcl (N+1) 0 n hN h
  have hget : ∀ t, t < N + 1 → l.getD t 0 < N := by
    intro t ht
    have : l.getD t 0 ∈ l := by
      rw [List.getD_eq_getElem?_getD, List.getElem?_eq_getElem (by omega)]; simp
    exact l2 _ this
  have hback : ∀ a b, a < b → b < N + 1 → l.getD a 0 = l.getD b 0 →
      ∀ d, d ≤ a → l.getD (a - d) 0 = l.getD (b - d) 0 := by
    intro a b hab hb e d
    induction d with
    | zero => intro _; simpa using e
    | succ d ihd =>
      intro hd
      have e' := ihd (by omega)
      have c1 := (l4 (a - (d+1)) (by omega)).1
      have c2 := (l4 (b - (d+1)) (by omega)).1
      have ea : a - (d+1) + 1 = a - d := by omega
      have eb : b - (d+1) + 1 = b - d := by omega
      rw [ea] at c1
      rw [eb, ← e'] at c2
      exact hinj _ _ _ (hget _ (by omega)) (hget _ (by omega)) c1 c2
  have hnd : l.Nodup := by
    rw [List.Nodup, List.pairwise_iff_getElem]
    intro a b ha hb hab e
    have e' : l.getD a 0 = l.getD b 0 := by
      simpa [List.getD_eq_getElem?_getD, ha, hb] using e
    have := hback a b hab (by omega) e' a (Nat.le_refl _)
    rw [Nat.sub_self, l3 (by omega)] at this
    have c := (l4 (b - a - 1) (by omega)).2
    have eb : b - a - 1 + 1 = b - a := by omega
    rw [eb] at c
    exact c this.symm
  have := (List.subperm_of_subset hnd (fun x hx => List.mem_range.mpr (l2 x hx))).length_le
  simp [l1] at this
  omega

theorem verifyU_no_hang (C : UCfg) (E : MtEquiv C) (P : Params) (ep : Nat → Nat × Nat) (ns : List Nat)
    (hps : 0 < P.proofsize) : verifyU C P ep ns ≠ .error .hang := by
  unfold verifyU
  by_cases hl : ns.length = P.proofsize
  case neg => simp [hl]
  simp only [hl, ne_eq, not_true_eq_false, if_false]
  rw [← hl]
  have hL : 0 < ns.length := by omega
  cases hb : uBuild C P ep ns 0 none (USt.init C ns.length) with
  | error e =>
    simp only
    intro h
    injection h with h
    subst h
    have : ∀ xs n last s, uBuild C P ep xs n last s ≠ .error .hang := by
      intro xs
      induction xs with
      | nil => intro n last s; simp [uBuild]
      | cons x xs ih =>
        intro n last s
        unfold uBuild
        by_cases h1 : x > P.edgeMask
        · simp [h1]
        · by_cases h2 : notAsc last x = true
          · simp [h1, h2]
          · have h2' : notAsc last x = false := by simpa using h2
            simp only [h1, h2', if_false, Bool.false_eq_true]
            exact ih _ _ _
    exact this _ _ _ _ hb
  | ok s =>
    simp only
    obtain ⟨inv, _, _⟩ :=
      uBuild_spec C P ep ns ns [] none _ s (by simp) (slotInv_init _ _ C ns.length) hb
    by_cases hx : (if C.jointXor = true then s.x0 ^^^ s.x1 else s.x0 ||| s.x1) = 0
    case neg => simp [hx]
    simp only [hx, not_true_eq_false, if_false]
    have hprev : ∀ t, t < 2 * ns.length →
        uCirc C P ns.length s ns.length s.prev t = prevCirc (keyF C P ep ns) (2 * ns.length) t := by
      intro t ht
      rw [uCirc_spec C P ns.length s ns.length s.prev (Nat.le_refl _) t]
      have hk : C.key P.bk (t % 2) (s.uvs t) = keyF C P ep ns t := by
        rw [inv.uvs t ht]; rfl
      rw [hk, inv.head, inv.prev t ht]
      unfold prevCirc
      have : 2 * (ns.length - ns.length) ≤ t := by omega
      simp only [this, ht, true_and]
    have hstep : ∀ i i', i < 2 * ns.length →
        uStep C ns.length s.uvs (uCirc C P ns.length s ns.length s.prev) i = .ok i' →
        ∃ j, Partner C (keyF C P ep ns) s.uvs (2 * ns.length) i j ∧ i' = j ^^^ 1 :=
      fun i i' hi hs => uStep_ok C (keyF C P ep ns) (2 * ns.length) ns.length s.uvs _ i i' hi hprev hs
    have hw := uWalk_no_hang (uStep C ns.length s.uvs (uCirc C P ns.length s ns.length s.prev))
      (2 * ns.length) (by omega)
      (fun j hj => uStep_no_hang C (keyF C P ep ns) (2 * ns.length) ns.length s.uvs _ j rfl hj hprev)
      (fun j x hj hs => by
        obtain ⟨k, hk, e⟩ := hstep j x hj hs
        rw [e]; exact xor_one_lt _ _ hk.1.1)
      (fun x y z hx hy h1 h2 => by
        obtain ⟨j1, p1, e1⟩ := hstep x z hx h1
        obtain ⟨j2, p2, e2⟩ := hstep y z hy h2
        have : j1 = j2 := by
          have := congrArg (· ^^^ 1) (e1.symm.trans e2)
          simpa [xor_one_xor_one] using this
        subst this
        exact partner_fun (partner_symm E hx p1) (partner_symm E hy p2))
      0
    cases hwr : uWalk (uStep C ns.length s.uvs (uCirc C P ns.length s ns.length s.prev))
        (2 * ns.length + 1) 0 0 with
    | error e =>
      simp only
      intro h
      injection h with h
      exact hw (by rw [hwr, h])
    | ok n =>
      simp only
      split <;> split <;> simp

end GV.Pow
