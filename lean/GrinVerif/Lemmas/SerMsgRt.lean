import GrinVerif.Lemmas.SerSegBitmap
import GrinVerif.Lemmas.SerCanonHdr
import GrinVerif.Model.SerMsg
/-! Round-trip, refusal and normalisation lemmas for the handshake / sync messages
(`Model/SerMsg.lean`). -/
namespace GV.SerMsg
open GV GV.Ser GV.SerSeg GV.Gen.Msg

/-- `readItems` over encodings whose items decode to a normal form `nm` -/
theorem readItems_write_norm {α : Type} (p : Parser α) (w : α → Bytes) (nm : α → α) (l : List α)
    (hrt : ∀ x ∈ l, ∀ rest, p (w x ++ rest) = .ok (nm x, rest)) (rest : Bytes) :
    readItems p l.length (writeMulti w l ++ rest) = .ok (l.map nm, rest) := by
  induction l with
  | nil => simp [readItems, writeMulti]
  | cons x l ih =>
    rw [writeMulti_cons, List.length_cons, readItems, hrt x (by simp), andThen_ok,
      ih (fun y hy => hrt y (by simp [hy])), andThen_ok]
    rfl

/-! ## PeerAddr -/

def PeerAddr.WF : PeerAddr → Prop
  | .v4 ip port => ip.length = 4 ∧ port < 2^16
  | .v6 segs port _ _ => segs.length = 8 ∧ (∀ s ∈ segs, s < 2^16) ∧ port < 2^16

instance (a : PeerAddr) : Decidable a.WF := by
  cases a <;> unfold PeerAddr.WF <;> infer_instance

/-- what a reader makes of a written address: V4 stays; a V6 address loses flow info and scope id
(they are not on the wire) and **becomes a V4 address when `Ipv6Addr::to_ipv4()` is `Some`** -/
def PeerAddr.norm : PeerAddr → PeerAddr
  | .v4 ip port => .v4 ip port
  | .v6 segs port _ _ => v6Result segs port

theorem decPeerAddr_enc (a : PeerAddr) (h : a.WF) (rest : Bytes) :
    decPeerAddr (encPeerAddr a ++ rest) = .ok (a.norm, rest) := by
  cases a with
  | v4 ip port =>
    obtain ⟨h1, h2⟩ := h
    rw [decPeerAddr, encPeerAddr]
    simp only [List.append_assoc]
    rw [readU8_write, andThen_ok]
    simp only [↓reduceIte]
    rw [readFixed_write ip 4 h1 (by decide), andThen_ok, readU16_write _ h2, andThen_ok]
    rfl
  | v6 segs port fl sc =>
    obtain ⟨h1, h2, h3⟩ := h
    have hr := readItems_write readU16 writeU16 segs (fun s hs r => readU16_write s (h2 s hs) r)
    rw [h1] at hr
    rw [decPeerAddr, encPeerAddr]
    simp only [List.append_assoc]
    rw [readU8_write, andThen_ok]
    simp only [show ¬ (1 = 0) by omega, ↓reduceIte]
    rw [hr, andThen_ok, readU16_write _ h3, andThen_ok]
    rfl

/-- a tag byte other than 0 (V4) and 1 (V6) is refused -/
theorem decPeerAddr_unknownTag (t : Nat) (ht : 2 ≤ t) (r : Bytes) : decPeerAddr (t :: r) = .error .corrupted := by
  have h0 : ¬ t = 0 := by omega
  have h1 : ¬ t = 1 := by omega
  simp [decPeerAddr, readU8, h0, h1]

/-- a V6 address is changed by `norm` only when it is IPv4-mapped (`::ffff:a.b.c.d`) or carries flow
info / a scope id -/
theorem toIpv4_some {segs : List Nat} {ip : Bytes} (h : toIpv4 segs = some ip) :
    ∃ ab cd, segs = [0, 0, 0, 0, 0, 0xffff, ab, cd] := by
  unfold toIpv4 at h
  split at h
  · exact ⟨_, _, rfl⟩
  · simp at h

/-! ## strings, capabilities -/

def StringWF (s : Bytes) : Prop := s.length ≤ MAX_FIXED_READ ∧ validUtf8 s = true

instance (s : Bytes) : Decidable (StringWF s) := by unfold StringWF; infer_instance

/-- the empty string (an empty user agent / error message) is well-formed -/
theorem stringWF_nil : StringWF [] := ⟨Nat.zero_le _, rfl⟩

theorem decString_write (s : Bytes) (h : StringWF s) (rest : Bytes) :
    decString (writeBytes s ++ rest) = .ok (s, rest) := by
  rw [decString, readBytesLenPrefix_write s h.1, andThen_ok]
  simp [h.2]

/-- a string that is not UTF-8 is refused -/
theorem decString_invalid (s : Bytes) (hl : s.length ≤ MAX_FIXED_READ) (h : validUtf8 s = false) (rest : Bytes) :
    decString (writeBytes s ++ rest) = .error .corrupted := by
  rw [decString, readBytesLenPrefix_write s hl, andThen_ok]
  simp [h]

/-- capability bits a value can hold: only the defined flags -/
def CapsWF (c : Nat) : Prop := capsTruncate c = c

instance (c : Nat) : Decidable (CapsWF c) := by unfold CapsWF; infer_instance

theorem capsWF_lt {c : Nat} (h : CapsWF c) : c < 2^32 := by
  have : c &&& CAPABILITIES_ALL ≤ CAPABILITIES_ALL := Nat.and_le_right
  unfold CapsWF capsTruncate at h
  rw [h] at this
  unfold CAPABILITIES_ALL at this
  omega

/-! ## Hand / Shake -/

def Hand.WF (h : Hand) : Prop :=
  h.version < 2^32 ∧ CapsWF h.capabilities ∧ h.nonce < 2^64 ∧ h.genesis.length = HASH_SIZE
  ∧ h.totalDifficulty < 2^64 ∧ h.senderAddr.WF ∧ h.receiverAddr.WF ∧ StringWF h.userAgent

def Hand.norm (h : Hand) : Hand :=
  { h with senderAddr := h.senderAddr.norm, receiverAddr := h.receiverAddr.norm }

theorem decHand_enc (h : Hand) (hwf : h.WF) (rest : Bytes) :
    decHand (encHand h ++ rest) = .ok (h.norm, rest) := by
  obtain ⟨h1, h2, h3, h4, h5, h6, h7, h8⟩ := hwf
  rw [decHand, encHand]
  simp only [List.append_assoc]
  rw [readU32_write _ h1, andThen_ok, readU32_write _ (capsWF_lt h2), andThen_ok, readU64_write _ h3, andThen_ok,
    readU64_write _ h5, andThen_ok, decPeerAddr_enc _ h6, andThen_ok, decPeerAddr_enc _ h7, andThen_ok,
    decString_write _ h8, andThen_ok, decHash_write _ h4, andThen_ok, h2]
  rfl

def Shake.WF (s : Shake) : Prop :=
  s.version < 2^32 ∧ CapsWF s.capabilities ∧ s.genesis.length = HASH_SIZE ∧ s.totalDifficulty < 2^64
  ∧ StringWF s.userAgent

theorem decShake_enc (s : Shake) (hwf : s.WF) (rest : Bytes) :
    decShake (encShake s ++ rest) = .ok (s, rest) := by
  obtain ⟨h1, h2, h3, h4, h5⟩ := hwf
  rw [decShake, encShake]
  simp only [List.append_assoc]
  rw [readU32_write _ h1, andThen_ok, readU32_write _ (capsWF_lt h2), andThen_ok, readU64_write _ h4, andThen_ok,
    decString_write _ h5, andThen_ok, decHash_write _ h3, andThen_ok, h2]

/-- what the readers do with capability bits: every `u32` is accepted and masked -/
theorem decGetPeerAddrs_any (c : Nat) (h : c < 2^32) (rest : Bytes) :
    decGetPeerAddrs (writeU32 c ++ rest) = .ok (capsTruncate c, rest) := by
  rw [decGetPeerAddrs, readU32_write _ h, andThen_ok]

theorem decGetPeerAddrs_enc (c : Nat) (h : CapsWF c) (rest : Bytes) :
    decGetPeerAddrs (encGetPeerAddrs c ++ rest) = .ok (c, rest) := by
  rw [encGetPeerAddrs, decGetPeerAddrs_any c (capsWF_lt h), h]

/-! ## Ping / Pong, TxHashSetRequest / Archive, SegmentRequest -/

def PingPong.WF (p : PingPong) : Prop := p.totalDifficulty < 2^64 ∧ p.height < 2^64

theorem decPingPong_enc (p : PingPong) (h : p.WF) (rest : Bytes) :
    decPingPong (encPingPong p ++ rest) = .ok (p, rest) := by
  rw [decPingPong, encPingPong, List.append_assoc, readU64_write _ h.1, andThen_ok, readU64_write _ h.2, andThen_ok]

theorem decPingPong_inv {bs : Bytes} {p : PingPong} {r : Bytes} (hb : AllBytes bs)
    (h : decPingPong bs = .ok (p, r)) : bs = encPingPong p ++ r ∧ p.WF := by
  rw [decPingPong] at h
  obtain ⟨td, r1, h1, h2⟩ := andThen_inv h
  obtain ⟨ht, r2, h3, h4⟩ := andThen_inv h2
  simp only [Except.ok.injEq, Prod.mk.injEq] at h4
  obtain ⟨rfl, rfl⟩ := h4
  obtain ⟨e1, b1⟩ := readU64_inv hb h1
  have hr1 : AllBytes r1 := by rw [e1] at hb; exact allBytes_append_right hb
  obtain ⟨e2, b2⟩ := readU64_inv hr1 h3
  exact ⟨by rw [e1, e2, encPingPong, List.append_assoc], b1, b2⟩

def TxHashSetRequest.WF (t : TxHashSetRequest) : Prop := t.hash.length = HASH_SIZE ∧ t.height < 2^64

theorem decTxHashSetRequest_enc (t : TxHashSetRequest) (h : t.WF) (rest : Bytes) :
    decTxHashSetRequest (encTxHashSetRequest t ++ rest) = .ok (t, rest) := by
  rw [decTxHashSetRequest, encTxHashSetRequest, List.append_assoc, decHash_write _ h.1, andThen_ok,
    readU64_write _ h.2, andThen_ok]

def TxHashSetArchive.WF (t : TxHashSetArchive) : Prop :=
  t.hash.length = HASH_SIZE ∧ t.height < 2^64 ∧ t.bytes < 2^64

theorem decTxHashSetArchive_enc (t : TxHashSetArchive) (h : t.WF) (rest : Bytes) :
    decTxHashSetArchive (encTxHashSetArchive t ++ rest) = .ok (t, rest) := by
  rw [decTxHashSetArchive, encTxHashSetArchive]
  simp only [List.append_assoc]
  rw [decHash_write _ h.1, andThen_ok, readU64_write _ h.2.1, andThen_ok, readU64_write _ h.2.2, andThen_ok]

def SegmentRequest.WF (s : SegmentRequest) : Prop := s.blockHash.length = HASH_SIZE ∧ s.id.WF

theorem decSegmentRequest_enc (s : SegmentRequest) (h : s.WF) (rest : Bytes) :
    decSegmentRequest (encSegmentRequest s ++ rest) = .ok (s, rest) := by
  rw [decSegmentRequest, encSegmentRequest, List.append_assoc, decHash_write _ h.1, andThen_ok,
    decSegId_enc _ h.2, andThen_ok]

theorem decHash_inv {bs h r : Bytes} (hd : decHash bs = .ok (h, r)) : bs = writeFixed h ++ r ∧ h.length = HASH_SIZE :=
  readFixed_ok hd

theorem decSegmentRequest_inv {bs : Bytes} {s : SegmentRequest} {r : Bytes} (hb : AllBytes bs)
    (h : decSegmentRequest bs = .ok (s, r)) : bs = encSegmentRequest s ++ r ∧ s.WF := by
  rw [decSegmentRequest] at h
  obtain ⟨hh, r1, h1, h2⟩ := andThen_inv h
  obtain ⟨id, r2, h3, h4⟩ := andThen_inv h2
  simp only [Except.ok.injEq, Prod.mk.injEq] at h4
  obtain ⟨rfl, rfl⟩ := h4
  obtain ⟨e1, l1⟩ := decHash_inv h1
  have hr1 : AllBytes r1 := by rw [e1] at hb; exact allBytes_append_right hb
  obtain ⟨e2, w2⟩ := decSegId_inv hr1 h3
  exact ⟨by rw [e1, e2, encSegmentRequest, List.append_assoc], l1, w2⟩

/-! ## PeerAddrs -/

def PeerAddrsWF (ps : List PeerAddr) : Prop := ps.length ≤ GV.Gen.MAX_PEER_ADDRS ∧ ∀ a ∈ ps, a.WF

theorem decPeerAddrs_enc (ps : List PeerAddr) (h : PeerAddrsWF ps) (rest : Bytes) :
    decPeerAddrs (encPeerAddrs ps ++ rest) = .ok (ps.map PeerAddr.norm, rest) := by
  obtain ⟨h1, h2⟩ := h
  have h32 : ps.length < 2^32 := by unfold GV.Gen.MAX_PEER_ADDRS at h1; omega
  have hgt : ¬ ps.length > GV.Gen.MAX_PEER_ADDRS := by omega
  rw [decPeerAddrs, encPeerAddrs, List.append_assoc, readU32_write _ h32, andThen_ok]
  simp only [hgt, ↓reduceIte]
  cases ps with
  | nil => simp [writeMulti]
  | cons a l =>
    simp only [List.length_cons, Nat.add_eq_zero_iff, Nat.succ_ne_self, and_false, ↓reduceIte]
    exact readItems_write_norm decPeerAddr encPeerAddr PeerAddr.norm (a :: l)
      (fun x hx r => decPeerAddr_enc x (h2 x hx) r) rest

/-- more than `MAX_PEER_ADDRS` announced: refused -/
theorem decPeerAddrs_tooLarge (n : Nat) (h32 : n < 2^32) (h : n > GV.Gen.MAX_PEER_ADDRS) (rest : Bytes) :
    decPeerAddrs (writeU32 n ++ rest) = .error .tooLarge := by
  rw [decPeerAddrs, readU32_write _ h32, andThen_ok]
  simp [h]

/-! ## PeerError -/

def PeerError.WF (e : PeerError) : Prop := e.code < 2^32 ∧ StringWF e.message

theorem decPeerError_enc (e : PeerError) (h : e.WF) (rest : Bytes) :
    decPeerError (encPeerError e ++ rest) = .ok (e, rest) := by
  rw [decPeerError, encPeerError, List.append_assoc, readU32_write _ h.1, andThen_ok, decString_write _ h.2,
    andThen_ok]

/-! ## Locator -/

def LocatorWF (hs : List Bytes) : Prop := hs.length ≤ GV.Gen.MAX_LOCATORS ∧ ∀ h ∈ hs, h.length = HASH_SIZE

theorem decLocator_enc (hs : List Bytes) (h : LocatorWF hs) (rest : Bytes) :
    decLocator (encLocator hs ++ rest) = .ok (hs, rest) := by
  obtain ⟨h1, h2⟩ := h
  have hm : hs.length % 256 = hs.length := Nat.mod_eq_of_lt (by unfold GV.Gen.MAX_LOCATORS at h1; omega)
  have hgt : ¬ hs.length > GV.Gen.MAX_LOCATORS % 256 := by unfold GV.Gen.MAX_LOCATORS at h1 ⊢; omega
  rw [decLocator, encLocator, hm, List.append_assoc, readU8_write, andThen_ok]
  simp only [hgt, ↓reduceIte]
  exact readItems_write decHash writeFixed hs (fun x hx r => decHash_write x (h2 x hx) r) rest

/-- a count byte above `MAX_LOCATORS` is refused -/
theorem decLocator_tooLarge (n : Nat) (h : n > GV.Gen.MAX_LOCATORS % 256) (r : Bytes) :
    decLocator (n :: r) = .error .tooLarge := by
  simp [decLocator, readU8, h]

/-- the writer truncates the count to 8 bits: 256 hashes are written with a count byte of 0 and read
back as an empty locator, all the hash bytes left unread -/
theorem locator_256_reads_empty (hs : List Bytes) (h : hs.length = 256) (rest : Bytes) :
    decLocator (encLocator hs ++ rest) = .ok ([], writeMulti writeFixed hs ++ rest) := by
  rw [decLocator, encLocator, h]
  simp [readU8, writeU8, readItems, GV.Gen.MAX_LOCATORS]

/-! ## Headers (writer) -/

theorem encHeaders_small {α : Type} (hw : α → Bytes) (hs : List α) (h : hs.length < 65536) :
    encHeaders hw hs = writeU16 hs.length ++ writeMulti hw hs := by
  rw [encHeaders, Nat.mod_eq_of_lt h]

/-- `headers.len() as u16`: 65536 headers are announced as 0 -/
theorem encHeaders_65536 {α : Type} (hw : α → Bytes) (hs : List α) (h : hs.length = 65536) :
    encHeaders hw hs = writeU16 0 ++ writeMulti hw hs := by
  rw [encHeaders, h]

/-! ## BanReason -/

theorem reasonOfI32_some (r : Nat) (h : r ≤ 7) : reasonOfI32 (toI32 r) = some r := by
  match r, h with
  | 0, _ => rfl
  | 1, _ => rfl
  | 2, _ => rfl
  | 3, _ => rfl
  | 4, _ => rfl
  | 5, _ => rfl
  | 6, _ => rfl
  | 7, _ => rfl

theorem reasonOfI32_none (v : Int) (h : v < 0 ∨ v > 7) : reasonOfI32 v = none := by
  unfold reasonOfI32
  split
  · rename_i hc
    obtain ⟨h0, hm⟩ := hc
    simp only [banReasons, List.contains_iff_mem, List.mem_cons, List.not_mem_nil, or_false] at hm
    omega
  · rfl

def BanReasonWF (r : Nat) : Prop := r ≤ 7

theorem decBanReason_enc (r : Nat) (h : BanReasonWF r) (rest : Bytes) :
    decBanReason (encBanReason r ++ rest) = .ok (r, rest) := by
  have h32 : r < 2^32 := by unfold BanReasonWF at h; omega
  rw [decBanReason, encBanReason, readU32_write _ h32]
  simp only [reasonOfI32_some r h]

/-- an `i32` that is no `ReasonForBan` discriminant is refused -/
theorem decBanReason_unknown (u : Nat) (h32 : u < 2^32) (h : 8 ≤ u) (rest : Bytes) :
    decBanReason (writeU32 u ++ rest) = .error .corrupted := by
  have hv : toI32 u < 0 ∨ toI32 u > 7 := by unfold toI32; split <;> omega
  rw [decBanReason, readU32_write _ h32]
  simp only [reasonOfI32_none _ hv]

/-- a body shorter than four bytes (the empty one included) is **accepted** as `ReasonForBan::None` -/
theorem decBanReason_short (bs : Bytes) (h : bs.length < 4) : decBanReason bs = .ok (0, []) := by
  match bs, h with
  | [], _ => rfl
  | [_], _ => rfl
  | [_, _], _ => rfl
  | [_, _, _], _ => rfl

/-! ## MsgHeader -/

theorem decMsgHeader_known (c : NetCfg) (t len : Nat) (hk : isKnownType t = true) (h64 : len < 2^64)
    (hl : len ≤ maxLen c t) (rest : Bytes) :
    decMsgHeader c (encMsgHeader c t len ++ rest) = .ok (.known t len, rest) := by
  have hgt : ¬ len > maxLen c t := by omega
  rw [decMsgHeader, encMsgHeader]
  simp only [List.append_assoc]
  rw [expectU8_write, andThen_ok, expectU8_write, andThen_ok, readU8_write, andThen_ok,
    readU64_write _ h64, andThen_ok]
  simp [hgt, hk]

/-- a type byte that is no `Type` comes back as `Unknown(len, type)` -/
theorem decMsgHeader_unknown (c : NetCfg) (t len : Nat) (hk : isKnownType t = false) (h64 : len < 2^64)
    (hl : len ≤ maxLen c t) (rest : Bytes) :
    decMsgHeader c (encMsgHeader c t len ++ rest) = .ok (.unknown len t, rest) := by
  have hgt : ¬ len > maxLen c t := by omega
  rw [decMsgHeader, encMsgHeader]
  simp only [List.append_assoc]
  rw [expectU8_write, andThen_ok, expectU8_write, andThen_ok, readU8_write, andThen_ok,
    readU64_write _ h64, andThen_ok]
  simp [hgt, hk]

/-- a length over the limit of the type (4 × `max_msg_size`, 4 × the default for unknown types) is refused -/
theorem decMsgHeader_tooLarge (c : NetCfg) (t len : Nat) (h64 : len < 2^64) (hl : len > maxLen c t) (rest : Bytes) :
    decMsgHeader c (encMsgHeader c t len ++ rest) = .error .tooLarge := by
  rw [decMsgHeader, encMsgHeader]
  simp only [List.append_assoc]
  rw [expectU8_write, andThen_ok, expectU8_write, andThen_ok, readU8_write, andThen_ok,
    readU64_write _ h64, andThen_ok]
  simp [hl]

/-- wrong magic bytes are refused -/
theorem decMsgHeader_magic1 (c : NetCfg) (b : Nat) (h : b ≠ c.magic.1) (r : Bytes) :
    decMsgHeader c (b :: r) = .error .unexpectedData := by
  rw [decMsgHeader, expectU8_other _ _ h, andThen_error]

theorem decMsgHeader_magic2 (c : NetCfg) (b : Nat) (h : b ≠ c.magic.2) (r : Bytes) :
    decMsgHeader c (c.magic.1 :: b :: r) = .error .unexpectedData := by
  have e : expectU8 c.magic.1 (c.magic.1 :: b :: r) = .ok (c.magic.1, b :: r) := expectU8_write c.magic.1 (b :: r)
  rw [decMsgHeader, e, andThen_ok, expectU8_other _ _ h, andThen_error]

/-! ## segment responses -/

def SegmentResponse.WF {α : Type} (s : SegmentResponse α) : Prop :=
  s.blockHash.length = HASH_SIZE ∧ s.segment.WF

theorem decSegmentResponse_enc {α : Type} (p : Parser α) (w : α → Bytes) (s : SegmentResponse α) (h : s.WF)
    (hrt : ∀ x ∈ s.segment.leafData, ∀ rest, p (w x ++ rest) = .ok (x, rest)) (rest : Bytes) :
    decSegmentResponse p (encSegmentResponse w s ++ rest) = .ok (s, rest) := by
  rw [decSegmentResponse, encSegmentResponse, List.append_assoc, decHash_write _ h.1, andThen_ok,
    decSegment_enc p w _ h.2 hrt, andThen_ok]

def OutputSegmentResponse.WF (s : OutputSegmentResponse) : Prop :=
  s.response.WF ∧ (∀ o ∈ s.response.segment.leafData, o.WF) ∧ s.outputBitmapRoot.length = HASH_SIZE

theorem decOutputSegmentResponse_enc (s : OutputSegmentResponse) (h : s.WF) (rest : Bytes) :
    decOutputSegmentResponse (encOutputSegmentResponse s ++ rest) = .ok (s, rest) := by
  rw [decOutputSegmentResponse, encOutputSegmentResponse, List.append_assoc,
    decSegmentResponse_enc decOutputId encOutputId _ h.1 (fun x hx r => decOutputId_enc x (h.2.1 x hx) r),
    andThen_ok, decHash_write _ h.2.2, andThen_ok]

def OutputBitmapSegmentResponse.WF (s : OutputBitmapSegmentResponse) : Prop :=
  s.blockHash.length = HASH_SIZE ∧ s.segment.WF ∧ s.outputRoot.length = HASH_SIZE

theorem decOutputBitmapSegmentResponse_enc (s : OutputBitmapSegmentResponse) (h : s.WF) (rest : Bytes) :
    decOutputBitmapSegmentResponse (encOutputBitmapSegmentResponse s ++ rest) = .ok (s, rest) := by
  rw [decOutputBitmapSegmentResponse, encOutputBitmapSegmentResponse]
  simp only [List.append_assoc]
  rw [decHash_write _ h.1, andThen_ok, decBitmapSegment_enc _ h.2.1, andThen_ok, decHash_write _ h.2.2, andThen_ok]

end GV.SerMsg
