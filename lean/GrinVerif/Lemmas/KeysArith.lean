import GrinVerif.Model.Keys
/-! Helper lemmas for C20: the accumulation loops of `blind_sum` as sums mod n, big-endian u32
round trips, the invariant of the transaction-builder fold. -/
namespace GV.Keys

theorem N_pos : 0 < N := by unfold N; omega

theorem sadd_lt (a b : Nat) : sadd a b < N := Nat.mod_lt _ N_pos
theorem sneg_lt (a : Nat) : sneg a < N := Nat.mod_lt _ N_pos

/-- the mathematical value of a blind sum: Σ positive − Σ negative (mod n) -/
def rawSum (pos neg : List Nat) : Nat := (pos.sum + (neg.map sneg).sum) % N

theorem accPos_eq (acc : Nat) (xs : List Nat) (h : acc < N) : accPos acc xs = (acc + xs.sum) % N := by
  induction xs generalizing acc with
  | nil => simp [accPos, Nat.mod_eq_of_lt h]
  | cons x xs ih =>
    simp only [accPos, List.sum_cons]
    rw [ih _ (sadd_lt _ _)]
    simp only [sadd, Nat.mod_add_mod, Nat.add_assoc]

theorem accNeg_eq (acc : Nat) (xs : List Nat) (h : acc < N) :
    accNeg acc xs = (acc + (xs.map sneg).sum) % N := by
  induction xs generalizing acc with
  | nil => simp [accNeg, Nat.mod_eq_of_lt h]
  | cons x xs ih =>
    simp only [accNeg, List.map_cons, List.sum_cons]
    rw [ih _ (sadd_lt _ _)]
    simp only [sadd, Nat.mod_add_mod, Nat.add_assoc]

theorem acc_eq_rawSum (pos neg : List Nat) : accNeg (accPos 0 pos) neg = rawSum pos neg := by
  rw [accPos_eq 0 pos N_pos, accNeg_eq _ _ (Nat.mod_lt _ N_pos)]
  simp [rawSum, Nat.mod_add_mod]

/-- `secpBlindSum` in closed form -/
theorem secpBlindSum_eq (pos neg : List Nat) :
    secpBlindSum pos neg =
      if overflows pos || overflows neg then .panic
      else if rawSum pos neg = 0 then .invalidKey else .ok (rawSum pos neg) := by
  simp only [secpBlindSum, acc_eq_rawSum]

theorem rawSum_perm {pos pos' neg neg' : List Nat} (hp : pos.Perm pos') (hn : neg.Perm neg') :
    rawSum pos neg = rawSum pos' neg' := by
  simp only [rawSum, hp.sum_nat, (hn.map sneg).sum_nat]

theorem overflows_perm {l l' : List Nat} (h : l.Perm l') : overflows l = overflows l' := by
  simp only [overflows, h.any_eq]

theorem rawSum_lt (pos neg : List Nat) : rawSum pos neg < N := Nat.mod_lt _ N_pos

/-! ### closed forms for the small operand lists of `add` / `split` -/

/-- the secret keys `BlindingFactor::add` keeps from one operand: non-zero scalars -/
def nzKey (x : Nat) : List Nat := if x ≠ 0 ∧ x < N then [x] else []

theorem nzKey_valid {x : Nat} (h0 : x ≠ 0) (h : x < N) : nzKey x = [x] := by simp [nzKey, h0, h]
theorem nzKey_zero : nzKey 0 = [] := by simp [nzKey]
theorem nzKey_big {x : Nat} (h : N ≤ x) : nzKey x = [] := by
  have : ¬ x < N := by omega
  simp [nzKey, this]

theorem bfAdd_eq (a b : Nat) :
    bfAdd a b = if (nzKey a ++ nzKey b).isEmpty then .ok 0 else secpBlindSum (nzKey a ++ nzKey b) [] := by
  have key : ([a, b].filter (fun x => x != 0)).filterMap bfSecretKey = nzKey a ++ nzKey b := by
    by_cases ha : a = 0 <;> by_cases hb : b = 0 <;> by_cases ha' : a < N <;> by_cases hb' : b < N <;>
      simp [nzKey, bfSecretKey, ha, hb, ha', hb']
  unfold bfAdd
  simp only [key]

theorem bfSecretKey_valid {x : Nat} (h : x < N) : bfSecretKey x = some x := by
  unfold bfSecretKey; split <;> simp_all

theorem bfSecretKey_big {x : Nat} (h : N ≤ x) : bfSecretKey x = none := by
  have := N_pos
  have h1 : x ≠ 0 := by omega
  have h2 : ¬ x < N := by omega
  simp [bfSecretKey, h1, h2]

theorem bfSplit_eq {self b1 : Nat} (hs : self < N) (hb : b1 < N) :
    bfSplit self b1 = if (self + sneg b1) % N = 0 then .invalidKey else .ok ((self + sneg b1) % N) := by
  simp [bfSplit, bfSecretKey_valid hs, bfSecretKey_valid hb, secpBlindSum_eq, overflows, rawSum,
    Nat.not_le.mpr hs, Nat.not_le.mpr hb]

theorem bfSplit_big (self b1 : Nat) (h : N ≤ self ∨ N ≤ b1) : bfSplit self b1 = .invalidKey := by
  unfold bfSplit
  rcases h with h | h
  · rw [bfSecretKey_big h]
  · rw [bfSecretKey_big h]
    cases bfSecretKey self <;> rfl

theorem secpBlindSum_one {a : Nat} (h : a < N) :
    secpBlindSum [a] [] = if a = 0 then .invalidKey else .ok a := by
  simp [secpBlindSum_eq, overflows, rawSum, Nat.not_le.mpr h, Nat.mod_eq_of_lt h]

theorem secpBlindSum_two {a b : Nat} (ha : a < N) (hb : b < N) :
    secpBlindSum [a, b] [] = if (a + b) % N = 0 then .invalidKey else .ok ((a + b) % N) := by
  simp [secpBlindSum_eq, overflows, rawSum, Nat.not_le.mpr ha, Nat.not_le.mpr hb]

theorem secpBlindSum_sub {a b : Nat} (ha : a < N) (hb : b < N) :
    secpBlindSum [a] [b] = if (a + sneg b) % N = 0 then .invalidKey else .ok ((a + sneg b) % N) := by
  simp [secpBlindSum_eq, overflows, rawSum, Nat.not_le.mpr ha, Nat.not_le.mpr hb]

/-! ### bytes -/

theorem readU32_u32be (n : Nat) (h : n < 2^32) :
    readU32 (n / 2^24 % 256) (n / 2^16 % 256) (n / 2^8 % 256) (n % 256) = n := by
  simp only [readU32]; omega

theorem u32be_readU32 (a b c d : Nat) (ha : a < 256) (hb : b < 256) (hc : c < 256) (hd : d < 256) :
    u32be (readU32 a b c d) = [a, b, c, d] := by
  simp only [u32be, readU32]
  have h1 : (((a * 256 + b) * 256 + c) * 256 + d) / 2^24 % 256 = a := by omega
  have h2 : (((a * 256 + b) * 256 + c) * 256 + d) / 2^16 % 256 = b := by omega
  have h3 : (((a * 256 + b) * 256 + c) * 256 + d) / 2^8 % 256 = c := by omega
  have h4 : (((a * 256 + b) * 256 + c) * 256 + d) % 256 = d := by omega
  rw [h1, h2, h3, h4]

theorem readU32_lt (a b c d : Nat) (ha : a < 256) (hb : b < 256) (hc : c < 256) (hd : d < 256) :
    readU32 a b c d < 2^32 := by
  simp only [readU32]; omega

theorem ofU32_toU32 (n : Nat) (h : n < 2^32) : (ChildNumber.ofU32 n).toU32 = n := by
  unfold ChildNumber.ofU32
  split
  · simp only [ChildNumber.toU32]
    split <;> omega
  · simp [ChildNumber.toU32]

theorem toU32_ofU32 (c : ChildNumber) (h : c.WF) : ChildNumber.ofU32 c.toU32 = c := by
  cases c with
  | normal i =>
    simp only [ChildNumber.WF] at h
    have h1 : ¬ (i / 2^31 % 2 = 1) := by omega
    simp [ChildNumber.toU32, ChildNumber.ofU32, h1]
  | hardened i =>
    simp only [ChildNumber.WF] at h
    have h1 : ¬ (i / 2^31 % 2 = 1) := by omega
    simp [ChildNumber.toU32, ChildNumber.ofU32, h1]
    omega

theorem ofU32_WF (n : Nat) (h : n < 2^32) : (ChildNumber.ofU32 n).WF := by
  unfold ChildNumber.ofU32
  split <;> simp only [ChildNumber.WF] <;> omega

theorem toU32_lt (c : ChildNumber) (h : c.WF) : c.toU32 < 2^32 := by
  cases c with
  | normal i => simp only [ChildNumber.WF] at h; simp only [ChildNumber.toU32]; omega
  | hardened i =>
    simp only [ChildNumber.WF] at h; simp only [ChildNumber.toU32]
    split <;> omega

/-- an identifier is 17 explicit bytes -/
theorem list17 (l : List Nat) (h : l.length = 17) :
    ∃ x0 x1 x2 x3 x4 x5 x6 x7 x8 x9 x10 x11 x12 x13 x14 x15 x16,
      l = [x0, x1, x2, x3, x4, x5, x6, x7, x8, x9, x10, x11, x12, x13, x14, x15, x16] := by
  match l, h with
  | [x0, x1, x2, x3, x4, x5, x6, x7, x8, x9, x10, x11, x12, x13, x14, x15, x16], _ =>
    exact ⟨x0, x1, x2, x3, x4, x5, x6, x7, x8, x9, x10, x11, x12, x13, x14, x15, x16, rfl⟩

theorem switch_roundtrip (sw : Switch) : Switch.ofU8 sw.toU8 = some sw := by cases sw <;> rfl

/-! ### the builder fold -/

def inputsOf : List Step → List Opening
  | [] => []
  | .input o :: r => o :: inputsOf r
  | _ :: r => inputsOf r

def outputsOf : List Step → List Opening
  | [] => []
  | .output o :: r => o :: outputsOf r
  | _ :: r => outputsOf r

def excessesOf : List Step → List Nat
  | [] => []
  | .withExcess b :: r => b :: excessesOf r
  | _ :: r => excessesOf r

theorem runSteps_keys (st : BuildSt) (elems : List Step) :
    (runSteps st elems).negK = st.negK ++ blinds (inputsOf elems) ∧
    (runSteps st elems).posK = st.posK ++ blinds (outputsOf elems) ∧
    (runSteps st elems).posB = st.posB ++ excessesOf elems := by
  induction elems generalizing st with
  | nil => simp [runSteps, inputsOf, outputsOf, excessesOf, blinds]
  | cons e r ih =>
    have := ih (step st e)
    simp only [runSteps, List.foldl_cons] at this ⊢
    cases e <;> simp_all [step, inputsOf, outputsOf, excessesOf, blinds]

theorem insertUnique_new (o : Opening) (l : List Opening) (h : o ∉ l) : insertUnique o l = l ++ [o] := by
  simp [insertUnique, h]

theorem insertUnique_old (o : Opening) (l : List Opening) (h : o ∈ l) : insertUnique o l = l := by
  simp [insertUnique, h]

theorem runSteps_ins (st : BuildSt) (elems : List Step) (h : (st.ins ++ inputsOf elems).Nodup) :
    (runSteps st elems).ins = st.ins ++ inputsOf elems := by
  induction elems generalizing st with
  | nil => simp [runSteps, inputsOf]
  | cons e r ih =>
    simp only [runSteps, List.foldl_cons]
    cases e with
    | input o =>
      simp only [inputsOf] at h ⊢
      have hno : o ∉ st.ins := by
        intro hm
        have := List.nodup_append.mp h
        exact (this.2.2 o hm o (List.mem_cons_self)) rfl
      have := ih (step st (.input o)) (by
        simp only [step, insertUnique_new o st.ins hno]
        simpa [List.append_assoc] using h)
      simp only [runSteps] at this
      rw [this]
      simp [step, insertUnique_new o st.ins hno]
    | output o =>
      have := ih (step st (.output o)) (by simpa [step, inputsOf] using h)
      simp only [runSteps] at this
      rw [this]; simp [step, inputsOf]
    | withExcess b =>
      have := ih (step st (.withExcess b)) (by simpa [step, inputsOf] using h)
      simp only [runSteps] at this
      rw [this]; simp [step, inputsOf]

theorem runSteps_outs (st : BuildSt) (elems : List Step) (h : (st.outs ++ outputsOf elems).Nodup) :
    (runSteps st elems).outs = st.outs ++ outputsOf elems := by
  induction elems generalizing st with
  | nil => simp [runSteps, outputsOf]
  | cons e r ih =>
    simp only [runSteps, List.foldl_cons]
    cases e with
    | output o =>
      simp only [outputsOf] at h ⊢
      have hno : o ∉ st.outs := by
        intro hm
        have := List.nodup_append.mp h
        exact (this.2.2 o hm o (List.mem_cons_self)) rfl
      have := ih (step st (.output o)) (by
        simp only [step, insertUnique_new o st.outs hno]
        simpa [List.append_assoc] using h)
      simp only [runSteps] at this
      rw [this]
      simp [step, insertUnique_new o st.outs hno]
    | input o =>
      have := ih (step st (.input o)) (by simpa [step, outputsOf] using h)
      simp only [runSteps] at this
      rw [this]; simp [step, outputsOf]
    | withExcess b =>
      have := ih (step st (.withExcess b)) (by simpa [step, outputsOf] using h)
      simp only [runSteps] at this
      rw [this]; simp [step, outputsOf]

/-- The contracts of `Crypto` are satisfiable: a toy instance (proof = the data in clear). -/
def toyCrypto : Crypto (Nat × Nat × Nat × Bytes) where
  bulletProof := fun v k rn _ m => (v, k, rn, m)
  verify := fun c p => c.value == p.1 && c.blind == p.2.1
  rewind := fun c nonce p =>
    if nonce = p.2.2.1 ∧ c.value = p.1 ∧ c.blind = p.2.1 then some (p.1, p.2.2.2) else none
  verify_honest := by intros; simp
  rewind_same := by intros; simp
  rewind_other := by intro v k rn rn' pn m h; simp [h]

end GV.Keys
