import GrinVerif.Lemmas.CodecTimed
/-! The attachment streamed after a message: the `Attachment(left, ..)` state of the codec as a
sub-state machine (`attStep`: bytes left → chunk length, next state; the end is reached iff `left = 0`),
the updates it delivers for an attachment of `n` bytes (`attEvents`) and what they add up to. -/
namespace GV.Codec
open GV GV.Ser GV.Dec GV.Msg GV.Gen.Msg GV.Gen.CodecTimeouts

variable {B H : Type}

/-- `AttachmentUpdate.read` of an update -/
def attRead : Message B H → Nat
  | .attachment rd _ _ => rd
  | _ => 0

/-- the bytes handed over with an update -/
def attBytes : Message B H → Bytes
  | .attachment _ _ b => b
  | _ => []

theorem ATTACHMENT_CHUNK_pos : 0 < ATTACHMENT_CHUNK := by decide

/-- the `Attachment` arm of the state machine is `attStep`: with `next_len` bytes buffered it returns
an update of `next_len` bytes and goes to `None` iff nothing is left, else to `Attachment(left')` -/
theorem stepState_attStep (env : Env B H) (left : Nat) (chunk : Bytes)
    (hc : chunk.length = (attStep left).1) :
    stepState env ({ buffer := chunk, state := .attachment left } : Codec H) (nextLen env (State.attachment left : State H)) =
      .inl (.msg (.attachment (attStep left).1 (left - (attStep left).1) chunk),
            { buffer := [], state := match (attStep left).2 with
                | none => .none
                | some l => .attachment l }, 0) := by
  have hnl : nextLen env (State.attachment left : State H) = chunk.length := by rw [hc]; rfl
  have hle : chunk.length ≤ left := by rw [hc]; exact Nat.min_le_left _ _
  rw [hnl, stepState_attachment env left chunk hle, ← hc]
  simp only [attStep] at hc ⊢
  rw [← hc]
  by_cases hz : left - chunk.length = 0
  · simp [hz]
  · simp [hz]

/-- what `attEvents` is, in closed form: full chunks with something left, then exactly one last update
with `left = 0` -/
theorem attEvents_spec : ∀ (f : Nat) (data : Bytes), data.length < f →
    ∃ (pre : List (Message B H)) (last : Bytes),
      (attEvents f data : List (Message B H)) = pre ++ [.attachment last.length 0 last] ∧
      last.length ≤ ATTACHMENT_CHUNK ∧
      (∀ e ∈ pre, ∃ left b, e = .attachment ATTACHMENT_CHUNK left b ∧ b.length = ATTACHMENT_CHUNK ∧ left ≠ 0) ∧
      (pre.map attBytes).flatten ++ last = data ∧
      (pre.map attRead).sum + last.length = data.length := by
  intro f
  induction f with
  | zero => intro data h; omega
  | succ f ih =>
    intro data hlen
    have hpos := ATTACHMENT_CHUNK_pos
    simp only [attEvents]
    by_cases hz : data.length - min data.length ATTACHMENT_CHUNK = 0
    · have hn : min data.length ATTACHMENT_CHUNK = data.length := by omega
      refine ⟨[], data, ?_, by omega, by simp, by simp, by simp⟩
      simp only [hn, List.take_length, List.nil_append, Nat.sub_self]
      simp
    · have hn : min data.length ATTACHMENT_CHUNK = ATTACHMENT_CHUNK := by omega
      have hdl : (data.drop ATTACHMENT_CHUNK).length = data.length - ATTACHMENT_CHUNK := by simp
      obtain ⟨pre, last, e1, e2, e3, e4, e5⟩ := ih (data.drop ATTACHMENT_CHUNK) (by rw [hdl]; omega)
      rw [hn] at hz
      refine ⟨.attachment ATTACHMENT_CHUNK (data.length - ATTACHMENT_CHUNK) (data.take ATTACHMENT_CHUNK) :: pre,
        last, ?_, e2, ?_, ?_, ?_⟩
      · simp only [hz, if_false, hn, e1, List.cons_append]
      · intro e he
        rcases List.mem_cons.mp he with rfl | he
        · exact ⟨_, _, rfl, by rw [List.length_take]; omega, by omega⟩
        · exact e3 e he
      · simp only [List.map_cons, List.flatten_cons, attBytes, List.append_assoc, e4, List.take_append_drop]
      · simp only [List.map_cons, List.sum_cons, attRead]
        rw [hdl] at e5
        omega

/-- the update lengths are those of the sub-state machine -/
theorem attEvents_lens : ∀ (f : Nat) (data : Bytes),
    ((attEvents f data : List (Message B H)).map attRead) = attChunkLens f data.length := by
  intro f
  induction f with
  | zero => intro data; rfl
  | succ f ih =>
    intro data
    simp only [attEvents, attChunkLens, attStep, List.map_cons, attRead]
    by_cases hz : data.length - min data.length ATTACHMENT_CHUNK = 0
    · simp [hz]
    · simp only [hz, if_false]
      rw [ih]
      simp

end GV.Codec
