import GrinVerif.Lemmas.StoreVarHistory
import GrinVerif.Model.StoreExt
/-! The NON-PRUNABLE backend (`PMMRBackend::new(.., prunable = false, ..)`: the kernel MMR – variable
size elements – and the header MMR; the `else` side of every `if self.prunable` in
`store/src/pmmr.rs`, `Model/StoreExt.lean` `np*`) along histories of `push` / `rewind` / `sync` /
`discard` / `reopen`: step by step it is the prunable backend of the history theorems run on the same
operations, with the leaf set left empty.  Since such a history never removes a leaf, the prunable
run has every leaf unspent, so its observables are those of ALL leaves.  Core Lean only. -/
namespace GV.Store
open GV GV.Pmmr GV.Pmmr.Co

/-- the operations a non-prunable backend supports (`PMMR::prune` ends in `Backend::remove`'s
`assert!(self.prunable)`, `check_compact` asserts as well) -/
def HOp.np : HOp → Bool
  | .push _ => true
  | .rewind _ rm => rm == []
  | .sync => true
  | .discard => true
  | .reopen => true
  | _ => false

/-- the store side of the operations on a non-prunable backend; the handle is re-created at
`unpruned_size` after `discard` / `reopen` as `PMMRHandle` does -/
def npstep {H : Type} (el : Bytes → Option Nat) (hf : HashFn Bytes H) (p : PM H) : HOp → PM H
  | .push e => (PM.npPush hf p e).getD p
  | .rewind N' _ => PM.npRewind p (mmr N')
  | .sync => { p with b := p.b.npSync }
  | .discard => { b := p.b.discard, size := p.b.discard.unprunedSize }
  | .reopen => { b := p.b.reopen el, size := (p.b.reopen el).unprunedSize }
  | _ => p

/-- `pn` is the prunable `pp` with the leaf set never written: empty prune list on both sides -/
def NSim {H : Type} (pn pp : PM H) : Prop :=
  pn = { b := { pp.b with leafSet := {} }, size := pp.size } ∧ pp.b.pruneList = {} ∧ pp.b.pruneFile = []

theorem openBm_nil : PruneList.openBm [] = {} := by
  simp [PruneList.openBm, PruneList.new, PruneList.initCaches, PruneList.buildShiftCache,
    PruneList.buildLeafShiftCache]

namespace NSim
variable {H : Type} {el : Bytes → Option Nat} {hf : HashFn Bytes H} {pn pp : PM H}

theorem step (h : NSim pn pp) (op : HOp) (hop : op.np = true) :
    NSim (npstep el hf pn op) (bstep el hf pp op) := by
  obtain ⟨e0, hpl, hpf⟩ := h
  subst e0
  obtain ⟨b, sz⟩ := pp
  obtain ⟨hF, dF, lS, pL, pF⟩ := b
  simp only at hpl hpf
  subst hpl hpf
  cases op with
  | push e =>
    simp only [npstep, bstep, PM.npPush, PM.push]
    have hpk : ({ hashFile := hF, dataFile := dF, leafSet := {}, pruneList := {}, pruneFile := [] } : Backend H).getPeakFromFile = ({ hashFile := hF, dataFile := dF, leafSet := lS, pruneList := {}, pruneFile := [] } : Backend H).getPeakFromFile := rfl
    rw [hpk]
    generalize pushHashes hf ({ hashFile := hF, dataFile := dF, leafSet := lS, pruneList := {}, pruneFile := [] } : Backend H).getPeakFromFile sz e = ph
    cases ph with
    | none => exact ⟨rfl, rfl, rfl⟩
    | some hashes =>
      simp only [Backend.npAppend, Backend.append]
      cases dF.append e with
      | none => exact ⟨rfl, rfl, rfl⟩
      | some r => exact ⟨rfl, rfl, rfl⟩
  | prune p => exact absurd hop (by simp [HOp.np])
  | rewind N' rm =>
    simp only [npstep, bstep, PM.npRewind, PM.rewind, Backend.npRewind, Backend.rewind]
    exact ⟨rfl, rfl, rfl⟩
  | sync => exact ⟨rfl, rfl, rfl⟩
  | discard => exact ⟨rfl, rfl, rfl⟩
  | compact K rm => exact absurd hop (by simp [HOp.np])
  | reopen =>
    simp only [npstep, bstep, Backend.reopen]
    refine ⟨?_, openBm_nil, rfl⟩
    simp only [openBm_nil]
    rfl

theorem run : ∀ (ops : List HOp) (pn pp : PM H), NSim pn pp → (∀ op ∈ ops, op.np = true) →
    NSim (ops.foldl (npstep el hf) pn) (ops.foldl (bstep el hf) pp) := by
  intro ops
  induction ops with
  | nil => intro pn pp h _; exact h
  | cons op ops ih =>
    intro pn pp h hall
    exact ih _ _ (h.step op (hall op List.mem_cons_self)) (fun o ho => hall o (List.mem_cons_of_mem _ ho))

theorem init : NSim ({} : PM H) ({} : PM H) := ⟨rfl, rfl, rfl⟩

theorem initVar : NSim ({ b := { dataFile := .var {} }, size := 0 } : PM H)
    ({ b := { dataFile := .var {} }, size := 0 } : PM H) := ⟨rfl, rfl, rfl⟩

/-! ### observables -/

theorem size (h : NSim pn pp) : pn.size = pp.size := by
  obtain ⟨e, _, _⟩ := h; rw [e]

theorem unprunedSize (h : NSim pn pp) : pn.b.unprunedSize = pp.b.unprunedSize := by
  obtain ⟨e, _, _⟩ := h; rw [e]; rfl

theorem getPeakFromFile (h : NSim pn pp) : pn.b.getPeakFromFile = pp.b.getPeakFromFile := by
  obtain ⟨e, _, _⟩ := h; rw [e]; rfl

/-- `root` over a non-prunable backend (`ReadablePMMR::root` through `get_peak_from_file`) -/
theorem root (h : NSim pn pp) : rootG hf pn.size pn.npGetPeak = PM.root hf pp := by
  obtain ⟨e, _, _⟩ := h; rw [e]; rfl

/-- with an empty prune list nothing is compacted, whatever the leaf set says -/
theorem isCompacted_false {b : Backend H} (hpl : b.pruneList = {}) (q : Nat) : b.isCompacted q = false := by
  unfold Backend.isCompacted Backend.isPrunedRoot Backend.isPruned
  simp [hpl, PruneList.isPrunedRoot, PruneList.isPruned, Bm.contains, Bm.select, Bm.rank]

theorem getFromFile (h : NSim pn pp) (q : Nat) : pn.b.getFromFile q = pp.b.getFromFile q := by
  obtain ⟨e, hpl, _⟩ := h
  rw [e]
  unfold Backend.getFromFile
  rw [isCompacted_false hpl, isCompacted_false (b := { pp.b with leafSet := {} }) hpl]

/-- `get_hash` of a leaf the prunable run has unspent -/
theorem getHash (h : NSim pn pp) (q : Nat) (hq : (q + 1) ∈ pp.b.leafSet.bitmap) :
    PM.npGetHash pn q = PM.getHash pp q := by
  have hg := h.getFromFile q
  have hs := h.size
  unfold PM.npGetHash PM.getHash Backend.npGetHash Backend.getHash
  rw [hs, hg]
  have hinc : pp.b.leafSet.includes q = true := by
    unfold LeafSet.includes Bm.contains
    rw [Nat.add_comm]
    exact List.elem_eq_true_of_mem hq
  simp [hinc]

/-- `get_data` of a leaf the prunable run has unspent -/
theorem getData (h : NSim pn pp) (q : Nat) (hq : (q + 1) ∈ pp.b.leafSet.bitmap) :
    PM.npGetData el pn q = PM.getData el pp q := by
  obtain ⟨e, hpl, hpf⟩ := h
  have hinc : pp.b.leafSet.includes q = true := by
    unfold LeafSet.includes Bm.contains
    rw [Nat.add_comm]
    exact List.elem_eq_true_of_mem hq
  rw [e]
  unfold PM.npGetData PM.getData Backend.npGetData Backend.getData Backend.getDataFromFile
  rw [isCompacted_false hpl, isCompacted_false (b := { pp.b with leafSet := {} }) hpl]
  simp only [hinc]
  rfl

end NSim

/-! ### a history without removals keeps every leaf unspent -/

/-- every leaf of the view is in its unspent list -/
def RefView.AllUnspent (v : RefView) : Prop := ∀ i, i < v.es.length → mmr i ∈ v.U

theorem allUnspent_step (r : RefSt) (op : HOp) (hop : op.np = true) (hok : r.ok op)
    (h1 : r.cur.AllUnspent) (h2 : r.saved.AllUnspent) :
    (r.step op).cur.AllUnspent ∧ (r.step op).saved.AllUnspent := by
  cases op with
  | push e =>
    refine ⟨?_, h2⟩
    intro i hi
    simp only [RefSt.step, List.length_append, List.length_cons, List.length_nil] at hi ⊢
    rw [List.mem_append]
    by_cases hlt : i < r.cur.es.length
    · exact Or.inl (h1 i hlt)
    · have : i = r.cur.es.length := by omega
      right; rw [this]; simp
  | prune p => exact absurd hop (by simp [HOp.np])
  | rewind N' rm =>
    obtain ⟨_, _, hN, _⟩ := hok
    refine ⟨?_, h2⟩
    intro i hi
    simp only [RefSt.step, List.length_take] at hi ⊢
    rw [List.mem_append]
    left
    rw [List.mem_filter]
    have hi1 : i < N' := by omega
    have hi2 : i < r.cur.es.length := by omega
    exact ⟨h1 i hi2, by simpa using mmr_lt_mmr hi1⟩
  | sync => exact ⟨h1, h1⟩
  | discard => exact ⟨h2, h2⟩
  | compact K rm => exact absurd hop (by simp [HOp.np])
  | reopen => exact ⟨h1, h2⟩

theorem allUnspent_run : ∀ (ops : List HOp) (r : RefSt), (∀ op ∈ ops, op.np = true) → RefSt.Proto r ops →
    r.cur.AllUnspent → r.saved.AllUnspent → (ops.foldl RefSt.step r).cur.AllUnspent := by
  intro ops
  induction ops with
  | nil => intro r _ _ h _; exact h
  | cons op ops ih =>
    intro r hall hp h1 h2
    obtain ⟨a, b⟩ := allUnspent_step r op (hall op List.mem_cons_self) hp.1 h1 h2
    exact ih _ (fun o ho => hall o (List.mem_cons_of_mem _ ho)) hp.2 a b

end GV.Store
