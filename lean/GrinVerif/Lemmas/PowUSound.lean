import GrinVerif.Lemmas.PowUWalk
/-! Assembly: `verifyU … = ok` ⟹ count / ascending / range and one simple cycle, for any
configuration whose match test is an equivalence relation. -/
namespace GV.Pow

theorem IsCycle.mono {L : Nat} {adj adj' sameV sameV' : Nat → Nat → Prop} {c : List Nat}
    (h : IsCycle L adj sameV c) (ha : ∀ a b, adj a b → adj' a b)
    (hs : ∀ a b, sameV' a b → sameV a b) : IsCycle L adj' sameV' c :=
  ⟨h.len, h.perm, fun t ht => ha _ _ (h.link t ht),
   fun a b hA hB hab hv => h.simple a b hA hB hab (hs _ _ hv)⟩

theorem partner_congr {C : UCfg} {key uv uv' : Nat → Nat} {N i j : Nat}
    (huv : ∀ t, t < N → uv t = uv' t) (hi : i < N) (h : Partner C key uv N i j) :
    Partner C key uv' N i j := by
  obtain ⟨h1, h2, h3, h4⟩ := h
  have hj := h1.1
  refine ⟨h1, by rw [← huv j hj, ← huv i hi]; exact h2, ?_, ?_⟩
  · intro s hs hm
    apply h3 s hs
    rw [huv s hs.1, huv i hi]; exact hm
  · intro hd
    rw [← huv j hj, ← huv i hi]; exact h4 hd

theorem slotInv_init (keyOf uv : Nat → Nat) (C : UCfg) (size : Nat) :
    SlotInv keyOf uv (2 * size) (2 * 0) (USt.init C size).uvs (USt.init C size).head (USt.init C size).prev :=
  ⟨fun t ht => absurd ht (by omega), fun _ => rfl, fun t ht => absurd ht (by omega)⟩

theorem verifyU_cycle (C : UCfg) (E : MtEquiv C) (P : Params) (ep : Nat → Nat × Nat) (ns : List Nat)
    (hctx : C.useCtxSize = true → P.ctxProofSize = P.proofsize)
    (h : verifyU C P ep ns = .ok ()) :
    ns.length = P.proofsize ∧ Ascending ns ∧ (∀ x ∈ ns, x ≤ P.edgeMask) ∧
    ∃ tr, IsCycle ns.length
      (fun a b => Partner C (keyF C P ep ns) (uvF ep ns) (2 * ns.length) a b)
      (fun a b => keyF C P ep ns a = keyF C P ep ns b ∧ C.mt (uvF ep ns a) (uvF ep ns b) = true) tr := by
  unfold verifyU at h
  by_cases hl : ns.length = P.proofsize
  case neg => simp [hl] at h
  simp only [hl, ne_eq, not_true_eq_false, if_false] at h
  rw [← hl] at h
  cases hb : uBuild C P ep ns 0 none (USt.init C ns.length) with
  | error e => simp [hb] at h
  | ok s =>
    simp only [hb] at h
    obtain ⟨inv, hmask, hasc⟩ :=
      uBuild_spec C P ep ns ns [] none _ s (by simp) (slotInv_init _ _ C ns.length) hb
    by_cases hx : (if C.jointXor = true then s.x0 ^^^ s.x1 else s.x0 ||| s.x1) = 0
    case neg => simp [hx] at h
    simp only [hx, ne_eq, not_true_eq_false, if_false] at h
    cases hw : uWalk (uStep C ns.length s.uvs (uCirc C P ns.length s ns.length s.prev))
        (2 * ns.length + 1) 0 0 with
    | error e => simp [hw] at h
    | ok n =>
      simp only [hw] at h
      by_cases hn : n = (if C.useCtxSize = true then P.ctxProofSize else ns.length)
      case neg => simp [hn] at h
      have hn' : n = ns.length := by
        rw [hn]
        by_cases hc : C.useCtxSize = true
        · rw [if_pos hc, hctx hc, hl]
        · rw [if_neg hc]
      obtain ⟨tr, htr, hm⟩ := uWalk_trace _ _ _ _ _ hw
      have hprev : ∀ t, t < 2 * ns.length →
          uCirc C P ns.length s ns.length s.prev t = prevCirc (keyF C P ep ns) (2 * ns.length) t := by
        intro t ht
        rw [uCirc_spec C P ns.length s ns.length s.prev (Nat.le_refl _) t]
        have hk : C.key P.bk (t % 2) (s.uvs t) = keyF C P ep ns t := by
          rw [inv.uvs t ht]; rfl
        rw [hk, inv.head, inv.prev t ht]
        unfold prevCirc
        have : 2 * (ns.length - ns.length) ≤ t := by omega
        simp only [this, ht, true_and]
      have hstep : ∀ i i', i < 2 * ns.length →
          uStep C ns.length s.uvs (uCirc C P ns.length s ns.length s.prev) i = .ok i' →
          ∃ j, Partner C (keyF C P ep ns) (uvF ep ns) (2 * ns.length) i j ∧ i' = j ^^^ 1 := by
        intro i i' hi hs
        obtain ⟨j, hj, e⟩ := uStep_ok C (keyF C P ep ns) (2 * ns.length) ns.length s.uvs _ i i' hi hprev hs
        exact ⟨j, partner_congr inv.uvs hi hj, e⟩
      refine ⟨hl, (ascChain_spec ns none hasc).1, hmask, tr, ?_⟩
      exact ucyc_cycle E hstep htr (by omega)

theorem mtEquiv_cuckaroo : MtEquiv cfgCuckaroo :=
  ⟨fun a b => by simp [cfgCuckaroo, BEq.comm],
   fun a b c h1 h2 => by simp [cfgCuckaroo] at *; omega⟩
theorem mtEquiv_cuckarooz : MtEquiv cfgCuckarooz :=
  ⟨fun a b => by simp [cfgCuckarooz, BEq.comm],
   fun a b c h1 h2 => by simp [cfgCuckarooz] at *; omega⟩
theorem mtEquiv_cuckatoo : MtEquiv cfgCuckatoo :=
  ⟨fun a b => by simp [cfgCuckatoo, BEq.comm],
   fun a b c h1 h2 => by simp [cfgCuckatoo] at *; omega⟩

end GV.Pow
