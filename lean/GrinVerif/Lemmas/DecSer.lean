import GrinVerif.Model.DecSer
import GrinVerif.Lemmas.DecMerkle
import GrinVerif.Lemmas.MsgBound
/-! Calculus for the instrumented decoders of `Model/DecSer.lean`, on top of `Lemmas/DecBound.lean`:

* `BndS c k e μ p` — `Bnd` with a **credit**: on success `p` has requested at most
  `c · consumed + k − μ value`; the credit `μ value` pays for allocations that the code makes later in
  proportion to what was read (`to_vec()` of the items of a `read_multi`, the temporaries of
  `validate_read`).  `Bnd c k e p` is `BndS c k e (fun _ => 0) p`.
* `ProgW w p` — a successful `p` consumes at least `w` bytes (weighted loop progress).
* `NoPanic.bindQ` — sequencing where the continuation is panic-free only for the values the first
  read can produce.
* `vecReq_le` — the amortised charge `GROW = 4` per pushed item dominates the real growth sequence of
  a `Vec` filled by `push`. -/
namespace GV.DecSer
open GV GV.Ser GV.Dec GV.Msg

variable {α β : Type}

/-! ### `Vec` growth by `push` (`RawVec::grow_amortized`, `MIN_NON_ZERO_CAP = 4`) -/

/-- capacity and total number of elements requested from the allocator after `i` pushes onto an empty
`Vec` (`from_iter` of an iterator without size hint starts with capacity 4 too) -/
def vecState : Nat → Nat × Nat
  | 0 => (0, 0)
  | i+1 =>
    let (cap, req) := vecState i
    if i < cap then (cap, req) else
      let cap' := max 4 (2 * cap)
      (cap', req + cap')

def vecCap (i : Nat) : Nat := (vecState i).1
def vecReq (i : Nat) : Nat := (vecState i).2

theorem vecState_inv (i : Nat) :
    (vecState i).1 ≤ 2 * i + 2 ∧ (vecState i).2 + 4 ≤ 2 * (vecState i).1 + (if i = 0 then 4 else 0) ∧
    ((vecState i).1 = 0 ∨ 4 ≤ (vecState i).1) ∧ i ≤ (vecState i).1 := by
  induction i with
  | zero => simp [vecState]
  | succ i ih =>
    obtain ⟨h1, h2, h3, h4⟩ := ih
    simp only [vecState]
    split
    · rename_i hlt
      refine ⟨by omega, ?_, h3, by omega⟩
      split at h2 <;> simp_all <;> omega
    · rename_i hge
      simp only
      refine ⟨by omega, ?_, by omega, by omega⟩
      split at h2 <;> simp <;> omega

/-- elements requested in total (initial allocation and every reallocation) after `i` pushes: at most
`4 · i` — the charge `GROW · size_of::<T>()` per pushed item dominates it at every point -/
theorem vecReq_le (i : Nat) : vecReq i ≤ GROW * i := by
  have := vecState_inv i
  unfold vecReq GROW
  by_cases h : i = 0
  · subst h; simp [vecState]
  · simp only [h, if_false] at this; omega

example : vecReq 1 = 4 ∧ vecReq 4 = 4 ∧ vecReq 5 = 12 ∧ vecReq 9 = 28 := by decide

/-! ### credits -/

/-- the bound on one outcome with credit `μ` -/
def OBndS (c k e len : Nat) (μ : α → Nat) : Outcome α → Prop
  | .ok a r n => r.length ≤ len ∧ n + μ a ≤ c * (len - r.length) + k
  | .err _ n => n ≤ c * len + k + e
  | .panic _ n => n ≤ c * len + k + e

@[simp] theorem OBndS_ok (c k e len : Nat) (μ : α → Nat) (a : α) (r : Bytes) (n : Nat) :
    OBndS c k e len μ (.ok a r n) = (r.length ≤ len ∧ n + μ a ≤ c * (len - r.length) + k) := rfl
@[simp] theorem OBndS_err (c k e len : Nat) (μ : α → Nat) (x : SerErr) (n : Nat) :
    OBndS c k e len μ (.err x n : Outcome α) = (n ≤ c * len + k + e) := rfl
@[simp] theorem OBndS_panic (c k e len : Nat) (μ : α → Nat) (x : Site) (n : Nat) :
    OBndS c k e len μ (.panic x n : Outcome α) = (n ≤ c * len + k + e) := rfl

def BndS (c k e : Nat) (μ : α → Nat) (p : Dec α) : Prop := ∀ bs, OBndS c k e bs.length μ (p bs)

theorem OBndS.toOBnd {c k e len : Nat} {μ : α → Nat} {o : Outcome α} (h : OBndS c k e len μ o) :
    OBnd c k e len o := by
  cases o with
  | ok a r n => simp only [OBndS_ok, OBnd_ok] at h ⊢; omega
  | err x n => exact h
  | panic x n => exact h

theorem BndS.toBnd {c k e : Nat} {μ : α → Nat} {p : Dec α} (h : BndS c k e μ p) : Bnd c k e p :=
  fun bs => (h bs).toOBnd

theorem Bnd.toBndS {c k e : Nat} {p : Dec α} (h : Bnd c k e p) : BndS c k e (fun _ => 0) p := by
  intro bs
  have := h bs
  cases hp : p bs <;> rw [hp] at this <;> simpa using this

theorem OBndS.mono {c k e c' k' e' len : Nat} {μ ν : α → Nat} {o : Outcome α} (h : OBndS c k e len μ o)
    (hc : c ≤ c') (hk : k ≤ k') (he : e ≤ e') (hμ : ∀ a, ν a ≤ μ a) : OBndS c' k' e' len ν o := by
  have m1 : ∀ x, c * x ≤ c' * x := fun x => Nat.mul_le_mul_right x hc
  cases o with
  | ok a r n => simp only [OBndS_ok] at h ⊢; have := m1 (len - r.length); have := hμ a; omega
  | err e0 n => simp only [OBndS_err] at h ⊢; have := m1 len; omega
  | panic s n => simp only [OBndS_panic] at h ⊢; have := m1 len; omega

theorem BndS.mono {c k e c' k' e' : Nat} {μ ν : α → Nat} {p : Dec α} (h : BndS c k e μ p)
    (hc : c ≤ c') (hk : k ≤ k') (he : e ≤ e') (hμ : ∀ a, ν a ≤ μ a) : BndS c' k' e' ν p :=
  fun bs => (h bs).mono hc hk he hμ

/-- sequencing: the continuation may spend the credit of the value it receives -/
theorem BndS.bind {c k1 e1 k2 e2 : Nat} {μ : α → Nat} {ν : β → Nat} {p : Dec α} {f : α → Dec β}
    (hp : BndS c k1 e1 μ p) (hf : ∀ a, BndS c (k2 + μ a) e2 ν (f a)) :
    BndS c (k1 + k2) (max e1 e2) ν (fun bs => Dec.bind (p bs) f) := by
  intro bs
  have h1 := hp bs
  show OBndS _ _ _ _ _ (Dec.bind (p bs) f)
  cases hpb : p bs with
  | ok a r n =>
    rw [hpb] at h1; simp only [OBndS_ok] at h1
    have h2 := hf a r
    rw [bind_ok]
    cases hfa : f a r with
    | ok b r' m =>
      rw [hfa] at h2; simp only [OBndS_ok] at h2
      simp only [Outcome.addAlloc, OBndS_ok]
      have := mul_sub_chain c bs.length r.length r'.length h2.1 h1.1
      refine ⟨by omega, ?_⟩
      omega
    | err e' m =>
      rw [hfa] at h2; simp only [OBndS_err] at h2
      simp only [Outcome.addAlloc, OBndS_err]
      have := mul_sub_add c bs.length r.length h1.1
      omega
    | panic s m =>
      rw [hfa] at h2; simp only [OBndS_panic] at h2
      simp only [Outcome.addAlloc, OBndS_panic]
      have := mul_sub_add c bs.length r.length h1.1
      omega
  | err e' n => rw [hpb] at h1; simp only [OBndS_err] at h1; rw [bind_err]; simp only [OBndS_err]; omega
  | panic s n => rw [hpb] at h1; simp only [OBndS_panic] at h1; rw [bind_panic]; simp only [OBndS_panic]; omega

/-- a pure result that hands on a credit of `ν a` needs it in `k` -/
theorem BndS.pure (c : Nat) (ν : α → Nat) (a : α) : BndS c (ν a) 0 ν (fun bs => (.ok a bs 0 : Outcome α)) := by
  intro bs; simp

theorem BndS.fail (c : Nat) (ν : α → Nat) (e : SerErr) : BndS c 0 0 ν (fun _ => (.err e 0 : Outcome α)) := by
  intro bs; simp

theorem BndS.panic0 (c : Nat) (ν : α → Nat) (st : Site) : BndS c 0 0 ν (fun _ => (.panic st 0 : Outcome α)) := by
  intro bs; simp

theorem OBndS.addAlloc {c k e len A : Nat} {μ : α → Nat} {o : Outcome α} (h : OBndS c k e len μ o) :
    OBndS c (A + k) e len μ (o.addAlloc A) := by
  cases o with
  | ok a r m => simp only [OBndS_ok, Outcome.addAlloc] at h ⊢; omega
  | err e' m => simp only [OBndS_err, Outcome.addAlloc] at h ⊢; omega
  | panic s m => simp only [OBndS_panic, Outcome.addAlloc] at h ⊢; omega

/-- spending: an allocation of `n` bytes in front of a bounded computation -/
theorem BndS.charge {c k e : Nat} {μ : α → Nat} {p : Dec α} (hp : BndS c k e μ p) (n : Nat) :
    BndS c (n + k) e μ (fun bs => GV.DecSer.charge n (p bs)) :=
  fun bs => (hp bs).addAlloc

theorem BndS.withCapacity {c k e A : Nat} {μ : α → Nat} {p : Dec α} (hp : BndS c k e μ p) (n sz : Nat)
    (hA : n * sz ≤ A) : BndS c (A + k) e μ (fun bs => GV.Dec.withCapacity n sz (p bs)) := by
  intro bs
  have := hp bs
  show OBndS _ _ _ _ _ (GV.Dec.withCapacity n sz (p bs))
  unfold GV.Dec.withCapacity
  split
  · simp
  · exact (OBndS.addAlloc (A := n * sz) this).mono (Nat.le_refl _) (by omega) (Nat.le_refl _) (fun _ => Nat.le_refl _)

theorem BndS.ite {c k e : Nat} {μ : α → Nat} {p q : Dec α} (b : Prop) [Decidable b]
    (hp : BndS c k e μ p) (hq : BndS c k e μ q) : BndS c k e μ (fun bs => if b then p bs else q bs) := by
  intro bs
  show OBndS _ _ _ _ _ (if b then p bs else q bs)
  split
  · exact hp bs
  · exact hq bs

theorem BndS.iteH {c k e : Nat} {μ : α → Nat} {p q : Dec α} (b : Prop) [Decidable b]
    (hp : b → BndS c k e μ p) (hq : ¬ b → BndS c k e μ q) :
    BndS c k e μ (fun bs => if b then p bs else q bs) := by
  intro bs
  show OBndS _ _ _ _ _ (if b then p bs else q bs)
  by_cases hb : b
  · rw [if_pos hb]; exact hp hb bs
  · rw [if_neg hb]; exact hq hb bs

theorem BndS.map {c k e : Nat} {μ : α → Nat} {p : Dec α} (hp : BndS c k e μ p) (f : α → β) (ν : β → Nat)
    (hν : ∀ a, ν (f a) ≤ μ a) : BndS c k e ν (fun bs => (p bs).map f) := by
  intro bs
  have := hp bs
  show OBndS _ _ _ _ _ ((p bs).map f)
  cases h : p bs with
  | ok a r n => rw [h] at this; simp only [OBndS_ok, Outcome.map] at this ⊢; have := hν a; omega
  | err x n => rw [h] at this; simpa [Outcome.map] using this
  | panic x n => rw [h] at this; simpa [Outcome.map] using this

/-! ### weighted progress -/

/-- a successful read consumes at least `w` bytes -/
def ProgW (w : Nat) (p : Dec α) : Prop := ∀ bs a r n, p bs = .ok a r n → r.length + w ≤ bs.length

theorem ProgW.mono {w w' : Nat} {p : Dec α} (h : ProgW w p) (hw : w' ≤ w) : ProgW w' p :=
  fun bs a r n hp => by have := h bs a r n hp; omega

theorem ProgW.toProg {w : Nat} {p : Dec α} (h : ProgW w p) (hw : 0 < w) : Prog p :=
  fun bs a r n hp => by have := h bs a r n hp; omega

theorem Bnd.progW0 {c k e : Nat} {p : Dec α} (h : Bnd c k e p) : ProgW 0 p :=
  fun bs a r n hp => by have := h.rest_le hp; omega

theorem bind_ok_inv {p : Outcome α} {f : α → Bytes → Outcome β} {b : β} {r : Bytes} {n : Nat}
    (h : Dec.bind p f = .ok b r n) : ∃ a r1 n1 n2, p = .ok a r1 n1 ∧ f a r1 = .ok b r n2 ∧ n = n1 + n2 := by
  cases p with
  | err e m => simp [Dec.bind] at h
  | panic s m => simp [Dec.bind] at h
  | ok a r1 n1 =>
    rw [bind_ok] at h
    cases hf : f a r1 with
    | err e m => rw [hf] at h; simp [Outcome.addAlloc] at h
    | panic s m => rw [hf] at h; simp [Outcome.addAlloc] at h
    | ok b' r' n2 =>
      rw [hf] at h
      simp only [Outcome.addAlloc, Outcome.ok.injEq] at h
      exact ⟨a, r1, n1, n2, rfl, by rw [hf, h.1, h.2.1], h.2.2.symm⟩

theorem ProgW.bind {w1 w2 : Nat} {p : Dec α} {f : α → Dec β} (hp : ProgW w1 p) (hf : ∀ a, ProgW w2 (f a)) :
    ProgW (w1 + w2) (fun bs => Dec.bind (p bs) f) := by
  intro bs b r n h
  obtain ⟨a, r1, n1, n2, h1, h2, _⟩ := bind_ok_inv h
  have := hp bs a r1 n1 h1
  have := hf a r1 b r n2 h2
  omega

theorem ProgW.pure (a : α) : ProgW 0 (fun bs => (.ok a bs 0 : Outcome α)) := by
  intro bs a' r n h
  simp only [Outcome.ok.injEq] at h
  rw [← h.2.1]; omega

theorem ProgW.panic (w : Nat) (st : Site) : ProgW w (fun _ => (.panic st 0 : Outcome α)) := by
  intro bs a r n h; simp at h

theorem ProgW.fail (w : Nat) (e : SerErr) : ProgW w (fun _ => (.err e 0 : Outcome α)) := by
  intro bs a r n h; simp at h

theorem ProgW.ite {w : Nat} {p q : Dec α} (b : Prop) [Decidable b] (hp : ProgW w p) (hq : ProgW w q) :
    ProgW w (fun bs => if b then p bs else q bs) := by
  intro bs a r n h
  change (if b then p bs else q bs) = _ at h
  split at h
  · exact hp bs a r n h
  · exact hq bs a r n h

theorem ProgW.iteH {w : Nat} {p q : Dec α} (b : Prop) [Decidable b] (hp : b → ProgW w p) (hq : ¬ b → ProgW w q) :
    ProgW w (fun bs => if b then p bs else q bs) := by
  intro bs a r n h
  change (if b then p bs else q bs) = _ at h
  by_cases hb : b
  · rw [if_pos hb] at h; exact hp hb bs a r n h
  · rw [if_neg hb] at h; exact hq hb bs a r n h

theorem progW_rFixed (rd : Rdr) (len : Nat) : ProgW len (rFixed rd len) := by
  intro bs a r n h
  unfold rFixed at h
  split at h
  · simp at h
  · cases hs : splitExact len bs with
    | none => simp [hs] at h
    | some p =>
      obtain ⟨x, r'⟩ := p
      simp only [hs, Outcome.ok.injEq] at h
      have := splitExact_len hs
      rw [← h.2.1]; omega

theorem progW_lift {q : Parser α} {w : Nat} (hq : ∀ bs a r, q bs = .ok (a, r) → r.length + w = bs.length) :
    ProgW w (fun bs => GV.Dec.lift (q bs)) := by
  intro bs a r n h
  change GV.Dec.lift (q bs) = _ at h
  cases hq' : q bs with
  | error e => simp [hq', GV.Dec.lift] at h
  | ok p =>
    obtain ⟨a', r'⟩ := p
    simp only [hq', GV.Dec.lift, Outcome.ok.injEq] at h
    have := hq bs a' r' hq'
    rw [← h.2.1]; omega

theorem progW_rU8 : ProgW 1 rU8 := progW_lift (fun _ _ _ h => readU8_len h)
theorem progW_rU16 : ProgW 2 rU16 := progW_lift (fun _ _ _ h => readU16_len h)
theorem progW_rU32 : ProgW 4 rU32 := progW_lift (fun _ _ _ h => readU32_len h)
theorem progW_rU64 : ProgW 8 rU64 := progW_lift (fun _ _ _ h => readU64_len h)

/-- weighted loop progress: `w` bytes per item -/
theorem readN_progressW {p : Dec α} {w : Nat} (hp : ProgW w p) :
    ∀ (k : Nat) (bs : Bytes) (xs : List α) (r : Bytes) (n : Nat),
      readN p k bs = .ok xs r n → xs.length * w + r.length ≤ bs.length := by
  intro k
  induction k with
  | zero => intro bs xs r n h; simp only [GV.Dec.readN, Outcome.ok.injEq] at h; simp [← h.1, ← h.2.1]
  | succ k ih =>
    intro bs xs r n h
    simp only [GV.Dec.readN] at h
    obtain ⟨x, r1, n1, n2, h1, h2, _⟩ := bind_ok_inv h
    obtain ⟨ys, r2, n3, n4, h3, h4, _⟩ := bind_ok_inv h2
    simp only [Outcome.ok.injEq] at h4
    have := ih r1 ys r2 n3 h3
    have := hp bs x r1 n1 h1
    rw [← h4.1, ← h4.2.1]
    simp only [List.length_cons, Nat.add_mul, Nat.one_mul]; omega

/-! ### credits from progress, loops -/

/-- a decoder that allocates in proportion `c0` and consumes at least `w` bytes carries a credit of
`d ≤ c1 · w` under the coefficient `c0 + c1` -/
theorem BndS.ofProg {c0 c1 e w d : Nat} {p : Dec α} (hp : Bnd c0 0 e p) (hw : ProgW w p) (hd : d ≤ c1 * w) :
    BndS (c0 + c1) 0 e (fun _ => d) p := by
  intro bs
  have h1 := hp bs
  cases hpb : p bs with
  | ok a r n =>
    rw [hpb] at h1; simp only [OBnd_ok] at h1
    have h2 := hw bs a r n hpb
    simp only [OBndS_ok]
    refine ⟨h1.1, ?_⟩
    have : c1 * w ≤ c1 * (bs.length - r.length) := Nat.mul_le_mul_left c1 (by omega)
    rw [Nat.add_mul]; omega
  | err x n =>
    rw [hpb] at h1; simp only [OBnd_err] at h1
    simp only [OBndS_err]; rw [Nat.add_mul]; omega
  | panic x n =>
    rw [hpb] at h1; simp only [OBnd_panic] at h1
    simp only [OBndS_panic]; rw [Nat.add_mul]; omega

/-- a loop of reads that each carry a credit `d`: the list carries `d` per item -/
theorem BndS.readN {c e d : Nat} {p : Dec α} (hp : BndS c 0 e (fun _ => d) p) (n : Nat) :
    BndS c 0 e (fun xs => d * xs.length) (GV.Dec.readN p n) := by
  induction n with
  | zero => intro bs; simp [GV.Dec.readN]
  | succ n ih =>
    have h := BndS.bind (k2 := 0) (ν := fun xs : List α => d * xs.length) hp (fun x =>
      (BndS.bind (k2 := d) (e2 := 0) (ν := fun xs : List α => d * xs.length) ih (fun xs =>
        (BndS.pure c (fun xs : List α => d * xs.length) (x :: xs)).mono (Nat.le_refl _)
          (by simp only [List.length_cons, Nat.mul_add]; omega) (Nat.le_refl _) (fun _ => Nat.le_refl _))).mono
        (Nat.le_refl _) (by omega) (Nat.le_refl _) (fun _ => Nat.le_refl _))
    simp only [Nat.add_zero, Nat.max_zero, Nat.max_self] at h
    intro bs
    have := h bs
    simpa [GV.Dec.readN] using this

/-- a loop of `n` reads with an additive constant each -/
theorem Bnd.readNk {c k e : Nat} {p : Dec α} (hp : Bnd c k e p) (n : Nat) : Bnd c (n * k) e (GV.Dec.readN p n) := by
  induction n with
  | zero => intro bs; simp [GV.Dec.readN]
  | succ n ih =>
    have h := Bnd.bind hp (fun x => Bnd.bind (k2 := 0) (e2 := 0) ih (fun xs => Bnd.pure c (x :: xs)))
    simp only [Nat.add_zero, Nat.max_zero, Nat.max_self] at h
    intro bs
    have := h bs
    have e1 : (n + 1) * k = k + n * k := by rw [Nat.add_mul]; omega
    rw [e1]
    simpa [GV.Dec.readN] using this

/-! ### no-panic with a postcondition -/

theorem NoPanic.bindQ {Q : α → Prop} {p : Dec α} {f : α → Dec β} (hp : NoPanic p)
    (hq : ∀ bs a r n, p bs = .ok a r n → Q a) (hf : ∀ a, Q a → NoPanic (f a)) :
    NoPanic (fun bs => Dec.bind (p bs) f) := by
  intro bs
  have h1 := hp bs
  show (Dec.bind (p bs) f).isPanic = false
  cases hpb : p bs with
  | ok a r n =>
    have h2 := hf a (hq bs a r n hpb) r
    rw [bind_ok]
    cases hfa : f a r <;> simp_all [Outcome.addAlloc, Outcome.isPanic]
  | err e n => rfl
  | panic s n => simp [hpb, Outcome.isPanic] at h1

theorem NoPanic.charge {p : Dec α} (hp : NoPanic p) (n : Nat) : NoPanic (fun bs => GV.DecSer.charge n (p bs)) := by
  intro bs
  have := hp bs
  show (GV.DecSer.charge n (p bs)).isPanic = false
  unfold GV.DecSer.charge
  cases h : p bs <;> simp_all [Outcome.addAlloc, Outcome.isPanic]

theorem readN_length' {p : Dec α} {k : Nat} {bs : Bytes} {xs : List α} {r : Bytes} {n : Nat}
    (h : GV.Dec.readN p k bs = .ok xs r n) : xs.length = k := readN_length k bs xs r n h

/-! ### `read_multi` -/

theorem multiItem_ok {p : Dec α} {sz : Nat} {bs : Bytes} {x : α} {r : Bytes} {n : Nat}
    (h : multiItem p sz bs = .ok x r n) : ∃ m, p bs = .ok x r m ∧ n = m + GROW * sz := by
  unfold multiItem at h
  cases hp : p bs with
  | ok x' r' m => rw [hp] at h; simp only [Outcome.ok.injEq] at h; exact ⟨m, by rw [h.1, h.2.1], h.2.2.symm⟩
  | err e m => rw [hp] at h; simp at h
  | panic s m => rw [hp] at h; simp at h

theorem noPanic_multiItem {p : Dec α} (hp : NoPanic p) (sz : Nat) : NoPanic (multiItem p sz) := by
  intro bs
  have := hp bs
  unfold multiItem
  cases h : p bs <;> simp_all [Outcome.isPanic]

theorem progW_multiItem {p : Dec α} {w : Nat} (hp : ProgW w p) (sz : Nat) : ProgW w (multiItem p sz) := by
  intro bs a r n h
  obtain ⟨m, h1, _⟩ := multiItem_ok h
  exact hp bs a r m h1

/-- an item read with its amortised push charge and a credit `d` for later copies:
`GROW · sz + d ≤ c1 · w` -/
theorem bndS_multiItem {c0 c1 e w d sz : Nat} {p : Dec α} (hp : Bnd c0 0 e p) (hw : ProgW w p)
    (hd : GROW * sz + d ≤ c1 * w) : BndS (c0 + c1) 0 e (fun _ => d) (multiItem p sz) := by
  intro bs
  have h1 := (BndS.ofProg (d := GROW * sz + d) hp hw hd) bs
  unfold multiItem
  cases hpb : p bs with
  | ok a r n => rw [hpb] at h1; simp only [OBndS_ok] at h1 ⊢; omega
  | err x n => rw [hpb] at h1; simpa using h1
  | panic x n => rw [hpb] at h1; simpa using h1

theorem noPanic_readMulti {p : Dec α} (hp : NoPanic p) (sz count : Nat) : NoPanic (readMulti p sz count) := by
  intro bs
  unfold readMulti
  split
  · rfl
  · exact NoPanic.readN (noPanic_multiItem hp sz) count bs

/-- `read_multi`: allocation proportional to what was consumed, with `d` bytes of credit per item -/
theorem bndS_readMulti {c0 c1 e w d sz : Nat} {p : Dec α} (hp : Bnd c0 0 e p) (hw : ProgW w p)
    (hd : GROW * sz + d ≤ c1 * w) (count : Nat) :
    BndS (c0 + c1) 0 e (fun xs => d * xs.length) (readMulti p sz count) := by
  intro bs
  unfold readMulti
  split
  · simp
  · exact BndS.readN (bndS_multiItem hp hw hd) count bs

theorem readMulti_ok {p : Dec α} {sz count : Nat} {bs : Bytes} {xs : List α} {r : Bytes} {n : Nat}
    (h : readMulti p sz count bs = .ok xs r n) :
    count ≤ MAX_MULTI_COUNT ∧ GV.Dec.readN (multiItem p sz) count bs = .ok xs r n := by
  unfold readMulti at h
  split at h
  · simp at h
  · exact ⟨by omega, h⟩

/-- **loop progress of `read_multi`**: whatever count is announced, the items it yields are paid for
by consumed bytes, `w` per item -/
theorem readMulti_progress {p : Dec α} {w : Nat} (hp : ProgW w p) {sz count : Nat} {bs : Bytes} {xs : List α}
    {r : Bytes} {n : Nat} (h : readMulti p sz count bs = .ok xs r n) :
    xs.length = count ∧ xs.length * w + r.length ≤ bs.length := by
  obtain ⟨_, h'⟩ := readMulti_ok h
  exact ⟨readN_length' h', readN_progressW (progW_multiItem hp sz) count bs xs r n h'⟩

end GV.DecSer
