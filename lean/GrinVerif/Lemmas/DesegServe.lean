import GrinVerif.Lemmas.DesegRequest
/-! Closing the loop of the state-sync machine: the node asks (`next_desired_segments`), the peers
answer every request with a valid segment (among anything else, in any order), the node applies
(`apply_next_segments`).  `served_is_needed`: after such a round of deliveries the segment the
current phase needs next IS in its cache — the hypothesis `Needed` of `apply_progress` /
`honest_sync_completes` follows from the request list (for `max_elements ≥ 3`). -/
namespace GV.Deseg
open GV GV.Pmmr GV.Seg

/-- what no delivery changes -/
structure Frame (s s' : St) : Prop where
  hB : s'.hB = s.hB
  hO : s'.hO = s.hO
  hR : s'.hR = s.hR
  hK : s'.hK = s.hK
  outSize : s'.outSize = s.outSize
  kerSize : s'.kerSize = s.kerSize
  bmSize : s'.bmSize = s.bmSize
  bm : s'.bm.size = s.bm.size
  out : s'.out.size = s.out.size
  rp : s'.rp.size = s.rp.size
  ker : s'.ker.size = s.ker.size
  bc : s'.bitmapCache = s.bitmapCache

theorem Frame.refl (s : St) : Frame s s := ⟨rfl, rfl, rfl, rfl, rfl, rfl, rfl, rfl, rfl, rfl, rfl, rfl⟩

theorem Frame.trans {a b c : St} (h1 : Frame a b) (h2 : Frame b c) : Frame a c :=
  ⟨h2.hB.trans h1.hB, h2.hO.trans h1.hO, h2.hR.trans h1.hR, h2.hK.trans h1.hK,
   h2.outSize.trans h1.outSize, h2.kerSize.trans h1.kerSize, h2.bmSize.trans h1.bmSize,
   h2.bm.trans h1.bm, h2.out.trans h1.out, h2.rp.trans h1.rp, h2.ker.trans h1.ker, h2.bc.trans h1.bc⟩

theorem deliver_frame (s : St) (d : Delivery) : Frame s (s.deliver d) := by
  obtain ⟨h1, h2, h3, h4, h5, _⟩ := add_sizes s d.kind d.seg
  have hp : (s.deliver d).hB = s.hB ∧ (s.deliver d).hO = s.hO ∧ (s.deliver d).hR = s.hR ∧
      (s.deliver d).hK = s.hK ∧ (s.deliver d).outSize = s.outSize ∧ (s.deliver d).kerSize = s.kerSize ∧
      (s.deliver d).bmSize = s.bmSize := by
    unfold St.deliver
    by_cases hok : (s.addSegment d.kind d.seg).2 = .ok
    · rw [addSegment_ok_state s d.kind d.seg hok]
      cases d.kind <;> exact ⟨rfl, rfl, rfl, rfl, rfl, rfl, rfl⟩
    · rw [addSegment_refused s d.kind d.seg hok]; exact ⟨rfl, rfl, rfl, rfl, rfl, rfl, rfl⟩
  exact ⟨hp.1, hp.2.1, hp.2.2.1, hp.2.2.2.1, hp.2.2.2.2.1, hp.2.2.2.2.2.1, hp.2.2.2.2.2.2, h1, h2, h3, h4, h5⟩

theorem deliverAll_frame : ∀ (ds : List Delivery) (s : St), Frame s (s.deliverAll ds)
  | [], s => Frame.refl s
  | d :: ds, s => by
    show Frame s ((s.deliver d).deliverAll ds)
    exact (deliver_frame s d).trans (deliverAll_frame ds _)

theorem Frame.heightOf {s s' : St} (f : Frame s s') (k : Kind) : s'.heightOf k = s.heightOf k := by
  cases k
  · exact f.hB
  · exact f.hO
  · exact f.hR
  · exact f.hK

theorem Frame.archiveOf {s s' : St} (f : Frame s s') (k : Kind) : s'.archiveOf k = s.archiveOf k := by
  cases k
  · exact f.bmSize
  · exact f.outSize
  · exact f.outSize
  · exact f.kerSize

/-- caches only grow over any list of deliveries -/
theorem deliverAll_cache_sub : ∀ (ds : List Delivery) (s : St) (k : Kind) (c : Cached),
    c ∈ (s.treeOf k).cache → c ∈ ((s.deliverAll ds).treeOf k).cache
  | [], _, _, _, hc => hc
  | d :: ds, s, k, c, hc => by
    show c ∈ (((s.deliver d).deliverAll ds).treeOf k).cache
    exact deliverAll_cache_sub ds _ k c (add_cache_sub s d.kind k d.seg c hc)

/-- **a delivered segment that passes the three tests of `add_*_segment` is cached after the whole
round**, whatever else is delivered before and after it -/
theorem deliverAll_cached : ∀ (ds : List Delivery) (s : St) (d : Delivery), d ∈ ds →
    d.seg.id.height = s.heightOf d.kind → d.seg.id.unprunedSize (s.archiveOf d.kind) ≠ 0 →
    d.seg.valid = true → ∃ c ∈ ((s.deliverAll ds).treeOf d.kind).cache, c.id = d.seg.id
  | [], _, _, hm, _, _, _ => by cases hm
  | d0 :: ds, s, d, hm, h1, h2, h3 => by
    show ∃ c ∈ (((s.deliver d0).deliverAll ds).treeOf d.kind).cache, c.id = d.seg.id
    rcases List.mem_cons.mp hm with he | ht
    · subst he
      have hok : (s.addSegment d.kind d.seg).2 = .ok := (addSegment_ok_iff s d.kind d.seg).mpr ⟨h1, h2, h3⟩
      obtain ⟨c, hc, hid⟩ := (hasId_iff _ _).mp (add_cached s d.kind d.seg hok)
      exact ⟨c, deliverAll_cache_sub ds _ d.kind c hc, hid⟩
    · have f := deliver_frame s d0
      refine deliverAll_cached ds _ d ht ?_ ?_ h3
      · rw [f.heightOf]; exact h1
      · rw [f.archiveOf]; exact h2

/-- the peers answer every identifier of the request list with a valid segment of that identifier
(anything else may be delivered too, in any order, any number of times) -/
def Answers (req : List (Kind × Ident)) (ds : List Delivery) : Prop :=
  ∀ x ∈ req, ∃ d ∈ ds, d.kind = x.1 ∧ d.seg.id = x.2 ∧ d.seg.valid = true

/-- after the deliveries, the answered identifier `(K, ⟨h, k⟩)` with `k·2^h < N` is cached -/
theorem answered_cached (s : St) (ds : List Delivery) (req : List (Kind × Ident)) (ha : Answers req ds)
    (K : Kind) (k N : Nat) (hmem : (K, ({ height := s.heightOf K, idx := k } : Ident)) ∈ req)
    (hh : s.heightOf K ≤ 61) (hN : N < 2 ^ 62) (harch : s.archiveOf K = mmr N)
    (hlo : k * 2 ^ s.heightOf K < N) :
    ∃ c ∈ ((s.deliverAll ds).treeOf K).cache, c.id.idx = k := by
  obtain ⟨d, hd, hk, hid, hv⟩ := ha _ hmem
  simp only at hk hid
  have h1 : d.seg.id.height = s.heightOf d.kind := by rw [hid, hk]
  have h2 : d.seg.id.unprunedSize (s.archiveOf d.kind) ≠ 0 := by
    rw [hid, hk, harch]
    exact unprunedSize_pos ⟨s.heightOf K, k⟩ N hh hN hlo
  obtain ⟨c, hc, hcid⟩ := deliverAll_cached ds s d hd h1 h2 hv
  rw [hk] at hc
  exact ⟨c, hc, by rw [hcid, hid]⟩

theorem mem_of_hasId_idx (cache : List Cached) (h k : Nat) (hc : hasId cache { height := h, idx := k } = true) :
    ∃ c ∈ cache, c.id.idx = k := by
  obtain ⟨c, hc, hid⟩ := (hasId_iff _ _).mp hc
  exact ⟨c, hc, by rw [hid]⟩

theorem bool_cases (b : Bool) : b = true ∨ b = false := by cases b <;> simp

/-- **Serving the request list gives the machine what it needs next**: in every regular,
incomplete state, if the deliveries of a round answer every identifier of
`next_desired_segments(max_elements)` with `max_elements ≥ 3`, the segment the current phase needs
next is cached afterwards (`Needed`) -/
theorem served_is_needed (No Nk : Nat) (s : St) (hi : Inv No Nk s) (hr : s.remaining ≠ 0)
    (max : Nat) (hm : 3 ≤ max) (ds : List Delivery) (ha : Answers (s.desired max) ds) :
    Needed No Nk (s.deliverAll ds) := by
  have f := deliverAll_frame ds s
  have hne := next_exists No Nk s hi hr
  have hbmL : (s.deliverAll ds).bm.leaves = s.bm.leaves := by unfold Tree.leaves; rw [f.bm]
  have hoL : (s.deliverAll ds).out.leaves = s.out.leaves := by unfold Tree.leaves; rw [f.out]
  have hrL : (s.deliverAll ds).rp.leaves = s.rp.leaves := by unfold Tree.leaves; rw [f.rp]
  have hkL : (s.deliverAll ds).ker.leaves = s.ker.leaves := by unfold Tree.leaves; rw [f.ker]
  have par := hi.par
  have hcs := chunks_small No par.NoS
  unfold Needed
  rw [f.hB, f.hO, f.hR, f.hK, hbmL, hoL, hrL, hkL, f.bc]
  rcases hne with ⟨k, p⟩ | ⟨pn, hrest⟩
  · -- bitmap phase
    left
    refine ⟨k, p, ?_⟩
    have hlt := (p.bounds (fun h => by cases h)).2.2
    rcases bool_cases (hasId s.bm.cache { height := s.hB, idx := k }) with hc | hc
    · obtain ⟨c, hc1, hc2⟩ := mem_of_hasId_idx _ _ _ hc
      exact ⟨c, deliverAll_cache_sub ds s .bitmap c hc1, hc2⟩
    · have hbc : s.bitmapCache = false := by
        rcases bool_cases s.bitmapCache with hb | hb
        · have := hi.fin hb
          have := p.lt_of_some
          omega
        · exact hb
      obtain ⟨t, ht⟩ := desired_bitmap_next No Nk s hi hbc k p hc max
      exact answered_cached s ds _ ha .bitmap k (Dsg.expectedChunks No)
        (by rw [ht]; exact List.mem_cons_self) par.hB hcs par.bms hlt
  · right
    refine ⟨pn, ?_⟩
    rcases bool_cases s.bitmapCache with hbc | hbc
    case inr => exact Or.inl hbc
    rcases hrest with hb | hb
    · rw [hbc] at hb; cases hb
    · right
      obtain ⟨mo, mr, mk⟩ := desired_all_next No Nk s hi hbc max hm
      rcases hb with ⟨k, p⟩ | ⟨k, p⟩ | ⟨k, p⟩
      · left
        refine ⟨k, p, ?_⟩
        have hlt := (p.bounds (fun _ => par.hO1)).2.2
        rcases bool_cases (hasId s.out.cache { height := s.hO, idx := k }) with hc | hc
        · obtain ⟨c, hc1, hc2⟩ := mem_of_hasId_idx _ _ _ hc
          exact ⟨c, deliverAll_cache_sub ds s .output c hc1, hc2⟩
        · exact answered_cached s ds _ ha .output k No (mo k p hc) par.hO par.NoS par.out hlt
      · right; left
        refine ⟨k, p, ?_⟩
        have hlt := (p.bounds (fun _ => par.hR1)).2.2
        rcases bool_cases (hasId s.rp.cache { height := s.hR, idx := k }) with hc | hc
        · obtain ⟨c, hc1, hc2⟩ := mem_of_hasId_idx _ _ _ hc
          exact ⟨c, deliverAll_cache_sub ds s .rangeproof c hc1, hc2⟩
        · exact answered_cached s ds _ ha .rangeproof k No (mr k p hc) par.hR par.NoS par.out hlt
      · right; right
        refine ⟨k, p, ?_⟩
        have hlt := (p.bounds (fun _ => par.hK1)).2.2
        rcases bool_cases (hasId s.ker.cache { height := s.hK, idx := k }) with hc | hc
        · obtain ⟨c, hc1, hc2⟩ := mem_of_hasId_idx _ _ _ hc
          exact ⟨c, deliverAll_cache_sub ds s .kernel c hc1, hc2⟩
        · exact answered_cached s ds _ ha .kernel k Nk (mk k p hc) par.hK par.NkS par.ker hlt

end GV.Deseg
