import GrinVerif.Lemmas.StoreVar
import GrinVerif.Lemmas.StoreProof
/-! Histories over a backend whose data file is VARIABLE-SIZE (`.var`): step by step the backend
is the fixed-size backend of `Lemmas/StoreHistory.lean` with the data file replaced by a byte-level
file + size file representing it (`VarFile.Rep`).  So every statement of the history theorems
carries over.  Core Lean only. -/
namespace GV.Store
open GV GV.Pmmr GV.Pmmr.Co

/-- `pv` is `pf` with the element-level data file `f` replaced by a represented `VarFile` -/
def PSim {H : Type} (el : Bytes → Option Nat) (pv pf : PM H) : Prop :=
  ∃ v f, pf.b.dataFile = .fixed f ∧ VarFile.Rep el v f ∧
    pv = { b := { pf.b with dataFile := .var v }, size := pf.size }

namespace PSim
variable {H : Type} {el : Bytes → Option Nat} {hf : HashFn Bytes H} {pv pf : PM H}

theorem size (h : PSim el pv pf) : pv.size = pf.size := by
  obtain ⟨v, f, _, _, e⟩ := h; rw [e]

theorem hashFile (h : PSim el pv pf) : pv.b.hashFile = pf.b.hashFile := by
  obtain ⟨v, f, _, _, e⟩ := h; rw [e]

theorem leafSet (h : PSim el pv pf) : pv.b.leafSet = pf.b.leafSet := by
  obtain ⟨v, f, _, _, e⟩ := h; rw [e]

theorem pruneList (h : PSim el pv pf) : pv.b.pruneList = pf.b.pruneList := by
  obtain ⟨v, f, _, _, e⟩ := h; rw [e]

theorem pruneFile (h : PSim el pv pf) : pv.b.pruneFile = pf.b.pruneFile := by
  obtain ⟨v, f, _, _, e⟩ := h; rw [e]

theorem getFromFile (h : PSim el pv pf) : pv.b.getFromFile = pf.b.getFromFile := by
  obtain ⟨v, f, _, _, e⟩ := h; rw [e]; rfl

theorem getPeakFromFile (h : PSim el pv pf) : pv.b.getPeakFromFile = pf.b.getPeakFromFile := by
  obtain ⟨v, f, _, _, e⟩ := h; rw [e]; rfl

theorem unprunedSize (h : PSim el pv pf) : pv.b.unprunedSize = pf.b.unprunedSize := by
  obtain ⟨v, f, _, _, e⟩ := h; rw [e]; rfl

theorem getHash (h : PSim el pv pf) : PM.getHash pv = PM.getHash pf := by
  obtain ⟨v, f, _, _, e⟩ := h; rw [e]; rfl

theorem root (h : PSim el pv pf) : PM.root hf pv = PM.root hf pf := by
  obtain ⟨v, f, _, _, e⟩ := h; rw [e]; rfl

theorem merkleProof (h : PSim el pv pf) (q : Nat) : PM.merkleProof hf pv q = PM.merkleProof hf pf q := by
  obtain ⟨v, f, _, _, e⟩ := h; rw [e]; rfl

/-- **data reads**: `get_data` through the size file = `get_data` of the element-level file -/
theorem getData (h : PSim el pv pf) (q : Nat) : PM.getData el pv q = PM.getData el pf q := by
  obtain ⟨v, f, hd, hr, e⟩ := h
  rw [e]
  unfold PM.getData Backend.getData Backend.getDataFromFile
  have h1 : ∀ pos, DFile.read1 el (.var v) pos = DFile.read1 el pf.b.dataFile pos := by
    intro pos
    rw [hd]
    exact hr.read1 pos
  simp only [h1]
  rfl

/-! ### one operation -/

theorem push (h : PSim el pv pf) (e : Bytes) (he : VarFile.Delim el e) :
    PSim el (bstep el hf pv (.push e)) (bstep el hf pf (.push e)) := by
  obtain ⟨v, f, hd, hr, e0⟩ := h
  obtain ⟨v', ha, hr'⟩ := hr.append e he
  subst e0
  obtain ⟨b, sz⟩ := pf
  obtain ⟨hF, dF, lS, pL, pF⟩ := b
  simp only at hd
  subst hd
  show PSim el ((PM.push hf _ e).getD _) ((PM.push hf _ e).getD _)
  unfold PM.push
  have hpk : ({ hashFile := hF, dataFile := DFile.var v, leafSet := lS, pruneList := pL, pruneFile := pF } : Backend H).getPeakFromFile =
      ({ hashFile := hF, dataFile := DFile.fixed f, leafSet := lS, pruneList := pL, pruneFile := pF } : Backend H).getPeakFromFile := rfl
  simp only [hpk]
  cases hph : pushHashes hf ({ hashFile := hF, dataFile := DFile.fixed f, leafSet := lS, pruneList := pL, pruneFile := pF } : Backend H).getPeakFromFile sz e with
  | none => exact ⟨v, f, rfl, hr, rfl⟩
  | some hashes =>
    have hsz : VarFile.sizeUnsyncInElmts v' = (f.append e).sizeUnsyncInElmts := hr'.sizeUnsync
    simp only [Backend.append, DFile.append, ha, hsz, Option.getD_some]
    exact ⟨v', f.append e, rfl, hr', rfl⟩

theorem prune (h : PSim el pv pf) (pos : Nat) :
    PSim el (bstep el hf pv (.prune pos)) (bstep el hf pf (.prune pos)) := by
  obtain ⟨v, f, hd, hr, e0⟩ := h
  subst e0
  simp only [bstep, PM.prune]
  have hgh : ({ pf.b with dataFile := DFile.var v } : Backend H).getHash pos = pf.b.getHash pos := rfl
  rw [hgh]
  by_cases hl : isLeaf pos
  · simp only [hl, Bool.not_true, Bool.false_eq_true, if_false]
    cases pf.b.getHash pos with
    | none => exact ⟨v, f, hd, hr, rfl⟩
    | some _ => exact ⟨v, f, hd, hr, rfl⟩
  · simp only [hl, Bool.not_false, if_true]
    exact ⟨v, f, hd, hr, rfl⟩

theorem rewind (h : PSim el pv pf) (N' : Nat) (rm : Bitmap)
    (hbuf : ∀ f, pf.b.dataFile = .fixed f → f.buffer = [])
    (hpos : ∀ f, (bstep el hf pf (.rewind N' rm)).b.dataFile = .fixed f → f.bsp ≤ f.disk.length) :
    PSim el (bstep el hf pv (.rewind N' rm)) (bstep el hf pf (.rewind N' rm)) := by
  obtain ⟨v, f, hd, hr, e0⟩ := h
  subst e0
  have hb := hbuf f hd
  have hstep : (bstep el hf pf (.rewind N' rm)).b.dataFile =
      .fixed (f.rewind (nLeaves (roundUpToLeafPos (mmr N')) -
        (if roundUpToLeafPos (mmr N') = 0 then 0
         else pf.b.pruneList.getLeafShift (roundUpToLeafPos (mmr N'))))) := by
    simp only [bstep, PM.rewind, Backend.rewind, hd, DFile.rewind]
  have hp := hpos _ hstep
  refine ⟨_, _, hstep, hr.rewind hb _ hp, ?_⟩
  simp only [bstep, PM.rewind, Backend.rewind, DFile.rewind]

theorem sync (h : PSim el pv pf) : PSim el (bstep el hf pv .sync) (bstep el hf pf .sync) := by
  obtain ⟨v, f, hd, hr, e0⟩ := h
  subst e0
  refine ⟨v.flush, f.flush, ?_, hr.flush, ?_⟩
  · simp only [bstep, Backend.sync, hd, DFile.flush]
  · simp only [bstep, Backend.sync, DFile.flush]

theorem discard (h : PSim el pv pf) : PSim el (bstep el hf pv .discard) (bstep el hf pf .discard) := by
  obtain ⟨v, f, hd, hr, e0⟩ := h
  subst e0
  refine ⟨v.discard, f.discard, ?_, hr.discard, ?_⟩
  · simp only [bstep, Backend.discard, hd, DFile.discard]
  · simp only [bstep, Backend.discard, DFile.discard]
    rfl

theorem compact (h : PSim el pv pf) (K : Nat) (rm : Bitmap)
    (hclean : ∀ f, pf.b.dataFile = .fixed f → f.Clean) :
    PSim el (bstep el hf pv (.compact K rm)) (bstep el hf pf (.compact K rm)) := by
  obtain ⟨v, f, hd, hr, e0⟩ := h
  subst e0
  have hc := hclean f hd
  obtain ⟨b, sz⟩ := pf
  obtain ⟨hF, dF, lS, pL, pF⟩ := b
  simp only at hd
  subst hd
  simp only [bstep, Backend.checkCompact]
  have hp : ({ hashFile := hF, dataFile := DFile.var v, leafSet := lS, pruneList := pL, pruneFile := pF } : Backend H).posToRm (mmr K) rm =
      ({ hashFile := hF, dataFile := DFile.fixed f, leafSet := lS, pruneList := pL, pruneFile := pF } : Backend H).posToRm (mmr K) rm := rfl
  rw [hp]
  cases ({ hashFile := hF, dataFile := DFile.fixed f, leafSet := lS, pruneList := pL, pruneFile := pF } : Backend H).posToRm (mmr K) rm with
  | mk lr ptr =>
    simp only [DFile.compact]
    exact ⟨_, _, rfl, hr.compact hc _, rfl⟩

theorem reopen (h : PSim el pv pf) : PSim el (bstep el hf pv .reopen) (bstep el hf pf .reopen) := by
  obtain ⟨v, f, hd, hr, e0⟩ := h
  subst e0
  refine ⟨_, _, ?_, hr.reopen, ?_⟩
  · simp only [bstep, Backend.reopen, hd, DFile.reopen]
  · simp only [bstep, Backend.reopen, DFile.reopen]
    rfl

end PSim

/-- **simulation along protocol-respecting histories.**  The side conditions of the file-level
refinement (no rewind once the unit has buffered something, rewind targets inside the file,
compaction of synced files only) are consequences of the history invariant of the fixed-size side. -/
theorem psim_run {H : Type} (el : Bytes → Option Nat) (hf : HashFn Bytes H) :
    ∀ (ops : List HOp) (pv pf : PM H) (r : RefSt), HInv hf pf r → PSim el pv pf → RefSt.Proto r ops →
      (∀ e, HOp.push e ∈ ops → VarFile.Delim el e) →
      PSim el (ops.foldl (bstep el hf) pv) (ops.foldl (bstep el hf) pf) := by
  intro ops
  induction ops with
  | nil => intro pv pf r _ h _ _; exact h
  | cons op ops ih =>
    intro pv pf r hinv hsim hproto hdel
    have hinv' := hinv_step el hf pf r hinv op hproto.1
    refine ih _ _ _ hinv' ?_ hproto.2 (fun e he => hdel e (List.mem_cons_of_mem _ he))
    cases op with
    | push e => exact hsim.push e (hdel e List.mem_cons_self)
    | prune pos => exact hsim.prune pos
    | rewind N' rm =>
      have hok : r.app = false ∧ _ := hproto.1
      refine hsim.rewind N' rm (fun f hd => (hinv.nobuf hok.1).2 f hd) ?_
      intro f hd
      obtain ⟨df, hag⟩ := hinv'.cur
      have := hag.live.data
      rw [hd] at this
      injection this with e
      rw [e]
      exact hag.live.dataWF.le
    | sync => exact hsim.sync
    | discard => exact hsim.discard
    | compact K rm =>
      have hok : r.dirty = false ∧ _ := hproto.1
      refine hsim.compact K rm ?_
      intro f hd
      obtain ⟨b0, df0, hs0, _, _, hcl⟩ := hinv.saved
      have hb := (hcl hok.1).1
      rw [hb, hs0.data] at hd
      injection hd with e
      rw [← e]; exact hs0.dataClean
    | reopen => exact hsim.reopen

/-- the empty store with a variable-size data file against the empty store of the history theorems -/
theorem psim_init {H : Type} (el : Bytes → Option Nat) :
    PSim el ({ b := { dataFile := .var {} }, size := 0 } : PM H) ({} : PM H) :=
  ⟨{}, {}, rfl, VarFile.rep_empty el, rfl⟩

end GV.Store
