import GrinVerif.Lemmas.ChainImplBasic
/-! The effect of `applyBlockImpl` (`Extension::apply_block`), loop by loop, under the
representation invariant. -/
namespace GV.Chain
namespace TxHS

/-! ### outputs -/

/-- the state change of `apply_output` + `save_output_pos_height` -/
def pushLeaf (S : TxHS) (c h : Nat) : TxHS :=
  ({ S with leaves := S.leaves ++ [c], leafSet := S.leafSet ++ [S.leaves.length] } : TxHS).saveOutputPos
    c ⟨S.leaves.length, h⟩

/-- under the invariant the duplicate check of `apply_output` fires exactly when the commitment
has an index entry -/
theorem applyOutput_ok {S S' : TxHS} (hi : RInv S) (c h : Nat) (hr : S.applyOutput c h = .ok S') :
    S.getOutputPos c = none ∧
    S' = S.pushLeaf c h := by
  unfold applyOutput at hr
  cases hg : S.getOutputPos c with
  | none =>
    simp only [hg] at hr
    injection hr with hr
    exact ⟨rfl, hr.symm⟩
  | some cp =>
    obtain ⟨h1, h2⟩ := hi.points c cp hg
    have : S.getData cp.pos = some c := (getData_eq_some S cp.pos c).mpr ⟨h1, h2⟩
    simp [hg, this] at hr

theorem applyOutput_of_none (S : TxHS) (c h : Nat) (hn : S.getOutputPos c = none) :
    S.applyOutput c h = .ok (S.pushLeaf c h) := by
  unfold applyOutput pushLeaf
  simp [hn]

/-- appending a fresh commitment keeps the invariant -/
theorem applyOutput_rinv {S : TxHS} (hi : RInv S) (c h : Nat) (hn : S.getOutputPos c = none) :
    RInv (S.pushLeaf c h) := by
  unfold pushLeaf
  refine ⟨?_, ?_, ?_⟩
  · intro i hi'
    simp only [saveOutputPos_leafSet, List.mem_append, List.mem_singleton] at hi'
    simp only [saveOutputPos_leaves, List.length_append, List.length_singleton]
    rcases hi' with h1 | h1
    · have := hi.bound i h1; omega
    · omega
  · intro i hi' c' hc'
    simp only [saveOutputPos_leafSet, List.mem_append, List.mem_singleton] at hi'
    simp only [saveOutputPos_leaves] at hc'
    rw [getOutputPos_save]
    rcases hi' with h1 | h1
    · have hb := hi.bound i h1
      rw [List.getElem?_append_left hb] at hc'
      obtain ⟨h', e⟩ := hi.indexed i h1 c' hc'
      have hne : c' ≠ c := by
        intro heq; subst heq; rw [hn] at e; cases e
      rw [if_neg hne]
      exact ⟨h', e⟩
    · subst h1
      rw [List.getElem?_append_right (Nat.le_refl _)] at hc'
      simp only [Nat.sub_self, List.getElem?_cons_zero, Option.some.injEq] at hc'
      subst hc'
      exact ⟨h, by simp⟩
  · intro c' cp hg
    rw [getOutputPos_save] at hg
    simp only [saveOutputPos_leafSet, saveOutputPos_leaves, List.mem_append, List.mem_singleton]
    by_cases hc : c' = c
    · subst hc
      simp only [if_true, Option.some.injEq] at hg
      subst hg
      refine ⟨Or.inr rfl, ?_⟩
      rw [List.getElem?_append_right (Nat.le_refl _)]
      simp
    · rw [if_neg hc] at hg
      obtain ⟨h1, h2⟩ := hi.points c' cp hg
      refine ⟨Or.inl h1, ?_⟩
      rw [List.getElem?_append_left (hi.bound _ h1)]
      exact h2

/-- what the output loop of `apply_block` did, given that it succeeded -/
structure OutsApplied (S S1 : TxHS) (cs : List Nat) (h : Nat) : Prop where
  rinv : RInv S1
  leaves : S1.leaves = S.leaves ++ cs
  leafSet : ∀ i, i ∈ S1.leafSet ↔ i ∈ S.leafSet ∨ (S.leaves.length ≤ i ∧ i < S.leaves.length + cs.length)
  other : ∀ c, c ∉ cs → S1.getOutputPos c = S.getOutputPos c
  fresh : ∀ c ∈ cs, S.getOutputPos c = none
  created : ∀ c ∈ cs, ∃ i, S1.getOutputPos c = some ⟨i, h⟩ ∧ S.leaves.length ≤ i
  nodup : cs.Nodup
  spentIdx : S1.spentIdx = S.spentIdx

theorem applyOutputs_ok (os : List (Nat × Bool)) (h : Nat) : ∀ {S S1 : TxHS}, RInv S →
    S.applyOutputs os h = .ok S1 → OutsApplied S S1 (os.map (·.1)) h := by
  induction os with
  | nil =>
    intro S S1 hi hr
    simp only [applyOutputs] at hr
    injection hr with hr
    subst hr
    refine ⟨hi, by simp, ?_, fun _ _ => rfl, fun c hc => (by cases hc), fun c hc => (by cases hc),
      List.nodup_nil, rfl⟩
    intro i
    constructor
    · exact Or.inl
    · rintro (h1 | h1)
      · exact h1
      · simp at h1; omega
  | cons o os ih =>
    intro S S1 hi hr
    simp only [applyOutputs] at hr
    cases h1 : S.applyOutput o.1 h with
    | error e => rw [h1] at hr; cases hr
    | ok S' =>
      rw [h1] at hr
      obtain ⟨hn, hS'⟩ := applyOutput_ok hi o.1 h h1
      have hi' : RInv S' := hS' ▸ applyOutput_rinv hi o.1 h hn
      have A := ih hi' hr
      have hl' : S'.leaves = S.leaves ++ [o.1] := by rw [hS']; rfl
      have hls' : S'.leafSet = S.leafSet ++ [S.leaves.length] := by rw [hS']; rfl
      have hg' : ∀ c, S'.getOutputPos c = if c = o.1 then some ⟨S.leaves.length, h⟩ else S.getOutputPos c := by
        intro c; rw [hS']; unfold pushLeaf; rw [getOutputPos_save]; rfl
      have hnot : o.1 ∉ os.map (·.1) := by
        intro hm
        have := A.fresh o.1 hm
        rw [hg' o.1] at this
        simp at this
      refine ⟨A.rinv, ?_, ?_, ?_, ?_, ?_, ?_, ?_⟩
      · rw [A.leaves, hl']; simp
      · intro i
        rw [A.leafSet i, hls', hl']
        simp only [List.mem_append, List.mem_singleton, List.length_append, List.length_singleton,
          List.length_map, List.map_cons, List.length_cons, List.length_nil]
        constructor
        · rintro ((h1 | h1) | h1)
          · exact Or.inl h1
          · right; omega
          · right; omega
        · rintro (h1 | h1)
          · exact Or.inl (Or.inl h1)
          · by_cases he : i = S.leaves.length
            · exact Or.inl (Or.inr he)
            · right; omega
      · intro c hc
        simp only [List.map_cons, List.mem_cons, not_or] at hc
        rw [A.other c hc.2, hg' c, if_neg hc.1]
      · intro c hc
        simp only [List.map_cons, List.mem_cons] at hc
        rcases hc with hc | hc
        · subst hc; exact hn
        · have := A.fresh c hc
          rw [hg' c] at this
          split at this
          · cases this
          · exact this
      · intro c hc
        simp only [List.map_cons, List.mem_cons] at hc
        rcases hc with hc | hc
        · subst hc
          refine ⟨S.leaves.length, ?_, Nat.le_refl _⟩
          rw [A.other _ hnot, hg' _, if_pos rfl]
        · obtain ⟨i, e, hle⟩ := A.created c hc
          refine ⟨i, e, ?_⟩
          rw [hl'] at hle
          simp at hle
          omega
      · simp only [List.map_cons]
        exact List.nodup_cons.mpr ⟨hnot, A.nodup⟩
      · rw [A.spentIdx, hS']; rfl

end TxHS
end GV.Chain
