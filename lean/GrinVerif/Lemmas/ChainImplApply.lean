import GrinVerif.Lemmas.ChainImplBasic
/-! The effect of `applyBlockImpl` (`Extension::apply_block`), loop by loop, under the
representation invariant. -/
namespace GV.Chain
namespace TxHS

/-! ### outputs -/

/-- the state change of `apply_output` + `save_output_pos_height` -/
def pushLeaf (S : TxHS) (c h : Nat) : TxHS :=
  ({ S with leaves := S.leaves ++ [c], leafSet := S.leafSet ++ [S.leaves.length] } : TxHS).saveOutputPos
    c ⟨S.leaves.length, h⟩

/-- under the invariant the duplicate check of `apply_output` fires exactly when the commitment
has an index entry -/
theorem applyOutput_ok {S S' : TxHS} (hi : RInv S) (c h : Nat) (hr : S.applyOutput c h = .ok S') :
    S.getOutputPos c = none ∧
    S' = S.pushLeaf c h := by
  unfold applyOutput at hr
  cases hg : S.getOutputPos c with
  | none =>
    simp only [hg] at hr
    injection hr with hr
    exact ⟨rfl, hr.symm⟩
  | some cp =>
    obtain ⟨h1, h2⟩ := hi.points c cp hg
    have : S.getData cp.pos = some c := (getData_eq_some S cp.pos c).mpr ⟨h1, h2⟩
    simp [hg, this] at hr

theorem applyOutput_of_none (S : TxHS) (c h : Nat) (hn : S.getOutputPos c = none) :
    S.applyOutput c h = .ok (S.pushLeaf c h) := by
  unfold applyOutput pushLeaf
  simp [hn]

/-- appending a fresh commitment keeps the invariant -/
theorem applyOutput_rinv {S : TxHS} (hi : RInv S) (c h : Nat) (hn : S.getOutputPos c = none) :
    RInv (S.pushLeaf c h) := by
  unfold pushLeaf
  refine ⟨?_, ?_, ?_⟩
  · intro i hi'
    simp only [saveOutputPos_leafSet, List.mem_append, List.mem_singleton] at hi'
    simp only [saveOutputPos_leaves, List.length_append, List.length_singleton]
    rcases hi' with h1 | h1
    · have := hi.bound i h1; omega
    · omega
  · intro i hi' c' hc'
    simp only [saveOutputPos_leafSet, List.mem_append, List.mem_singleton] at hi'
    simp only [saveOutputPos_leaves] at hc'
    rw [getOutputPos_save]
    rcases hi' with h1 | h1
    · have hb := hi.bound i h1
      rw [List.getElem?_append_left hb] at hc'
      obtain ⟨h', e⟩ := hi.indexed i h1 c' hc'
      have hne : c' ≠ c := by
        intro heq; subst heq; rw [hn] at e; cases e
      rw [if_neg hne]
      exact ⟨h', e⟩
    · subst h1
      rw [List.getElem?_append_right (Nat.le_refl _)] at hc'
      simp only [Nat.sub_self, List.getElem?_cons_zero, Option.some.injEq] at hc'
      subst hc'
      exact ⟨h, by simp⟩
  · intro c' cp hg
    rw [getOutputPos_save] at hg
    simp only [saveOutputPos_leafSet, saveOutputPos_leaves, List.mem_append, List.mem_singleton]
    by_cases hc : c' = c
    · subst hc
      simp only [if_true, Option.some.injEq] at hg
      subst hg
      refine ⟨Or.inr rfl, ?_⟩
      rw [List.getElem?_append_right (Nat.le_refl _)]
      simp
    · rw [if_neg hc] at hg
      obtain ⟨h1, h2⟩ := hi.points c' cp hg
      refine ⟨Or.inl h1, ?_⟩
      rw [List.getElem?_append_left (hi.bound _ h1)]
      exact h2

/-- what the output loop of `apply_block` did, given that it succeeded -/
structure OutsApplied (S S1 : TxHS) (cs : List Nat) (h : Nat) : Prop where
  rinv : RInv S1
  leaves : S1.leaves = S.leaves ++ cs
  leafSet : ∀ i, i ∈ S1.leafSet ↔ i ∈ S.leafSet ∨ (S.leaves.length ≤ i ∧ i < S.leaves.length + cs.length)
  other : ∀ c, c ∉ cs → S1.getOutputPos c = S.getOutputPos c
  fresh : ∀ c ∈ cs, S.getOutputPos c = none
  created : ∀ c ∈ cs, ∃ i, S1.getOutputPos c = some ⟨i, h⟩ ∧ S.leaves.length ≤ i
  nodup : cs.Nodup
  spentIdx : S1.spentIdx = S.spentIdx

theorem applyOutputs_ok (os : List (Nat × Bool)) (h : Nat) : ∀ {S S1 : TxHS}, RInv S →
    S.applyOutputs os h = .ok S1 → OutsApplied S S1 (os.map (·.1)) h := by
  induction os with
  | nil =>
    intro S S1 hi hr
    simp only [applyOutputs] at hr
    injection hr with hr
    subst hr
    refine ⟨hi, by simp, ?_, fun _ _ => rfl, fun c hc => (by cases hc), fun c hc => (by cases hc),
      List.nodup_nil, rfl⟩
    intro i
    constructor
    · exact Or.inl
    · rintro (h1 | h1)
      · exact h1
      · simp at h1; omega
  | cons o os ih =>
    intro S S1 hi hr
    simp only [applyOutputs] at hr
    cases h1 : S.applyOutput o.1 h with
    | error e => rw [h1] at hr; cases hr
    | ok S' =>
      rw [h1] at hr
      obtain ⟨hn, hS'⟩ := applyOutput_ok hi o.1 h h1
      have hi' : RInv S' := hS' ▸ applyOutput_rinv hi o.1 h hn
      have A := ih hi' hr
      have hl' : S'.leaves = S.leaves ++ [o.1] := by rw [hS']; rfl
      have hls' : S'.leafSet = S.leafSet ++ [S.leaves.length] := by rw [hS']; rfl
      have hg' : ∀ c, S'.getOutputPos c = if c = o.1 then some ⟨S.leaves.length, h⟩ else S.getOutputPos c := by
        intro c; rw [hS']; unfold pushLeaf; rw [getOutputPos_save]; rfl
      have hnot : o.1 ∉ os.map (·.1) := by
        intro hm
        have := A.fresh o.1 hm
        rw [hg' o.1] at this
        simp at this
      refine ⟨A.rinv, ?_, ?_, ?_, ?_, ?_, ?_, ?_⟩
      · rw [A.leaves, hl']; simp
      · intro i
        rw [A.leafSet i, hls', hl']
        simp only [List.mem_append, List.mem_singleton, List.length_append, List.length_singleton,
          List.length_map, List.map_cons, List.length_cons, List.length_nil]
        constructor
        · rintro ((h1 | h1) | h1)
          · exact Or.inl h1
          · right; omega
          · right; omega
        · rintro (h1 | h1)
          · exact Or.inl (Or.inl h1)
          · by_cases he : i = S.leaves.length
            · exact Or.inl (Or.inr he)
            · right; omega
      · intro c hc
        simp only [List.map_cons, List.mem_cons, not_or] at hc
        rw [A.other c hc.2, hg' c, if_neg hc.1]
      · intro c hc
        simp only [List.map_cons, List.mem_cons] at hc
        rcases hc with hc | hc
        · subst hc; exact hn
        · have := A.fresh c hc
          rw [hg' c] at this
          split at this
          · cases this
          · exact this
      · intro c hc
        simp only [List.map_cons, List.mem_cons] at hc
        rcases hc with hc | hc
        · subst hc
          refine ⟨S.leaves.length, ?_, Nat.le_refl _⟩
          rw [A.other _ hnot, hg' _, if_pos rfl]
        · obtain ⟨i, e, hle⟩ := A.created c hc
          refine ⟨i, e, ?_⟩
          rw [hl'] at hle
          simp at hle
          omega
      · simp only [List.map_cons]
        exact List.nodup_cons.mpr ⟨hnot, A.nodup⟩
      · rw [A.spentIdx, hS']; rfl


/-! ### inputs -/

theorem validateInput_ok {S : TxHS} {c : Nat} {cp : CommitPos} (h : S.validateInput c = .ok cp) :
    S.getOutputPos c = some cp ∧ S.getData cp.pos = some c := by
  unfold validateInput at h
  cases hg : S.getOutputPos c with
  | none => simp [hg] at h
  | some cp' =>
    simp only [hg] at h
    cases hd : S.getData cp'.pos with
    | none => simp [hd] at h
    | some c' =>
      simp only [hd] at h
      by_cases hc : c' = c
      · subst hc
        simp at h
        subst h
        exact ⟨rfl, hd⟩
      · have : (c' == c) = false := by simpa using hc
        simp [this] at h

theorem validateInput_of {S : TxHS} (hi : RInv S) {c : Nat} {cp : CommitPos}
    (h : S.getOutputPos c = some cp) : S.validateInput c = .ok cp := by
  obtain ⟨h1, h2⟩ := hi.points c cp h
  have : S.getData cp.pos = some c := (getData_eq_some S cp.pos c).mpr ⟨h1, h2⟩
  unfold validateInput
  simp [h, this]

theorem validateInputs_ok {S : TxHS} : ∀ (cs : List Nat) (sp : List (Nat × CommitPos)),
    S.validateInputs cs = .ok sp →
    sp.map (·.1) = cs ∧ ∀ x ∈ sp, S.getOutputPos x.1 = some x.2 ∧ S.getData x.2.pos = some x.1 := by
  intro cs
  induction cs with
  | nil =>
    intro sp h
    simp only [validateInputs] at h
    injection h with h
    subst h
    exact ⟨rfl, fun x hx => by cases hx⟩
  | cons c cs ih =>
    intro sp h
    simp only [validateInputs] at h
    cases h1 : S.validateInput c with
    | error e => rw [h1] at h; cases h
    | ok cp =>
      rw [h1] at h
      cases h2 : S.validateInputs cs with
      | error e => rw [h2] at h; cases h
      | ok r =>
        rw [h2] at h
        injection h with h
        subst h
        obtain ⟨e, hr⟩ := ih r h2
        refine ⟨by simp [e], ?_⟩
        intro x hx
        rcases List.mem_cons.mp hx with hx | hx
        · subst hx; exact validateInput_ok h1
        · exact hr x hx

theorem validateInputs_of {S : TxHS} (hi : RInv S) : ∀ (cs : List Nat),
    (∀ c ∈ cs, (S.getOutputPos c).isSome) → ∃ sp, S.validateInputs cs = .ok sp := by
  intro cs
  induction cs with
  | nil => intro _; exact ⟨[], rfl⟩
  | cons c cs ih =>
    intro h
    obtain ⟨sp, hsp⟩ := ih (fun c' hc' => h c' (List.mem_cons_of_mem _ hc'))
    have := h c (List.mem_cons_self ..)
    cases hg : S.getOutputPos c with
    | none => rw [hg] at this; cases this
    | some cp =>
      refine ⟨(c, cp) :: sp, ?_⟩
      simp only [validateInputs, validateInput_of hi hg, hsp]

/-- the state change of `apply_input` + `delete_output_pos_height` -/
def dropLeaf (S : TxHS) (c pos : Nat) : TxHS :=
  ({ S with leafSet := S.leafSet.filter (fun i => !(i == pos)) } : TxHS).deleteOutputPos c

theorem applyInput_ok {S S' : TxHS} {c : Nat} {cp : CommitPos} (h : S.applyInput c cp = .ok S') :
    cp.pos ∈ S.leafSet ∧ S' = S.dropLeaf c cp.pos := by
  unfold applyInput at h
  by_cases hm : cp.pos ∈ S.leafSet
  · simp only [List.contains_eq_mem, hm, decide_true, if_true] at h
    injection h with h
    exact ⟨hm, h.symm⟩
  · simp [hm] at h

theorem applyInput_of {S : TxHS} {c : Nat} {cp : CommitPos} (hm : cp.pos ∈ S.leafSet) :
    S.applyInput c cp = .ok (S.dropLeaf c cp.pos) := by
  unfold applyInput dropLeaf
  simp [hm]

theorem dropLeaf_leafSet (S : TxHS) (c pos i : Nat) :
    i ∈ (S.dropLeaf c pos).leafSet ↔ i ∈ S.leafSet ∧ i ≠ pos := by
  unfold dropLeaf
  simp

theorem dropLeaf_index (S : TxHS) (c pos c' : Nat) :
    (S.dropLeaf c pos).getOutputPos c' = if c' = c then none else S.getOutputPos c' := by
  unfold dropLeaf
  rw [getOutputPos_delete]
  rfl

theorem dropLeaf_rinv {S : TxHS} (hi : RInv S) {c : Nat} {cp : CommitPos}
    (hg : S.getOutputPos c = some cp) : RInv (S.dropLeaf c cp.pos) := by
  refine ⟨?_, ?_, ?_⟩
  · intro i h
    exact hi.bound i ((dropLeaf_leafSet S c cp.pos i).mp h).1
  · intro i h c' hc'
    obtain ⟨h1, h2⟩ := (dropLeaf_leafSet S c cp.pos i).mp h
    have hc'' : S.leaves[i]? = some c' := hc'
    obtain ⟨h', e⟩ := hi.indexed i h1 c' hc''
    rw [dropLeaf_index]
    have hne : c' ≠ c := by
      intro heq; subst heq
      rw [hg] at e
      injection e with e
      exact h2 (by rw [e])
    rw [if_neg hne]
    exact ⟨h', e⟩
  · intro c' cp' hg'
    rw [dropLeaf_index] at hg'
    by_cases hc : c' = c
    · rw [if_pos hc] at hg'; cases hg'
    · rw [if_neg hc] at hg'
      obtain ⟨h1, h2⟩ := hi.points c' cp' hg'
      refine ⟨(dropLeaf_leafSet S c cp.pos cp'.pos).mpr ⟨h1, ?_⟩, h2⟩
      intro heq
      have h3 := (hi.points c cp hg).2
      rw [heq] at h2
      rw [h2] at h3
      injection h3 with h3
      exact hc h3

/-- what the input loop of `apply_block` did, given that it succeeded -/
structure InsApplied (S S2 : TxHS) (sp : List (Nat × CommitPos)) : Prop where
  rinv : RInv S2
  leaves : S2.leaves = S.leaves
  leafSet : ∀ i, i ∈ S2.leafSet ↔ i ∈ S.leafSet ∧ i ∉ sp.map (·.2.pos)
  index : ∀ c, S2.getOutputPos c = if c ∈ sp.map (·.1) then none else S.getOutputPos c
  wasUnspent : ∀ x ∈ sp, S.getOutputPos x.1 = some x.2
  nodup : (sp.map (·.1)).Nodup
  spentIdx : S2.spentIdx = S.spentIdx

theorem applyInputs_ok (sp : List (Nat × CommitPos)) : ∀ {S S2 : TxHS}, RInv S →
    (∀ x ∈ sp, S.getOutputPos x.1 = some x.2 ∨ x.2.pos ∉ S.leafSet) →
    S.applyInputs sp = .ok S2 → InsApplied S S2 sp := by
  induction sp with
  | nil =>
    intro S S2 hi _ hr
    simp only [applyInputs] at hr
    injection hr with hr
    subst hr
    exact ⟨hi, rfl, by simp, by simp, fun x hx => (by cases hx), List.nodup_nil, rfl⟩
  | cons x xs ih =>
    intro S S2 hi hyp hr
    simp only [applyInputs] at hr
    cases h1 : S.applyInput x.1 x.2 with
    | error e => rw [h1] at hr; cases hr
    | ok S' =>
      rw [h1] at hr
      obtain ⟨hm, hS'⟩ := applyInput_ok h1
      have hgx : S.getOutputPos x.1 = some x.2 := by
        rcases hyp x (List.mem_cons_self ..) with h | h
        · exact h
        · exact absurd hm h
      have hi' : RInv S' := hS' ▸ dropLeaf_rinv hi hgx
      have hyp' : ∀ y ∈ xs, S'.getOutputPos y.1 = some y.2 ∨ y.2.pos ∉ S'.leafSet := by
        intro y hy
        rw [hS', dropLeaf_index, dropLeaf_leafSet]
        rcases hyp y (List.mem_cons_of_mem _ hy) with h | h
        · by_cases hc : y.1 = x.1
          · right
            rw [hc, hgx] at h
            injection h with h
            intro hcon
            exact hcon.2 (by rw [h])
          · left; rw [if_neg hc]; exact h
        · right; exact fun hcon => h hcon.1
      have B := ih hi' hyp' hr
      have hne : ∀ y ∈ xs, y.1 ≠ x.1 := by
        intro y hy hc
        have := B.wasUnspent y hy
        rw [hS', dropLeaf_index, if_pos hc] at this
        cases this
      refine ⟨B.rinv, ?_, ?_, ?_, ?_, ?_, ?_⟩
      · rw [B.leaves, hS']; rfl
      · intro i
        rw [B.leafSet i, hS', dropLeaf_leafSet]
        simp only [List.map_cons, List.mem_cons, not_or]
        constructor
        · rintro ⟨⟨a, b⟩, c⟩; exact ⟨a, b, c⟩
        · rintro ⟨a, b, c⟩; exact ⟨⟨a, b⟩, c⟩
      · intro c
        rw [B.index c, hS', dropLeaf_index]
        simp only [List.map_cons, List.mem_cons]
        by_cases h1 : c ∈ xs.map (·.1)
        · simp [h1]
        · by_cases h2 : c = x.1
          · simp [h2]
          · simp [h1, h2]
      · intro y hy
        rcases List.mem_cons.mp hy with hy | hy
        · subst hy; exact hgx
        · have := B.wasUnspent y hy
          rw [hS', dropLeaf_index, if_neg (hne y hy)] at this
          exact this
      · simp only [List.map_cons]
        refine List.nodup_cons.mpr ⟨?_, B.nodup⟩
        intro hm'
        obtain ⟨y, hy, hyx⟩ := List.mem_map.mp hm'
        exact hne y hy hyx
      · rw [B.spentIdx, hS']; rfl

end TxHS
end GV.Chain
