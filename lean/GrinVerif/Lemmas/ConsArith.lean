import GrinVerif.Model.Cons
/-! Helper lemmas for property C04: values of / relations between the regenerated consensus
constants (closed by `decide`, so a changed constant re-runs them), and arithmetic facts about
`damp`, `clamp`, the window padding and the wrapping helpers. -/
namespace GV.Cons
open GV GV.Gen

/-! ### relations between the generated constants the theorems rely on -/

theorem BLOCK_TIME_SEC_pos : 0 < BLOCK_TIME_SEC := by decide
theorem DMA_WINDOW_pos : 0 < DMA_WINDOW := by decide
theorem CLAMP_FACTOR_pos : 1 ≤ CLAMP_FACTOR := by decide
theorem DMA_DAMP_FACTOR_pos : 1 ≤ DMA_DAMP_FACTOR := by decide
theorem AR_SCALE_DAMP_FACTOR_pos : 1 ≤ AR_SCALE_DAMP_FACTOR := by decide
theorem MIN_DMA_DIFFICULTY_pos : 1 ≤ MIN_DMA_DIFFICULTY := by decide
theorem MIN_AR_SCALE_pos : 1 ≤ MIN_AR_SCALE := by decide
theorem BTW_div_clamp_pos : 1 ≤ BLOCK_TIME_WINDOW / CLAMP_FACTOR := by decide
theorem BTW_mul_clamp_lt : BLOCK_TIME_WINDOW * CLAMP_FACTOR < 2^64 := by decide
theorem damp_goal_lt : (DMA_DAMP_FACTOR - 1) * BLOCK_TIME_WINDOW < 2^64 := by decide
theorem WTEMA_gt_BTS : BLOCK_TIME_SEC < WTEMA_HALF_LIFE := by decide
theorem WTEMA_lt : WTEMA_HALF_LIFE < 2^64 := by decide
theorem hf_interval_pos : 0 < HARD_FORK_INTERVAL := by decide
theorem testing_hf_interval_pos : 0 < TESTING_HARD_FORK_INTERVAL := by decide
theorem testnet_hf_order :
    TESTNET_FIRST_HARD_FORK < TESTNET_SECOND_HARD_FORK ∧
    TESTNET_SECOND_HARD_FORK < TESTNET_THIRD_HARD_FORK ∧
    TESTNET_THIRD_HARD_FORK < TESTNET_FOURTH_HARD_FORK := by decide
theorem testnet_first_ge : 2 ≤ TESTNET_FOURTH_HARD_FORK := by decide

/-! ### current values (used to discharge linear arithmetic; a changed constant breaks these
`decide`s and with them every bound proved from them, which is the intended alarm) -/

theorem BLOCK_TIME_SEC_val : BLOCK_TIME_SEC = 60 := by decide
theorem DMA_WINDOW_val : DMA_WINDOW = 60 := by decide
theorem BLOCK_TIME_WINDOW_val : BLOCK_TIME_WINDOW = 3600 := by decide
theorem CLAMP_FACTOR_val : CLAMP_FACTOR = 2 := by decide
theorem DMA_DAMP_FACTOR_val : DMA_DAMP_FACTOR = 3 := by decide
theorem AR_SCALE_DAMP_FACTOR_val : AR_SCALE_DAMP_FACTOR = 13 := by decide
theorem MIN_DMA_DIFFICULTY_val : MIN_DMA_DIFFICULTY = 3 := by decide
theorem MIN_AR_SCALE_val : MIN_AR_SCALE = 13 := by decide
theorem WTEMA_HALF_LIFE_val : WTEMA_HALF_LIFE = 14400 := by decide
theorem YEAR_HEIGHT_val : YEAR_HEIGHT = 524160 := by decide
theorem WEEK_HEIGHT_val : WEEK_HEIGHT = 10080 := by decide
theorem HARD_FORK_INTERVAL_val : HARD_FORK_INTERVAL = 262080 := by decide
theorem TESTING_HARD_FORK_INTERVAL_val : TESTING_HARD_FORK_INTERVAL = 3 := by decide

/-! ### wrapping helpers coincide with the mathematical operation in range -/

theorem addW_eq {a b : Nat} (h : a + b < 2^64) : addW a b = a + b := by
  simp [addW, Nat.mod_eq_of_lt h]

theorem mulW_eq {a b : Nat} (h : a * b < 2^64) : mulW a b = a * b := by
  simp [mulW, Nat.mod_eq_of_lt h]

theorem subW_eq {a b : Nat} (hb : b ≤ a) (ha : a < 2^64) : subW a b = a - b := by
  have hb' : b < 2^64 := by omega
  unfold subW
  rw [Nat.mod_eq_of_lt hb']
  omega

theorem addW_lt (a b : Nat) : addW a b < 2^64 := by
  unfold addW; exact Nat.mod_lt _ (by decide)

theorem mulW_lt (a b : Nat) : mulW a b < 2^64 := by
  unfold mulW; exact Nat.mod_lt _ (by decide)

theorem subW_lt (a b : Nat) : subW a b < 2^64 := by
  unfold subW; exact Nat.mod_lt _ (by decide)

/-! ### `damp`, `clamp` -/

theorem damp_some {a g f : Nat} (hf : f ≠ 0) :
    damp a g f = some (addW a (mulW (subW f 1) g) / f) := by
  simp [damp, hf]

theorem clamp_some {a g f : Nat} (hf : f ≠ 0) :
    clamp a g f = some (max (g / f) (min a (mulW g f))) := by
  simp [clamp, hf]

/-- the result of `clamp` lies between `goal / factor` and `max (goal / factor) (goal * factor)` -/
theorem clamp_bounds {a g f r : Nat} (h : clamp a g f = some r) :
    g / f ≤ r ∧ r ≤ max (g / f) (mulW g f) := by
  unfold clamp at h
  split at h
  · cases h
  · injection h with h
    subst h
    constructor
    · exact Nat.le_max_left _ _
    · apply Nat.max_le.mpr
      exact ⟨Nat.le_max_left _ _, Nat.le_trans (Nat.min_le_right _ _) (Nat.le_max_right _ _)⟩

/-- `clamp` is monotone in the value being clamped -/
theorem clamp_mono {a a' g f r r' : Nat} (haa : a ≤ a') (h : clamp a g f = some r)
    (h' : clamp a' g f = some r') : r ≤ r' := by
  by_cases hf : f = 0
  · simp [clamp, hf] at h
  · rw [clamp_some hf] at h h'
    injection h with h; injection h' with h'
    subst h; subst h'
    omega

/-! ### window padding -/

theorem padWindow_length (ct : ChainType) (delta diff k ts : Nat) :
    (padWindow ct delta diff k ts).length = k := by
  induction k generalizing ts with
  | zero => simp [padWindow]
  | succ k ih => simp [padWindow, ih]

theorem padWindow_diff (ct : ChainType) (delta diff k ts : Nat) :
    ∀ e ∈ padWindow ct delta diff k ts, e.diff = diff ∧ e.isSec = true ∧ e.scaling = initialGraphWeight ct := by
  induction k generalizing ts with
  | zero => simp [padWindow]
  | succ k ih =>
    intro e he
    simp only [padWindow, List.mem_cons] at he
    rcases he with rfl | he
    · simp
    · exact ih _ e he

/-- `difficulty_data_to_vector` never fails on a non-empty cursor and always returns exactly
`DMA_WINDOW + 1` entries -/
theorem difficultyDataToVector_length (ct : ChainType) (cursor : List HDI) (hne : cursor ≠ []) :
    ∃ data, difficultyDataToVector ct cursor = some data ∧ data.length = DMA_WINDOW + 1 := by
  unfold difficultyDataToVector
  simp only
  by_cases hlt : DMA_WINDOW + 1 > (cursor.take (DMA_WINDOW + 1)).length
  · rw [if_pos hlt]
    cases hc : cursor.take (DMA_WINDOW + 1) with
    | nil =>
      cases cursor with
      | nil => exact absurd rfl hne
      | cons a t => simp [List.take] at hc
    | cons h0 rest =>
      refine ⟨_, rfl, ?_⟩
      rw [hc] at hlt
      simp only [List.length_reverse, List.length_append, padWindow_length, List.length_cons] at hlt ⊢
      omega
  · rw [if_neg hlt]
    refine ⟨_, rfl, ?_⟩
    have := List.length_take_le (DMA_WINDOW + 1) cursor
    simp only [List.length_reverse]
    omega

/-- with a full window nothing is padded: the vector is the first `DMA_WINDOW + 1` entries reversed -/
theorem difficultyDataToVector_full (ct : ChainType) (cursor : List HDI)
    (h : DMA_WINDOW + 1 ≤ cursor.length) :
    difficultyDataToVector ct cursor = some (cursor.take (DMA_WINDOW + 1)).reverse := by
  unfold difficultyDataToVector
  simp only
  have : (cursor.take (DMA_WINDOW + 1)).length = DMA_WINDOW + 1 := by
    rw [List.length_take]; omega
  rw [if_neg (by omega)]

/-! ### header versions -/

theorem hfVersion_le (h i : Nat) : hfVersion h i ≤ 5 := by
  unfold hfVersion; exact Nat.min_le_left _ _

theorem headerVersion_le (ct : ChainType) (h : Nat) : headerVersion ct h ≤ 5 := by
  unfold headerVersion
  cases ct <;> simp only [hfVersion_le]
  repeat' split
  all_goals omega

/-- version 5 (WTEMA era) is only ever scheduled at heights ≥ 4 intervals ≥ 4 -/
theorem hfVersion_ge5 {h i : Nat} (hi : 0 < i) (hv : 5 ≤ hfVersion h i) : 4 * i ≤ h := by
  unfold hfVersion at hv
  have h1 : 5 ≤ (1 + h / i) % 2^16 := by omega
  have h2 : (1 + h / i) % 2^16 ≤ 1 + h / i := Nat.mod_le _ _
  have h3 : 4 ≤ h / i := by omega
  have := (Nat.le_div_iff_mul_le hi).mp h3
  omega

theorem headerVersion_ge5 {ct : ChainType} {h : Nat} (hv : 5 ≤ headerVersion ct h) : 2 ≤ h := by
  unfold headerVersion at hv
  cases ct with
  | mainnet =>
    have := hfVersion_ge5 hf_interval_pos hv
    have := hf_interval_pos; omega
  | automatedTesting =>
    have := hfVersion_ge5 testing_hf_interval_pos hv
    have := testing_hf_interval_pos; omega
  | userTesting =>
    have := hfVersion_ge5 testing_hf_interval_pos hv
    have := testing_hf_interval_pos; omega
  | testnet =>
    simp only at hv
    have := testnet_first_ge
    have := testnet_hf_order
    repeat' split at hv
    all_goals omega

end GV.Cons
