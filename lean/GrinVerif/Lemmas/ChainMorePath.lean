import GrinVerif.Lemmas.ChainValid
import GrinVerif.Lemmas.ChainApply
/-! The path of a block that is valid on its own path (`VOP`), made explicit: `Node.path` succeeds
(the fuel of `pathTo` is enough), the path is the genesis followed by blocks that each passed body
validation and `applyBlock` against the replay of the blocks before it, heights are consecutive,
and `Node.stateAt` is the replay of exactly that list. Lifted to the head of every node reached by
a delivery history: **the state every head-facing decision reads is the replay of the current
head's own path, whatever was applied, rewound or refused before.** -/
namespace GV.Chain

/-- `l` is the chain of registered definitions from a parentless block up to `id`, root first -/
inductive IsPath (n : Node) : Nat → List Blk → Prop
  | root (id : Nat) (b : Blk) : n.blk id = some b → b.parent = none → IsPath n id [b]
  | child (id : Nat) (b : Blk) (par : Nat) (l : List Blk) : n.blk id = some b →
      b.parent = some par → IsPath n par l → IsPath n id (l ++ [b])

theorem pathTo_of_isPath {n : Node} {id : Nat} {l : List Blk} (h : IsPath n id l) :
    ∀ (fuel : Nat) (acc : List Blk), l.length ≤ fuel → pathTo n fuel id acc = some (l ++ acc) := by
  induction h with
  | root id b hb hp =>
    intro fuel acc hl
    cases fuel with
    | zero => simp at hl
    | succ k => simp [pathTo, hb, hp]
  | child id b par l hb hp _ ih =>
    intro fuel acc hl
    cases fuel with
    | zero => simp at hl
    | succ k =>
      simp only [List.length_append, List.length_cons, List.length_nil] at hl
      simp only [pathTo, hb, hp]
      rw [ih k (b :: acc) (by omega)]
      simp

theorem IsPath.last {n : Node} {id : Nat} {l : List Blk} (h : IsPath n id l) :
    ∃ b, n.blk id = some b ∧ l.getLast? = some b := by
  cases h with
  | root _ b hb _ => exact ⟨b, hb, rfl⟩
  | child _ b _ l hb _ _ => exact ⟨b, hb, List.getLast?_concat⟩

theorem IsPath.mem_blks {n : Node} {id : Nat} {l : List Blk} (h : IsPath n id l) :
    ∀ x ∈ l, x ∈ n.blks := by
  induction h with
  | root id b hb _ =>
    intro x hx
    have : x = b := by simpa using hx
    exact this ▸ blk_mem hb
  | child id b par l hb _ _ ih =>
    intro x hx
    rcases List.mem_append.mp hx with h | h
    · exact ih x h
    · have : x = b := by simpa using h
      exact this ▸ blk_mem hb

/-- every element of a path is the registered definition of its own id -/
theorem IsPath.registered {n : Node} {id : Nat} {l : List Blk} (h : IsPath n id l) :
    ∀ x ∈ l, n.blk x.id = some x := by
  induction h with
  | root id b hb _ =>
    intro x hx
    have : x = b := by simpa using hx
    subst this
    rw [blk_id hb]; exact hb
  | child id b par l hb _ _ ih =>
    intro x hx
    rcases List.mem_append.mp hx with h | h
    · exact ih x h
    · have : x = b := by simpa using h
      subst this
      rw [blk_id hb]; exact hb

theorem replay_append (p : Params) (xs ys : List Blk) : ∀ (s : UState),
    replay p s (xs ++ ys) = match replay p s xs with
      | .error e => .error e
      | .ok s1 => replay p s1 ys := by
  induction xs with
  | nil => intro s; rfl
  | cons x xs ih =>
    intro s
    simp only [List.cons_append, replay]
    cases applyBlock p s x with
    | error e => rfl
    | ok s1 => exact ih s1

/-- the height recorded in a replayed state is the height of the last block applied -/
theorem replay_height (p : Params) (bs : List Blk) : ∀ (s s' : UState), replay p s bs = .ok s' →
    s'.height = ((bs.getLast?).map (·.h)).getD s.height := by
  induction bs with
  | nil =>
    intro s s' h
    simp only [replay] at h
    injection h with h
    subst h; rfl
  | cons b bs ih =>
    intro s s' h
    simp only [replay] at h
    cases h1 : applyBlock p s b with
    | error e => rw [h1] at h; cases h
    | ok s1 =>
      rw [h1] at h
      have he := (applyBlock_ok p s s1 b h1).2.2.2.2
      rw [ih s1 s' h]
      cases bs with
      | nil => simp [he, effects]
      | cons c cs =>
        rw [List.getLast?_cons_cons]
        cases hl : (c :: cs).getLast? with
        | none => simp at hl
        | some x => rfl

/-- what is known about the path of a block that is valid on its own path -/
structure HeadPath (p : Params) (n : Node) (g : Blk) (id : Nat) (rest : List Blk) (s : UState) :
    Prop where
  isPath : IsPath n id (g :: rest)
  path : n.path id = some (g :: rest)
  replay : replay p (genesisState g) rest = .ok s
  state : n.stateAt p id = .ok s
  heights : (g :: rest).map (·.h) = List.range' g.h (rest.length + 1)
  valid : ∀ b ∈ rest, validateBody p n.outs b (sumVals n.outs b.ins) = none ∧ HdrOk p n b ∧
    VOP p n b.id

theorem path_of_isPath {n : Node} {id : Nat} {l : List Blk} (h : IsPath n id l)
    (hh : (l.map (·.h)).Nodup) : n.path id = some l := by
  have hlen : l.length ≤ n.blks.length := by
    have := List.Nodup.length_le_of_subset hh (l₂ := n.blks.map (·.h)) (by
      intro x hx
      obtain ⟨y, hy, hyx⟩ := List.mem_map.mp hx
      exact List.mem_map.mpr ⟨y, h.mem_blks y hy, hyx⟩)
    simpa using this
  have := pathTo_of_isPath h (n.blks.length + 1) [] (by omega)
  simpa [Node.path] using this

theorem stateAt_of_path {n : Node} {p : Params} {id : Nat} {g : Blk} {rest : List Blk}
    (h : n.path id = some (g :: rest)) : n.stateAt p id = replay p (genesisState g) rest := by
  simp [Node.stateAt, h]

/-- **the path of a block valid on its own path** -/
theorem vop_headPath (p : Params) (n : Node) (g : Blk) (hg : n.blk 0 = some g)
    (hgp : g.parent = none) {id : Nat} (h : VOP p n id) : ∃ rest s, HeadPath p n g id rest s := by
  induction h with
  | genesis =>
    have hip : IsPath n 0 [g] := .root 0 g hg hgp
    have hpath : n.path 0 = some [g] := path_of_isPath hip (by simp)
    exact ⟨[], genesisState g, hip, hpath, rfl, by rw [stateAt_of_path hpath]; rfl, by simp,
      fun b hb => by cases hb⟩
  | child b par s' hb hpar hv hdr hc ih =>
    obtain ⟨rest, s, H⟩ := ih
    obtain ⟨sPar, hst, hvb, hab⟩ := checkBlock_ok p n b par s' hc
    have hs : sPar = s := by
      have := hst.symm.trans H.state
      injection this
    subst hs
    have hip : IsPath n b.id (g :: (rest ++ [b])) := .child b.id b par (g :: rest) hb hpar H.isPath
    -- the parent's definition is the last element of the parent's path: heights are consecutive
    obtain ⟨par', pb, hpar', hpb, hh, _⟩ := hdr
    rw [hpar] at hpar'
    cases hpar'
    obtain ⟨pb', hpb', hlast⟩ := H.isPath.last
    rw [hpb] at hpb'
    cases hpb'
    have hpbh : pb.h = g.h + rest.length := by
      have h1 : ((g :: rest).map (·.h)).getLast? = some pb.h := by
        rw [List.getLast?_map, hlast]; rfl
      rw [H.heights, List.getLast?_range'] at h1
      simp only [Nat.add_one_ne_zero, if_false] at h1
      injection h1 with h1
      omega
    have hheights : (g :: (rest ++ [b])).map (·.h) = List.range' g.h ((rest ++ [b]).length + 1) := by
      have e : (g :: (rest ++ [b])).map (·.h) = (g :: rest).map (·.h) ++ [b.h] := by simp
      rw [e, H.heights, List.length_append, List.length_cons, List.length_nil,
        List.range'_1_concat (n := rest.length + 1), hh, hpbh]
      simp only [Nat.add_assoc]
    have hpath : n.path b.id = some (g :: (rest ++ [b])) :=
      path_of_isPath hip (by rw [hheights]; exact List.nodup_range' 1)
    have hrep : replay p (genesisState g) (rest ++ [b]) = .ok s' := by
      rw [replay_append, H.replay]
      simp only [replay, hab]
    refine ⟨rest ++ [b], s', hip, hpath, hrep, by rw [stateAt_of_path hpath]; exact hrep, hheights,
      ?_⟩
    intro x hx
    rcases List.mem_append.mp hx with h | h
    · exact H.valid x h
    · have : x = b := by simpa using h
      subst this
      exact ⟨hvb, ⟨par, pb, hpar, hpb, hh, by assumption⟩, .child x par s' hb hpar hv
        ⟨par, pb, hpar, hpb, hh, by assumption⟩ hc⟩

/-- with the genesis at height 0 the height of the replayed state is the number of blocks above the
genesis, and the k-th block of the path has height k -/
theorem HeadPath.height_eq {p : Params} {n : Node} {g : Blk} {id : Nat} {rest : List Blk}
    {s : UState} (H : HeadPath p n g id rest s) (hg0 : g.h = 0) : s.height = rest.length := by
  rw [replay_height p rest _ s H.replay]
  have h1 := H.heights
  cases hl : rest.getLast? with
  | none =>
    have : rest = [] := List.getLast?_eq_none_iff.mp hl
    subst this; rfl
  | some x =>
    have h2 : ((g :: rest).map (·.h)).getLast? = some x.h := by
      rw [List.getLast?_map]
      cases rest with
      | nil => cases hl
      | cons a as => rw [List.getLast?_cons_cons, hl]; rfl
    rw [h1, List.getLast?_range'] at h2
    simp only [Nat.add_one_ne_zero, if_false] at h2
    injection h2 with h2
    simp only [genesisState, Option.map_some, Option.getD_some]
    omega

theorem HeadPath.height_at {p : Params} {n : Node} {g : Blk} {id : Nat} {rest : List Blk}
    {s : UState} (H : HeadPath p n g id rest s) (k : Nat) (x : Blk)
    (hk : (g :: rest)[k]? = some x) : x.h = g.h + k := by
  have h1 : ((g :: rest).map (·.h))[k]? = some x.h := by
    rw [List.getElem?_map, hk]; rfl
  rw [H.heights] at h1
  have hlt : k < rest.length + 1 := by
    have := (List.getElem?_eq_some_iff.mp h1).1
    simpa using this
  rw [List.getElem?_range' hlt] at h1
  injection h1 with h1
  omega

/-- the registered height of the block is the genesis height plus the number of blocks above it -/
theorem HeadPath.heightOf_eq {p : Params} {n : Node} {g : Blk} {id : Nat} {rest : List Blk}
    {s : UState} (H : HeadPath p n g id rest s) : n.heightOf id = g.h + rest.length := by
  obtain ⟨b, hbk, hlast⟩ := H.isPath.last
  have hk : (g :: rest)[rest.length]? = some b := by
    rw [← hlast, List.getLast?_eq_getElem?]; simp
  have := H.height_at rest.length b hk
  simp only [Node.heightOf, hbk]
  exact this

/-- **the head after any delivery history**: from a fresh node over any block tree, after any
finite history of block and header deliveries (forks, reorganisations, orphans, duplicates,
refused blocks), the path of the current head is the genesis followed by blocks that each passed
validation against the replay of the blocks before them, and the state every head-facing
decision reads (`stateAt head`) is the replay of exactly that path. -/
theorem head_path_after_run (p : Params) (n : Node) (es : List Event) (hf : Fresh n)
    (hreg : Registered n es) (g : Blk) (hg : n.blk 0 = some g) :
    ∃ rest s, HeadPath p n g (run p n es).head rest s ∧
      (run p n es).stateAt p (run p n es).head = .ok s := by
  have hi := run_preserved (preserved_inv p) n es hreg (hf.inv p)
  have hdf := run_defs p n es
  have hv : VOP p n (run p n es).head :=
    (VOP_congr hdf.2 hdf.1 p _).mp (hi.2.valid _ hi.2.closed.head)
  obtain ⟨rest, s, H⟩ := vop_headPath p n g hg (hf.genesis g hg) hv
  exact ⟨rest, s, H, by rw [stateAt_congr hdf.1]; exact H.state⟩

/-- … and every block of that path is stored -/
theorem head_path_stored (p : Params) (n : Node) (es : List Event) (hf : Fresh n)
    (hreg : Registered n es) (g : Blk) (rest : List Blk) (s : UState)
    (H : HeadPath p n g (run p n es).head rest s) : ∀ b ∈ g :: rest, b.id ∈ (run p n es).stored := by
  have hi := run_preserved (preserved_inv p) n es hreg (hf.inv p)
  have hdf := run_defs p n es
  have hcl := hi.2.closed
  -- closure under parents, walked down the path
  have key : ∀ (id : Nat) (l : List Blk), IsPath n id l → id ∈ (run p n es).stored →
      ∀ b ∈ l, b.id ∈ (run p n es).stored := by
    intro id l hp
    induction hp with
    | root id b hb _ =>
      intro hs x hx
      have : x = b := by simpa using hx
      subst this
      rw [blk_id hb]; exact hs
    | child id b par l hb hpar _ ih =>
      intro hs x hx
      rcases List.mem_append.mp hx with h | h
      · exact ih (hcl.parent id hs b par (by rw [blk_congr hdf.1]; exact hb) hpar) x h
      · have : x = b := by simpa using h
        subst this
        rw [blk_id hb]; exact hs
  exact key _ _ H.isPath hcl.head

end GV.Chain
