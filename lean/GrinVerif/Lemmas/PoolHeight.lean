import GrinVerif.Lemmas.PoolBucket
/-! Height-dependent admission checks (`verify_tx_lock_height`, `verify_coinbase_maturity`, the NRD
part of `validate_tx`): all three refer to the height of the NEXT block on the BODY head
(`c.head.height + 1`); the header head does not occur in the model at all.  Refusal of
transactions without kernels. -/
namespace GV.Pool

/-- lock height beyond the next block: refused, pool unchanged -/
theorem addCore_refuses_locked {c : Ctx} {s : TxPool} (src : Src) (tx : Tx) (stem stemOk : Bool)
    (hl : ∀ e, entryOf s src tx stem = .ok e → e.tx.lockHeight > c.head.height + 1) :
    ∃ er, s.addCore c src tx stem stemOk = (s, some er) := by
  unfold TxPool.addCore
  split
  · exact ⟨_, rfl⟩
  split
  · exact ⟨_, rfl⟩
  rename_i entry hentry
  simp only []
  split
  · exact ⟨_, rfl⟩
  split
  · rename_i hacc
    cases hs : s.isAcceptable c entry.tx stem with
    | none => rw [hs] at hacc; simp at hacc
    | some er => exact ⟨er, rfl⟩
  split
  · exact ⟨_, rfl⟩
  split
  · exact ⟨_, rfl⟩
  · rename_i hno
    exact absurd (hl entry hentry) hno

/-- a successful `locate_spends` returns every input that is not an output of the pool among the
outputs to be looked up in the utxo set -/
theorem locateSpends_ok_mem {c : Ctx} {p : Pool} {t : Tx} {extra : Option Tx} {i : Nat} {sp su : List Nat}
    (h : p.locateSpends c t extra = .ok (sp, su)) (hi : i ∈ t.ins)
    (hp : i ∉ allOuts (p.txs ++ extra.toList)) : i ∈ su := by
  unfold Pool.locateSpends at h
  split at h
  · simp at h
  · rename_i agg hagg
    have hout : ∀ a, agg = some a → i ∉ a.outs := by
      intro a0 ha0
      rcases allAggregate_ok hagg with ⟨h1, h2⟩ | ⟨a, h1, h2⟩
      · subst h1; subst h2; subst ha0
        simpa using hp
      · subst h2
        simp only [Option.some.injEq] at ha0
        subst ha0
        exact fun hm => hp (aggregate_outs_subset h1 i hm)
    have key : ∀ outs : List Nat, i ∉ outs → ∀ su' so, cutThrough t.ins outs = .ok (su', so) → i ∈ su' := by
      intro outs hno su' so hct
      have hc := (cutThrough_ok hct).1 i
      rw [List.count_eq_zero.mpr hno] at hc
      have hp' : 0 < t.ins.count i := List.count_pos_iff.mpr hi
      exact List.count_pos_iff.mp (by omega)
    cases agg with
    | none =>
      simp only [] at h
      split at h
      · simp at h
      · rename_i su' so hct
        split at h
        · simp only [Except.ok.injEq, Prod.mk.injEq] at h
          rw [← h.2]; exact key [] (by simp) su' so hct
        · simp at h
    | some a =>
      simp only [] at h
      split at h
      · simp at h
      · rename_i su' so hct
        split at h
        · simp only [Except.ok.injEq, Prod.mk.injEq] at h
          rw [← h.2]; exact key a.outs (hout a rfl) su' so hct
        · simp at h

/-- a coinbase output of the head that is not mature at the NEXT block of the body head, spent
directly (not through the pool): refused, pool unchanged -/
theorem addCore_refuses_immature {c : Ctx} {s : TxPool} (src : Src) (tx : Tx) (stem stemOk : Bool)
    (him : ∀ e, entryOf s src tx stem = .ok e → ∃ i ∈ e.tx.ins, ∃ x h, c.head.find i = some (x, h, true) ∧
      c.head.height + 1 < h + c.cfg.maturity ∧ i ∉ allOuts s.txpool.txs ∧ (stem = true → i ∉ allOuts s.stempool.txs)) :
    ∃ er, s.addCore c src tx stem stemOk = (s, some er) := by
  unfold TxPool.addCore
  split
  · exact ⟨_, rfl⟩
  split
  · exact ⟨_, rfl⟩
  rename_i entry hentry
  simp only []
  split
  · exact ⟨_, rfl⟩
  split
  · rename_i hacc
    cases hs : s.isAcceptable c entry.tx stem with
    | none => rw [hs] at hacc; simp at hacc
    | some er => exact ⟨er, rfl⟩
  split
  · exact ⟨_, rfl⟩
  split
  · exact ⟨_, rfl⟩
  split
  · exact ⟨_, rfl⟩
  rename_i extra hextra
  split
  · exact ⟨_, rfl⟩
  · rename_i sp su hloc
    obtain ⟨i, hi, x, h, hf, hlt, htp, hsp⟩ := him entry hentry
    have hmem : i ∈ su := by
      cases stem with
      | false =>
        simp only [Bool.false_eq_true, if_false] at hloc
        exact locateSpends_ok_mem hloc hi (by simpa using htp)
      | true =>
        simp only [if_true] at hloc hextra
        refine locateSpends_ok_mem hloc hi ?_
        rw [allOuts_append, List.mem_append]
        rintro (hh | hh)
        · exact hsp rfl hh
        · exact htp (allAggregate_outs_subset hextra i hh)
    have : immatureCoinbase c su = true := by
      unfold immatureCoinbase
      rw [List.any_eq_true]
      exact ⟨i, hmem, by simp [hf, hlt]⟩
    simp [this]

/-- the kernels of an aggregate include the kernels of its parts -/
theorem aggregate_kers_mem {txs : List Tx} {a : Tx} (h : aggregate txs = .ok a) :
    ∀ t ∈ txs, ∀ k ∈ t.kers, k ∈ a.kers := by
  intro t ht k hk
  match txs, h with
  | [], h => simp at ht
  | [x], h =>
    simp only [aggregate, Except.ok.injEq] at h
    subst h
    simp only [List.mem_singleton] at ht
    subst ht; exact hk
  | t1 :: t2 :: rest, h =>
    simp only [aggregate] at h
    split at h
    · simp at h
    · simp only [Except.ok.injEq] at h
      subst h
      exact List.mem_flatMap.mpr ⟨t, ht, hk⟩

theorem nrdTooRecent_mono {c : Ctx} {t a : Tx} (hk : ∀ k ∈ t.kers, k ∈ a.kers) (h : nrdTooRecent c t = true) :
    nrdTooRecent c a = true := by
  unfold nrdTooRecent at h ⊢
  rw [List.any_eq_true] at h ⊢
  obtain ⟨k, hk', hp⟩ := h
  exact ⟨k, hk k hk', hp⟩

/-- `Pool::add_to_pool` fails for an entry with an NRD kernel that is too recent for the next block -/
theorem addToPool_nrd_error {c : Ctx} {p : Pool} {e : Entry} {extra : Option Tx}
    (hen : c.cfg.nrdEnabled = true)
    (h : nrdTooRecent c e.tx = true) : ∃ er, Pool.addToPool c p e extra = .error er := by
  unfold Pool.addToPool
  split
  · exact ⟨_, rfl⟩
  · split
    · exact ⟨_, rfl⟩
    · rename_i agg hagg
      have hn : nrdTooRecent c agg = true :=
        nrdTooRecent_mono (aggregate_kers_mem hagg e.tx (by simp)) h
      have : validateRawTx c .noLimit agg ≠ none := by
        unfold validateRawTx
        split
        · simp
        · unfold chainValidateTx
          split
          · simp
          · split
            · simp
            · simp [hn, hen]
      split
      · exact ⟨_, rfl⟩
      · rename_i hv; exact absurd hv this

/-- a kernel that is too recent is an NRD kernel -/
theorem hasNrd_of_nrdTooRecent {c : Ctx} {t : Tx} (h : nrdTooRecent c t = true) : t.hasNrd = true := by
  unfold nrdTooRecent at h
  unfold Tx.hasNrd
  rw [List.any_eq_true] at h ⊢
  obtain ⟨k, hk, hp⟩ := h
  refine ⟨k, hk, ?_⟩
  cases hker : k.ker <;> simp_all

/-- an NRD kernel repeating an excess seen fewer than its relative height blocks before the NEXT
block of the body head: refused, pool unchanged -/
theorem addCore_refuses_nrd {c : Ctx} {s : TxPool} (src : Src) (tx : Tx) (stem stemOk : Bool)
    (hn : ∀ e, entryOf s src tx stem = .ok e → nrdTooRecent c e.tx = true) :
    ∃ er, s.addCore c src tx stem stemOk = (s, some er) := by
  unfold TxPool.addCore
  split
  · exact ⟨_, rfl⟩
  split
  · exact ⟨_, rfl⟩
  rename_i entry hentry
  have hnrd := hn entry hentry
  simp only []
  split
  · exact ⟨_, rfl⟩
  rename_i hvar
  -- past `verify_kernel_variants` with an NRD kernel: the feature flag is on
  have hen : c.cfg.nrdEnabled = true := by
    cases hflag : c.cfg.nrdEnabled with
    | true => rfl
    | false =>
      exfalso
      have hh := hasNrd_of_nrdTooRecent hnrd
      simp [verifyKernelVariants, hh, hflag] at hvar
  split
  · rename_i hacc
    cases hs : s.isAcceptable c entry.tx stem with
    | none => rw [hs] at hacc; simp at hacc
    | some er => exact ⟨er, rfl⟩
  split
  · exact ⟨_, rfl⟩
  split
  · exact ⟨_, rfl⟩
  split
  · exact ⟨_, rfl⟩
  rename_i extra hextra
  split
  · exact ⟨_, rfl⟩
  split
  · exact ⟨_, rfl⟩
  cases stem with
  | false =>
    simp only [Bool.false_eq_true, if_false]
    obtain ⟨er, he⟩ := addToPool_nrd_error (p := s.txpool) (extra := none) hen hnrd
    have : s.addToTxpool c entry = (s, some er) := by
      unfold TxPool.addToTxpool; rw [he]
    rw [this]; exact ⟨er, rfl⟩
  | true =>
    simp only [if_true]
    obtain ⟨er, he⟩ := addToPool_nrd_error (p := s.stempool) (extra := extra) hen hnrd
    rw [he]; exact ⟨er, rfl⟩

/-- a transaction without kernels (the empty transaction included) fails standalone validation -/
theorem validate_no_kernels {c : Ctx} {w : Weighting} {t : Tx} (hk : t.kers = []) : t.validate c w ≠ none := by
  unfold Tx.validate
  repeat (split; · simp)
  rename_i h _
  simp [hk] at h

end GV.Pool
