import GrinVerif.Lemmas.ConsNode
/-! Side branches of the header tree (property C04): what a header is validated against — its
difficulty window (`DifficultyIter`) and the header MMR its `prev_root` is compared with — is a
function of **its own ancestors** in the store, whatever else the store holds and wherever
`header_head` is.  Definitions and helper lemmas for `Props/C04Forks.lean`. -/
namespace GV.Cons
open GV GV.Gen

/-! ### the hashes a walk back from `start` looks up -/

/-- `start`, its parent, grand-parent … (`fuel` look-ups): the keys `DifficultyIter` (`windowFrom`)
and `get_previous_header` read -/
def walk (s : List FHdr) : Nat → Nat → List Nat
  | 0, _ => []
  | fuel+1, k => k :: match getHdr s k with
    | none => []
    | some f => walk s fuel f.prevHash

theorem walk_head (s : List FHdr) (n k : Nat) : k ∈ walk s (n+1) k := by
  simp [walk]

/-- two stores that agree on the `n+1` keys walked from `start` give the same difficulty window -/
theorem windowFrom_congr (s s' : List FHdr) : ∀ (n start : Nat),
    (∀ k ∈ walk s (n+1) start, getHdr s' k = getHdr s k) →
    windowFrom s' n start = windowFrom s n start := by
  intro n
  induction n with
  | zero => intro start _; simp [windowFrom]
  | succ n ih =>
    intro start h
    have h0 : getHdr s' start = getHdr s start := h start (walk_head s _ start)
    simp only [windowFrom, h0]
    cases hs : getHdr s start with
    | none => rfl
    | some f =>
      have hsub : ∀ k ∈ walk s (n+1) f.prevHash, getHdr s' k = getHdr s k := by
        intro k hk
        apply h k
        rw [show walk s (n+1+1) start = start :: (match getHdr s start with
          | none => [] | some f => walk s (n+1) f.prevHash) from rfl, hs]
        exact List.mem_cons_of_mem _ hk
      have hp : getHdr s' f.prevHash = getHdr s f.prevHash := hsub _ (walk_head s _ _)
      simp only [hp, ih f.prevHash hsub]

/-- a header whose hash is not `k` does not change what is stored under `k` -/
theorem getHdr_cons_ne (x : FHdr) (s : List FHdr) (k : Nat) (h : x.hash ≠ k) :
    getHdr (x :: s) k = getHdr s k := by
  unfold getHdr
  rw [List.find?_cons_of_neg (by simpa using h)]

theorem getHdr_append_ne (xs s : List FHdr) (k : Nat) (h : ∀ x ∈ xs, x.hash ≠ k) :
    getHdr (xs ++ s) k = getHdr s k := by
  induction xs with
  | nil => rfl
  | cons a t ih =>
    rw [List.cons_append, getHdr_cons_ne a _ k (h a (by simp))]
    exact ih (fun x hx => h x (List.mem_cons_of_mem _ hx))

/-! ### chains of stored headers -/

/-- `l` (genesis first) is a chain of stored headers: the header stored under `l[i]` has height
`i` and, above genesis, links to `l[i-1]` -/
def IsChain (s : List FHdr) (l : List Nat) : Prop :=
  ∀ i k, l[i]? = some k → ∃ f, getHdr s k = some f ∧ f.h.height = i ∧
    ∀ j, i = j + 1 → l[j]? = some f.prevHash

/-- the store only grows: what is stored under a key stays -/
def StoreLe (s s' : List FHdr) : Prop := ∀ k g, getHdr s k = some g → getHdr s' k = some g

theorem StoreLe.refl (s : List FHdr) : StoreLe s s := fun _ _ h => h

theorem StoreLe.trans {a b c : List FHdr} (h1 : StoreLe a b) (h2 : StoreLe b c) : StoreLe a c :=
  fun k g h => h2 k g (h1 k g h)

theorem isChain_mono {s s' : List FHdr} {l : List Nat} (hle : StoreLe s s') (h : IsChain s l) :
    IsChain s' l := by
  intro i k hk
  obtain ⟨f, hf, hh, hl⟩ := h i k hk
  exact ⟨f, hle k f hf, hh, hl⟩

theorem isChain_take {s : List FHdr} {l : List Nat} (m : Nat) (h : IsChain s l) :
    IsChain s (l.take m) := by
  intro i k hk
  rw [List.getElem?_take] at hk
  split at hk
  · rename_i him
    obtain ⟨f, hf, hh, hl⟩ := h i k hk
    refine ⟨f, hf, hh, ?_⟩
    intro j hj
    rw [List.getElem?_take, if_pos (by omega)]
    exact hl j hj
  · cases hk

theorem isChain_snoc {s : List FHdr} {l : List Nat} {f : FHdr} (h : IsChain s l)
    (hf : getHdr s f.hash = some f) (hh : f.h.height = l.length)
    (hl : ∀ j, l.length = j + 1 → l[j]? = some f.prevHash) : IsChain s (l ++ [f.hash]) := by
  intro i k hk
  by_cases hi : i < l.length
  · rw [List.getElem?_append_left hi] at hk
    obtain ⟨g, hg, hgh, hgl⟩ := h i k hk
    refine ⟨g, hg, hgh, ?_⟩
    intro j hj
    rw [List.getElem?_append_left (by omega)]
    exact hgl j hj
  · have hi' : i = l.length := by
      have := (List.getElem?_eq_some_iff.mp hk).1
      simp at this
      omega
    subst hi'
    rw [List.getElem?_append_right (Nat.le_refl _)] at hk
    simp at hk
    subst hk
    refine ⟨f, hf, hh, ?_⟩
    intro j hj
    rw [List.getElem?_append_left (by omega)]
    exact hl j hj

/-- a chain is determined by its last header: two chains ending in the same hash are equal -/
theorem isChain_unique {s : List FHdr} (l l' : List Nat) (h : IsChain s l) (h' : IsChain s l')
    (hne : l ≠ []) (hlast : l.getLast? = l'.getLast?) : l = l' := by
  have hpos : 0 < l.length := List.length_pos_iff.mpr hne
  obtain ⟨k, hk⟩ : ∃ k, l[l.length - 1]? = some k :=
    ⟨l[l.length - 1], List.getElem?_eq_getElem (by omega)⟩
  have hk' : l'[l'.length - 1]? = some k := by
    rw [← List.getLast?_eq_getElem?, ← hlast, List.getLast?_eq_getElem?]; exact hk
  obtain ⟨f, hf, hfh, _⟩ := h _ _ hk
  obtain ⟨f', hf', hfh', _⟩ := h' _ _ hk'
  have hff : f' = f := by rw [hf] at hf'; exact (Option.some.inj hf').symm
  subst hff
  have hpos' : 0 < l'.length := by
    cases l' with
    | nil => simp at hk'
    | cons _ _ => simp
  have hlen : l.length = l'.length := by omega
  have key : ∀ n, n < l.length → l[l.length - 1 - n]? = l'[l.length - 1 - n]? := by
    intro n
    induction n with
    | zero => intro _; rw [Nat.sub_zero, hk]; rw [hlen]; exact hk'.symm
    | succ n ih =>
      intro hn
      have hprev := ih (by omega)
      obtain ⟨x, hx⟩ : ∃ x, l[l.length - 1 - n]? = some x :=
        ⟨l[l.length - 1 - n], List.getElem?_eq_getElem (by omega)⟩
      obtain ⟨g, hg, _, hgl⟩ := h _ _ hx
      obtain ⟨g', hg', _, hgl'⟩ := h' _ _ (hprev ▸ hx)
      have hgg : g' = g := by rw [hg] at hg'; exact (Option.some.inj hg').symm
      subst hgg
      have e1 := hgl (l.length - 1 - (n + 1)) (by omega)
      have e2 := hgl' (l.length - 1 - (n + 1)) (by omega)
      rw [e1, e2]
  apply List.ext_getElem?
  intro i
  by_cases hi : i < l.length
  · have := key (l.length - 1 - i) (by omega)
    have e : l.length - 1 - (l.length - 1 - i) = i := by omega
    rw [e] at this
    exact this
  · rw [List.getElem?_eq_none (by omega), List.getElem?_eq_none (by omega)]

theorem getLast?_getD_cons (a : Nat) (l : List Nat) (d : Nat) :
    ((a :: l).getLast?).getD d = (l.getLast?).getD a := by
  cases l with
  | nil => simp
  | cons x t =>
    rw [List.getLast?_cons_cons]
    cases hv : (x :: t).getLast? with
    | none => simp at hv
    | some v => rfl

/-! ### store invariants -/

/-- every stored header above height 0 has its parent stored, one below it -/
def HLinked (s : List FHdr) : Prop :=
  ∀ k f, getHdr s k = some f → f.h.height ≠ 0 →
    ∃ p, getHdr s f.prevHash = some p ∧ f.h.height = p.h.height + 1

/-- stored heights are `u64` values -/
def HBound (s : List FHdr) : Prop := ∀ k f, getHdr s k = some f → f.h.height < 2^64

/-- the only stored header of height 0 is the genesis `g` -/
def UniqueGenesis (s : List FHdr) (g : Nat) : Prop :=
  ∀ k f, getHdr s k = some f → f.h.height = 0 → k = g

/-- the extension's MMR holds the chain of ancestors of its head -/
structure ExtInv (s : List FHdr) (e : HExt) : Prop where
  chain : IsChain s e.mmr
  len : e.mmr.length = e.head.height + 1
  last : e.mmr[e.head.height]? = some e.head.hash

/-- `l` (oldest first) is a run of stored headers on top of `p` -/
def Run (s : List FHdr) : FHdr → List Nat → Prop
  | _, [] => True
  | p, k :: ks => ∃ f, getHdr s k = some f ∧ f.prevHash = p.hash ∧ f.h.height = p.h.height + 1 ∧
      Run s f ks

/-- hash of the tip of a run (its base when empty) -/
def runTip (p : FHdr) (l : List Nat) : Nat := (l.getLast?).getD p.hash

theorem forkWalk_spec {s : List FHdr} {e : HExt} (hl : HLinked s) :
    ∀ (fuel : Nat) (cur : FHdr) (acc : List Nat) (fp : FHdr) (l : List Nat),
      getHdr s cur.hash = some cur → Run s cur acc →
      forkWalk s e fuel cur acc = .ok (fp, l) →
      getHdr s fp.hash = some fp ∧ Run s fp l ∧ runTip fp l = runTip cur acc ∧
      (fp.h.height = 0 ∨ e.onChain s fp.hash fp.h.height = some true) := by
  intro fuel
  induction fuel with
  | zero => intro cur acc fp l _ _ h; simp [forkWalk] at h
  | succ n ih =>
    intro cur acc fp l hc hr h
    simp only [forkWalk] at h
    split at h
    · rename_i h0
      cases h
      exact ⟨hc, hr, rfl, .inl h0⟩
    rename_i h0
    split at h
    · cases h
    · rename_i hon
      cases h
      exact ⟨hc, hr, rfl, .inr hon⟩
    · split at h
      · cases h
      rename_i p hp
      have hph : p.hash = cur.prevHash := getHdr_hash hp
      have hpp : getHdr s p.hash = some p := by rw [hph]; exact hp
      have hrun : Run s p (cur.hash :: acc) := by
        obtain ⟨p', hp', hh⟩ := hl _ _ hc h0
        rw [hp] at hp'
        cases hp'
        exact ⟨cur, hc, hph.symm, hh, hr⟩
      obtain ⟨a, b, c, d⟩ := ih p (cur.hash :: acc) fp l hpp hrun h
      refine ⟨a, b, ?_, d⟩
      rw [c]
      exact getLast?_getD_cons _ _ _

theorem extInv_rewind {s : List FHdr} {e : HExt} {g : Nat} (hi : ExtInv s e)
    (hg : UniqueGenesis s g) (fp : FHdr) (hf : getHdr s fp.hash = some fp)
    (hon : fp.h.height = 0 ∨ e.onChain s fp.hash fp.h.height = some true) :
    ExtInv s (e.rewind fp) ∧ (e.rewind fp).head = Tip.ofHdr fp := by
  have hat : e.mmr[fp.h.height]? = some fp.hash ∧ fp.h.height ≤ e.head.height := by
    rcases hon with h0 | hon
    · have hlen := hi.len
      obtain ⟨k0, hk0⟩ : ∃ k0, e.mmr[0]? = some k0 := by
        cases hm : e.mmr with
        | nil => rw [hm] at hlen; simp at hlen
        | cons a t => exact ⟨a, rfl⟩
      obtain ⟨f0, hf0, hh0, _⟩ := hi.chain 0 k0 hk0
      have e1 : k0 = g := hg k0 f0 hf0 hh0
      have e2 : fp.hash = g := hg fp.hash fp hf h0
      rw [h0, hk0, e1, e2]
      exact ⟨rfl, Nat.zero_le _⟩
    · unfold HExt.onChain at hon
      split at hon
      · cases hon
      rename_i hle
      split at hon
      · cases hon
      rename_i x hx
      split at hon
      · cases hon
      rename_i g' hg'
      have hxx : g'.hash = x := getHdr_hash hg'
      have : g'.hash = fp.hash := by simpa using hon
      rw [hx, ← hxx, this]
      exact ⟨rfl, by omega⟩
  obtain ⟨hat, hle⟩ := hat
  refine ⟨⟨isChain_take _ hi.chain, ?_, ?_⟩, rfl⟩
  · have := hi.len
    simp only [HExt.rewind, Tip.ofHdr, List.length_take]
    omega
  · simp only [HExt.rewind, Tip.ofHdr]
    rw [List.getElem?_take, if_pos (by omega)]
    exact hat

theorem reapply_spec {s : List FHdr} :
    ∀ (l : List Nat) (e e' : HExt) (p : FHdr), ExtInv s e → e.head.hash = p.hash →
      e.head.height = p.h.height → Run s p l → reapply s e l = .ok e' →
      ExtInv s e' ∧ e'.head.hash = runTip p l ∧ (l = [] → e' = e) ∧
      (∀ k ∈ l, ∃ f, getHdr s k = some f ∧ (f.h.height = 0 ∨ f.rootOk = true)) := by
  intro l
  induction l with
  | nil =>
    intro e e' p hi hh _ _ h
    simp only [reapply] at h
    cases h
    exact ⟨hi, by simpa [runTip] using hh, fun _ => rfl, by simp⟩
  | cons k ks ih =>
    intro e e' p hi hh hht hr h
    obtain ⟨f, hf, hfp, hfh, hr'⟩ := hr
    have hroots := reapply_roots (k :: ks) e e' h
    simp only [reapply, hf] at h
    split at h
    · cases h
    rename_i e1 hva
    have he1 : e1 = { head := Tip.ofHdr f, mmr := e.mmr ++ [f.hash] } := by
      unfold HExt.validateApply at hva
      split at hva
      · cases hva
      · cases hva; rfl
    have hfk : f.hash = k := getHdr_hash hf
    have hi1 : ExtInv s e1 := by
      rw [he1]
      refine ⟨isChain_snoc hi.chain (by rw [hfk]; exact hf) (by rw [hi.len]; omega) ?_, ?_, ?_⟩
      · intro j hj
        have := hi.last
        rw [hfp, ← hh]
        have hlen := hi.len
        have : j = e.head.height := by omega
        rw [this]; exact hi.last
      · simp only [List.length_append, List.length_singleton, Tip.ofHdr]
        rw [hi.len]; omega
      · simp only [Tip.ofHdr]
        have : f.h.height = e.mmr.length := by rw [hi.len]; omega
        rw [this, List.getElem?_append_right (Nat.le_refl _)]
        simp
    obtain ⟨a, b, _, _⟩ := ih e1 e' f hi1 (by rw [he1]; rfl) (by rw [he1]; rfl) hr' h
    refine ⟨a, ?_, by simp, hroots⟩
    rw [b]
    unfold runTip
    rw [getLast?_getD_cons, hfk]

/-- **`rewind_and_apply_header_fork` puts the extension on the ancestors of the given header**:
whatever chain the header MMR held before, afterwards it holds the chain that ends in `f`, its head
is `f`, and every header that had to be re-applied on the way was root-checked. -/
theorem rewindAndApplyHeaderFork_chain {s : List FHdr} {e e' : HExt} {g : Nat} (f : FHdr)
    (hi : ExtInv s e) (hl : HLinked s) (hg : UniqueGenesis s g) (hf : getHdr s f.hash = some f)
    (h : rewindAndApplyHeaderFork s e f = .ok e') :
    ExtInv s e' ∧ e'.head.hash = f.hash ∧ e'.head.height = f.h.height := by
  unfold rewindAndApplyHeaderFork at h
  split at h
  · cases h
  rename_i fp l hw
  obtain ⟨hfp, hrun, htip, hon⟩ := forkWalk_spec hl _ f [] fp l hf trivial hw
  obtain ⟨hir, hhead⟩ := extInv_rewind hi hg fp hfp hon
  obtain ⟨a, b, c, _⟩ := reapply_spec l (e.rewind fp) e' fp hir (by rw [hhead]; rfl)
    (by rw [hhead]; rfl) hrun h
  refine ⟨a, by rw [b, htip]; rfl, ?_⟩
  -- the height is that of the header stored under the last hash, at the last index
  have hlast := a.last
  obtain ⟨f', hf', hh', _⟩ := a.chain _ _ hlast
  rw [b, htip] at hf'
  have : f' = f := by
    have : runTip f [] = f.hash := rfl
    rw [this, hf] at hf'
    exact (Option.some.inj hf').symm
  rw [← hh', this]


/-! ### delivering headers keeps the invariants -/

/-- a delivered header does not change what is stored: its hash is new, or the very same header
is stored under it (a header hash covers the proof nonces only; a *different* header under a stored
hash is the subject of `known_hash_cannot_move_head_partial`) -/
def Compat (s : List FHdr) (f : FHdr) : Prop := getHdr s f.hash = none ∨ getHdr s f.hash = some f

theorem getHdr_cons_same {s : List FHdr} {f : FHdr} (h : getHdr s f.hash = some f) (k : Nat) :
    getHdr (f :: s) k = getHdr s k := by
  by_cases hk : f.hash = k
  · subst hk; rw [getHdr_cons_self, h]
  · exact getHdr_cons_ne f s k hk

theorem storeLe_cons {s : List FHdr} {f : FHdr} (h : Compat s f) : StoreLe s (f :: s) := by
  intro k g hg
  rcases h with h | h
  · have : f.hash ≠ k := by intro e; rw [e, hg] at h; cases h
    rw [getHdr_cons_ne f s k this]; exact hg
  · rw [getHdr_cons_same h]; exact hg

/-- the store-level invariants -/
structure StoreInv (s : List FHdr) (g : Nat) : Prop where
  linked : HLinked s
  gen : UniqueGenesis s g
  bound : HBound s

/-- storing a header that passed the height rule against its stored parent keeps the store
invariants (`hnz`: it does not claim height 0, i.e. `prev.height + 1` did not wrap) -/
theorem storeInv_cons {s : List FHdr} {g : Nat} {f prev : FHdr} (hi : StoreInv s g)
    (hc : Compat s f) (hp : getHdr s f.prevHash = some prev)
    (hh : f.h.height = addW prev.h.height 1) (hnz : f.h.height ≠ 0) :
    StoreInv (f :: s) g ∧ f.h.height = prev.h.height + 1 := by
  have hpb := hi.bound _ _ hp
  have hheight : f.h.height = prev.h.height + 1 := by
    unfold addW at hh
    rw [hh] at hnz ⊢
    have : prev.h.height + 1 < 2^64 := by
      by_cases he : prev.h.height + 1 = 2^64
      · rw [he] at hnz; simp at hnz
      · omega
    exact Nat.mod_eq_of_lt this
  refine ⟨?_, hheight⟩
  rcases hc with hc | hc
  · -- a new hash
    have hne : f.hash ≠ f.prevHash := by intro e; rw [e, hp] at hc; cases hc
    refine ⟨?_, ?_, ?_⟩
    · intro k x hx hx0
      by_cases hk : f.hash = k
      · subst hk
        rw [getHdr_cons_self] at hx
        cases hx
        exact ⟨prev, by rw [getHdr_cons_ne f s _ hne]; exact hp, hheight⟩
      · rw [getHdr_cons_ne f s k hk] at hx
        obtain ⟨p, hp', hh'⟩ := hi.linked k x hx hx0
        have : f.hash ≠ x.prevHash := by intro e; rw [e, hp'] at hc; cases hc
        exact ⟨p, by rw [getHdr_cons_ne f s _ this]; exact hp', hh'⟩
    · intro k x hx hx0
      by_cases hk : f.hash = k
      · subst hk
        rw [getHdr_cons_self] at hx
        cases hx
        exact absurd hx0 hnz
      · rw [getHdr_cons_ne f s k hk] at hx
        exact hi.gen k x hx hx0
    · intro k x hx
      by_cases hk : f.hash = k
      · subst hk
        rw [getHdr_cons_self] at hx
        cases hx
        unfold addW at hh
        rw [hh]
        exact Nat.mod_lt _ (by decide)
      · rw [getHdr_cons_ne f s k hk] at hx
        exact hi.bound k x hx
  · -- the very same header again: every look-up is unchanged
    refine ⟨?_, ?_, ?_⟩
    · intro k x hx hx0
      rw [getHdr_cons_same hc] at hx
      obtain ⟨p, hp', hh'⟩ := hi.linked k x hx hx0
      exact ⟨p, by rw [getHdr_cons_same hc]; exact hp', hh'⟩
    · intro k x hx hx0
      rw [getHdr_cons_same hc] at hx
      exact hi.gen k x hx hx0
    · intro k x hx
      rw [getHdr_cons_same hc] at hx
      exact hi.bound k x hx

/-- **node invariant**: the header MMR holds the chain of ancestors of `header_head` (genesis
first), `header_head` is the stored header at its end, and the store is closed under parents -/
structure NodeInv (n : HNode) (g : Nat) : Prop where
  store : StoreInv n.hdrs g
  ext : ExtInv n.hdrs ⟨n.headerHead, n.hmmr⟩
  head : ∃ f, getHdr n.hdrs n.headerHead.hash = some f ∧ Tip.ofHdr f = n.headerHead

/-- `header_extending` starts from the node's header MMR with `header_head` as its head -/
theorem extInit_of_inv {n : HNode} {g : Nat} (hi : NodeInv n g) {s : List FHdr}
    (hle : StoreLe n.hdrs s) {e0 : HExt} (h : extInit s n.hmmr = some e0) :
    e0 = ⟨n.headerHead, n.hmmr⟩ := by
  obtain ⟨f, hf, hft⟩ := hi.head
  have hlen := hi.ext.len
  have hlast := hi.ext.last
  simp only at hlen hlast
  have hgl : n.hmmr.getLast? = some n.headerHead.hash := by
    rw [List.getLast?_eq_getElem?, ← hlast]; congr 1; omega
  unfold extInit at h
  rw [hgl] at h
  simp only [hle _ _ hf] at h
  cases h
  rw [hft]

theorem extInv_mono {s s' : List FHdr} {e : HExt} (hle : StoreLe s s') (h : ExtInv s e) :
    ExtInv s' e := ⟨isChain_mono hle h.chain, h.len, h.last⟩

/-- the freshness side condition for a batch, header by header against the batch's view of the
store: new hash or the very same header, and not claiming height 0 -/
def BatchFresh : List FHdr → List FHdr → Prop
  | _, [] => True
  | s, f :: fs => Compat s f ∧ f.h.height ≠ 0 ∧ BatchFresh (f :: s) fs

/-- a delivery to the node -/
inductive Delivery
  | header (o : Opts) (f : FHdr)
  | batch (o : Opts) (syncHead : Tip) (b : List FHdr)
  | block (o : Opts) (f : FHdr) (bodyOk : Bool)

/-- the node after a delivery (`Err`: batch dropped, nothing changes) -/
def deliver (n : HNode) : Delivery → HNode
  | .header o f => match nodeProcessBlockHeader n o f with
    | .ok n' => n'
    | .error _ => n
  | .batch o sh b => syncStep n o sh b
  | .block o f bodyOk => (nodeProcessBlock n o f bodyOk).1

/-- the side condition of a delivery against the node's store -/
def Admissible (n : HNode) : Delivery → Prop
  | .header _ f => Compat n.hdrs f ∧ f.h.height ≠ 0
  | .batch _ _ b => BatchFresh n.hdrs b
  | .block _ f _ => Compat n.hdrs f ∧ f.h.height ≠ 0

/-- every delivery of a history is admissible when it arrives -/
def AdmissibleRun : HNode → List Delivery → Prop
  | _, [] => True
  | n, d :: ds => Admissible n d ∧ AdmissibleRun (deliver n d) ds


instance (s : List FHdr) (f : FHdr) : Decidable (Compat s f) := by unfold Compat; infer_instance

def batchFreshDec : ∀ (s b : List FHdr), Decidable (BatchFresh s b)
  | _, [] => isTrue trivial
  | s, f :: fs =>
    have := batchFreshDec (f :: s) fs
    by unfold BatchFresh; infer_instance

instance (s b : List FHdr) : Decidable (BatchFresh s b) := batchFreshDec s b

instance (n : HNode) (d : Delivery) : Decidable (Admissible n d) := by
  cases d <;> unfold Admissible <;> infer_instance

def admissibleRunDec : ∀ (n : HNode) (ds : List Delivery), Decidable (AdmissibleRun n ds)
  | _, [] => isTrue trivial
  | n, d :: ds =>
    have := admissibleRunDec (deliver n d) ds
    by unfold AdmissibleRun; infer_instance

instance (n : HNode) (ds : List Delivery) : Decidable (AdmissibleRun n ds) := admissibleRunDec n ds

end GV.Cons
