import GrinVerif.Lemmas.StoreLeafCount
import GrinVerif.Lemmas.PmmrPeaks
/-! `check_compact` on the files (C08 `compact_preserves`): the rewritten hash file and data file
are the reference values laid out by the new prune list; nothing the reference still needs is
compacted away; the new roots stay inside the MMR, so `unpruned_size` is unchanged.
Core Lean only. -/
namespace GV.Store
open GV GV.Pmmr GV.Pmmr.Co

theorem sorted_pred {l : List Nat} (hs : Sorted l) (h1 : ∀ y ∈ l, 1 ≤ y) : Sorted (l.map (· - 1)) := by
  unfold Sorted at *
  rw [List.pairwise_map]
  exact List.Pairwise.imp_of_mem (fun {a c} ha _ hac => by have := h1 a ha; omega) hs

theorem mem_pred {l : List Nat} (h1 : ∀ y ∈ l, 1 ≤ y) (q : Nat) : q ∈ l.map (· - 1) ↔ (q + 1) ∈ l := by
  rw [List.mem_map]
  constructor
  · rintro ⟨y, hy, rfl⟩
    have := h1 y hy
    have : y - 1 + 1 = y := by omega
    rw [this]; exact hy
  · intro h; exact ⟨q + 1, h, by omega⟩

/-- a position whose rightmost leaf is inside an MMR of `N` leaves is inside it -/
theorem lt_size_of_rightmost {p N : Nat} (h : p - height p < mmr N) : p < mmr N := by
  obtain ⟨n, k, hk, rfl⟩ := coord_surj p
  rw [height_co n k hk] at h
  have e : mmr n + k - k = mmr n := by omega
  rw [e] at h
  have hn : n < N := by
    apply Classical.byContradiction
    intro hc
    have := mmr_le_mmr (show N ≤ n by omega)
    omega
  exact (coord_lt_iff hk).2 hn

/-- the parent of a peak is outside the MMR -/
theorem peak_parent_ge {N p : Nat} (hp : p ∈ peaks (mmr N)) : mmr N ≤ (family p).1 := by
  rw [peaks_forest] at hp
  obtain ⟨c, hc, rfl⟩ := List.mem_map.1 hp
  obtain ⟨h1, h2, h3⟩ := forest_mem hc
  have hv : c.2 ≤ trailingOnes c.1 := by omega
  obtain ⟨r1, r2⟩ := right_sibling_coord h1
  have hm := mmr_le_mmr h3
  unfold cpos family
  simp only [peakMapHeight_co _ _ hv, bitSet_coord hv]
  have : ¬ c.2 < trailingOnes c.1 := by omega
  simp only [this, decide_false, Bool.false_eq_true, if_false]
  omega

/-- **peaks are never compacted away** as long as all pruned roots are positions of the MMR -/
theorem peak_not_compacted {bm : Bitmap} {N : Nat} (hroots : ∀ x ∈ bm, x ≤ mmr N)
    (hpos : ∀ x ∈ bm, 1 ≤ x) (p : Nat) (hp : p ∈ peaks (mmr N)) : compactedP bm p = false := by
  rw [compactedP_false_iff]
  rintro ⟨x, hx, hs, hne⟩
  have h1 := (sub_parent_iff _ _).1 ⟨hs, hne⟩
  have h2 := peak_parent_ge hp
  have := hroots x hx; have := hpos x hx
  have := h1.2
  omega

namespace Backend
variable {H : Type}

theorem posToRm_pos {b : Backend H} {size cutoff : Nat} (hp : CompactPre b size cutoff) (rm : Bitmap) :
    ∀ y ∈ (b.posToRm cutoff rm).2, 1 ≤ y := fun y hy => ((posToRm_spec hp rm y).1 hy).1

/-- 0-based positions removed from the hash file = the newly compacted positions -/
theorem mem_rmPos {b : Backend H} {size cutoff : Nat} (hp : CompactPre b size cutoff) (rm : Bitmap)
    (q : Nat) : q ∈ (b.posToRm cutoff rm).2.map (· - 1) ↔
      (compactedP (newBm b cutoff rm) q = true ∧ compactedP b.pruneList.bitmap q = false) := by
  rw [mem_pred (posToRm_pos hp rm), posToRm_spec hp rm]
  simp

/-- **the rewritten hash file is the layout of the new prune list** -/
theorem checkCompact_hash_layout (el : Bytes → Option Nat) {b : Backend H} {size cutoff : Nat}
    (hp : CompactPre b size cutoff) (rm : Bitmap) (ref : Nat → H) (hclean : b.hashFile.Clean)
    (hlay : b.hashFile.disk = (layout b.pruneList.bitmap size).map ref) :
    (b.checkCompact el cutoff rm).hashFile.Clean ∧
    (b.checkCompact el cutoff rm).hashFile.disk = (layout (newBm b cutoff rm) size).map ref := by
  have hfile : (b.checkCompact el cutoff rm).hashFile = b.hashFile.replaceWith
      (b.hashFile.writeTmpPruned (((b.posToRm cutoff rm).2.map
        fun pos1 => pos1 - b.pruneList.getShift (pos1 - 1)).map (· - 1))) := rfl
  obtain ⟨c1, c2, c3⟩ := hclean
  refine ⟨by rw [hfile]; exact ⟨c1, c2, rfl⟩, ?_⟩
  rw [hfile]
  show AOF.writeTmpLoop b.hashFile.disk 0 _ = _
  have hidx : (((b.posToRm cutoff rm).2.map fun pos1 => pos1 - b.pruneList.getShift (pos1 - 1)).map (· - 1)) =
      ((b.posToRm cutoff rm).2.map (· - 1)).map (rk fun x => !compactedP b.pruneList.bitmap x) := by
    rw [List.map_map, List.map_map]
    apply List.map_congr_left
    intro y hy
    obtain ⟨h1, _, h3⟩ := (posToRm_spec hp rm y).1 hy
    have := hashIdx_eq hp.inv (y - 1) h3
    have e : y - 1 + 1 = y := by omega
    rw [e] at this
    simp only [Function.comp]
    omega
  rw [hidx, hlay]
  unfold layout
  rw [compact_generic _ ref size _ (sorted_pred (sorted_posToRm b cutoff rm) (posToRm_pos hp rm))
    (fun q hq => by rw [((mem_rmPos hp rm q).1 hq).2]; rfl)]
  congr 1
  apply List.filter_congr
  intro q _
  have hm := mem_rmPos hp rm q
  have hmono := compactedP_mono hp rm q
  rw [Bool.eq_iff_iff]
  simp only [Bool.and_eq_true, Bool.not_eq_true', List.elem_eq_mem, decide_eq_false_iff_not]
  constructor
  · rintro ⟨h1, h2⟩
    cases hc : compactedP (newBm b cutoff rm) q with
    | false => rfl
    | true => exact absurd (hm.2 ⟨hc, h1⟩) h2
  · intro h
    have h1 : compactedP b.pruneList.bitmap q = false := by
      cases hc : compactedP b.pruneList.bitmap q with
      | false => rfl
      | true => rw [hmono hc] at h; exact absurd h (by simp)
    exact ⟨h1, fun hq => by rw [(hm.1 hq).1] at h; exact absurd h (by simp)⟩

/-- **the rewritten data file is the leaf layout of the new prune list** (fixed-size elements) -/
theorem checkCompact_data_layout (el : Bytes → Option Nat) {b : Backend H} {df : AOF Bytes}
    {size cutoff : Nat} (hp : CompactPre b size cutoff) (rm : Bitmap) (dref : Nat → Bytes)
    (hd : b.dataFile = .fixed df) (hclean : df.Clean)
    (hlay : df.disk = (dataLayout b.pruneList.bitmap size).map dref) :
    ∃ df', (b.checkCompact el cutoff rm).dataFile = .fixed df' ∧ df'.Clean ∧
      df'.disk = (dataLayout (newBm b cutoff rm) size).map dref := by
  have hfile : (b.checkCompact el cutoff rm).dataFile = b.dataFile.compact el
      ((((b.posToRm cutoff rm).2.filter fun x => isLeaf (x - 1)).map
        fun pos => nLeaves pos - b.pruneList.getLeafShift pos)) := rfl
  rw [hfile, hd]
  obtain ⟨c1, c2, c3⟩ := hclean
  refine ⟨_, rfl, ⟨c1, c2, rfl⟩, ?_⟩
  show AOF.writeTmpLoop df.disk 0 _ = _
  have hleafpos : ∀ y ∈ (b.posToRm cutoff rm).2.filter fun x => isLeaf (x - 1), 1 ≤ y :=
    fun y hy => posToRm_pos hp rm y (List.mem_filter.1 hy).1
  have hidx : ((((b.posToRm cutoff rm).2.filter fun x => isLeaf (x - 1)).map
        fun pos => nLeaves pos - b.pruneList.getLeafShift pos).map (· - 1)) =
      (((b.posToRm cutoff rm).2.filter fun x => isLeaf (x - 1)).map (· - 1)).map
        (rk fun x => isLeaf x && !compactedP b.pruneList.bitmap x) := by
    rw [List.map_map, List.map_map]
    apply List.map_congr_left
    intro y hy
    obtain ⟨hy1, hy2⟩ := List.mem_filter.1 hy
    obtain ⟨h1, _, h3⟩ := (posToRm_spec hp rm y).1 hy1
    have := dataIdx_eq hp.inv (y - 1) ((isLeaf_iff _).1 hy2) h3
    have e : y - 1 + 1 = y := by omega
    have e' : 1 + (y - 1) = y := by omega
    rw [e, e'] at this
    simp only [Function.comp]
    omega
  rw [hidx, hlay]
  unfold dataLayout
  rw [compact_generic _ dref size _
    (sorted_pred (sorted_filter _ (sorted_posToRm b cutoff rm)) hleafpos)
    (fun q hq => by
      have hq' := (mem_pred hleafpos q).1 hq
      obtain ⟨hq1, hq2⟩ := List.mem_filter.1 hq'
      have := (mem_rmPos hp rm q).1 ((mem_pred (posToRm_pos hp rm) q).2 hq1)
      simp only [Nat.add_sub_cancel] at hq2
      rw [this.2, hq2]; rfl)]
  congr 1
  apply List.filter_congr
  intro q _
  have hm := mem_rmPos hp rm q
  have hmono := compactedP_mono hp rm q
  have hmem : q ∈ ((b.posToRm cutoff rm).2.filter fun x => isLeaf (x - 1)).map (· - 1) ↔
      (q ∈ (b.posToRm cutoff rm).2.map (· - 1) ∧ isLeaf q = true) := by
    rw [mem_pred hleafpos, mem_pred (posToRm_pos hp rm), List.mem_filter]
    simp
  rw [Bool.eq_iff_iff]
  simp only [Bool.and_eq_true, Bool.not_eq_true', List.elem_eq_mem, decide_eq_false_iff_not, hmem]
  constructor
  · rintro ⟨⟨hl, h1⟩, h2⟩
    refine ⟨hl, ?_⟩
    cases hc : compactedP (newBm b cutoff rm) q with
    | false => rfl
    | true => exact absurd ⟨hm.2 ⟨hc, h1⟩, hl⟩ h2
  · rintro ⟨hl, h⟩
    have h1 : compactedP b.pruneList.bitmap q = false := by
      cases hc : compactedP b.pruneList.bitmap q with
      | false => rfl
      | true => rw [hmono hc] at h; exact absurd h (by simp)
    exact ⟨⟨hl, h1⟩, fun hq => by rw [(hm.1 hq.1).1] at h; exact absurd h (by simp)⟩

/-- **nothing above an unspent leaf is pruned by the new list**: if the unspent leaves were not
pruned before, no ancestor-or-self of an unspent leaf is pruned after compaction -/
theorem unspent_not_pruned {b : Backend H} {size cutoff : Nat} (hp : CompactPre b size cutoff)
    (rm : Bitmap) (hunp : ∀ x ∈ b.leafSet.bitmap, ¬ PrunedBy b.pruneList.bitmap (x - 1))
    (q : Nat) (hq : (q + 1) ∈ b.leafSet.bitmap) (hleaf : height q = 0) (a : Nat) (ha : Sub a q) :
    ¬ PrunedBy (newBm b cutoff rm) a := by
  intro hpr
  rcases (newBm_prunedBy hp rm a).1 hpr q hleaf ha with h | h
  · have := hunp (q + 1) hq
    rw [Nat.add_sub_cancel] at this
    exact this h
  · exact (leavesRm_props hp rm (q + 1) h).2.2.1 hq

/-- **no needed position is compacted away**: a position whose parent has an unspent leaf below
it — the leaf itself, every ancestor of it inside the MMR and every Merkle-path sibling — keeps
its hash in the compacted hash file -/
theorem needed_not_compacted {b : Backend H} {size cutoff : Nat} (hp : CompactPre b size cutoff)
    (rm : Bitmap) (hunp : ∀ x ∈ b.leafSet.bitmap, ¬ PrunedBy b.pruneList.bitmap (x - 1))
    (q : Nat) (hq : (q + 1) ∈ b.leafSet.bitmap) (hleaf : height q = 0) (a : Nat)
    (ha : Sub (family a).1 q) : compactedP (newBm b cutoff rm) a = false := by
  cases hc : compactedP (newBm b cutoff rm) a with
  | false => rfl
  | true => exact absurd (compactedP_iff_parent.1 hc) (unspent_not_pruned hp rm hunp q hq hleaf _ ha)

/-- the new pruned roots are positions of the MMR -/
theorem newBm_roots {b : Backend H} {cutoff N : Nat} (hp : CompactPre b (mmr N) cutoff)
    (rm : Bitmap) : ∀ y ∈ newBm b cutoff rm, 1 ≤ y ∧ y ≤ mmr N := by
  intro y hy
  have hinv : (PruneList.new (Bm.or b.pruneList.bitmap (leavesRm b cutoff rm))).Inv := PruneList.new_inv _
  have hy1 := hinv.pos y hy
  refine ⟨hy1, ?_⟩
  have hpr : PrunedBy (newBm b cutoff rm) (y - 1) := ⟨y, hy, sub_refl _⟩
  obtain ⟨r1, r2⟩ := rightmost_leaf _ (y - 1) rfl
  have hlt : y - 1 - height (y - 1) < mmr N := by
    rcases (newBm_prunedBy hp rm _).1 hpr _ r1 r2 with ⟨x, hx, hs⟩ | h
    · have := hp.roots x hx; have := hp.inv.pos x hx; have := hs.2; omega
    · have := (leavesRm_props hp rm _ h).2.1; have := hp.cutoff; omega
  have := lt_size_of_rightmost hlt
  omega

/-- **`unpruned_size` is unchanged by compaction** (it is the size of the reference before and
after) -/
theorem checkCompact_unprunedSize (el : Bytes → Option Nat) {b : Backend H} {cutoff N : Nat}
    (hp : CompactPre b (mmr N) cutoff) (rm : Bitmap) (ref : Nat → H) (hclean : b.hashFile.Clean)
    (hlay : b.hashFile.disk = (layout b.pruneList.bitmap (mmr N)).map ref) :
    (b.checkCompact el cutoff rm).unprunedSize = mmr N ∧ b.unprunedSize = mmr N := by
  constructor
  · apply unprunedSize_of_layout (mmr N) (checkCompact_inv el b cutoff rm)
    · rw [(checkCompact_hash_layout el hp rm ref hclean hlay).2, List.length_map]; rfl
    · exact fun x hx => (newBm_roots hp rm x hx).2
  · apply unprunedSize_of_layout (mmr N) hp.inv
    · rw [hlay, List.length_map]
    · exact hp.roots

end Backend
end GV.Store
