import GrinVerif.Lemmas.DesegInv
/-! The invariant of the whole desegmenter (`Model/Deseg.lean`): preserved by every
`add_*_segment` (any identifier, any content), `apply_next_segments` and
`next_desired_segments`; `apply_next_segments` never loses leaves and makes progress as soon as
the segment that comes next in the current phase is cached. -/
namespace GV.Deseg
open GV GV.Pmmr GV.Seg

/-- what `Desegmenter::new` fixes: heights in range (`1 ≤ h` for the three main trees: with
height 0 the genesis special case never lets a tree leave its first leaf), archive sizes that are
MMR sizes of `No ≥ 1` outputs and `Nk ≥ 2` kernels (an archive header above genesis commits to at
least the genesis and one coinbase kernel), far below the u64 range -/
structure Params (No Nk hB hO hR hK outSize kerSize bmLeafCount bmSize : Nat) : Prop where
  hB : hB ≤ 61
  hO1 : 1 ≤ hO
  hO : hO ≤ 61
  hR1 : 1 ≤ hR
  hR : hR ≤ 61
  hK1 : 1 ≤ hK
  hK : hK ≤ 61
  out : outSize = mmr No
  ker : kerSize = mmr Nk
  No1 : 1 ≤ No
  NoS : No < 2 ^ 62
  Nk2 : 2 ≤ Nk
  NkS : Nk < 2 ^ 62
  bmc : bmLeafCount = Dsg.expectedChunks No
  bms : bmSize = mmr (Dsg.expectedChunks No)

theorem chunks_pos (No : Nat) (h : 1 ≤ No) : 1 ≤ Dsg.expectedChunks No := by
  unfold Dsg.expectedChunks; omega

theorem chunks_small (No : Nat) (h : No < 2 ^ 62) : Dsg.expectedChunks No < 2 ^ 62 := by
  unfold Dsg.expectedChunks; omega

/-- the invariant of every reachable state -/
structure Inv (No Nk : Nat) (s : St) : Prop where
  /-- (spelled out field by field: the kernel compares the arguments one by one, and never has to
  compare two states) -/
  par : Params No Nk s.hB s.hO s.hR s.hK s.outSize s.kerSize s.bmLeafCount s.bmSize
  bm : TreeOk false s.hB (Dsg.expectedChunks No) s.bm
  /-- no cached bitmap segment carries redundant chunks (assumption on the deliveries, see
  `redundant_bitmap_chunk_stalls` for what happens otherwise) -/
  clean : ∀ c ∈ s.bm.cache, c.extra = 0
  out : TreeOk true s.hO No s.out
  rp : TreeOk true s.hR No s.rp
  ker : TreeOk true s.hK Nk s.ker
  noMis : s.misapplied = false
  fin : s.bitmapCache = true → s.bm.leaves = Dsg.expectedChunks No

theorem leaves_mk (n : Nat) (c l : List Cached) : Tree.leaves ⟨mmr n, c, l⟩ = n := by
  unfold Tree.leaves; exact nLeaves_mmr n

/-- `Desegmenter::new` on a fresh chain (MMRs of size 0 or 1: nothing, or the genesis element) -/
theorem new_inv (hB hO hR hK No Nk gOut gKer : Nat) (hb : hB ≤ 61) (ho1 : 1 ≤ hO) (ho : hO ≤ 61)
    (hr1 : 1 ≤ hR) (hr : hR ≤ 61) (hk1 : 1 ≤ hK) (hk : hK ≤ 61) (hNo : 1 ≤ No) (hNoS : No < 2 ^ 62)
    (hNk : 2 ≤ Nk) (hNkS : Nk < 2 ^ 62) (hgo : gOut ≤ 1) (hgk : gKer ≤ 1) :
    Inv No Nk (St.new hB hO hR hK (mmr No) (mmr Nk) gOut gKer) := by
  have hc1 := chunks_pos No hNo
  have hcs := chunks_small No hNoS
  have posOf : ∀ (h N g : Nat), 1 ≤ N → g ≤ 1 → ∃ n o, g = mmr n ∧ Pos true h N n o := by
    intro h N g hN hg
    have : g = 0 ∨ g = 1 := by omega
    rcases this with e | e
    · subst e
      refine ⟨0, some 0, Co.mmr_zero.symm, ?_⟩
      have := Pos.boundary (gen := true) (h := h) (N := N) 0 (by omega)
      simp only [Nat.zero_mul] at this
      exact this
    · subst e
      by_cases h1 : N = 1
      · subst h1; exact ⟨1, none, mmr_one.symm, Pos.done⟩
      · exact ⟨1, some 0, mmr_one.symm, Pos.genesis rfl (by omega)⟩
  refine ⟨?_, ⟨fun c hc => (by cases hc), ?_⟩, fun c hc => (by cases hc),
    ⟨fun c hc => (by cases hc), posOf hO No gOut hNo hgo⟩, ⟨fun c hc => (by cases hc), posOf hR No gOut hNo hgo⟩,
    ⟨fun c hc => (by cases hc), posOf hK Nk gKer (by omega) hgk⟩, rfl, fun h => (by cases h)⟩
  · refine ⟨hb, ho1, ho, hr1, hr, hk1, hk, rfl, rfl, hNo, hNoS, hNk, hNkS, ?_, ?_⟩
    · show (calcBitmapMmrSizes (mmr No)).1 = _
      unfold calcBitmapMmrSizes Dsg.expectedChunks; simp only [nLeaves_mmr]
    · show (calcBitmapMmrSizes (mmr No)).2 = _
      unfold calcBitmapMmrSizes; simp only [nLeaves_mmr]
      exact ins2pmmrW_small _ (by unfold Dsg.expectedChunks at hcs; omega)
  · refine ⟨0, some 0, Co.mmr_zero.symm, ?_⟩
    have := Pos.boundary (gen := false) (h := hB) (N := Dsg.expectedChunks No) 0 (by omega)
    simp only [Nat.zero_mul] at this
    exact this

/-! ## `add_*_segment` -/

/-- a refused segment changes nothing -/
theorem addSegment_refused (s : St) (k : Kind) (x : SegIn) (h : (s.addSegment k x).2 ≠ .ok) :
    (s.addSegment k x).1 = s := by
  unfold St.addSegment at h ⊢
  split
  · rfl
  · split
    · rfl
    · split
      · rfl
      · rename_i h1 h2 h3
        rw [if_neg h1, if_neg h2, if_neg h3] at h
        exact absurd rfl h

/-- the three tests of `add_*_segment`, in the code's order -/
theorem addSegment_ok_iff (s : St) (k : Kind) (x : SegIn) :
    (s.addSegment k x).2 = .ok ↔
      x.id.height = s.heightOf k ∧ x.id.unprunedSize (s.archiveOf k) ≠ 0 ∧ x.valid = true := by
  unfold St.addSegment
  by_cases h1 : x.id.height = s.heightOf k
  · by_cases h2 : x.id.unprunedSize (s.archiveOf k) = 0
    · simp [h1, h2]
    · by_cases h3 : x.valid = true
      · simp [h1, h2, h3]
      · simp [h1, h2, h3]
  · simp [h1]

theorem addSegment_ok_state (s : St) (k : Kind) (x : SegIn) (h : (s.addSegment k x).2 = .ok) :
    (s.addSegment k x).1 =
      s.setTree k { s.treeOf k with cache := cacheSeg (s.treeOf k).cache ⟨x.id, x.jump, x.extra⟩ } := by
  obtain ⟨h1, h2, h3⟩ := (addSegment_ok_iff s k x).mp h
  unfold St.addSegment
  rw [if_neg (by simpa using h1), if_neg h2, if_neg (by simp [h3])]

/-- any `add_*_segment` — whatever identifier, whatever content (bitmap segments without
redundant chunks) — keeps the invariant -/
theorem add_inv (No Nk : Nat) (s : St) (k : Kind) (x : SegIn) (hi : Inv No Nk s)
    (hclean : k = .bitmap → x.extra = 0) : Inv No Nk (s.addSegment k x).1 := by
  by_cases hok : (s.addSegment k x).2 = .ok
  · rw [addSegment_ok_state s k x hok]
    obtain ⟨h1, _, _⟩ := (addSegment_ok_iff s k x).mp hok
    obtain ⟨par, bm, clean, out, rp, ker, noMis, fin⟩ := hi
    cases k with
    | bitmap =>
      refine ⟨par, treeOk_cache bm _ h1, ?_, out, rp, ker, noMis, fin⟩
      intro c hc
      rcases mem_cacheSeg _ _ _ hc with h | h
      · exact clean c h
      · subst h; exact hclean rfl
    | output => exact ⟨par, bm, clean, treeOk_cache out _ h1, rp, ker, noMis, fin⟩
    | rangeproof => exact ⟨par, bm, clean, out, treeOk_cache rp _ h1, ker, noMis, fin⟩
    | kernel => exact ⟨par, bm, clean, out, rp, treeOk_cache ker _ h1, noMis, fin⟩
  · rw [addSegment_refused s k x hok]; exact hi

/-- no `add_*_segment` touches an MMR, the bitmap state or the completion flags -/
theorem add_sizes (s : St) (k : Kind) (x : SegIn) :
    let s' := (s.addSegment k x).1
    s'.bm.size = s.bm.size ∧ s'.out.size = s.out.size ∧ s'.rp.size = s.rp.size ∧
      s'.ker.size = s.ker.size ∧ s'.bitmapCache = s.bitmapCache ∧ s'.misapplied = s.misapplied ∧
      s'.allComplete = s.allComplete ∧
      s'.bm.log = s.bm.log ∧ s'.out.log = s.out.log ∧ s'.rp.log = s.rp.log ∧ s'.ker.log = s.ker.log := by
  by_cases hok : (s.addSegment k x).2 = .ok
  · simp only [addSegment_ok_state s k x hok]
    cases k <;> simp [St.setTree, St.treeOf]
  · simp only [addSegment_refused s k x hok]
    simp

/-- caches only grow by `add_*_segment` -/
theorem add_cache_sub (s : St) (k k' : Kind) (x : SegIn) (c : Cached) (hc : c ∈ (s.treeOf k').cache) :
    c ∈ ((s.addSegment k x).1.treeOf k').cache := by
  by_cases hok : (s.addSegment k x).2 = .ok
  · rw [addSegment_ok_state s k x hok]
    cases k <;> cases k' <;> first
      | exact hc
      | exact cacheSeg_sub _ _ _ hc
  · rw [addSegment_refused s k x hok]; exact hc

/-- an accepted segment is in the cache afterwards (newly, or it was there) -/
theorem add_cached (s : St) (k : Kind) (x : SegIn) (hok : (s.addSegment k x).2 = .ok) :
    hasId ((s.addSegment k x).1.treeOf k).cache x.id = true := by
  rw [addSegment_ok_state s k x hok]
  cases k <;> exact hasId_cacheSeg _ ⟨x.id, x.jump, x.extra⟩

/-! ## `apply_next_segments` -/

theorem reach_of_pos {gen : Bool} {h N n : Nat} {o : Option Nat} (p : Pos gen h N n o)
    (hg : gen = true → 1 ≤ h) (next : Option Nat) (hn : ∀ k, o = some k → next = some k) :
    ∀ m, next = some m → Reach h N m n := by
  intro m hm
  cases o with
  | none => exact Or.inr p.eq_of_none
  | some k =>
    have := hn k rfl
    rw [this] at hm; injection hm with hm; subst hm
    exact Or.inl (p.bounds hg).1

/-- the values of `next_required_*` in a regular state -/
theorem next_values (No Nk : Nat) (s : St) (hi : Inv No Nk s) :
    (∀ o, Pos false s.hB (Dsg.expectedChunks No) s.bm.leaves o → s.nextRequired .bitmap = o) ∧
    (∀ k, Pos true s.hO No s.out.leaves (some k) → s.nextRequired .output = some k) ∧
    (∀ k, Pos true s.hR No s.rp.leaves (some k) → s.nextRequired .rangeproof = some k) ∧
    (∀ o, Pos true s.hK Nk s.ker.leaves o → s.nextRequired .kernel = o) := by
  obtain ⟨par, bm, _, out, rp, ker, _, _⟩ := hi
  have hcs := chunks_small No par.NoS
  refine ⟨?_, ?_, ?_, ?_⟩
  · intro o p
    show nextRequiredBitmap s.hB s.bmSize s.bm.size = o
    rw [par.bms, bm.size_eq]
    exact nextBitmap_pos _ _ _ o par.hB hcs p
  · intro k p
    show nextRequiredPrunable s.hO s.outSize s.out.size = some k
    rw [par.out, out.size_eq]
    exact nextPrunable_pos _ _ _ k par.hO par.hO1 par.NoS p
  · intro k p
    show nextRequiredPrunable s.hR s.outSize s.rp.size = some k
    rw [par.out, rp.size_eq]
    exact nextPrunable_pos _ _ _ k par.hR par.hR1 par.NoS p
  · intro o p
    show nextRequiredKernel s.hK s.kerSize s.ker.size = o
    rw [par.ker, ker.size_eq]
    exact nextKernel_pos _ _ _ o par.hK par.hK1 par.NkS par.Nk2 p

/-- `apply_bitmap_segment` of the segment that comes next, without redundant chunks -/
theorem applyBitmapSeg_ok (h C k : Nat) (t : Tree) (c : Cached) (rest : List Cached)
    (hh : h ≤ 61) (hC : C < 2 ^ 62) (ok : TreeOk false h C t) (p : Pos false h C t.leaves (some k))
    (hc : c.id.height = h) (hi : c.id.idx = k) (he : c.extra = 0) (hrest : ∀ x ∈ rest, x ∈ t.cache) :
    TreeOk false h C (applyBitmapSeg (mmr C) t c rest) ∧
      t.leaves < (applyBitmapSeg (mmr C) t c rest).leaves ∧
      (applyBitmapSeg (mmr C) t c rest).cache = rest := by
  have hp := pow_pos' h
  have hlt := p.lt_of_some
  have hn : t.leaves = k * 2 ^ h := by
    generalize hl : t.leaves = n at p
    cases p with
    | boundary k hk => rfl
    | genesis hg _ => cases hg
  have hu : c.id.unprunedSize (mmr C) = min (2 ^ h) (C - k * 2 ^ h) := by
    rw [unprunedSize_mmr c.id C (by omega) (by rw [hc, hi]; omega), hc, hi]
  have hl : (applyBitmapSeg (mmr C) t c rest).leaves = min ((k + 1) * 2 ^ h) C := by
    unfold applyBitmapSeg Tree.leaves insertionToPmmrIndex
    simp only [nLeaves_mmr, hu, he]
    show t.leaves + min (2 ^ h) (C - k * 2 ^ h) + 0 = _
    rw [hn, Nat.succ_mul]; omega
  refine ⟨⟨fun x hx => ok.own x (hrest x hx), ?_⟩, ?_, rfl⟩
  · refine ⟨min ((k + 1) * 2 ^ h) C, if (k + 1) * 2 ^ h < C then some (k + 1) else none, ?_, ?_⟩
    · unfold applyBitmapSeg insertionToPmmrIndex
      simp only [hu, he]
      show mmr (t.leaves + min (2 ^ h) (C - k * 2 ^ h) + 0) = _
      rw [hn, Nat.succ_mul]
      congr 1; omega
    · by_cases hq : (k + 1) * 2 ^ h < C
      · rw [if_pos hq, Nat.min_eq_left (by omega)]; exact Pos.boundary _ hq
      · rw [if_neg hq, Nat.min_eq_right (by omega)]; exact Pos.done
  · rw [hl, hn, Nat.succ_mul]; rw [hn] at hlt; omega

end GV.Deseg
