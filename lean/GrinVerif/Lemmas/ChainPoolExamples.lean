import GrinVerif.Model.ChainPool
import GrinVerif.Lemmas.ChainOrphan
/-! Concrete block trees for the C13 pool-facing theorems (non-vacuity examples and the
kernel-checked witnesses of the recorded defect `C13-pool-maturity-cutoff-read-from-header-fork`).

    0 ── 1 ── 2 ── 3 ── 4 ── 5        trunk y1..y5, one coinbase each (work 2..6)
          ├── 12                       x2: heavy short fork (work 500), one coinbase
          └── 22 ── 23                 z2, z3: heavier fork whose blocks have three outputs each

and, for NRD (header version 4 from height 3 on):

    0 ── 1 ── 2 ── 3                   3 carries the NRD kernel "e"
               └── 13 ── 14            heavier fork without it
-/
namespace GV.Chain.PoolEx

def P : Params := { maturity := 3, reward := 60, hfInterval := 3, maxOrphans := 100 }

def mk (id par h work ver : Nat) (outs : List (Nat × Bool)) (kers : List Ker := [.cb]) : Blk :=
  { id := id, parent := some par, h := h, work := work, ver := ver, ts := h, ins := [],
    outs := outs, kers := kers, tags := [] }

def G : Blk := { id := 0, parent := none, h := 0, work := 1, ver := 1, ts := 0, ins := [],
                 outs := [(100, false)], kers := [.cb], tags := [] }
def Y1 : Blk := mk 1 0 1 2 1 [(101, true)]
def Y2 : Blk := mk 2 1 2 3 1 [(102, true)]
def Y3 : Blk := mk 3 2 3 4 2 [(103, true)]
def Y4 : Blk := mk 4 3 4 5 2 [(104, true)]
def Y5 : Blk := mk 5 4 5 6 2 [(105, true)]
def X2 : Blk := mk 12 1 2 500 1 [(112, true)]
def Z2 : Blk := mk 22 1 2 100 1 [(122, true), (132, false), (142, false)]
def Z3 : Blk := mk 23 22 3 200 2 [(123, true), (133, false), (143, false)]

def outs : List OutDef :=
  [⟨100, false, 60⟩, ⟨101, true, 60⟩, ⟨102, true, 60⟩, ⟨103, true, 60⟩, ⟨104, true, 60⟩,
   ⟨105, true, 60⟩, ⟨112, true, 60⟩, ⟨122, true, 60⟩, ⟨123, true, 60⟩,
   ⟨201, false, 60⟩, ⟨204, false, 60⟩, ⟨206, true, 60⟩]

/-- a fresh node over the tree -/
def N : Node := { outs := outs, blks := [G, Y1, Y2, Y3, Y4, Y5, X2, Z2, Z3] }

def trunk : List Event := [.block Y1, .block Y2, .block Y3, .block Y4, .block Y5]

/-- the trunk processed, then the header of the heavy short fork -/
def NX : Node := run P N (trunk ++ [.header X2])
/-- the trunk processed, then the headers of the heavier fork with more outputs -/
def NZ : Node := run P N (trunk ++ [.header Z2, .header Z3])

/-- spends y1's coinbase (created at height 1) -/
def spendY1 : TxA := { ins := [101], outs := [201], kers := [.plain 0] }
/-- spends y4's coinbase (created at height 4) -/
def spendY4 : TxA := { ins := [104], outs := [204], kers := [.plain 0] }

/-! ### NRD tree -/

def Q : Params := { maturity := 3, reward := 60, hfInterval := 1, maxOrphans := 100 }

def A1 : Blk := mk 1 0 1 2 2 [(101, true)]
def A2 : Blk := mk 2 1 2 3 3 [(102, true)]
def A3 : Blk := mk 3 2 3 4 4 [(103, true)] [.cb, .nrd 0 5 "e"]
def B3 : Blk := mk 13 2 3 4 4 [(113, true)]
def B4 : Blk := mk 14 13 4 10 5 [(114, true)]

def outsR : List OutDef :=
  [⟨100, false, 60⟩, ⟨101, true, 60⟩, ⟨102, true, 60⟩, ⟨103, true, 60⟩, ⟨113, true, 60⟩,
   ⟨114, true, 60⟩]

def R : Node := { outs := outsR, blks := [G, A1, A2, A3, B3, B4] }

/-- a transaction with an NRD kernel of relative height 5 repeating the excess "e" -/
def nrdTx : TxA := { ins := [100], outs := [300], kers := [.nrd 0 5 "e"] }

theorem fresh_N : Fresh N := ⟨rfl, rfl, rfl, rfl, fun g hg => by
  have h : N.blk 0 = some G := rfl
  rw [h] at hg
  rw [← Option.some.inj hg]; rfl⟩

theorem fresh_R : Fresh R := ⟨rfl, rfl, rfl, rfl, fun g hg => by
  have h : R.blk 0 = some G := rfl
  rw [h] at hg
  rw [← Option.some.inj hg]; rfl⟩

/-! ### evaluated facts (each a closed term checked by evaluation) -/

/-- the replayed state of the trunk's tip y5 -/
def sTrunk : UState :=
  { utxo := [(100, 0, false), (101, 1, true), (102, 2, true), (103, 3, true), (104, 4, true),
             (105, 5, true)], nrd := [], height := 5 }

theorem NX_state : NX.stateAt P NX.head = .ok sTrunk := rfl
theorem NZ_state : NZ.stateAt P NZ.head = .ok sTrunk := rfl
theorem NX_head : NX.head = 5 ∧ NX.hhead = 12 := by decide
theorem NZ_head : NZ.head = 5 ∧ NZ.hhead = 23 := by decide
theorem NX_impl : NX.poolMaturityImpl P spendY1 = some "Other" := by decide
theorem NZ_impl : NZ.poolMaturityImpl P spendY4 = none := by decide
theorem NX_spec : txMaturity P sTrunk spendY1 = none := by decide
theorem NZ_spec : txMaturity P sTrunk spendY4 = some "ImmatureCoinbase" := by decide

theorem reg_NX : Registered N (trunk ++ [.header X2]) := by
  intro e he
  simp only [trunk, List.cons_append, List.nil_append, List.mem_cons, List.not_mem_nil,
    or_false] at he
  rcases he with rfl | rfl | rfl | rfl | rfl | rfl <;> rfl

theorem reg_trunk : Registered N trunk := by
  intro e he
  simp only [trunk, List.mem_cons, List.not_mem_nil, or_false] at he
  rcases he with rfl | rfl | rfl | rfl | rfl <;> rfl

/-- NRD tree: the branch a1 a2 a3, and the same followed by the reorganisation to b3 b4 -/
def esA : List Event := [.block A1, .block A2, .block A3]
def esAB : List Event := esA ++ [.block B3, .block B4]

theorem reg_esAB : Registered R esAB := by
  intro e he
  simp only [esAB, esA, List.cons_append, List.nil_append, List.mem_cons, List.not_mem_nil,
    or_false] at he
  rcases he with rfl | rfl | rfl | rfl | rfl <;> rfl

def sA : UState :=
  { utxo := [(100, 0, false), (101, 1, true), (102, 2, true), (103, 3, true)],
    nrd := [("e", 3)], height := 3 }
def sB : UState :=
  { utxo := [(100, 0, false), (101, 1, true), (102, 2, true), (113, 3, true), (114, 4, true)],
    nrd := [], height := 4 }

theorem RA_state : (run Q R esA).stateAt Q (run Q R esA).head = .ok sA := rfl
theorem RAB_state : (run Q R esAB).stateAt Q (run Q R esAB).head = .ok sB := rfl
theorem RA_head : (run Q R esA).head = 3 := by decide
theorem RAB_head : (run Q R esAB).head = 14 ∧ 3 ∈ (run Q R esAB).stored := by decide
theorem RA_nrd : txValidate sA nrdTx = some "NRDRelativeHeight" := by decide
theorem RAB_nrd : txValidate sB nrdTx = none := by decide

end GV.Chain.PoolEx
