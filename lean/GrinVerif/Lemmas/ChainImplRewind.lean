import GrinVerif.Lemmas.ChainImplBlock
/-! `rewindSingleBlock` undoes `applyBlockImpl` on the observable parts. -/
namespace GV.Chain
open TxHS

/-- two txhashsets with the same observable content: the same leaves, the same set of unspent
positions, the same `output_pos` lookups (list order of the leaf set and of the index, and the
spent index, are not observable through the txhashset's API) -/
structure TxHS.Equiv (S T : TxHS) : Prop where
  leaves : S.leaves = T.leaves
  leafSet : ∀ i, i ∈ S.leafSet ↔ i ∈ T.leafSet
  index : ∀ c, S.getOutputPos c = T.getOutputPos c

theorem TxHS.Equiv.refl (S : TxHS) : S.Equiv S := ⟨rfl, fun _ => Iff.rfl, fun _ => rfl⟩
theorem TxHS.Equiv.symm {S T : TxHS} (h : S.Equiv T) : T.Equiv S :=
  ⟨h.leaves.symm, fun i => (h.leafSet i).symm, fun c => (h.index c).symm⟩
theorem TxHS.Equiv.trans {S T U : TxHS} (h : S.Equiv T) (g : T.Equiv U) : S.Equiv U :=
  ⟨h.leaves.trans g.leaves, fun i => (h.leafSet i).trans (g.leafSet i), fun c => (h.index c).trans (g.index c)⟩

theorem TxHS.Equiv.getData {S T : TxHS} (h : S.Equiv T) (i : Nat) : S.getData i = T.getData i := by
  unfold TxHS.getData
  have := h.leafSet i
  by_cases hm : i ∈ S.leafSet
  · simp [hm, this.mp hm, h.leaves]
  · have hm' : i ∉ T.leafSet := fun x => hm (this.mpr x)
    simp [hm, hm']

/-- equivalent txhashsets answer `get_unspent` alike -/
theorem TxHS.Equiv.getUnspent {S T : TxHS} (h : S.Equiv T) (c : Nat) : S.getUnspent c = T.getUnspent c := by
  unfold TxHS.getUnspent
  rw [h.index c]
  cases T.getOutputPos c with
  | none => rfl
  | some cp => simp only [h.getData]

theorem TxHS.Equiv.rinv {S T : TxHS} (h : S.Equiv T) (hi : RInv S) : RInv T :=
  ⟨fun i hm => h.leaves ▸ hi.bound i ((h.leafSet i).mpr hm),
   fun i hm c hc => by
     rw [← h.index c]
     exact hi.indexed i ((h.leafSet i).mpr hm) c (h.leaves ▸ hc),
   fun c cp hg => by
     obtain ⟨h1, h2⟩ := hi.points c cp ((h.index c).trans hg)
     exact ⟨(h.leafSet _).mp h1, h.leaves ▸ h2⟩⟩

/-! ### the two index loops of `rewind_single_block` -/

theorem foldl_delete (os : List (Nat × Bool)) : ∀ (T : TxHS),
    (os.foldl (fun T o => T.deleteOutputPos o.1) T).leaves = T.leaves ∧
    (os.foldl (fun T o => T.deleteOutputPos o.1) T).leafSet = T.leafSet ∧
    (os.foldl (fun T o => T.deleteOutputPos o.1) T).spentIdx = T.spentIdx ∧
    ∀ c, (os.foldl (fun T o => T.deleteOutputPos o.1) T).getOutputPos c =
      if c ∈ os.map (·.1) then none else T.getOutputPos c := by
  induction os with
  | nil => intro T; simp
  | cons o os ih =>
    intro T
    simp only [List.foldl_cons]
    obtain ⟨a, b, c, d⟩ := ih (T.deleteOutputPos o.1)
    refine ⟨a, b, c, ?_⟩
    intro c'
    rw [d c', getOutputPos_delete]
    simp only [List.map_cons, List.mem_cons]
    by_cases h1 : c' ∈ os.map (·.1)
    · simp [h1]
    · by_cases h2 : c' = o.1
      · simp [h2]
      · simp [h1, h2]

/-- the re-save step of `rewind_single_block` -/
def resave (T : TxHS) (cp : CommitPos) : TxHS :=
  match T.getData cp.pos with
  | some c => T.saveOutputPos c cp
  | none => T

theorem foldl_resave (sp : List (Nat × CommitPos)) : ∀ (T : TxHS),
    (∀ x ∈ sp, T.getData x.2.pos = some x.1) → (sp.map (·.1)).Nodup →
    ((sp.map (·.2)).foldl resave T).leaves = T.leaves ∧
    ((sp.map (·.2)).foldl resave T).leafSet = T.leafSet ∧
    ((sp.map (·.2)).foldl resave T).spentIdx = T.spentIdx ∧
    (∀ x ∈ sp, ((sp.map (·.2)).foldl resave T).getOutputPos x.1 = some x.2) ∧
    (∀ c, c ∉ sp.map (·.1) → ((sp.map (·.2)).foldl resave T).getOutputPos c = T.getOutputPos c) := by
  induction sp with
  | nil => intro T _ _; simp
  | cons x xs ih =>
    intro T hd hnd
    simp only [List.map_cons, List.nodup_cons] at hnd
    have hx := hd x (List.mem_cons_self ..)
    have e1 : resave T x.2 = T.saveOutputPos x.1 x.2 := by unfold resave; rw [hx]
    simp only [List.map_cons, List.foldl_cons, e1]
    have hd' : ∀ y ∈ xs, (T.saveOutputPos x.1 x.2).getData y.2.pos = some y.1 := by
      intro y hy; rw [getData_save]; exact hd y (List.mem_cons_of_mem _ hy)
    obtain ⟨a, b, c, d, e⟩ := ih (T.saveOutputPos x.1 x.2) hd' hnd.2
    refine ⟨a, b, c, ?_, ?_⟩
    · intro y hy
      rcases List.mem_cons.mp hy with hy | hy
      · subst hy
        rw [e _ hnd.1, getOutputPos_save, if_pos rfl]
      · exact d y hy
    · intro c' hc'
      simp only [List.mem_cons, not_or] at hc'
      rw [e c' hc'.2, getOutputPos_save, if_neg hc'.1]

/-- `rewind_mmrs_to_pos` + `LeafSet::rewind` -/
def rewindMmrs (S : TxHS) (n : Nat) (cps : List CommitPos) : TxHS :=
  { S with leaves := S.leaves.take n, leafSet := S.leafSet.filter (· < n) ++ cps.map (·.pos) }

theorem rewindSingleBlock_eq (S : TxHS) (b : Blk) (n : Nat) :
    rewindSingleBlock S b n =
      (((S.getSpentIndex b.id).getD []).foldl resave
        (b.outs.foldl (fun T o => T.deleteOutputPos o.1)
          (rewindMmrs S n ((S.getSpentIndex b.id).getD [])))) := rfl

theorem rewindSingleBlock_spentIdx (S : TxHS) (b : Blk) (n : Nat) :
    (rewindSingleBlock S b n).spentIdx = S.spentIdx := by
  rw [rewindSingleBlock_eq]
  generalize hsp : (S.getSpentIndex b.id).getD [] = cps
  have : ∀ (l : List CommitPos) (T : TxHS), (l.foldl resave T).spentIdx = T.spentIdx := by
    intro l
    induction l with
    | nil => intro T; rfl
    | cons cp l ih =>
      intro T
      simp only [List.foldl_cons]
      rw [ih]
      unfold resave
      split <;> rfl
  rw [this, (foldl_delete b.outs _).2.2.1]
  rfl

/-- **`rewind_single_block` undoes `apply_block`** on the observable parts (leaves, leaf set,
`output_pos` lookups — hence `get_unspent`), under the representation invariant, for a block that
does not spend its own outputs; `S.leaves.length` is the previous header's output size. -/
theorem rewind_apply_equiv {S S' : TxHS} {b : Blk} {sp : List (Nat × CommitPos)} (hi : RInv S)
    (A : BlockApplied S S' b sp) : (rewindSingleBlock S' b S.leaves.length).Equiv S := by
  rw [rewindSingleBlock_eq]
  have hsp : (S'.getSpentIndex b.id).getD [] = sp.map (·.2) := by rw [A.spentHere]; rfl
  rw [hsp]
  generalize hT1 : rewindMmrs S' S.leaves.length (sp.map (·.2)) = T1
  have hT1l : T1.leaves = S.leaves := by
    rw [← hT1]; show S'.leaves.take _ = _
    rw [A.leaves]; simp
  have hT1s : ∀ i, i ∈ T1.leafSet ↔ i ∈ S.leafSet := by
    intro i
    rw [← hT1]
    show i ∈ S'.leafSet.filter (· < S.leaves.length) ++ (sp.map (·.2)).map (·.pos) ↔ _
    simp only [List.mem_append, List.mem_filter, decide_eq_true_eq, A.leafSet i, List.map_map]
    have hpm : ∀ j, j ∈ sp.map ((·.pos) ∘ (·.2)) ↔ j ∈ sp.map (·.2.pos) := fun j => Iff.rfl
    constructor
    · rintro (⟨h | h, hlt⟩ | h)
      · exact h.1
      · omega
      · obtain ⟨x, hx, hxi⟩ := List.mem_map.mp h
        rw [← hxi]
        exact (hi.points x.1 x.2 (A.wasUnspent x hx)).1
    · intro h
      by_cases hm : i ∈ sp.map (·.2.pos)
      · exact Or.inr hm
      · exact Or.inl ⟨Or.inl ⟨h, hm⟩, hi.bound i h⟩
  have hT1i : ∀ c, T1.getOutputPos c = S'.getOutputPos c := by intro c; rw [← hT1]; rfl
  obtain ⟨d1, d2, _, d4⟩ := foldl_delete b.outs T1
  generalize hT2 : b.outs.foldl (fun T o => T.deleteOutputPos o.1) T1 = T2 at d1 d2 d4
  have hdata : ∀ x ∈ sp, T2.getData x.2.pos = some x.1 := by
    intro x hx
    obtain ⟨h1, h2⟩ := hi.points x.1 x.2 (A.wasUnspent x hx)
    rw [getData_eq_some, d2, d1, hT1l]
    exact ⟨(hT1s _).mpr h1, h2⟩
  obtain ⟨r1, r2, _, r4, r5⟩ := foldl_resave sp T2 hdata (A.spIns ▸ A.insNodup)
  refine ⟨?_, ?_, ?_⟩
  · rw [r1, d1, hT1l]
  · intro i; rw [r2, d2]; exact hT1s i
  · intro c
    by_cases hc : c ∈ b.ins
    · rw [← A.spIns] at hc
      obtain ⟨x, hx, hxc⟩ := List.mem_map.mp hc
      rw [← hxc, r4 x hx, A.wasUnspent x hx]
    · rw [r5 c (A.spIns ▸ hc), d4 c]
      by_cases ho : c ∈ b.outs.map (·.1)
      · rw [if_pos ho, A.fresh c ho]
      · rw [if_neg ho, hT1i c, A.idxOther c hc ho]

end GV.Chain
