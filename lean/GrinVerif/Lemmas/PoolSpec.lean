import GrinVerif.Lemmas.PoolRun
/-! Specification-level facts: the executable `jointlyValidB` decides `JointlyValid`; what the
invariant says in terms of the specification; eviction; admission; the mineable set. -/
namespace GV.Pool

theorem jointlyValidB_iff (outs : List GV.Chain.OutDef) (utxo : List Nat) (txs : List Tx) :
    jointlyValidB outs utxo txs = true ↔ JointlyValid outs utxo txs := by
  unfold jointlyValidB
  simp only [Bool.and_eq_true, List.all_eq_true, decide_eq_true_eq]
  constructor
  · rintro ⟨h1, h2⟩
    refine ⟨fun o => ?_, fun o => ?_, h2⟩
    · by_cases hm : o ∈ allIns txs ++ allOuts txs
      · exact (h1 o hm).1
      · have : o ∉ allIns txs := fun h => hm (List.mem_append.mpr (Or.inl h))
        rw [List.count_eq_zero.mpr this]; omega
    · by_cases hm : o ∈ allIns txs ++ allOuts txs
      · exact (h1 o hm).2
      · have : o ∉ allOuts txs := fun h => hm (List.mem_append.mpr (Or.inr h))
        rw [List.count_eq_zero.mpr this]
        have := unspentCount_le utxo o
        omega
  · intro h
    exact ⟨fun o _ => ⟨h.covered o, h.noDup o⟩, h.balanced⟩

/-- the invariant gives the property's statement: the txpool, and the stempool together with
the txpool, are jointly valid against the head -/
theorem inv_jointlyValid {c : Ctx} {s : TxPool} (h : Inv c s) :
    JointlyValid c.outs (utxoIds c) s.txpool.txs ∧
    JointlyValid c.outs (utxoIds c) (s.stempool.txs ++ s.txpool.txs) := by
  have bal : ∀ e, (e ∈ s.txpool ∨ e ∈ s.stempool) → e.tx.balanced c.outs = true := by
    intro e he
    have := h.valid e (by rcases he with he | he; exact Or.inl he; exact Or.inr (Or.inl he))
    exact (validate_shape this).2.2.2
  constructor
  · rw [jointlyValid_iff]
    refine ⟨netOK_of_txpoolOK h.txOK, ?_⟩
    intro t ht
    simp only [Pool.txs, List.mem_map] at ht
    obtain ⟨e, he, rfl⟩ := ht
    exact bal e (Or.inl he)
  · rw [jointlyValid_iff]
    refine ⟨h.stem, ?_⟩
    intro t ht
    simp only [Pool.txs, List.mem_append, List.mem_map] at ht
    rcases ht with ⟨e, he, rfl⟩ | ⟨e, he, rfl⟩
    · exact bal e (Or.inr he)
    · exact bal e (Or.inl he)

theorem inv_empty (c : Ctx) : Inv c {} :=
  ⟨fun e he => by simp at he, Or.inl rfl, by simpa using netOK_nil _⟩

instance (cs : Ctx × TxPool) (op : Op) : Decidable (evicts cs op) := by
  cases op <;> unfold evicts <;> infer_instance

instance instDecNoEvict : (cs : Ctx × TxPool) → (ops : List Op) → Decidable (NoEvict cs ops)
  | _, [] => isTrue trivial
  | cs, op :: ops =>
    have := instDecNoEvict (step cs op) ops
    by unfold NoEvict; infer_instance

/-! ### eviction -/

theorem count_filter_split (o : Nat) (f : Tx → List Nat) (P : Tx → Bool) (l : List Tx) :
    (l.flatMap f).count o = ((l.filter P).flatMap f).count o + ((l.filter (fun t => !P t)).flatMap f).count o := by
  induction l with
  | nil => simp
  | cons t rest ih =>
    by_cases h : P t = true
    · simp [List.filter_cons, h, List.count_append, ih]; omega
    · simp [List.filter_cons, h, List.count_append, ih]; omega

/-- removing every copy of `t` from a `NetOK` list keeps it `NetOK` when no remaining transaction
spends an output of `t` or re-creates an input of `t` (and `t` does not spend its own outputs) -/
theorem netOK_filter_ne {utxo : List Nat} {txs : List Tx} {t : Tx} (h : NetOK utxo txs)
    (hself : ∀ o ∈ t.outs, o ∉ t.ins)
    (hout : ∀ o ∈ t.outs, o ∉ allIns (txs.filter (fun x => x != t)))
    (hin : ∀ i ∈ t.ins, i ∉ allOuts (txs.filter (fun x => x != t))) :
    NetOK utxo (txs.filter (fun x => x != t)) := by
  have hrem : ∀ x ∈ txs.filter (fun x => !(x != t)), x = t := by
    intro x hx
    have := (List.mem_filter.mp hx).2
    simpa using this
  have hmemI : ∀ o ∈ allIns (txs.filter (fun x => !(x != t))), o ∈ t.ins := by
    intro o ho
    simp only [allIns, List.mem_flatMap] at ho
    obtain ⟨x, hx, hox⟩ := ho
    rw [hrem x hx] at hox; exact hox
  have hmemO : ∀ o ∈ allOuts (txs.filter (fun x => !(x != t))), o ∈ t.outs := by
    intro o ho
    simp only [allOuts, List.mem_flatMap] at ho
    obtain ⟨x, hx, hox⟩ := ho
    rw [hrem x hx] at hox; exact hox
  apply netOK_remove (removed := txs.filter (fun x => !(x != t)))
  · refine netOK_congr ?_ ?_ h
    · intro o
      simp only [allIns_append, List.count_append]
      exact count_filter_split o (·.ins) (fun x => x != t) txs
    · intro o
      simp only [allOuts_append, List.count_append]
      exact count_filter_split o (·.outs) (fun x => x != t) txs
  · intro o ho
    exact ⟨hout o (hmemO o ho), fun hi => hself o (hmemO o ho) (hmemI o hi)⟩
  · intro i hi
    exact hin i (hmemI i hi)

theorem txs_filter (p : Pool) (t : Tx) :
    Pool.txs (p.filter (fun e => e.tx != t)) = (Pool.txs p).filter (fun x => x != t) := by
  simp [Pool.txs, List.filter_map, Function.comp_def]

/-! ### admission -/

/-- the form in which a submitted transaction is considered: itself (stem) or deaggregated
against the txpool (fluff) -/
def entryOf (s : TxPool) (src : Src) (tx : Tx) (stem : Bool) : Except Err Entry :=
  if stem then .ok { tx, src } else s.deaggregateTx { tx, src }

theorem isAcceptable_low_fee {c : Ctx} {s : TxPool} {t : Tx} {stem : Bool}
    (hfee : t.shiftedFee < t.acceptFee c.cfg) : s.isAcceptable c t stem = some "LowFee" := by
  unfold TxPool.isAcceptable
  simp [hfee]

/-- fee below the minimum for the weight: refused, state unchanged — whatever the fill state of
the pool (the fee is checked before the capacity) -/
theorem addCore_refuses_low_fee {c : Ctx} {s : TxPool} (src : Src) (tx : Tx) (stem stemOk : Bool)
    (hfee : ∀ e, entryOf s src tx stem = .ok e → e.tx.shiftedFee < e.tx.acceptFee c.cfg) :
    ∃ er, s.addCore c src tx stem stemOk = (s, some er) := by
  unfold TxPool.addCore
  split
  · exact ⟨_, rfl⟩
  split
  · exact ⟨_, rfl⟩
  rename_i entry hentry
  simp only []
  split
  · exact ⟨_, rfl⟩
  have hf := isAcceptable_low_fee (s := s) (stem := stem) (hfee entry hentry)
  split
  · exact ⟨_, by rw [hf]⟩
  · rename_i hacc
    exfalso
    apply hacc
    rw [hf]
    simp

/-- standalone invalid (bad signature / range proof / sums, over the weight limit, …): refused,
state unchanged — whatever the capacity -/
theorem addCore_refuses_invalid {c : Ctx} {s : TxPool} (src : Src) (tx : Tx) (stem stemOk : Bool)
    (hbad : ∀ e, entryOf s src tx stem = .ok e → e.tx.validate c .asTransaction ≠ none) :
    ∃ er, s.addCore c src tx stem stemOk = (s, some er) := by
  unfold TxPool.addCore
  split
  · exact ⟨_, rfl⟩
  split
  · exact ⟨_, rfl⟩
  rename_i entry hentry
  simp only []
  split
  · exact ⟨_, rfl⟩
  split
  · rename_i hacc
    cases hs : s.isAcceptable c entry.tx stem with
    | none => rw [hs] at hacc; simp at hacc
    | some er => exact ⟨er, rfl⟩
  split
  · exact ⟨_, rfl⟩
  · rename_i hv
    exact absurd hv (hbad entry hentry)

theorem validate_too_heavy {c : Ctx} {t : Tx} (h : t.weight > c.cfg.maxTxW) :
    t.validate c .asTransaction ≠ none := by
  unfold Tx.validate
  split
  · simp
  · have : overWeight c.cfg .asTransaction t = true := by simp [overWeight, maxWeight, h]
    simp [this]

/-! ### the mineable set -/

/-- a list that is empty or whose aggregate passes `validate_raw_tx` with weighting `w` -/
def SetOK (c : Ctx) (w : Weighting) (txs : List Tx) : Prop :=
  txs = [] ∨ ∃ a, aggregate txs = .ok a ∧ validateRawTx c w a = none

theorem validateRawTxs_spec (c : Ctx) (w : Weighting) (txs valid res : List Tx)
    (hv : SetOK c w valid) (h : validateRawTxs c w none txs valid = .ok res) :
    SetOK c w res ∧ ∀ t ∈ res, t ∈ valid ∨ t ∈ txs := by
  induction txs generalizing valid with
  | nil =>
    simp only [validateRawTxs, Except.ok.injEq] at h
    subst h
    exact ⟨hv, fun t ht => Or.inl ht⟩
  | cons x rest ih =>
    simp only [validateRawTxs, Option.toList, List.nil_append] at h
    split at h
    · obtain ⟨h1, h2⟩ := ih valid hv h
      refine ⟨h1, fun t ht => ?_⟩
      rcases h2 t ht with h | h
      · exact Or.inl h
      · right; simp [h]
    · rename_i a ha
      split at h
      · rename_i hva
        obtain ⟨h1, h2⟩ := ih (valid ++ [x]) (Or.inr ⟨a, ha, hva⟩) h
        refine ⟨h1, fun t ht => ?_⟩
        rcases h2 t ht with h | h
        · rcases List.mem_append.mp h with h | h
          · exact Or.inl h
          · right; simp at h; simp [h]
        · right; simp [h]
      · obtain ⟨h1, h2⟩ := ih valid hv h
        refine ⟨h1, fun t ht => ?_⟩
        rcases h2 t ht with h | h
        · exact Or.inl h
        · right; simp [h]

/-- `validate_raw_txs` never fails: a candidate that does not aggregate or validate is skipped -/
theorem validateRawTxs_total (c : Ctx) (w : Weighting) (extra : Option Tx) (txs valid : List Tx) :
    ∃ res, validateRawTxs c w extra txs valid = .ok res := by
  induction txs generalizing valid with
  | nil => exact ⟨valid, rfl⟩
  | cons x rest ih =>
    simp only [validateRawTxs]
    split
    · exact ih valid
    · split
      · exact ih (valid ++ [x])
      · exact ih valid

theorem aggregateWith_raw {c : Ctx} {w : Weighting} {b nb : Bucket} {t : Tx}
    (h : b.aggregateWith c w t = some nb) : nb.raw = b.raw ++ [t] := by
  unfold Bucket.aggregateWith at h
  split at h
  · simp at h
  · split at h
    · simp at h
    · simp only [Option.some.injEq] at h
      rw [← h]

theorem bucketStep_mem (c : Ctx) (w : Weighting) (L : List Tx) (st : BState) (t : Tx) (ht : t ∈ L)
    (h : ∀ b ∈ st.buckets, ∀ x ∈ b.raw, x ∈ L) :
    ∀ b ∈ (bucketStep c w st t).buckets, ∀ x ∈ b.raw, x ∈ L := by
  unfold bucketStep
  simp only []
  split
  · exact h
  · split
    · intro b hb x hx
      simp only [List.mem_append, List.mem_singleton] at hb
      rcases hb with hb | hb
      · exact h b hb x hx
      · subst hb; simp [Bucket.new] at hx; subst hx; exact ht
    · rename_i pos _
      split
      · exact h
      · rename_i b0 hb0
        split
        · rename_i nb hnb
          have hraw := aggregateWith_raw hnb
          have hb0m : b0 ∈ st.buckets := List.mem_of_getElem? hb0
          split
          · intro b hb x hx
            rcases List.mem_or_eq_of_mem_set hb with hb | hb
            · exact h b hb x hx
            · subst hb
              rw [hraw] at hx
              rcases List.mem_append.mp hx with hx | hx
              · exact h b0 hb0m x hx
              · simp at hx; subst hx; exact ht
          · intro b hb x hx
            simp only [List.mem_append, List.mem_singleton] at hb
            rcases hb with hb | hb
            · exact h b hb x hx
            · subst hb; simp [Bucket.new] at hx; subst hx; exact ht
        · exact h

theorem foldl_bucketStep_mem (c : Ctx) (w : Weighting) (L : List Tx) (l : List Tx) (st : BState)
    (hl : ∀ t ∈ l, t ∈ L) (h : ∀ b ∈ st.buckets, ∀ x ∈ b.raw, x ∈ L) :
    ∀ b ∈ (l.foldl (bucketStep c w) st).buckets, ∀ x ∈ b.raw, x ∈ L := by
  induction l generalizing st with
  | nil => exact h
  | cons t rest ih =>
    simp only [List.foldl_cons]
    exact ih _ (fun x hx => hl x (by simp [hx])) (bucketStep_mem c w L st t (hl t (by simp)) h)

theorem mem_insertBucket {b x : Bucket} {l : List Bucket} (h : x ∈ insertBucket b l) : x = b ∨ x ∈ l := by
  induction l with
  | nil => simp [insertBucket] at h; exact Or.inl h
  | cons y ys ih =>
    simp only [insertBucket] at h
    split at h
    · simp at h; rcases h with h | h | h
      · exact Or.inl h
      · right; simp [h]
      · right; simp [h]
    · simp at h; rcases h with h | h
      · right; simp [h]
      · rcases ih h with h | h
        · exact Or.inl h
        · right; simp [h]

theorem mem_sortBuckets {x : Bucket} {l : List Bucket} (h : x ∈ sortBuckets l) : x ∈ l := by
  induction l with
  | nil => simp [sortBuckets] at h
  | cons y ys ih =>
    simp only [sortBuckets, List.foldr_cons] at h
    rcases mem_insertBucket h with h | h
    · simp [h]
    · right; exact ih h

/-- `bucket_transactions` only returns transactions of the pool -/
theorem bucketTransactions_mem (c : Ctx) (w : Weighting) (p : Pool) :
    ∀ t ∈ p.bucketTransactions c w, t ∈ p.txs := by
  intro t ht
  unfold Pool.bucketTransactions at ht
  simp only [List.mem_flatMap] at ht
  obtain ⟨b, hb, hx⟩ := ht
  exact foldl_bucketStep_mem c w p.txs p.txs {} (fun _ h => h) (by simp) b (mem_sortBuckets hb) t hx

end GV.Pool
