import GrinVerif.Lemmas.SerPrim
import GrinVerif.Model.SerSpec
/-! Round-trip lemmas for the codecs of `Model/SerTx.lean` (composable `++ rest` form). -/
namespace GV.Ser
open GV

theorem nrdMax_lt : NRD_MAX < 2^16 := by decide

theorem decNrdHeight_write (rel : Nat) (h1 : 1 ≤ rel) (h2 : rel ≤ NRD_MAX) (rest : Bytes) :
    decNrdHeight (writeU16 rel ++ rest) = .ok (rel, rest) := by
  have := nrdMax_lt
  have hlt : rel < 2^16 := by omega
  have h3 : ¬ (rel = 0 ∨ rel > NRD_MAX) := by omega
  simp [decNrdHeight, readU16_write rel hlt, h3]

theorem decNrdHeight_range (rel : Nat) (hlt : rel < 2^16) (h : rel = 0 ∨ rel > NRD_MAX) (rest : Bytes) :
    decNrdHeight (writeU16 rel ++ rest) = .error .corrupted := by
  simp [decNrdHeight, readU16_write rel hlt, h]

theorem decKernelFeaturesV1_enc (nrd : Bool) (f : KernelFeatures) (h : f.WF nrd) (rest : Bytes) :
    decKernelFeaturesV1 nrd (encKernelFeaturesV1 f ++ rest) = .ok (f, rest) := by
  cases f with
  | plain fee =>
    simp only [KernelFeatures.WF] at h
    simp [decKernelFeaturesV1, encKernelFeaturesV1, readU8_write, List.append_assoc,
      readU64_write _ h, readEmpty_write]
  | coinbase =>
    simp [decKernelFeaturesV1, encKernelFeaturesV1, readU8_write, List.append_assoc, readEmpty_write]
  | heightLocked fee lock =>
    obtain ⟨h1, h2⟩ := h
    simp [decKernelFeaturesV1, encKernelFeaturesV1, readU8_write, List.append_assoc,
      readU64_write _ h1, readU64_write _ h2]
  | noRecentDuplicate fee rel =>
    obtain ⟨h0, h1, h2, h3⟩ := h
    simp [decKernelFeaturesV1, encKernelFeaturesV1, readU8_write, List.append_assoc,
      readU64_write _ h1, readEmpty_write, decNrdHeight_write rel h2 h3, h0]

theorem decKernelFeaturesV2_enc (nrd : Bool) (f : KernelFeatures) (h : f.WF nrd) (rest : Bytes) :
    decKernelFeaturesV2 nrd (encKernelFeaturesV2 f ++ rest) = .ok (f, rest) := by
  cases f with
  | plain fee =>
    simp only [KernelFeatures.WF] at h
    simp [decKernelFeaturesV2, encKernelFeaturesV2, readU8_write, List.append_assoc, readU64_write _ h]
  | coinbase =>
    simp [decKernelFeaturesV2, encKernelFeaturesV2, writeU8, readU8]
  | heightLocked fee lock =>
    obtain ⟨h1, h2⟩ := h
    simp [decKernelFeaturesV2, encKernelFeaturesV2, readU8_write, List.append_assoc,
      readU64_write _ h1, readU64_write _ h2]
  | noRecentDuplicate fee rel =>
    obtain ⟨h0, h1, h2, h3⟩ := h
    simp [decKernelFeaturesV2, encKernelFeaturesV2, readU8_write, List.append_assoc,
      readU64_write _ h1, decNrdHeight_write rel h2 h3, h0]

theorem decKernelFeatures_enc (c : Cfg) (f : KernelFeatures) (h : f.WF c.nrd) (rest : Bytes) :
    decKernelFeatures c (encKernelFeatures c.ver .full f ++ rest) = .ok (f, rest) := by
  unfold decKernelFeatures encKernelFeatures
  by_cases hv : c.ver ≤ 1
  · simp [hv, decKernelFeaturesV1_enc c.nrd f h]
  · simp [hv, decKernelFeaturesV2_enc c.nrd f h]

theorem commitCap : COMMIT_SIZE ≤ MAX_FIXED_READ := by decide
theorem sigCap : SIG_SIZE ≤ MAX_FIXED_READ := by decide
theorem hashCap : HASH_SIZE ≤ MAX_FIXED_READ := by decide
theorem blindCap : BLIND_SIZE ≤ MAX_FIXED_READ := by decide

theorem decCommit_write (cm : Bytes) (h : cm.length = COMMIT_SIZE) (rest : Bytes) :
    decCommit (writeFixed cm ++ rest) = .ok (cm, rest) := readFixed_write cm _ h commitCap rest
theorem decSig_write (s : Bytes) (h : s.length = SIG_SIZE) (rest : Bytes) :
    decSig (writeFixed s ++ rest) = .ok (s, rest) := readFixed_write s _ h sigCap rest
theorem decHash_write (s : Bytes) (h : s.length = HASH_SIZE) (rest : Bytes) :
    decHash (writeFixed s ++ rest) = .ok (s, rest) := readFixed_write s _ h hashCap rest
theorem decBlind_write (s : Bytes) (h : s.length = BLIND_SIZE) (rest : Bytes) :
    decBlind (writeFixed s ++ rest) = .ok (s, rest) := readFixed_write s _ h blindCap rest

theorem decTxKernel_enc (c : Cfg) (k : TxKernel) (h : k.WF c.nrd) (rest : Bytes) :
    decTxKernel c (encTxKernel c.ver .full k ++ rest) = .ok (k, rest) := by
  obtain ⟨hf, he, hs⟩ := h
  simp only [decTxKernel, encTxKernel, List.append_assoc, decKernelFeatures_enc c _ hf,
    decCommit_write _ he, decSig_write _ hs, andThen_ok]

theorem decOutputFeatures_enc (f : OutputFeatures) (rest : Bytes) :
    decOutputFeatures (encOutputFeatures f ++ rest) = .ok (f, rest) := by
  cases f <;> simp [decOutputFeatures, encOutputFeatures, OutputFeatures.asU8, writeU8, readU8]

theorem decInput_enc (i : Input) (h : i.WF) (rest : Bytes) :
    decInput (encInput i ++ rest) = .ok (i, rest) := by
  simp only [decInput, encInput, List.append_assoc, decOutputFeatures_enc, decCommit_write _ h, andThen_ok]

theorem decOutputId_enc (o : OutputId) (h : o.WF) (rest : Bytes) :
    decOutputId (encOutputId o ++ rest) = .ok (o, rest) := by
  simp only [decOutputId, encOutputId, List.append_assoc, decOutputFeatures_enc, decCommit_write _ h, andThen_ok]

theorem decCommitWrapper_enc (cm : Bytes) (h : cm.length = COMMIT_SIZE) (rest : Bytes) :
    decCommitWrapper (encCommitWrapper cm ++ rest) = .ok (cm, rest) := decCommit_write cm h rest

theorem decRangeProof_enc (p : RangeProof) (h : p.WF) (rest : Bytes) :
    decRangeProof (encRangeProof p ++ rest) = .ok (p, rest) := by
  obtain ⟨plen, proof⟩ := p
  obtain ⟨h1, h2⟩ := h
  simp only at h1 h2
  subst h1
  have htake : proof.take MAX_PROOF_SIZE = proof := by rw [← h2]; exact List.take_length
  have hlen : proof.length < 2^64 := by rw [h2]; unfold MAX_PROOF_SIZE; omega
  have hmin : min proof.length MAX_PROOF_SIZE = MAX_PROOF_SIZE := by rw [h2]; exact Nat.min_self _
  have hcap : MAX_PROOF_SIZE ≤ MAX_FIXED_READ := by unfold MAX_PROOF_SIZE MAX_FIXED_READ; omega
  have hrf := readFixed_write proof MAX_PROOF_SIZE h2 hcap rest
  simp only [writeFixed] at hrf
  have hsub : MAX_PROOF_SIZE - proof.length = 0 := by omega
  simp only [decRangeProof, encRangeProof, writeBytes, htake, List.append_assoc,
    readU64_write _ hlen, andThen_ok, hmin, hrf, hsub, List.replicate_zero, List.append_nil]

theorem decOutput_enc (o : Output) (h : o.WF) (rest : Bytes) :
    decOutput (encOutput o ++ rest) = .ok (o, rest) := by
  -- (`rw`, not `simp`: unifying `andThen_ok` against a not-yet-rewritten decoder call makes `simp`
  -- evaluate the decoder symbolically)
  rw [decOutput, encOutput, List.append_assoc, decOutputId_enc _ h.1, andThen_ok,
    decRangeProof_enc _ h.2, andThen_ok]

end GV.Ser
