import GrinVerif.Lemmas.StoreProof
/-! Block-level histories of the output MMR (C08): what the chain's database remembers about its
block boundaries (`Bnd`: leaf count + unspent set of the output MMR at the end of a block) and
how the chain derives from it the arguments it passes to the store:

* `rewind_single_block` / `Extension::rewind`: the rewind target is an earlier boundary not below
  the last compaction cutoff, `rewind_rm_pos` = the leaves unspent at that boundary and spent now;
  rewinds come before the first append of the extension (block by block is fine);
* `TxHashSet::compact` → `check_compact(cutoff, input_pos_to_rewind(horizon, head))`: the cutoff is
  a committed boundary, `rewind_rm_pos` = every position spent by the blocks after it.

`book_conforms`: every such history, flattened to store operations, satisfies the usage protocol
`RefSt.Proto` (so `history_preserves_reference` applies), and the invariant `BInv` holds along the
way; its `prot` clause says that no leaf compacted away so far (`G`) is unspent now or at any
boundary a rewind may still target – including leaves a compaction protected (they were in
`rewind_rm_pos`) that a later rewind made unspent again.  `protected_never_pruned` reads this off
the store: no prune-list entry covers such a leaf.  Core Lean only. -/
namespace GV.Store
open GV GV.Pmmr GV.Pmmr.Co

/-- a committed block boundary: leaf count of the MMR and the unspent leaf positions there -/
structure Bnd where
  N : Nat
  U : List Nat
deriving Repr, DecidableEq

/-- what the chain does with its output MMR -/
inductive BOp
  /-- rewind to the boundary with index `j` (one step of `Extension::rewind`) -/
  | rewindTo (j : Nat)
  | push (e : Bytes)
  | prune (pos0 : Nat)
  /-- the extension is committed: `sync`, the new boundary is remembered -/
  | commit
  /-- the extension is rolled back: `discard`, the database batch is dropped -/
  | rollback
  /-- `check_compact` with the boundary of index `c` as cutoff -/
  | compact (c : Nat)
  | reopen
deriving Repr, DecidableEq

/-- the chain-side bookkeeping together with the reference of the store -/
structure Book where
  /-- boundaries of the current (working) history, oldest first -/
  chain : List Bnd := [⟨0, []⟩]
  /-- … as committed in the database (restored by `rollback`) -/
  chainC : List Bnd := [⟨0, []⟩]
  /-- index of the last compaction cutoff: the lowest boundary a rewind may still target -/
  minIdx : Nat := 0
  r : RefSt := {}

/-- `rewind_rm_pos` of a rewind to boundary `t`: unspent there, not unspent now (1-based) -/
def rmOf (t : Bnd) (U : List Nat) : Bitmap := (t.U.filter fun q => !U.elem q).map (· + 1)

/-- the positions spent by the blocks after the first boundary of the list -/
def spentAfter : List Bnd → List Nat
  | a :: b :: rest => (a.U.filter fun q => !b.U.elem q) ++ spentAfter (b :: rest)
  | _ => []

namespace Book

/-- the store operation the chain issues -/
def emit (b : Book) : BOp → HOp
  | .rewindTo j => let t := b.chain.getD j ⟨0, []⟩; .rewind t.N (rmOf t b.r.cur.U)
  | .push e => .push e
  | .prune p => .prune p
  | .commit => .sync
  | .rollback => .discard
  | .compact c => .compact (b.chain.getD c ⟨0, []⟩).N ((spentAfter (b.chain.drop c)).map (· + 1))
  | .reopen => .reopen

def step (b : Book) (op : BOp) : Book :=
  let r' := b.r.step (b.emit op)
  match op with
  | .rewindTo j => { b with chain := b.chain.take (j + 1), r := r' }
  | .commit =>
    let ch := b.chain ++ [⟨b.r.cur.es.length, b.r.cur.U⟩]
    { b with chain := ch, chainC := ch, r := r' }
  | .rollback => { b with chain := b.chainC, r := r' }
  | .compact c => { b with minIdx := c, r := r' }
  | _ => { b with r := r' }

/-- the chain's discipline: rewinds before the first append of an extension, to a boundary from the
last compaction cutoff on; compaction and reopen between extensions, the cutoff a remembered
boundary not below the previous cutoff; sizes below `2^64 − 64` -/
def ok (b : Book) : BOp → Prop
  | .rewindTo j => b.r.app = false ∧ b.minIdx ≤ j ∧ j < b.chain.length
  | .push _ => mmr (b.r.cur.es.length + 1) + 64 < 2 ^ 64
  | .compact c => b.r.dirty = false ∧ b.minIdx ≤ c ∧ c < b.chain.length
  | .reopen => b.r.dirty = false
  | _ => True

instance okDec (b : Book) (op : BOp) : Decidable (b.ok op) := by
  cases op <;> unfold ok <;> exact inferInstance

def Ok : Book → List BOp → Prop
  | _, [] => True
  | b, op :: ops => b.ok op ∧ Ok (b.step op) ops

instance OkDec : ∀ (b : Book) (ops : List BOp), Decidable (Ok b ops)
  | _, [] => isTrue trivial
  | b, op :: ops =>
    have := OkDec (b.step op) ops
    by unfold Ok; exact inferInstance

/-- the store operations of a block-level history -/
def ops : Book → List BOp → List HOp
  | _, [] => []
  | b, op :: rest => b.emit op :: ops (b.step op) rest

def run (b : Book) (l : List BOp) : Book := l.foldl step b

end Book

/-! ### the invariant -/

/-- boundaries `chain` (rewindable from index `m` on) with the reference view `v` of their tip -/
structure Good (G : List Nat) (C m : Nat) (chain : List Bnd) (v : RefView) : Prop where
  idx : m < chain.length
  leafU : ∀ t ∈ chain, ∀ q ∈ t.U, isLeaf q = true ∧ q < mmr t.N
  mono : chain.Pairwise (fun a b => a.N ≤ b.N)
  tipN : ∀ t ∈ chain, t.N ≤ v.es.length
  cN : ∀ k t, m ≤ k → chain[k]? = some t → C ≤ t.N
  /-- **no compacted leaf is unspent at a boundary a rewind may still target** -/
  prot : ∀ k t, m ≤ k → chain[k]? = some t → ∀ q ∈ t.U, q ∉ G
  /-- … nor unspent now -/
  curU : ∀ q ∈ v.U, isLeaf q = true ∧ q < mmr v.es.length ∧ q ∉ G

theorem Good.cle {G : List Nat} {C m : Nat} {chain : List Bnd} {v : RefView} (h : Good G C m chain v) :
    C ≤ v.es.length := by
  have hi := h.idx
  have hm : chain[m]? = some chain[m] := List.getElem?_eq_getElem hi
  exact Nat.le_trans (h.cN m _ (Nat.le_refl _) hm) (h.tipN _ (List.getElem_mem hi))

structure BInv (b : Book) : Prop where
  work : Good b.r.G b.r.C b.minIdx b.chain b.r.cur
  comm : Good b.r.G b.r.C b.minIdx b.chainC b.r.saved
  tip : ∃ t, b.chainC.getLast? = some t ∧ t.N = b.r.saved.es.length ∧ ∀ q, q ∈ t.U ↔ q ∈ b.r.saved.U
  clean : b.r.dirty = false → b.chain = b.chainC ∧ b.r.cur = b.r.saved
  gC : ∀ q ∈ b.r.G, q < mmr b.r.C

theorem binv_init : BInv {} := by
  have hg : Good [] 0 0 [⟨0, []⟩] {} := by
    refine ⟨by simp, ?_, List.pairwise_singleton _ _, ?_, ?_, ?_, ?_⟩
    · intro t ht q hq; simp at ht; subst ht; simp at hq
    · intro t ht; simp at ht; subst ht; exact Nat.le_refl _
    · intro k t _ _; exact Nat.zero_le _
    · intro k t _ _ q _; simp
    · intro q hq; exact absurd hq (by simp)
  exact ⟨hg, hg, ⟨⟨0, []⟩, rfl, rfl, fun q => Iff.rfl⟩, fun _ => ⟨rfl, rfl⟩, fun q hq => absurd hq (by simp)⟩

/-! ### spent positions along a chain of boundaries -/

theorem spentAfter_suffix (a : Bnd) (l : List Bnd) (q : Nat) (h : q ∈ spentAfter l) :
    q ∈ spentAfter (a :: l) := by
  cases l with
  | nil => simp [spentAfter] at h
  | cons b rest => simp only [spentAfter, List.mem_append]; exact Or.inr h

theorem spentAfter_drop (l : List Bnd) (c k : Nat) (hck : c ≤ k) (q : Nat)
    (h : q ∈ spentAfter (l.drop k)) : q ∈ spentAfter (l.drop c) := by
  induction l generalizing c k with
  | nil => simpa using h
  | cons a l ih =>
    cases c with
    | zero =>
      cases k with
      | zero => exact h
      | succ k =>
        simp only [List.drop_succ_cons] at h
        have := ih 0 k (Nat.zero_le _) h
        simp only [List.drop_zero] at this ⊢
        exact spentAfter_suffix a l q this
    | succ c =>
      cases k with
      | zero => omega
      | succ k =>
        simp only [List.drop_succ_cons] at h ⊢
        exact ih c k (by omega) h

/-- a leaf unspent at the first boundary and not at the last was spent by a block in between -/
theorem spent_between (l : List Bnd) (a last : Bnd) (q : Nat)
    (hl : (a :: l).getLast? = some last) (hq : q ∈ a.U) (hn : q ∉ last.U) :
    q ∈ spentAfter (a :: l) := by
  induction l generalizing a with
  | nil =>
    simp at hl; subst hl; exact absurd hq hn
  | cons b rest ih =>
    simp only [spentAfter, List.mem_append, List.mem_filter]
    by_cases hb : q ∈ b.U
    · right
      apply ih b _ hb
      rw [List.getLast?_cons_cons] at hl; exact hl
    · left
      exact ⟨hq, by simpa using hb⟩

theorem getLast?_drop {α : Type} (l : List α) (k : Nat) (hk : k < l.length) :
    (l.drop k).getLast? = l.getLast? := by
  rw [List.getLast?_drop]
  rw [if_neg (by omega)]

/-! ### one block-level operation -/

theorem mem_take_getElem? {α : Type} {l : List α} {n : Nat} {x : α} (h : x ∈ l.take n) :
    ∃ k, k < n ∧ l[k]? = some x := by
  obtain ⟨k, hk⟩ := List.mem_iff_getElem?.1 h
  rw [List.getElem?_take] at hk
  by_cases hkn : k < n
  · rw [if_pos hkn] at hk; exact ⟨k, hkn, hk⟩
  · rw [if_neg hkn] at hk; exact absurd hk (by simp)

theorem pairwise_getElem? {α : Type} {R : α → α → Prop} {l : List α} (h : l.Pairwise R)
    {i j : Nat} {a b : α} (hij : i < j) (ha : l[i]? = some a) (hb : l[j]? = some b) : R a b := by
  obtain ⟨hi, rfl⟩ := List.getElem?_eq_some_iff.1 ha
  obtain ⟨hj, rfl⟩ := List.getElem?_eq_some_iff.1 hb
  exact List.pairwise_iff_getElem.1 h i j hi hj hij

theorem isLeaf_mmr (N : Nat) : isLeaf (mmr N) = true := (isLeaf_iff _).2 (height_mmr N)

/-- **one operation of the chain's discipline is allowed by the usage protocol of the store and
keeps the block-level invariant** -/
theorem book_step {b : Book} (h : BInv b) (op : BOp) (hok : b.ok op) :
    b.r.ok (b.emit op) ∧ BInv (b.step op) := by
  obtain ⟨hw, hc, htip, hclean, hgC⟩ := h
  cases op with
  | rewindTo j =>
    obtain ⟨happ, hmj, hj⟩ := hok
    have hjt : b.chain[j]? = some b.chain[j] := List.getElem?_eq_getElem hj
    have hget : b.chain.getD j ⟨0, []⟩ = b.chain[j] := by
      simp [List.getD, hjt]
    have htm : b.chain[j] ∈ b.chain := List.getElem_mem hj
    generalize hteq : b.chain[j] = t at *
    have hrm : ∀ x ∈ rmOf t b.r.cur.U, ∃ q, q ∈ t.U ∧ q ∉ b.r.cur.U ∧ x = q + 1 := by
      intro x hx
      simp only [rmOf, List.mem_map, List.mem_filter] at hx
      obtain ⟨q, ⟨h1, h2⟩, rfl⟩ := hx
      exact ⟨q, h1, by simpa using h2, rfl⟩
    constructor
    · show b.r.ok (HOp.rewind (b.chain.getD j ⟨0, []⟩).N (rmOf (b.chain.getD j ⟨0, []⟩) b.r.cur.U))
      rw [hget]
      refine ⟨happ, hw.cN j t hmj hjt, hw.tipN t htm, ?_⟩
      intro x hx
      obtain ⟨q, hq1, _, rfl⟩ := hrm x hx
      obtain ⟨l1, l2⟩ := hw.leafU t htm q hq1
      refine ⟨by omega, by omega, by simpa using l1, ?_⟩
      simpa using hw.prot j t hmj hjt q hq1
    · have hlen : (b.r.cur.es.take t.N).length = t.N := by
        rw [List.length_take]; have := hw.tipN t htm; omega
      have hstep : b.step (.rewindTo j) =
          { b with chain := b.chain.take (j + 1),
                   r := b.r.step (.rewind t.N (rmOf t b.r.cur.U)) } := by
        show ({ b with chain := b.chain.take (j + 1), r := b.r.step (b.emit (.rewindTo j)) } : Book) = _
        simp only [Book.emit, hget]
      rw [hstep]
      refine ⟨?_, hc, htip, fun hd => absurd hd (by simp [RefSt.step]), hgC⟩
      show Good b.r.G b.r.C b.minIdx (b.chain.take (j + 1))
        { es := b.r.cur.es.take t.N, U := b.r.cur.U.filter (· < mmr t.N) ++ (rmOf t b.r.cur.U).map (· - 1) }
      refine ⟨?_, ?_, ?_, ?_, ?_, ?_, ?_⟩
      · rw [List.length_take]; omega
      · intro t' ht'; exact hw.leafU t' (List.mem_of_mem_take ht')
      · exact hw.mono.sublist (List.take_sublist _ _)
      · intro t' ht'
        show t'.N ≤ (b.r.cur.es.take t.N).length
        rw [hlen]
        obtain ⟨k, hk, hkt⟩ := mem_take_getElem? ht'
        by_cases hkj : k = j
        · subst hkj; rw [hjt] at hkt; injection hkt with e; rw [← e]; exact Nat.le_refl _
        · exact pairwise_getElem? hw.mono (by omega) hkt hjt
      · intro k t' hk hkt
        rw [List.getElem?_take] at hkt
        by_cases hkn : k < j + 1
        · rw [if_pos hkn] at hkt; exact hw.cN k t' hk hkt
        · rw [if_neg hkn] at hkt; exact absurd hkt (by simp)
      · intro k t' hk hkt
        rw [List.getElem?_take] at hkt
        by_cases hkn : k < j + 1
        · rw [if_pos hkn] at hkt; exact hw.prot k t' hk hkt
        · rw [if_neg hkn] at hkt; exact absurd hkt (by simp)
      · intro q hq
        show isLeaf q = true ∧ q < mmr (b.r.cur.es.take t.N).length ∧ q ∉ b.r.G
        rw [hlen]
        simp only [List.mem_append, List.mem_filter, decide_eq_true_eq, List.mem_map] at hq
        rcases hq with ⟨h1, h2⟩ | ⟨x, hx, rfl⟩
        · obtain ⟨a1, _, a3⟩ := hw.curU q h1
          exact ⟨a1, h2, a3⟩
        · obtain ⟨q, hq1, _, rfl⟩ := hrm x hx
          obtain ⟨l1, l2⟩ := hw.leafU t htm q hq1
          rw [Nat.add_sub_cancel]
          exact ⟨l1, l2, hw.prot j t hmj hjt q hq1⟩
  | push e =>
    have hb : mmr (b.r.cur.es.length + 1) + 64 < 2 ^ 64 := hok
    refine ⟨hb, ?_, hc, htip, fun hd => absurd hd (by simp [Book.step, Book.emit, RefSt.step]), hgC⟩
    show Good b.r.G b.r.C b.minIdx b.chain
      { es := b.r.cur.es ++ [e], U := b.r.cur.U ++ [mmr b.r.cur.es.length] }
    have hlen : (b.r.cur.es ++ [e]).length = b.r.cur.es.length + 1 := by simp
    refine ⟨hw.idx, hw.leafU, hw.mono, ?_, hw.cN, hw.prot, ?_⟩
    · intro t ht
      show t.N ≤ (b.r.cur.es ++ [e]).length
      rw [hlen]; have := hw.tipN t ht; omega
    · intro q hq
      show isLeaf q = true ∧ q < mmr (b.r.cur.es ++ [e]).length ∧ q ∉ b.r.G
      rw [hlen]
      simp only [List.mem_append, List.mem_singleton] at hq
      rcases hq with h1 | rfl
      · obtain ⟨a1, a2, a3⟩ := hw.curU q h1
        exact ⟨a1, Nat.lt_of_lt_of_le a2 (mmr_le_mmr (by omega)), a3⟩
      · refine ⟨isLeaf_mmr _, mmr_lt_mmr (by omega), ?_⟩
        intro hin
        have h1 := hgC _ hin
        have h2 := mmr_le_mmr hw.cle
        omega
  | prune p =>
    refine ⟨trivial, ?_, hc, htip, fun hd => absurd hd (by simp [Book.step, Book.emit, RefSt.step]), hgC⟩
    show Good b.r.G b.r.C b.minIdx b.chain { b.r.cur with U := b.r.cur.U.filter (· != p) }
    refine ⟨hw.idx, hw.leafU, hw.mono, hw.tipN, hw.cN, hw.prot, ?_⟩
    intro q hq
    exact hw.curU q (List.mem_filter.1 hq).1
  | commit =>
    refine ⟨trivial, ?_⟩
    have hg : Good b.r.G b.r.C b.minIdx (b.chain ++ [⟨b.r.cur.es.length, b.r.cur.U⟩]) b.r.cur := by
      refine ⟨?_, ?_, ?_, ?_, ?_, ?_, hw.curU⟩
      · rw [List.length_append]; have := hw.idx; omega
      · intro t ht q hq
        rcases List.mem_append.1 ht with h1 | h1
        · exact hw.leafU t h1 q hq
        · simp only [List.mem_singleton] at h1; subst h1
          obtain ⟨a1, a2, _⟩ := hw.curU q hq
          exact ⟨a1, a2⟩
      · rw [List.pairwise_append]
        refine ⟨hw.mono, List.pairwise_singleton _ _, ?_⟩
        intro a ha c hc'
        simp only [List.mem_singleton] at hc'; subst hc'
        exact hw.tipN a ha
      · intro t ht
        rcases List.mem_append.1 ht with h1 | h1
        · exact hw.tipN t h1
        · simp only [List.mem_singleton] at h1; subst h1; exact Nat.le_refl _
      · intro k t hk hkt
        by_cases hkl : k < b.chain.length
        · rw [List.getElem?_append_left hkl] at hkt; exact hw.cN k t hk hkt
        · rw [List.getElem?_append_right (by omega)] at hkt
          have : t = ⟨b.r.cur.es.length, b.r.cur.U⟩ := by
            cases hd : k - b.chain.length with
            | zero => rw [hd] at hkt; simpa using hkt.symm
            | succ n => rw [hd] at hkt; simp at hkt
          subst this; exact hw.cle
      · intro k t hk hkt
        by_cases hkl : k < b.chain.length
        · rw [List.getElem?_append_left hkl] at hkt; exact hw.prot k t hk hkt
        · rw [List.getElem?_append_right (by omega)] at hkt
          have : t = ⟨b.r.cur.es.length, b.r.cur.U⟩ := by
            cases hd : k - b.chain.length with
            | zero => rw [hd] at hkt; simpa using hkt.symm
            | succ n => rw [hd] at hkt; simp at hkt
          subst this
          intro q hq; exact (hw.curU q hq).2.2
    exact ⟨hg, hg, ⟨⟨b.r.cur.es.length, b.r.cur.U⟩, by simp [Book.step], rfl, fun q => Iff.rfl⟩,
      fun _ => ⟨rfl, rfl⟩, hgC⟩
  | rollback =>
    exact ⟨trivial, hc, hc, htip, fun _ => ⟨rfl, rfl⟩, hgC⟩
  | compact c =>
    obtain ⟨hd, hmc, hcl⟩ := hok
    obtain ⟨hch, hcs⟩ := hclean hd
    have hct : b.chain[c]? = some b.chain[c] := List.getElem?_eq_getElem hcl
    have hget : b.chain.getD c ⟨0, []⟩ = b.chain[c] := by simp [List.getD, hct]
    have htm : b.chain[c] ∈ b.chain := List.getElem_mem hcl
    generalize hteq : b.chain[c] = t at *
    constructor
    · show b.r.ok (HOp.compact (b.chain.getD c ⟨0, []⟩).N _)
      rw [hget]; exact ⟨hd, hw.tipN t htm⟩
    · -- the new ghost set and cutoff
      have hstep : b.step (.compact c) =
          { b with minIdx := c,
                   r := b.r.step (.compact t.N ((spentAfter (b.chain.drop c)).map (· + 1))) } := by
        show ({ b with minIdx := c, r := b.r.step (b.emit (.compact c)) } : Book) = _
        simp only [Book.emit, hget]
      rw [hstep]
      -- a leaf unspent at a boundary from `c` on is unspent now or in `rewind_rm_pos`
      have hkey : ∀ k t', c ≤ k → b.chain[k]? = some t' → ∀ q ∈ t'.U,
          q ∈ b.r.cur.U ∨ (q + 1) ∈ (spentAfter (b.chain.drop c)).map (· + 1) := by
        intro k t' hk hkt q hq
        obtain ⟨last, hl1, _, hl3⟩ := htip
        by_cases hin : q ∈ b.r.cur.U
        · exact Or.inl hin
        · right
          have hnl : q ∉ last.U := by
            intro hx; exact hin (by rw [hcs]; exact (hl3 q).1 hx)
          obtain ⟨hkl, hke⟩ := List.getElem?_eq_some_iff.1 hkt
          have hdrop : b.chain.drop k = t' :: b.chain.drop (k + 1) := by
            rw [← hke]; exact List.drop_eq_getElem_cons hkl
          have hlast : (t' :: b.chain.drop (k + 1)).getLast? = some last := by
            rw [← hdrop, getLast?_drop _ _ hkl, hch]; exact hl1
          have h1 := spent_between _ t' last q hlast hq hnl
          rw [← hdrop] at h1
          exact List.mem_map.2 ⟨q, spentAfter_drop _ c k hk q h1, rfl⟩
      have hgood : ∀ (chain : List Bnd) (v : RefView), chain = b.chain → v = b.r.cur →
          Good (b.r.step (.compact t.N ((spentAfter (b.chain.drop c)).map (· + 1)))).G (max b.r.C t.N) c chain v := by
        intro chain v hce hve
        subst hce hve
        have hnew : ∀ q, q ∈ (b.r.step (.compact t.N ((spentAfter (b.chain.drop c)).map (· + 1)))).G →
            q ∈ b.r.G ∨ (q ∉ b.r.cur.U ∧ (q + 1) ∉ (spentAfter (b.chain.drop c)).map (· + 1)) := by
          intro q hq
          simp only [RefSt.step, List.mem_append, List.mem_filter, Bool.and_eq_true, Bool.not_eq_true',
            List.elem_eq_mem, decide_eq_false_iff_not] at hq
          rcases hq with h1 | ⟨_, ⟨⟨⟨_, h3⟩, h4⟩, _⟩⟩
          · exact Or.inl h1
          · exact Or.inr ⟨h3, h4⟩
        refine ⟨hcl, hw.leafU, hw.mono, hw.tipN, ?_, ?_, ?_⟩
        · intro k t' hk hkt
          have h1 := hw.cN k t' (by omega) hkt
          have h2 : t.N ≤ t'.N := by
            by_cases hkc : k = c
            · subst hkc; rw [hct] at hkt; injection hkt with e; rw [← e]; exact Nat.le_refl _
            · exact pairwise_getElem? hw.mono (by omega) hct hkt
          omega
        · intro k t' hk hkt q hq hin
          rcases hnew q hin with h1 | ⟨h1, h2⟩
          · exact hw.prot k t' (by omega) hkt q hq h1
          · rcases hkey k t' hk hkt q hq with h3 | h3
            · exact h1 h3
            · exact h2 h3
        · intro q hq
          obtain ⟨a1, a2, a3⟩ := hw.curU q hq
          refine ⟨a1, a2, ?_⟩
          intro hin
          rcases hnew q hin with h1 | ⟨h1, _⟩
          · exact a3 h1
          · exact h1 hq
      refine ⟨hgood _ _ rfl rfl, hgood _ _ hch.symm hcs.symm, htip, fun _ => ⟨hch, hcs⟩, ?_⟩
      intro q hq
      show q < mmr (max b.r.C t.N)
      simp only [RefSt.step, List.mem_append, List.mem_filter, List.mem_range] at hq
      rcases hq with h1 | ⟨h1, _⟩
      · exact Nat.lt_of_lt_of_le (hgC q h1) (mmr_le_mmr (Nat.le_max_left _ _))
      · exact Nat.lt_of_lt_of_le h1 (mmr_le_mmr (Nat.le_max_right _ _))
  | reopen =>
    exact ⟨hok, hw, hc, htip, hclean, hgC⟩

/-- **every block-level history of the chain's discipline conforms to the usage protocol of the
store**, and the block-level invariant holds at its end -/
theorem book_run {b : Book} (h : BInv b) (l : List BOp) (hok : Book.Ok b l) :
    RefSt.Proto b.r (Book.ops b l) ∧ BInv (Book.run b l) ∧
    (Book.run b l).r = (Book.ops b l).foldl RefSt.step b.r := by
  induction l generalizing b with
  | nil => exact ⟨trivial, h, rfl⟩
  | cons op rest ih =>
    obtain ⟨h1, h2⟩ := hok
    obtain ⟨s1, s2⟩ := book_step h op h1
    obtain ⟨i1, i2, i3⟩ := ih s2 h2
    refine ⟨⟨s1, ?_⟩, i2, ?_⟩
    · have : (b.step op).r = b.r.step (b.emit op) := by cases op <;> rfl
      rw [← this]; exact i1
    · show (Book.run (b.step op) rest).r = _
      rw [i3]
      have : (b.step op).r = b.r.step (b.emit op) := by cases op <;> rfl
      rw [this]; rfl

/-- a leaf position outside the ghost set is not covered by the prune list of a store that
satisfies the history invariant -/
theorem HInv.not_pruned {H : Type} {hf : HashFn Bytes H} {p : PM H} {r : RefSt} (h : HInv hf p r)
    {q : Nat} (hl : isLeaf q = true) (hq : q ∉ r.G) : p.b.pruneList.isPruned q = false := by
  obtain ⟨⟨df, hc⟩, _, _⟩ := h
  cases hp : p.b.pruneList.isPruned q with
  | false => rfl
  | true =>
    have := (PruneList.isPruned_iff_prunedBy hc.live.inv q).1 hp
    exact absurd ((hc.pruned q ((isLeaf_iff q).1 hl)).1 this) hq

/-- **no prune-list entry covers a leaf that is unspent or that a permitted rewind can make
unspent again.**  After any block-level history of the chain's discipline – compactions whose
`rewind_rm_pos` protected leaves spent inside the horizon, rewinds that un-spent such leaves,
spends of their siblings, further compactions, reopen – the prune list of the store prunes
neither a currently unspent leaf nor a leaf that is unspent at any remembered boundary from the
last compaction cutoff on; between units the prune list re-read from its file is that list. -/
theorem protected_not_pruned {H : Type} (el : Bytes → Option Nat) (hf : HashFn Bytes H)
    (l : List BOp) (hok : Book.Ok {} l) :
    let bk := Book.run {} l
    let p := (Book.ops {} l).foldl (bstep el hf) ({} : PM H)
    (∀ q ∈ bk.r.cur.U, p.b.pruneList.isPruned q = false) ∧
    (∀ k t, bk.minIdx ≤ k → bk.chain[k]? = some t → ∀ q ∈ t.U, p.b.pruneList.isPruned q = false) ∧
    PruneList.openBm p.b.pruneFile = p.b.pruneList := by
  intro bk p
  obtain ⟨h1, h2, h3⟩ := book_run binv_init l hok
  have hinv : HInv hf p bk.r := by
    show HInv hf _ (Book.run {} l).r
    rw [h3]
    exact hinv_run el hf _ _ _ (hinv_init hf) h1
  refine ⟨?_, ?_, ?_⟩
  · intro q hq
    obtain ⟨a1, _, a3⟩ := h2.work.curU q hq
    exact hinv.not_pruned a1 a3
  · intro k t hk hkt q hq
    obtain ⟨hkl, hke⟩ := List.getElem?_eq_some_iff.1 hkt
    have htm : t ∈ bk.chain := by rw [← hke]; exact List.getElem_mem hkl
    exact hinv.not_pruned (h2.work.leafU t htm q hq).1 (h2.work.prot k t hk hkt q hq)
  · obtain ⟨⟨df, hc⟩, _, _⟩ := hinv
    rw [hc.live.pruneFile]; exact PruneList.openBm_of_inv hc.live.inv

end GV.Store
