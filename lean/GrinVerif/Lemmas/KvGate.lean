import GrinVerif.Model.KvGate
import GrinVerif.Model.Kv
import GrinVerif.Model.KvResize
import GrinVerif.Lemmas.TxCount
/-! Lemmas about gate shapes (`Model/KvGate.lean`): the semantics of a single-exit `loop { }`,
its instances for `enter_tx` and the waiter, the tie to the transition systems `GV.TxCount` and
`GV.Kv.Gate`, draining of the holders, and the covering invariant of site programs. -/
namespace GV.KvGate
open GV.TxCount

/-! ### a `loop { }` with exactly one exit -/

theorem pollIter_single (ρ : Env) (k : ExitKind) (g : List Atom) :
    pollIter ρ [{ kind := k, guard := g }] = if guardHolds ρ g then .exit k else .sleep := by
  simp [pollIter]

/-- as long as the guard is false the loop keeps polling - for ANY number of polls -/
theorem pollRun_single_waiting (w : WaitLoop) (k : ExitKind) (g : List Atom) (hl : w.loop = .forever)
    (he : w.exits = [{ kind := k, guard := g }]) (ρs : Nat → Env) (ends : Nat → Bool) :
    ∀ n i, (∀ j, i ≤ j → j < i + n → guardHolds (ρs j) g = false) → pollRun w ρs ends n i = .waiting := by
  intro n
  induction n with
  | zero => intro i _; rfl
  | succ n ih =>
    intro i h
    have h0 : guardHolds (ρs i) g = false := h i (Nat.le_refl _) (by omega)
    simp only [pollRun, hl, bne_self_eq_false, Bool.false_and, he, pollIter_single, h0]
    exact ih (i + 1) (fun j h1 h2 => h j (by omega) (by omega))

/-- it leaves at the first poll that finds the guard true, through its one exit -/
theorem pollRun_single_leaves (w : WaitLoop) (k : ExitKind) (g : List Atom) (hl : w.loop = .forever)
    (he : w.exits = [{ kind := k, guard := g }]) (ρs : Nat → Env) (ends : Nat → Bool) :
    ∀ m n i, (∀ j, i ≤ j → j < i + m → guardHolds (ρs j) g = false) → guardHolds (ρs (i + m)) g = true →
      m < n → pollRun w ρs ends n i = .left (i + m) k := by
  intro m
  induction m with
  | zero =>
    intro n i _ ht hn
    cases n with
    | zero => omega
    | succ n =>
      simp only [Nat.add_zero] at ht
      simp [pollRun, hl, he, pollIter_single, ht]
  | succ m ih =>
    intro n i hf ht hn
    cases n with
    | zero => omega
    | succ n =>
      have h0 : guardHolds (ρs i) g = false := hf i (Nat.le_refl _) (by omega)
      simp only [pollRun, hl, bne_self_eq_false, Bool.false_and, he, pollIter_single, h0]
      have e : i + 1 + m = i + (m + 1) := by omega
      have := ih n (i + 1) (fun j h1 h2 => hf j (by omega) (by omega)) (by rw [e]; exact ht) (by omega)
      rw [e] at this
      exact this

/-- … and in no other way: whatever the polls find, the outcome is "still waiting" or "left through
the one exit at a poll where its guard held" - never another exit, never the end of the loop -/
theorem pollRun_single_sound (w : WaitLoop) (k : ExitKind) (g : List Atom) (hl : w.loop = .forever)
    (he : w.exits = [{ kind := k, guard := g }]) (ρs : Nat → Env) (ends : Nat → Bool) :
    ∀ n i, pollRun w ρs ends n i = .waiting ∨
      ∃ j, i ≤ j ∧ pollRun w ρs ends n i = .left j k ∧ guardHolds (ρs j) g = true := by
  intro n
  induction n with
  | zero => intro i; exact Or.inl rfl
  | succ n ih =>
    intro i
    by_cases h0 : guardHolds (ρs i) g = true
    · refine Or.inr ⟨i, Nat.le_refl _, ?_, h0⟩
      simp [pollRun, hl, he, pollIter_single, h0]
    · have h0' : guardHolds (ρs i) g = false := by simpa using h0
      have hstep : pollRun w ρs ends (n + 1) i = pollRun w ρs ends n (i + 1) := by
        simp only [pollRun, hl, bne_self_eq_false, Bool.false_and, he, pollIter_single, h0']
        rfl
      rw [hstep]
      rcases ih (i + 1) with h | ⟨j, hj, h1, h2⟩
      · exact Or.inl h
      · exact Or.inr ⟨j, by omega, h1, h2⟩

/-! ### the two guards of the code -/

theorem guard_enter (ρ : Env) :
    guardHolds ρ [.notResizing, .threadNested] = (!ρ.resizing || ρ.nested) := by
  simp [guardHolds, Atom.eval]

theorem guard_waiter (ρ : Env) : guardHolds ρ [.countZero] = (ρ.count == 0) := by
  simp [guardHolds, Atom.eval]

/-- a thread that is outside every transaction while a resize is pending -/
def Env.held (ρ : Env) : Prop := ρ.resizing = true ∧ ρ.nested = false

theorem guard_enter_false_iff (ρ : Env) : guardHolds ρ [.notResizing, .threadNested] = false ↔ ρ.held := by
  rw [guard_enter]
  unfold Env.held
  cases ρ.resizing <;> cases ρ.nested <;> simp

theorem guard_enter_true_iff (ρ : Env) :
    guardHolds ρ [.notResizing, .threadNested] = true ↔ (ρ.resizing = false ∨ ρ.nested = true) := by
  rw [guard_enter]
  cases ρ.resizing <;> cases ρ.nested <;> simp

/-! ### the tie to the transition systems of the other theorems -/

/-- the guard of `enter` in `Model/TxCount.lean` is one poll of `enter_tx`'s loop finding its exit -/
theorem txcount_enter_is_poll (s : TxCount.St) (t : Nat) (u : Bool) (ht : t < s.ths.length) :
    TxCount.enabled s (.enter t) = true ↔ pollIter (envOf s t u) enterExits = .exit .pass := by
  have h1 : TxCount.enabled s (.enter t) = (!s.resizing || decide (TxCount.depth s t > 0)) := by
    simp [TxCount.enabled, TxCount.depth, ht]
  have h2 : pollIter (envOf s t u) enterExits
      = if (!s.resizing || decide (TxCount.depth s t > 0)) = true then .exit .pass else .sleep := by
    simp only [enterExits, pollIter_single, guard_enter, envOf]
  rw [h1, h2]
  generalize (!s.resizing || decide (TxCount.depth s t > 0)) = b
  cases b <;> simp

/-- the guard of `resize` in `Model/TxCount.lean` is one poll of the waiter's loop finding its exit,
while the flag is set -/
theorem txcount_resize_is_poll (s : TxCount.St) (n u : Bool) :
    TxCount.enabled s .resize = true ↔
      (s.resizing = true ∧
        pollIter { resizing := s.resizing, nested := n, count := s.counter, unknown := u } waiterExits = .exit .breakOut) := by
  simp only [waiterExits, pollIter_single, guard_waiter, TxCount.enabled, Bool.and_eq_true, decide_eq_true_eq]
  by_cases h : s.counter = 0
  · simp [h]
  · simp only [h, and_false, false_iff]
    intro hc
    have : (s.counter == 0) = false := by simpa using h
    rw [this] at hc
    simp at hc

/-- … and the same for the gate of `Model/Kv.lean` (`resize_gate_safe`) -/
theorem kvgate_enter_is_poll (g : Kv.Gate) (t : Nat) (u : Bool) (ht : t < g.cnt.length) :
    Kv.gateEnabled g (.enter t) = true ↔
      pollIter { resizing := g.resizing, nested := decide (Kv.cntOf t g.cnt > 0), count := g.openTxs, unknown := u }
        enterExits = .exit .pass := by
  have h1 : Kv.gateEnabled g (.enter t) = (!g.resizing || decide (Kv.cntOf t g.cnt > 0)) := by
    simp only [Kv.gateEnabled, ht, decide_true, Bool.true_and]
  rw [h1]
  simp only [enterExits, pollIter_single, guard_enter]
  generalize (!g.resizing || decide (Kv.cntOf t g.cnt > 0)) = b
  cases b <;> simp

/-! ### the holders can always close, and then the resize and everybody else proceeds -/

theorem step_resizing_of_ne_resize (s : TxCount.St) (a : Act) (ha : a ≠ .resize) (hr : s.resizing = true) :
    (TxCount.step s a).resizing = true := by
  cases a with
  | resize => exact absurd rfl ha
  | store t =>
    simp only [TxCount.step]
    cases (thOf t s.ths).reg <;> simp [hr]
  | _ => simp [TxCount.step, hr]

/-- however long the others go on (any valid schedule without the resize itself), the flag stays -/
theorem resizing_kept : ∀ (acts : List Act) (s s' : TxCount.St), runChecked s acts = some s' →
    s.resizing = true → (∀ a ∈ acts, a ≠ .resize) → s'.resizing = true
  | [], s, s', h, hr, _ => by
    simp only [runChecked, Option.some.injEq] at h
    rw [← h]; exact hr
  | a :: r, s, s', h, hr, hn => by
    simp only [runChecked] at h
    by_cases he : enabled s a = true
    · simp only [he, if_true] at h
      exact resizing_kept r _ s' h (step_resizing_of_ne_resize s a (hn a (by simp)) hr)
        (fun b hb => hn b (by simp [hb]))
    · simp [he] at h

/-- from every state of the atomic protocol the holders can close all their transactions, by leaves
alone -/
theorem holders_can_close : ∀ (n : Nat) (s : TxCount.St), Inv s → s.counter = n →
    ∃ acts s', (∀ a ∈ acts, ∃ t, a = Act.leave t) ∧ runChecked s acts = some s' ∧ s'.counter = 0 ∧
      s'.resizing = s.resizing ∧ s'.resizes = s.resizes ∧ Inv s' ∧ s'.ths.length = s.ths.length
  | 0, s, inv, h => ⟨[], s, by simp, rfl, h, rfl, rfl, inv, rfl⟩
  | n+1, s, inv, h => by
    have hpos : 0 < total s.ths := by rw [← inv.count]; omega
    obtain ⟨t, ht, hp⟩ := exists_pos_of_total_pos s.ths hpos
    have hreg : (thOf t s.ths).reg = none := inv.noreg _ (thOf_mem t s.ths ht)
    have he : enabled s (.leave t) = true := by
      simp only [enabled, Bool.and_eq_true, decide_eq_true_eq]
      exact ⟨⟨ht, hp⟩, by simp [hreg]⟩
    have inv' := inv_step s (.leave t) inv rfl he
    have hc : (TxCount.step s (.leave t)).counter = n := by simp only [TxCount.step]; omega
    obtain ⟨acts, s', h1, h2, h3, h4, h5, h6, h7⟩ := holders_can_close n _ inv' hc
    refine ⟨.leave t :: acts, s', ?_, ?_, h3, ?_, ?_, h6, ?_⟩
    · intro a ha
      simp only [List.mem_cons] at ha
      rcases ha with rfl | ha
      · exact ⟨t, rfl⟩
      · exact h1 a ha
    · simp only [runChecked, he, if_true]; exact h2
    · rw [h4]; simp [TxCount.step]
    · rw [h5]; simp [TxCount.step]
    · rw [h7, length_step]

/-! ### site programs: every live LMDB transaction is covered by a counter -/

theorem coveredFrom_head (s : Lt) (l : List LAct) (h : coveredFrom s l = true) : s.live ≤ s.counted := by
  cases l with
  | nil => simpa [coveredFrom] using h
  | cons a r =>
    simp only [coveredFrom, Bool.and_eq_true, decide_eq_true_eq] at h
    exact h.1

theorem coveredFrom_tail (s : Lt) (a : LAct) (r : List LAct) (h : coveredFrom s (a :: r) = true) :
    coveredFrom (lstep s a) r = true := by
  simp only [coveredFrom, Bool.and_eq_true] at h
  exact h.2

theorem coveredFrom_nil (s : Lt) (h : s.live ≤ s.counted) : coveredFrom s [] = true := by
  simp [coveredFrom, h]

/-- a site of the demanded shape keeps its transaction inside its counter, from any covered state -/
theorem site_prog_covered (site : Site) (h : site.Ok) (s : Lt) (hs : s.live ≤ s.counted) :
    coveredFrom s site.prog = true := by
  obtain ⟨h1, _, _, _, h5, h6⟩ := h
  have hp : site.prog = [.gate, .txnBegin, .txnEnd, .ungate] := by
    simp [Site.prog, h1, h5, h6]
  rw [hp]
  have h2 : s.live ≤ s.counted + 1 := by omega
  simp [coveredFrom, lstep, hs, h2]

def LInv (ths : List LThread) : Prop := ∀ th ∈ ths, coveredFrom th.st th.todo = true

theorem linv_sched (ths : List LThread) (t : Nat) (next : List LAct) (h : LInv ths)
    (hn : ∀ s : Lt, s.live ≤ s.counted → coveredFrom s next = true) : LInv (lsched ths t next) := by
  unfold lsched
  split
  · exact h
  · rename_i th hg
    have hmem : th ∈ ths := List.mem_of_getElem? hg
    have hth := h th hmem
    have key : ∀ (a : LAct) (r : List LAct), coveredFrom th.st (a :: r) = true →
        LInv (ths.set t { st := lstep th.st a, todo := r }) := by
      intro a r hc x hx
      rcases List.mem_or_eq_of_mem_set hx with hx | rfl
      · exact h x hx
      · exact coveredFrom_tail _ _ _ hc
    split
    · rename_i a r htodo
      exact key a r (htodo ▸ hth)
    · split
      · rename_i a r
        exact key a r (hn th.st (coveredFrom_head _ _ hth))
      · exact h

theorem sums_of_linv : ∀ (ths : List LThread), LInv ths → liveSum ths ≤ countedSum ths
  | [], _ => by simp [liveSum, countedSum]
  | th :: r, h => by
    have h1 := coveredFrom_head _ _ (h th (by simp))
    have h2 := sums_of_linv r (fun x hx => h x (by simp [hx]))
    simp only [liveSum, countedSum, List.map_cons, List.sum_cons] at h2 ⊢
    omega

/-- any schedule: thread `t` steps, starting program `p` when it is idle -/
def lrun (ths : List LThread) (sched : List (Nat × List LAct)) : List LThread :=
  sched.foldl (fun ths x => lsched ths x.1 x.2) ths

theorem linv_run : ∀ (sched : List (Nat × List LAct)) (ths : List LThread), LInv ths →
    (∀ x ∈ sched, ∀ s : Lt, s.live ≤ s.counted → coveredFrom s x.2 = true) → LInv (lrun ths sched)
  | [], _, h, _ => h
  | x :: r, ths, h, hn => by
    simp only [lrun, List.foldl]
    exact linv_run r _ (linv_sched ths x.1 x.2 h (hn x (by simp))) (fun y hy => hn y (by simp [hy]))

theorem linv_init (n : Nat) : LInv (List.replicate n {}) := by
  intro th hth
  rw [List.eq_of_mem_replicate hth]
  rfl

/-! ### `Model/KvResize.lean` read through a `ResizeShape` -/

/-- the bookkeeping statements, applied to the protocol state (`n` = the decided size) -/
def applyEffects : List Effect → Nat → Kv.REnv → Kv.REnv
  | [], _, e => e
  | .resize :: r, n, e => applyEffects r n { e with mapSize := n }
  | .clearResizing :: r, n, e => applyEffects r n { e with resizing := false }
  | .clearChecking :: r, n, e => applyEffects r n { e with checking := false }
  | .setResizing :: r, n, e => applyEffects r n { e with resizing := true }
  | _ :: r, n, e => applyEffects r n e

/-- one poll of the waiter thread, as the shape describes it: it leaves its loop through the exit a
poll finds, then runs the statements after the loop -/
def waiterStepOf (r : ResizeShape) (e : Kv.REnv) : Kv.REnv :=
  match e.pending with
  | some n =>
    match pollIter { resizing := e.resizing, nested := false, count := e.openTxs, unknown := false } r.waiter.exits with
    | .exit .breakOut => { applyEffects r.waiter.post n e with pending := none }
    | _ => e
  | none => e

/-- one call of `maybe_resize`, as the shape describes it -/
def maybeResizeOf (r : ResizeShape) (e : Kv.REnv) (used : Nat) : Kv.REnv × Kv.Branch :=
  if e.checking then (e, .guardBusy)
  else
    let nr := Kv.needsResize e.mapSize used e.chunk
    if !nr.1 then ({ e with checking := false }, .notNeeded)
    else
      let e1 : Kv.REnv := { e with checking := true, resizing := r.setResizingFirst || e.resizing }
      let defer := match r.deferCond with
        | .countNonZero => decide (e.openTxs ≠ 0)
        | .other => false
      if defer then ({ e1 with pending := some nr.2 }, .deferred nr.2)
      else (applyEffects r.immediate nr.2 e1, .immediate nr.2)

theorem waiterStepOf_eq (r : ResizeShape) (hr : r.Ok) (e : Kv.REnv) : waiterStepOf r e = Kv.waiterStep e := by
  obtain ⟨_, _, _, hx, _, _, hp, _⟩ := hr
  unfold waiterStepOf Kv.waiterStep
  cases hpend : e.pending with
  | none => rfl
  | some n =>
    simp only [hx, waiterExits, pollIter_single, guard_waiter, hp, applyEffects]
    by_cases h0 : e.openTxs = 0
    · simp [h0]
    · have : (e.openTxs == 0) = false := by simpa using h0
      simp [h0, this]

theorem maybeResizeOf_eq (r : ResizeShape) (hr : r.Ok) (e : Kv.REnv) (used : Nat) :
    maybeResizeOf r e used = Kv.maybeResize e used := by
  obtain ⟨h1, h2, _, _, _, _, _, _, _, hi, _⟩ := hr
  unfold maybeResizeOf Kv.maybeResize
  by_cases hc : e.checking = true
  · simp [hc]
  · simp only [hc, Bool.false_eq_true, if_false, h1, h2, hi, Bool.true_or, applyEffects]
    by_cases hn : (Kv.needsResize e.mapSize used e.chunk).1 = true
    · by_cases h0 : e.openTxs = 0 <;> simp [hn, h0]
    · simp [hn]

/-! ### shapes the obligations exclude (for the witnesses in `Props/C18.lean`) -/

/-- `enter_tx` with a second exit: `return Err(..)` under a condition the gate does not control -/
def boundedWaitShape : EnterShape :=
  { params := 0, ret := .result,
    wait := { loop := .forever,
              exits := enterExits ++ [{ kind := .err, guard := [.other] }],
              sleepMs := [10], otherWaits := 0, timeRefs := ["Instant", "elapsed"], pre := 1, post := [],
              unwraps := ["get", "get_mut"], lockReleasedBeforeSleep := true },
    passEffects := [.incGlobal, .incThread] }

/-- `Batch::new` with `write_txn()` before `enter_tx()` -/
def swappedSite : Site :=
  { name := "Batch::new", gateCalls := 1, unconditional := true, question := false, held := true,
    txn := .write, gateBeforeTxn := false }

end GV.KvGate
