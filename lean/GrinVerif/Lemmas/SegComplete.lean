import GrinVerif.Lemmas.SegTree
/-! Completeness of the loop of `Segment::root` over a complete subtree, relative to the node law
of the committed MMR (every parent hash is the hash of its two children, every leaf hash the hash
of its data — what `PMMR::validate` checks).  Core Lean only. -/
namespace GV.Seg
open GV GV.Pmmr

variable {α H : Type}

theorem rootLoop_append (hf : HashFn α H) (s : Segment α H) (bm : Option (Nat → Bool)) (size : Nat) :
    ∀ (a b : List Nat) (st : RootSt α H),
    rootLoop hf s bm size st (a ++ b) = match rootLoop hf s bm size st a with
      | .ok st' => rootLoop hf s bm size st' b
      | .err e => .err e
      | .panic => .panic := by
  intro a
  induction a with
  | nil => intro b st; simp [rootLoop]
  | cons p ps ih =>
    intro b st
    simp only [List.cons_append, rootLoop]
    cases rootStep hf s bm size st p with
    | ok m => exact ih b m
    | err e => rfl
    | panic => rfl

/-- the leaf entries an honest, unpruned segment carries for the positions `ps` -/
def leavesOf (dataAt : Nat → α) (ps : List Nat) : List (Nat × α) :=
  (ps.filter fun q => height q = 0).map fun q => (q, dataAt q)

theorem leavesOf_append (dataAt : Nat → α) (a b : List Nat) :
    leavesOf dataAt (a ++ b) = leavesOf dataAt a ++ leavesOf dataAt b := by
  simp [leavesOf]

/-- **the loop of `root` over a complete subtree computes the committed node hash** when the
segment carries the data of every leaf of the subtree (no bitmap) -/
theorem rootLoop_tree_complete (hf : HashFn α H) (s : Segment α H) (size : Nat)
    (hsAt : Nat → H) (dataAt : Nat → α)
    (leafLaw : ∀ q, height q = 0 → hsAt q = hf.leaf q (dataAt q))
    (nodeLaw : ∀ q k, height q = k + 1 → hsAt q = hf.node q (hsAt (q - 2 ^ (k + 1))) (hsAt (q - 1))) :
    ∀ (h p : Nat) (stk : List (Option H)) (rest : List (Nat × α)), height p = h →
      rootLoop hf s none size (stk, leavesOf dataAt (treeRange h p) ++ rest) (treeRange h p)
        = .ok (some (hsAt p) :: stk, rest) := by
  intro h
  induction h with
  | zero =>
    intro p stk rest hp
    simp only [treeRange_zero, leavesOf, rootLoop, rootStep, hp, if_true, required,
      List.filter_cons, decide_true, List.filter_nil, List.map_cons, List.map_nil,
      List.cons_append, List.nil_append, iterFind]
    rw [leafLaw p hp]
  | succ h ih =>
    intro p stk rest hp
    have hb := GV.Store.height_bound p
    rw [hp] at hb
    obtain ⟨hr, hl⟩ := height_children p h hp
    rw [treeRange_succ h p hb]
    have hleafp : leavesOf dataAt [p] = [] := by simp [leavesOf, hp]
    rw [leavesOf_append, leavesOf_append, hleafp, List.append_nil, List.append_assoc,
      rootLoop_append, rootLoop_append, ih _ stk _ hl]
    simp only
    rw [ih _ _ rest hr]
    simp only [rootLoop, rootStep, hp]
    simp only [Nat.add_one_ne_zero, if_false]
    rw [nodeLaw p h hp]

theorem rootWith_tree_complete (hf : HashFn α H) (s : Segment α H) (size : Nat)
    (hsAt : Nat → H) (dataAt : Nat → α)
    (leafLaw : ∀ q, height q = 0 → hsAt q = hf.leaf q (dataAt q))
    (nodeLaw : ∀ q k, height q = k + 1 → hsAt q = hf.node q (hsAt (q - 2 ^ (k + 1))) (hsAt (q - 1)))
    (h p : Nat) (hp : height p = h) (pks : List Nat) (rest : List (Nat × α))
    (hleaves : s.leafPos.zip s.leafData = leavesOf dataAt (treeRange h p) ++ rest) :
    rootWith hf s size none (treeRange h p) true pks = .ok (some (hsAt p)) := by
  unfold rootWith
  rw [hleaves, rootLoop_tree_complete hf s size hsAt dataAt leafLaw nodeLaw h p [] rest hp]
  simp [rootFinish]

/-- **Completeness of `Segment::root` for a full, unpruned segment** relative to the node law of
the committed MMR: a segment carrying the data of every leaf of its range has the committed hash
of its last position as root. -/
theorem root_complete_full (hf : HashFn α H) (s : Segment α H) (size : Nat)
    (hsAt : Nat → H) (dataAt : Nat → α)
    (leafLaw : ∀ q, height q = 0 → hsAt q = hf.leaf q (dataAt q))
    (nodeLaw : ∀ q k, height q = k + 1 → hsAt q = hf.node q (hsAt (q - 2 ^ (k + 1))) (hsAt (q - 1)))
    (v : FullId s.id size) (rest : List (Nat × α))
    (hleaves : s.leafPos.zip s.leafData = leavesOf dataAt (s.id.positions size) ++ rest) :
    s.root hf size none = .ok (some (hsAt (lastOf s.id))) := by
  rw [root_of_nonempty hf s size none (unprunedSize_ne_zero_of_full s.id size (full_arith s.id size v).2.2.1)]
  rw [full_positions s.id size v] at hleaves ⊢
  rw [(full_arith s.id size v).2.2.1]
  exact rootWith_tree_complete hf s size hsAt dataAt leafLaw nodeLaw _ _ (height_lastOf s.id) _ rest hleaves

end GV.Seg
